import Ark.Model.Curve
import Ark.Proofs.FieldOps
import Mathlib.Algebra.Field.Basic
import Mathlib.Tactic.Ring
import Mathlib.Tactic.FieldSimp
import Mathlib.Tactic.LinearCombination
import Mathlib.AlgebraicGeometry.EllipticCurve.Affine.Point
/-
  Ark.Proofs.CurveA — helper lemmas for property C03 (short Weierstrass part):
  the Jacobian formulas of `Ark.Curve.SW` compute the textbook affine chord-and-tangent law.
-/
set_option linter.unusedSectionVars false
set_option linter.unusedSimpArgs false
namespace Ark.Curve.SW

variable {F : Type} [Field F] [DecidableEq F]

/-! ### parametrisation of Jacobian triples -/

/-- the triple `(x z², y z³, z)` -/
def mk (x y z : F) : Jac F := ⟨x * (z * z), y * (z * z * z), z⟩

theorem toAff_mk (x y z : F) (hz : z ≠ 0) : toAff (mk x y z) = some (x, y) := by
  simp only [toAff, mk, hz, if_false]
  congr 2 <;> field_simp

/-- independence of the representative: rescaling by `l ≠ 0` does not change the denoted point -/
theorem toAff_rescale (x y z l : F) (hl : l ≠ 0) :
    toAff ⟨x * (l * l), y * (l * l * l), z * l⟩ = toAff ⟨x, y, z⟩ := by
  by_cases hz : z = 0
  · simp [toAff, hz]
  · have hzl : z * l ≠ 0 := mul_ne_zero hz hl
    simp only [toAff, hz, hzl, if_false]
    congr 2 <;> field_simp

theorem toAff_of_z_eq_zero {p : Jac F} (h : p.z = 0) : toAff p = none := by
  simp only [toAff, if_pos h]

theorem toAff_eq_none_iff (p : Jac F) : toAff p = none ↔ p.z = 0 := by
  unfold toAff
  split <;> simp_all

/-- every triple with `z ≠ 0` is of the form `mk x y z` -/
theorem exists_mk (p : Jac F) (hz : p.z ≠ 0) : ∃ x y z, z ≠ 0 ∧ p = mk x y z := by
  refine ⟨p.x * (p.z * p.z)⁻¹, p.y * (p.z * p.z * p.z)⁻¹, p.z, hz, ?_⟩
  cases p with
  | mk x y z =>
    simp only [mk, Jac.mk.injEq, and_true]
    simp only at hz
    constructor <;> field_simp

theorem isZero_eq_false {p : Jac F} (h : p.z ≠ 0) : p.isZero = false := by
  simp [Jac.isZero, h]

theorem isZero_eq_true {p : Jac F} (h : p.z = 0) : p.isZero = true := by
  simp [Jac.isZero, h]

/-! ### general branch -/

theorem add_mk_general (c : Curve F) (h2 : (2 : F) ≠ 0) (x1 y1 z1 x2 y2 z2 : F)
    (hz1 : z1 ≠ 0) (hz2 : z2 ≠ 0) (hx : x1 ≠ x2) :
    (add c (mk x1 y1 z1) (mk x2 y2 z2)).z ≠ 0 ∧
    toAff (add c (mk x1 y1 z1) (mk x2 y2 z2)) = affAdd c.a (some (x1, y1)) (some (x2, y2)) := by
  have hd : x2 - x1 ≠ 0 := sub_ne_zero.2 (Ne.symm hx)
  have hu : ¬ (x1 * (z1 * z1) * (z2 * z2) = x2 * (z2 * z2) * (z1 * z1)) := by
    intro h
    apply hx
    have : (x1 - x2) * (z1 * z1 * (z2 * z2)) = 0 := by linear_combination h
    rcases mul_eq_zero.1 this with h | h
    · exact sub_eq_zero.1 h
    · exact absurd h (mul_ne_zero (mul_ne_zero hz1 hz1) (mul_ne_zero hz2 hz2))
  have hz3 : (add c (mk x1 y1 z1) (mk x2 y2 z2)).z ≠ 0 := by
    simp only [add, mk, Jac.isZero, hz1, hz2, decide_false, Bool.false_eq_true, if_false, sq, dbl, hu]
    have : z1 * z2 + z1 * z2 = 2 * (z1 * z2) := by ring
    rw [this]
    refine mul_ne_zero (mul_ne_zero h2 (mul_ne_zero hz1 hz2)) ?_
    have : x2 * (z2 * z2) * (z1 * z1) - x1 * (z1 * z1) * (z2 * z2) = (x2 - x1) * (z1 * z1 * (z2 * z2)) := by
      ring
    rw [this]
    exact mul_ne_zero hd (mul_ne_zero (mul_ne_zero hz1 hz1) (mul_ne_zero hz2 hz2))
  refine ⟨hz3, ?_⟩
  rw [toAff, if_neg hz3]
  simp only [add, mk, Jac.isZero, hz1, hz2, decide_false, Bool.false_eq_true, if_false, sq, dbl, hu,
    affAdd, hx, false_and, ← two_mul]
  congr 2
  · field_simp
    ring
  · field_simp
    ring


/-! ### cross-multiplied comparisons -/

theorem u_eq_iff (x1 x2 z1 z2 : F) (hz1 : z1 ≠ 0) (hz2 : z2 ≠ 0) :
    x1 * (z1 * z1) * (z2 * z2) = x2 * (z2 * z2) * (z1 * z1) ↔ x1 = x2 := by
  constructor
  · intro h
    have : (x1 - x2) * (z1 * z1 * (z2 * z2)) = 0 := by linear_combination h
    rcases mul_eq_zero.1 this with h | h
    · exact sub_eq_zero.1 h
    · exact absurd h (mul_ne_zero (mul_ne_zero hz1 hz1) (mul_ne_zero hz2 hz2))
  · rintro rfl; ring

theorem s_eq_iff (y1 y2 z1 z2 : F) (hz1 : z1 ≠ 0) (hz2 : z2 ≠ 0) :
    y1 * (z1 * z1 * z1) * z2 * (z2 * z2) = y2 * (z2 * z2 * z2) * z1 * (z1 * z1) ↔ y1 = y2 := by
  constructor
  · intro h
    have : (y1 - y2) * (z1 * z1 * z1 * (z2 * z2 * z2)) = 0 := by linear_combination h
    rcases mul_eq_zero.1 this with h | h
    · exact sub_eq_zero.1 h
    · exact absurd h (mul_ne_zero (mul_ne_zero (mul_ne_zero hz1 hz1) hz1)
        (mul_ne_zero (mul_ne_zero hz2 hz2) hz2))
  · rintro rfl; ring

/-! ### identity branches -/

theorem add_of_left_zero (c : Curve F) (p q : Jac F) (h : p.z = 0) : add c p q = q := by
  simp [add, Jac.isZero, h]

theorem add_of_right_zero (c : Curve F) (p q : Jac F) (hp : p.z ≠ 0) (h : q.z = 0) :
    add c p q = p := by
  simp [add, Jac.isZero, h, hp]

theorem affAdd_none_left (a : F) (Q : Option (F × F)) : affAdd a none Q = Q := by
  simp [affAdd]

theorem affAdd_none_right (a : F) (P : Option (F × F)) : affAdd a P none = P := by
  cases P <;> simp [affAdd]

/-! ### double / opposite branches of `add` -/

theorem add_mk_double (c : Curve F) (x1 y1 z1 x2 y2 z2 : F) (hz1 : z1 ≠ 0) (hz2 : z2 ≠ 0)
    (hx : x1 = x2) (hy : y1 = y2) :
    add c (mk x1 y1 z1) (mk x2 y2 z2) = double c (mk x1 y1 z1) := by
  have hu := (u_eq_iff x1 x2 z1 z2 hz1 hz2).2 hx
  have hs := (s_eq_iff y1 y2 z1 z2 hz1 hz2).2 hy
  simp only [add, mk, Jac.isZero, hz1, hz2, decide_false, Bool.false_eq_true, if_false, sq, hu, hs,
    if_true]

theorem add_mk_opposite (c : Curve F) (x1 y1 z1 x2 y2 z2 : F) (hz1 : z1 ≠ 0) (hz2 : z2 ≠ 0)
    (hx : x1 = x2) (hy : y1 ≠ y2) :
    add c (mk x1 y1 z1) (mk x2 y2 z2) = Jac.zero := by
  have hu := (u_eq_iff x1 x2 z1 z2 hz1 hz2).2 hx
  have hs : ¬ (y1 * (z1 * z1 * z1) * z2 * (z2 * z2) = y2 * (z2 * z2 * z2) * z1 * (z1 * z1)) :=
    fun h => hy ((s_eq_iff y1 y2 z1 z2 hz1 hz2).1 h)
  simp only [add, mk, Jac.isZero, hz1, hz2, decide_false, Bool.false_eq_true, if_false, sq, hu, hs,
    if_true]

theorem toAff_zero : toAff (Jac.zero : Jac F) = none := by
  simp [toAff, Jac.zero]

/-! ### doubling -/

theorem double_of_zero (c : Curve F) (p : Jac F) (h : p.z = 0) : double c p = p := by
  simp [double, Jac.isZero, h]

theorem double_z (c : Curve F) (p : Jac F) (hz : p.z ≠ 0) :
    (double c p).z = 2 * (p.z * p.y) := by
  unfold double
  rw [isZero_eq_false hz]
  by_cases ha : c.a = 0
  · simp only [Bool.false_eq_true, if_false, ha, if_true, dbl]; ring
  · simp only [Bool.false_eq_true, if_false, ha, dbl]; ring

theorem toAff_double_mk (c : Curve F) (hA : ∀ e, c.mulByA e = c.a * e) (h2 : (2 : F) ≠ 0)
    (x y z : F) (hz : z ≠ 0) (hy : y ≠ 0) :
    toAff (double c (mk x y z)) = affAdd c.a (some (x, y)) (some (x, y)) := by
  have hz3 : (double c (mk x y z)).z ≠ 0 := by
    rw [double_z c _ hz]
    exact mul_ne_zero h2 (mul_ne_zero hz (mul_ne_zero hy (mul_ne_zero (mul_ne_zero hz hz) hz)))
  have hyy : 2 * y ≠ 0 := mul_ne_zero h2 hy
  rw [toAff, if_neg hz3]
  have hm : (mk x y z).isZero = false := isZero_eq_false hz
  unfold double
  rw [hm]
  by_cases ha : c.a = 0
  · cases hd : c.deg12
    · simp only [mk, Bool.false_eq_true, if_false, ha, if_true, sq, dbl, affAdd, ← two_mul]
      simp only [hyy, and_false, if_false, if_true]
      congr 2
      · field_simp
        ring
      · field_simp
        ring
    · simp only [mk, Bool.false_eq_true, if_false, ha, if_true, sq, dbl, affAdd, ← two_mul]
      simp only [hyy, and_false, if_false, if_true]
      congr 2
      · field_simp
        ring
      · field_simp
        ring
  · simp only [mk, Bool.false_eq_true, if_false, ha, if_true, sq, dbl, affAdd, ← two_mul, hA]
    simp only [hyy, and_false, if_false, if_true]
    congr 2
    · field_simp
      ring
    · field_simp
      ring


theorem affAdd_self_none (a x y : F) (h : 2 * y = 0) :
    affAdd a (some (x, y)) (some (x, y)) = none := by
  have : y + y = 0 := by rw [← two_mul]; exact h
  simp [affAdd, this]

/-- doubling of a finite point, all cases (`y = 0`, characteristic two included) -/
theorem toAff_double_mk_all (c : Curve F) (hA : ∀ e, c.mulByA e = c.a * e)
    (x y z : F) (hz : z ≠ 0) :
    toAff (double c (mk x y z)) = affAdd c.a (some (x, y)) (some (x, y)) := by
  by_cases h : (2 : F) * y = 0
  · rw [affAdd_self_none _ _ _ h]
    apply toAff_of_z_eq_zero
    rw [double_z c _ hz]
    show 2 * (z * (y * (z * z * z))) = 0
    linear_combination (z * (z * z * z)) * h
  · have h2 : (2 : F) ≠ 0 := fun e => h (by rw [e, zero_mul])
    have hy : y ≠ 0 := fun e => h (by rw [e, mul_zero])
    exact toAff_double_mk c hA h2 x y z hz hy

/-- `double` computes `P + P`, for every triple -/
theorem toAff_double (c : Curve F) (hA : ∀ e, c.mulByA e = c.a * e) (p : Jac F) :
    toAff (double c p) = affAdd c.a (toAff p) (toAff p) := by
  by_cases hz : p.z = 0
  · rw [double_of_zero c p hz, toAff_of_z_eq_zero hz, affAdd_none_left]
  · obtain ⟨x, y, z, hz', rfl⟩ := exists_mk p hz
    rw [toAff_double_mk_all c hA x y z hz', toAff_mk x y z hz']

/-! ### the curve equation and closure of the affine law -/

theorem onCurve_some (a b x y : F) :
    onCurve a b (some (x, y)) = true ↔ y * y = x * x * x + a * x + b := by
  simp [onCurve]

theorem onCurve_none (a b : F) : onCurve a b (none : Option (F × F)) = true := rfl

theorem onCurve_affNeg (a b : F) (P : Option (F × F)) :
    onCurve a b (affNeg P) = onCurve a b P := by
  rcases P with _ | ⟨x, y⟩
  · rfl
  · simp only [affNeg, onCurve, neg_mul_neg]

/-- two points of the curve with the same abscissa are equal or opposite -/
theorem y_eq_or_neg {a b x y1 y2 : F} (h1 : y1 * y1 = x * x * x + a * x + b)
    (h2 : y2 * y2 = x * x * x + a * x + b) : y1 = y2 ∨ y1 + y2 = 0 := by
  have : (y1 - y2) * (y1 + y2) = 0 := by linear_combination h1 - h2
  rcases mul_eq_zero.1 this with h | h
  · exact Or.inl (sub_eq_zero.1 h)
  · exact Or.inr h

theorem onCurve_tangent {a b x y lam : F} (h1 : y * y = x * x * x + a * x + b)
    (hl : lam * (y + y) = (1 + 1 + 1) * x * x + a) :
    (lam * (x - (lam * lam - x - x)) - y) * (lam * (x - (lam * lam - x - x)) - y) =
      (lam * lam - x - x) * (lam * lam - x - x) * (lam * lam - x - x) + a * (lam * lam - x - x) + b := by
  linear_combination h1 + (lam * lam - x - x - x) * hl

theorem onCurve_chord {a b x1 y1 x2 y2 lam : F} (h1 : y1 * y1 = x1 * x1 * x1 + a * x1 + b)
    (h2 : y2 * y2 = x2 * x2 * x2 + a * x2 + b) (hx : x1 ≠ x2)
    (hl : lam * (x2 - x1) = y2 - y1) :
    (lam * (x1 - (lam * lam - x1 - x2)) - y1) * (lam * (x1 - (lam * lam - x1 - x2)) - y1) =
      (lam * lam - x1 - x2) * (lam * lam - x1 - x2) * (lam * lam - x1 - x2) +
        a * (lam * lam - x1 - x2) + b := by
  have hd : x2 - x1 ≠ 0 := sub_ne_zero.2 (Ne.symm hx)
  have h2' : (y1 + lam * (x2 - x1)) * (y1 + lam * (x2 - x1)) = x2 * x2 * x2 + a * x2 + b := by
    rw [hl]; linear_combination h2
  -- divide the difference of the two equations by `x2 - x1`
  have hk : 2 * y1 * lam + lam * lam * (x2 - x1) = x2 * x2 + x1 * x2 + x1 * x1 + a := by
    apply mul_left_cancel₀ hd
    linear_combination h2' - h1
  linear_combination h1 + (lam * lam - x1 - x2 - x1) * hk


/-- closure: the sum of two points of the curve is on the curve -/
theorem onCurve_affAdd (a b : F) (P Q : Option (F × F)) (hP : onCurve a b P = true)
    (hQ : onCurve a b Q = true) : onCurve a b (affAdd a P Q) = true := by
  rcases P with _ | ⟨x1, y1⟩
  · rwa [affAdd_none_left]
  rcases Q with _ | ⟨x2, y2⟩
  · rwa [affAdd_none_right]
  rw [onCurve_some] at hP hQ
  by_cases hx : x1 = x2
  · subst hx
    by_cases hy : y1 + y2 = 0
    · simp [affAdd, hy, onCurve]
    · have hyy : y1 = y2 := (y_eq_or_neg hP hQ).resolve_right hy
      subst hyy
      simp only [affAdd, hy, and_false, if_false, if_true, onCurve_some]
      apply onCurve_tangent hP
      rw [mul_assoc, inv_mul_cancel₀ hy, mul_one]
  · simp only [affAdd, hx, false_and, if_false, onCurve_some]
    apply onCurve_chord hP hQ hx
    rw [mul_assoc, inv_mul_cancel₀ (sub_ne_zero.2 (Ne.symm hx)), mul_one]

/-! ### the opposite branch -/

theorem affAdd_opposite (a x y1 y2 : F) (h : y1 + y2 = 0) :
    affAdd a (some (x, y1)) (some (x, y2)) = none := by
  simp [affAdd, h]

/-! ### main theorem for `add` -/

theorem toAff_add_mk (c : Curve F) (hA : ∀ e, c.mulByA e = c.a * e) (h2 : (2 : F) ≠ 0)
    (x1 y1 z1 x2 y2 z2 : F) (hz1 : z1 ≠ 0) (hz2 : z2 ≠ 0)
    (hP : onCurve c.a c.b (some (x1, y1)) = true) (hQ : onCurve c.a c.b (some (x2, y2)) = true) :
    toAff (add c (mk x1 y1 z1) (mk x2 y2 z2)) = affAdd c.a (some (x1, y1)) (some (x2, y2)) := by
  by_cases hx : x1 = x2
  · by_cases hy : y1 = y2
    · rw [add_mk_double c _ _ _ _ _ _ hz1 hz2 hx hy, toAff_double_mk_all c hA _ _ _ hz1]
      subst hx; subst hy; rfl
    · rw [add_mk_opposite c _ _ _ _ _ _ hz1 hz2 hx hy, toAff_zero]
      subst hx
      rw [onCurve_some] at hP hQ
      rw [affAdd_opposite _ _ _ _ ((y_eq_or_neg hP hQ).resolve_left hy)]
  · exact (add_mk_general c h2 x1 y1 z1 x2 y2 z2 hz1 hz2 hx).2

/-- MAIN: `add` computes the affine law for all pairs of representatives of curve points -/
theorem toAff_add (c : Curve F) (hA : ∀ e, c.mulByA e = c.a * e) (h2 : (2 : F) ≠ 0)
    (p q : Jac F) (hP : onCurve c.a c.b (toAff p) = true) (hQ : onCurve c.a c.b (toAff q) = true) :
    toAff (add c p q) = affAdd c.a (toAff p) (toAff q) := by
  by_cases hz1 : p.z = 0
  · rw [add_of_left_zero c p q hz1, toAff_of_z_eq_zero hz1, affAdd_none_left]
  by_cases hz2 : q.z = 0
  · rw [add_of_right_zero c p q hz1 hz2, toAff_of_z_eq_zero hz2, affAdd_none_right]
  obtain ⟨x1, y1, z1, hz1', rfl⟩ := exists_mk p hz1
  obtain ⟨x2, y2, z2, hz2', rfl⟩ := exists_mk q hz2
  rw [toAff_mk _ _ _ hz1'] at hP ⊢
  rw [toAff_mk _ _ _ hz2'] at hQ ⊢
  exact toAff_add_mk c hA h2 x1 y1 z1 x2 y2 z2 hz1' hz2' hP hQ

theorem onCurve_add (c : Curve F) (hA : ∀ e, c.mulByA e = c.a * e) (h2 : (2 : F) ≠ 0)
    (p q : Jac F) (hP : onCurve c.a c.b (toAff p) = true) (hQ : onCurve c.a c.b (toAff q) = true) :
    onCurve c.a c.b (toAff (add c p q)) = true := by
  rw [toAff_add c hA h2 p q hP hQ]
  exact onCurve_affAdd _ _ _ _ hP hQ

/-! ### negation, subtraction -/

theorem toAff_neg (p : Jac F) : toAff p.neg = affNeg (toAff p) := by
  unfold toAff Jac.neg
  by_cases hz : p.z = 0
  · simp [hz, affNeg]
  · simp [hz, affNeg]

theorem ofAffine_neg (a : Affine F) : ofAffine a.neg = affNeg (ofAffine a) := by
  unfold ofAffine Affine.neg
  cases h : a.infinity <;> simp [affNeg]

theorem toAff_sub (c : Curve F) (hA : ∀ e, c.mulByA e = c.a * e) (h2 : (2 : F) ≠ 0)
    (p q : Jac F) (hP : onCurve c.a c.b (toAff p) = true) (hQ : onCurve c.a c.b (toAff q) = true) :
    toAff (sub c p q) = affAdd c.a (toAff p) (affNeg (toAff q)) := by
  have hQ' : onCurve c.a c.b (toAff q.neg) = true := by rw [toAff_neg, onCurve_affNeg]; exact hQ
  rw [sub, toAff_add c hA h2 p q.neg hP hQ', toAff_neg]

/-! ### mixed addition -/

theorem toAff_fromAffine (a : Affine F) : toAff (fromAffine a) = ofAffine a := by
  unfold fromAffine Affine.xy ofAffine
  cases h : a.infinity
  · simp [toAff]
  · simp [toAff, Jac.zero]

/-- for a finite affine operand `madd-2007-bl` and its branches coincide with `add` on `(x, y, 1)` -/
theorem addMixed_eq_add (c : Curve F) (p : Jac F) (q : Affine F) (hq : q.infinity = false) :
    addMixed c p q = add c p (fromAffine q) := by
  have h1 : ((⟨q.x, q.y, 1⟩ : Jac F)).isZero = false := by simp [Jac.isZero]
  simp only [addMixed, fromAffine, Affine.xy, hq, Bool.false_eq_true, if_false, add, h1]
  by_cases hz : p.z = 0
  · simp only [isZero_eq_true hz, if_true]
  · simp only [isZero_eq_false hz, Bool.false_eq_true, if_false, sq, dbl, mul_one]
    by_cases hu : p.x = q.x * (p.z * p.z)
    · have hs : (p.y = p.z * q.y * (p.z * p.z)) ↔ (p.y = q.y * p.z * (p.z * p.z)) := by
        rw [mul_comm p.z q.y]
      simp only [hu, if_true, hs]
    · simp only [hu, if_false, Jac.mk.injEq]
      refine ⟨?_, ?_, ?_⟩ <;> ring

theorem addMixed_of_infinity (c : Curve F) (p : Jac F) (q : Affine F) (hq : q.infinity = true) :
    addMixed c p q = p := by
  simp [addMixed, Affine.xy, hq]

theorem toAff_addMixed (c : Curve F) (hA : ∀ e, c.mulByA e = c.a * e) (h2 : (2 : F) ≠ 0)
    (p : Jac F) (q : Affine F) (hP : onCurve c.a c.b (toAff p) = true)
    (hQ : onCurve c.a c.b (ofAffine q) = true) :
    toAff (addMixed c p q) = affAdd c.a (toAff p) (ofAffine q) := by
  cases hq : q.infinity
  · rw [addMixed_eq_add c p q hq, toAff_add c hA h2 p _ hP (by rw [toAff_fromAffine]; exact hQ),
      toAff_fromAffine]
  · rw [addMixed_of_infinity c p q hq]
    have : ofAffine q = none := by simp [ofAffine, hq]
    rw [this, affAdd_none_right]


theorem toAff_subMixed (c : Curve F) (hA : ∀ e, c.mulByA e = c.a * e) (h2 : (2 : F) ≠ 0)
    (p : Jac F) (q : Affine F) (hP : onCurve c.a c.b (toAff p) = true)
    (hQ : onCurve c.a c.b (ofAffine q) = true) :
    toAff (subMixed c p q) = affAdd c.a (toAff p) (affNeg (ofAffine q)) := by
  have hQ' : onCurve c.a c.b (ofAffine q.neg) = true := by
    rw [ofAffine_neg, onCurve_affNeg]; exact hQ
  rw [subMixed, toAff_addMixed c hA h2 p q.neg hP hQ', ofAffine_neg]

/-! ### branch statements for arbitrary triples -/

theorem add_general (c : Curve F) (h2 : (2 : F) ≠ 0) (p q : Jac F) (hp : p.z ≠ 0) (hq : q.z ≠ 0)
    (hu : p.x * sq q.z ≠ q.x * sq p.z) :
    (add c p q).z ≠ 0 ∧ toAff (add c p q) = affAdd c.a (toAff p) (toAff q) := by
  obtain ⟨x1, y1, z1, hz1, rfl⟩ := exists_mk p hp
  obtain ⟨x2, y2, z2, hz2, rfl⟩ := exists_mk q hq
  have hx : x1 ≠ x2 := fun h => hu ((u_eq_iff x1 x2 z1 z2 hz1 hz2).2 h)
  rw [toAff_mk _ _ _ hz1, toAff_mk _ _ _ hz2]
  exact add_mk_general c h2 x1 y1 z1 x2 y2 z2 hz1 hz2 hx

theorem add_double_branch (c : Curve F) (p q : Jac F) (hp : p.z ≠ 0) (hq : q.z ≠ 0)
    (hu : p.x * sq q.z = q.x * sq p.z) (hs : p.y * q.z * sq q.z = q.y * p.z * sq p.z) :
    add c p q = double c p ∧ toAff q = toAff p := by
  obtain ⟨x1, y1, z1, hz1, rfl⟩ := exists_mk p hp
  obtain ⟨x2, y2, z2, hz2, rfl⟩ := exists_mk q hq
  have hx : x1 = x2 := (u_eq_iff x1 x2 z1 z2 hz1 hz2).1 hu
  have hy : y1 = y2 := (s_eq_iff y1 y2 z1 z2 hz1 hz2).1 hs
  refine ⟨add_mk_double c _ _ _ _ _ _ hz1 hz2 hx hy, ?_⟩
  rw [toAff_mk _ _ _ hz1, toAff_mk _ _ _ hz2, hx, hy]

theorem add_opposite_branch (c : Curve F) (p q : Jac F) (hp : p.z ≠ 0) (hq : q.z ≠ 0)
    (hP : onCurve c.a c.b (toAff p) = true) (hQ : onCurve c.a c.b (toAff q) = true)
    (hu : p.x * sq q.z = q.x * sq p.z) (hs : p.y * q.z * sq q.z ≠ q.y * p.z * sq p.z) :
    add c p q = Jac.zero ∧ toAff q = affNeg (toAff p) ∧
      affAdd c.a (toAff p) (toAff q) = none := by
  obtain ⟨x1, y1, z1, hz1, rfl⟩ := exists_mk p hp
  obtain ⟨x2, y2, z2, hz2, rfl⟩ := exists_mk q hq
  have hx : x1 = x2 := (u_eq_iff x1 x2 z1 z2 hz1 hz2).1 hu
  have hy : y1 ≠ y2 := fun h => hs ((s_eq_iff y1 y2 z1 z2 hz1 hz2).2 h)
  rw [toAff_mk _ _ _ hz1] at hP ⊢
  rw [toAff_mk _ _ _ hz2] at hQ ⊢
  subst hx
  rw [onCurve_some] at hP hQ
  have hn : y1 + y2 = 0 := (y_eq_or_neg hP hQ).resolve_left hy
  refine ⟨add_mk_opposite c _ _ _ _ _ _ hz1 hz2 rfl hy, ?_, affAdd_opposite _ _ _ _ hn⟩
  have : y2 = - y1 := by linear_combination hn
  rw [this]; rfl

theorem double_finite (c : Curve F) (hA : ∀ e, c.mulByA e = c.a * e) (h2 : (2 : F) ≠ 0)
    (p : Jac F) (hz : p.z ≠ 0) (hy : p.y ≠ 0) :
    (double c p).z ≠ 0 ∧ toAff (double c p) = affAdd c.a (toAff p) (toAff p) := by
  refine ⟨?_, toAff_double c hA p⟩
  rw [double_z c p hz]
  exact mul_ne_zero h2 (mul_ne_zero hz hy)

theorem double_order_two (c : Curve F) (hA : ∀ e, c.mulByA e = c.a * e) (p : Jac F)
    (hz : p.z ≠ 0) (hy : p.y = 0) :
    (double c p).z = 0 ∧ affAdd c.a (toAff p) (toAff p) = none := by
  have h : (double c p).z = 0 := by rw [double_z c p hz, hy]; ring
  exact ⟨h, by rw [← toAff_double c hA p]; exact toAff_of_z_eq_zero h⟩

/-! ### equality and zero tests -/

theorem isZero_iff (p : Jac F) : p.isZero = true ↔ toAff p = none := by
  rw [toAff_eq_none_iff]; simp [Jac.isZero]

theorem eq_iff (p q : Jac F) : p.eq q = true ↔ toAff p = toAff q := by
  by_cases hp : p.z = 0
  · have : p.eq q = q.isZero := by simp [Jac.eq, isZero_eq_true hp]
    rw [this, isZero_iff, toAff_of_z_eq_zero hp]
    exact eq_comm
  by_cases hq : q.z = 0
  · have : p.eq q = false := by simp [Jac.eq, isZero_eq_false hp, isZero_eq_true hq]
    rw [this, toAff_of_z_eq_zero hq, ← isZero_iff, isZero_eq_false hp]
  obtain ⟨x1, y1, z1, hz1, rfl⟩ := exists_mk p hp
  obtain ⟨x2, y2, z2, hz2, rfl⟩ := exists_mk q hq
  rw [toAff_mk _ _ _ hz1, toAff_mk _ _ _ hz2, Jac.eq, isZero_eq_false hp, isZero_eq_false hq]
  simp only [Bool.false_eq_true, if_false, mk, sq,
    Option.some.injEq, Prod.mk.injEq]
  have e1 := u_eq_iff x1 x2 z1 z2 hz1 hz2
  have e2 : y1 * (z1 * z1 * z1) * (z2 * z2 * z2) = y2 * (z2 * z2 * z2) * (z1 * z1 * z1) ↔ y1 = y2 := by
    rw [← s_eq_iff y1 y2 z1 z2 hz1 hz2]
    constructor <;> intro h <;> linear_combination h
  by_cases hx : x1 = x2
  · subst hx
    simp only [e1.2 rfl, if_true, decide_eq_true_eq, e2, true_and]
  · have : ¬ (x1 * (z1 * z1) * (z2 * z2) = x2 * (z2 * z2) * (z1 * z1)) := fun h => hx (e1.1 h)
    simp [this, hx]

theorem affineEqProj_iff (a : Affine F) (q : Jac F) :
    affineEqProj a q = true ↔ ofAffine a = toAff q := by
  rw [affineEqProj, eq_iff, toAff_fromAffine]

/-! ### normalisation -/

theorem toAffine_ok (p : Jac F) : ∃ r, toAffine p = .ok r ∧ ofAffine r = toAff p := by
  unfold toAffine
  by_cases hz : p.z = 0
  · exact ⟨Affine.identity, by simp [isZero_eq_true hz], by
      rw [toAff_of_z_eq_zero hz]; simp [ofAffine, Affine.identity]⟩
  rw [isZero_eq_false hz]
  by_cases h1 : p.z = 1
  · refine ⟨⟨p.x, p.y, false⟩, by simp [h1], ?_⟩
    simp [ofAffine, toAff, h1]
  · refine ⟨⟨p.x * sq p.z⁻¹, p.y * (sq p.z⁻¹ * p.z⁻¹), false⟩, by simp [h1, inverse?, hz], ?_⟩
    simp only [ofAffine, toAff, hz, Bool.false_eq_true, if_false, sq]
    congr 2 <;> field_simp


theorem toAff_affineAdd (c : Curve F) (hA : ∀ e, c.mulByA e = c.a * e) (h2 : (2 : F) ≠ 0)
    (p q : Affine F) (hP : onCurve c.a c.b (ofAffine p) = true)
    (hQ : onCurve c.a c.b (ofAffine q) = true) :
    toAff (affineAdd c p q) = affAdd c.a (ofAffine p) (ofAffine q) := by
  rw [affineAdd, toAff_addMixed c hA h2 _ q (by rw [toAff_fromAffine]; exact hP) hQ,
    toAff_fromAffine]

theorem toAff_affineSub (c : Curve F) (hA : ∀ e, c.mulByA e = c.a * e) (h2 : (2 : F) ≠ 0)
    (p q : Affine F) (hP : onCurve c.a c.b (ofAffine p) = true)
    (hQ : onCurve c.a c.b (ofAffine q) = true) :
    toAff (affineSub c p q) = affAdd c.a (ofAffine p) (affNeg (ofAffine q)) := by
  rw [affineSub, toAff_subMixed c hA h2 _ q (by rw [toAff_fromAffine]; exact hP) hQ,
    toAff_fromAffine]

/-! ### batch normalisation -/

/-- the identity interpretation of `fieldOps` over a field -/
def fieldInterp : (fieldOps (F := F)).Interp F where
  V := fun _ => True
  φ := id
  one_V := trivial
  one_φ := rfl
  mul_V := fun _ _ => trivial
  mul_φ := fun _ _ => rfl
  square_V := fun _ => trivial
  square_φ := fun _ => rfl
  isZero_iff := fun _ => by simp [fieldOps]
  inv_some := fun {a} _ h => ⟨a⁻¹, by simp [fieldOps, inverse?]; exact h, trivial, rfl⟩

theorem ofAffine_normalizeWith (g : Jac F) (w : F)
    (h : (g.z = 0 → w = g.z) ∧ (g.z ≠ 0 → w = 1 * g.z⁻¹)) :
    ofAffine (normalizeWith g w) = toAff g := by
  unfold normalizeWith
  by_cases hz : g.z = 0
  · rw [isZero_eq_true hz, toAff_of_z_eq_zero hz]; simp [ofAffine, Affine.identity]
  · rw [isZero_eq_false hz, h.2 hz]
    simp only [ofAffine, toAff, hz, Bool.false_eq_true, if_false, sq]
    congr 2 <;> field_simp

theorem zipNormalize_spec (v : List (Jac F)) (w : List F)
    (h : List.Forall₂ (fun (g : Jac F) (r : F) => (g.z = 0 → r = g.z) ∧ (g.z ≠ 0 → r = 1 * g.z⁻¹)) v w) :
    (zipNormalize v w).map ofAffine = v.map toAff := by
  induction h with
  | nil => rfl
  | cons hd _ ih =>
    simp only [zipNormalize, List.map_cons, ih, ofAffine_normalizeWith _ _ hd]

theorem normalizeBatch_ok (v : List (Jac F)) :
    ∃ l, normalizeBatch v = .ok l ∧ l.map ofAffine = v.map toAff := by
  obtain ⟨w, hw, hR⟩ := Ops.batchInvMul_rel (fieldInterp (F := F)) (v.map (·.z)) 1
    (fun _ _ => trivial) trivial
  refine ⟨zipNormalize v w, ?_, ?_⟩
  · simp only [normalizeBatch, batchInversion, hw]
  · apply zipNormalize_spec
    rw [List.forall₂_map_left_iff] at hR
    refine hR.imp ?_
    intro g r h
    exact ⟨h.2.1, h.2.2⟩

/-! ### sums -/

theorem foldl_add_spec (c : Curve F) (hA : ∀ e, c.mulByA e = c.a * e) (h2 : (2 : F) ≠ 0)
    (l : List (Jac F)) (hl : ∀ p ∈ l, onCurve c.a c.b (toAff p) = true) :
    ∀ acc : Jac F, onCurve c.a c.b (toAff acc) = true →
      toAff (l.foldl (add c) acc) = (l.map toAff).foldl (affAdd c.a) (toAff acc) ∧
      onCurve c.a c.b (toAff (l.foldl (add c) acc)) = true := by
  induction l with
  | nil => intro acc h; exact ⟨rfl, h⟩
  | cons p ps ih =>
    intro acc h
    have hp := hl p (by simp)
    have := ih (fun q hq => hl q (by simp [hq])) (add c acc p) (onCurve_add c hA h2 acc p h hp)
    simpa only [List.foldl_cons, List.map_cons, toAff_add c hA h2 acc p h hp] using this

theorem foldl_addMixed_spec (c : Curve F) (hA : ∀ e, c.mulByA e = c.a * e) (h2 : (2 : F) ≠ 0)
    (l : List (Affine F)) (hl : ∀ p ∈ l, onCurve c.a c.b (ofAffine p) = true) :
    ∀ acc : Jac F, onCurve c.a c.b (toAff acc) = true →
      toAff (l.foldl (addMixed c) acc) = (l.map ofAffine).foldl (affAdd c.a) (toAff acc) ∧
      onCurve c.a c.b (toAff (l.foldl (addMixed c) acc)) = true := by
  induction l with
  | nil => intro acc h; exact ⟨rfl, h⟩
  | cons p ps ih =>
    intro acc h
    have hp := hl p (by simp)
    have e := toAff_addMixed c hA h2 acc p h hp
    have := ih (fun q hq => hl q (by simp [hq])) (addMixed c acc p)
      (by rw [e]; exact onCurve_affAdd _ _ _ _ h hp)
    simpa only [List.foldl_cons, List.map_cons, e] using this

/-! ### `is_on_curve` -/

theorem isOnCurve_eq (c : Curve F) (hA : ∀ e, c.mulByA e = c.a * e) (a : Affine F) :
    a.isOnCurve c = onCurve c.a c.b (ofAffine a) := by
  unfold Affine.isOnCurve ofAffine
  cases hi : a.infinity
  · simp only [Bool.false_eq_true, if_false, onCurve, addB, sq, hA]
    apply decide_eq_decide.2
    by_cases ha : c.a = 0 <;> by_cases hb : c.b = 0 <;> simp [ha, hb, add_right_comm]
  · simp [onCurve]

theorem std_mulByA (a b : F) (d : Bool) (e : F) : (Curve.std a b d).mulByA e = (Curve.std a b d).a * e := by
  simp only [Curve.std, defaultMulByA]
  by_cases h : a = 0
  · simp [h]
  · simp [h, mul_comm]


/-! ### bridge to Mathlib's group of nonsingular points -/

/-- Mathlib's Weierstrass curve `y² = x³ + a x + b` -/
def wcurve (a b : F) : WeierstrassCurve.Affine F := ⟨0, 0, 0, a, b⟩

/-- the spec-level point denoted by a Mathlib point -/
def ofPoint {a b : F} : (wcurve a b).Point → Option (F × F)
  | .zero => none
  | .some x y _ => some (x, y)

theorem wcurve_equation_iff (a b x y : F) :
    (wcurve a b).Equation x y ↔ y * y = x * x * x + a * x + b := by
  rw [WeierstrassCurve.Affine.equation_iff]
  simp only [wcurve, zero_mul, add_zero]
  constructor <;> intro h <;> linear_combination h

theorem wcurve_Δ (a b : F) : (wcurve a b).Δ = -16 * (4 * a ^ 3 + 27 * b ^ 2) := by
  simp only [WeierstrassCurve.Δ, WeierstrassCurve.b₂, WeierstrassCurve.b₄, WeierstrassCurve.b₆,
    WeierstrassCurve.b₈, wcurve]
  ring

theorem onCurve_ofPoint {a b : F} (P : (wcurve a b).Point) : onCurve a b (ofPoint P) = true := by
  rcases P with _ | ⟨x, y, h⟩
  · rfl
  · exact (onCurve_some a b x y).2 ((wcurve_equation_iff a b x y).1 h.1)

theorem ofPoint_injective {a b : F} : Function.Injective (ofPoint (a := a) (b := b)) := by
  rintro (_ | ⟨x1, y1, h1⟩) (_ | ⟨x2, y2, h2⟩) h
  · rfl
  · simp [ofPoint] at h
  · simp [ofPoint] at h
  · simp only [ofPoint, Option.some.injEq, Prod.mk.injEq] at h
    obtain ⟨rfl, rfl⟩ := h
    rfl

theorem ofPoint_zero {a b : F} : ofPoint (0 : (wcurve a b).Point) = none := rfl

theorem ofPoint_neg {a b : F} (P : (wcurve a b).Point) : ofPoint (-P) = affNeg (ofPoint P) := by
  rcases P with _ | ⟨x, y, h⟩
  · rfl
  · rw [WeierstrassCurve.Affine.Point.neg_some]
    simp [ofPoint, affNeg, wcurve]

/-- on a non-singular curve every point of the curve is a Mathlib point -/
theorem exists_point {a b : F} (hΔ : (wcurve a b).Δ ≠ 0) (P : Option (F × F))
    (hP : onCurve a b P = true) : ∃ Q : (wcurve a b).Point, ofPoint Q = P := by
  rcases P with _ | ⟨x, y⟩
  · exact ⟨0, rfl⟩
  · have he : (wcurve a b).Equation x y := (wcurve_equation_iff a b x y).2 ((onCurve_some a b x y).1 hP)
    exact ⟨.some x y ((WeierstrassCurve.Affine.equation_iff_nonsingular_of_Δ_ne_zero hΔ).1 he), rfl⟩

/-- `affAdd` is Mathlib's addition of nonsingular points -/
theorem ofPoint_add {a b : F} (P Q : (wcurve a b).Point) :
    ofPoint (P + Q) = affAdd a (ofPoint P) (ofPoint Q) := by
  rcases P with _ | ⟨x1, y1, h1⟩
  · show ofPoint (0 + Q) = _
    rw [zero_add]; exact (affAdd_none_left a _).symm
  rcases Q with _ | ⟨x2, y2, h2⟩
  · show ofPoint (_ + 0) = _
    rw [add_zero]; exact (affAdd_none_right a _).symm
  have e1 := (wcurve_equation_iff a b x1 y1).1 h1.1
  have e2 := (wcurve_equation_iff a b x2 y2).1 h2.1
  have hneg : (wcurve a b).negY x2 y2 = - y2 := by simp [wcurve]
  by_cases hx : x1 = x2
  · subst hx
    by_cases hy : y1 + y2 = 0
    · have hy' : y1 = (wcurve a b).negY x1 y2 := by rw [hneg]; linear_combination hy
      rw [WeierstrassCurve.Affine.Point.add_of_Y_eq rfl hy']
      exact (affAdd_opposite a x1 y1 y2 hy).symm
    · have hy' : y1 ≠ (wcurve a b).negY x1 y2 := by
        rw [hneg]; intro h; exact hy (by rw [h]; ring)
      have hyy : y1 = y2 := (y_eq_or_neg e1 e2).resolve_right hy
      subst hyy
      rw [WeierstrassCurve.Affine.Point.add_of_Y_ne hy']
      simp only [ofPoint]
      rw [WeierstrassCurve.Affine.slope_of_Y_ne rfl hy']
      simp only [affAdd, hy, and_false, if_false, if_true, WeierstrassCurve.Affine.addX,
        WeierstrassCurve.Affine.addY, WeierstrassCurve.Affine.negAddY,
        WeierstrassCurve.Affine.negY, wcurve, Option.some.injEq, Prod.mk.injEq]
      constructor <;> · simp only [div_eq_mul_inv]; ring
  · rw [WeierstrassCurve.Affine.Point.add_of_X_ne hx]
    simp only [ofPoint]
    rw [WeierstrassCurve.Affine.slope_of_X_ne hx]
    have hs : (y1 - y2) / (x1 - x2) = (y2 - y1) * (x2 - x1)⁻¹ := by
      rw [← neg_sub y2 y1, ← neg_sub x2 x1, neg_div_neg_eq, div_eq_mul_inv]
    rw [hs]
    simp only [affAdd, hx, false_and, if_false, WeierstrassCurve.Affine.addX,
      WeierstrassCurve.Affine.addY, WeierstrassCurve.Affine.negAddY,
      WeierstrassCurve.Affine.negY, wcurve, Option.some.injEq, Prod.mk.injEq]
    constructor <;> ring

/-- associativity of the affine law on a non-singular curve, from Mathlib's group structure -/
theorem affAdd_assoc {a b : F} (hΔ : (wcurve a b).Δ ≠ 0) (P Q R : Option (F × F))
    (hP : onCurve a b P = true) (hQ : onCurve a b Q = true) (hR : onCurve a b R = true) :
    affAdd a (affAdd a P Q) R = affAdd a P (affAdd a Q R) := by
  obtain ⟨P', rfl⟩ := exists_point hΔ P hP
  obtain ⟨Q', rfl⟩ := exists_point hΔ Q hQ
  obtain ⟨R', rfl⟩ := exists_point hΔ R hR
  rw [← ofPoint_add, ← ofPoint_add, ← ofPoint_add, ← ofPoint_add, add_assoc]

theorem affAdd_comm {a b : F} (hΔ : (wcurve a b).Δ ≠ 0) (P Q : Option (F × F))
    (hP : onCurve a b P = true) (hQ : onCurve a b Q = true) :
    affAdd a P Q = affAdd a Q P := by
  obtain ⟨P', rfl⟩ := exists_point hΔ P hP
  obtain ⟨Q', rfl⟩ := exists_point hΔ Q hQ
  rw [← ofPoint_add, ← ofPoint_add, add_comm]

theorem affAdd_neg_self {a : F} (P : Option (F × F)) :
    affAdd a P (affNeg P) = none := by
  rcases P with _ | ⟨x, y⟩
  · rfl
  · exact affAdd_opposite a x y (-y) (by ring)

end Ark.Curve.SW
