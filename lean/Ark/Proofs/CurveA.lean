import Ark.Model.Curve
import Ark.Proofs.FieldOps
import Mathlib.Algebra.Field.Basic
import Mathlib.Tactic.Ring
import Mathlib.Tactic.FieldSimp
import Mathlib.Tactic.LinearCombination
/-
  Ark.Proofs.CurveA — helper lemmas for property C03 (short Weierstrass part):
  the Jacobian formulas of `Ark.Curve.SW` compute the textbook affine chord-and-tangent law.
-/
namespace Ark.Curve.SW

variable {F : Type} [Field F] [DecidableEq F]

/-! ### parametrisation of Jacobian triples -/

/-- the triple `(x z², y z³, z)` -/
def mk (x y z : F) : Jac F := ⟨x * (z * z), y * (z * z * z), z⟩

theorem toAff_mk (x y z : F) (hz : z ≠ 0) : toAff (mk x y z) = some (x, y) := by
  simp only [toAff, mk]
  rw [if_neg hz]
  congr 2 <;> field_simp

theorem toAff_of_z_eq_zero {p : Jac F} (h : p.z = 0) : toAff p = none := by
  simp only [toAff, if_pos h]

theorem toAff_eq_none_iff (p : Jac F) : toAff p = none ↔ p.z = 0 := by
  unfold toAff
  split <;> simp_all

/-- every triple with `z ≠ 0` is of the form `mk x y z` -/
theorem exists_mk (p : Jac F) (hz : p.z ≠ 0) : ∃ x y, p = mk x y p.z := by
  refine ⟨p.x * (p.z * p.z)⁻¹, p.y * (p.z * p.z * p.z)⁻¹, ?_⟩
  cases p with
  | mk x y z =>
    simp only [mk, Jac.mk.injEq, and_true]
    simp only at hz
    constructor <;> field_simp

theorem isZero_eq_false {p : Jac F} (h : p.z ≠ 0) : p.isZero = false := by
  simp [Jac.isZero, h]

theorem isZero_eq_true {p : Jac F} (h : p.z = 0) : p.isZero = true := by
  simp [Jac.isZero, h]

/-! ### general branch -/

theorem add_mk_general (c : Curve F) (h2 : (2 : F) ≠ 0) (x1 y1 z1 x2 y2 z2 : F)
    (hz1 : z1 ≠ 0) (hz2 : z2 ≠ 0) (hx : x1 ≠ x2) :
    (add c (mk x1 y1 z1) (mk x2 y2 z2)).z ≠ 0 ∧
    toAff (add c (mk x1 y1 z1) (mk x2 y2 z2)) = affAdd c.a (some (x1, y1)) (some (x2, y2)) := by
  have hd : x2 - x1 ≠ 0 := sub_ne_zero.2 (Ne.symm hx)
  have hu : ¬ (x1 * (z1 * z1) * (z2 * z2) = x2 * (z2 * z2) * (z1 * z1)) := by
    intro h
    apply hx
    have : (x1 - x2) * (z1 * z1 * (z2 * z2)) = 0 := by linear_combination h
    rcases mul_eq_zero.1 this with h | h
    · exact sub_eq_zero.1 h
    · exact absurd h (mul_ne_zero (mul_ne_zero hz1 hz1) (mul_ne_zero hz2 hz2))
  have hz3 : (add c (mk x1 y1 z1) (mk x2 y2 z2)).z ≠ 0 := by
    simp only [add, mk, Jac.isZero, hz1, hz2, decide_false, Bool.false_eq_true, if_false, sq, dbl, hu]
    have : z1 * z2 + z1 * z2 = 2 * (z1 * z2) := by ring
    rw [this]
    refine mul_ne_zero (mul_ne_zero h2 (mul_ne_zero hz1 hz2)) ?_
    have : x2 * (z2 * z2) * (z1 * z1) - x1 * (z1 * z1) * (z2 * z2) = (x2 - x1) * (z1 * z1 * (z2 * z2)) := by
      ring
    rw [this]
    exact mul_ne_zero hd (mul_ne_zero (mul_ne_zero hz1 hz1) (mul_ne_zero hz2 hz2))
  refine ⟨hz3, ?_⟩
  rw [toAff, if_neg hz3]
  simp only [add, mk, Jac.isZero, hz1, hz2, decide_false, Bool.false_eq_true, if_false, sq, dbl, hu,
    affAdd, hx, false_and, ← two_mul]
  congr 2
  · field_simp
    ring
  · field_simp
    ring

end Ark.Curve.SW
