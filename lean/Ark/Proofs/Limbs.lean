import Ark.Model.Limbs
/-
  Helper lemmas for C15 (core Lean only).
-/
namespace Ark

theorem value_nil : value [] = 0 := rfl
theorem value_cons (l : Nat) (ls : List Nat) : value (l :: ls) = l + B * value ls := rfl

theorem WF_cons {l : Nat} {ls : List Nat} : WF (l :: ls) ↔ l < B ∧ WF ls := by
  unfold WF; simp

theorem WF_nil : WF [] := by unfold WF; simp

theorem value_lt (a : List Nat) (h : WF a) : value a < B ^ a.length := by
  induction a with
  | nil => simp [value]
  | cons l ls ih =>
    have ⟨h1, h2⟩ := WF_cons.mp h
    have ih := ih h2
    simp only [value, List.length_cons, Nat.pow_succ]
    have : B * value ls + B ≤ B * B ^ ls.length := by
      have : B * (value ls + 1) ≤ B * B ^ ls.length := Nat.mul_le_mul_left B ih
      simpa [Nat.mul_add] using this
    rw [Nat.mul_comm (B ^ ls.length) B]
    omega

theorem addC_length (a b : List Nat) (c : Nat) (h : a.length = b.length) :
    (addC a b c).1.length = a.length := by
  induction a generalizing b c with
  | nil => cases b <;> simp [addC]
  | cons x xs ih =>
    cases b with
    | nil => simp at h
    | cons y ys =>
      simp only [addC, List.length_cons]
      rw [ih ys _ (by simpa using h)]

theorem addC_wf (a b : List Nat) (c : Nat) : WF (addC a b c).1 := by
  induction a generalizing b c with
  | nil => cases b <;> simp [addC, WF]
  | cons x xs ih =>
    cases b with
    | nil => simp [addC, WF]
    | cons y ys =>
      simp only [addC]
      exact WF_cons.mpr ⟨Nat.mod_lt _ B_pos, ih ys _⟩

/-- the `adc` chain is exact: result + 2^(64N)·carry = a + b + carry-in -/
theorem addC_spec (a b : List Nat) (c : Nat) (h : a.length = b.length) :
    value (addC a b c).1 + B ^ a.length * (addC a b c).2 = value a + value b + c := by
  induction a generalizing b c with
  | nil =>
    cases b with
    | nil => simp [addC, value]
    | cons y ys => simp at h
  | cons x xs ih =>
    cases b with
    | nil => simp at h
    | cons y ys =>
      have ih := ih ys ((x + y + c) / B) (by simpa using h)
      simp only [addC, value, List.length_cons, Nat.pow_succ]
      have hdm := Nat.div_add_mod (x + y + c) B
      generalize (x + y + c) / B = q at *
      generalize (x + y + c) % B = r at *
      generalize value (addC xs ys q).1 = v at *
      generalize (addC xs ys q).2 = c' at *
      generalize value xs = vx at *
      generalize value ys = vy at *
      have e : B ^ xs.length * B * c' = B * (B ^ xs.length * c') := by
        rw [Nat.mul_comm (B ^ xs.length) B, Nat.mul_assoc]
      rw [e]
      generalize B ^ xs.length * c' = t at *
      have : B * v + B * t = B * vx + B * vy + B * q := by
        rw [← Nat.mul_add, ← Nat.mul_add, ← Nat.mul_add, ih]
      omega

theorem addC_carry_le (a b : List Nat) (c : Nat) (ha : WF a) (hb : WF b) (hc : c ≤ 1) :
    (addC a b c).2 ≤ 1 := by
  induction a generalizing b c with
  | nil => cases b <;> simpa [addC]
  | cons x xs ih =>
    cases b with
    | nil => simpa [addC]
    | cons y ys =>
      have ⟨hx, hxs⟩ := WF_cons.mp ha
      have ⟨hy, hys⟩ := WF_cons.mp hb
      simp only [addC]
      apply ih ys _ hxs hys
      have : x + y + c < 2 * B := by omega
      exact Nat.lt_succ_iff.mp (Nat.div_lt_of_lt_mul (by omega))

end Ark
