import Ark.Model.Mle
import Mathlib.Tactic.Ring
import Mathlib.Tactic.Linarith
import Mathlib.Algebra.BigOperators.Group.List.Basic
/-
  Helper lemmas for property C17 (part C): `SparseTerm` and `SparsePolynomial`
  (`Ark.Mle.Term.*`, `Ark.Mle.MvPoly.*` of Ark/Model/Mle.lean).
  The property theorems are in Ark/Props/C17c.lean.
-/
namespace Ark.Mle
open Ark

/-! ## `Outcome` plumbing -/

@[simp] theorem bind_ok {α β} (a : α) (f : α → Outcome β) : ((Outcome.ok a) >>= f) = f a := rfl
@[simp] theorem bind_panic {α β} (f : α → Outcome β) : ((Outcome.panic : Outcome α) >>= f) = .panic := rfl
@[simp] theorem ofOption_some {α} (a : α) : ofOption (some a) = .ok a := rfl
@[simp] theorem ofOption_none {α} : ofOption (none : Option α) = .panic := rfl
@[simp] theorem pure_eq_ok {α} (a : α) : (pure a : Outcome α) = .ok a := rfl

/-- lifted addition of outcomes (a panic on either side is a panic) -/
def oadd {F} [Add F] (a b : Outcome F) : Outcome F :=
  match a, b with
  | .ok x, .ok y => .ok (x + y)
  | _, _ => .panic
/-- lifted subtraction of outcomes -/
def osub {F} [Sub F] (a b : Outcome F) : Outcome F :=
  match a, b with
  | .ok x, .ok y => .ok (x - y)
  | _, _ => .panic
/-- lifted negation -/
def oneg {F} [Neg F] (a : Outcome F) : Outcome F :=
  match a with
  | .ok x => .ok (-x)
  | .panic => .panic
/-- lifted `a + f * b` -/
def oaddScaled {F} [Add F] [Mul F] (a : Outcome F) (f : F) (b : Outcome F) : Outcome F :=
  match a, b with
  | .ok x, .ok y => .ok (x + f * y)
  | _, _ => .panic

/-! ## specification vocabulary -/

/-- total exponent of variable `v` in a raw `(variable, power)` list -/
def expo (m : List (Nat × Nat)) (v : Nat) : Nat := ((m.filter (fun vp => vp.1 == v)).map (·.2)).sum

/-- sum of all powers of a raw `(variable, power)` list -/
def powSum (m : List (Nat × Nat)) : Nat := (m.map (·.2)).sum

/-- normal form of a term: variables strictly ascending, all powers positive -/
def Term.Normal (t : Term) : Prop := t.Pairwise (fun a b => a.1 < b.1) ∧ ∀ vp ∈ t, 0 < vp.2

/-- `Π x_v ^ e` over a raw `(variable, power)` list (`x_v = 0` beyond the point; never used there) -/
def monVal {F} [Monoid F] [Zero F] (m : List (Nat × Nat)) (x : List F) : F :=
  (m.map (fun vp => x.getD vp.1 0 ^ vp.2)).prod

@[simp] theorem expo_nil (v : Nat) : expo [] v = 0 := rfl
theorem expo_cons (a : Nat × Nat) (m : List (Nat × Nat)) (v : Nat) :
    expo (a :: m) v = (if a.1 = v then a.2 else 0) + expo m v := by
  unfold expo
  by_cases h : a.1 = v <;> simp [h]

/-! ## generic "monoid-valued monomial" functional, preserved by `Term.new` -/

section Gen
variable {M : Type} [CommMonoid M]

/-- `Π g(var, pow)` -/
@[to_additive gsum /-- `Σ g(var, pow)` -/]
def gprod (g : Nat → Nat → M) (m : List (Nat × Nat)) : M := (m.map (fun vp => g vp.1 vp.2)).prod

@[to_additive gsum_cons]
theorem gprod_cons (g : Nat → Nat → M) (a : Nat × Nat) (m : List (Nat × Nat)) :
    gprod g (a :: m) = g a.1 a.2 * gprod g m := by simp [gprod]

@[to_additive gsum_perm]
theorem gprod_perm (g : Nat → Nat → M) {m m' : List (Nat × Nat)} (h : m.Perm m') :
    gprod g m = gprod g m' := (h.map _).prod_eq

@[to_additive gsum_filter]
theorem gprod_filter (g : Nat → Nat → M) (h0 : ∀ v, g v 0 = 1) (m : List (Nat × Nat)) :
    gprod g (m.filter (fun vp => vp.2 != 0)) = gprod g m := by
  induction m with
  | nil => rfl
  | cons a m ih =>
    by_cases h : a.2 = 0
    · have : a = (a.1, 0) := by rw [← h]
      simp [h, gprod_cons, ih, h0]
    · simp [h, gprod_cons, ih]

@[to_additive gsum_combineGo]
theorem gprod_combineGo (g : Nat → Nat → M) (hadd : ∀ v p q, g v (p + q) = g v p * g v q)
    (v p : Nat) (rest : List (Nat × Nat)) :
    gprod g (Term.combineGo v p rest) = g v p * gprod g rest := by
  induction rest generalizing v p with
  | nil => simp [Term.combineGo, gprod]
  | cons a rest ih =>
    obtain ⟨v', p'⟩ := a
    unfold Term.combineGo
    by_cases h : v = v'
    · subst h; simp [ih, hadd, gprod_cons, mul_assoc]
    · simp [h, ih, gprod_cons]

@[to_additive gsum_combine]
theorem gprod_combine (g : Nat → Nat → M) (hadd : ∀ v p q, g v (p + q) = g v p * g v q)
    (m : List (Nat × Nat)) : gprod g (Term.combine m) = gprod g m := by
  cases m with
  | nil => rfl
  | cons a m => obtain ⟨v, p⟩ := a; simp [Term.combine, gprod_combineGo g hadd, gprod_cons]

end Gen

/-! ## stable insertion sort -/

section SortSec
variable {α : Type}

theorem insertBy_perm (le : α → α → Bool) (x : α) (l : List α) :
    (Term.insertBy le x l).Perm (x :: l) := by
  induction l with
  | nil => simp [Term.insertBy]
  | cons y ys ih =>
    unfold Term.insertBy
    by_cases h : le y x
    · simp only [h, if_true]
      exact (List.Perm.cons y ih).trans (List.Perm.swap x y ys)
    · simp [h]

theorem foldl_insertBy_perm (le : α → α → Bool) (l acc : List α) :
    (l.foldl (fun acc x => Term.insertBy le x acc) acc).Perm (acc ++ l) := by
  induction l generalizing acc with
  | nil => simp
  | cons x l ih =>
    simp only [List.foldl_cons]
    refine (ih _).trans ?_
    refine ((insertBy_perm le x acc).append_right l).trans ?_
    exact List.perm_middle.symm

theorem stableSort_perm (le : α → α → Bool) (l : List α) : (Term.stableSort le l).Perm l := by
  simpa [Term.stableSort] using foldl_insertBy_perm le l []

/-- insertion keeps a list sorted, for a relation that is total and transitive on a set `P`
    containing all elements involved -/
theorem insertBy_sorted (le : α → α → Bool) (P : α → Prop)
    (htot : ∀ a b, P a → P b → le a b = false → le b a = true)
    (htrans : ∀ a b c, P a → P b → P c → le a b = true → le b c = true → le a c = true)
    (x : α) (l : List α) (hx : P x) (hl : ∀ y ∈ l, P y)
    (hs : l.Pairwise (fun a b => le a b = true)) :
    (Term.insertBy le x l).Pairwise (fun a b => le a b = true) := by
  induction l with
  | nil => simp [Term.insertBy]
  | cons y ys ih =>
    have hy : P y := hl y (by simp)
    have hys : ∀ z ∈ ys, P z := fun z hz => hl z (by simp [hz])
    rw [List.pairwise_cons] at hs
    unfold Term.insertBy
    by_cases h : le y x = true
    · simp only [h, if_true]
      rw [List.pairwise_cons]
      refine ⟨?_, ih hys hs.2⟩
      intro z hz
      rcases List.mem_cons.1 ((insertBy_perm le x ys).mem_iff.1 hz) with rfl | hz
      · exact h
      · exact hs.1 z hz
    · have h' : le y x = false := by simpa using h
      simp only [h', Bool.false_eq_true, if_false]
      have hxy : le x y = true := htot y x hy hx h'
      rw [List.pairwise_cons]
      refine ⟨?_, List.pairwise_cons.2 hs⟩
      intro z hz
      rcases List.mem_cons.1 hz with rfl | hz
      · exact hxy
      · exact htrans x y z hx hy (hys z hz) hxy (hs.1 z hz)

theorem foldl_insertBy_sorted (le : α → α → Bool) (P : α → Prop)
    (htot : ∀ a b, P a → P b → le a b = false → le b a = true)
    (htrans : ∀ a b c, P a → P b → P c → le a b = true → le b c = true → le a c = true)
    (l acc : List α) (hl : ∀ y ∈ l, P y) (hacc : ∀ y ∈ acc, P y)
    (hs : acc.Pairwise (fun a b => le a b = true)) :
    (l.foldl (fun acc x => Term.insertBy le x acc) acc).Pairwise (fun a b => le a b = true) := by
  induction l generalizing acc with
  | nil => simpa
  | cons x l ih =>
    simp only [List.foldl_cons]
    have hx : P x := hl x (by simp)
    refine ih _ (fun y hy => hl y (by simp [hy])) ?_ (insertBy_sorted le P htot htrans x acc hx hacc hs)
    intro y hy
    rcases List.mem_cons.1 ((insertBy_perm le x acc).mem_iff.1 hy) with rfl | hy
    · exact hx
    · exact hacc y hy

theorem stableSort_sorted (le : α → α → Bool) (P : α → Prop)
    (htot : ∀ a b, P a → P b → le a b = false → le b a = true)
    (htrans : ∀ a b c, P a → P b → P c → le a b = true → le b c = true → le a c = true)
    (l : List α) (hl : ∀ y ∈ l, P y) :
    (Term.stableSort le l).Pairwise (fun a b => le a b = true) :=
  foldl_insertBy_sorted le P htot htrans l [] hl (by simp) List.Pairwise.nil

end SortSec

end Ark.Mle
namespace Ark.Mle

/-! ## `Term.new` -/

theorem expo_eq_gsum (m : List (Nat × Nat)) (v : Nat) :
    expo m v = gsum (fun u p => if u = v then p else 0) m := by
  induction m with
  | nil => rfl
  | cons a m ih => rw [expo_cons, gsum_cons, ih]

theorem powSum_eq_gsum (m : List (Nat × Nat)) : powSum m = gsum (fun _ p => p) m := rfl

theorem degree_eq_powSum (t : Term) : Term.degree t = powSum t := by
  have : ∀ (l : List (Nat × Nat)) (n : Nat), l.foldl (fun sum vp => sum + vp.2) n = n + powSum l := by
    intro l
    induction l with
    | nil => intro n; simp [powSum]
    | cons a l ih => intro n; simp only [List.foldl_cons, ih, powSum, List.map_cons, List.sum_cons]; omega
  simpa [Term.degree] using this t 0

@[to_additive gsum_new]
theorem gprod_new {M : Type} [CommMonoid M] (g : Nat → Nat → M) (h0 : ∀ v, g v 0 = 1)
    (hadd : ∀ v p q, g v (p + q) = g v p * g v q) (m : List (Nat × Nat)) :
    gprod g (Term.new m) = gprod g m := by
  unfold Term.new
  simp only
  split
  · rw [gprod_combine g hadd, gprod_perm g (stableSort_perm _ _), gprod_filter g h0]
  · exact gprod_filter g h0 m

theorem expo_new (m : List (Nat × Nat)) (v : Nat) : expo (Term.new m) v = expo m v := by
  rw [expo_eq_gsum, expo_eq_gsum]
  apply gsum_new
  · intro u; simp
  · intro u p q; by_cases h : u = v <;> simp [h]

theorem degree_new (m : List (Nat × Nat)) : Term.degree (Term.new m) = powSum m := by
  rw [degree_eq_powSum, powSum_eq_gsum, powSum_eq_gsum]
  exact gsum_new _ (fun _ => rfl) (fun _ _ _ => rfl) m

theorem combineGo_normal (v p : Nat) (rest : List (Nat × Nat)) (hp : 0 < p)
    (hpos : ∀ y ∈ rest, 0 < y.2) (hs : rest.Pairwise (fun a b => a.1 ≤ b.1))
    (hv : ∀ y ∈ rest, v ≤ y.1) :
    Term.Normal (Term.combineGo v p rest) ∧ ∀ z ∈ Term.combineGo v p rest, v ≤ z.1 := by
  induction rest generalizing v p with
  | nil => simp [Term.combineGo, Term.Normal, hp]
  | cons a rest ih =>
    obtain ⟨v', p'⟩ := a
    rw [List.pairwise_cons] at hs
    have hp' : 0 < p' := hpos (v', p') (by simp)
    have hpos' : ∀ y ∈ rest, 0 < y.2 := fun y hy => hpos y (by simp [hy])
    have hvv' : v ≤ v' := hv (v', p') (by simp)
    unfold Term.combineGo
    by_cases h : v = v'
    · subst h
      simp only [if_true]
      exact ih v (p + p') (by omega) hpos' hs.2 (fun y hy => hs.1 y hy)
    · simp only [h, if_false]
      obtain ⟨hn, hb⟩ := ih v' p' hp' hpos' hs.2 (fun y hy => hs.1 y hy)
      refine ⟨⟨List.pairwise_cons.2 ⟨fun z hz => ?_, hn.1⟩, ?_⟩, ?_⟩
      · have := hb z hz; show v < z.1; omega
      · intro z hz
        rcases List.mem_cons.1 hz with rfl | hz
        · exact hp
        · exact hn.2 z hz
      · intro z hz
        rcases List.mem_cons.1 hz with rfl | hz
        · exact Nat.le_refl _
        · have := hb z hz; omega

theorem combine_normal (m : List (Nat × Nat)) (hpos : ∀ y ∈ m, 0 < y.2)
    (hs : m.Pairwise (fun a b => a.1 ≤ b.1)) : Term.Normal (Term.combine m) := by
  cases m with
  | nil => simp [Term.combine, Term.Normal]
  | cons a m =>
    obtain ⟨v, p⟩ := a
    rw [List.pairwise_cons] at hs
    exact (combineGo_normal v p m (hpos (v, p) (by simp)) (fun y hy => hpos y (by simp [hy]))
      hs.2 (fun y hy => hs.1 y hy)).1

theorem new_normal (m : List (Nat × Nat)) : Term.Normal (Term.new m) := by
  have hf : ∀ y ∈ m.filter (fun vp => vp.2 != 0), 0 < y.2 := by
    intro y hy
    have := (List.mem_filter.1 hy).2
    simp at this; omega
  unfold Term.new
  simp only
  split
  · apply combine_normal
    · intro y hy
      exact hf y ((stableSort_perm _ _).mem_iff.1 hy)
    · have := stableSort_sorted (fun (x y : Nat × Nat) => decide (x.1 ≤ y.1)) (fun _ => True)
        (by intro a b _ _ h; simp at h ⊢; omega)
        (by intro a b c _ _ _ h1 h2; simp at h1 h2 ⊢; omega)
        (m.filter (fun vp => vp.2 != 0)) (by simp)
      simpa using this
  · rename_i hlen
    refine ⟨?_, hf⟩
    generalize m.filter (fun vp => vp.2 != 0) = fm at hlen
    match fm, hlen with
    | [], _ => simp
    | [a], _ => simp
    | a :: b :: r, hlen => simp at hlen

end Ark.Mle
namespace Ark.Mle

/-! ## `fpow` and `Term.evaluate` -/

section Pow
variable {F : Type} [Monoid F]

theorem fpow_aux (x : F) (fuel : Nat) : ∀ (n : Nat) (acc : List Bool), n < 2 ^ fuel →
    ∃ L, ∀ k : Nat,
      (Term.bitsBEAux fuel n acc).foldl (fun res bit => let s := res * res; if bit then s * x else s) (x ^ k)
        = acc.foldl (fun res bit => let s := res * res; if bit then s * x else s) (x ^ (k * 2 ^ L + n)) := by
  induction fuel with
  | zero =>
    intro n acc hn
    have : n = 0 := by simpa using hn
    subst this
    exact ⟨0, fun k => by simp [Term.bitsBEAux]⟩
  | succ fuel ih =>
    intro n acc hn
    unfold Term.bitsBEAux
    by_cases h0 : n = 0
    · subst h0; exact ⟨0, fun k => by simp⟩
    · simp only [h0, if_false]
      have hlt : n / 2 < 2 ^ fuel := by
        rw [Nat.div_lt_iff_lt_mul (by decide)]; rw [Nat.pow_succ] at hn; exact hn
      obtain ⟨L, hL⟩ := ih (n / 2) ((n % 2 == 1) :: acc) hlt
      refine ⟨L + 1, fun k => ?_⟩
      rw [hL k, List.foldl_cons]
      congr 1
      rcases Nat.mod_two_eq_zero_or_one n with h | h
      · simp only [h]
        simp only [show ((0 : Nat) == 1) = false from rfl, Bool.false_eq_true, if_false]
        rw [← pow_add]; congr 1; rw [Nat.pow_succ, ← Nat.mul_assoc]; generalize k * 2 ^ L = q; omega
      · simp only [h]
        simp only [show ((1 : Nat) == 1) = true from rfl, if_true]
        rw [← pow_add, ← pow_succ]; congr 1; rw [Nat.pow_succ, ← Nat.mul_assoc]; generalize k * 2 ^ L = q; omega

theorem fpow_eq (x : F) (e : Nat) : Term.fpow x e = x ^ e := by
  obtain ⟨L, hL⟩ := fpow_aux x (e.log2 + 1) e [] Nat.lt_log2_self
  have := hL 0
  simp only [pow_zero, Nat.zero_mul, Nat.zero_add, List.foldl_nil] at this
  unfold Term.fpow Term.bitsBE
  exact this

end Pow

end Ark.Mle
namespace Ark.Mle

section TermEval
variable {F : Type} [Monoid F] [Zero F]

theorem monVal_nil (x : List F) : monVal [] x = 1 := rfl
theorem monVal_cons (a : Nat × Nat) (m : List (Nat × Nat)) (x : List F) :
    monVal (a :: m) x = x.getD a.1 0 ^ a.2 * monVal m x := by simp [monVal]

omit [Zero F] in
theorem term_foldl_panic (t : List (Nat × Nat)) (x : List F) :
    t.foldl (fun (acc : Outcome F) vp => do
      let a ← acc
      let y ← ofOption x[vp.1]?
      pure (a * Term.fpow y vp.2)) .panic = .panic := by
  induction t with
  | nil => rfl
  | cons a t ih => simpa using ih

theorem term_foldl_ok (t : List (Nat × Nat)) (x : List F) (a : F) :
    t.foldl (fun (acc : Outcome F) vp => do
      let a ← acc
      let y ← ofOption x[vp.1]?
      pure (a * Term.fpow y vp.2)) (.ok a)
    = if ∀ vp ∈ t, vp.1 < x.length then .ok (a * monVal t x) else .panic := by
  induction t generalizing a with
  | nil => simp [monVal_nil]
  | cons b t ih =>
    simp only [List.foldl_cons, bind_ok]
    by_cases hb : b.1 < x.length
    · have : x[b.1]? = some (x.getD b.1 0) := by
        simp [List.getD_eq_getElem?_getD, List.getElem?_eq_getElem hb]
      rw [this, ofOption_some, bind_ok, pure_eq_ok, ih, fpow_eq, monVal_cons, mul_assoc]
      simp only [List.forall_mem_cons, hb, true_and]
    · have : x[b.1]? = none := by simp; omega
      rw [this, ofOption_none, bind_panic, term_foldl_panic, if_neg]
      intro h; exact hb (h b (by simp))

/-- `Term::evaluate` on ANY `(variable, power)` list: the product of the powers when every variable
    indexes into the point, a panic otherwise -/
theorem term_evaluate_eq (t : Term) (x : List F) :
    Term.evaluate t x = if ∀ vp ∈ t, vp.1 < x.length then .ok (monVal t x) else .panic := by
  have := term_foldl_ok t x 1
  simpa [Term.evaluate] using this

end TermEval

theorem monVal_new {F : Type} [CommMonoid F] [Zero F] (m : List (Nat × Nat)) (x : List F) :
    monVal (Term.new m) x = monVal m x :=
  gprod_new (fun v p => x.getD v 0 ^ p) (fun _ => pow_zero _) (fun _ _ _ => pow_add _ _ _) m

/-- variables of `Term.new m` are exactly the variables of `m` with a positive total exponent -/
theorem expo_pos_iff_mem (m : List (Nat × Nat)) (v : Nat) :
    0 < expo m v ↔ ∃ vp ∈ m, vp.1 = v ∧ 0 < vp.2 := by
  induction m with
  | nil => simp
  | cons a m ih =>
    rw [expo_cons]
    by_cases h : a.1 = v
    · simp only [h, if_true, List.exists_mem_cons_iff, true_and, ← ih]
      omega
    · simp only [h, if_false, Nat.zero_add, ih, List.exists_mem_cons_iff, false_and, false_or]

theorem normal_mem_var_iff {t : Term} (ht : Term.Normal t) (v : Nat) :
    (∃ vp ∈ t, vp.1 = v) ↔ 0 < expo t v := by
  rw [expo_pos_iff_mem]
  constructor
  · rintro ⟨vp, hvp, rfl⟩; exact ⟨vp, hvp, rfl, ht.2 vp hvp⟩
  · rintro ⟨vp, hvp, h, _⟩; exact ⟨vp, hvp, h⟩

theorem new_vars_lt_iff (m : List (Nat × Nat)) (n : Nat) :
    (∀ vp ∈ Term.new m, vp.1 < n) ↔ ∀ vp ∈ m, vp.2 = 0 ∨ vp.1 < n := by
  constructor
  · intro h vp hvp
    by_cases h0 : vp.2 = 0
    · exact Or.inl h0
    · right
      have : 0 < expo (Term.new m) vp.1 := by
        rw [expo_new, expo_pos_iff_mem]; exact ⟨vp, hvp, rfl, by omega⟩
      obtain ⟨wp, hwp, hw⟩ := (normal_mem_var_iff (new_normal m) vp.1).2 this
      rw [← hw]; exact h wp hwp
  · intro h wp hwp
    have : 0 < expo (Term.new m) wp.1 := (normal_mem_var_iff (new_normal m) wp.1).1 ⟨wp, hwp, rfl⟩
    rw [expo_new, expo_pos_iff_mem] at this
    obtain ⟨vp, hvp, hv, hp⟩ := this
    rcases h vp hvp with h0 | hlt
    · omega
    · omega

end Ark.Mle
namespace Ark.Mle

/-! ## `Term.cmp` -/

/-- lexicographic comparison of exponent vectors, from variable 0 upwards -/
def LexLt (s o : List (Nat × Nat)) : Prop := ∃ v, expo s v < expo o v ∧ ∀ u < v, expo s u = expo o u

/-- graded lexicographic order: total degree first, then `LexLt` -/
def GLt (s o : Term) : Prop :=
  Term.degree s < Term.degree o ∨ (Term.degree s = Term.degree o ∧ LexLt s o)

theorem LexLt.irrefl (s : List (Nat × Nat)) : ¬ LexLt s s := by
  rintro ⟨v, h, _⟩; omega

theorem LexLt.trans {a b c : List (Nat × Nat)} (h1 : LexLt a b) (h2 : LexLt b c) : LexLt a c := by
  obtain ⟨v1, h1, e1⟩ := h1
  obtain ⟨v2, h2, e2⟩ := h2
  rcases Nat.lt_trichotomy v1 v2 with h | h | h
  · exact ⟨v1, by rw [← e2 v1 h]; exact h1, fun u hu => by rw [e1 u hu, e2 u (by omega)]⟩
  · subst h; exact ⟨v1, by omega, fun u hu => by rw [e1 u hu, e2 u hu]⟩
  · exact ⟨v2, by rw [e1 v2 h]; exact h2, fun u hu => by rw [e1 u (by omega), e2 u hu]⟩

theorem LexLt.asymm {a b : List (Nat × Nat)} (h1 : LexLt a b) : ¬ LexLt b a :=
  fun h2 => LexLt.irrefl a (h1.trans h2)

theorem GLt.irrefl (s : Term) : ¬ GLt s s := by
  rintro (h | ⟨_, h⟩)
  · omega
  · exact LexLt.irrefl s h

theorem GLt.trans {a b c : Term} (h1 : GLt a b) (h2 : GLt b c) : GLt a c := by
  rcases h1 with h1 | ⟨d1, l1⟩ <;> rcases h2 with h2 | ⟨d2, l2⟩
  · left; omega
  · left; omega
  · left; omega
  · right; exact ⟨by omega, l1.trans l2⟩

theorem GLt.asymm {a b : Term} (h1 : GLt a b) : ¬ GLt b a :=
  fun h2 => GLt.irrefl a (h1.trans h2)

theorem expo_eq_zero (t : List (Nat × Nat)) (v : Nat) (h : ∀ vp ∈ t, vp.1 ≠ v) : expo t v = 0 := by
  induction t with
  | nil => rfl
  | cons a t ih =>
    rw [expo_cons, ih (fun vp hvp => h vp (by simp [hvp]))]
    simp [h a (by simp)]

theorem Normal.tail {a : Nat × Nat} {t : List (Nat × Nat)} (h : Term.Normal (a :: t)) :
    Term.Normal t ∧ (∀ vp ∈ t, a.1 < vp.1) ∧ 0 < a.2 := by
  obtain ⟨h1, h2⟩ := h
  rw [List.pairwise_cons] at h1
  exact ⟨⟨h1.2, fun vp hvp => h2 vp (by simp [hvp])⟩, h1.1, h2 a (by simp)⟩

theorem natCmp_lt {a b : Nat} : Term.natCmp a b = .lt ↔ a < b := by
  unfold Term.natCmp; split
  · simp [*]
  · split <;> simp [*]
theorem natCmp_gt {a b : Nat} : Term.natCmp a b = .gt ↔ b < a := by
  unfold Term.natCmp; split
  · simp; omega
  · split <;> simp [*]
theorem natCmp_eq {a b : Nat} : Term.natCmp a b = .eq ↔ a = b := by
  unfold Term.natCmp; split
  · simp; omega
  · split
    · simp; omega
    · simp; omega

theorem powSum_cons (a : Nat × Nat) (t : List (Nat × Nat)) : powSum (a :: t) = a.2 + powSum t := by
  simp [powSum]

theorem cmpZip_spec (s o : List (Nat × Nat)) (hs : Term.Normal s) (ho : Term.Normal o)
    (hd : powSum s = powSum o) :
    (Term.cmpZip s o = .lt → LexLt s o) ∧ (Term.cmpZip s o = .eq → s = o) ∧
    (Term.cmpZip s o = .gt → LexLt o s) := by
  induction s generalizing o with
  | nil =>
    cases o with
    | nil => simp [Term.cmpZip]
    | cons b o =>
      have := (Normal.tail ho).2.2
      rw [powSum_cons] at hd; simp [powSum] at hd; omega
  | cons a s ih =>
    cases o with
    | nil =>
      have := (Normal.tail hs).2.2
      rw [powSum_cons] at hd; simp [powSum] at hd; omega
    | cons b o =>
      obtain ⟨cv, cp⟩ := a
      obtain ⟨ov, op⟩ := b
      obtain ⟨hs', hsv, hcp⟩ := Normal.tail hs
      obtain ⟨ho', hov, hop⟩ := Normal.tail ho
      simp only at hsv hov hcp hop
      have es0 : ∀ u, u ≤ cv → expo s u = 0 := fun u hu =>
        expo_eq_zero s u (fun vp hvp => by have := hsv vp hvp; omega)
      have eo0 : ∀ u, u ≤ ov → expo o u = 0 := fun u hu =>
        expo_eq_zero o u (fun vp hvp => by have := hov vp hvp; omega)
      unfold Term.cmpZip
      by_cases hv : ov = cv
      · subst hv
        simp only [if_true]
        by_cases hp : cp = op
        · subst hp
          simp only [ne_eq, not_true_eq_false, if_false]
          rw [powSum_cons, powSum_cons] at hd
          obtain ⟨i1, i2, i3⟩ := ih o hs' ho' (by simpa using hd)
          refine ⟨fun h => ?_, fun h => by rw [i2 h], fun h => ?_⟩
          · obtain ⟨v, h1, h2⟩ := i1 h
            exact ⟨v, by rw [expo_cons, expo_cons]; omega,
              fun u hu => by rw [expo_cons, expo_cons, h2 u hu]⟩
          · obtain ⟨v, h1, h2⟩ := i3 h
            exact ⟨v, by rw [expo_cons, expo_cons]; omega,
              fun u hu => by rw [expo_cons, expo_cons, h2 u hu]⟩
        · simp only [ne_eq, hp, not_false_eq_true, if_true]
          have hz : ∀ u, u < ov → expo ((ov, cp) :: s) u = expo ((ov, op) :: o) u := by
            intro u hu
            rw [expo_cons, expo_cons, es0 u (by omega), eo0 u (by omega)]
            split_ifs <;> omega
          refine ⟨fun h => ⟨ov, ?_, hz⟩, fun h => absurd (natCmp_eq.1 h) hp,
            fun h => ⟨ov, ?_, fun u hu => (hz u hu).symm⟩⟩
          · rw [expo_cons, expo_cons, es0 ov (by omega), eo0 ov (by omega)]
            simpa using natCmp_lt.1 h
          · rw [expo_cons, expo_cons, es0 ov (by omega), eo0 ov (by omega)]
            simpa using natCmp_gt.1 h
      · simp only [hv, if_false]
        refine ⟨fun h => ?_, fun h => absurd (natCmp_eq.1 h) hv, fun h => ?_⟩
        · have hlt := natCmp_lt.1 h
          refine ⟨ov, ?_, fun u hu => ?_⟩
          · rw [expo_cons, expo_cons, es0 ov (by omega)]
            split_ifs <;> omega
          · rw [expo_cons, expo_cons, es0 u (by omega), eo0 u (by omega)]
            split_ifs <;> omega
        · have hlt := natCmp_gt.1 h
          refine ⟨cv, ?_, fun u hu => ?_⟩
          · rw [expo_cons, expo_cons, eo0 cv (by omega)]
            split_ifs <;> omega
          · rw [expo_cons, expo_cons, es0 u (by omega), eo0 u (by omega)]
            split_ifs <;> omega

/-- the three outcomes of `Term.cmp` on normal forms -/
theorem cmp_spec (s o : Term) (hs : Term.Normal s) (ho : Term.Normal o) :
    (Term.cmp s o = .lt → GLt s o) ∧ (Term.cmp s o = .eq → s = o) ∧ (Term.cmp s o = .gt → GLt o s) := by
  unfold Term.cmp
  by_cases hd : Term.degree s = Term.degree o
  · simp only [hd, if_true]
    obtain ⟨i1, i2, i3⟩ := cmpZip_spec s o hs ho (by rw [← degree_eq_powSum, ← degree_eq_powSum, hd])
    exact ⟨fun h => Or.inr ⟨hd, i1 h⟩, i2, fun h => Or.inr ⟨hd.symm, i3 h⟩⟩
  · simp only [hd, if_false]
    exact ⟨fun h => Or.inl (natCmp_lt.1 h), fun h => absurd (natCmp_eq.1 h) hd,
      fun h => Or.inl (natCmp_gt.1 h)⟩

theorem cmp_lt_iff (s o : Term) (hs : Term.Normal s) (ho : Term.Normal o) :
    Term.cmp s o = .lt ↔ GLt s o := by
  obtain ⟨i1, i2, i3⟩ := cmp_spec s o hs ho
  refine ⟨i1, fun h => ?_⟩
  cases hc : Term.cmp s o with
  | lt => rfl
  | eq => exact absurd h (by rw [i2 hc]; exact GLt.irrefl o)
  | gt => exact absurd h (GLt.asymm (i3 hc))

theorem cmp_gt_iff (s o : Term) (hs : Term.Normal s) (ho : Term.Normal o) :
    Term.cmp s o = .gt ↔ GLt o s := by
  obtain ⟨i1, i2, i3⟩ := cmp_spec s o hs ho
  refine ⟨i3, fun h => ?_⟩
  cases hc : Term.cmp s o with
  | gt => rfl
  | eq => exact absurd h (by rw [i2 hc]; exact GLt.irrefl o)
  | lt => exact absurd h (GLt.asymm (i1 hc))

theorem cmp_eq_iff (s o : Term) (hs : Term.Normal s) (ho : Term.Normal o) :
    Term.cmp s o = .eq ↔ s = o := by
  obtain ⟨i1, i2, i3⟩ := cmp_spec s o hs ho
  refine ⟨i2, fun h => ?_⟩
  subst h
  cases hc : Term.cmp s s with
  | eq => rfl
  | lt => exact absurd (i1 hc) (GLt.irrefl s)
  | gt => exact absurd (i3 hc) (GLt.irrefl s)

/-- a normal form is determined by its exponent vector -/
theorem normal_ext (s o : Term) (hs : Term.Normal s) (ho : Term.Normal o)
    (h : ∀ v, expo s v = expo o v) : s = o := by
  induction s generalizing o with
  | nil =>
    cases o with
    | nil => rfl
    | cons b o =>
      have := h b.1; have hb := (Normal.tail ho).2.2
      rw [expo_cons] at this; simp at this; omega
  | cons a s ih =>
    cases o with
    | nil =>
      have := h a.1; have ha := (Normal.tail hs).2.2
      rw [expo_cons] at this; simp at this; omega
    | cons b o =>
      obtain ⟨hs', hsv, hap⟩ := Normal.tail hs
      obtain ⟨ho', hov, hbp⟩ := Normal.tail ho
      have es0 : ∀ u, u ≤ a.1 → expo s u = 0 := fun u hu =>
        expo_eq_zero s u (fun vp hvp => by have := hsv vp hvp; omega)
      have eo0 : ∀ u, u ≤ b.1 → expo o u = 0 := fun u hu =>
        expo_eq_zero o u (fun vp hvp => by have := hov vp hvp; omega)
      have hv : a.1 = b.1 := by
        rcases Nat.lt_trichotomy a.1 b.1 with hl | he | hg
        · have := h a.1
          rw [expo_cons, expo_cons, es0 _ (Nat.le_refl _), eo0 _ (by omega)] at this
          simp at this; split_ifs at this <;> omega
        · exact he
        · have := h b.1
          rw [expo_cons, expo_cons, eo0 _ (Nat.le_refl _), es0 _ (by omega)] at this
          simp at this; split_ifs at this <;> omega
      have hp : a.2 = b.2 := by
        have := h a.1
        rw [expo_cons, expo_cons, es0 _ (Nat.le_refl _), eo0 _ (by omega)] at this
        simpa [hv] using this
      have hab : a = b := Prod.ext hv hp
      subst hab
      rw [ih o hs' ho' (fun v => by have := h v; rw [expo_cons, expo_cons] at this; omega)]

end Ark.Mle
