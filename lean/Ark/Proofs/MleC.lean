import Ark.Model.Mle
import Mathlib.Tactic.Ring
import Mathlib.Tactic.Linarith
import Mathlib.Algebra.BigOperators.Group.List.Basic
/-
  Helper lemmas for property C17 (part C): `SparseTerm` and `SparsePolynomial`
  (`Ark.Mle.Term.*`, `Ark.Mle.MvPoly.*` of Ark/Model/Mle.lean).
  The property theorems are in Ark/Props/C17c.lean.
-/
namespace Ark.Mle
open Ark

/-! ## `Outcome` plumbing -/

@[simp] theorem bind_ok {α β} (a : α) (f : α → Outcome β) : ((Outcome.ok a) >>= f) = f a := rfl
@[simp] theorem bind_panic {α β} (f : α → Outcome β) : ((Outcome.panic : Outcome α) >>= f) = .panic := rfl
@[simp] theorem ofOption_some {α} (a : α) : ofOption (some a) = .ok a := rfl
@[simp] theorem ofOption_none {α} : ofOption (none : Option α) = .panic := rfl
@[simp] theorem pure_eq_ok {α} (a : α) : (pure a : Outcome α) = .ok a := rfl

/-- lifted addition of outcomes (a panic on either side is a panic) -/
def oadd {F} [Add F] (a b : Outcome F) : Outcome F :=
  match a, b with
  | .ok x, .ok y => .ok (x + y)
  | _, _ => .panic
/-- lifted subtraction of outcomes -/
def osub {F} [Sub F] (a b : Outcome F) : Outcome F :=
  match a, b with
  | .ok x, .ok y => .ok (x - y)
  | _, _ => .panic
/-- lifted negation -/
def oneg {F} [Neg F] (a : Outcome F) : Outcome F :=
  match a with
  | .ok x => .ok (-x)
  | .panic => .panic
/-- lifted `a + f * b` -/
def oaddScaled {F} [Add F] [Mul F] (a : Outcome F) (f : F) (b : Outcome F) : Outcome F :=
  match a, b with
  | .ok x, .ok y => .ok (x + f * y)
  | _, _ => .panic

/-! ## specification vocabulary -/

/-- total exponent of variable `v` in a raw `(variable, power)` list -/
def expo (m : List (Nat × Nat)) (v : Nat) : Nat := ((m.filter (fun vp => vp.1 == v)).map (·.2)).sum

/-- sum of all powers of a raw `(variable, power)` list -/
def powSum (m : List (Nat × Nat)) : Nat := (m.map (·.2)).sum

/-- normal form of a term: variables strictly ascending, all powers positive -/
def Term.Normal (t : Term) : Prop := t.Pairwise (fun a b => a.1 < b.1) ∧ ∀ vp ∈ t, 0 < vp.2

/-- `Π x_v ^ e` over a raw `(variable, power)` list (`x_v = 0` beyond the point; never used there) -/
def monVal {F} [Monoid F] [Zero F] (m : List (Nat × Nat)) (x : List F) : F :=
  (m.map (fun vp => x.getD vp.1 0 ^ vp.2)).prod

@[simp] theorem expo_nil (v : Nat) : expo [] v = 0 := rfl
theorem expo_cons (a : Nat × Nat) (m : List (Nat × Nat)) (v : Nat) :
    expo (a :: m) v = (if a.1 = v then a.2 else 0) + expo m v := by
  unfold expo
  by_cases h : a.1 = v <;> simp [h]

/-! ## generic "monoid-valued monomial" functional, preserved by `Term.new` -/

section Gen
variable {M : Type} [CommMonoid M]

/-- `Π g(var, pow)` -/
@[to_additive gsum /-- `Σ g(var, pow)` -/]
def gprod (g : Nat → Nat → M) (m : List (Nat × Nat)) : M := (m.map (fun vp => g vp.1 vp.2)).prod

@[to_additive gsum_cons]
theorem gprod_cons (g : Nat → Nat → M) (a : Nat × Nat) (m : List (Nat × Nat)) :
    gprod g (a :: m) = g a.1 a.2 * gprod g m := by simp [gprod]

@[to_additive gsum_perm]
theorem gprod_perm (g : Nat → Nat → M) {m m' : List (Nat × Nat)} (h : m.Perm m') :
    gprod g m = gprod g m' := (h.map _).prod_eq

@[to_additive gsum_filter]
theorem gprod_filter (g : Nat → Nat → M) (h0 : ∀ v, g v 0 = 1) (m : List (Nat × Nat)) :
    gprod g (m.filter (fun vp => vp.2 != 0)) = gprod g m := by
  induction m with
  | nil => rfl
  | cons a m ih =>
    by_cases h : a.2 = 0
    · have : a = (a.1, 0) := by rw [← h]
      simp [h, gprod_cons, ih, h0]
    · simp [h, gprod_cons, ih]

@[to_additive gsum_combineGo]
theorem gprod_combineGo (g : Nat → Nat → M) (hadd : ∀ v p q, g v (p + q) = g v p * g v q)
    (v p : Nat) (rest : List (Nat × Nat)) :
    gprod g (Term.combineGo v p rest) = g v p * gprod g rest := by
  induction rest generalizing v p with
  | nil => simp [Term.combineGo, gprod]
  | cons a rest ih =>
    obtain ⟨v', p'⟩ := a
    unfold Term.combineGo
    by_cases h : v = v'
    · subst h; simp [ih, hadd, gprod_cons, mul_assoc]
    · simp [h, ih, gprod_cons]

@[to_additive gsum_combine]
theorem gprod_combine (g : Nat → Nat → M) (hadd : ∀ v p q, g v (p + q) = g v p * g v q)
    (m : List (Nat × Nat)) : gprod g (Term.combine m) = gprod g m := by
  cases m with
  | nil => rfl
  | cons a m => obtain ⟨v, p⟩ := a; simp [Term.combine, gprod_combineGo g hadd, gprod_cons]

end Gen

/-! ## stable insertion sort -/

section SortSec
variable {α : Type}

theorem insertBy_perm (le : α → α → Bool) (x : α) (l : List α) :
    (Term.insertBy le x l).Perm (x :: l) := by
  induction l with
  | nil => simp [Term.insertBy]
  | cons y ys ih =>
    unfold Term.insertBy
    by_cases h : le y x
    · simp only [h, if_true]
      exact (List.Perm.cons y ih).trans (List.Perm.swap x y ys)
    · simp [h]

theorem foldl_insertBy_perm (le : α → α → Bool) (l acc : List α) :
    (l.foldl (fun acc x => Term.insertBy le x acc) acc).Perm (acc ++ l) := by
  induction l generalizing acc with
  | nil => simp
  | cons x l ih =>
    simp only [List.foldl_cons]
    refine (ih _).trans ?_
    refine ((insertBy_perm le x acc).append_right l).trans ?_
    exact List.perm_middle.symm

theorem stableSort_perm (le : α → α → Bool) (l : List α) : (Term.stableSort le l).Perm l := by
  simpa [Term.stableSort] using foldl_insertBy_perm le l []

/-- insertion keeps a list sorted, for a relation that is total and transitive on a set `P`
    containing all elements involved -/
theorem insertBy_sorted (le : α → α → Bool) (P : α → Prop)
    (htot : ∀ a b, P a → P b → le a b = false → le b a = true)
    (htrans : ∀ a b c, P a → P b → P c → le a b = true → le b c = true → le a c = true)
    (x : α) (l : List α) (hx : P x) (hl : ∀ y ∈ l, P y)
    (hs : l.Pairwise (fun a b => le a b = true)) :
    (Term.insertBy le x l).Pairwise (fun a b => le a b = true) := by
  induction l with
  | nil => simp [Term.insertBy]
  | cons y ys ih =>
    have hy : P y := hl y (by simp)
    have hys : ∀ z ∈ ys, P z := fun z hz => hl z (by simp [hz])
    rw [List.pairwise_cons] at hs
    unfold Term.insertBy
    by_cases h : le y x = true
    · simp only [h, if_true]
      rw [List.pairwise_cons]
      refine ⟨?_, ih hys hs.2⟩
      intro z hz
      rcases List.mem_cons.1 ((insertBy_perm le x ys).mem_iff.1 hz) with rfl | hz
      · exact h
      · exact hs.1 z hz
    · have h' : le y x = false := by simpa using h
      simp only [h', Bool.false_eq_true, if_false]
      have hxy : le x y = true := htot y x hy hx h'
      rw [List.pairwise_cons]
      refine ⟨?_, List.pairwise_cons.2 hs⟩
      intro z hz
      rcases List.mem_cons.1 hz with rfl | hz
      · exact hxy
      · exact htrans x y z hx hy (hys z hz) hxy (hs.1 z hz)

theorem foldl_insertBy_sorted (le : α → α → Bool) (P : α → Prop)
    (htot : ∀ a b, P a → P b → le a b = false → le b a = true)
    (htrans : ∀ a b c, P a → P b → P c → le a b = true → le b c = true → le a c = true)
    (l acc : List α) (hl : ∀ y ∈ l, P y) (hacc : ∀ y ∈ acc, P y)
    (hs : acc.Pairwise (fun a b => le a b = true)) :
    (l.foldl (fun acc x => Term.insertBy le x acc) acc).Pairwise (fun a b => le a b = true) := by
  induction l generalizing acc with
  | nil => simpa
  | cons x l ih =>
    simp only [List.foldl_cons]
    have hx : P x := hl x (by simp)
    refine ih _ (fun y hy => hl y (by simp [hy])) ?_ (insertBy_sorted le P htot htrans x acc hx hacc hs)
    intro y hy
    rcases List.mem_cons.1 ((insertBy_perm le x acc).mem_iff.1 hy) with rfl | hy
    · exact hx
    · exact hacc y hy

theorem stableSort_sorted (le : α → α → Bool) (P : α → Prop)
    (htot : ∀ a b, P a → P b → le a b = false → le b a = true)
    (htrans : ∀ a b c, P a → P b → P c → le a b = true → le b c = true → le a c = true)
    (l : List α) (hl : ∀ y ∈ l, P y) :
    (Term.stableSort le l).Pairwise (fun a b => le a b = true) :=
  foldl_insertBy_sorted le P htot htrans l [] hl (by simp) List.Pairwise.nil

end SortSec

end Ark.Mle
namespace Ark.Mle

/-! ## `Term.new` -/

theorem expo_eq_gsum (m : List (Nat × Nat)) (v : Nat) :
    expo m v = gsum (fun u p => if u = v then p else 0) m := by
  induction m with
  | nil => rfl
  | cons a m ih => rw [expo_cons, gsum_cons, ih]

theorem powSum_eq_gsum (m : List (Nat × Nat)) : powSum m = gsum (fun _ p => p) m := rfl

theorem degree_eq_powSum (t : Term) : Term.degree t = powSum t := by
  have : ∀ (l : List (Nat × Nat)) (n : Nat), l.foldl (fun sum vp => sum + vp.2) n = n + powSum l := by
    intro l
    induction l with
    | nil => intro n; simp [powSum]
    | cons a l ih => intro n; simp only [List.foldl_cons, ih, powSum, List.map_cons, List.sum_cons]; omega
  simpa [Term.degree] using this t 0

@[to_additive gsum_new]
theorem gprod_new {M : Type} [CommMonoid M] (g : Nat → Nat → M) (h0 : ∀ v, g v 0 = 1)
    (hadd : ∀ v p q, g v (p + q) = g v p * g v q) (m : List (Nat × Nat)) :
    gprod g (Term.new m) = gprod g m := by
  unfold Term.new
  simp only
  split
  · rw [gprod_combine g hadd, gprod_perm g (stableSort_perm _ _), gprod_filter g h0]
  · exact gprod_filter g h0 m

theorem expo_new (m : List (Nat × Nat)) (v : Nat) : expo (Term.new m) v = expo m v := by
  rw [expo_eq_gsum, expo_eq_gsum]
  apply gsum_new
  · intro u; simp
  · intro u p q; by_cases h : u = v <;> simp [h]

theorem degree_new (m : List (Nat × Nat)) : Term.degree (Term.new m) = powSum m := by
  rw [degree_eq_powSum, powSum_eq_gsum, powSum_eq_gsum]
  exact gsum_new _ (fun _ => rfl) (fun _ _ _ => rfl) m

theorem combineGo_normal (v p : Nat) (rest : List (Nat × Nat)) (hp : 0 < p)
    (hpos : ∀ y ∈ rest, 0 < y.2) (hs : rest.Pairwise (fun a b => a.1 ≤ b.1))
    (hv : ∀ y ∈ rest, v ≤ y.1) :
    Term.Normal (Term.combineGo v p rest) ∧ ∀ z ∈ Term.combineGo v p rest, v ≤ z.1 := by
  induction rest generalizing v p with
  | nil => simp [Term.combineGo, Term.Normal, hp]
  | cons a rest ih =>
    obtain ⟨v', p'⟩ := a
    rw [List.pairwise_cons] at hs
    have hp' : 0 < p' := hpos (v', p') (by simp)
    have hpos' : ∀ y ∈ rest, 0 < y.2 := fun y hy => hpos y (by simp [hy])
    have hvv' : v ≤ v' := hv (v', p') (by simp)
    unfold Term.combineGo
    by_cases h : v = v'
    · subst h
      simp only [if_true]
      exact ih v (p + p') (by omega) hpos' hs.2 (fun y hy => hs.1 y hy)
    · simp only [h, if_false]
      obtain ⟨hn, hb⟩ := ih v' p' hp' hpos' hs.2 (fun y hy => hs.1 y hy)
      refine ⟨⟨List.pairwise_cons.2 ⟨fun z hz => ?_, hn.1⟩, ?_⟩, ?_⟩
      · have := hb z hz; show v < z.1; omega
      · intro z hz
        rcases List.mem_cons.1 hz with rfl | hz
        · exact hp
        · exact hn.2 z hz
      · intro z hz
        rcases List.mem_cons.1 hz with rfl | hz
        · exact Nat.le_refl _
        · have := hb z hz; omega

theorem combine_normal (m : List (Nat × Nat)) (hpos : ∀ y ∈ m, 0 < y.2)
    (hs : m.Pairwise (fun a b => a.1 ≤ b.1)) : Term.Normal (Term.combine m) := by
  cases m with
  | nil => simp [Term.combine, Term.Normal]
  | cons a m =>
    obtain ⟨v, p⟩ := a
    rw [List.pairwise_cons] at hs
    exact (combineGo_normal v p m (hpos (v, p) (by simp)) (fun y hy => hpos y (by simp [hy]))
      hs.2 (fun y hy => hs.1 y hy)).1

theorem new_normal (m : List (Nat × Nat)) : Term.Normal (Term.new m) := by
  have hf : ∀ y ∈ m.filter (fun vp => vp.2 != 0), 0 < y.2 := by
    intro y hy
    have := (List.mem_filter.1 hy).2
    simp at this; omega
  unfold Term.new
  simp only
  split
  · apply combine_normal
    · intro y hy
      exact hf y ((stableSort_perm _ _).mem_iff.1 hy)
    · have := stableSort_sorted (fun (x y : Nat × Nat) => decide (x.1 ≤ y.1)) (fun _ => True)
        (by intro a b _ _ h; simp at h ⊢; omega)
        (by intro a b c _ _ _ h1 h2; simp at h1 h2 ⊢; omega)
        (m.filter (fun vp => vp.2 != 0)) (by simp)
      simpa using this
  · rename_i hlen
    refine ⟨?_, hf⟩
    generalize m.filter (fun vp => vp.2 != 0) = fm at hlen
    match fm, hlen with
    | [], _ => simp
    | [a], _ => simp
    | a :: b :: r, hlen => simp at hlen

end Ark.Mle
namespace Ark.Mle

/-! ## `fpow` and `Term.evaluate` -/

section Pow
variable {F : Type} [Monoid F]

theorem fpow_aux (x : F) (fuel : Nat) : ∀ (n : Nat) (acc : List Bool), n < 2 ^ fuel →
    ∃ L, ∀ k : Nat,
      (Term.bitsBEAux fuel n acc).foldl (fun res bit => let s := res * res; if bit then s * x else s) (x ^ k)
        = acc.foldl (fun res bit => let s := res * res; if bit then s * x else s) (x ^ (k * 2 ^ L + n)) := by
  induction fuel with
  | zero =>
    intro n acc hn
    have : n = 0 := by simpa using hn
    subst this
    exact ⟨0, fun k => by simp [Term.bitsBEAux]⟩
  | succ fuel ih =>
    intro n acc hn
    unfold Term.bitsBEAux
    by_cases h0 : n = 0
    · subst h0; exact ⟨0, fun k => by simp⟩
    · simp only [h0, if_false]
      have hlt : n / 2 < 2 ^ fuel := by
        rw [Nat.div_lt_iff_lt_mul (by decide)]; rw [Nat.pow_succ] at hn; exact hn
      obtain ⟨L, hL⟩ := ih (n / 2) ((n % 2 == 1) :: acc) hlt
      refine ⟨L + 1, fun k => ?_⟩
      rw [hL k, List.foldl_cons]
      congr 1
      rcases Nat.mod_two_eq_zero_or_one n with h | h
      · simp only [h]
        simp only [show ((0 : Nat) == 1) = false from rfl, Bool.false_eq_true, if_false]
        rw [← pow_add]; congr 1; rw [Nat.pow_succ, ← Nat.mul_assoc]; generalize k * 2 ^ L = q; omega
      · simp only [h]
        simp only [show ((1 : Nat) == 1) = true from rfl, if_true]
        rw [← pow_add, ← pow_succ]; congr 1; rw [Nat.pow_succ, ← Nat.mul_assoc]; generalize k * 2 ^ L = q; omega

theorem fpow_eq (x : F) (e : Nat) : Term.fpow x e = x ^ e := by
  obtain ⟨L, hL⟩ := fpow_aux x (e.log2 + 1) e [] Nat.lt_log2_self
  have := hL 0
  simp only [pow_zero, Nat.zero_mul, Nat.zero_add, List.foldl_nil] at this
  unfold Term.fpow Term.bitsBE
  exact this

end Pow

end Ark.Mle
namespace Ark.Mle

section TermEval
variable {F : Type} [Monoid F] [Zero F]

theorem monVal_nil (x : List F) : monVal [] x = 1 := rfl
theorem monVal_cons (a : Nat × Nat) (m : List (Nat × Nat)) (x : List F) :
    monVal (a :: m) x = x.getD a.1 0 ^ a.2 * monVal m x := by simp [monVal]

omit [Zero F] in
theorem term_foldl_panic (t : List (Nat × Nat)) (x : List F) :
    t.foldl (fun (acc : Outcome F) vp => do
      let a ← acc
      let y ← ofOption x[vp.1]?
      pure (a * Term.fpow y vp.2)) .panic = .panic := by
  induction t with
  | nil => rfl
  | cons a t ih => simpa using ih

theorem term_foldl_ok (t : List (Nat × Nat)) (x : List F) (a : F) :
    t.foldl (fun (acc : Outcome F) vp => do
      let a ← acc
      let y ← ofOption x[vp.1]?
      pure (a * Term.fpow y vp.2)) (.ok a)
    = if ∀ vp ∈ t, vp.1 < x.length then .ok (a * monVal t x) else .panic := by
  induction t generalizing a with
  | nil => simp [monVal_nil]
  | cons b t ih =>
    simp only [List.foldl_cons, bind_ok]
    by_cases hb : b.1 < x.length
    · have : x[b.1]? = some (x.getD b.1 0) := by
        simp [List.getD_eq_getElem?_getD, List.getElem?_eq_getElem hb]
      rw [this, ofOption_some, bind_ok, pure_eq_ok, ih, fpow_eq, monVal_cons, mul_assoc]
      simp only [List.forall_mem_cons, hb, true_and]
    · have : x[b.1]? = none := by simp; omega
      rw [this, ofOption_none, bind_panic, term_foldl_panic, if_neg]
      intro h; exact hb (h b (by simp))

/-- `Term::evaluate` on ANY `(variable, power)` list: the product of the powers when every variable
    indexes into the point, a panic otherwise -/
theorem term_evaluate_eq (t : Term) (x : List F) :
    Term.evaluate t x = if ∀ vp ∈ t, vp.1 < x.length then .ok (monVal t x) else .panic := by
  have := term_foldl_ok t x 1
  simpa [Term.evaluate] using this

end TermEval

theorem monVal_new {F : Type} [CommMonoid F] [Zero F] (m : List (Nat × Nat)) (x : List F) :
    monVal (Term.new m) x = monVal m x :=
  gprod_new (fun v p => x.getD v 0 ^ p) (fun _ => pow_zero _) (fun _ _ _ => pow_add _ _ _) m

/-- variables of `Term.new m` are exactly the variables of `m` with a positive total exponent -/
theorem expo_pos_iff_mem (m : List (Nat × Nat)) (v : Nat) :
    0 < expo m v ↔ ∃ vp ∈ m, vp.1 = v ∧ 0 < vp.2 := by
  induction m with
  | nil => simp
  | cons a m ih =>
    rw [expo_cons]
    by_cases h : a.1 = v
    · simp only [h, if_true, List.exists_mem_cons_iff, true_and, ← ih]
      omega
    · simp only [h, if_false, Nat.zero_add, ih, List.exists_mem_cons_iff, false_and, false_or]

theorem normal_mem_var_iff {t : Term} (ht : Term.Normal t) (v : Nat) :
    (∃ vp ∈ t, vp.1 = v) ↔ 0 < expo t v := by
  rw [expo_pos_iff_mem]
  constructor
  · rintro ⟨vp, hvp, rfl⟩; exact ⟨vp, hvp, rfl, ht.2 vp hvp⟩
  · rintro ⟨vp, hvp, h, _⟩; exact ⟨vp, hvp, h⟩

theorem new_vars_lt_iff (m : List (Nat × Nat)) (n : Nat) :
    (∀ vp ∈ Term.new m, vp.1 < n) ↔ ∀ vp ∈ m, vp.2 = 0 ∨ vp.1 < n := by
  constructor
  · intro h vp hvp
    by_cases h0 : vp.2 = 0
    · exact Or.inl h0
    · right
      have : 0 < expo (Term.new m) vp.1 := by
        rw [expo_new, expo_pos_iff_mem]; exact ⟨vp, hvp, rfl, by omega⟩
      obtain ⟨wp, hwp, hw⟩ := (normal_mem_var_iff (new_normal m) vp.1).2 this
      rw [← hw]; exact h wp hwp
  · intro h wp hwp
    have : 0 < expo (Term.new m) wp.1 := (normal_mem_var_iff (new_normal m) wp.1).1 ⟨wp, hwp, rfl⟩
    rw [expo_new, expo_pos_iff_mem] at this
    obtain ⟨vp, hvp, hv, hp⟩ := this
    rcases h vp hvp with h0 | hlt
    · omega
    · omega

end Ark.Mle
namespace Ark.Mle

/-! ## `Term.cmp` -/

/-- lexicographic comparison of exponent vectors, from variable 0 upwards -/
def LexLt (s o : List (Nat × Nat)) : Prop := ∃ v, expo s v < expo o v ∧ ∀ u < v, expo s u = expo o u

/-- graded lexicographic order: total degree first, then `LexLt` -/
def GLt (s o : Term) : Prop :=
  Term.degree s < Term.degree o ∨ (Term.degree s = Term.degree o ∧ LexLt s o)

theorem LexLt.irrefl (s : List (Nat × Nat)) : ¬ LexLt s s := by
  rintro ⟨v, h, _⟩; omega

theorem LexLt.trans {a b c : List (Nat × Nat)} (h1 : LexLt a b) (h2 : LexLt b c) : LexLt a c := by
  obtain ⟨v1, h1, e1⟩ := h1
  obtain ⟨v2, h2, e2⟩ := h2
  rcases Nat.lt_trichotomy v1 v2 with h | h | h
  · exact ⟨v1, by rw [← e2 v1 h]; exact h1, fun u hu => by rw [e1 u hu, e2 u (by omega)]⟩
  · subst h; exact ⟨v1, by omega, fun u hu => by rw [e1 u hu, e2 u hu]⟩
  · exact ⟨v2, by rw [e1 v2 h]; exact h2, fun u hu => by rw [e1 u (by omega), e2 u hu]⟩

theorem LexLt.asymm {a b : List (Nat × Nat)} (h1 : LexLt a b) : ¬ LexLt b a :=
  fun h2 => LexLt.irrefl a (h1.trans h2)

theorem GLt.irrefl (s : Term) : ¬ GLt s s := by
  rintro (h | ⟨_, h⟩)
  · omega
  · exact LexLt.irrefl s h

theorem GLt.trans {a b c : Term} (h1 : GLt a b) (h2 : GLt b c) : GLt a c := by
  rcases h1 with h1 | ⟨d1, l1⟩ <;> rcases h2 with h2 | ⟨d2, l2⟩
  · left; omega
  · left; omega
  · left; omega
  · right; exact ⟨by omega, l1.trans l2⟩

theorem GLt.asymm {a b : Term} (h1 : GLt a b) : ¬ GLt b a :=
  fun h2 => GLt.irrefl a (h1.trans h2)

theorem expo_eq_zero (t : List (Nat × Nat)) (v : Nat) (h : ∀ vp ∈ t, vp.1 ≠ v) : expo t v = 0 := by
  induction t with
  | nil => rfl
  | cons a t ih =>
    rw [expo_cons, ih (fun vp hvp => h vp (by simp [hvp]))]
    simp [h a (by simp)]

theorem Normal.tail {a : Nat × Nat} {t : List (Nat × Nat)} (h : Term.Normal (a :: t)) :
    Term.Normal t ∧ (∀ vp ∈ t, a.1 < vp.1) ∧ 0 < a.2 := by
  obtain ⟨h1, h2⟩ := h
  rw [List.pairwise_cons] at h1
  exact ⟨⟨h1.2, fun vp hvp => h2 vp (by simp [hvp])⟩, h1.1, h2 a (by simp)⟩

theorem natCmp_lt {a b : Nat} : Term.natCmp a b = .lt ↔ a < b := by
  unfold Term.natCmp; split
  · simp [*]
  · split <;> simp [*]
theorem natCmp_gt {a b : Nat} : Term.natCmp a b = .gt ↔ b < a := by
  unfold Term.natCmp; split
  · simp; omega
  · split <;> simp [*]
theorem natCmp_eq {a b : Nat} : Term.natCmp a b = .eq ↔ a = b := by
  unfold Term.natCmp; split
  · simp; omega
  · split
    · simp; omega
    · simp; omega

theorem powSum_cons (a : Nat × Nat) (t : List (Nat × Nat)) : powSum (a :: t) = a.2 + powSum t := by
  simp [powSum]

theorem cmpZip_spec (s o : List (Nat × Nat)) (hs : Term.Normal s) (ho : Term.Normal o)
    (hd : powSum s = powSum o) :
    (Term.cmpZip s o = .lt → LexLt s o) ∧ (Term.cmpZip s o = .eq → s = o) ∧
    (Term.cmpZip s o = .gt → LexLt o s) := by
  induction s generalizing o with
  | nil =>
    cases o with
    | nil => simp [Term.cmpZip]
    | cons b o =>
      have := (Normal.tail ho).2.2
      rw [powSum_cons] at hd; simp [powSum] at hd; omega
  | cons a s ih =>
    cases o with
    | nil =>
      have := (Normal.tail hs).2.2
      rw [powSum_cons] at hd; simp [powSum] at hd; omega
    | cons b o =>
      obtain ⟨cv, cp⟩ := a
      obtain ⟨ov, op⟩ := b
      obtain ⟨hs', hsv, hcp⟩ := Normal.tail hs
      obtain ⟨ho', hov, hop⟩ := Normal.tail ho
      simp only at hsv hov hcp hop
      have es0 : ∀ u, u ≤ cv → expo s u = 0 := fun u hu =>
        expo_eq_zero s u (fun vp hvp => by have := hsv vp hvp; omega)
      have eo0 : ∀ u, u ≤ ov → expo o u = 0 := fun u hu =>
        expo_eq_zero o u (fun vp hvp => by have := hov vp hvp; omega)
      unfold Term.cmpZip
      by_cases hv : ov = cv
      · subst hv
        simp only [if_true]
        by_cases hp : cp = op
        · subst hp
          simp only [ne_eq, not_true_eq_false, if_false]
          rw [powSum_cons, powSum_cons] at hd
          obtain ⟨i1, i2, i3⟩ := ih o hs' ho' (by simpa using hd)
          refine ⟨fun h => ?_, fun h => by rw [i2 h], fun h => ?_⟩
          · obtain ⟨v, h1, h2⟩ := i1 h
            exact ⟨v, by rw [expo_cons, expo_cons]; omega,
              fun u hu => by rw [expo_cons, expo_cons, h2 u hu]⟩
          · obtain ⟨v, h1, h2⟩ := i3 h
            exact ⟨v, by rw [expo_cons, expo_cons]; omega,
              fun u hu => by rw [expo_cons, expo_cons, h2 u hu]⟩
        · simp only [ne_eq, hp, not_false_eq_true, if_true]
          have hz : ∀ u, u < ov → expo ((ov, cp) :: s) u = expo ((ov, op) :: o) u := by
            intro u hu
            rw [expo_cons, expo_cons, es0 u (by omega), eo0 u (by omega)]
            split_ifs <;> omega
          refine ⟨fun h => ⟨ov, ?_, hz⟩, fun h => absurd (natCmp_eq.1 h) hp,
            fun h => ⟨ov, ?_, fun u hu => (hz u hu).symm⟩⟩
          · rw [expo_cons, expo_cons, es0 ov (by omega), eo0 ov (by omega)]
            simpa using natCmp_lt.1 h
          · rw [expo_cons, expo_cons, es0 ov (by omega), eo0 ov (by omega)]
            simpa using natCmp_gt.1 h
      · simp only [hv, if_false]
        refine ⟨fun h => ?_, fun h => absurd (natCmp_eq.1 h) hv, fun h => ?_⟩
        · have hlt := natCmp_lt.1 h
          refine ⟨ov, ?_, fun u hu => ?_⟩
          · rw [expo_cons, expo_cons, es0 ov (by omega)]
            split_ifs <;> omega
          · rw [expo_cons, expo_cons, es0 u (by omega), eo0 u (by omega)]
            split_ifs <;> omega
        · have hlt := natCmp_gt.1 h
          refine ⟨cv, ?_, fun u hu => ?_⟩
          · rw [expo_cons, expo_cons, eo0 cv (by omega)]
            split_ifs <;> omega
          · rw [expo_cons, expo_cons, es0 u (by omega), eo0 u (by omega)]
            split_ifs <;> omega

/-- the three outcomes of `Term.cmp` on normal forms -/
theorem cmp_spec (s o : Term) (hs : Term.Normal s) (ho : Term.Normal o) :
    (Term.cmp s o = .lt → GLt s o) ∧ (Term.cmp s o = .eq → s = o) ∧ (Term.cmp s o = .gt → GLt o s) := by
  unfold Term.cmp
  by_cases hd : Term.degree s = Term.degree o
  · simp only [hd, if_true]
    obtain ⟨i1, i2, i3⟩ := cmpZip_spec s o hs ho (by rw [← degree_eq_powSum, ← degree_eq_powSum, hd])
    exact ⟨fun h => Or.inr ⟨hd, i1 h⟩, i2, fun h => Or.inr ⟨hd.symm, i3 h⟩⟩
  · simp only [hd, if_false]
    exact ⟨fun h => Or.inl (natCmp_lt.1 h), fun h => absurd (natCmp_eq.1 h) hd,
      fun h => Or.inl (natCmp_gt.1 h)⟩

theorem cmp_lt_iff (s o : Term) (hs : Term.Normal s) (ho : Term.Normal o) :
    Term.cmp s o = .lt ↔ GLt s o := by
  obtain ⟨i1, i2, i3⟩ := cmp_spec s o hs ho
  refine ⟨i1, fun h => ?_⟩
  cases hc : Term.cmp s o with
  | lt => rfl
  | eq => exact absurd h (by rw [i2 hc]; exact GLt.irrefl o)
  | gt => exact absurd h (GLt.asymm (i3 hc))

theorem cmp_gt_iff (s o : Term) (hs : Term.Normal s) (ho : Term.Normal o) :
    Term.cmp s o = .gt ↔ GLt o s := by
  obtain ⟨i1, i2, i3⟩ := cmp_spec s o hs ho
  refine ⟨i3, fun h => ?_⟩
  cases hc : Term.cmp s o with
  | gt => rfl
  | eq => exact absurd h (by rw [i2 hc]; exact GLt.irrefl o)
  | lt => exact absurd h (GLt.asymm (i1 hc))

theorem cmp_eq_iff (s o : Term) (hs : Term.Normal s) (ho : Term.Normal o) :
    Term.cmp s o = .eq ↔ s = o := by
  obtain ⟨i1, i2, i3⟩ := cmp_spec s o hs ho
  refine ⟨i2, fun h => ?_⟩
  subst h
  cases hc : Term.cmp s s with
  | eq => rfl
  | lt => exact absurd (i1 hc) (GLt.irrefl s)
  | gt => exact absurd (i3 hc) (GLt.irrefl s)

/-- a normal form is determined by its exponent vector -/
theorem normal_ext (s o : Term) (hs : Term.Normal s) (ho : Term.Normal o)
    (h : ∀ v, expo s v = expo o v) : s = o := by
  induction s generalizing o with
  | nil =>
    cases o with
    | nil => rfl
    | cons b o =>
      have := h b.1; have hb := (Normal.tail ho).2.2
      rw [expo_cons] at this; simp at this; omega
  | cons a s ih =>
    cases o with
    | nil =>
      have := h a.1; have ha := (Normal.tail hs).2.2
      rw [expo_cons] at this; simp at this; omega
    | cons b o =>
      obtain ⟨hs', hsv, hap⟩ := Normal.tail hs
      obtain ⟨ho', hov, hbp⟩ := Normal.tail ho
      have es0 : ∀ u, u ≤ a.1 → expo s u = 0 := fun u hu =>
        expo_eq_zero s u (fun vp hvp => by have := hsv vp hvp; omega)
      have eo0 : ∀ u, u ≤ b.1 → expo o u = 0 := fun u hu =>
        expo_eq_zero o u (fun vp hvp => by have := hov vp hvp; omega)
      have hv : a.1 = b.1 := by
        rcases Nat.lt_trichotomy a.1 b.1 with hl | he | hg
        · have := h a.1
          rw [expo_cons, expo_cons, es0 _ (Nat.le_refl _), eo0 _ (by omega)] at this
          simp at this; split_ifs at this <;> omega
        · exact he
        · have := h b.1
          rw [expo_cons, expo_cons, eo0 _ (Nat.le_refl _), es0 _ (by omega)] at this
          simp at this; split_ifs at this <;> omega
      have hp : a.2 = b.2 := by
        have := h a.1
        rw [expo_cons, expo_cons, es0 _ (Nat.le_refl _), eo0 _ (by omega)] at this
        simpa [hv] using this
      have hab : a = b := Prod.ext hv hp
      subst hab
      rw [ih o hs' ho' (fun v => by have := h v; rw [expo_cons, expo_cons] at this; omega)]

end Ark.Mle
namespace Ark.Mle

/-! ## `MvPoly` -/

section Mv
variable {F : Type} [CommRing F] [DecidableEq F]

/-- `Σ c · Π x_v^e` over a list of `(coefficient, term)` pairs -/
def sumVal (l : List (F × Term)) (x : List F) : F := (l.map (fun ct => ct.1 * monVal ct.2 x)).sum

omit [DecidableEq F] in
theorem sumVal_nil (x : List F) : sumVal ([] : List (F × Term)) x = 0 := rfl
omit [DecidableEq F] in
theorem sumVal_cons (a : F × Term) (l : List (F × Term)) (x : List F) :
    sumVal (a :: l) x = a.1 * monVal a.2 x + sumVal l x := by simp [sumVal]
omit [DecidableEq F] in
theorem sumVal_append (l l' : List (F × Term)) (x : List F) :
    sumVal (l ++ l') x = sumVal l x + sumVal l' x := by simp [sumVal]
omit [DecidableEq F] in
theorem sumVal_perm {l l' : List (F × Term)} (h : l.Perm l') (x : List F) : sumVal l x = sumVal l' x :=
  (h.map _).sum_eq

omit [DecidableEq F] in
theorem mv_foldl_panic (l : List (F × Term)) (x : List F) :
    l.foldl (fun (acc : Outcome F) ct => do
      let a ← acc
      let tv ← Term.evaluate ct.2 x
      pure (a + ct.1 * tv)) .panic = .panic := by
  induction l with
  | nil => rfl
  | cons a t ih => simpa using ih

omit [DecidableEq F] in
theorem mv_foldl_ok (l : List (F × Term)) (x : List F) (a : F) :
    l.foldl (fun (acc : Outcome F) ct => do
      let a ← acc
      let tv ← Term.evaluate ct.2 x
      pure (a + ct.1 * tv)) (.ok a)
    = if ∀ ct ∈ l, ∀ vp ∈ ct.2, vp.1 < x.length then .ok (a + sumVal l x) else .panic := by
  induction l generalizing a with
  | nil => simp [sumVal_nil]
  | cons b l ih =>
    simp only [List.foldl_cons, bind_ok]
    by_cases hb : ∀ vp ∈ b.2, vp.1 < x.length
    · rw [term_evaluate_eq, if_pos hb, bind_ok, pure_eq_ok, ih, sumVal_cons, add_assoc]
      simp only [List.forall_mem_cons, and_iff_right hb]
    · rw [term_evaluate_eq, if_neg hb, bind_panic, mv_foldl_panic, if_neg]
      intro h; exact hb (h b (by simp))

theorem sumVal_of_isZero (p : MvPoly F) (h : p.isZero = true) (x : List F) : sumVal p.terms x = 0 := by
  have hall : ∀ ct ∈ p.terms, ct.1 = 0 := by
    intro ct hct
    simp only [MvPoly.isZero, Bool.or_eq_true, List.isEmpty_iff, List.all_eq_true, isZeroF,
      decide_eq_true_eq] at h
    rcases h with h | h
    · rw [h] at hct; simp at hct
    · exact h ct hct
  generalize p.terms = l at hall
  induction l with
  | nil => rfl
  | cons a l ih =>
    rw [sumVal_cons, hall a (by simp), ih (fun ct hct => hall ct (by simp [hct]))]; simp

/-- `evaluate` of a polynomial whose stored variables are all `< numVars` -/
theorem mv_evaluate_eq (p : MvPoly F) (hv : ∀ ct ∈ p.terms, ∀ vp ∈ ct.2, vp.1 < p.numVars)
    (x : List F) :
    p.evaluate x = if p.numVars ≤ x.length then .ok (sumVal p.terms x) else .panic := by
  unfold MvPoly.evaluate
  by_cases hx : p.numVars ≤ x.length
  · have : ∀ ct ∈ p.terms, ∀ vp ∈ ct.2, vp.1 < x.length := fun ct hct vp hvp => by
      have := hv ct hct vp hvp; omega
    simp only [assert, ge_iff_le, hx, decide_true, if_true, bind_ok]
    by_cases hz : p.isZero = true
    · simp [hz, sumVal_of_isZero p hz x]
    · simp only [hz]
      rw [mv_foldl_ok, if_pos this]; simp
  · simp [assert, hx]

end Mv

end Ark.Mle
namespace Ark.Mle

section Mv2
variable {F : Type} [CommRing F] [DecidableEq F]

/-- coefficient of the monomial `t` in a `(coefficient, term)` list: the sum over all its occurrences -/
def coeffOf (l : List (F × Term)) (t : Term) : F :=
  ((l.filter (fun ct => decide (ct.2 = t))).map (·.1)).sum

omit [DecidableEq F] in
theorem coeffOf_nil (t : Term) : coeffOf ([] : List (F × Term)) t = 0 := rfl
omit [DecidableEq F] in
theorem coeffOf_cons (a : F × Term) (l : List (F × Term)) (t : Term) :
    coeffOf (a :: l) t = (if a.2 = t then a.1 else 0) + coeffOf l t := by
  unfold coeffOf
  by_cases h : a.2 = t <;> simp [h]
omit [DecidableEq F] in
theorem coeffOf_perm {l l' : List (F × Term)} (h : l.Perm l') (t : Term) : coeffOf l t = coeffOf l' t :=
  ((h.filter _).map _).sum_eq

/-- the well-formedness part of canonicity: normal-form monomials, strictly `cmp`-ascending,
    all variables below `numVars` -/
structure MvPoly.WF (p : MvPoly F) : Prop where
  normal : ∀ ct ∈ p.terms, Term.Normal ct.2
  sorted : p.terms.Pairwise (fun a b => Term.cmp a.2 b.2 = .lt)
  vars : ∀ ct ∈ p.terms, ∀ vp ∈ ct.2, vp.1 < p.numVars

/-- canonical polynomial: well formed and without zero coefficients -/
def MvPoly.Canonical (p : MvPoly F) : Prop := MvPoly.WF p ∧ ∀ ct ∈ p.terms, ct.1 ≠ 0

theorem cmp_lt_trans {a b c : Term} (ha : Term.Normal a) (hb : Term.Normal b) (hc : Term.Normal c)
    (h1 : Term.cmp a b = .lt) (h2 : Term.cmp b c = .lt) : Term.cmp a c = .lt :=
  (cmp_lt_iff a c ha hc).2 (((cmp_lt_iff a b ha hb).1 h1).trans ((cmp_lt_iff b c hb hc).1 h2))

theorem cmp_ne_gt_iff {a b : Term} (ha : Term.Normal a) (hb : Term.Normal b) :
    Term.cmp a b ≠ .gt ↔ Term.cmp a b = .lt ∨ a = b := by
  rw [← cmp_eq_iff a b ha hb]
  cases Term.cmp a b <;> simp

theorem cmp_flip {a b : Term} (ha : Term.Normal a) (hb : Term.Normal b) :
    Term.cmp a b = .gt ↔ Term.cmp b a = .lt := by
  rw [cmp_gt_iff a b ha hb, cmp_lt_iff b a hb ha]

omit [CommRing F] [DecidableEq F] in
/-- the sort key of `from_coefficients_vec` is a total preorder on pairs with normal-form terms -/
theorem leT_total (a b : F × Term) (ha : Term.Normal a.2) (hb : Term.Normal b.2)
    (h : (Term.cmp a.2 b.2 != .gt) = false) : (Term.cmp b.2 a.2 != .gt) = true := by
  have : Term.cmp a.2 b.2 = .gt := by simpa using h
  rw [cmp_flip ha hb] at this
  simp [this]

omit [CommRing F] [DecidableEq F] in
theorem leT_trans (a b c : F × Term) (ha : Term.Normal a.2) (hb : Term.Normal b.2)
    (hc : Term.Normal c.2)
    (h1 : (Term.cmp a.2 b.2 != .gt) = true) (h2 : (Term.cmp b.2 c.2 != .gt) = true) :
    (Term.cmp a.2 c.2 != .gt) = true := by
  have h1' : Term.cmp a.2 b.2 ≠ .gt := by simpa using h1
  have h2' : Term.cmp b.2 c.2 ≠ .gt := by simpa using h2
  rw [cmp_ne_gt_iff ha hb] at h1'
  rw [cmp_ne_gt_iff hb hc] at h2'
  have : Term.cmp a.2 c.2 ≠ .gt := by
    rw [cmp_ne_gt_iff ha hc]
    rcases h1' with h1' | h1' <;> rcases h2' with h2' | h2'
    · exact Or.inl (cmp_lt_trans ha hb hc h1' h2')
    · rw [← h2']; exact Or.inl h1'
    · rw [h1']; exact Or.inl h2'
    · exact Or.inr (h1'.trans h2')
  simpa using this

/-! ### `dedupGo` -/

omit [DecidableEq F] in
theorem dedupGo_sumVal (rest acc : List (F × Term)) (x : List F) :
    sumVal (MvPoly.dedupGo rest acc) x = sumVal acc x + sumVal rest x := by
  induction rest generalizing acc with
  | nil => simp [MvPoly.dedupGo, sumVal_perm (List.reverse_perm acc), sumVal_nil]
  | cons a rest ih =>
    obtain ⟨c, t⟩ := a
    cases acc with
    | nil => rw [MvPoly.dedupGo, ih]; simp [sumVal_cons, sumVal_nil]
    | cons b acc =>
      obtain ⟨pc, pt⟩ := b
      rw [MvPoly.dedupGo]
      by_cases h : pt = t
      · subst h; simp only [if_true, ih, sumVal_cons]; ring
      · simp only [h, if_false, ih, sumVal_cons]; ring

omit [DecidableEq F] in
theorem dedupGo_coeffOf (rest acc : List (F × Term)) (u : Term) :
    coeffOf (MvPoly.dedupGo rest acc) u = coeffOf acc u + coeffOf rest u := by
  induction rest generalizing acc with
  | nil => simp [MvPoly.dedupGo, coeffOf_perm (List.reverse_perm acc), coeffOf_nil]
  | cons a rest ih =>
    obtain ⟨c, t⟩ := a
    cases acc with
    | nil => rw [MvPoly.dedupGo, ih]; simp [coeffOf_cons, coeffOf_nil]
    | cons b acc =>
      obtain ⟨pc, pt⟩ := b
      rw [MvPoly.dedupGo]
      by_cases h : pt = t
      · subst h; simp only [if_true, ih, coeffOf_cons]; split_ifs <;> ring
      · simp only [h, if_false, ih, coeffOf_cons]; ring

omit [DecidableEq F] in
theorem dedupGo_mem (rest acc : List (F × Term)) :
    ∀ z ∈ MvPoly.dedupGo rest acc, ∃ y ∈ acc ++ rest, z.2 = y.2 := by
  induction rest generalizing acc with
  | nil => intro z hz; exact ⟨z, by simpa [MvPoly.dedupGo] using hz, rfl⟩
  | cons a rest ih =>
    obtain ⟨c, t⟩ := a
    cases acc with
    | nil =>
      intro z hz; rw [MvPoly.dedupGo] at hz
      obtain ⟨y, hy, h⟩ := ih _ z hz
      exact ⟨y, by simpa using hy, h⟩
    | cons b acc =>
      obtain ⟨pc, pt⟩ := b
      intro z hz; rw [MvPoly.dedupGo] at hz
      by_cases h : pt = t
      · subst h
        simp only [if_true] at hz
        obtain ⟨y, hy, h⟩ := ih _ z hz
        simp only [List.cons_append, List.mem_cons, List.mem_append] at hy
        rcases hy with rfl | hy | hy
        · exact ⟨(pc, pt), by simp, h⟩
        · exact ⟨y, by simp [hy], h⟩
        · exact ⟨y, by simp [hy], h⟩
      · simp only [h, if_false] at hz
        obtain ⟨y, hy, h⟩ := ih _ z hz
        simp only [List.cons_append, List.mem_cons, List.mem_append] at hy
        refine ⟨y, ?_, h⟩
        simp only [List.cons_append, List.mem_cons, List.mem_append]
        tauto

omit [DecidableEq F] in
theorem dedupGo_sorted (rest acc : List (F × Term))
    (hNa : ∀ ct ∈ acc, Term.Normal ct.2) (hNr : ∀ ct ∈ rest, Term.Normal ct.2)
    (hacc : acc.Pairwise (fun a b => Term.cmp b.2 a.2 = .lt))
    (hrest : rest.Pairwise (fun a b => (Term.cmp a.2 b.2 != .gt) = true))
    (hhead : ∀ a ∈ acc.head?, ∀ r ∈ rest, (Term.cmp a.2 r.2 != .gt) = true) :
    (MvPoly.dedupGo rest acc).Pairwise (fun a b => Term.cmp a.2 b.2 = .lt) := by
  induction rest generalizing acc with
  | nil => simpa [MvPoly.dedupGo, List.pairwise_reverse] using hacc
  | cons a rest ih =>
    obtain ⟨c, t⟩ := a
    rw [List.pairwise_cons] at hrest
    have ht : Term.Normal t := hNr (c, t) (by simp)
    have hNr' : ∀ ct ∈ rest, Term.Normal ct.2 := fun ct h => hNr ct (by simp [h])
    cases acc with
    | nil =>
      rw [MvPoly.dedupGo]
      refine ih _ ?_ hNr' (by simp) hrest.2 ?_
      · intro ct hct; simp at hct; subst hct; exact ht
      · intro a ha r hr; simp at ha; subst ha; exact hrest.1 r hr
    | cons b acc =>
      obtain ⟨pc, pt⟩ := b
      rw [List.pairwise_cons] at hacc
      have hpt : Term.Normal pt := hNa (pc, pt) (by simp)
      have hNa' : ∀ ct ∈ acc, Term.Normal ct.2 := fun ct h => hNa ct (by simp [h])
      rw [MvPoly.dedupGo]
      by_cases h : pt = t
      · subst h
        simp only [if_true]
        refine ih _ ?_ hNr' (List.pairwise_cons.2 ⟨hacc.1, hacc.2⟩) hrest.2 ?_
        · intro ct hct
          rcases List.mem_cons.1 hct with rfl | hct
          · exact hpt
          · exact hNa' ct hct
        · intro a ha r hr; simp at ha; subst ha; exact hrest.1 r hr
      · simp only [h, if_false]
        have hlt : Term.cmp pt t = .lt := by
          have := hhead (pc, pt) (by simp) (c, t) (by simp)
          have h' : Term.cmp pt t ≠ .gt := by simpa using this
          rcases (cmp_ne_gt_iff hpt ht).1 h' with h' | h'
          · exact h'
          · exact absurd h' h
        refine ih _ ?_ hNr' (List.pairwise_cons.2 ⟨?_, List.pairwise_cons.2 hacc⟩) hrest.2 ?_
        · intro ct hct
          rcases List.mem_cons.1 hct with rfl | hct
          · exact ht
          · exact hNa ct hct
        · intro z hz
          rcases List.mem_cons.1 hz with rfl | hz
          · exact hlt
          · exact cmp_lt_trans (hNa' z hz) hpt ht (hacc.1 z hz) hlt
        · intro a ha r hr; simp at ha; subst ha; exact hrest.1 r hr

/-! ### `removeZeros` -/

theorem removeZeros_sumVal (l : List (F × Term)) (x : List F) :
    sumVal (MvPoly.removeZeros l) x = sumVal l x := by
  induction l with
  | nil => rfl
  | cons a l ih =>
    simp only [MvPoly.removeZeros, isZeroF] at ih ⊢
    by_cases h : a.1 = 0
    · simp [h, ih, sumVal_cons]
    · simp [h, ih, sumVal_cons]

theorem removeZeros_coeffOf (l : List (F × Term)) (t : Term) :
    coeffOf (MvPoly.removeZeros l) t = coeffOf l t := by
  induction l with
  | nil => rfl
  | cons a l ih =>
    simp only [MvPoly.removeZeros, isZeroF] at ih ⊢
    by_cases h : a.1 = 0
    · simp [h, ih, coeffOf_cons]
    · simp [h, ih, coeffOf_cons]

theorem removeZeros_mem {l : List (F × Term)} {z : F × Term} :
    z ∈ MvPoly.removeZeros l ↔ z ∈ l ∧ z.1 ≠ 0 := by
  simp [MvPoly.removeZeros, isZeroF]

end Mv2

end Ark.Mle
namespace Ark.Mle

section Mv3
variable {F : Type} [CommRing F] [DecidableEq F]

/-- the term list stored by `from_coefficients_vec` -/
def canonTerms (ts : List (F × Term)) : List (F × Term) :=
  MvPoly.removeZeros (MvPoly.dedupGo
    (Term.stableSort (fun (x y : F × Term) => Term.cmp x.2 y.2 != .gt) ts) [])

theorem fromCoefficientsVec_eq (nv : Nat) (ts : List (F × Term)) :
    MvPoly.fromCoefficientsVec nv ts =
      if ∀ ct ∈ ts, ∀ vp ∈ ct.2, vp.1 < nv then .ok ⟨nv, canonTerms ts⟩ else .panic := by
  unfold MvPoly.fromCoefficientsVec canonTerms
  have hperm := stableSort_perm (fun (x y : F × Term) => Term.cmp x.2 y.2 != .gt) ts
  by_cases h : ∀ ct ∈ ts, ∀ vp ∈ ct.2, vp.1 < nv
  · have : ((Term.stableSort (fun (x y : F × Term) => Term.cmp x.2 y.2 != .gt) ts).all
        (fun ct => ct.2.all (fun vp => decide (vp.1 < nv)))) = true := by
      simp only [List.all_eq_true, decide_eq_true_eq]
      intro ct hct; exact h ct (hperm.mem_iff.1 hct)
    simp only [this, assert, if_true, bind_ok, pure_eq_ok, if_pos h]
  · have : ((Term.stableSort (fun (x y : F × Term) => Term.cmp x.2 y.2 != .gt) ts).all
        (fun ct => ct.2.all (fun vp => decide (vp.1 < nv)))) = false := by
      rw [← Bool.not_eq_true]
      simp only [List.all_eq_true, decide_eq_true_eq]
      intro h'; exact h (fun ct hct => h' ct (hperm.mem_iff.2 hct))
    simp only [this, assert, Bool.false_eq_true, if_false, bind_panic, if_neg h]

theorem canonTerms_sumVal (ts : List (F × Term)) (x : List F) :
    sumVal (canonTerms ts) x = sumVal ts x := by
  unfold canonTerms
  rw [removeZeros_sumVal, dedupGo_sumVal, sumVal_perm (stableSort_perm _ ts)]
  simp [sumVal_nil]

theorem canonTerms_coeffOf (ts : List (F × Term)) (t : Term) :
    coeffOf (canonTerms ts) t = coeffOf ts t := by
  unfold canonTerms
  rw [removeZeros_coeffOf, dedupGo_coeffOf, coeffOf_perm (stableSort_perm _ ts)]
  simp [coeffOf_nil]

theorem canonTerms_mem (ts : List (F × Term)) :
    ∀ z ∈ canonTerms ts, z.1 ≠ 0 ∧ ∃ y ∈ ts, z.2 = y.2 := by
  intro z hz
  unfold canonTerms at hz
  obtain ⟨hz, h0⟩ := removeZeros_mem.1 hz
  obtain ⟨y, hy, h⟩ := dedupGo_mem _ _ z hz
  exact ⟨h0, y, (stableSort_perm _ ts).mem_iff.1 (by simpa using hy), h⟩

theorem canonTerms_sorted (ts : List (F × Term)) (hN : ∀ ct ∈ ts, Term.Normal ct.2) :
    (canonTerms ts).Pairwise (fun a b => Term.cmp a.2 b.2 = .lt) := by
  unfold canonTerms MvPoly.removeZeros
  apply List.Pairwise.filter
  have hperm := stableSort_perm (fun (x y : F × Term) => Term.cmp x.2 y.2 != .gt) ts
  refine dedupGo_sorted _ [] (by simp) (fun ct hct => hN ct (hperm.mem_iff.1 hct)) List.Pairwise.nil ?_
    (by simp)
  exact stableSort_sorted _ (fun ct => Term.Normal ct.2) (fun a b => leT_total a b)
    (fun a b c => leT_trans a b c) ts hN

/-- `from_coefficients_vec` on normal-form terms with variables `< nv`: a canonical polynomial -/
theorem canonTerms_canonical (nv : Nat) (ts : List (F × Term)) (hN : ∀ ct ∈ ts, Term.Normal ct.2)
    (hv : ∀ ct ∈ ts, ∀ vp ∈ ct.2, vp.1 < nv) : MvPoly.Canonical (⟨nv, canonTerms ts⟩ : MvPoly F) := by
  refine ⟨⟨?_, canonTerms_sorted ts hN, ?_⟩, fun ct hct => (canonTerms_mem ts ct hct).1⟩
  · intro ct hct
    obtain ⟨_, y, hy, h⟩ := canonTerms_mem ts ct hct
    rw [h]; exact hN y hy
  · intro ct hct
    obtain ⟨_, y, hy, h⟩ := canonTerms_mem ts ct hct
    rw [h]; exact hv y hy

end Mv3

end Ark.Mle
namespace Ark.Mle

section Mv4
variable {F : Type} [CommRing F] [DecidableEq F]

/-! ### `mergeGo` / `add` -/

omit [DecidableEq F] in
theorem mergeGo_mem (fuel : Nat) (cs os : List (F × Term)) :
    ∀ z ∈ MvPoly.mergeGo fuel cs os, ∃ y ∈ cs ++ os, z.2 = y.2 := by
  induction fuel generalizing cs os with
  | zero => intro z hz; simp [MvPoly.mergeGo] at hz
  | succ fuel ih =>
    cases cs with
    | nil =>
      cases os with
      | nil => intro z hz; simp [MvPoly.mergeGo] at hz
      | cons o os =>
        intro z hz
        simp only [MvPoly.mergeGo, List.mem_cons] at hz
        rcases hz with rfl | hz
        · exact ⟨z, by simp, rfl⟩
        · obtain ⟨y, hy, h⟩ := ih [] os z hz
          exact ⟨y, by simp at hy; simp [hy], h⟩
    | cons c cs =>
      cases os with
      | nil =>
        intro z hz
        simp only [MvPoly.mergeGo, List.mem_cons] at hz
        rcases hz with rfl | hz
        · exact ⟨z, by simp, rfl⟩
        · obtain ⟨y, hy, h⟩ := ih cs [] z hz
          exact ⟨y, by simp at hy; simp [hy], h⟩
      | cons o os =>
        intro z hz
        simp only [MvPoly.mergeGo] at hz
        cases hc : Term.cmp c.2 o.2 <;> rw [hc] at hz <;> simp only [List.mem_cons] at hz
        · rcases hz with rfl | hz
          · exact ⟨z, by simp, rfl⟩
          · obtain ⟨y, hy, h⟩ := ih cs (o :: os) z hz
            refine ⟨y, ?_, h⟩
            simp only [List.mem_append, List.mem_cons] at hy ⊢; tauto
        · rcases hz with rfl | hz
          · exact ⟨c, by simp, rfl⟩
          · obtain ⟨y, hy, h⟩ := ih cs os z hz
            refine ⟨y, ?_, h⟩
            simp only [List.mem_append, List.mem_cons] at hy ⊢; tauto
        · rcases hz with rfl | hz
          · exact ⟨z, by simp, rfl⟩
          · obtain ⟨y, hy, h⟩ := ih (c :: cs) os z hz
            refine ⟨y, ?_, h⟩
            simp only [List.mem_append, List.mem_cons] at hy ⊢; tauto

omit [DecidableEq F] in
theorem mergeGo_sumVal (fuel : Nat) (cs os : List (F × Term)) (hf : cs.length + os.length ≤ fuel)
    (hNc : ∀ ct ∈ cs, Term.Normal ct.2) (hNo : ∀ ct ∈ os, Term.Normal ct.2) (x : List F) :
    sumVal (MvPoly.mergeGo fuel cs os) x = sumVal cs x + sumVal os x := by
  induction fuel generalizing cs os with
  | zero =>
    have h1 : cs = [] := List.length_eq_zero_iff.1 (by omega)
    have h2 : os = [] := List.length_eq_zero_iff.1 (by omega)
    subst h1 h2; simp [MvPoly.mergeGo, sumVal_nil]
  | succ fuel ih =>
    cases cs with
    | nil =>
      cases os with
      | nil => simp [MvPoly.mergeGo, sumVal_nil]
      | cons o os =>
        simp only [MvPoly.mergeGo, sumVal_cons]
        rw [ih [] os (by simp at hf ⊢; omega) (by simp) (fun ct h => hNo ct (by simp [h]))]
        simp [sumVal_nil]
    | cons c cs =>
      cases os with
      | nil =>
        simp only [MvPoly.mergeGo, sumVal_cons]
        rw [ih cs [] (by simp at hf ⊢; omega) (fun ct h => hNc ct (by simp [h])) (by simp)]
        simp [sumVal_nil]
      | cons o os =>
        have hNc' : ∀ ct ∈ cs, Term.Normal ct.2 := fun ct h => hNc ct (by simp [h])
        have hNo' : ∀ ct ∈ os, Term.Normal ct.2 := fun ct h => hNo ct (by simp [h])
        simp only [List.length_cons] at hf
        simp only [MvPoly.mergeGo]
        cases hc : Term.cmp c.2 o.2 <;> simp only [sumVal_cons]
        · rw [ih cs (o :: os) (by simp; omega) hNc' hNo, sumVal_cons]; ring
        · have : c.2 = o.2 := (cmp_eq_iff _ _ (hNc c (by simp)) (hNo o (by simp))).1 hc
          rw [ih cs os (by omega) hNc' hNo', this]; ring
        · rw [ih (c :: cs) os (by simp; omega) hNc hNo', sumVal_cons]; ring

omit [DecidableEq F] in
theorem mergeGo_coeffOf (fuel : Nat) (cs os : List (F × Term)) (hf : cs.length + os.length ≤ fuel)
    (hNc : ∀ ct ∈ cs, Term.Normal ct.2) (hNo : ∀ ct ∈ os, Term.Normal ct.2) (t : Term) :
    coeffOf (MvPoly.mergeGo fuel cs os) t = coeffOf cs t + coeffOf os t := by
  induction fuel generalizing cs os with
  | zero =>
    have h1 : cs = [] := List.length_eq_zero_iff.1 (by omega)
    have h2 : os = [] := List.length_eq_zero_iff.1 (by omega)
    subst h1 h2; simp [MvPoly.mergeGo, coeffOf_nil]
  | succ fuel ih =>
    cases cs with
    | nil =>
      cases os with
      | nil => simp [MvPoly.mergeGo, coeffOf_nil]
      | cons o os =>
        simp only [MvPoly.mergeGo, coeffOf_cons]
        rw [ih [] os (by simp at hf ⊢; omega) (by simp) (fun ct h => hNo ct (by simp [h]))]
        simp [coeffOf_nil]
    | cons c cs =>
      cases os with
      | nil =>
        simp only [MvPoly.mergeGo, coeffOf_cons]
        rw [ih cs [] (by simp at hf ⊢; omega) (fun ct h => hNc ct (by simp [h])) (by simp)]
        simp [coeffOf_nil]
      | cons o os =>
        have hNc' : ∀ ct ∈ cs, Term.Normal ct.2 := fun ct h => hNc ct (by simp [h])
        have hNo' : ∀ ct ∈ os, Term.Normal ct.2 := fun ct h => hNo ct (by simp [h])
        simp only [List.length_cons] at hf
        simp only [MvPoly.mergeGo]
        cases hc : Term.cmp c.2 o.2 <;> simp only [coeffOf_cons]
        · rw [ih cs (o :: os) (by simp; omega) hNc' hNo, coeffOf_cons]; ring
        · have : c.2 = o.2 := (cmp_eq_iff _ _ (hNc c (by simp)) (hNo o (by simp))).1 hc
          rw [ih cs os (by omega) hNc' hNo', this]; split_ifs <;> ring
        · rw [ih (c :: cs) os (by simp; omega) hNc hNo', coeffOf_cons]; ring

omit [DecidableEq F] in
theorem mergeGo_sorted (fuel : Nat) (cs os : List (F × Term))
    (hNc : ∀ ct ∈ cs, Term.Normal ct.2) (hNo : ∀ ct ∈ os, Term.Normal ct.2)
    (hcs : cs.Pairwise (fun a b => Term.cmp a.2 b.2 = .lt))
    (hos : os.Pairwise (fun a b => Term.cmp a.2 b.2 = .lt)) :
    (MvPoly.mergeGo fuel cs os).Pairwise (fun a b => Term.cmp a.2 b.2 = .lt) := by
  induction fuel generalizing cs os with
  | zero => simp [MvPoly.mergeGo]
  | succ fuel ih =>
    cases cs with
    | nil =>
      cases os with
      | nil => simp [MvPoly.mergeGo]
      | cons o os =>
        simp only [MvPoly.mergeGo]
        rw [List.pairwise_cons] at hos ⊢
        refine ⟨fun z hz => ?_, ih [] os (by simp) (fun ct h => hNo ct (by simp [h])) .nil hos.2⟩
        obtain ⟨y, hy, h⟩ := mergeGo_mem fuel [] os z hz
        rw [h]; exact hos.1 y (by simpa using hy)
    | cons c cs =>
      cases os with
      | nil =>
        simp only [MvPoly.mergeGo]
        rw [List.pairwise_cons] at hcs ⊢
        refine ⟨fun z hz => ?_, ih cs [] (fun ct h => hNc ct (by simp [h])) (by simp) hcs.2 .nil⟩
        obtain ⟨y, hy, h⟩ := mergeGo_mem fuel cs [] z hz
        rw [h]; exact hcs.1 y (by simpa using hy)
      | cons o os =>
        have hNc' : ∀ ct ∈ cs, Term.Normal ct.2 := fun ct h => hNc ct (by simp [h])
        have hNo' : ∀ ct ∈ os, Term.Normal ct.2 := fun ct h => hNo ct (by simp [h])
        have hc' : Term.Normal c.2 := hNc c (by simp)
        have ho' : Term.Normal o.2 := hNo o (by simp)
        have hcs' := List.pairwise_cons.1 hcs
        have hos' := List.pairwise_cons.1 hos
        simp only [MvPoly.mergeGo]
        cases hc : Term.cmp c.2 o.2 <;> simp only [] <;> rw [List.pairwise_cons]
        · refine ⟨fun z hz => ?_, ih cs (o :: os) hNc' hNo hcs'.2 hos⟩
          obtain ⟨y, hy, h⟩ := mergeGo_mem fuel cs (o :: os) z hz
          rw [h]
          simp only [List.mem_append, List.mem_cons] at hy
          rcases hy with hy | rfl | hy
          · exact hcs'.1 y hy
          · exact hc
          · exact cmp_lt_trans hc' ho' (hNo' y hy) hc (hos'.1 y hy)
        · have hco : c.2 = o.2 := (cmp_eq_iff _ _ hc' ho').1 hc
          refine ⟨fun z hz => ?_, ih cs os hNc' hNo' hcs'.2 hos'.2⟩
          obtain ⟨y, hy, h⟩ := mergeGo_mem fuel cs os z hz
          rw [h]
          simp only [List.mem_append] at hy
          rcases hy with hy | hy
          · exact hcs'.1 y hy
          · show Term.cmp c.2 y.2 = .lt
            rw [hco]; exact hos'.1 y hy
        · have hoc : Term.cmp o.2 c.2 = .lt := (cmp_flip hc' ho').1 hc
          refine ⟨fun z hz => ?_, ih (c :: cs) os hNc hNo' hcs hos'.2⟩
          obtain ⟨y, hy, h⟩ := mergeGo_mem fuel (c :: cs) os z hz
          rw [h]
          simp only [List.mem_append, List.mem_cons] at hy
          rcases hy with (rfl | hy) | hy
          · exact hoc
          · exact cmp_lt_trans ho' hc' (hNc' y hy) hoc (hcs'.1 y hy)
          · exact hos'.1 y hy

end Mv4

end Ark.Mle
namespace Ark.Mle

section Mv5
variable {F : Type} [CommRing F] [DecidableEq F]

omit [CommRing F] [DecidableEq F] in
theorem MvPoly.WF.mono {p : MvPoly F} (h : MvPoly.WF p) (n : Nat) (hn : p.numVars ≤ n) :
    MvPoly.WF (⟨n, p.terms⟩ : MvPoly F) :=
  ⟨h.normal, h.sorted, fun ct hct vp hvp => Nat.lt_of_lt_of_le (h.vars ct hct vp hvp) hn⟩

/-- `add` of well-formed operands (zero coefficients allowed in the operands) is canonical -/
theorem add_canonical (s o : MvPoly F) (hs : MvPoly.WF s) (ho : MvPoly.WF o) :
    MvPoly.Canonical (s.add o) := by
  unfold MvPoly.add
  refine ⟨⟨?_, ?_, ?_⟩, fun ct hct => (removeZeros_mem.1 hct).2⟩
  · intro ct hct
    obtain ⟨y, hy, h⟩ := mergeGo_mem _ _ _ ct (removeZeros_mem.1 hct).1
    rw [h]
    rcases List.mem_append.1 hy with hy | hy
    · exact hs.normal y hy
    · exact ho.normal y hy
  · exact List.Pairwise.filter _ (mergeGo_sorted _ _ _ hs.normal ho.normal hs.sorted ho.sorted)
  · intro ct hct vp hvp
    obtain ⟨y, hy, h⟩ := mergeGo_mem _ _ _ ct (removeZeros_mem.1 hct).1
    rw [h] at hvp
    show vp.1 < max s.numVars o.numVars
    rcases List.mem_append.1 hy with hy | hy
    · have := hs.vars y hy vp hvp; omega
    · have := ho.vars y hy vp hvp; omega

theorem add_sumVal (s o : MvPoly F) (hs : ∀ ct ∈ s.terms, Term.Normal ct.2)
    (ho : ∀ ct ∈ o.terms, Term.Normal ct.2) (x : List F) :
    sumVal (s.add o).terms x = sumVal s.terms x + sumVal o.terms x := by
  unfold MvPoly.add
  rw [removeZeros_sumVal, mergeGo_sumVal _ _ _ (Nat.le_refl _) hs ho]

theorem add_coeffOf (s o : MvPoly F) (hs : ∀ ct ∈ s.terms, Term.Normal ct.2)
    (ho : ∀ ct ∈ o.terms, Term.Normal ct.2) (t : Term) :
    coeffOf (s.add o).terms t = coeffOf s.terms t + coeffOf o.terms t := by
  unfold MvPoly.add
  rw [removeZeros_coeffOf, mergeGo_coeffOf _ _ _ (Nat.le_refl _) hs ho]

theorem add_evaluate (s o : MvPoly F) (hs : MvPoly.WF s) (ho : MvPoly.WF o) (x : List F) :
    (s.add o).evaluate x = oadd (s.evaluate x) (o.evaluate x) := by
  rw [mv_evaluate_eq _ (add_canonical s o hs ho).1.vars, mv_evaluate_eq _ hs.vars,
    mv_evaluate_eq _ ho.vars, add_sumVal s o hs.normal ho.normal]
  have : (s.add o).numVars = max s.numVars o.numVars := rfl
  rw [this]
  by_cases h1 : s.numVars ≤ x.length <;> by_cases h2 : o.numVars ≤ x.length
  · rw [if_pos h1, if_pos h2, if_pos (by omega)]; rfl
  · rw [if_pos h1, if_neg h2, if_neg (by omega)]; rfl
  · rw [if_neg h1, if_pos h2, if_neg (by omega)]; rfl
  · rw [if_neg h1, if_neg h2, if_neg (by omega)]; rfl

/-! ### `neg`, scaling, `sub`, `addScaled` -/

omit [DecidableEq F] in
theorem sumVal_map_coeff (g : F → F) (k : F) (hg : ∀ c, g c = k * c) (l : List (F × Term)) (x : List F) :
    sumVal (l.map (fun ct => (g ct.1, ct.2))) x = k * sumVal l x := by
  induction l with
  | nil => simp [sumVal_nil]
  | cons a l ih => rw [List.map_cons, sumVal_cons, sumVal_cons, ih]; simp only [hg]; ring

omit [DecidableEq F] in
theorem coeffOf_map_coeff (g : F → F) (k : F) (hg : ∀ c, g c = k * c) (l : List (F × Term)) (t : Term) :
    coeffOf (l.map (fun ct => (g ct.1, ct.2))) t = k * coeffOf l t := by
  induction l with
  | nil => simp [coeffOf_nil]
  | cons a l ih => rw [List.map_cons, coeffOf_cons, coeffOf_cons, ih]; simp only [hg]; split_ifs <;> ring

omit [CommRing F] [DecidableEq F] in
theorem map_coeff_wf (g : F → F) (p : MvPoly F) (h : MvPoly.WF p) :
    MvPoly.WF (⟨p.numVars, p.terms.map (fun ct => (g ct.1, ct.2))⟩ : MvPoly F) := by
  refine ⟨?_, ?_, ?_⟩
  · intro ct hct
    obtain ⟨y, hy, rfl⟩ := List.mem_map.1 hct
    exact h.normal y hy
  · exact List.pairwise_map.2 h.sorted
  · intro ct hct
    obtain ⟨y, hy, rfl⟩ := List.mem_map.1 hct
    exact h.vars y hy

omit [DecidableEq F] in
theorem neg_wf (p : MvPoly F) (h : MvPoly.WF p) : MvPoly.WF p.neg := map_coeff_wf (fun c => -c) p h

omit [DecidableEq F] in
theorem neg_canonical (p : MvPoly F) (h : MvPoly.Canonical p) : MvPoly.Canonical p.neg := by
  refine ⟨neg_wf p h.1, ?_⟩
  intro ct hct
  obtain ⟨y, hy, rfl⟩ := List.mem_map.1 hct
  exact neg_ne_zero.2 (h.2 y hy)

omit [DecidableEq F] in
theorem neg_sumVal (p : MvPoly F) (x : List F) : sumVal p.neg.terms x = - sumVal p.terms x := by
  have := sumVal_map_coeff (fun c : F => -c) (-1) (fun c => by ring) p.terms x
  simpa [MvPoly.neg] using this

omit [DecidableEq F] in
theorem neg_coeffOf (p : MvPoly F) (t : Term) : coeffOf p.neg.terms t = - coeffOf p.terms t := by
  have := coeffOf_map_coeff (fun c : F => -c) (-1) (fun c => by ring) p.terms t
  simpa [MvPoly.neg] using this

theorem neg_evaluate (p : MvPoly F) (h : MvPoly.WF p) (x : List F) :
    p.neg.evaluate x = oneg (p.evaluate x) := by
  rw [mv_evaluate_eq _ (neg_wf p h).vars, mv_evaluate_eq _ h.vars, neg_sumVal]
  have : p.neg.numVars = p.numVars := rfl
  rw [this]
  by_cases h1 : p.numVars ≤ x.length
  · simp only [if_pos h1]; rfl
  · simp only [if_neg h1]; rfl

theorem sub_canonical (s o : MvPoly F) (hs : MvPoly.WF s) (ho : MvPoly.WF o) :
    MvPoly.Canonical (s.sub o) := add_canonical s o.neg hs (neg_wf o ho)

theorem sub_sumVal (s o : MvPoly F) (hs : ∀ ct ∈ s.terms, Term.Normal ct.2)
    (ho : ∀ ct ∈ o.terms, Term.Normal ct.2) (x : List F) :
    sumVal (s.sub o).terms x = sumVal s.terms x - sumVal o.terms x := by
  unfold MvPoly.sub
  rw [add_sumVal s o.neg hs, neg_sumVal, sub_eq_add_neg]
  intro ct hct
  obtain ⟨y, hy, rfl⟩ := List.mem_map.1 hct
  exact ho y hy

theorem sub_coeffOf (s o : MvPoly F) (hs : ∀ ct ∈ s.terms, Term.Normal ct.2)
    (ho : ∀ ct ∈ o.terms, Term.Normal ct.2) (t : Term) :
    coeffOf (s.sub o).terms t = coeffOf s.terms t - coeffOf o.terms t := by
  unfold MvPoly.sub
  rw [add_coeffOf s o.neg hs, neg_coeffOf, sub_eq_add_neg]
  intro ct hct
  obtain ⟨y, hy, rfl⟩ := List.mem_map.1 hct
  exact ho y hy

theorem sub_evaluate (s o : MvPoly F) (hs : MvPoly.WF s) (ho : MvPoly.WF o) (x : List F) :
    (s.sub o).evaluate x = osub (s.evaluate x) (o.evaluate x) := by
  unfold MvPoly.sub
  rw [add_evaluate s o.neg hs (neg_wf o ho), neg_evaluate o ho]
  cases s.evaluate x <;> cases o.evaluate x <;> simp [oadd, osub, oneg, sub_eq_add_neg]

theorem addScaled_canonical (s : MvPoly F) (f : F) (o : MvPoly F) (hs : MvPoly.WF s) (ho : MvPoly.WF o) :
    MvPoly.Canonical (s.addScaled f o) :=
  add_canonical s _ hs (map_coeff_wf (fun c => c * f) o ho)

theorem addScaled_sumVal (s : MvPoly F) (f : F) (o : MvPoly F) (hs : ∀ ct ∈ s.terms, Term.Normal ct.2)
    (ho : ∀ ct ∈ o.terms, Term.Normal ct.2) (x : List F) :
    sumVal (s.addScaled f o).terms x = sumVal s.terms x + f * sumVal o.terms x := by
  unfold MvPoly.addScaled
  rw [add_sumVal s _ hs]
  · show _ + sumVal (o.terms.map (fun ct => (ct.1 * f, ct.2))) x = _
    rw [sumVal_map_coeff (fun c => c * f) f (fun c => mul_comm c f)]
  · intro ct hct
    obtain ⟨y, hy, rfl⟩ := List.mem_map.1 hct
    exact ho y hy

theorem addScaled_coeffOf (s : MvPoly F) (f : F) (o : MvPoly F) (hs : ∀ ct ∈ s.terms, Term.Normal ct.2)
    (ho : ∀ ct ∈ o.terms, Term.Normal ct.2) (t : Term) :
    coeffOf (s.addScaled f o).terms t = coeffOf s.terms t + f * coeffOf o.terms t := by
  unfold MvPoly.addScaled
  rw [add_coeffOf s _ hs]
  · show _ + coeffOf (o.terms.map (fun ct => (ct.1 * f, ct.2))) t = _
    rw [coeffOf_map_coeff (fun c => c * f) f (fun c => mul_comm c f)]
  · intro ct hct
    obtain ⟨y, hy, rfl⟩ := List.mem_map.1 hct
    exact ho y hy

theorem addScaled_evaluate (s : MvPoly F) (f : F) (o : MvPoly F) (hs : MvPoly.WF s) (ho : MvPoly.WF o)
    (x : List F) :
    (s.addScaled f o).evaluate x = oaddScaled (s.evaluate x) f (o.evaluate x) := by
  have hso := map_coeff_wf (fun c => c * f) o ho
  unfold MvPoly.addScaled
  rw [add_evaluate s _ hs hso, mv_evaluate_eq _ hso.vars, mv_evaluate_eq _ ho.vars]
  show oadd _ (if o.numVars ≤ x.length then
    .ok (sumVal (o.terms.map (fun ct => (ct.1 * f, ct.2))) x) else .panic) = _
  rw [sumVal_map_coeff (fun c => c * f) f (fun c => mul_comm c f)]
  cases s.evaluate x <;> by_cases h : o.numVars ≤ x.length <;> simp [oadd, oaddScaled, h]

/-! ### `isZero`, `degree` -/

theorem isZero_iff_of_canonical (p : MvPoly F) (h : MvPoly.Canonical p) :
    p.isZero = true ↔ p.terms = [] := by
  unfold MvPoly.isZero
  constructor
  · intro hz
    simp only [Bool.or_eq_true, List.isEmpty_iff, List.all_eq_true, isZeroF, decide_eq_true_eq] at hz
    rcases hz with hz | hz
    · exact hz
    · cases hp : p.terms with
      | nil => rfl
      | cons a l => exact absurd (hz a (by simp [hp])) (h.2 a (by simp [hp]))
  · intro hz; simp [hz]

omit [CommRing F] [DecidableEq F] in
theorem foldl_max_ge (l : List Nat) (n : Nat) :
    n ≤ l.foldl max n ∧ (∀ d ∈ l, d ≤ l.foldl max n) ∧ (l.foldl max n = n ∨ l.foldl max n ∈ l) := by
  induction l generalizing n with
  | nil => simp
  | cons a l ih =>
    obtain ⟨h1, h2, h3⟩ := ih (max n a)
    simp only [List.foldl_cons]
    refine ⟨by omega, ?_, ?_⟩
    · intro d hd
      rcases List.mem_cons.1 hd with rfl | hd
      · omega
      · exact h2 d hd
    · rcases h3 with h3 | h3
      · rw [h3]
        rcases Nat.le_total n a with h | h
        · right; rw [Nat.max_eq_right h]; simp
        · left; exact Nat.max_eq_left h
      · right; exact List.mem_cons_of_mem _ h3

omit [CommRing F] [DecidableEq F] in
theorem degree_spec (p : MvPoly F) :
    (∀ ct ∈ p.terms, Term.degree ct.2 ≤ p.degree) ∧
    (p.terms = [] → p.degree = 0) ∧
    (p.terms ≠ [] → ∃ ct ∈ p.terms, Term.degree ct.2 = p.degree) := by
  unfold MvPoly.degree
  obtain ⟨h1, h2, h3⟩ := foldl_max_ge (p.terms.map (fun ct => Term.degree ct.2)) 0
  refine ⟨fun ct hct => h2 _ (List.mem_map.2 ⟨ct, hct, rfl⟩), fun h => by simp [h], fun hne => ?_⟩
  rcases h3 with h3 | h3
  · cases hp : p.terms with
    | nil => exact absurd hp hne
    | cons a l =>
      refine ⟨a, by simp, ?_⟩
      have := h2 (Term.degree a.2) (List.mem_map.2 ⟨a, by simp [hp], rfl⟩)
      rw [hp] at h3 this; omega
  · obtain ⟨ct, hct, h⟩ := List.mem_map.1 h3
    exact ⟨ct, hct, h⟩

end Mv5

end Ark.Mle
namespace Ark.Mle

/-! ## wrap-up lemmas used by the property file -/

theorem isConstant_eq (t : Term) : Term.isConstant t = decide (Term.degree t = 0) := by
  unfold Term.isConstant
  cases t with
  | nil => simp [Term.degree]
  | cons a t => simp; rfl

theorem new_unique (m : List (Nat × Nat)) (t : Term) (ht : Term.Normal t)
    (h : ∀ v, expo t v = expo m v) : t = Term.new m :=
  normal_ext t (Term.new m) ht (new_normal m) (fun v => by rw [h v, expo_new])

theorem new_eq_iff (m1 m2 : List (Nat × Nat)) :
    Term.new m1 = Term.new m2 ↔ ∀ v, expo m1 v = expo m2 v := by
  constructor
  · intro h v; rw [← expo_new m1, h, expo_new]
  · intro h
    exact normal_ext _ _ (new_normal m1) (new_normal m2) (fun v => by rw [expo_new, expo_new, h v])

theorem new_of_normal (t : Term) (ht : Term.Normal t) : Term.new t = t :=
  (new_unique t t ht (fun _ => rfl)).symm

theorem term_new_evaluate {F : Type} [CommMonoid F] [Zero F] (m : List (Nat × Nat)) (x : List F) :
    Term.evaluate (Term.new m) x =
      if ∀ vp ∈ m, vp.2 = 0 ∨ vp.1 < x.length then .ok (monVal m x) else .panic := by
  rw [term_evaluate_eq, monVal_new]
  by_cases h : ∀ vp ∈ m, vp.2 = 0 ∨ vp.1 < x.length
  · rw [if_pos h, if_pos ((new_vars_lt_iff m x.length).2 h)]
  · rw [if_neg h, if_neg (fun h' => h ((new_vars_lt_iff m x.length).1 h'))]

section Mv6
variable {F : Type} [CommRing F] [DecidableEq F]

/-- raw `(coefficient, factor list)` pairs with every factor list passed through `SparseTerm::new` -/
def newTerms (ts : List (F × List (Nat × Nat))) : List (F × Term) :=
  ts.map (fun cm => (cm.1, Term.new cm.2))

omit [DecidableEq F] in
theorem newTerms_sumVal (ts : List (F × List (Nat × Nat))) (x : List F) :
    sumVal (newTerms ts) x = sumVal ts x := by
  induction ts with
  | nil => rfl
  | cons a ts ih =>
    unfold newTerms at ih ⊢
    rw [List.map_cons, sumVal_cons, sumVal_cons, ih, monVal_new]

omit [CommRing F] [DecidableEq F] in
theorem newTerms_normal (ts : List (F × List (Nat × Nat))) : ∀ ct ∈ newTerms ts, Term.Normal ct.2 := by
  intro ct hct
  obtain ⟨y, _, rfl⟩ := List.mem_map.1 hct
  exact new_normal y.2

omit [CommRing F] [DecidableEq F] in
theorem newTerms_vars_iff (ts : List (F × List (Nat × Nat))) (nv : Nat) :
    (∀ ct ∈ newTerms ts, ∀ vp ∈ ct.2, vp.1 < nv) ↔ ∀ cm ∈ ts, ∀ vp ∈ cm.2, vp.2 = 0 ∨ vp.1 < nv := by
  unfold newTerms
  simp only [List.mem_map, forall_exists_index, and_imp]
  constructor
  · intro h cm hcm
    exact (new_vars_lt_iff cm.2 nv).1 (h _ cm hcm rfl)
  · rintro h ct cm hcm rfl
    exact (new_vars_lt_iff cm.2 nv).2 (h cm hcm)

omit [DecidableEq F] in
/-- coefficient of the normal-form monomial `t` in a raw term list: sum over all raw terms whose
    exponent vector is that of `t` -/
theorem newTerms_coeffOf (ts : List (F × List (Nat × Nat))) (t : Term) :
    coeffOf (newTerms ts) t =
      ((ts.filter (fun cm => decide (Term.new cm.2 = t))).map (·.1)).sum := by
  induction ts with
  | nil => rfl
  | cons a ts ih =>
    unfold newTerms at ih ⊢
    rw [List.map_cons, coeffOf_cons, ih]
    by_cases h : Term.new a.2 = t <;> simp [h]

/-- canonical polynomials evaluate to `Σ c·Π x_v^e` exactly on points of length `≥ numVars` -/
theorem canonical_evaluate (p : MvPoly F) (h : MvPoly.WF p) (x : List F) :
    p.evaluate x = if p.numVars ≤ x.length then .ok (sumVal p.terms x) else .panic :=
  mv_evaluate_eq p h.vars x

end Mv6

end Ark.Mle
namespace Ark.Mle

section Mv7
variable {F : Type} [CommRing F]

theorem coeffOf_eq_zero (l : List (F × Term)) (t : Term) (h : ∀ ct ∈ l, ct.2 ≠ t) : coeffOf l t = 0 := by
  induction l with
  | nil => rfl
  | cons a l ih =>
    rw [coeffOf_cons, if_neg (h a (by simp)), ih (fun ct hct => h ct (by simp [hct]))]; simp

/-- in a well-formed polynomial every monomial is stored once, so the coefficient map is read off
    the stored pairs -/
theorem coeffOf_of_sorted (l : List (F × Term)) (hN : ∀ ct ∈ l, Term.Normal ct.2)
    (hs : l.Pairwise (fun a b => Term.cmp a.2 b.2 = .lt)) : ∀ ct ∈ l, coeffOf l ct.2 = ct.1 := by
  induction l with
  | nil => intro ct hct; simp at hct
  | cons a l ih =>
    rw [List.pairwise_cons] at hs
    have hne : ∀ b ∈ l, b.2 ≠ a.2 := by
      intro b hb heq
      have h1 := hs.1 b hb
      rw [heq, (cmp_eq_iff a.2 a.2 (hN a (by simp)) (hN a (by simp))).2 rfl] at h1
      cases h1
    intro ct hct
    rw [coeffOf_cons]
    rcases List.mem_cons.1 hct with rfl | hct
    · rw [if_pos rfl, coeffOf_eq_zero l _ hne]; simp
    · rw [if_neg (fun h => hne ct hct h.symm), ih (fun c hc => hN c (by simp [hc])) hs.2 ct hct]; simp

end Mv7

end Ark.Mle
