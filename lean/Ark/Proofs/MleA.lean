import Ark.Model.Mle
import Ark.Model.DrvC17
import Mathlib.Algebra.BigOperators.Group.Finset.Basic
import Mathlib.Algebra.BigOperators.Ring.Finset
import Mathlib.Algebra.BigOperators.Fin
import Mathlib.Tactic.Ring
import Mathlib.Data.Nat.Bitwise
import Mathlib.Data.Nat.Log
/-
  Ark.Proofs.MleA — helper lemmas for property C17 (part A): the DENSE multilinear extension of
  `Ark.Model.Mle` (`Dense.*`, `swapBits`, `foldPairs`, `concat`).  Everything lives in the
  sub-namespace `Ark.Mle.A` so that the sibling files MleB / MleC can be imported next to it.
-/
namespace Ark.Mle.A
open Ark Finset

section Monad
variable {α β : Type}
@[simp] theorem bind_ok (a : α) (f : α → Outcome β) : (Outcome.ok a >>= f) = f a := rfl
@[simp] theorem bind_panic (f : α → Outcome β) : ((Outcome.panic : Outcome α) >>= f) = .panic := rfl
@[simp] theorem pure_eq (a : α) : (pure a : Outcome α) = .ok a := rfl
@[simp] theorem assert_true : assert true = .ok () := rfl
@[simp] theorem assert_false : assert false = .panic := rfl
theorem assert_of {c : Bool} (h : c = true) : assert c = .ok () := by subst h; rfl
theorem assert_of_not {c : Bool} (h : c = false) : assert c = .panic := by subst h; rfl
end Monad

/-! ### swapBits -/

/-- the permutation of bit positions exchanging `a+j ↔ b+j` for `j < k` -/
def sigma (a b k q : Nat) : Nat :=
  if a ≤ q ∧ q < a + k then b + (q - a) else if b ≤ q ∧ q < b + k then a + (q - b) else q

theorem sigma_invol (a b k q : Nat) (h : a + k ≤ b) : sigma a b k (sigma a b k q) = q := by
  unfold sigma
  split_ifs <;> omega

theorem sigma_lt (a b k n q : Nat) (h : a + k ≤ b) (hn : b + k ≤ n) (hq : q < n) :
    sigma a b k q < n := by
  unfold sigma
  split_ifs <;> omega

theorem sigma_of_ge (a b k q : Nat) (h : a + k ≤ b) (hq : b + k ≤ q) : sigma a b k q = q := by
  unfold sigma
  split_ifs <;> omega

theorem swapBits_testBit (x a b k q : Nat) (h : a + k ≤ b) :
    (swapBits x a b k).testBit q = x.testBit (sigma a b k q) := by
  unfold swapBits sigma
  simp only [Nat.testBit_xor, Nat.testBit_or, Nat.testBit_shiftLeft, Nat.testBit_and,
    Nat.testBit_shiftRight, Nat.one_shiftLeft, Nat.testBit_two_pow_sub_one]
  by_cases h1 : q < a
  · have e1 : ¬ (a ≤ q) := by omega
    have e2 : ¬ (b ≤ q) := by omega
    simp [e1, e2]
  by_cases h2 : q < a + k
  · have e1 : a ≤ q := by omega
    have e2 : ¬ (b ≤ q) := by omega
    have e3 : q - a < k := by omega
    have e4 : a + (q - a) = q := by omega
    simp [e1, e2, e3, e4, h2]
  by_cases h3 : q < b
  · have e1 : a ≤ q := by omega
    have e2 : ¬ (b ≤ q) := by omega
    have e3 : ¬ (q - a < k) := by omega
    simp [e1, e2, e3, h2]
  by_cases h4 : q < b + k
  · have e1 : a ≤ q := by omega
    have e2 : b ≤ q := by omega
    have e3 : ¬ (q - a < k) := by omega
    have e5 : q - b < k := by omega
    have e4 : b + (q - b) = q := by omega
    simp [e1, e2, e3, e4, e5, h2, h4]
    cases x.testBit q <;> cases x.testBit (a + (q - b)) <;> rfl
  · have e1 : a ≤ q := by omega
    have e2 : b ≤ q := by omega
    have e3 : ¬ (q - a < k) := by omega
    have e5 : ¬ (q - b < k) := by omega
    simp [e1, e2, e3, e5, h2, h4]

theorem swapBits_invol (x a b k : Nat) (h : a + k ≤ b) :
    swapBits (swapBits x a b k) a b k = x := by
  apply Nat.eq_of_testBit_eq
  intro q
  rw [swapBits_testBit _ _ _ _ _ h, swapBits_testBit _ _ _ _ _ h, sigma_invol _ _ _ _ h]

theorem swapBits_lt (x a b k n : Nat) (h : a + k ≤ b) (hn : b + k ≤ n) (hx : x < 2 ^ n) :
    swapBits x a b k < 2 ^ n := by
  apply Nat.lt_pow_two_of_testBit
  intro q hq
  rw [swapBits_testBit _ _ _ _ _ h, sigma_of_ge _ _ _ _ h (by omega)]
  exact Nat.testBit_lt_two_pow (lt_of_lt_of_le hx (Nat.pow_le_pow_right (by norm_num) hq))

theorem swapBits_self (x a k : Nat) : swapBits x a a k = x := by
  simp [swapBits]

theorem swapBits_zero (x a b : Nat) : swapBits x a b 0 = x := by
  simp [swapBits]

/-! ### integer helpers of `concat` -/

theorem nextPow2Aux_spec (n : Nat) : ∀ (fuel j : Nat), n ≤ 2 ^ (j + fuel) → (j = 0 ∨ 2 ^ (j - 1) < n) →
    nextPow2Aux fuel (2 ^ j) n = 2 ^ Nat.clog 2 n := by
  intro fuel
  induction fuel with
  | zero =>
    intro j h1 h2
    simp only [nextPow2Aux]
    congr 1
    apply le_antisymm
    · rcases h2 with h2 | h2
      · omega
      · have := (Nat.lt_clog_iff_pow_lt (b := 2) (by norm_num)).mpr h2
        omega
    · exact Nat.clog_le_of_le_pow (by simpa using h1)
  | succ fuel ih =>
    intro j h1 h2
    simp only [nextPow2Aux]
    split
    · rename_i hge
      congr 1
      apply le_antisymm
      · rcases h2 with h2 | h2
        · omega
        · have := (Nat.lt_clog_iff_pow_lt (b := 2) (by norm_num)).mpr h2
          omega
      · exact Nat.clog_le_of_le_pow hge
    · rename_i hlt
      rw [← pow_succ']
      apply ih (j + 1)
      · rw [show j + 1 + fuel = j + (fuel + 1) by ring]; exact h1
      · right; simpa using hlt

theorem nextPow2_eq (n : Nat) : nextPow2 n = 2 ^ Nat.clog 2 n := by
  unfold nextPow2
  have := nextPow2Aux_spec n (n + 1) 0 (by
    have : n < 2 ^ n := Nat.lt_two_pow_self
    rw [zero_add, pow_succ]; omega) (Or.inl rfl)
  simpa using this

theorem arkLog2_two_pow (m : Nat) : arkLog2 (2 ^ m) = m := by
  unfold arkLog2
  have : 2 ^ m ≠ 0 := Nat.pos_iff_ne_zero.mp (Nat.two_pow_pos m)
  simp [Nat.log2_two_pow]

theorem relabel_pair (a b : Nat) : (if a > b then (b, a) else (a, b)) = (min a b, max a b) := by
  split <;> (ext <;> simp <;> omega)


/-! ### lemmas that need no algebra -/

section Plain
variable {F : Type}

theorem relabelLoop_append (a b k : Nat) : ∀ (l1 l2 : List Nat) (ev : List F),
    Dense.relabelLoop a b k (l1 ++ l2) ev =
      (Dense.relabelLoop a b k l1 ev >>= fun ev' => Dense.relabelLoop a b k l2 ev')
  | [], l2, ev => rfl
  | i :: l1, l2, ev => by
    simp only [List.cons_append, Dense.relabelLoop]
    split
    · cases swapAt ev i (swapBits i a b k) with
      | panic => rfl
      | ok ev' => simp only [bind_ok]; exact relabelLoop_append a b k l1 l2 ev'
    · exact relabelLoop_append a b k l1 l2 ev

theorem relabelLoop_range (a b k : Nat) (ev : List F)
    (hinv : ∀ i, swapBits (swapBits i a b k) a b k = i)
    (hlt : ∀ i < ev.length, swapBits i a b k < ev.length) :
    ∀ t ≤ ev.length, ∃ ev', Dense.relabelLoop a b k (List.range t) ev = .ok ev' ∧
      ev'.length = ev.length ∧
      ∀ i < ev.length, ev'[i]? =
        if min i (swapBits i a b k) < t then ev[swapBits i a b k]? else ev[i]? := by
  intro t
  induction t with
  | zero => intro _; exact ⟨ev, rfl, rfl, fun i _ => by simp⟩
  | succ t ih =>
    intro ht
    obtain ⟨ev', h1, h2, h3⟩ := ih (by omega)
    rw [List.range_succ, relabelLoop_append, h1, bind_ok]
    simp only [Dense.relabelLoop]
    have hpt := hlt t (by omega)
    by_cases hc : t < swapBits t a b k
    · rw [if_pos hc]
      have hx : ev'[t]? = some ev[t] := by
        rw [h3 t (by omega), if_neg (by omega), List.getElem?_eq_getElem]
      have hy : ev'[swapBits t a b k]? = some (ev[swapBits t a b k]'hpt) := by
        rw [h3 _ hpt, hinv, if_neg (by omega), List.getElem?_eq_getElem]
      simp only [swapAt, hx, hy, bind_ok]
      refine ⟨_, rfl, by simp [h2], ?_⟩
      intro i hi
      have hset : ((ev'.set t (ev[swapBits t a b k]'hpt)).set (swapBits t a b k) ev[t])[i]? =
          if swapBits t a b k = i then some ev[t] else if t = i then some (ev[swapBits t a b k]'hpt)
          else ev'[i]? := by
        rw [List.getElem?_set, List.getElem?_set]
        simp only [List.length_set, h2, hpt, if_true, show t < ev.length by omega]
      rw [hset]
      by_cases e1 : swapBits t a b k = i
      · subst e1
        rw [if_pos rfl, hinv, if_pos (by omega), List.getElem?_eq_getElem]
      · rw [if_neg e1]
        by_cases e2 : t = i
        · subst e2
          rw [if_pos rfl, if_pos (by omega), List.getElem?_eq_getElem]
        · rw [if_neg e2, h3 i hi]
          have e3 : swapBits i a b k ≠ t := by
            intro h; apply e1; rw [← h, hinv]
          congr 1
          apply propext
          constructor <;> intro h <;> omega
    · rw [if_neg hc]
      refine ⟨ev', rfl, h2, ?_⟩
      intro i hi
      rw [h3 i hi]
      by_cases e : min i (swapBits i a b k) = t
      · have : i = t := by
          by_cases e2 : i = t
          · exact e2
          · have e3 : swapBits i a b k = t := by omega
            have e4 : swapBits t a b k = i := by rw [← e3, hinv]
            omega
        subst this
        have : swapBits i a b k = i := by omega
        rw [this]; simp
      · congr 1
        apply propext
        constructor <;> intro h <;> omega

theorem fromEvaluationsVec_ok (nv : Nat) (t : List F) (h : t.length = 2 ^ nv) :
    Dense.fromEvaluationsVec nv t = .ok ⟨nv, t⟩ := by
  simp [Dense.fromEvaluationsVec, Nat.one_shiftLeft, h]


/-- all tables appended -/
def flatTable (ps : List (Dense F)) : List F := (ps.map (·.evals)).flatten

theorem foldl_append_evals : ∀ (ps : List (Dense F)) (acc : List F),
    ps.foldl (fun acc p => acc ++ p.evals) acc = acc ++ flatTable ps
  | [], acc => by simp [flatTable]
  | p :: ps, acc => by
    rw [List.foldl_cons, foldl_append_evals ps]
    simp [flatTable]

theorem foldl_len_evals : ∀ (ps : List (Dense F)) (s : Nat),
    (ps.map (fun p => p.evals.length)).foldl (· + ·) s = s + (flatTable ps).length
  | [], s => by simp [flatTable]
  | p :: ps, s => by
    rw [List.map_cons, List.foldl_cons, foldl_len_evals ps]
    simp [flatTable]; omega

end Plain

/-! ### the equality polynomial and the multilinear extension of a table -/

section Ring
variable {F : Type} [CommRing F]

def bitF (b i : Nat) : F := if b.testBit i then 1 else 0

def eqPoly (x : List F) (b : Nat) : F :=
  ∏ i ∈ Finset.range x.length, (x.getD i 0 * bitF b i + (1 - x.getD i 0) * (1 - bitF b i))

/-- the multilinear extension of the table `t` at `x`: sum over the hypercube -/
def mle (t : List F) (x : List F) : F :=
  ∑ b ∈ Finset.range (2 ^ x.length), t.getD b 0 * eqPoly x b

theorem eqPoly_nil (b : Nat) : eqPoly ([] : List F) b = 1 := by simp [eqPoly]

theorem eqPoly_cons (r : F) (rs : List F) (b : Nat) :
    eqPoly (r :: rs) b = (r * bitF b 0 + (1 - r) * (1 - bitF b 0)) * eqPoly rs (b / 2) := by
  unfold eqPoly
  rw [List.length_cons, Finset.prod_range_succ', mul_comm]
  congr 1
  apply Finset.prod_congr rfl
  intro i _
  simp [bitF, Nat.testBit_succ]

theorem eqPoly_cons_even (r : F) (rs : List F) (b : Nat) :
    eqPoly (r :: rs) (2 * b) = (1 - r) * eqPoly rs b := by
  rw [eqPoly_cons]; simp [bitF]

theorem eqPoly_cons_odd (r : F) (rs : List F) (b : Nat) :
    eqPoly (r :: rs) (2 * b + 1) = r * eqPoly rs b := by
  rw [eqPoly_cons]
  have : (2 * b + 1) / 2 = b := by omega
  simp [bitF, this]

theorem sum_range_two_mul {M : Type} [AddCommMonoid M] (f : Nat → M) (n : Nat) :
    ∑ B ∈ range (2 * n), f B = ∑ b ∈ range n, (f (2 * b) + f (2 * b + 1)) := by
  induction n with
  | zero => simp
  | succ n ih =>
    rw [show 2 * (n + 1) = 2 * n + 1 + 1 by ring, sum_range_succ, sum_range_succ, ih, sum_range_succ,
      add_assoc]

theorem foldPairs_spec (r : F) : ∀ (m : Nat) (poly : List F), 2 * m ≤ poly.length →
    Dense.foldPairs r m poly = .ok (List.ofFn (fun b : Fin m =>
      poly.getD (2 * b) 0 + r * (poly.getD (2 * b + 1) 0 - poly.getD (2 * b) 0))) := by
  intro m
  induction m with
  | zero => intro poly _; simp [Dense.foldPairs]
  | succ m ih =>
    intro poly h
    match poly, h with
    | l :: rt :: rest, h =>
      have h' : 2 * m ≤ rest.length := by simp at h; omega
      simp only [Dense.foldPairs, ih rest h', bind_ok, pure_eq, List.ofFn_succ]
      simp [Nat.mul_add]

theorem fixRounds_spec (nv : Nat) : ∀ (rs : List F) (k : Nat) (poly : List F),
    k + rs.length ≤ nv → poly.length = 2 ^ nv →
    ∃ poly', Dense.fixRounds nv (k + 1) rs poly = .ok poly' ∧ poly'.length = 2 ^ nv ∧
      ∀ j < 2 ^ (nv - k - rs.length), poly'.getD j 0 =
        ∑ b ∈ range (2 ^ rs.length), poly.getD (b + j * 2 ^ rs.length) 0 * eqPoly rs b := by
  intro rs
  induction rs with
  | nil =>
    intro k poly _ hl
    exact ⟨poly, rfl, hl, fun j _ => by simp [eqPoly_nil]⟩
  | cons r rs ih =>
    intro k poly hk hl
    simp only [List.length_cons] at hk ⊢
    have hm : 2 * 2 ^ (nv - (k + 1)) ≤ poly.length := by
      rw [hl, ← pow_succ']; exact Nat.pow_le_pow_right (by norm_num) (by omega)
    have hm' : 2 ^ (nv - (k + 1)) ≤ 2 ^ nv := by omega
    obtain ⟨poly', h1, h2, h3⟩ := ih (k + 1)
      (List.ofFn (fun b : Fin (2 ^ (nv - (k + 1))) =>
        poly.getD (2 * b) 0 + r * (poly.getD (2 * b + 1) 0 - poly.getD (2 * b) 0))
        ++ poly.drop (2 ^ (nv - (k + 1)))) (by omega) (by simp [hl]; omega)
    refine ⟨poly', ?_, h2, ?_⟩
    · simp only [Dense.fixRounds, Nat.one_shiftLeft, foldPairs_spec r _ poly hm, bind_ok]
      exact h1
    · intro j hj
      have hj' : j < 2 ^ (nv - (k + 1) - rs.length) := by
        rw [Nat.sub_sub] at hj ⊢; rwa [Nat.add_assoc, Nat.add_comm 1] 
      rw [h3 j hj', pow_succ', sum_range_two_mul]
      apply Finset.sum_congr rfl
      intro b hb
      have hb' : b < 2 ^ rs.length := by simpa using hb
      have hidx : b + j * 2 ^ rs.length < 2 ^ (nv - (k + 1)) := by
        have : (j + 1) * 2 ^ rs.length ≤ 2 ^ (nv - (k + 1)) := by
          calc (j + 1) * 2 ^ rs.length ≤ 2 ^ (nv - (k + 1) - rs.length) * 2 ^ rs.length :=
                Nat.mul_le_mul_right _ hj'
            _ = 2 ^ (nv - (k + 1)) := by rw [← pow_add]; congr 1; omega
        rw [Nat.add_mul] at this; omega
      rw [eqPoly_cons_even, eqPoly_cons_odd]
      have e1 : 2 * b + j * (2 * 2 ^ rs.length) = 2 * (b + j * 2 ^ rs.length) := by ring
      have e2 : 2 * b + 1 + j * (2 * 2 ^ rs.length) = 2 * (b + j * 2 ^ rs.length) + 1 := by ring
      rw [e1, e2]
      generalize b + j * 2 ^ rs.length = idx at hidx
      rw [List.getD_append _ _ _ _ (by simpa using hidx)]
      simp only [List.getD_eq_getElem?_getD, List.getElem?_ofFn, hidx, dite_true, Option.getD_some]
      ring

/-- table of `fix_variables`: `t'[j] = Σ_{b<2^|pp|} t[b + j·2^|pp|]·eq(pp,b)` -/
def fixTable (nv : Nat) (t pp : List F) : List F :=
  List.ofFn (fun j : Fin (2 ^ (nv - pp.length)) =>
    ∑ b ∈ range (2 ^ pp.length), t.getD (b + j * 2 ^ pp.length) 0 * eqPoly pp b)

theorem Dense.fixVariables_ok (d : Dense F) (pp : List F) (hwf : d.evals.length = 2 ^ d.numVars)
    (hpp : pp.length ≤ d.numVars) :
    Dense.fixVariables d pp = .ok ⟨d.numVars - pp.length, fixTable d.numVars d.evals pp⟩ := by
  obtain ⟨poly', h1, h2, h3⟩ := fixRounds_spec d.numVars pp 0 d.evals (by omega) hwf
  have hle : 2 ^ (d.numVars - pp.length) ≤ poly'.length := by
    rw [h2]; exact Nat.pow_le_pow_right (by norm_num) (by omega)
  have htake : poly'.take (2 ^ (d.numVars - pp.length)) = fixTable d.numVars d.evals pp := by
    apply List.ext_getElem?
    intro j
    by_cases hj : j < 2 ^ (d.numVars - pp.length)
    · have := h3 j (by simpa using hj)
      rw [List.getD_eq_getElem?_getD, List.getElem?_eq_getElem (by omega)] at this
      simp only [Option.getD_some] at this
      simp [fixTable, hj]
      rw [List.getElem?_eq_getElem (by omega), this]
      simp
    · rw [List.getElem?_eq_none (by simp; omega), List.getElem?_eq_none (by simp [fixTable]; omega)]
  unfold Dense.fixVariables
  simp only [zero_add] at h1
  rw [assert_of (by simpa using hpp)]
  simp only [bind_ok, h1, Nat.one_shiftLeft]
  rw [assert_of (by simpa using hle)]
  simp only [bind_ok, htake]
  exact fromEvaluationsVec_ok _ _ (by simp [fixTable])

theorem Dense.fixVariables_panic (d : Dense F) (pp : List F) (hpp : d.numVars < pp.length) :
    Dense.fixVariables d pp = .panic := by
  unfold Dense.fixVariables
  rw [assert_of_not (by simpa using hpp)]
  rfl

theorem Dense.evaluate_ok (d : Dense F) (x : List F) (hwf : d.evals.length = 2 ^ d.numVars)
    (hx : x.length = d.numVars) : Dense.evaluate d x = .ok (mle d.evals x) := by
  unfold Dense.evaluate
  rw [assert_of (by simpa using hx)]
  simp only [bind_ok, Dense.fixVariables_ok d x hwf (le_of_eq hx), Dense.index, fixTable]
  simp [hx, ofOption, mle]

theorem Dense.evaluate_panic (d : Dense F) (x : List F) (hx : x.length ≠ d.numVars) :
    Dense.evaluate d x = .panic := by
  unfold Dense.evaluate
  rw [assert_of_not (by simpa using hx)]
  rfl

theorem Dense.evaluate_panic_iff (d : Dense F) (x : List F) (hwf : d.evals.length = 2 ^ d.numVars) :
    Dense.evaluate d x = .panic ↔ x.length ≠ d.numVars := by
  constructor
  · intro h hx
    rw [Dense.evaluate_ok d x hwf hx] at h
    cases h
  · exact Dense.evaluate_panic d x

/-! ### Boolean points -/

/-- the Boolean point whose coordinates are the `n` low bits of `c` -/
def boolPoint (n c : Nat) : List F := List.ofFn (fun i : Fin n => (bitF c i : F))

@[simp] theorem boolPoint_length (n c : Nat) : (boolPoint n c : List F).length = n := by
  simp [boolPoint]

theorem eqPoly_boolPoint (n c b : Nat) :
    eqPoly (boolPoint n c : List F) b = if ∀ i < n, b.testBit i = c.testBit i then 1 else 0 := by
  unfold eqPoly
  rw [boolPoint_length]
  have : ∀ i ∈ range n, ((boolPoint n c : List F).getD i 0 * bitF b i +
      (1 - (boolPoint n c : List F).getD i 0) * (1 - bitF b i)) =
      if b.testBit i = c.testBit i then 1 else 0 := by
    intro i hi
    have hi' : i < n := by simpa using hi
    simp only [boolPoint, List.getD_eq_getElem?_getD, List.getElem?_ofFn, hi', dite_true,
      Option.getD_some, bitF]
    cases b.testBit i <;> cases c.testBit i <;> simp
  rw [Finset.prod_congr rfl this, Finset.prod_boole]
  simp

theorem eqPoly_boolPoint_of_lt (n c b : Nat) (hc : c < 2 ^ n) (hb : b < 2 ^ n) :
    eqPoly (boolPoint n c : List F) b = if b = c then 1 else 0 := by
  rw [eqPoly_boolPoint]
  congr 1
  apply propext
  constructor
  · intro h
    apply Nat.eq_of_testBit_eq
    intro i
    by_cases hi : i < n
    · exact h i hi
    · have hn : 2 ^ n ≤ 2 ^ i := Nat.pow_le_pow_right (by norm_num) (by omega)
      rw [Nat.testBit_lt_two_pow (by omega), Nat.testBit_lt_two_pow (by omega)]
  · rintro rfl i _; rfl

theorem mle_boolPoint (t : List F) (n c : Nat) (hc : c < 2 ^ n) :
    mle t (boolPoint n c) = t.getD c 0 := by
  unfold mle
  rw [boolPoint_length]
  have : ∀ b ∈ range (2 ^ n), t.getD b 0 * eqPoly (boolPoint n c : List F) b =
      if b = c then t.getD b 0 else 0 := by
    intro b hb
    rw [eqPoly_boolPoint_of_lt n c b hc (by simpa using hb)]
    split <;> simp
  rw [Finset.sum_congr rfl this, Finset.sum_ite_eq']
  simp [hc]

/-! ### relabel -/

/-- table of `relabel`: `t'[i] = t[swapBits i a' b' k]`, `a' = min a b`, `b' = max a b` -/
def relabelTable (nv a b k : Nat) (t : List F) : List F :=
  List.ofFn (fun i : Fin (2 ^ nv) => t.getD (swapBits i (min a b) (max a b) k) 0)

/-- the window condition of `relabel_in_place` -/
def WindowOK (nv a b k : Nat) : Prop :=
  a = b ∨ k = 0 ∨ (max a b + k ≤ nv ∧ min a b + k ≤ max a b)

theorem relabelTable_trivial (nv a b k : Nat) (t : List F) (ht : t.length = 2 ^ nv)
    (h : a = b ∨ k = 0) : relabelTable nv a b k t = t := by
  have hs : ∀ i, swapBits i (min a b) (max a b) k = i := by
    intro i
    rcases h with h | h
    · subst h; simp [swapBits_self]
    · subst h; exact swapBits_zero _ _ _
  apply List.ext_getElem?
  intro i
  by_cases hi : i < 2 ^ nv
  · simp [relabelTable, hi, hs, List.getElem?_eq_getElem (show i < t.length by omega)]
  · rw [List.getElem?_eq_none (by simp [relabelTable]; omega), List.getElem?_eq_none (by omega)]

theorem Dense.relabel_ok (d : Dense F) (a b k : Nat) (hwf : d.evals.length = 2 ^ d.numVars)
    (hwin : WindowOK d.numVars a b k) :
    d.relabel a b k = .ok ⟨d.numVars, relabelTable d.numVars a b k d.evals⟩ := by
  unfold Dense.relabel
  rw [relabel_pair]
  simp only
  by_cases htriv : a = b ∨ k = 0
  · rw [relabelTable_trivial _ _ _ _ _ hwf htriv]
    have : (min a b == max a b || k == 0) = true := by
      rcases htriv with h | h <;> simp [h]
    rw [if_pos this]
  · have hw : max a b + k ≤ d.numVars ∧ min a b + k ≤ max a b := by
      rcases hwin with h | h | h
      · exact absurd (Or.inl h) htriv
      · exact absurd (Or.inr h) htriv
      · exact h
    have : (min a b == max a b || k == 0) = false := by
      simp only [Bool.or_eq_false_iff, beq_eq_false_iff_ne]
      constructor
      · intro h; apply htriv; left; omega
      · intro h; apply htriv; right; exact h
    rw [if_neg (by simp [this])]
    rw [assert_of (by simpa using hw.1), assert_of (by simpa using hw.2)]
    simp only [bind_ok]
    obtain ⟨ev', h1, h2, h3⟩ := relabelLoop_range (min a b) (max a b) k d.evals
      (fun i => swapBits_invol i _ _ _ hw.2)
      (fun i hi => by rw [hwf] at hi ⊢; exact swapBits_lt i _ _ _ _ hw.2 hw.1 hi)
      d.evals.length le_rfl
    rw [h1]
    simp only [bind_ok, pure_eq]
    congr 2
    apply List.ext_getElem?
    intro i
    by_cases hi : i < 2 ^ d.numVars
    · rw [h3 i (by omega), if_pos (by omega)]
      have hlt : swapBits i (min a b) (max a b) k < d.evals.length := by
        rw [hwf]; exact swapBits_lt i _ _ _ _ hw.2 hw.1 hi
      simp [relabelTable, hi, List.getElem?_eq_getElem hlt]
    · rw [List.getElem?_eq_none (by omega), List.getElem?_eq_none (by simp [relabelTable]; omega)]

omit [CommRing F] in
theorem Dense.relabel_panic (d : Dense F) (a b k : Nat) (h : ¬ WindowOK d.numVars a b k) :
    d.relabel a b k = .panic := by
  unfold WindowOK at h
  unfold Dense.relabel
  rw [relabel_pair]
  simp only
  have : (min a b == max a b || k == 0) = false := by
    simp only [Bool.or_eq_false_iff, beq_eq_false_iff_ne]
    constructor
    · intro h'; apply h; left; omega
    · intro h'; apply h; right; left; exact h'
  rw [if_neg (by simp [this])]
  by_cases h1 : max a b + k ≤ d.numVars
  · have h2 : ¬ (min a b + k ≤ max a b) := fun h2 => h (Or.inr (Or.inr ⟨h1, h2⟩))
    rw [assert_of (by simpa using h1), assert_of_not (by simpa using h2)]
    rfl
  · rw [assert_of_not (by simpa using h1)]
    rfl

theorem Dense.relabel_panic_iff (d : Dense F) (a b k : Nat) (hwf : d.evals.length = 2 ^ d.numVars) :
    d.relabel a b k = .panic ↔
      ¬ (a = b ∨ k = 0) ∧ (max a b + k > d.numVars ∨ min a b + k > max a b) := by
  constructor
  · intro h
    by_cases hw : WindowOK d.numVars a b k
    · rw [Dense.relabel_ok d a b k hwf hw] at h; cases h
    · unfold WindowOK at hw
      constructor
      · intro h'; apply hw; rcases h' with h' | h'
        · exact Or.inl h'
        · exact Or.inr (Or.inl h')
      · by_contra hc
        apply hw; right; right; omega
  · rintro ⟨h1, h2⟩
    apply Dense.relabel_panic
    unfold WindowOK
    intro hw
    rcases hw with h | h | h
    · exact h1 (Or.inl h)
    · exact h1 (Or.inr h)
    · omega

/-- the point `x ∘ σ` -/
def permPoint (a b k : Nat) (x : List F) : List F :=
  List.ofFn (fun i : Fin x.length => x.getD (sigma a b k i) 0)

@[simp] theorem permPoint_length (a b k : Nat) (x : List F) : (permPoint a b k x).length = x.length := by
  simp [permPoint]

/-- reindexing core: a bit permutation `σ` of `[0,n)` inducing the index permutation `π` -/
theorem mle_reindex (t x : List F) (π σ : Nat → Nat)
    (hπi : ∀ i, π (π i) = i) (hπl : ∀ i < 2 ^ x.length, π i < 2 ^ x.length)
    (hσi : ∀ q, σ (σ q) = q) (hσl : ∀ q < x.length, σ q < x.length)
    (hbit : ∀ i q, (π i).testBit q = i.testBit (σ q)) :
    ∑ i ∈ range (2 ^ x.length), t.getD (π i) 0 * eqPoly x i =
      mle t (List.ofFn (fun i : Fin x.length => x.getD (σ i) 0)) := by
  unfold mle
  simp only [List.length_ofFn]
  apply Finset.sum_nbij' π π
  · intro i hi; simpa using hπl i (by simpa using hi)
  · intro i hi; simpa using hπl i (by simpa using hi)
  · intro i _; exact hπi i
  · intro i _; exact hπi i
  · intro i _
    congr 1
    unfold eqPoly
    simp only [List.length_ofFn]
    apply Finset.prod_nbij' σ σ
    · intro q hq; simpa using hσl q (by simpa using hq)
    · intro q hq; simpa using hσl q (by simpa using hq)
    · intro q _; exact hσi q
    · intro q _; exact hσi q
    · intro q hq
      have hq' : σ q < x.length := hσl q (by simpa using hq)
      have e : (bitF (π i) (σ q) : F) = bitF i q := by
        unfold bitF; rw [hbit, hσi]
      rw [e]
      simp only [List.getD_eq_getElem?_getD, List.getElem?_ofFn, hq', dite_true, Option.getD_some,
        hσi]

theorem mle_relabelTable (t x : List F) (a b k : Nat) (hwin : WindowOK x.length a b k) :
    mle (relabelTable x.length a b k t) x = mle t (permPoint (min a b) (max a b) k x) := by
  have h0 : mle (relabelTable x.length a b k t) x =
      ∑ i ∈ range (2 ^ x.length), t.getD (swapBits i (min a b) (max a b) k) 0 * eqPoly x i := by
    unfold mle
    apply Finset.sum_congr rfl
    intro i hi
    have hi' : i < 2 ^ x.length := by simpa using hi
    simp [relabelTable, hi']
  rw [h0]
  by_cases htriv : a = b ∨ k = 0
  · have hs : ∀ i, swapBits i (min a b) (max a b) k = i := by
      intro i
      rcases htriv with h | h
      · subst h; simp [swapBits_self]
      · subst h; exact swapBits_zero _ _ _
    have hg : ∀ q, sigma (min a b) (max a b) k q = q := by
      intro q; unfold sigma
      rcases htriv with h | h
      · subst h; simp only [min_self, max_self]; split_ifs <;> omega
      · subst h; split_ifs <;> omega
    exact mle_reindex t x _ _ (fun i => by simp [hs]) (fun i hi => by simpa [hs] using hi)
      (fun q => by simp [hg]) (fun q hq => by simpa [hg] using hq) (fun i q => by simp [hs, hg])
  · have hw : max a b + k ≤ x.length ∧ min a b + k ≤ max a b := by
      rcases hwin with h | h | h
      · exact absurd (Or.inl h) htriv
      · exact absurd (Or.inr h) htriv
      · exact h
    exact mle_reindex t x _ _ (fun i => swapBits_invol i _ _ _ hw.2)
      (fun i hi => swapBits_lt i _ _ _ _ hw.2 hw.1 hi)
      (fun q => sigma_invol _ _ _ q hw.2) (fun q hq => sigma_lt _ _ _ _ q hw.2 hw.1 hq)
      (fun i q => swapBits_testBit i _ _ _ q hw.2)

theorem Dense.relabel_evaluate (d d' : Dense F) (a b k : Nat) (x : List F)
    (hwf : d.evals.length = 2 ^ d.numVars) (h : d.relabel a b k = .ok d') :
    d'.evaluate x = d.evaluate (permPoint (min a b) (max a b) k x) := by
  have hw : WindowOK d.numVars a b k := by
    by_contra hc
    rw [Dense.relabel_panic d a b k hc] at h; cases h
  rw [Dense.relabel_ok d a b k hwf hw] at h
  injection h with h
  subst h
  by_cases hx : x.length = d.numVars
  · rw [Dense.evaluate_ok ⟨d.numVars, relabelTable d.numVars a b k d.evals⟩ x
        (by simp [relabelTable]) hx,
      Dense.evaluate_ok d _ hwf (by simpa using hx)]
    simp only
    rw [← hx, mle_relabelTable d.evals x a b k (by rw [hx]; exact hw)]
  · rw [Dense.evaluate_panic ⟨d.numVars, relabelTable d.numVars a b k d.evals⟩ x hx, Dense.evaluate_panic d _ (by simpa using hx)]

/-! ### concat -/

/-- `concat` never panics: tables appended, zero-padded to `2 ^ ⌈log₂ total⌉` -/
theorem Dense.concat_ok (ps : List (Dense F)) :
    Dense.concat ps = .ok ⟨Nat.clog 2 (flatTable ps).length,
      flatTable ps ++ zeros (2 ^ Nat.clog 2 (flatTable ps).length - (flatTable ps).length)⟩ := by
  unfold Dense.concat
  simp only [foldl_len_evals, foldl_append_evals, zero_add, List.nil_append, nextPow2_eq,
    arkLog2_two_pow]
  have hle : (flatTable ps).length ≤ 2 ^ Nat.clog 2 (flatTable ps).length :=
    Nat.le_pow_clog (by norm_num) _
  rw [if_pos hle]
  exact fromEvaluationsVec_ok _ _ (by simp [zeros]; omega)

theorem sum_range_mul' {M : Type} [AddCommMonoid M] (f : Nat → M) (m n : Nat) :
    ∑ B ∈ range (m * n), f B = ∑ j ∈ range m, ∑ i ∈ range n, f (i + j * n) := by
  induction m with
  | zero => simp
  | succ m ih =>
    rw [Nat.succ_mul, Finset.sum_range_add, ih, Finset.sum_range_succ]
    congr 1
    apply Finset.sum_congr rfl
    intro i _
    rw [Nat.add_comm]

theorem eqPoly_append : ∀ (x y : List F) (i j : Nat), i < 2 ^ x.length →
    eqPoly (x ++ y) (i + j * 2 ^ x.length) = eqPoly x i * eqPoly y j
  | [], y, i, j, hi => by
    have : i = 0 := by simpa using hi
    subst this
    simp [eqPoly_nil]
  | r :: x, y, i, j, hi => by
    have hi2 : i / 2 < 2 ^ x.length := by
      rw [List.length_cons, pow_succ] at hi; omega
    have e0 : j * 2 ^ (x.length + 1) = 2 * (j * 2 ^ x.length) := by rw [pow_succ]; ring
    have e1 : (i + j * 2 ^ (x.length + 1)) / 2 = i / 2 + j * 2 ^ x.length := by
      rw [e0]; omega
    have e2 : (bitF (i + j * 2 ^ (x.length + 1)) 0 : F) = bitF i 0 := by
      unfold bitF
      have : (i + j * 2 ^ (x.length + 1)) % 2 = i % 2 := by rw [e0]; omega
      simp only [Nat.testBit_zero, this]
    rw [List.cons_append, eqPoly_cons, eqPoly_cons, List.length_cons, e1, e2,
      eqPoly_append x y (i / 2) j hi2]
    ring

omit [CommRing F] in
theorem length_flatten_uniform (L : Nat) : ∀ (ts : List (List F)), (∀ t ∈ ts, t.length = L) →
    ts.flatten.length = ts.length * L
  | [], _ => by simp
  | t :: ts, h => by
    rw [List.flatten_cons, List.length_append, length_flatten_uniform L ts
      (fun t' ht' => h t' (List.mem_cons_of_mem _ ht')), h t (List.mem_cons_self ..),
      List.length_cons]
    ring

theorem getD_flatten_uniform (L : Nat) : ∀ (ts : List (List F)) (i j : Nat),
    (∀ t ∈ ts, t.length = L) → i < L →
    ts.flatten.getD (i + j * L) 0 = (ts.getD j []).getD i 0
  | [], i, j, _, _ => by simp
  | t :: ts, i, 0, h, hi => by
    have ht : t.length = L := h t (List.mem_cons_self ..)
    simp only [List.flatten_cons, Nat.zero_mul, Nat.add_zero, List.getD_cons_zero]
    rw [List.getD_append _ _ _ _ (by omega)]
  | t :: ts, i, j + 1, h, hi => by
    have ht : t.length = L := h t (List.mem_cons_self ..)
    simp only [List.flatten_cons, List.getD_cons_succ]
    rw [List.getD_append_right _ _ _ _ (by rw [ht, Nat.succ_mul]; omega)]
    rw [show i + (j + 1) * L - t.length = i + j * L by rw [ht, Nat.succ_mul]; omega]
    exact getD_flatten_uniform L ts i j (fun t' ht' => h t' (List.mem_cons_of_mem _ ht')) hi

theorem mle_flatten (ts : List (List F)) (x y : List F)
    (hl : ∀ t ∈ ts, t.length = 2 ^ x.length) :
    mle ts.flatten (x ++ y) = ∑ j ∈ range (2 ^ y.length), eqPoly y j * mle (ts.getD j []) x := by
  unfold mle
  rw [List.length_append, Nat.add_comm, pow_add, sum_range_mul']
  apply Finset.sum_congr rfl
  intro j _
  rw [Finset.mul_sum]
  apply Finset.sum_congr rfl
  intro i hi
  have hi' : i < 2 ^ x.length := by simpa using hi
  rw [eqPoly_append x y i j hi', getD_flatten_uniform _ ts i j hl hi']
  ring

theorem Dense.concat_uniform (ps : List (Dense F)) (n m : Nat)
    (hps : ps.length = 2 ^ m) (hwf : ∀ p ∈ ps, p.numVars = n ∧ p.evals.length = 2 ^ n) :
    Dense.concat ps = .ok ⟨n + m, flatTable ps⟩ := by
  have hlen : (flatTable ps).length = 2 ^ (n + m) := by
    unfold flatTable
    rw [length_flatten_uniform (2 ^ n) _ (by
      intro t ht
      obtain ⟨p, hp, rfl⟩ := List.mem_map.mp ht
      exact (hwf p hp).2), List.length_map, hps, pow_add, Nat.mul_comm]
  rw [Dense.concat_ok, hlen, Nat.clog_pow 2 _ (by norm_num)]
  simp [zeros]

theorem Dense.concat_evaluate (ps : List (Dense F)) (n m : Nat) (x y : List F)
    (hps : ps.length = 2 ^ m) (hwf : ∀ p ∈ ps, p.numVars = n ∧ p.evals.length = 2 ^ n)
    (hx : x.length = n) (hy : y.length = m) :
    ∃ c, Dense.concat ps = .ok c ∧ c.numVars = n + m ∧ c.evals = flatTable ps ∧
      (∀ j : Fin ps.length, ps[j].evaluate x = .ok (mle ps[j].evals x)) ∧
      c.evaluate (x ++ y) = .ok (∑ j : Fin ps.length, eqPoly y j * mle ps[j].evals x) := by
  refine ⟨_, Dense.concat_uniform ps n m hps hwf, rfl, rfl, ?_, ?_⟩
  · intro j
    have := hwf ps[j] (List.getElem_mem _)
    exact Dense.evaluate_ok _ x (by rw [this.2, this.1]) (by rw [hx, this.1])
  · have hlen : (flatTable ps).length = 2 ^ (n + m) := by
      unfold flatTable
      rw [length_flatten_uniform (2 ^ n) _ (by
        intro t ht
        obtain ⟨p, hp, rfl⟩ := List.mem_map.mp ht
        exact (hwf p hp).2), List.length_map, hps, pow_add, Nat.mul_comm]
    rw [Dense.evaluate_ok ⟨n + m, flatTable ps⟩ (x ++ y) hlen (by simp [hx, hy])]
    congr 1
    simp only
    unfold flatTable
    rw [mle_flatten _ x y (by
      intro t ht
      obtain ⟨p, hp, rfl⟩ := List.mem_map.mp ht
      rw [hx]; exact (hwf p hp).2), hy, ← hps, Finset.sum_range]
    apply Finset.sum_congr rfl
    intro j _
    simp

variable [DecidableEq F]

/-! ### arithmetic -/

/-- the specification of `is_zero` on a table -/
def IsZeroPoly (d : Dense F) : Prop := d.numVars = 0 ∧ d.evals.getD 0 0 = 0

instance (d : Dense F) : Decidable (IsZeroPoly d) := by unfold IsZeroPoly; infer_instance

theorem Dense.isZero_ok (d : Dense F) (hwf : d.evals.length = 2 ^ d.numVars) :
    d.isZero = .ok (decide (IsZeroPoly d)) := by
  obtain ⟨nv, ev⟩ := d
  simp only at hwf
  unfold Dense.isZero
  by_cases h : nv = 0
  · subst h
    obtain ⟨e, rfl⟩ := List.length_eq_one_iff.mp hwf
    simp [Dense.index, ofOption, isZeroF, IsZeroPoly]
  · simp [h, IsZeroPoly]

theorem Dense.add_eq (s r : Dense F) (hs : s.evals.length = 2 ^ s.numVars)
    (hr : r.evals.length = 2 ^ r.numVars) :
    s.add r = if IsZeroPoly r then .ok s else if IsZeroPoly s then .ok r
      else if s.numVars = r.numVars then .ok ⟨s.numVars, List.zipWith (· + ·) s.evals r.evals⟩
      else .panic := by
  unfold Dense.add
  rw [Dense.isZero_ok r hr, Dense.isZero_ok s hs]
  by_cases h1 : IsZeroPoly r
  · simp [h1]
  by_cases h2 : IsZeroPoly s
  · simp [h1, h2]
  by_cases h3 : s.numVars = r.numVars
  · simp only [h1, h2, h3, bind_ok, decide_false, if_false,
      Bool.false_eq_true, beq_self_eq_true, assert_true]
    rw [fromEvaluationsVec_ok _ _ (by simp [hs, hr, h3]), if_pos trivial]
  · simp only [h1, h2, h3, bind_ok, decide_false, if_false, Bool.false_eq_true]
    rw [assert_of_not (by simpa using h3)]
    rfl

/-- entrywise addition whenever the arities agree (zero operands included) -/
theorem Dense.add_same (s r : Dense F) (hs : s.evals.length = 2 ^ s.numVars)
    (hr : r.evals.length = 2 ^ r.numVars) (h : s.numVars = r.numVars) :
    s.add r = .ok ⟨s.numVars, List.zipWith (· + ·) s.evals r.evals⟩ := by
  rw [Dense.add_eq s r hs hr]
  obtain ⟨n, se⟩ := s
  obtain ⟨n', re⟩ := r
  simp only at h hs hr ⊢
  subst h
  by_cases h1 : IsZeroPoly ⟨n, re⟩
  · rw [if_pos h1]
    obtain ⟨hn, h0⟩ := h1
    simp only at hn h0
    subst hn
    obtain ⟨e, rfl⟩ := List.length_eq_one_iff.mp hr
    obtain ⟨a, rfl⟩ := List.length_eq_one_iff.mp hs
    simp at h0
    simp [h0]
  rw [if_neg h1]
  by_cases h2 : IsZeroPoly ⟨n, se⟩
  · rw [if_pos h2]
    obtain ⟨hn, h0⟩ := h2
    simp only at hn h0
    subst hn
    obtain ⟨e, rfl⟩ := List.length_eq_one_iff.mp hr
    obtain ⟨a, rfl⟩ := List.length_eq_one_iff.mp hs
    simp at h0
    simp [h0]
  rw [if_neg h2, if_pos rfl]

theorem Dense.add_zero_right (s r : Dense F) (hs : s.evals.length = 2 ^ s.numVars)
    (hr : r.evals.length = 2 ^ r.numVars) (hz : IsZeroPoly r) : s.add r = .ok s := by
  rw [Dense.add_eq s r hs hr, if_pos hz]

theorem Dense.add_zero_left (s r : Dense F) (hs : s.evals.length = 2 ^ s.numVars)
    (hr : r.evals.length = 2 ^ r.numVars) (hz : IsZeroPoly s) : s.add r = .ok r := by
  rw [Dense.add_eq s r hs hr, if_pos hz]
  split
  · rename_i hz'
    obtain ⟨n, se⟩ := s
    obtain ⟨n', re⟩ := r
    obtain ⟨hn, h0⟩ := hz
    obtain ⟨hn', h0'⟩ := hz'
    simp only at hn hn' h0 h0' hs hr
    subst hn; subst hn'
    obtain ⟨e, rfl⟩ := List.length_eq_one_iff.mp hr
    obtain ⟨a, rfl⟩ := List.length_eq_one_iff.mp hs
    simp at h0 h0'
    rw [h0, h0']
  · rfl

theorem Dense.add_panic_iff (s r : Dense F) (hs : s.evals.length = 2 ^ s.numVars)
    (hr : r.evals.length = 2 ^ r.numVars) :
    s.add r = .panic ↔ s.numVars ≠ r.numVars ∧ ¬ IsZeroPoly s ∧ ¬ IsZeroPoly r := by
  rw [Dense.add_eq s r hs hr]
  by_cases h1 : IsZeroPoly r <;> by_cases h2 : IsZeroPoly s <;> by_cases h3 : s.numVars = r.numVars <;>
    simp [h1, h2, h3]

omit [DecidableEq F] in
theorem getD_zipWith (g : F → F → F) (hg : g 0 0 = 0) : ∀ (l1 l2 : List F) (b : Nat),
    l1.length = l2.length → (List.zipWith g l1 l2).getD b 0 = g (l1.getD b 0) (l2.getD b 0)
  | [], [], b, _ => by simp [hg]
  | a :: l1, c :: l2, 0, _ => by simp
  | a :: l1, c :: l2, b + 1, h => by
    have := getD_zipWith g hg l1 l2 b (by simpa using h)
    simpa using this
  | [], _ :: _, _, h => by simp at h
  | _ :: _, [], _, h => by simp at h

omit [DecidableEq F] in
theorem getD_map (g : F → F) (hg : g 0 = 0) (l : List F) (b : Nat) :
    (l.map g).getD b 0 = g (l.getD b 0) := by
  simp only [List.getD_eq_getElem?_getD, List.getElem?_map]
  cases l[b]? <;> simp [hg]

omit [DecidableEq F] in
theorem mle_add (t1 t2 x : List F) (h : t1.length = t2.length) :
    mle (List.zipWith (· + ·) t1 t2) x = mle t1 x + mle t2 x := by
  unfold mle
  rw [← Finset.sum_add_distrib]
  apply Finset.sum_congr rfl
  intro b _
  rw [getD_zipWith (· + ·) (by simp) t1 t2 b h]; ring

omit [DecidableEq F] in
theorem mle_sub (t1 t2 x : List F) (h : t1.length = t2.length) :
    mle (List.zipWith (· - ·) t1 t2) x = mle t1 x - mle t2 x := by
  unfold mle
  rw [← Finset.sum_sub_distrib]
  apply Finset.sum_congr rfl
  intro b _
  rw [getD_zipWith (· - ·) (by simp) t1 t2 b h]; ring

omit [DecidableEq F] in
theorem mle_addScaled (f : F) (t1 t2 x : List F) (h : t1.length = t2.length) :
    mle (List.zipWith (fun a b => a + f * b) t1 t2) x = mle t1 x + f * mle t2 x := by
  unfold mle
  rw [Finset.mul_sum, ← Finset.sum_add_distrib]
  apply Finset.sum_congr rfl
  intro b _
  rw [getD_zipWith (fun a b => a + f * b) (by simp) t1 t2 b h]; ring

omit [DecidableEq F] in
theorem mle_neg (t x : List F) : mle (t.map (fun a => -a)) x = - mle t x := by
  unfold mle
  rw [← Finset.sum_neg_distrib]
  apply Finset.sum_congr rfl
  intro b _
  rw [getD_map (fun a => -a) (by simp)]; ring

omit [DecidableEq F] in
theorem mle_scale (t x : List F) (s : F) : mle (t.map (fun a => a * s)) x = mle t x * s := by
  unfold mle
  rw [Finset.sum_mul]
  apply Finset.sum_congr rfl
  intro b _
  rw [getD_map (fun a => a * s) (by simp)]; ring

omit [DecidableEq F] in
theorem Dense.neg_wf (d : Dense F) (h : d.evals.length = 2 ^ d.numVars) :
    d.neg.evals.length = 2 ^ d.neg.numVars := by simpa [Dense.neg] using h

omit [DecidableEq F] in
theorem Dense.neg_isZeroPoly (d : Dense F) : IsZeroPoly d.neg ↔ IsZeroPoly d := by
  unfold IsZeroPoly Dense.neg
  simp only
  rw [getD_map (fun a => -a) (by simp)]
  simp

theorem Dense.sub_same (s r : Dense F) (hs : s.evals.length = 2 ^ s.numVars)
    (hr : r.evals.length = 2 ^ r.numVars) (h : s.numVars = r.numVars) :
    s.sub r = .ok ⟨s.numVars, List.zipWith (· - ·) s.evals r.evals⟩ := by
  unfold Dense.sub
  rw [Dense.add_same s r.neg hs (Dense.neg_wf r hr) h]
  simp only [Dense.neg, List.zipWith_map_right, sub_eq_add_neg]

theorem Dense.sub_zero_right (s r : Dense F) (hs : s.evals.length = 2 ^ s.numVars)
    (hr : r.evals.length = 2 ^ r.numVars) (hz : IsZeroPoly r) : s.sub r = .ok s :=
  Dense.add_zero_right s r.neg hs (Dense.neg_wf r hr) ((Dense.neg_isZeroPoly r).mpr hz)

theorem Dense.sub_zero_left (s r : Dense F) (hs : s.evals.length = 2 ^ s.numVars)
    (hr : r.evals.length = 2 ^ r.numVars) (hz : IsZeroPoly s) : s.sub r = .ok r.neg :=
  Dense.add_zero_left s r.neg hs (Dense.neg_wf r hr) hz

theorem Dense.sub_panic_iff (s r : Dense F) (hs : s.evals.length = 2 ^ s.numVars)
    (hr : r.evals.length = 2 ^ r.numVars) :
    s.sub r = .panic ↔ s.numVars ≠ r.numVars ∧ ¬ IsZeroPoly s ∧ ¬ IsZeroPoly r := by
  unfold Dense.sub
  rw [Dense.add_panic_iff s r.neg hs (Dense.neg_wf r hr), Dense.neg_isZeroPoly]
  rfl

/-- the operand `f * other` built by `AddAssign<(F, &Self)>` -/
def Dense.scaleLeft (f : F) (d : Dense F) : Dense F := ⟨d.numVars, d.evals.map (fun x => f * x)⟩

theorem Dense.addScaled_same (s : Dense F) (f : F) (r : Dense F)
    (hs : s.evals.length = 2 ^ s.numVars) (hr : r.evals.length = 2 ^ r.numVars)
    (h : s.numVars = r.numVars) :
    s.addScaled f r = .ok ⟨s.numVars, List.zipWith (fun a b => a + f * b) s.evals r.evals⟩ := by
  unfold Dense.addScaled
  rw [Dense.add_same s ⟨r.numVars, r.evals.map (fun x => f * x)⟩ hs (by simpa using hr) h]
  simp only [List.zipWith_map_right]

theorem Dense.addScaled_zero_right (s : Dense F) (f : F) (r : Dense F)
    (hs : s.evals.length = 2 ^ s.numVars) (hr : r.evals.length = 2 ^ r.numVars)
    (hz : r.numVars = 0 ∧ f * r.evals.getD 0 0 = 0) : s.addScaled f r = .ok s := by
  unfold Dense.addScaled
  apply Dense.add_zero_right s _ hs (by simpa using hr)
  unfold IsZeroPoly
  simp only
  rw [getD_map (fun a => f * a) (by simp)]
  exact hz

theorem Dense.addScaled_zero_left (s : Dense F) (f : F) (r : Dense F)
    (hs : s.evals.length = 2 ^ s.numVars) (hr : r.evals.length = 2 ^ r.numVars)
    (hz : IsZeroPoly s) : s.addScaled f r = .ok (Dense.scaleLeft f r) := by
  unfold Dense.addScaled
  exact Dense.add_zero_left s _ hs (by simpa using hr) hz

theorem Dense.addScaled_panic_iff (s : Dense F) (f : F) (r : Dense F)
    (hs : s.evals.length = 2 ^ s.numVars) (hr : r.evals.length = 2 ^ r.numVars) :
    s.addScaled f r = .panic ↔
      s.numVars ≠ r.numVars ∧ ¬ IsZeroPoly s ∧ ¬ (r.numVars = 0 ∧ f * r.evals.getD 0 0 = 0) := by
  unfold Dense.addScaled
  rw [Dense.add_panic_iff s _ hs (by simpa using hr)]
  unfold IsZeroPoly
  simp only
  rw [getD_map (fun a => f * a) (by simp)]

theorem Dense.mul_ne_zero (d : Dense F) (s : F) (hs : s ≠ 0) :
    d.mul s = ⟨d.numVars, d.evals.map (fun x => x * s)⟩ := by
  unfold Dense.mul
  simp only [isZeroF, hs, decide_false, Bool.false_eq_true, if_false, isOneF]
  by_cases h1 : s = 1
  · subst h1; simp
  · simp [h1]

/-- the recorded finding: scaling by zero collapses the arity -/
theorem Dense.mul_zero_collapses (a b : F) : Dense.mul ⟨1, [a, b]⟩ (0 : F) = ⟨0, [0]⟩ := by
  simp [Dense.mul, isZeroF, Dense.zero]

theorem Dense.mul_zero (d : Dense F) : d.mul (0 : F) = ⟨0, [0]⟩ := by
  simp [Dense.mul, isZeroF, Dense.zero]

/-! ### evaluation is linear -/

theorem Dense.add_evaluate (s r : Dense F) (hs : s.evals.length = 2 ^ s.numVars)
    (hr : r.evals.length = 2 ^ r.numVars) (h : s.numVars = r.numVars) (x : List F)
    (hx : x.length = s.numVars) :
    ∃ c u v, s.add r = .ok c ∧ s.evaluate x = .ok u ∧ r.evaluate x = .ok v ∧
      c.evaluate x = .ok (u + v) := by
  refine ⟨_, _, _, Dense.add_same s r hs hr h, Dense.evaluate_ok s x hs hx,
    Dense.evaluate_ok r x hr (by omega), ?_⟩
  rw [Dense.evaluate_ok ⟨s.numVars, List.zipWith (· + ·) s.evals r.evals⟩ x
    (by simp [hs, hr, h]) hx]
  simp only
  rw [mle_add _ _ _ (by rw [hs, hr, h])]

theorem Dense.sub_evaluate (s r : Dense F) (hs : s.evals.length = 2 ^ s.numVars)
    (hr : r.evals.length = 2 ^ r.numVars) (h : s.numVars = r.numVars) (x : List F)
    (hx : x.length = s.numVars) :
    ∃ c u v, s.sub r = .ok c ∧ s.evaluate x = .ok u ∧ r.evaluate x = .ok v ∧
      c.evaluate x = .ok (u - v) := by
  refine ⟨_, _, _, Dense.sub_same s r hs hr h, Dense.evaluate_ok s x hs hx,
    Dense.evaluate_ok r x hr (by omega), ?_⟩
  rw [Dense.evaluate_ok ⟨s.numVars, List.zipWith (· - ·) s.evals r.evals⟩ x
    (by simp [hs, hr, h]) hx]
  simp only
  rw [mle_sub _ _ _ (by rw [hs, hr, h])]

theorem Dense.addScaled_evaluate (s : Dense F) (f : F) (r : Dense F)
    (hs : s.evals.length = 2 ^ s.numVars)
    (hr : r.evals.length = 2 ^ r.numVars) (h : s.numVars = r.numVars) (x : List F)
    (hx : x.length = s.numVars) :
    ∃ c u v, s.addScaled f r = .ok c ∧ s.evaluate x = .ok u ∧ r.evaluate x = .ok v ∧
      c.evaluate x = .ok (u + f * v) := by
  refine ⟨_, _, _, Dense.addScaled_same s f r hs hr h, Dense.evaluate_ok s x hs hx,
    Dense.evaluate_ok r x hr (by omega), ?_⟩
  rw [Dense.evaluate_ok ⟨s.numVars, List.zipWith (fun a b => a + f * b) s.evals r.evals⟩ x
    (by simp [hs, hr, h]) hx]
  simp only
  rw [mle_addScaled _ _ _ _ (by rw [hs, hr, h])]

omit [DecidableEq F] in
theorem Dense.neg_evaluate (d : Dense F) (hd : d.evals.length = 2 ^ d.numVars) (x : List F)
    (hx : x.length = d.numVars) :
    ∃ u, d.evaluate x = .ok u ∧ d.neg.evaluate x = .ok (-u) := by
  refine ⟨_, Dense.evaluate_ok d x hd hx, ?_⟩
  rw [Dense.evaluate_ok d.neg x (Dense.neg_wf d hd) hx]
  simp only [Dense.neg, mle_neg]

theorem Dense.mul_evaluate (d : Dense F) (s : F) (hs : s ≠ 0)
    (hd : d.evals.length = 2 ^ d.numVars) (x : List F) (hx : x.length = d.numVars) :
    ∃ u, d.evaluate x = .ok u ∧ (d.mul s).evaluate x = .ok (u * s) := by
  refine ⟨_, Dense.evaluate_ok d x hd hx, ?_⟩
  rw [Dense.mul_ne_zero d s hs, Dense.evaluate_ok ⟨d.numVars, d.evals.map (fun x => x * s)⟩ x
    (by simpa using hd) hx]
  simp only [mle_scale]

end Ring

/-! ### the driver's executable specification of `relabel` (`Ark.DrvC17.permIdx`) -/

theorem bitsum_spec (P : Nat → Bool) : ∀ n,
    (List.range n).foldl (fun acc q => if P q then acc + 2 ^ q else acc) 0 < 2 ^ n ∧
    ∀ q, ((List.range n).foldl (fun acc q => if P q then acc + 2 ^ q else acc) 0).testBit q =
      (decide (q < n) && P q) := by
  intro n
  induction n with
  | zero => simp
  | succ n ih =>
    obtain ⟨h1, h2⟩ := ih
    rw [List.range_succ, List.foldl_append]
    simp only [List.foldl_cons, List.foldl_nil]
    generalize (List.range n).foldl (fun acc q => if P q then acc + 2 ^ q else acc) 0 = v at h1 h2
    by_cases hp : P n = true
    · rw [if_pos hp]
      constructor
      · rw [pow_succ]; omega
      · intro q
        have : v + 2 ^ n = 2 ^ n * 1 ||| v := by
          rw [← Nat.two_pow_add_eq_or_of_lt h1]; ring
        rw [this, Nat.testBit_or, h2, Nat.mul_one, Nat.testBit_two_pow]
        by_cases e : n = q
        · subst e; simp [hp]
        · have : (decide (q < n + 1)) = decide (q < n) := by
            apply decide_eq_decide.mpr; omega
          simp [e, this]
    · rw [if_neg hp]
      constructor
      · rw [pow_succ]; omega
      · intro q
        rw [h2]
        by_cases e : q = n
        · subst e; simp [hp]
        · have : (decide (q < n + 1)) = decide (q < n) := by
            apply decide_eq_decide.mpr; omega
          rw [this]

theorem sigma_eq_driver : Ark.DrvC17.sigma = sigma := rfl

theorem permIdx_eq_swapBits (nv a b k i : Nat) (hw : Ark.DrvC17.windowOK nv a b k = true)
    (hi : i < 2 ^ nv) : Ark.DrvC17.permIdx nv a b k i = swapBits i (min a b) (max a b) k := by
  unfold Ark.DrvC17.windowOK at hw
  simp only [Bool.and_eq_true, Bool.or_eq_true, decide_eq_true_eq, beq_iff_eq] at hw
  obtain ⟨⟨ha, hb⟩, hd⟩ := hw
  apply Nat.eq_of_testBit_eq
  intro q
  unfold Ark.DrvC17.permIdx
  rw [(bitsum_spec (fun q => i.testBit (Ark.DrvC17.sigma a b k q)) nv).2 q]
  by_cases htriv : a = b ∨ k = 0
  · have hs : swapBits i (min a b) (max a b) k = i := by
      rcases htriv with h | h
      · subst h; simp [swapBits_self]
      · subst h; exact swapBits_zero _ _ _
    have hg : Ark.DrvC17.sigma a b k q = q := by
      unfold Ark.DrvC17.sigma
      rcases htriv with h | h
      · subst h; split_ifs <;> omega
      · subst h; split_ifs <;> omega
    rw [hs, hg]
    by_cases hq : q < nv
    · simp [hq]
    · have : 2 ^ nv ≤ 2 ^ q := Nat.pow_le_pow_right (by norm_num) (by omega)
      rw [Nat.testBit_lt_two_pow (by omega)]; simp
  · have hdis : min a b + k ≤ max a b := by
      rcases hd with (h | h) | h
      · exact absurd (Or.inl h) htriv
      · exact absurd (Or.inr h) htriv
      · exact h
    have hmax : max a b + k ≤ nv := by omega
    rw [swapBits_testBit _ _ _ _ _ hdis]
    have hg : Ark.DrvC17.sigma a b k q = sigma (min a b) (max a b) k q := by
      unfold Ark.DrvC17.sigma sigma
      split_ifs <;> omega
    rw [hg]
    by_cases hq : q < nv
    · simp [hq]
    · have h1 : sigma (min a b) (max a b) k q = q := sigma_of_ge _ _ _ _ hdis (by omega)
      have : 2 ^ nv ≤ 2 ^ q := Nat.pow_le_pow_right (by norm_num) (by omega)
      rw [h1, Nat.testBit_lt_two_pow (by omega)]; simp [hq]
end Ark.Mle.A
