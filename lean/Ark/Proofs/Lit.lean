import Ark.Model.Lit
import Ark.Model.DrvC20
import Ark.Props.C01a
import Ark.Props.C01c
import Ark.Props.C01e
import Ark.Props.C15a
import Mathlib.Tactic.Ring
import Mathlib.Tactic.Linarith
import Mathlib.Data.Nat.ModEq
import Mathlib.Data.Int.ModEq
/-
  Helper lemmas for C20 (compile-time literals): `Ark.Model.Lit` against the reference reading
  `Ark.LitSpec.denote` of `Ark.Model.DrvC20`.
-/
namespace Ark.Lit
open Ark Ark.Mont Ark.LitSpec

-- decidable equality of compile-time outcomes (for the `decide +kernel` examples)
deriving instance DecidableEq for CT

/-! ## 1. little-endian digit strings -/

/-- `Σ dᵢ·b^i` of a little-endian digit list -/
def leSum (b : Nat) : List Nat → Nat
  | [] => 0
  | d :: ds => d + b * leSum b ds

/-- generic little-endian digit extraction (the shape shared by `hexitsLE` and `bytesLE`) -/
def digLE (b : Nat) : Nat → Nat → List Nat
  | 0, _ => []
  | fuel + 1, n => if n = 0 then [] else n % b :: digLE b fuel (n / b)

theorem hexitsLE_eq (fuel n : Nat) : hexitsLE fuel n = digLE 16 fuel n := by
  induction fuel generalizing n with
  | zero => rfl
  | succ f ih => simp only [hexitsLE, digLE, ih]

theorem bytesLE_eq (fuel n : Nat) : bytesLE fuel n = digLE 256 fuel n := by
  induction fuel generalizing n with
  | zero => rfl
  | succ f ih => simp only [bytesLE, digLE, ih]

theorem value_eq_leSum (l : List Nat) : value l = leSum B l := by
  induction l with
  | nil => rfl
  | cons x xs ih => simp only [value, leSum, ih]

theorem leSum_append (b : Nat) (xs ys : List Nat) :
    leSum b (xs ++ ys) = leSum b xs + b ^ xs.length * leSum b ys := by
  induction xs with
  | nil => simp [leSum]
  | cons x xs ih =>
    simp only [List.cons_append, leSum, ih, List.length_cons, pow_succ]
    ring

theorem leSum_lt (b : Nat) (_hb : 0 < b) (ds : List Nat) (h : ∀ d ∈ ds, d < b) :
    leSum b ds < b ^ ds.length := by
  induction ds with
  | nil => simp [leSum]
  | cons d ds ih =>
    have h1 : d < b := h d (by simp)
    have h2 := ih (fun x hx => h x (by simp [hx]))
    simp only [leSum, List.length_cons, pow_succ]
    have : b * (leSum b ds + 1) ≤ b * b ^ ds.length := Nat.mul_le_mul_left b h2
    rw [Nat.mul_comm (b ^ ds.length) b]
    rw [Nat.mul_add] at this
    omega

theorem leSum_ge (b : Nat) (_hb : 0 < b) (ds : List Nat)
    (h : ∀ d, ds.getLast? = some d → d ≠ 0) (hne : ds ≠ []) :
    b ^ (ds.length - 1) ≤ leSum b ds := by
  induction ds with
  | nil => exact absurd rfl hne
  | cons d ds ih =>
    by_cases hds : ds = []
    · subst hds
      have := h d (by simp)
      simp only [leSum, List.length_cons, List.length_nil]
      simp; omega
    · obtain ⟨y, ys, hy⟩ := List.exists_cons_of_ne_nil hds
      have h2 := ih (fun x hx => h x (by
        rw [hy, List.getLast?_cons_cons, ← hy]; exact hx)) hds
      simp only [leSum, List.length_cons, Nat.add_sub_cancel]
      have hl : 0 < ds.length := List.length_pos_iff.mpr hds
      have e : b ^ ds.length = b * b ^ (ds.length - 1) := by
        rw [← pow_succ']; congr 1; omega
      rw [e]
      have := Nat.mul_le_mul_left b h2
      omega

theorem digLE_zero (b fuel : Nat) : digLE b fuel 0 = [] := by
  cases fuel <;> simp [digLE]

theorem digLE_spec (b : Nat) (hb : 1 < b) (fuel n : Nat) (hf : n ≤ fuel) :
    leSum b (digLE b fuel n) = n ∧ (∀ d ∈ digLE b fuel n, d < b) ∧
    (∀ d, (digLE b fuel n).getLast? = some d → d ≠ 0) ∧ (n ≠ 0 → digLE b fuel n ≠ []) := by
  induction fuel generalizing n with
  | zero =>
    have : n = 0 := by omega
    subst this
    simp [digLE, leSum]
  | succ f ih =>
    by_cases hn : n = 0
    · subst hn; simp [digLE, leSum]
    · have hdiv : n / b < n := Nat.div_lt_self (by omega) hb
      obtain ⟨i1, i2, i3, i4⟩ := ih (n / b) (by omega)
      simp only [digLE, if_neg hn]
      refine ⟨?_, ?_, ?_, fun _ => by simp⟩
      · simp only [leSum, i1]
        have := Nat.div_add_mod n b
        omega
      · intro d hd
        rcases List.mem_cons.mp hd with rfl | hd
        · exact Nat.mod_lt _ (by omega)
        · exact i2 d hd
      · intro d hd
        by_cases h0 : n / b = 0
        · rw [h0, digLE_zero] at hd
          simp at hd
          have : n < b := by
            rcases Nat.div_eq_zero_iff.mp h0 with h | h
            · omega
            · exact h
          rw [Nat.mod_eq_of_lt this] at hd
          omega
        · have hne := i4 h0
          obtain ⟨x, xs, hx⟩ := List.exists_cons_of_ne_nil hne
          rw [hx] at hd
          rw [List.getLast?_cons_cons] at hd
          rw [hx] at i3
          exact i3 d hd

/-- `k`-chunking of a base-`b` digit string gives the base-`b^k` digit string of the same number -/
theorem chunks_leSum (b k : Nat) (hk : 0 < k) (fuel : Nat) (ds : List Nat) (hf : ds.length ≤ fuel) :
    leSum (b ^ k) ((chunks k ds fuel).map (leSum b)) = leSum b ds := by
  induction fuel generalizing ds with
  | zero =>
    have : ds = [] := List.eq_nil_of_length_eq_zero (by omega)
    subst this; simp [chunks, leSum]
  | succ f ih =>
    by_cases he : ds = []
    · subst he; simp [chunks, leSum]
    · have he' : ds.isEmpty = false := by simpa using he
      have hpos : 0 < ds.length := List.length_pos_iff.mpr he
      simp only [chunks, he', Bool.false_eq_true, if_false, List.map_cons, leSum]
      rw [ih (ds.drop k) (by simp only [List.length_drop]; omega)]
      conv_rhs => rw [← List.take_append_drop k ds, leSum_append]
      by_cases hlen : k ≤ ds.length
      · rw [List.length_take, Nat.min_eq_left hlen]
      · have : ds.drop k = [] := List.drop_eq_nil_of_le (by omega)
        rw [this]; simp [leSum]

theorem chunks_lt (b k : Nat) (hb : 0 < b) (fuel : Nat) (ds : List Nat)
    (h : ∀ d ∈ ds, d < b) : ∀ l ∈ (chunks k ds fuel).map (leSum b), l < b ^ k := by
  induction fuel generalizing ds with
  | zero => simp [chunks]
  | succ f ih =>
    by_cases he : ds.isEmpty = true
    · simp [chunks, he]
    · simp only [chunks, he]
      intro l hl
      rcases List.mem_cons.mp hl with rfl | hl
      · have h1 := leSum_lt b hb (ds.take k) (fun d hd => h d (List.mem_of_mem_take hd))
        exact Nat.lt_of_lt_of_le h1 (Nat.pow_le_pow_right hb (by simp [List.length_take]))
      · exact ih (ds.drop k) (fun d hd => h d (List.mem_of_mem_drop hd)) l hl

/-- number of chunks `L = ⌈len / k⌉`, as `k·(L-1) < len ≤ k·L` -/
theorem chunks_length (k : Nat) (hk : 0 < k) {α} (fuel : Nat) (ds : List α) (hf : ds.length ≤ fuel) :
    ds.length ≤ (chunks k ds fuel).length * k ∧ (chunks k ds fuel).length * k < ds.length + k := by
  induction fuel generalizing ds with
  | zero =>
    have : ds = [] := List.eq_nil_of_length_eq_zero (by omega)
    subst this; simp [chunks]; exact hk
  | succ f ih =>
    by_cases he : ds = []
    · subst he; simp [chunks]; exact hk
    · have he' : ds.isEmpty = false := by simpa using he
      have hpos : 0 < ds.length := List.length_pos_iff.mpr he
      simp only [chunks, he', Bool.false_eq_true, if_false, List.length_cons]
      have ⟨i1, i2⟩ := ih (ds.drop k) (by simp only [List.length_drop]; omega)
      rw [Nat.succ_mul]
      by_cases hlen : k ≤ ds.length
      · simp only [List.length_drop] at i1 i2
        omega
      · have : ds.drop k = [] := List.drop_eq_nil_of_le (by omega)
        rw [this]
        have e : chunks k ([] : List α) f = [] := by cases f <;> simp [chunks]
        rw [e]; simp; omega

/-! ## 2. the limbs of a magnitude: `to_radix_le(16)` + `chunks(16)` -/

/-- the limb list `str_to_limbs_u64` produces for the magnitude `n` -/
def hexLimbs (n : Nat) : List Nat :=
  (chunks 16 (toRadixLE16 n) (toRadixLE16 n).length).map (fun ch => limbOfChunk ch 0)

theorem limbOfChunk_eq (ch : List Nat) (i : Nat) : limbOfChunk ch i = 2 ^ (4 * i) * leSum 16 ch := by
  induction ch generalizing i with
  | nil => simp [limbOfChunk, leSum]
  | cons h t ih =>
    simp only [limbOfChunk, leSum, ih]
    have : 2 ^ (4 * (i + 1)) = 2 ^ (4 * i) * 16 := by
      rw [Nat.mul_add, pow_add]; norm_num
    rw [this]; ring

theorem limbOfChunk_zero : (fun ch => limbOfChunk ch 0) = leSum 16 := by
  funext ch; rw [limbOfChunk_eq]; simp

theorem limbOfBytes_eq : limbOfBytes = leSum 256 := by
  funext l
  induction l with
  | nil => rfl
  | cons x xs ih => simp only [limbOfBytes, leSum, ih]

theorem B_eq_16 : (16 : Nat) ^ 16 = B := by unfold B; norm_num
theorem B_eq_256 : (256 : Nat) ^ 8 = B := by unfold B; norm_num

theorem toRadixLE16_spec (n : Nat) :
    leSum 16 (toRadixLE16 n) = n ∧ (∀ d ∈ toRadixLE16 n, d < 16) ∧
    (n ≠ 0 → ∀ d, (toRadixLE16 n).getLast? = some d → d ≠ 0) ∧ toRadixLE16 n ≠ [] := by
  unfold toRadixLE16
  by_cases hn : n = 0
  · subst hn; simp [leSum]
  · rw [if_neg hn, hexitsLE_eq]
    obtain ⟨h1, h2, h3, h4⟩ := digLE_spec 16 (by omega) n n (Nat.le_refl _)
    exact ⟨h1, h2, fun _ => h3, h4 hn⟩

/-- digit lists of generic base, bounds on the length -/
theorem digits_len_bounds (b : Nat) (hb : 1 < b) (ds : List Nat) (h1 : ∀ d ∈ ds, d < b)
    (h2 : ∀ d, ds.getLast? = some d → d ≠ 0) (hne : ds ≠ []) :
    b ^ (ds.length - 1) ≤ leSum b ds ∧ leSum b ds < b ^ ds.length :=
  ⟨leSum_ge b (by omega) ds h2 hne, leSum_lt b (by omega) ds h1⟩

theorem hexLimbs_value (n : Nat) : value (hexLimbs n) = n := by
  unfold hexLimbs
  rw [limbOfChunk_zero, value_eq_leSum, ← B_eq_16, chunks_leSum 16 16 (by omega) _ _ (Nat.le_refl _)]
  exact (toRadixLE16_spec n).1

theorem hexLimbs_wf (n : Nat) : WF (hexLimbs n) := by
  unfold hexLimbs WF
  rw [limbOfChunk_zero, ← B_eq_16]
  exact chunks_lt 16 16 (by omega) _ _ (toRadixLE16_spec n).2.1

theorem hexLimbs_zero : hexLimbs 0 = [0] := by decide +kernel

theorem hexLimbs_ne_nil (n : Nat) : hexLimbs n ≠ [] := by
  intro h
  have hl := (chunks_length 16 (by omega) (toRadixLE16 n).length (toRadixLE16 n) (Nat.le_refl _)).1
  have : (hexLimbs n).length = 0 := by rw [h]; rfl
  unfold hexLimbs at this
  rw [List.length_map] at this
  rw [this] at hl
  have := List.length_pos_iff.mpr (toRadixLE16_spec n).2.2.2
  omega

/-- the limb count: `B^(L-1) ≤ n < B^L` for `n ≠ 0` -/
theorem hexLimbs_bounds (n : Nat) (hn : n ≠ 0) :
    B ^ ((hexLimbs n).length - 1) ≤ n ∧ n < B ^ (hexLimbs n).length ∧ 1 ≤ (hexLimbs n).length := by
  have hw := hexLimbs_wf n
  have hv := hexLimbs_value n
  have hlt := value_lt _ hw
  rw [hv] at hlt
  obtain ⟨s1, s2, s3, s4⟩ := toRadixLE16_spec n
  have ⟨d1, _⟩ := digits_len_bounds 16 (by omega) _ s2 (s3 hn) s4
  rw [s1] at d1
  have ⟨c1, c2⟩ := chunks_length 16 (by omega) (toRadixLE16 n).length (toRadixLE16 n) (Nat.le_refl _)
  have hL : (hexLimbs n).length = (chunks 16 (toRadixLE16 n) (toRadixLE16 n).length).length := by
    unfold hexLimbs; rw [List.length_map]
  rw [← hL] at c1 c2
  have hpos := List.length_pos_iff.mpr s4
  refine ⟨?_, hlt, by omega⟩
  refine Nat.le_trans ?_ d1
  rw [← B_eq_16, ← pow_mul]
  exact Nat.pow_le_pow_right (by omega) (by omega)

theorem bitLength_eq_bitLen (n : Nat) : bitLength n = bitLen n := rfl

/-- `⌈bitLength n / 64⌉ = L` whenever `B^(L-1) ≤ n < B^L`, `n ≠ 0` -/
theorem ceil_bitLength (n L : Nat) (_hn : n ≠ 0) (h1 : B ^ (L - 1) ≤ n) (h2 : n < B ^ L) :
    (bitLength n + 63) / 64 = L := by
  rw [bitLength_eq_bitLen]
  have a1 : bitLen n ≤ 64 * L := by rw [bitLen_le_iff, ← B_pow_eq]; exact h2
  have a2 : ¬ bitLen n ≤ 64 * (L - 1) := by rw [bitLen_le_iff, ← B_pow_eq]; omega
  have hL : L ≠ 0 := by
    intro h; subst h; simp at h2; omega
  omega

theorem hexLimbs_length (n : Nat) :
    (hexLimbs n).length = if n = 0 then 1 else (bitLength n + 63) / 64 := by
  by_cases hn : n = 0
  · subst hn; rw [hexLimbs_zero]; rfl
  · rw [if_neg hn]
    obtain ⟨h1, h2, _⟩ := hexLimbs_bounds n hn
    exact (ceil_bitLength n _ hn h1 h2).symm

/-- the limbs are the canonical ones -/
theorem hexLimbs_eq_toLimbs (n : Nat) : hexLimbs n = toLimbs (hexLimbs n).length n := by
  have := toLimbs_value_self (hexLimbs n) (hexLimbs_wf n)
  rw [hexLimbs_value] at this
  exact this.symm

/-! ## 3. `str_to_limbs_u64` = parse, then limbs -/

def splitPrefix : List Char → Nat × List Char
  | '0' :: 'x' :: rest => (16, rest)
  | '0' :: 'X' :: rest => (16, rest)
  | '0' :: 'o' :: rest => (8, rest)
  | '0' :: 'O' :: rest => (8, rest)
  | '0' :: 'b' :: rest => (2, rest)
  | '0' :: 'B' :: rest => (2, rest)
  | l => (10, l)

/-- the integer `str_to_limbs_u64` parses -/
def litInt (num : List Char) : Option Int :=
  match num with
  | '-' :: num1 => (bigIntFromStrRadix (splitPrefix num1).2 (splitPrefix num1).1).map (fun k => -k)
  | _ => bigIntFromStrRadix (splitPrefix num).2 (splitPrefix num).1

theorem out_eq (k : Int) :
    (let (sign, digits) := bigIntToRadixLE16 k
     let limbs := (chunks 16 digits digits.length).map (fun ch => limbOfChunk ch 0)
     (Outcome.ok (sign != Sign.minus, limbs) : Outcome (Bool × List Nat))) = .ok (decide (0 ≤ k), hexLimbs k.natAbs) := by
  simp only [bigIntToRadixLE16, hexLimbs]
  congr 2
  unfold signOf
  by_cases h : k < 0
  · simp [h]
  · by_cases h0 : k = 0
    · simp [h0]
    · simp only [if_neg h, if_neg h0]
      rw [decide_eq_true (by omega)]; rfl


theorem splitPrefix_default (l : List Char)
    (h1 : ∀ r, l ≠ '0' :: 'x' :: r) (h2 : ∀ r, l ≠ '0' :: 'X' :: r) (h3 : ∀ r, l ≠ '0' :: 'o' :: r)
    (h4 : ∀ r, l ≠ '0' :: 'O' :: r) (h5 : ∀ r, l ≠ '0' :: 'b' :: r) (h6 : ∀ r, l ≠ '0' :: 'B' :: r) :
    splitPrefix l = (10, l) := by
  unfold splitPrefix
  split
  · exact absurd rfl (h1 _)
  · exact absurd rfl (h2 _)
  · exact absurd rfl (h3 _)
  · exact absurd rfl (h4 _)
  · exact absurd rfl (h5 _)
  · exact absurd rfl (h6 _)
  · rfl

theorem strToLimbsU64_eq (s : List Char) :
    strToLimbsU64 s = match litInt s with
      | none => .panic
      | some k => .ok (decide (0 ≤ k), hexLimbs k.natAbs) := by
  unfold strToLimbsU64 litInt
  split
  · rename_i t
    simp only [if_true, List.drop_one, List.tail_cons]
    have key : ∀ o : Option Int, o = bigIntFromStrRadix (splitPrefix t).2 (splitPrefix t).1 →
        (match o with
          | none => (Outcome.panic : Outcome (Bool × List Nat))
          | some k => Outcome.ok ((bigIntToRadixLE16 (-k)).1 != Sign.minus,
              List.map (fun ch => limbOfChunk ch 0)
                (chunks 16 (bigIntToRadixLE16 (-k)).2 (bigIntToRadixLE16 (-k)).2.length))) =
        match Option.map (fun k => -k) (bigIntFromStrRadix (splitPrefix t).2 (splitPrefix t).1) with
          | none => Outcome.panic
          | some k => Outcome.ok (decide (0 ≤ k), hexLimbs k.natAbs) := by
      intro o ho
      rw [← ho]
      cases o with
      | none => rfl
      | some k => exact out_eq (-k)
    apply key
    split
    all_goals first
      | (rename_i r hr; subst hr; rfl)
      | (rename_i h1 h2 h3 h4 h5 h6
         rw [splitPrefix_default t (fun r e => h1 r e) (fun r e => h2 r e) (fun r e => h3 r e)
           (fun r e => h4 r e) (fun r e => h5 r e) (fun r e => h6 r e)])
  · simp only [Bool.false_eq_true, if_false]
    have key : ∀ o : Option Int, o = bigIntFromStrRadix (splitPrefix s).2 (splitPrefix s).1 →
        (match o with
          | none => (Outcome.panic : Outcome (Bool × List Nat))
          | some k => Outcome.ok ((bigIntToRadixLE16 k).1 != Sign.minus,
              List.map (fun ch => limbOfChunk ch 0)
                (chunks 16 (bigIntToRadixLE16 k).2 (bigIntToRadixLE16 k).2.length))) =
        match bigIntFromStrRadix (splitPrefix s).2 (splitPrefix s).1 with
          | none => Outcome.panic
          | some k => Outcome.ok (decide (0 ≤ k), hexLimbs k.natAbs) := by
      intro o ho
      rw [← ho]
      cases o with
      | none => rfl
      | some k => exact out_eq k
    apply key
    split
    all_goals first
      | (rename_i r hr; subst hr; rfl)
      | (rename_i h1 h2 h3 h4 h5 h6
         rw [splitPrefix_default s (fun r e => h1 r e) (fun r e => h2 r e) (fun r e => h3 r e)
           (fun r e => h4 r e) (fun r e => h5 r e) (fun r e => h6 r e)])

/-! ## lexical rules -/

/-- the digit-string part of `BigUint::from_str_radix` (after the optional `+`) -/
def uintParse (radix : Nat) (D : List Char) : Option Nat :=
  match D with
  | [] => none
  | '_' :: _ => none
  | _ => (normDigits radix D).map (digitsValueBE radix)

def stripPlus (s : List Char) : List Char :=
  match s with
    | '+' :: tail => (match tail with
      | '+' :: _ => s
      | _ => tail)
    | _ => s

def stripMinus (s : List Char) : List Char :=
  match s with
    | '-' :: tail => (match tail with
      | '+' :: _ => s
      | _ => tail)
    | _ => s

theorem bigUint_eq0 (s : List Char) (radix : Nat) :
    bigUintFromStrRadix s radix = uintParse radix (stripPlus s) := rfl

theorem bigInt_eq0 (t : List Char) (radix : Nat) :
    bigIntFromStrRadix ('-' :: t) radix =
      (bigUintFromStrRadix (stripMinus ('-' :: t)) radix).map (fun m => - (m : Int)) := rfl

theorem bigInt_eq1 (s : List Char) (radix : Nat) (h : ∀ t, s ≠ '-' :: t) :
    bigIntFromStrRadix s radix = (bigUintFromStrRadix s radix).map (fun m => (m : Int)) := by
  unfold bigIntFromStrRadix
  split
  · exact absurd rfl (h _)
  · rfl

theorem isSign_iff (c : Char) : isSign c = true ↔ c = '+' ∨ c = '-' := by
  unfold isSign; simp

theorem uintParse_sign (radix : Nat) (hr : radix ≤ 36) (c : Char) (t : List Char)
    (hc : isSign c = true) : uintParse radix (c :: t) = none := by
  rcases (isSign_iff c).mp hc with rfl | rfl
  · have : digitVal '+' = 255 := by decide
    simp [uintParse, normDigits, this]; omega
  · have : digitVal '-' = 255 := by decide
    simp [uintParse, normDigits, this]; omega

/-- a successfully parsed digit string does not start with a sign -/
theorem uintParse_head (radix : Nat) (hr : radix ≤ 36) (D : List Char) (m : Nat)
    (h : uintParse radix D = some m) : D ≠ [] ∧ ∀ c t, D = c :: t → isSign c = false := by
  constructor
  · rintro rfl; simp [uintParse] at h
  · intro c t e
    subst e
    cases hc : isSign c with
    | false => rfl
    | true => rw [uintParse_sign radix hr c t hc] at h; cases h

theorem bigUint_plus (t : List Char) (radix : Nat) (hr : radix ≤ 36) :
    bigUintFromStrRadix ('+' :: t) radix = uintParse radix t := by
  rw [bigUint_eq0]
  unfold stripPlus
  simp only
  split
  · rw [uintParse_sign radix hr _ _ (by decide), uintParse_sign radix hr _ _ (by decide)]
  · rfl

theorem bigUint_other (s : List Char) (radix : Nat) (h : ∀ t, s ≠ '+' :: t) :
    bigUintFromStrRadix s radix = uintParse radix s := by
  rw [bigUint_eq0]
  unfold stripPlus
  split
  · exact absurd rfl (h _)
  · rfl

theorem bigInt_minus (t : List Char) (radix : Nat) (hr : radix ≤ 36) :
    bigIntFromStrRadix ('-' :: t) radix = (uintParse radix t).map (fun m => -(m : Int)) := by
  rw [bigInt_eq0]
  unfold stripMinus
  simp only
  split
  · rw [bigUint_other _ _ (by intro t h; cases h), uintParse_sign radix hr _ _ (by decide),
      uintParse_sign radix hr _ _ (by decide)]
  · rename_i h
    rw [bigUint_other _ _ (fun t' e => h t' e)]

theorem bigInt_plus (t : List Char) (radix : Nat) (hr : radix ≤ 36) :
    bigIntFromStrRadix ('+' :: t) radix = (uintParse radix t).map (fun m => (m : Int)) := by
  rw [bigInt_eq1 _ _ (by intro t h; cases h), bigUint_plus _ _ hr]

theorem bigInt_other (s : List Char) (radix : Nat) (h : ∀ c t, s = c :: t → isSign c = false) :
    bigIntFromStrRadix s radix = (uintParse radix s).map (fun m => (m : Int)) := by
  rw [bigInt_eq1, bigUint_other]
  · intro t e; have := h _ _ e; simp [isSign] at this
  · intro t e; have := h _ _ e; simp [isSign] at this

/-- shape of an accepted `BigInt::from_str_radix` input: optional single sign, digit string -/
theorem bigInt_some (s : List Char) (radix : Nat) (hr : radix ≤ 36) (k : Int)
    (h : bigIntFromStrRadix s radix = some k) :
    ∃ (σ D : List Char) (m : Nat), s = σ ++ D ∧ uintParse radix D = some m ∧
      ((σ = [] ∧ k = m) ∨ (σ = ['+'] ∧ k = m) ∨ (σ = ['-'] ∧ k = -(m : Int))) := by
  rcases s with _ | ⟨c, t⟩
  · rw [bigInt_other _ _ (by intro c t e; cases e)] at h
    simp [uintParse] at h
  · by_cases hm : c = '-'
    · subst hm
      rw [bigInt_minus _ _ hr] at h
      cases hu : uintParse radix t with
      | none => rw [hu] at h; cases h
      | some m =>
        rw [hu] at h; simp at h
        exact ⟨['-'], t, m, rfl, hu, Or.inr (Or.inr ⟨rfl, h.symm⟩)⟩
    · by_cases hp : c = '+'
      · subst hp
        rw [bigInt_plus _ _ hr] at h
        cases hu : uintParse radix t with
        | none => rw [hu] at h; cases h
        | some m =>
          rw [hu] at h; simp at h
          exact ⟨['+'], t, m, rfl, hu, Or.inr (Or.inl ⟨rfl, h.symm⟩)⟩
      · have hs : ∀ c' t', c :: t = c' :: t' → isSign c' = false := by
          intro c' t' e
          cases e
          cases hc : isSign c with
          | false => rfl
          | true => rcases (isSign_iff c).mp hc with h | h <;> contradiction
        rw [bigInt_other _ _ hs] at h
        cases hu : uintParse radix (c :: t) with
        | none => rw [hu] at h; cases h
        | some m =>
          rw [hu] at h; simp at h
          exact ⟨[], c :: t, m, rfl, hu, Or.inl ⟨rfl, h.symm⟩⟩

/-! ## 4. the two parsers agree -/

theorem digitVal_big (c : Char) (h : 128 ≤ c.toNat) : digitVal c = 255 := by
  have h' : 128 ≤ c.val.toNat := h
  simp only [digitVal, Char.le_def, UInt32.le_iff_toNat_le]
  have e1 : ('9' : Char).val.toNat = 57 := by decide
  have e2 : ('z' : Char).val.toNat = 122 := by decide
  have e3 : ('Z' : Char).val.toNat = 90 := by decide
  rw [e1, e2, e3]
  rw [if_neg (by omega), if_neg (by omega), if_neg (by omega)]

theorem indexIn_none (l : List Char) (c : Char) (i : Nat) (h : c ∉ l) : indexIn l c i = none := by
  induction l generalizing i with
  | nil => rfl
  | cons a as ih =>
    simp only [indexIn]
    have : (a == c) = false := by
      simp; rintro rfl; exact h (by simp)
    rw [this]; simp only [Bool.false_eq_true, if_false]
    exact ih _ (fun hm => h (List.mem_cons_of_mem _ hm))

theorem alphabet_small : ∀ a ∈ alphabet, a.toNat < 128 := by decide +kernel

theorem toLower_big (c : Char) (h : 128 ≤ c.toNat) : c.toLower = c := by
  have h' : 128 ≤ c.val.toNat := h
  unfold Char.toLower
  rw [dif_neg]
  rintro ⟨_, h2⟩
  rw [UInt32.le_iff_toNat_le] at h2
  have e3 : ('Z' : Char).val.toNat = 90 := by decide
  omega

theorem digitOf_small (radix : Nat) (hr : radix = 2 ∨ radix = 8 ∨ radix = 10 ∨ radix = 16) :
    ∀ n : Fin 128, digitOf radix (Char.ofNat n) =
      if digitVal (Char.ofNat n) < radix then some (digitVal (Char.ofNat n)) else none := by
  rcases hr with rfl | rfl | rfl | rfl <;> decide +kernel

theorem digitOf_eq (radix : Nat) (hr : radix = 2 ∨ radix = 8 ∨ radix = 10 ∨ radix = 16) (c : Char) :
    digitOf radix c = if digitVal c < radix then some (digitVal c) else none := by
  by_cases h : c.toNat < 128
  · have := digitOf_small radix hr ⟨c.toNat, h⟩
    simpa using this
  · have h' : 128 ≤ c.toNat := by omega
    rw [digitVal_big c h', if_neg (by omega)]
    unfold digitOf
    rw [toLower_big c h', indexIn_none]
    intro hm
    have := alphabet_small c hm
    omega

theorem readDigits_eq (radix : Nat) (hr : radix = 2 ∨ radix = 8 ∨ radix = 10 ∨ radix = 16)
    (D : List Char) : readDigits radix D = normDigits radix D := by
  induction D with
  | nil => rfl
  | cons c t ih =>
    simp only [readDigits, normDigits, ih, digitOf_eq radix hr c]
    by_cases hu : (c == '_') = true
    · simp [hu]
    · simp only [hu]
      by_cases hd : digitVal c < radix
      · simp only [hd, if_true]
        cases normDigits radix t <;> rfl
      · simp only [hd, if_false]

theorem digitsValueBE_aux (radix : Nat) (ds : List Nat) (acc : Nat) :
    ds.foldl (fun acc d => acc * radix + d) acc = acc * radix ^ ds.length + posValue radix ds := by
  induction ds generalizing acc with
  | nil => simp [posValue]
  | cons d ds ih =>
    simp only [List.foldl_cons, ih, posValue, List.length_cons, pow_succ]
    ring

theorem posValue_eq (radix : Nat) (ds : List Nat) : posValue radix ds = digitsValueBE radix ds := by
  unfold digitsValueBE
  rw [digitsValueBE_aux]; simp

/-! ### the reference reading, restructured -/

def specPrefix (rest1 : List Char) : Nat × List Char :=
  match rest1 with
  | '0' :: c :: r =>
    if c == 'x' || c == 'X' then (16, r)
    else if c == 'o' || c == 'O' then (8, r)
    else if c == 'b' || c == 'B' then (2, r)
    else (10, rest1)
  | _ => (10, rest1)

def mkReading (radix : Nat) (sg1 sg2 : List Char) (m : Nat) : Reading :=
  let minus := (sg1 ++ sg2).countP (· == '-')
  { value := if minus % 2 == 1 then -((m : Nat) : Int) else ((m : Nat) : Int), minus := minus,
    signs1 := sg1.length, signs2 := sg2.length, radix := radix }

def specParse (radix : Nat) (rest3 : List Char) (k : Nat → Reading) : Option Reading :=
  match rest3 with
  | [] => none
  | '_' :: _ => none
  | _ =>
    match readDigits radix rest3 with
    | none => none
    | some ds => some (k (posValue radix ds))

theorem denote_eq0 (p : Bool) (s : List Char) : denote p s =
    (let signs1 := s.takeWhile isSign
     let rest1 := s.dropWhile isSign
     let rr := if p then specPrefix rest1 else (10, rest1)
     let signs2 := if rr.1 == 10 then [] else rr.2.takeWhile isSign
     let rest3 := if rr.1 == 10 then rr.2 else rr.2.dropWhile isSign
     specParse rr.1 rest3 (mkReading rr.1 signs1 signs2)) := by
  cases p <;> rfl

theorem specPrefix_eq (l : List Char) : specPrefix l = splitPrefix l := by
  unfold specPrefix
  split
  · rename_i c r
    by_cases h1 : c = 'x'; · subst h1; rfl
    by_cases h2 : c = 'X'; · subst h2; rfl
    by_cases h3 : c = 'o'; · subst h3; rfl
    by_cases h4 : c = 'O'; · subst h4; rfl
    by_cases h5 : c = 'b'; · subst h5; rfl
    by_cases h6 : c = 'B'; · subst h6; rfl
    simp [h1, h2, h3, h4, h5, h6]
    rw [splitPrefix_default] <;> intro r e <;> cases e <;> contradiction
  · rename_i h
    rw [splitPrefix_default] <;> intro r e <;> exact h _ _ e

theorem uintParse_default (radix : Nat) (D : List Char) (h1 : D ≠ []) (h2 : ∀ t, D ≠ '_' :: t) :
    uintParse radix D = (normDigits radix D).map (digitsValueBE radix) := by
  unfold uintParse
  split
  · exact absurd rfl h1
  · exact absurd rfl (h2 _)
  · rfl

theorem specParse_eq (radix : Nat) (hr : radix = 2 ∨ radix = 8 ∨ radix = 10 ∨ radix = 16)
    (D : List Char) (k : Nat → Reading) : specParse radix D k = (uintParse radix D).map k := by
  unfold specParse
  split
  · rfl
  · rfl
  · rename_i h1 h2
    rw [readDigits_eq radix hr, uintParse_default radix D (fun e => h1 e) (fun t e => h2 t e)]
    cases normDigits radix D with
    | none => rfl
    | some ds => simp [posValue_eq]

/-- facts about the prefix split -/
theorem splitPrefix_cases (l : List Char) :
    (splitPrefix l = (10, l)) ∨
    (∃ c r, l = '0' :: c :: r ∧ isSign c = false ∧
      (splitPrefix l = (16, r) ∨ splitPrefix l = (8, r) ∨ splitPrefix l = (2, r))) := by
  unfold splitPrefix
  split
  · exact Or.inr ⟨_, _, rfl, by decide, Or.inl rfl⟩
  · exact Or.inr ⟨_, _, rfl, by decide, Or.inl rfl⟩
  · exact Or.inr ⟨_, _, rfl, by decide, Or.inr (Or.inl rfl)⟩
  · exact Or.inr ⟨_, _, rfl, by decide, Or.inr (Or.inl rfl)⟩
  · exact Or.inr ⟨_, _, rfl, by decide, Or.inr (Or.inr rfl)⟩
  · exact Or.inr ⟨_, _, rfl, by decide, Or.inr (Or.inr rfl)⟩
  · exact Or.inl rfl

theorem splitPrefix_radix (l : List Char) :
    (splitPrefix l).1 = 2 ∨ (splitPrefix l).1 = 8 ∨ (splitPrefix l).1 = 10 ∨ (splitPrefix l).1 = 16 := by
  rcases splitPrefix_cases l with h | ⟨c, r, _, _, h | h | h⟩ <;> rw [h] <;> simp

/-- `denote` in terms of the model's own prefix split and digit-string parser -/
theorem denote_true_eq (s : List Char) : denote true s =
    (let signs1 := s.takeWhile isSign
     let rest1 := s.dropWhile isSign
     let rr := splitPrefix rest1
     let signs2 := if rr.1 == 10 then [] else rr.2.takeWhile isSign
     let rest3 := if rr.1 == 10 then rr.2 else rr.2.dropWhile isSign
     (uintParse rr.1 rest3).map (mkReading rr.1 signs1 signs2)) := by
  rw [denote_eq0]
  simp only [if_true, specPrefix_eq]
  rw [specParse_eq _ (splitPrefix_radix _)]

theorem denote_false_eq (s : List Char) : denote false s =
    (uintParse 10 (s.dropWhile isSign)).map (mkReading 10 (s.takeWhile isSign) []) := by
  rw [denote_eq0]
  simp only [Bool.false_eq_true, if_false, beq_self_eq_true, if_true]
  rw [specParse_eq _ (by simp)]

theorem uintParse_prefixed (c : Char) (hc : c ∈ ['x', 'X', 'o', 'O', 'b', 'B']) (r : List Char) :
    uintParse 10 ('0' :: c :: r) = none := by
  have e0 : digitVal '0' = 0 := by decide
  have e1 : digitVal 'x' = 33 := by decide
  have e2 : digitVal 'X' = 33 := by decide
  have e3 : digitVal 'o' = 24 := by decide
  have e4 : digitVal 'O' = 24 := by decide
  have e5 : digitVal 'b' = 11 := by decide
  have e6 : digitVal 'B' = 11 := by decide
  simp only [List.mem_cons, List.not_mem_nil, or_false] at hc
  rcases hc with rfl | rfl | rfl | rfl | rfl | rfl <;>
    simp [uintParse, normDigits, e0, e1, e2, e3, e4, e5, e6]

/-- facts about the prefix split (strong form) -/
theorem splitPrefix_cases' (l : List Char) :
    (splitPrefix l = (10, l)) ∨
    (∃ c r, l = '0' :: c :: r ∧ c ∈ ['x', 'X', 'o', 'O', 'b', 'B'] ∧
      (splitPrefix l = (16, r) ∨ splitPrefix l = (8, r) ∨ splitPrefix l = (2, r))) := by
  unfold splitPrefix
  split
  · exact Or.inr ⟨_, _, rfl, by decide, Or.inl rfl⟩
  · exact Or.inr ⟨_, _, rfl, by decide, Or.inl rfl⟩
  · exact Or.inr ⟨_, _, rfl, by decide, Or.inr (Or.inl rfl)⟩
  · exact Or.inr ⟨_, _, rfl, by decide, Or.inr (Or.inl rfl)⟩
  · exact Or.inr ⟨_, _, rfl, by decide, Or.inr (Or.inr rfl)⟩
  · exact Or.inr ⟨_, _, rfl, by decide, Or.inr (Or.inr rfl)⟩
  · exact Or.inl rfl

theorem splitPrefix_of_decimal (D : List Char) (m : Nat) (h : uintParse 10 D = some m) :
    splitPrefix D = (10, D) := by
  rcases splitPrefix_cases' D with h1 | ⟨c, r, e, hc, _⟩
  · exact h1
  · rw [e, uintParse_prefixed c hc r] at h; cases h

theorem takeWhile_signs (sg l : List Char) (hsg : ∀ c ∈ sg, isSign c = true)
    (hl : ∀ c t, l = c :: t → isSign c = false) :
    (sg ++ l).takeWhile isSign = sg ∧ (sg ++ l).dropWhile isSign = l := by
  have h1 : l.takeWhile isSign = [] := by
    rcases l with _ | ⟨c, t⟩
    · rfl
    · simp [hl c t rfl]
  have h2 : l.dropWhile isSign = l := by
    rcases l with _ | ⟨c, t⟩
    · rfl
    · simp [hl c t rfl]
  rw [List.takeWhile_append_of_pos hsg, List.dropWhile_append_of_pos hsg, h1, h2]
  simp

theorem denote_decimal (sg D : List Char) (hsg : ∀ c ∈ sg, isSign c = true) (m : Nat)
    (hD : uintParse 10 D = some m) : denote true (sg ++ D) = some (mkReading 10 sg [] m) := by
  have ⟨_, hh⟩ := uintParse_head 10 (by omega) D m hD
  have ⟨t1, t2⟩ := takeWhile_signs sg D hsg hh
  rw [denote_true_eq]
  simp only [t1, t2, splitPrefix_of_decimal D m hD, beq_self_eq_true, if_true, hD, Option.map_some]

theorem denote_prefixed (sg σ D : List Char) (hsg : ∀ c ∈ sg, isSign c = true)
    (hσ : ∀ c ∈ σ, isSign c = true) (c : Char) (radix m : Nat)
    (hsp : splitPrefix ('0' :: c :: (σ ++ D)) = (radix, σ ++ D)) (hr10 : radix ≠ 10)
    (hD : uintParse radix D = some m) :
    denote true (sg ++ '0' :: c :: (σ ++ D)) = some (mkReading radix sg σ m) := by
  have hr : radix ≤ 36 := by
    have := splitPrefix_radix ('0' :: c :: (σ ++ D))
    rw [hsp] at this; simp only at this; omega
  have ⟨_, hh⟩ := uintParse_head radix hr D m hD
  have ⟨t1, t2⟩ := takeWhile_signs sg ('0' :: c :: (σ ++ D)) hsg
    (by intro c' t' e; cases e; decide)
  have ⟨u1, u2⟩ := takeWhile_signs σ D hσ hh
  have hb : (radix == 10) = false := by simpa using hr10
  rw [denote_true_eq]
  simp only [t1, t2, hsp, hb, Bool.false_eq_true, if_false, u1, u2, hD, Option.map_some]

theorem litInt_minus (t : List Char) : litInt ('-' :: t) =
    (bigIntFromStrRadix (splitPrefix t).2 (splitPrefix t).1).map (fun k => -k) := rfl

theorem litInt_other (s : List Char) (h : ∀ t, s ≠ '-' :: t) :
    litInt s = bigIntFromStrRadix (splitPrefix s).2 (splitPrefix s).1 := by
  unfold litInt
  split
  · exact absurd rfl (h _)
  · rfl

theorem denote_core (sg0 num1 : List Char) (hsg0 : sg0 = [] ∨ sg0 = ['-']) (k0 : Int)
    (h : bigIntFromStrRadix (splitPrefix num1).2 (splitPrefix num1).1 = some k0) :
    ∃ r, denote true (sg0 ++ num1) = some r ∧ r.value = (if sg0 = [] then k0 else -k0) := by
  have hr : (splitPrefix num1).1 ≤ 36 := by
    have := splitPrefix_radix num1; omega
  obtain ⟨σ, D, m, e, hD, hσ⟩ := bigInt_some _ _ hr k0 h
  have hσs : ∀ c ∈ σ, isSign c = true := by
    rcases hσ with ⟨rfl, _⟩ | ⟨rfl, _⟩ | ⟨rfl, _⟩ <;> simp [isSign]
  have hsg0s : ∀ c ∈ sg0, isSign c = true := by
    rcases hsg0 with rfl | rfl <;> simp [isSign]
  rcases splitPrefix_cases' num1 with h1 | ⟨c, r, e1, hc, h1⟩
  · rw [h1] at e hD
    simp only at e hD
    refine ⟨mkReading 10 (sg0 ++ σ) [] m, ?_, ?_⟩
    · rw [e, ← List.append_assoc]
      apply denote_decimal _ _ _ m hD
      intro c hc
      rcases List.mem_append.mp hc with h | h
      · exact hsg0s c h
      · exact hσs c h
    · rcases hsg0 with rfl | rfl <;> rcases hσ with ⟨rfl, rfl⟩ | ⟨rfl, rfl⟩ | ⟨rfl, rfl⟩ <;>
        simp [mkReading]
  · have hrad : (splitPrefix num1).1 ≠ 10 ∧ (splitPrefix num1).2 = r := by
      rcases h1 with h1 | h1 | h1 <;> rw [h1] <;> simp
    rw [hrad.2] at e
    subst e1; subst e
    refine ⟨mkReading (splitPrefix ('0' :: c :: (σ ++ D))).1 sg0 σ m, ?_, ?_⟩
    · apply denote_prefixed sg0 σ D hsg0s hσs c _ m _ hrad.1 hD
      exact Prod.ext rfl hrad.2
    · rcases hsg0 with rfl | rfl <;> rcases hσ with ⟨rfl, rfl⟩ | ⟨rfl, rfl⟩ | ⟨rfl, rfl⟩ <;>
        simp [mkReading]

/-- **acceptance**: whatever `str_to_limbs_u64` parses, the reference reading denotes -/
theorem litInt_denote (s : List Char) (k : Int) (h : litInt s = some k) :
    ∃ r, denote true s = some r ∧ r.value = k := by
  rcases s with _ | ⟨c, t⟩
  · rw [litInt_other _ (by intro t e; cases e)] at h
    have := denote_core [] [] (Or.inl rfl) k h
    simpa using this
  · by_cases hc : c = '-'
    · subst hc
      rw [litInt_minus] at h
      cases hb : bigIntFromStrRadix (splitPrefix t).2 (splitPrefix t).1 with
      | none => rw [hb] at h; cases h
      | some k0 =>
        rw [hb] at h; simp at h
        have := denote_core ['-'] t (Or.inr rfl) k0 hb
        simpa [h] using this
    · rw [litInt_other _ (by intro t e; cases e; exact hc rfl)] at h
      have := denote_core [] (c :: t) (Or.inl rfl) k h
      simpa using this

theorem dropWhile_head (l : List Char) : ∀ c t, l.dropWhile isSign = c :: t → isSign c = false := by
  induction l with
  | nil => intro c t e; cases e
  | cons a as ih =>
    intro c t e
    rw [List.dropWhile_cons] at e
    split at e
    · exact ih c t e
    · rename_i h; cases e; simpa using h

theorem strict_shape (sg1 sg2 : List Char) (radix m : Nat)
    (hs : (mkReading radix sg1 sg2 m).strictSigned = true) :
    sg2 = [] ∧ ((sg1 = [] ∧ (mkReading radix sg1 sg2 m).value = m) ∨
      (sg1 = ['-'] ∧ (mkReading radix sg1 sg2 m).value = -(m : Int))) := by
  simp only [Reading.strictSigned, mkReading, Bool.and_eq_true, Bool.or_eq_true, beq_iff_eq,
    List.length_eq_zero_iff] at hs
  obtain ⟨h2, h1⟩ := hs
  subst h2
  refine ⟨rfl, ?_⟩
  rcases h1 with rfl | ⟨hl, hc⟩
  · left; simp [mkReading]
  · right
    obtain ⟨c, rfl⟩ := List.length_eq_one_iff.mp hl
    by_cases hcm : c = '-'
    · subst hcm; simp [mkReading]
    · simp [hcm] at hc

theorem denote_litInt (s : List Char) (r : Reading) (h : denote true s = some r)
    (hs : r.strictSigned = true) : litInt s = some r.value := by
  rw [denote_true_eq] at h
  simp only at h
  obtain ⟨m, hm, rfl⟩ := Option.map_eq_some_iff.mp h
  obtain ⟨h2, hsh⟩ := strict_shape _ _ _ _ hs
  have hsplit := List.takeWhile_append_dropWhile (p := isSign) (l := s)
  have hrest := dropWhile_head s
  generalize s.dropWhile isSign = rest1 at *
  generalize s.takeWhile isSign = sg1 at *
  have hr : (splitPrefix rest1).1 ≤ 36 := by
    have := splitPrefix_radix rest1; omega
  -- the digit string is everything after the prefix
  have hm' : uintParse (splitPrefix rest1).1 (splitPrefix rest1).2 = some m := by
    by_cases hb : ((splitPrefix rest1).1 == 10) = true
    · simpa [hb] using hm
    · simp only [hb, Bool.false_eq_true, if_false] at hm h2
      have := List.takeWhile_append_dropWhile (p := isSign) (l := (splitPrefix rest1).2)
      rw [h2, List.nil_append] at this
      rw [this] at hm; exact hm
  have hbi : bigIntFromStrRadix (splitPrefix rest1).2 (splitPrefix rest1).1 = some (m : Int) := by
    rw [bigInt_other _ _ (uintParse_head _ hr _ m hm').2, hm']; rfl
  rcases hsh with ⟨rfl, hv⟩ | ⟨rfl, hv⟩
  · rw [hv]
    simp only [List.nil_append] at hsplit
    subst hsplit
    rw [litInt_other _ (by
      intro t e
      have := hrest _ _ e
      simp [isSign] at this), hbi]
  · rw [hv, ← hsplit]
    show litInt ('-' :: rest1) = _
    rw [litInt_minus, hbi]; rfl

/-! ### run-time decimal parsers against `denote false` -/

theorem bigInt_denote_false (s : List Char) (k : Int) (h : bigIntFromStrRadix s 10 = some k) :
    ∃ r, denote false s = some r ∧ r.value = k := by
  obtain ⟨σ, D, m, e, hD, hσ⟩ := bigInt_some _ _ (by omega) k h
  have hσs : ∀ c ∈ σ, isSign c = true := by
    rcases hσ with ⟨rfl, _⟩ | ⟨rfl, _⟩ | ⟨rfl, _⟩ <;> simp [isSign]
  have ⟨t1, t2⟩ := takeWhile_signs σ D hσs (uintParse_head 10 (by omega) D m hD).2
  refine ⟨mkReading 10 σ [] m, ?_, ?_⟩
  · rw [denote_false_eq, e, t1, t2, hD]; rfl
  · rcases hσ with ⟨rfl, rfl⟩ | ⟨rfl, rfl⟩ | ⟨rfl, rfl⟩ <;> simp [mkReading]

theorem denote_false_bigInt (s : List Char) (r : Reading) (h : denote false s = some r)
    (hs : r.strictSigned = true) : bigIntFromStrRadix s 10 = some r.value := by
  rw [denote_false_eq] at h
  obtain ⟨m, hm, rfl⟩ := Option.map_eq_some_iff.mp h
  obtain ⟨_, hsh⟩ := strict_shape _ _ _ _ hs
  have hsplit := List.takeWhile_append_dropWhile (p := isSign) (l := s)
  generalize s.dropWhile isSign = rest1 at *
  generalize s.takeWhile isSign = sg1 at *
  rcases hsh with ⟨rfl, hv⟩ | ⟨rfl, hv⟩
  · rw [hv]
    simp only [List.nil_append] at hsplit
    subst hsplit
    rw [bigInt_other _ _ (uintParse_head _ (by omega) _ m hm).2, hm]; rfl
  · rw [hv, ← hsplit]
    show bigIntFromStrRadix ('-' :: rest1) 10 = _
    rw [bigInt_minus _ _ (by omega), hm]; rfl

theorem bigUint_denote_false (s : List Char) (n : Nat) (h : bigUintFromStrRadix s 10 = some n) :
    ∃ r, denote false s = some r ∧ r.value = n := by
  apply bigInt_denote_false
  rcases s with _ | ⟨c, t⟩
  · rw [bigInt_eq1 _ _ (by intro t e; cases e), h]; rfl
  · by_cases hc : c = '-'
    · subst hc
      rw [bigUint_other _ _ (by intro t e; cases e), uintParse_sign 10 (by omega) _ _ (by decide)] at h
      cases h
    · rw [bigInt_eq1 _ _ (by intro t e; cases e; exact hc rfl), h]; rfl

theorem denote_false_bigUint (s : List Char) (r : Reading) (h : denote false s = some r)
    (hs : r.strictUnsigned = true) : bigUintFromStrRadix s 10 = some r.value.toNat := by
  rw [denote_false_eq] at h
  obtain ⟨m, hm, rfl⟩ := Option.map_eq_some_iff.mp h
  simp only [Reading.strictUnsigned, mkReading, Bool.and_eq_true, beq_iff_eq,
    List.length_eq_zero_iff] at hs
  have hsplit := List.takeWhile_append_dropWhile (p := isSign) (l := s)
  rw [hs.2, List.nil_append] at hsplit
  rw [hsplit] at hm
  rw [bigUint_other _ _ (by
    intro t e
    have := (uintParse_head _ (by omega) _ m hm).2 _ _ e
    simp [isSign] at this), hm, hs.2]
  simp [mkReading]

/-- a run-time decimal string is read the same way by the compile-time parser -/
theorem bigInt_litInt (s : List Char) (k : Int) (h : bigIntFromStrRadix s 10 = some k) :
    litInt s = some k := by
  obtain ⟨σ, D, m, e, hD, hσ⟩ := bigInt_some _ _ (by omega) k h
  have hsp := splitPrefix_of_decimal D m hD
  have hhead := (uintParse_head 10 (by omega) D m hD).2
  have hbD : bigIntFromStrRadix D 10 = some (m : Int) := by
    rw [bigInt_other _ _ hhead, hD]; rfl
  rcases hσ with ⟨rfl, rfl⟩ | ⟨rfl, rfl⟩ | ⟨rfl, rfl⟩
  · simp only [List.nil_append] at e; subst e
    rw [litInt_other _ (by intro t e; have := hhead _ _ e; simp [isSign] at this), hsp]
    exact hbD
  · subst e
    have hsp' : splitPrefix (['+'] ++ D) = (10, ['+'] ++ D) := by
      rcases splitPrefix_cases' (['+'] ++ D) with h1 | ⟨c, r, e, _⟩
      · exact h1
      · cases e
    rw [litInt_other _ (by intro t e; cases e), hsp']
    exact h
  · subst e
    show litInt ('-' :: D) = _
    rw [litInt_minus, hsp, hbD]; rfl

/-! ## 5. `BigInt!`, `from_sign_and_limbs`, `MontFp!` -/

theorem padTo_value (n : Nat) (l : List Nat) : value (padTo n l) = value l := by
  unfold padTo; rw [value_append, value_replicate_zero]; simp

theorem padTo_wf (n : Nat) (l : List Nat) (h : WF l) : WF (padTo n l) := by
  unfold padTo; exact WF_append.mpr ⟨h, WF_replicate_zero _⟩

theorem padTo_length (n : Nat) (l : List Nat) (h : l.length ≤ n) : (padTo n l).length = n := by
  unfold padTo; simp; omega

theorem constNeg_eq_neg (c : MontCfg) (a : List Nat) : constNeg c a = Mont.neg c a := by
  unfold constNeg Mont.neg; cases isZero a <;> rfl

theorem hexLimbs_length_le (n N : Nat) (hN : 0 < N) : (hexLimbs n).length ≤ N ↔ n < B ^ N := by
  by_cases hn : n = 0
  · subst hn; rw [hexLimbs_zero]
    simp only [List.length_cons, List.length_nil]
    constructor
    · intro _; exact Nat.pow_pos B_pos
    · intro _; omega
  · obtain ⟨h1, h2, h3⟩ := hexLimbs_bounds n hn
    have hB : 1 < B := by unfold B; norm_num
    constructor
    · intro h
      exact Nat.lt_of_lt_of_le h2 (Nat.pow_le_pow_right B_pos h)
    · intro h
      have : B ^ ((hexLimbs n).length - 1) < B ^ N := Nat.lt_of_le_of_lt h1 h
      have := (Nat.pow_lt_pow_iff_right hB).mp this
      omega

theorem padTo_hexLimbs (n N : Nat) (hN : 0 < N) (h : n < B ^ N) : padTo N (hexLimbs n) = toLimbs N n := by
  have hl := (hexLimbs_length_le n N hN).mpr h
  apply value_inj _ _ (padTo_wf _ _ (hexLimbs_wf n)) (toLimbs_wf _ _)
  · rw [padTo_length _ _ hl, toLimbs_length]
  · rw [padTo_value, hexLimbs_value, toLimbs_value, Nat.mod_eq_of_lt h]

theorem int_mont_pos (x W p : Nat) : ((x * W % p : Nat) : Int) = ((x : Int) % p * W) % p := by
  push_cast
  exact ((Int.mod_modEq (x : Int) p).mul_right (W : Int)).symm

theorem int_mont_neg (x W p : Nat) (hp : 0 < p) :
    (((p - x * W % p) % p : Nat) : Int) = ((-(x : Int)) % p * W) % p := by
  have hv : x * W % p ≤ p := Nat.le_of_lt (Nat.mod_lt _ hp)
  rw [Int.natCast_mod, Nat.cast_sub hv]
  push_cast
  have h0 : (p : Int) ≡ 0 [ZMOD p] := by
    show (p : Int) % p = 0 % p
    simp
  have h1 : (x : Int) * W % p ≡ x * W [ZMOD p] := Int.mod_modEq _ _
  have h2 : (-(x : Int)) % p * W ≡ (-(x : Int)) * W [ZMOD p] := (Int.mod_modEq _ _).mul_right _
  have h3 : (p : Int) - (x : Int) * W % p ≡ 0 - x * W [ZMOD p] := h0.sub h1
  have e : (0 : Int) - x * W = (-(x : Int)) * W := by ring
  rw [e] at h3
  exact h3.trans h2.symm

/-- `Fp::from_sign_and_limbs` on any `≤ N` well-formed limbs (reduced or not) -/
theorem fromSignAndLimbs_spec (fl : Bool) (N p : Nat) (hN : 0 < N) (hodd : p % 2 = 1) (h1 : 1 < p)
    (hlt : p < B ^ N) (pos : Bool) (ls : List Nat) (hwf : WF ls) (hlen : ls.length ≤ N) :
    ∃ m, fromSignAndLimbs (mkCfg fl N p) pos ls = .ok m ∧ Elem (mkCfg fl N p) p m ∧
      (value m : Int) = ((if pos then (value ls : Int) else -(value ls : Int)) % (p : Int)
        * ((B ^ N : Nat) : Int)) % (p : Int) := by
  have hc := Ark.C01.mk_cfg_ok fl N p hN hodd h1 hlt
  have hn : (mkCfg fl N p).n = N := rfl
  have hx : Limbs (mkCfg fl N p) (padTo N ls) :=
    ⟨by rw [hn]; exact padTo_length N ls hlen, padTo_wf N ls hwf⟩
  obtain ⟨f1, f2⟩ := Ark.C01.fp_new_correct hc hx
  rw [padTo_value, hn] at f2
  unfold fromSignAndLimbs
  rw [hn, if_neg (by simpa using hlen)]
  cases pos with
  | true =>
    refine ⟨_, rfl, f1, ?_⟩
    simp only [if_true]
    rw [f2]; exact int_mont_pos _ _ _
  | false =>
    obtain ⟨g1, g2⟩ := Ark.C01.neg_exact hc _ f1
    refine ⟨_, rfl, ?_, ?_⟩
    · simp only [Bool.false_eq_true, if_false]; rw [constNeg_eq_neg]; exact g1
    · simp only [Bool.false_eq_true, if_false]
      rw [constNeg_eq_neg, g2, f2]
      exact int_mont_neg _ _ _ (by omega)

theorem fromSignAndLimbs_panic (c : MontCfg) (pos : Bool) (ls : List Nat) (h : c.n < ls.length) :
    fromSignAndLimbs c pos ls = .panic := by
  unfold fromSignAndLimbs
  rw [if_pos (by simpa using h)]

theorem montFp_eq (c : MontCfg) (s : List Char) : montFp c s = match litInt s with
    | none => .panic
    | some k => fromSignAndLimbs c (decide (0 ≤ k)) (hexLimbs k.natAbs) := by
  unfold montFp toSignAndLimbs
  rw [strToLimbsU64_eq]
  cases litInt s <;> rfl

theorem signed_natAbs (k : Int) :
    (if decide (0 ≤ k) = true then (k.natAbs : Int) else -(k.natAbs : Int)) = k := by
  by_cases h : 0 ≤ k
  · rw [if_pos (decide_eq_true h), Int.natAbs_of_nonneg h]
  · rw [if_neg (by simpa using h), Int.ofNat_natAbs_of_nonpos (by omega)]; omega

theorem montFp_spec (fl : Bool) (N p : Nat) (hN : 0 < N) (hodd : p % 2 = 1) (h1 : 1 < p)
    (hlt : p < B ^ N) (s : List Char) (k : Int) (hk : litInt s = some k) (hkl : k.natAbs < B ^ N) :
    ∃ m, montFp (mkCfg fl N p) s = .ok m ∧ Elem (mkCfg fl N p) p m ∧
      (value m : Int) = (k % (p : Int) * ((B ^ N : Nat) : Int)) % (p : Int) := by
  have hl := (hexLimbs_length_le k.natAbs N hN).mpr hkl
  obtain ⟨m, e1, e2, e3⟩ := fromSignAndLimbs_spec fl N p hN hodd h1 hlt (decide (0 ≤ k))
    (hexLimbs k.natAbs) (hexLimbs_wf _) hl
  refine ⟨m, ?_, e2, ?_⟩
  · rw [montFp_eq, hk]; exact e1
  · rw [e3, hexLimbs_value, signed_natAbs]

theorem montFp_panic_big (c : MontCfg) (hN : 0 < c.n) (s : List Char) (k : Int)
    (hk : litInt s = some k) (hkl : B ^ c.n ≤ k.natAbs) : montFp c s = .panic := by
  rw [montFp_eq, hk]
  apply fromSignAndLimbs_panic
  have := (hexLimbs_length_le k.natAbs c.n hN).not.mpr (by omega)
  omega

theorem montFp_panic_none (c : MontCfg) (s : List Char) (hk : litInt s = none) :
    montFp c s = .panic := by
  rw [montFp_eq, hk]

theorem bigIntMacro_eq (N : Nat) (s : List Char) : bigIntMacro N s = match litInt s with
    | none => .panic
    | some k => if k < 0 then .panic else if N < (hexLimbs k.natAbs).length then .panic
        else .ok (padTo N (hexLimbs k.natAbs)) := by
  unfold bigIntMacro toSignAndLimbs
  rw [strToLimbsU64_eq]
  cases litInt s with
  | none => rfl
  | some k =>
    simp only
    by_cases h : k < 0
    · simp [h]
    · have : 0 ≤ k := by omega
      simp only [this, decide_true, Bool.not_true, Bool.false_eq_true, if_false, h]
      by_cases h2 : N < (hexLimbs k.natAbs).length
      · simp [h2]
      · simp [h2]

theorem bigIntMacro_ok (N : Nat) (hN : 0 < N) (s : List Char) (k : Int) (hk : litInt s = some k)
    (h0 : 0 ≤ k) (hkl : k.natAbs < B ^ N) : bigIntMacro N s = .ok (toLimbs N k.toNat) := by
  rw [bigIntMacro_eq, hk]
  have hl := (hexLimbs_length_le k.natAbs N hN).mpr hkl
  simp only
  rw [if_neg (by omega), if_neg (by omega), padTo_hexLimbs _ _ hN hkl]
  congr 2
  omega

theorem bigIntMacro_panic (N : Nat) (hN : 0 < N) (s : List Char) (k : Int) (hk : litInt s = some k)
    (h : k < 0 ∨ B ^ N ≤ k.natAbs) : bigIntMacro N s = .panic := by
  rw [bigIntMacro_eq, hk]
  simp only
  rcases h with h | h
  · rw [if_pos h]
  · have := (hexLimbs_length_le k.natAbs N hN).not.mpr (by omega)
    by_cases h0 : k < 0
    · rw [if_pos h0]
    · rw [if_neg h0, if_pos (by omega)]

/-! ## 6. decimal text of a number (`BigUint::to_string`) parses back -/

theorem normDigits_append (r : Nat) (l1 l2 : List Char) :
    normDigits r (l1 ++ l2) = match normDigits r l1, normDigits r l2 with
      | some a, some b => some (a ++ b)
      | _, _ => none := by
  induction l1 with
  | nil => simp only [List.nil_append, normDigits]; cases normDigits r l2 <;> rfl
  | cons c t ih =>
    simp only [List.cons_append, normDigits, ih]
    by_cases hu : (c == '_') = true
    · simp only [hu, if_true]
    · simp only [hu]
      by_cases hd : digitVal c < r
      · simp only [hd, if_true]
        cases normDigits r t <;> cases normDigits r l2 <;> rfl
      · simp only [hd, if_false]
        cases normDigits r l2 <;> rfl

theorem digitChar_facts : ∀ d : Fin 10, digitVal (Nat.digitChar d) = d ∧
    (Nat.digitChar d == '_') = false := by decide

theorem normDigits_toDigits (n : Nat) :
    ∃ ds, normDigits 10 (Nat.toDigits 10 n) = some ds ∧ digitsValueBE 10 ds = n := by
  induction n using Nat.strongRecOn with
  | _ n ih =>
    rw [Nat.toDigits_eq_if (by omega)]
    by_cases h : n < 10
    · rw [if_pos h]
      have ⟨f1, f2⟩ := digitChar_facts ⟨n, h⟩
      simp only at f1 f2
      refine ⟨[n], ?_, by simp [digitsValueBE]⟩
      simp only [normDigits, f1, f2, Bool.false_eq_true, if_false, h, if_true, Option.map_some]
    · rw [if_neg h]
      obtain ⟨ds, h1, h2⟩ := ih (n / 10) (by omega)
      have hm : n % 10 < 10 := Nat.mod_lt _ (by omega)
      have ⟨f1, f2⟩ := digitChar_facts ⟨n % 10, hm⟩
      simp only at f1 f2
      refine ⟨ds ++ [n % 10], ?_, ?_⟩
      · rw [normDigits_append, h1]
        simp only [normDigits, f1, f2, Bool.false_eq_true, if_false, hm, if_true, Option.map_some]
      · unfold digitsValueBE at h2 ⊢
        rw [List.foldl_append, h2]
        simp only [List.foldl_cons, List.foldl_nil]
        omega

theorem decimal_eq (n : Nat) : decimal n = Nat.toDigits 10 n := by
  unfold decimal; exact Nat.toList_repr

theorem decimal_digits (n : Nat) : ∀ c ∈ decimal n, c.isDigit = true := by
  intro c hc
  rw [decimal_eq] at hc
  exact Nat.isDigit_of_mem_toDigits (by omega) (by omega) hc

theorem uintParse_decimal (n : Nat) : uintParse 10 (decimal n) = some n := by
  have hd := decimal_digits n
  rw [uintParse_default]
  · rw [decimal_eq]
    obtain ⟨ds, h1, h2⟩ := normDigits_toDigits n
    rw [h1, Option.map_some, h2]
  · rw [decimal_eq]; exact Nat.toDigits_ne_nil
  · intro t e
    have := hd '_' (by rw [e]; simp)
    exact absurd this (by decide)

theorem decimal_head (n : Nat) : ∀ c t, decimal n = c :: t → isSign c = false :=
  (uintParse_head 10 (by omega) _ n (uintParse_decimal n)).2

/-- item 4: `BigUint::from_str(&n.to_string()) == Ok(n)` -/
theorem bigUint_decimal (n : Nat) : bigUintFromStrRadix (decimal n) 10 = some n := by
  rw [bigUint_other _ _ (by
    intro t e
    have := decimal_head n _ _ e
    simp [isSign] at this), uintParse_decimal]

theorem bigInt_decimal (n : Nat) : bigIntFromStrRadix (decimal n) 10 = some (n : Int) := by
  rw [bigInt_other _ _ (decimal_head n), uintParse_decimal]; rfl

theorem litInt_decimal (n : Nat) : litInt (decimal n) = some (n : Int) :=
  bigInt_litInt _ _ (bigInt_decimal n)

theorem strToLimbsU64_decimal (n : Nat) : strToLimbsU64 (decimal n) = .ok (true, hexLimbs n) := by
  rw [strToLimbsU64_eq, litInt_decimal]
  simp

/-! ## 7. run-time twins: `TryFrom<BigUint>`, `FromStr for Fp` -/

theorem bigUintToBytesLE_spec (v : Nat) :
    leSum 256 (bigUintToBytesLE v) = v ∧ (∀ d ∈ bigUintToBytesLE v, d < 256) ∧
    (v ≠ 0 → ∀ d, (bigUintToBytesLE v).getLast? = some d → d ≠ 0) ∧ bigUintToBytesLE v ≠ [] := by
  unfold bigUintToBytesLE
  by_cases hn : v = 0
  · subst hn; simp [leSum]
  · rw [if_neg hn, bytesLE_eq]
    obtain ⟨h1, h2, h3, h4⟩ := digLE_spec 256 (by omega) v v (Nat.le_refl _)
    exact ⟨h1, h2, fun _ => h3, h4 hn⟩

/-- number of bytes: `≤ 8n` iff the value fits `n` limbs -/
theorem bytes_length_le (v n : Nat) (hn : 0 < n) :
    (bigUintToBytesLE v).length ≤ n * 8 ↔ v < B ^ n := by
  obtain ⟨s1, s2, s3, s4⟩ := bigUintToBytesLE_spec v
  have hpos := List.length_pos_iff.mpr s4
  have hB : B ^ n = 256 ^ (n * 8) := by rw [← B_eq_256, ← pow_mul, Nat.mul_comm]
  by_cases hv : v = 0
  · subst hv
    have : (bigUintToBytesLE 0).length = 1 := by decide
    rw [this]
    constructor
    · intro _; exact Nat.pow_pos B_pos
    · intro _; omega
  · have ⟨d1, d2⟩ := digits_len_bounds 256 (by omega) _ s2 (s3 hv) s4
    rw [s1] at d1 d2
    rw [hB]
    constructor
    · intro h
      exact Nat.lt_of_lt_of_le d2 (Nat.pow_le_pow_right (by omega) h)
    · intro h
      have : 256 ^ ((bigUintToBytesLE v).length - 1) < 256 ^ (n * 8) := Nat.lt_of_le_of_lt d1 h
      have := (Nat.pow_lt_pow_iff_right (by omega : 1 < 256)).mp this
      omega

theorem bigIntTryFromBigUint_some (n v : Nat) (hn : 0 < n) (hv : v < B ^ n) :
    bigIntTryFromBigUint n v = some (toLimbs n v) := by
  have hle := (bytes_length_le v n hn).mpr hv
  unfold bigIntTryFromBigUint
  simp only
  rw [if_neg (by omega)]
  congr 1
  obtain ⟨s1, s2, _, _⟩ := bigUintToBytesLE_spec v
  have hval : value ((chunks 8 (bigUintToBytesLE v) (bigUintToBytesLE v).length).map limbOfBytes) = v := by
    rw [limbOfBytes_eq, value_eq_leSum, ← B_eq_256, chunks_leSum 256 8 (by omega) _ _ (Nat.le_refl _)]
    exact s1
  have hwf : WF ((chunks 8 (bigUintToBytesLE v) (bigUintToBytesLE v).length).map limbOfBytes) := by
    unfold WF
    rw [limbOfBytes_eq, ← B_eq_256]
    exact chunks_lt 256 8 (by omega) _ _ s2
  have hlen : ((chunks 8 (bigUintToBytesLE v) (bigUintToBytesLE v).length).map limbOfBytes).length ≤ n := by
    rw [List.length_map]
    have ⟨_, c2⟩ := chunks_length 8 (by omega) (bigUintToBytesLE v).length (bigUintToBytesLE v)
      (Nat.le_refl _)
    omega
  apply value_inj _ _ (padTo_wf _ _ hwf) (toLimbs_wf _ _)
  · rw [padTo_length _ _ hlen, toLimbs_length]
  · rw [padTo_value, hval, toLimbs_value, Nat.mod_eq_of_lt hv]

theorem bigIntTryFromBigUint_none (n v : Nat) (hn : 0 < n) (hv : B ^ n ≤ v) :
    bigIntTryFromBigUint n v = none := by
  have hle := (bytes_length_le v n hn).not.mpr (by omega)
  unfold bigIntTryFromBigUint
  simp only
  rw [if_pos (by omega)]

theorem tmod_fix (k : Int) (p : Nat) (hp : 0 < p) :
    (if Int.tmod k p < 0 then Int.tmod k p + p else Int.tmod k p) = k % (p : Int) := by
  have hp' : (0 : Int) < p := by exact_mod_cast hp
  have h1 := Int.tmod_lt_of_pos k hp'
  have h2 := Int.lt_tmod_of_pos k hp'
  have h3 : (p : Int) ∣ Int.tmod k p - k := Int.dvd_tmod_sub_self
  have key : ∀ a : Int, 0 ≤ a → a < p → (p : Int) ∣ a - k → a = k % (p : Int) := by
    intro a ha hlt hd
    have : k ≡ a [ZMOD p] := (Int.modEq_iff_dvd).mpr hd
    have e : k % (p : Int) = a % (p : Int) := this
    rw [e, Int.emod_eq_of_lt ha hlt]
  split
  · apply key _ (by omega) (by omega)
    have : Int.tmod k p + p - k = (Int.tmod k p - k) + p := by ring
    rw [this]; exact Int.dvd_add h3 (Int.dvd_refl _)
  · exact key _ (by omega) h1 h3

/-- `Fp::from_str` on a string the decimal `BigInt` parser accepts -/
theorem fpFromStr_spec (fl : Bool) (N p : Nat) (hN : 0 < N) (hodd : p % 2 = 1) (h1 : 1 < p)
    (hlt : p < B ^ N) (s : List Char) (k : Int) (hk : bigIntFromStrRadix s 10 = some k) :
    ∃ m, fpFromStr (mkCfg fl N p) s = some m ∧ Elem (mkCfg fl N p) p m ∧
      (value m : Int) = (k % (p : Int) * ((B ^ N : Nat) : Int)) % (p : Int) := by
  have hc := Ark.C01.mk_cfg_ok fl N p hN hodd h1 hlt
  have hn : (mkCfg fl N p).n = N := rfl
  have hp' : (0 : Int) < p := by exact_mod_cast (by omega : 0 < p)
  have hnn : 0 ≤ k % (p : Int) := Int.emod_nonneg _ (by omega)
  have hup : k % (p : Int) < p := Int.emod_lt_of_pos _ hp'
  have hv : (k % (p : Int)).toNat < p := by omega
  have hx : Limbs (mkCfg fl N p) (toLimbs N (k % (p : Int)).toNat) :=
    ⟨by rw [hn]; exact toLimbs_length _ _, toLimbs_wf _ _⟩
  have hxv : value (toLimbs N (k % (p : Int)).toNat) = (k % (p : Int)).toNat := by
    rw [toLimbs_value, Nat.mod_eq_of_lt (by omega)]
  obtain ⟨r, e1, e2, e3⟩ := Ark.C01.from_bigint_some hc hx (by rw [hxv]; exact hv)
  refine ⟨r, ?_, e2, ?_⟩
  · unfold fpFromStr
    rw [hk]
    simp only [hc.p_val, hn]
    rw [tmod_fix k p (by omega), if_neg (by omega),
      bigIntTryFromBigUint_some N _ hN (by omega)]
    exact e1
  · rw [e3, hxv, hn, int_mont_pos, Int.toNat_of_nonneg hnn, Int.emod_emod_of_dvd _ (Int.dvd_refl _)]

theorem fpFromStr_none (c : MontCfg) (s : List Char) (hk : bigIntFromStrRadix s 10 = none) :
    fpFromStr c s = none := by
  unfold fpFromStr; rw [hk]

/-- compile-time literal = run-time element -/
theorem montFp_fpFromStr (fl : Bool) (N p : Nat) (hN : 0 < N) (hodd : p % 2 = 1) (h1 : 1 < p)
    (hlt : p < B ^ N) (s : List Char) (k : Int) (hk : bigIntFromStrRadix s 10 = some k)
    (m : List Nat) (hm : montFp (mkCfg fl N p) s = .ok m) :
    fpFromStr (mkCfg fl N p) s = some m := by
  have hl := bigInt_litInt s k hk
  have hn : (mkCfg fl N p).n = N := rfl
  by_cases hkl : k.natAbs < B ^ N
  · obtain ⟨m1, a1, a2, a3⟩ := montFp_spec fl N p hN hodd h1 hlt s k hl hkl
    obtain ⟨m2, b1, b2, b3⟩ := fpFromStr_spec fl N p hN hodd h1 hlt s k hk
    have hmm : m1 = m := by rw [a1] at hm; injection hm
    subst hmm
    rw [b1]
    congr 1
    apply value_inj _ _ b2.wf a2.wf (by rw [b2.len, a2.len])
    have : (value m2 : Int) = value m1 := by rw [a3, b3]
    exact_mod_cast this
  · rw [montFp_panic_big _ (by rw [hn]; exact hN) s k hl (by rw [hn]; omega)] at hm
    cases hm

/-! ## 8. `#[derive(MontConfig)]` -/

theorem limbLoop_spec (m : Nat) (fuel i : Nat) (hm : m ≤ B ^ (i + fuel)) :
    i ≤ limbLoop m fuel (B ^ i) i ∧ m ≤ B ^ (limbLoop m fuel (B ^ i) i) ∧
    (limbLoop m fuel (B ^ i) i = i ∨ B ^ (limbLoop m fuel (B ^ i) i - 1) < m) := by
  induction fuel generalizing i with
  | zero => simp only [limbLoop]; exact ⟨Nat.le_refl _, by simpa using hm, Or.inl trivial⟩
  | succ f ih =>
    simp only [limbLoop]
    by_cases h : B ^ i < m
    · rw [if_pos h, ← pow_succ]
      obtain ⟨a1, a2, a3⟩ := ih (i + 1) (by rw [show i + 1 + f = i + (f + 1) by omega]; exact hm)
      refine ⟨by omega, a2, Or.inr ?_⟩
      rcases a3 with a3 | a3
      · rw [a3]; simpa using h
      · exact a3
    · rw [if_neg h]
      exact ⟨Nat.le_refl _, by omega, Or.inl rfl⟩

theorem B_gt_one : 1 < B := by unfold B; norm_num

theorem macroLimbCount_spec (p : Nat) :
    1 ≤ macroLimbCount p ∧ p ≤ B ^ macroLimbCount p ∧
    (macroLimbCount p = 1 ∨ B ^ (macroLimbCount p - 1) < p) := by
  have h : p ≤ B ^ (1 + p) := by
    have h1 : p < B ^ p := Nat.lt_pow_self B_gt_one
    have h2 : B ^ p ≤ B ^ (1 + p) := Nat.pow_le_pow_right B_pos (by omega)
    omega
  have := limbLoop_spec p p 1 h
  rw [pow_one] at this
  exact this

/-- the derive macro's limb count is `⌈bits/64⌉` unless the modulus is a power of `2^64` -/
theorem macroLimbCount_eq (p : Nat) (hp : 1 ≤ p) (hne : ∀ k, 1 ≤ k → p ≠ B ^ k) :
    macroLimbCount p = (bitLength p + 63) / 64 := by
  obtain ⟨h1, h2, h3⟩ := macroLimbCount_spec p
  have hlt : p < B ^ macroLimbCount p := by
    have := hne _ h1; omega
  have hge : B ^ (macroLimbCount p - 1) ≤ p := by
    rcases h3 with h3 | h3
    · rw [h3]; simpa using hp
    · omega
  exact (ceil_bitLength p _ (by omega) hge hlt).symm

/-- … and one limb too few when it is -/
theorem macroLimbCount_pow (k : Nat) (hk : 1 ≤ k) : macroLimbCount (B ^ k) = k := by
  obtain ⟨h1, h2, h3⟩ := macroLimbCount_spec (B ^ k)
  have a : k ≤ macroLimbCount (B ^ k) := (Nat.pow_le_pow_iff_right B_gt_one).mp h2
  rcases h3 with h3 | h3
  · omega
  · have := (Nat.pow_lt_pow_iff_right B_gt_one).mp h3
    omega

theorem bitLength_pow (k : Nat) : (bitLength (B ^ k) + 63) / 64 = k + 1 := by
  apply ceil_bitLength
  · exact Nat.ne_of_gt (Nat.pow_pos B_pos)
  · simp
  · exact Nat.pow_lt_pow_right B_gt_one (by omega)

/-- the modulus limbs the macro emits -/
theorem hexLimbs_eq (p : Nat) (hp : p ≠ 0) : hexLimbs p = toLimbs ((bitLength p + 63) / 64) p := by
  have h := hexLimbs_eq_toLimbs p
  rw [hexLimbs_length, if_neg hp] at h
  exact h

/-! ### trace -/

theorem traceLoop_spec (fuel t : Nat) (ht : t ≠ 0) (hf : t < 2 ^ fuel) :
    ∃ r s, traceLoop fuel t = some r ∧ r % 2 = 1 ∧ t = 2 ^ s * r := by
  induction fuel generalizing t with
  | zero => simp at hf; omega
  | succ f ih =>
    simp only [traceLoop]
    by_cases h : t % 2 = 1
    · exact ⟨t, 0, by simp [h], h, by simp⟩
    · have h2 : t / 2 ≠ 0 := by omega
      have h3 : t / 2 < 2 ^ f := by rw [pow_succ] at hf; omega
      obtain ⟨r, s, e1, e2, e3⟩ := ih (t / 2) h2 h3
      refine ⟨r, s + 1, by simp [h, e1], e2, ?_⟩
      rw [pow_succ, Nat.mul_assoc, Nat.mul_comm 2 r, ← Nat.mul_assoc, ← e3]
      omega

theorem macroTrace_spec (p : Nat) (hp : 2 ≤ p) :
    ∃ t s, macroTrace p = .ok t ∧ t % 2 = 1 ∧ p - 1 = 2 ^ s * t := by
  have hf : p - 1 < 2 ^ (p + 1) := by
    have : p + 1 < 2 ^ (p + 1) := Nat.lt_pow_self (by omega)
    omega
  obtain ⟨r, s, e1, e2, e3⟩ := traceLoop_spec (p + 1) (p - 1) (by omega) hf
  refine ⟨r, s, ?_, e2, e3⟩
  unfold macroTrace
  rw [if_neg (by omega), e1]

/-- odd part / 2-adic valuation are unique -/
theorem two_pow_odd_unique (s s' r r' : Nat) (hr : r % 2 = 1) (hr' : r' % 2 = 1)
    (h : 2 ^ s * r = 2 ^ s' * r') : s = s' ∧ r = r' := by
  induction s generalizing s' with
  | zero =>
    cases s' with
    | zero => simpa using h
    | succ n =>
      exfalso
      rw [pow_succ] at h
      simp only [pow_zero, Nat.one_mul] at h
      have : r % 2 = 0 := by rw [h, Nat.mul_assoc, Nat.mul_comm (2 ^ n), Nat.mul_assoc]; simp
      omega
  | succ n ih =>
    cases s' with
    | zero =>
      exfalso
      rw [pow_succ] at h
      simp only [pow_zero, Nat.one_mul] at h
      have : r' % 2 = 0 := by rw [← h, Nat.mul_assoc, Nat.mul_comm (2 ^ n), Nat.mul_assoc]; simp
      omega
    | succ n' =>
      rw [pow_succ, pow_succ, Nat.mul_comm (2 ^ n), Nat.mul_comm (2 ^ n'), Nat.mul_assoc,
        Nat.mul_assoc] at h
      have := ih n' (Nat.eq_of_mul_eq_mul_left (by omega) h)
      exact ⟨by omega, this.2⟩

theorem twoVal_spec (fuel m : Nat) (hm : m ≠ 0) (hf : m < 2 ^ fuel) :
    ∃ r, r % 2 = 1 ∧ m = 2 ^ (twoVal fuel m) * r := by
  induction fuel generalizing m with
  | zero => simp at hf; omega
  | succ f ih =>
    simp only [twoVal]
    by_cases h : m % 2 = 1
    · have : (m % 2 == 0 && m != 0) = false := by simp; omega
      rw [this]; exact ⟨m, h, by simp⟩
    · have : (m % 2 == 0 && m != 0) = true := by simp; omega
      rw [this]
      simp only [if_true]
      have h2 : m / 2 ≠ 0 := by omega
      have h3 : m / 2 < 2 ^ f := by rw [pow_succ] at hf; omega
      obtain ⟨r, e2, e3⟩ := ih (m / 2) h2 h3
      refine ⟨r, e2, ?_⟩
      rw [Nat.add_comm, pow_succ, Nat.mul_assoc, Nat.mul_comm 2 r, ← Nat.mul_assoc, ← e3]
      omega

theorem twoVal_unique (p s r : Nat) (hp : 2 ≤ p) (hr : r % 2 = 1) (h : p - 1 = 2 ^ s * r) :
    s = twoVal p (p - 1) ∧ r = (p - 1) / 2 ^ twoVal p (p - 1) := by
  have hf : p - 1 < 2 ^ p := by
    have : p < 2 ^ p := Nat.lt_pow_self (by omega)
    omega
  obtain ⟨r', e1, e2⟩ := twoVal_spec p (p - 1) (by omega) hf
  have := two_pow_odd_unique s _ r r' hr e1 (by rw [← h, ← e2])
  refine ⟨this.1, ?_⟩
  rw [this.2]
  exact (Nat.div_eq_of_eq_mul_right (Nat.pow_pos (by omega)) e2).symm

/-! ### modpow -/

/-- value of a most-significant-first bit string -/
def valBE : List Bool → Nat
  | [] => 0
  | b :: bs => (if b then 2 ^ bs.length else 0) + valBE bs

theorem modPowBits_spec (m b : Nat) (bits : List Bool) (a : Nat) :
    modPowBits m b bits (a % m) = (a ^ (2 ^ bits.length) * b ^ valBE bits) % m := by
  induction bits generalizing a with
  | nil => simp [modPowBits, valBE]
  | cons bit bits ih =>
    simp only [modPowBits]
    have hsq : (a % m * (a % m)) % m = (a * a) % m := (Nat.mul_mod a a m).symm
    cases bit with
    | true =>
      simp only [if_true]
      rw [hsq, Nat.mod_mul_mod, ih]
      simp only [valBE, if_true, List.length_cons]
      congr 1
      rw [pow_succ 2, pow_add, mul_pow, mul_pow]
      ring
    | false =>
      simp only [Bool.false_eq_true, if_false]
      rw [hsq, ih]
      simp only [valBE, Bool.false_eq_true, if_false, List.length_cons, Nat.zero_add]
      congr 2
      rw [pow_succ 2, pow_mul, Nat.pow_two, mul_pow]

theorem valBE_snoc (l : List Bool) (b : Bool) :
    valBE (l ++ [b]) = 2 * valBE l + (if b then 1 else 0) := by
  induction l with
  | nil => cases b <;> simp [valBE]
  | cons x xs ih =>
    simp only [List.cons_append, valBE, ih, List.length_append, List.length_cons, List.length_nil]
    cases x
    · simp
    · simp [pow_succ]; ring

theorem valBE_reverse (l : List Bool) : valBE l.reverse = bitsToNat l := by
  induction l with
  | nil => rfl
  | cons x xs ih =>
    rw [List.reverse_cons, valBE_snoc, ih, bitsToNat]; omega

theorem natBitsLE_spec (fuel n : Nat) (h : n ≤ fuel) : bitsToNat (natBitsLE fuel n) = n := by
  induction fuel generalizing n with
  | zero => have : n = 0 := by omega
            subst this; rfl
  | succ f ih =>
    simp only [natBitsLE]
    by_cases hn : n = 0
    · subst hn; rfl
    · rw [if_neg hn]
      simp only [bitsToNat]
      rw [ih (n / 2) (by omega)]
      by_cases h2 : n % 2 = 1
      · simp [h2]; omega
      · simp [h2]; omega

/-- `BigUint::modpow` as modelled is modular exponentiation -/
theorem modPow_spec (b e m : Nat) : modPow b e m = b ^ e % m := by
  unfold modPow
  rw [modPowBits_spec, valBE_reverse, natBitsLE_spec e e (Nat.le_refl _)]
  simp only [Nat.one_pow, Nat.one_mul]
  exact (Nat.pow_mod b e m).symm

/-! ### `two_adic_valuation` -/

theorem head_parity (e : List Nat) (he : WF e) : e.headD 0 % 2 = value e % 2 := by
  rw [headD_eq e he]
  exact Nat.mod_mod_of_dvd _ (by unfold B; norm_num)

theorem twoAdicLoop_spec (fuel : Nat) (e : List Nat) (acc : Nat) (he : WF e) (h0 : value e ≠ 0)
    (hf : value e < 2 ^ fuel) :
    ∃ s r, twoAdicLoop fuel e acc = some (acc + s) ∧ r % 2 = 1 ∧ value e = 2 ^ s * r := by
  induction fuel generalizing e acc with
  | zero => simp at hf; omega
  | succ f ih =>
    simp only [twoAdicLoop]
    rw [head_parity e he]
    by_cases h : value e % 2 = 1
    · exact ⟨0, value e, by simp [h], h, by simp⟩
    · have hv := div2_value e
      have h2 : value (div2 e) ≠ 0 := by rw [hv]; omega
      have h3 : value (div2 e) < 2 ^ f := by rw [hv]; rw [pow_succ] at hf; omega
      obtain ⟨s, r, e1, e2, e3⟩ := ih (div2 e) (acc + 1) (div2_wf e he) h2 h3
      refine ⟨s + 1, r, ?_, e2, ?_⟩
      · have : (value e % 2 == 0) = true := by simp; omega
        rw [this]; simp only [if_true]
        rw [e1]; congr 1; omega
      · rw [hv] at e3
        rw [pow_succ, Nat.mul_assoc, Nat.mul_comm 2 r, ← Nat.mul_assoc, ← e3]
        omega

theorem twoAdicLoop_zero (fuel : Nat) (e : List Nat) (acc : Nat) (he : WF e) (h0 : value e = 0) :
    twoAdicLoop fuel e acc = none := by
  induction fuel generalizing e acc with
  | zero => rfl
  | succ f ih =>
    simp only [twoAdicLoop]
    rw [head_parity e he, h0]
    simp only [Nat.zero_mod, beq_self_eq_true, if_true]
    exact ih _ _ (div2_wf e he) (by rw [div2_value, h0])

theorem twoAdicValuation_spec (N p : Nat) (hN : 0 < N) (hodd : p % 2 = 1) (h3 : 3 ≤ p)
    (hlt : p < B ^ N) :
    ∃ s r, twoAdicValuation (toLimbs N p) = .ok s ∧ r % 2 = 1 ∧ p - 1 = 2 ^ s * r := by
  obtain ⟨n, rfl⟩ : ∃ n, N = n + 1 := ⟨N - 1, by omega⟩
  have hB2 : B % 2 = 0 := by unfold B; norm_num
  have ha0 : (p % B) % 2 = 1 := by rw [Nat.mod_mod_of_dvd _ (by unfold B; norm_num)]; exact hodd
  have hwf := toLimbs_wf (n + 1) p
  have hval := toLimbs_value (n + 1) p
  rw [Nat.mod_eq_of_lt hlt] at hval
  simp only [toLimbs] at hwf hval ⊢
  have ⟨w1, w2⟩ := WF_cons.mp hwf
  have hwf' : WF ((p % B - 1) :: toLimbs n (p / B)) := WF_cons.mpr ⟨by omega, w2⟩
  have hval' : value ((p % B - 1) :: toLimbs n (p / B)) = p - 1 := by
    simp only [value] at hval ⊢; omega
  have hfuel : value ((p % B - 1) :: toLimbs n (p / B)) < 2 ^ (64 * (p % B :: toLimbs n (p / B)).length + 1) := by
    rw [hval']
    simp only [List.length_cons, toLimbs_length]
    rw [pow_succ, ← B_pow_eq]; omega
  obtain ⟨s, r, e1, e2, e3⟩ := twoAdicLoop_spec _ _ 0 hwf' (by rw [hval']; omega) hfuel
  refine ⟨s, r, ?_, e2, by rw [← hval']; exact e3⟩
  unfold twoAdicValuation
  simp only
  rw [if_neg (by simp [ha0]), e1]
  simp

theorem twoAdicValuation_even (N p : Nat) (hN : 0 < N) (heven : p % 2 = 0) :
    twoAdicValuation (toLimbs N p) = .panic := by
  obtain ⟨n, rfl⟩ : ∃ n, N = n + 1 := ⟨N - 1, by omega⟩
  have ha0 : (p % B) % 2 = 0 := by rw [Nat.mod_mod_of_dvd _ (by unfold B; norm_num)]; exact heven
  simp only [toLimbs, twoAdicValuation]
  rw [if_pos (by simp [ha0])]

theorem twoAdicValuation_one (N : Nat) (hN : 0 < N) :
    twoAdicValuation (toLimbs N 1) = .diverge := by
  obtain ⟨n, rfl⟩ : ∃ n, N = n + 1 := ⟨N - 1, by omega⟩
  have hB : 1 % B = 1 := Nat.mod_eq_of_lt B_gt_one
  have hd : 1 / B = 0 := Nat.div_eq_of_lt B_gt_one
  simp only [toLimbs, twoAdicValuation, hB, hd]
  have hz : value (toLimbs n 0) = 0 := by rw [toLimbs_value]; simp
  rw [if_neg (by simp), twoAdicLoop_zero _ _ _ (WF_cons.mpr ⟨B_pos, toLimbs_wf _ _⟩)
    (by simp [value, hz])]

/-! ## 9. the whole derive pipeline -/

/-- an odd number `≥ 3` is not a power of `2^64` -/
theorem odd_ne_pow (p : Nat) (hodd : p % 2 = 1) : ∀ k, 1 ≤ k → p ≠ B ^ k := by
  intro k hk e
  have : B ^ k % 2 = 0 := by
    obtain ⟨j, rfl⟩ : ∃ j, k = j + 1 := ⟨k - 1, by omega⟩
    rw [pow_succ]; unfold B; simp [Nat.mul_mod]
  omega

theorem montConfigHelper_spec (p g : Nat) (hodd : p % 2 = 1) (h3 : 3 ≤ p) :
    ∃ d t s, montConfigHelper p g none none = .ok d ∧
      t % 2 = 1 ∧ p - 1 = 2 ^ s * t ∧
      d.limbs = (bitLength p + 63) / 64 ∧ d.modulusLimbs = toLimbs ((bitLength p + 63) / 64) p ∧
      d.generator = decimal g ∧ d.root = decimal (g ^ t % p) ∧ d.large = none := by
  obtain ⟨t, s, e1, e2, e3⟩ := macroTrace_spec p (by omega)
  have hN := macroLimbCount_eq p (by omega) (odd_ne_pow p hodd)
  have hL := hexLimbs_eq p (by omega)
  have hlen : (toLimbs ((bitLength p + 63) / 64) p).length = (bitLength p + 63) / 64 :=
    toLimbs_length _ _
  have hne : toLimbs ((bitLength p + 63) / 64) p ≠ [] := by
    rw [← hL]; exact hexLimbs_ne_nil p
  obtain ⟨top, htop⟩ : ∃ top, (toLimbs ((bitLength p + 63) / 64) p).getLast? = some top := by
    cases h : (toLimbs ((bitLength p + 63) / 64) p).getLast? with
    | none => exact absurd (List.getLast?_eq_none_iff.mp h) hne
    | some top => exact ⟨top, rfl⟩
  have hd : montConfigHelper p g none none = .ok
      { limbs := (bitLength p + 63) / 64, modulusLimbs := toLimbs ((bitLength p + 63) / 64) p,
        spare := top / 2 ^ 63 == 0,
        noCarry := if ((bitLength p + 63) / 64 == 1) = true then decide (top < 2 ^ 63 - 1)
          else decide (top < 2 ^ 63 - 1) &&
            ((toLimbs ((bitLength p + 63) / 64) p).take ((bitLength p + 63) / 64 - 1)).any (· != B - 1),
        generator := decimal g, root := decimal (g ^ t % p), large := none,
        smallBase := none, smallPower := none } := by
    unfold montConfigHelper
    simp only [e1, strToLimbsU64_decimal, hL, htop, hN, hlen, modPow_spec, Option.map_none]
    rw [if_neg (by omega)]
  exact ⟨_, t, s, hd, e2, e3, rfl, rfl, rfl, rfl, rfl⟩

/-- `MontFp!` on the decimal text of a natural number -/
theorem montFp_decimal (fl : Bool) (N p : Nat) (hN : 0 < N) (hodd : p % 2 = 1) (h1 : 1 < p)
    (hlt : p < B ^ N) (n : Nat) (hn : n < B ^ N) :
    ∃ m, montFp (mkCfg fl N p) (decimal n) = .ok m ∧ Elem (mkCfg fl N p) p m ∧
      value m = (n * B ^ N) % p := by
  obtain ⟨m, a1, a2, a3⟩ := montFp_spec fl N p hN hodd h1 hlt (decimal n) n (litInt_decimal n)
    (by simpa using hn)
  refine ⟨m, a1, a2, ?_⟩
  rw [← int_mont_pos] at a3
  exact_mod_cast a3

theorem derivedConsts_spec (d : Derived) (N p g rt : Nat) (hN : 0 < N) (hodd : p % 2 = 1)
    (h3 : 3 ≤ p) (hlt : p < B ^ N) (hg : g < B ^ N) (hrt : rt < B ^ N)
    (d1 : d.limbs = N) (d2 : d.modulusLimbs = toLimbs N p) (d3 : d.generator = decimal g)
    (d4 : d.root = decimal rt) (d5 : d.large = none) :
    ∃ k, derivedConsts d = .ok k ∧ k.n = N ∧ k.cfg = mkCfg true N p ∧ k.modulus = toLimbs N p ∧
      (∃ r, r % 2 = 1 ∧ p - 1 = 2 ^ k.twoAdicity * r) ∧
      Elem (mkCfg true N p) p k.generator ∧ value k.generator = (g * B ^ N) % p ∧
      Elem (mkCfg true N p) p k.root ∧ value k.root = (rt * B ^ N) % p ∧ k.large = none := by
  obtain ⟨s, r, t1, t2, t3⟩ := twoAdicValuation_spec N p hN hodd h3 hlt
  obtain ⟨mg, g1, g2, g3⟩ := montFp_decimal true N p hN hodd (by omega) hlt g hg
  obtain ⟨mr, r1, r2, r3⟩ := montFp_decimal true N p hN hodd (by omega) hlt rt hrt
  have hv : value (toLimbs N p) = p := by rw [toLimbs_value, Nat.mod_eq_of_lt hlt]
  have hd : derivedConsts d = .ok
      { n := N, cfg := mkCfg true N p, modulus := toLimbs N p, twoAdicity := s, generator := mg,
        root := mr, large := none } := by
    unfold derivedConsts
    rw [if_neg (by rw [d1, d2, toLimbs_length]; simp)]
    simp only [d1, d2, d3, d4, d5, hv, t1, g1, r1]
  exact ⟨_, hd, rfl, rfl, rfl, ⟨r, t2, t3⟩, g2, g3, r2, r3, rfl⟩

/-! ## 10. assembled statements -/

theorem strToLimbsU64_ok_iff (s : List Char) (pos : Bool) (ls : List Nat) :
    strToLimbsU64 s = .ok (pos, ls) ↔
      ∃ k, litInt s = some k ∧ pos = decide (0 ≤ k) ∧ ls = hexLimbs k.natAbs := by
  rw [strToLimbsU64_eq]
  cases litInt s with
  | none => simp
  | some k =>
    simp only [Outcome.ok.injEq, Prod.mk.injEq, Option.some.injEq, exists_eq_left']
    constructor
    · rintro ⟨rfl, rfl⟩; exact ⟨rfl, rfl⟩
    · rintro ⟨rfl, rfl⟩; exact ⟨rfl, rfl⟩

theorem strToLimbsU64_panic_iff (s : List Char) : strToLimbsU64 s = .panic ↔ litInt s = none := by
  rw [strToLimbsU64_eq]
  cases litInt s <;> simp

/-- an accepted string is parsed to the number it denotes -/
theorem accepted_litInt (s : List Char) (r : Reading) (h : denote true s = some r)
    (hacc : strToLimbsU64 s ≠ .panic) : litInt s = some r.value := by
  cases hl : litInt s with
  | none => exact absurd ((strToLimbsU64_panic_iff s).mpr hl) hacc
  | some k =>
    obtain ⟨r', e1, e2⟩ := litInt_denote s k hl
    rw [h] at e1
    cases e1
    rw [e2]

theorem pos_bits (p : Nat) (hp : p ≠ 0) :
    0 < (bitLength p + 63) / 64 ∧ p < B ^ ((bitLength p + 63) / 64) := by
  rw [bitLength_eq_bitLen]
  have h1 : ¬ bitLen p ≤ 0 := by rw [bitLen_le_iff]; simpa using hp
  refine ⟨by omega, ?_⟩
  rw [B_pow_eq, ← bitLen_le_iff]
  omega

theorem montConfigDerive_decimal (p g : Nat) :
    montConfigDerive (some (decimal p)) (some (decimal g)) none none = montConfigHelper p g none none := by
  unfold montConfigDerive
  simp only [bigUint_decimal]

/-- the derive macro end to end, for an odd modulus `p ≥ 3` and a generator below `2^(64N)` -/
theorem derive_pipeline (p g : Nat) (hodd : p % 2 = 1) (h3 : 3 ≤ p)
    (hg : g < B ^ ((bitLength p + 63) / 64)) :
    ∃ d k, montConfigDerive (some (decimal p)) (some (decimal g)) none none = .ok d ∧
      derivedConsts d = .ok k ∧
      k.n = (bitLength p + 63) / 64 ∧ k.cfg = mkCfg true ((bitLength p + 63) / 64) p ∧
      k.modulus = toLimbs ((bitLength p + 63) / 64) p ∧
      k.twoAdicity = twoVal p (p - 1) ∧
      Elem k.cfg p k.generator ∧ value k.generator = (g * B ^ k.n) % p ∧
      Elem k.cfg p k.root ∧
      value k.root = (g ^ ((p - 1) / 2 ^ twoVal p (p - 1)) % p * B ^ k.n) % p ∧ k.large = none := by
  obtain ⟨hN, hlt⟩ := pos_bits p (by omega)
  obtain ⟨d, t, s, a1, a2, a3, a4, a5, a6, a7, a8⟩ := montConfigHelper_spec p g hodd h3
  have hrt : g ^ t % p < B ^ ((bitLength p + 63) / 64) :=
    Nat.lt_trans (Nat.mod_lt _ (by omega)) hlt
  obtain ⟨k, b1, b2, b3, b4, ⟨r, b5, b6⟩, b7, b8, b9, b10, b11⟩ :=
    derivedConsts_spec d _ p g _ hN hodd h3 hlt hg hrt a4 a5 a6 a7 a8
  have ht := (twoVal_unique p s t (by omega) a2 a3).2
  have hs := (twoVal_unique p _ r (by omega) b5 b6).1
  refine ⟨d, k, by rw [montConfigDerive_decimal]; exact a1, b1, b2, b3, b4, hs, ?_, ?_, ?_, ?_, b11⟩
  · rw [b3]; exact b7
  · rw [b2]; exact b8
  · rw [b3]; exact b9
  · rw [b2, ← ht]; exact b10

theorem exact_pow_of_odd (m s r : Nat) (hr : r % 2 = 1) (h : m = 2 ^ s * r) :
    2 ^ s ∣ m ∧ ¬ 2 ^ (s + 1) ∣ m := by
  refine ⟨⟨r, h⟩, ?_⟩
  rintro ⟨c, hc⟩
  rw [h, pow_succ, Nat.mul_assoc] at hc
  have := Nat.eq_of_mul_eq_mul_left (Nat.pow_pos (by omega)) hc
  omega

end Ark.Lit
