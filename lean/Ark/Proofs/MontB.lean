import Ark.Proofs.MontDefs
import Mathlib.Tactic.Ring
import Mathlib.Tactic.Linarith
import Mathlib.Tactic.LinearCombination
import Mathlib.Data.Nat.ModEq
/-
  Helper lemmas for C01 part B: Montgomery multiplication (`redcRows`, `mulCIOS`,
  `mulNoCarry`, `mul`, `constMul`) is correct for every limb count and every odd modulus.
-/
namespace Ark.Mont
open Ark

/-! ### Nat-level facts -/

/-- `INV` works against the full modulus, not only against its low limb -/
theorem inv_full {inv pv : Nat} (h : (inv * (pv % B) + 1) % B = 0) : (inv * pv + 1) % B = 0 := by
  have e : inv * (pv % B) + 1 ≡ inv * pv + 1 [MOD B] :=
    ((Nat.mod_modEq pv B).mul_left inv).add_right 1
  exact Eq.trans e.symm h

/-- the Montgomery quotient digit `k = x·INV mod 2^64` clears the low limb -/
theorem redc_dvd {inv p x : Nat} (h : (inv * p + 1) % B = 0) :
    (x + (x * inv % B) * p) % B = 0 := by
  have h0 : inv * p + 1 ≡ 0 [MOD B] := by simpa [Nat.ModEq] using h
  have e1 : x + (x * inv % B) * p ≡ x + (x * inv) * p [MOD B] :=
    ((Nat.mod_modEq (x * inv) B).mul_right p).add_left x
  have e2 : x + x * inv * p = x * (inv * p + 1) := by ring
  have e3 : x * (inv * p + 1) ≡ x * 0 [MOD B] := Nat.ModEq.mul_left x h0
  rw [e2] at e1
  have := e1.trans e3
  simpa [Nat.ModEq] using this

/-- bound preserved by one interleaved Montgomery step -/
theorem step_bound {x t a bi k pv : Nat} (hx : x * B = t + a * bi + k * pv)
    (ht : t < 2 * pv) (ha : a < pv) (hbi : bi < B) (hk : k < B) : x < 2 * pv := by
  have hB := B_pos
  generalize B = Bv at *
  obtain ⟨B', rfl⟩ : ∃ B', Bv = B' + 1 := ⟨Bv - 1, by omega⟩
  obtain ⟨pv', rfl⟩ : ∃ pv', pv = pv' + 1 := ⟨pv - 1, by omega⟩
  have h1 : a * bi ≤ pv' * B' := Nat.mul_le_mul (by omega) (by omega)
  have h2 : k * (pv' + 1) ≤ B' * (pv' + 1) := Nat.mul_le_mul_right _ (by omega)
  by_contra hn
  have h3 : 2 * (pv' + 1) * (B' + 1) ≤ x * (B' + 1) := Nat.mul_le_mul_right _ (by omega)
  nlinarith

/-- the Nat-level Montgomery step: with `k = ((t + a·bᵢ) mod 2^64)·INV mod 2^64` the sum
    `t + a·bᵢ + k·p` is divisible by `2^64` and the quotient stays below `2p` -/
theorem mont_step_nat {inv pv t a bi : Nat} (hinv : (inv * pv + 1) % B = 0)
    (ht : t < 2 * pv) (ha : a < pv) (hbi : bi < B) :
    B ∣ t + a * bi + ((t + a * bi) % B * inv % B) * pv ∧
    (t + a * bi + ((t + a * bi) % B * inv % B) * pv) / B < 2 * pv := by
  have hd : B ∣ t + a * bi + ((t + a * bi) % B * inv % B) * pv := by
    apply Nat.dvd_of_mod_eq_zero
    have h1 := redc_dvd (x := (t + a * bi) % B) hinv
    have e : t + a * bi + ((t + a * bi) % B * inv % B) * pv ≡
        (t + a * bi) % B + ((t + a * bi) % B * inv % B) * pv [MOD B] :=
      (Nat.mod_modEq (t + a * bi) B).symm.add_right _
    exact Eq.trans e h1
  refine ⟨hd, ?_⟩
  obtain ⟨x, hx⟩ := hd
  rw [hx, Nat.mul_div_cancel_left _ B_pos]
  exact step_bound (by rw [Nat.mul_comm]; exact hx.symm) ht ha hbi (Nat.mod_lt _ B_pos)

theorem redc_carry_lt {r0 k p0 : Nat} (h1 : r0 < B) (h2 : k < B) (h3 : p0 < B) :
    (r0 + k * p0) / B < B := by
  apply Nat.div_lt_of_lt_mul
  have hB := B_pos
  generalize B = Bv at *
  obtain ⟨B', rfl⟩ : ∃ B', Bv = B' + 1 := ⟨Bv - 1, by omega⟩
  have : k * p0 ≤ B' * B' := Nat.mul_le_mul (by omega) (by omega)
  nlinarith

/-- `pv` odd ⇒ coprime to every power of `2^64` -/
theorem coprime_R {pv : Nat} (h : pv % 2 = 1) (n : Nat) : Nat.Coprime (B ^ n) pv := by
  apply Nat.Coprime.pow_left
  unfold B
  apply Nat.Coprime.pow_left
  rw [Nat.Coprime, Nat.gcd_rec, h]; rfl

/-! ### configuration facts -/

theorem cfg_p_cons {c : MontCfg} {pv : Nat} (h : CfgOK c pv) :
    ∃ p0 ps, c.p = p0 :: ps ∧ (c.inv * p0 + 1) % B = 0 := by
  have hl := h.p_len
  have hn := h.n_pos
  rcases hp : c.p with _ | ⟨p0, ps⟩
  · rw [hp] at hl; simp at hl; omega
  · refine ⟨p0, ps, rfl, ?_⟩
    have hw := h.p_wf
    rw [hp] at hw
    have ⟨hp0, _⟩ := WF_cons.mp hw
    have hv := h.p_val
    rw [hp, value_cons] at hv
    have : pv % B = p0 := by
      rw [← hv, Nat.add_mul_mod_self_left, Nat.mod_eq_of_lt hp0]
    rw [← this]; exact h.inv_ok

theorem cfg_pv_lt {c : MontCfg} {pv : Nat} (h : CfgOK c pv) : pv < B ^ c.n := by
  have := value_lt c.p h.p_wf
  rwa [h.p_val, h.p_len] at this

/-! ### `redcRows` -/

theorem redcRows_spec (c : MontCfg) (p0 : Nat) (ps : List Nat) (hp : c.p = p0 :: ps)
    (hwf : WF c.p) (hinv : (c.inv * p0 + 1) % B = 0) :
    ∀ (fuel : Nat) (buf : List Nat) (carry2 : Nat),
      buf.length = c.p.length + fuel → WF buf → carry2 ≤ 1 →
      (redcRows c fuel buf carry2).1.length = c.p.length ∧
      WF (redcRows c fuel buf carry2).1 ∧
      (redcRows c fuel buf carry2).2 ≤ 1 ∧
      ∃ m, m < B ^ fuel ∧
        (value (redcRows c fuel buf carry2).1 + B ^ c.p.length * (redcRows c fuel buf carry2).2)
            * B ^ fuel
          = value buf + B ^ c.p.length * carry2 + m * value c.p := by
  intro fuel
  induction fuel with
  | zero =>
    intro buf carry2 hl hw hc
    simp only [redcRows]
    exact ⟨by simpa using hl, hw, hc, 0, by simp, by simp⟩
  | succ f ih =>
    intro buf carry2 hl hw hc
    have ⟨hp0, hps⟩ := WF_cons.mp (hp ▸ hwf)
    have hplen : c.p.length = ps.length + 1 := by rw [hp]; rfl
    cases buf with
    | nil => simp at hl
    | cons r0 rest =>
      have ⟨hr0, hrest⟩ := WF_cons.mp hw
      have hrl : rest.length = ps.length + (f + 1) := by
        simp only [List.length_cons] at hl; omega
      have hdl : (rest.drop ps.length).length = f + 1 := by rw [List.length_drop]; omega
      rcases hd : rest.drop ps.length with _ | ⟨h, t⟩
      · rw [hd] at hdl; simp at hdl
      · rw [hd] at hdl
        have htl : t.length = f := by simpa using hdl
        have hlo_len : (rest.take ps.length).length = ps.length := by
          rw [List.length_take]; omega
        have hlo_wf := WF_take hrest ps.length
        have hht_wf : WF (h :: t) := hd ▸ WF_drop hrest ps.length
        have ⟨hh, ht⟩ := WF_cons.mp hht_wf
        have hvrest : value rest = value (rest.take ps.length) + B ^ ps.length * (h + B * value t) := by
          have := value_take_add_drop rest ps.length
          rw [hlo_len, hd, value_cons] at this
          exact this.symm
        have hun : redcRows c (f + 1) (r0 :: rest) carry2 =
            redcRows c f
              ((macRow (rest.take ps.length) (r0 * c.inv % B) ps
                  ((r0 + r0 * c.inv % B * p0) / B)).1 ++
                ((h + (macRow (rest.take ps.length) (r0 * c.inv % B) ps
                  ((r0 + r0 * c.inv % B * p0) / B)).2 + carry2) % B :: t))
              ((h + (macRow (rest.take ps.length) (r0 * c.inv % B) ps
                  ((r0 + r0 * c.inv % B * p0) / B)).2 + carry2) / B) := by
          simp only [redcRows, hp, hd]
        rw [hun]
        -- the quotient digit
        have hk : r0 * c.inv % B < B := Nat.mod_lt _ B_pos
        have hdvd : (r0 + r0 * c.inv % B * p0) % B = 0 := redc_dvd hinv
        generalize r0 * c.inv % B = k at *
        have hcl := redc_carry_lt hr0 hk hp0
        have hdm := Nat.div_add_mod (r0 + k * p0) B
        rw [hdvd, Nat.add_zero] at hdm
        generalize (r0 + k * p0) / B = carry at *
        -- the row
        have hq := macRow_spec (rest.take ps.length) k ps carry hlo_len
        have hql := macRow_length (rest.take ps.length) k ps carry hlo_len
        have hqw := macRow_wf (rest.take ps.length) k ps carry
        have hqc := macRow_carry_lt (rest.take ps.length) k ps carry hlo_wf hk hps hcl
        rw [hlo_len] at hq hql
        generalize macRow (rest.take ps.length) k ps carry = q at *
        -- the adc into limb N+i
        have hs := Nat.mod_add_div (h + q.2 + carry2) B
        have hsm : (h + q.2 + carry2) % B < B := Nat.mod_lt _ B_pos
        have hsd : (h + q.2 + carry2) / B ≤ 1 := by
          have : h + q.2 + carry2 < 2 * B := by omega
          exact Nat.lt_succ_iff.mp (Nat.div_lt_of_lt_mul (by omega))
        generalize (h + q.2 + carry2) % B = sm at *
        generalize (h + q.2 + carry2) / B = sd at *
        have hbl : (q.1 ++ (sm :: t)).length = c.p.length + f := by
          simp only [List.length_append, List.length_cons, hql, htl, hplen]; omega
        have hbw : WF (q.1 ++ (sm :: t)) := WF_append.mpr ⟨hqw, WF_cons.mpr ⟨hsm, ht⟩⟩
        obtain ⟨i1, i2, i3, m', hm', i4⟩ := ih _ sd hbl hbw hsd
        refine ⟨i1, i2, i3, k + B * m', ?_, ?_⟩
        · rw [pow_succ]
          have : B * (m' + 1) ≤ B * B ^ f := Nat.mul_le_mul_left B hm'
          nlinarith
        · rw [value_append, hql, value_cons] at i4
          rw [value_cons, hvrest, hp, value_cons, pow_succ]
          rw [hp] at i4
          simp only [List.length_cons, pow_succ, value_cons] at i4 ⊢
          generalize value (redcRows c f (q.1 ++ sm :: t) sd).1 = V at *
          generalize (redcRows c f (q.1 ++ sm :: t) sd).2 = c2f at *
          generalize value (List.take ps.length rest) = vlo at *
          generalize value q.1 = vq at *
          generalize q.2 = q2 at *
          generalize value t = vt at *
          generalize value ps = vps at *
          generalize B ^ ps.length = P at *
          generalize B ^ f = Q at *
          linear_combination B * i4 + (B * P) * hs + B * hq + hdm

/-- item 2: Montgomery reduction of a well-formed `2N`-limb buffer -/
theorem redc_spec {c : MontCfg} {pv : Nat} (h : CfgOK c pv) (buf : List Nat)
    (hl : buf.length = 2 * c.n) (hw : WF buf) :
    (redcRows c c.n buf 0).1.length = c.n ∧ WF (redcRows c c.n buf 0).1 ∧
    (redcRows c c.n buf 0).2 ≤ 1 ∧
    ∃ m, m < B ^ c.n ∧
      (value (redcRows c c.n buf 0).1 + B ^ c.n * (redcRows c c.n buf 0).2) * B ^ c.n
        = value buf + m * pv := by
  obtain ⟨p0, ps, hp, hinv⟩ := cfg_p_cons h
  have := redcRows_spec c p0 ps hp h.p_wf hinv c.n buf 0 (by rw [h.p_len]; omega) hw (by omega)
  rw [h.p_len, h.p_val] at this
  simpa using this

/-- if the buffer value is below `R·p`, the reduced value is below `2p` -/
theorem redc_bound {pv R t T m : Nat} (hm : m < R) (hT : T < R * pv)
    (he : t * R = T + m * pv) : t < 2 * pv := by
  have h1 : m * pv ≤ R * pv := Nat.mul_le_mul_right _ (by omega)
  have h2 : t * R < 2 * pv * R := by nlinarith
  exact Nat.lt_of_mul_lt_mul_right h2

/-! ### `mulCIOS` -/

theorem mulCIOS_buf {n : Nat} (a b : List Nat) (ha : a.length = n) (hb : b.length = n)
    (hwa : WF a) (hwb : WF b) :
    value (mulRows a b (zeros (2 * n))) = value a * value b ∧
    WF (mulRows a b (zeros (2 * n))) ∧ (mulRows a b (zeros (2 * n))).length = 2 * n := by
  have e : zeros (2 * n) = List.replicate b.length 0 ++ List.replicate a.length 0 := by
    rw [ha, hb, List.replicate_append_replicate]; unfold zeros; congr 1; omega
  rw [e]
  have ⟨s1, s2, s3⟩ := mulRows_spec a b (List.replicate b.length 0) (by simp) hwa hwb
    (WF_replicate_zero _)
  refine ⟨?_, s2, by rw [s3, ha, hb]; omega⟩
  rw [s1, value_replicate_zero, Nat.zero_add]

/-- item 3: separated CIOS before the final subtraction -/
theorem mulCIOS_spec {c : MontCfg} {pv : Nat} (h : CfgOK c pv) {a b : List Nat}
    (ha : Elem c pv a) (hb : Limbs c b) :
    Limbs c (mulCIOS c a b).1 ∧
    value (mulCIOS c a b).1 + (if (mulCIOS c a b).2 then B ^ c.n else 0) < 2 * pv ∧
    ∃ m, m < B ^ c.n ∧
      (value (mulCIOS c a b).1 + (if (mulCIOS c a b).2 then B ^ c.n else 0)) * B ^ c.n
        = value a * value b + m * pv := by
  have ⟨b1, b2, b3⟩ := mulCIOS_buf a b ha.len hb.len ha.wf hb.wf
  have ⟨r1, r2, r3, m, hm, r4⟩ := redc_spec h _ b3 b2
  rw [b1] at r4
  have e1 : (mulCIOS c a b).1 = (redcRows c c.n (mulRows a b (zeros (2 * c.n))) 0).1 := rfl
  have e2 : (mulCIOS c a b).2 = ((redcRows c c.n (mulRows a b (zeros (2 * c.n))) 0).2 != 0) := rfl
  rw [e1, e2]
  generalize redcRows c c.n (mulRows a b (zeros (2 * c.n))) 0 = r at *
  have hif : (if (r.2 != 0) = true then B ^ c.n else 0) = B ^ c.n * r.2 := by
    rcases Nat.le_one_iff_eq_zero_or_eq_one.mp r3 with h0 | h1
    · simp [h0]
    · simp [h1]
  rw [hif]
  refine ⟨⟨r1, r2⟩, ?_, m, hm, r4⟩
  have hpv := cfg_pv_lt h
  have hbl : value b < B ^ c.n := value_lt' hb.wf hb.len
  refine redc_bound hm ?_ r4
  have := ha.lt
  calc value a * value b ≤ value a * B ^ c.n := Nat.mul_le_mul_left _ (by omega)
    _ < pv * B ^ c.n := Nat.mul_lt_mul_of_pos_right this (by omega)
    _ = B ^ c.n * pv := Nat.mul_comm _ _

/-! ### the final conditional subtraction -/

theorem geq_iff_value_le {a b : List Nat} (h : a.length = b.length) (ha : WF a) (hb : WF b) :
    geq a b = true ↔ value b ≤ value a := by
  unfold geq
  rw [cmp_spec a b h ha hb, bne_iff_ne, Ne, Nat.compare_eq_lt]
  omega

theorem subtractModulus_eq_carry_false (c : MontCfg) (a : List Nat) :
    subtractModulus c a = subtractModulusWithCarry c a false := by
  simp [subtractModulus, subtractModulusWithCarry]

/-- `subtract_modulus_with_carry` on an `N`-limb value plus carry bit below `2p` -/
theorem subMWC_spec {c : MontCfg} {pv : Nat} (h : CfgOK c pv) {hi : List Nat} (hl : Limbs c hi)
    (k : Bool) (ht : value hi + (if k then B ^ c.n else 0) < 2 * pv) :
    Elem c pv (subtractModulusWithCarry c hi k) ∧
    (value (subtractModulusWithCarry c hi k) = value hi + (if k then B ^ c.n else 0) ∨
     value (subtractModulusWithCarry c hi k) + pv = value hi + (if k then B ^ c.n else 0)) := by
  have hlen : hi.length = c.p.length := by rw [hl.len, h.p_len]
  have hg := geq_iff_value_le hlen hl.wf h.p_wf
  rw [h.p_val] at hg
  have hpv := cfg_pv_lt h
  have hhi : value hi < B ^ c.n := value_lt' hl.wf hl.len
  unfold subtractModulusWithCarry
  by_cases hc : (k || geq hi c.p) = true
  · rw [if_pos hc]
    have ⟨s1, _⟩ := subB_value_mod hi c.p hlen hl.wf h.p_wf
    rw [hl.len, h.p_val] at s1
    have sl := subB_length hi c.p 0 hlen
    have sw := subB_wf hi c.p 0
    generalize (subB hi c.p 0).1 = res at *
    cases k with
    | true =>
      simp only [if_true] at ht ⊢
      have : B ^ c.n + value hi - pv < B ^ c.n := by omega
      rw [Nat.mod_eq_of_lt this] at s1
      exact ⟨⟨by rw [sl, hl.len], sw, by omega⟩, Or.inr (by omega)⟩
    | false =>
      simp only [Bool.false_or] at hc
      have hge := hg.mp hc
      simp only [Bool.false_eq_true, if_false, Nat.add_zero] at ht ⊢
      have e : B ^ c.n + value hi - pv = (value hi - pv) + B ^ c.n * 1 := by omega
      rw [e, Nat.add_mul_mod_self_left, Nat.mod_eq_of_lt (by omega)] at s1
      exact ⟨⟨by rw [sl, hl.len], sw, by omega⟩, Or.inr (by omega)⟩
  · rw [if_neg hc]
    have hc' : (k || geq hi c.p) = false := by simpa using hc
    rw [Bool.or_eq_false_iff] at hc'
    obtain ⟨hk, hgf⟩ := hc'
    subst hk
    have hlt : value hi < pv := by
      by_contra hn
      have := hg.mpr (by omega)
      rw [this] at hgf; exact Bool.noConfusion hgf
    refine ⟨⟨hl.len, hl.wf, hlt⟩, Or.inl ?_⟩
    simp

/-- transporting the Montgomery congruence through the final subtraction -/
theorem mod_of_reduce {v t R pv X : Nat} (hv : v = t ∨ v + pv = t) (ht : (t * R) % pv = X) :
    (v * R) % pv = X := by
  rcases hv with rfl | rfl
  · exact ht
  · rw [Nat.add_mul, Nat.add_mod, Nat.mul_mod_right, Nat.add_zero, Nat.mod_mod] at ht
    exact ht

/-- the reduction following `mulCIOS`/`squareCore` in every flavour: `spare ⇒ subtract_modulus`,
    otherwise `subtract_modulus_with_carry` -/
theorem finalSub_spec {c : MontCfg} {pv : Nat} (h : CfgOK c pv) {hi : List Nat} (hl : Limbs c hi)
    (k : Bool) (ht : value hi + (if k then B ^ c.n else 0) < 2 * pv) {X : Nat}
    (hX : ((value hi + (if k then B ^ c.n else 0)) * B ^ c.n) % pv = X) :
    Elem c pv (if c.spare then subtractModulus c hi else subtractModulusWithCarry c hi k) ∧
    (value (if c.spare then subtractModulus c hi else subtractModulusWithCarry c hi k)
      * B ^ c.n) % pv = X := by
  by_cases hs : c.spare = true
  · rw [if_pos hs, subtractModulus_eq_carry_false]
    have h2 := h.spare_iff.mp hs
    have hk : k = false := by
      cases k with
      | false => rfl
      | true => simp only [if_true] at ht; omega
    subst hk
    have ⟨e1, e2⟩ := subMWC_spec h hl false ht
    exact ⟨e1, mod_of_reduce e2 hX⟩
  · rw [if_neg hs]
    have ⟨e1, e2⟩ := subMWC_spec h hl k ht
    exact ⟨e1, mod_of_reduce e2 hX⟩

/-! ### the interleaved (no-carry) CIOS -/

/-- the two carries whose sum is stored (as a `u64`) into the top limb by `nocarryTail` -/
def nocarryTailTop (bi k : Nat) : List Nat → List Nat → List Nat → Nat → Nat → Nat × Nat
  | r :: rs, a :: as, p :: ps, c1, c2 =>
    let t := r + a * bi + c1
    let u := t % B + k * p + c2
    nocarryTailTop bi k rs as ps (t / B) (u / B)
  | _, _, _, c1, c2 => (c1, c2)

/-- the two carries `(carry1, carry2)` of the top-limb store `r[N-1] = carry1 + carry2`
    in outer iteration `bi` of the no-carry CIOS -/
def nocarryRowTop (c : MontCfg) (r a : List Nat) (bi : Nat) : Nat × Nat :=
  match r, a, c.p with
  | r0 :: rs, a0 :: as, p0 :: ps =>
    let t := r0 + a0 * bi
    let k := (t % B * c.inv) % B
    let c2 := (t % B + k * p0) / B
    nocarryTailTop bi k rs as ps (t / B) c2
  | _, _, _ => (0, 0)

theorem nocarryTail_spec (bi k : Nat) :
    ∀ (rs as ps : List Nat) (c1 c2 : Nat), rs.length = as.length → rs.length = ps.length →
      ∃ lo, nocarryTail bi k rs as ps c1 c2 =
          lo ++ [((nocarryTailTop bi k rs as ps c1 c2).1 + (nocarryTailTop bi k rs as ps c1 c2).2) % B]
        ∧ lo.length = rs.length ∧ WF lo ∧
        value lo + B ^ rs.length *
            ((nocarryTailTop bi k rs as ps c1 c2).1 + (nocarryTailTop bi k rs as ps c1 c2).2)
          = value rs + bi * value as + k * value ps + c1 + c2 := by
  intro rs
  induction rs with
  | nil =>
    intro as ps c1 c2 h1 h2
    have : as = [] := List.eq_nil_of_length_eq_zero h1.symm
    subst this
    have : ps = [] := List.eq_nil_of_length_eq_zero h2.symm
    subst this
    exact ⟨[], by simp [nocarryTail, nocarryTailTop], rfl, WF_nil,
      by simp [nocarryTailTop, value]⟩
  | cons r rs ih =>
    intro as ps c1 c2 h1 h2
    cases as with
    | nil => simp at h1
    | cons a as =>
      cases ps with
      | nil => simp at h2
      | cons p ps =>
        obtain ⟨lo, e1, e2, e3, e4⟩ := ih as ps ((r + a * bi + c1) / B)
          (((r + a * bi + c1) % B + k * p + c2) / B) (by simpa using h1) (by simpa using h2)
        refine ⟨((r + a * bi + c1) % B + k * p + c2) % B :: lo, ?_, by simp [e2],
          WF_cons.mpr ⟨Nat.mod_lt _ B_pos, e3⟩, ?_⟩
        · simp only [nocarryTail, nocarryTailTop, e1, List.cons_append]
        · simp only [nocarryTailTop, value_cons, List.length_cons, pow_succ]
          have hd1 := Nat.div_add_mod (r + a * bi + c1) B
          have hd2 := Nat.div_add_mod ((r + a * bi + c1) % B + k * p + c2) B
          generalize (nocarryTailTop bi k rs as ps ((r + a * bi + c1) / B)
            (((r + a * bi + c1) % B + k * p + c2) / B)) = T at *
          generalize (r + a * bi + c1) / B = q1 at *
          generalize (r + a * bi + c1) % B = m1 at *
          generalize (m1 + k * p + c2) / B = q2 at *
          generalize (m1 + k * p + c2) % B = m2 at *
          generalize value lo = vlo at *
          generalize value rs = vrs at *
          generalize value as = vas at *
          generalize value ps = vps at *
          generalize B ^ rs.length = P at *
          linear_combination B * e4 + hd1 + hd2

/-- one outer iteration of the no-carry CIOS, exact form (the top store taken `mod 2^64`) -/
theorem nocarryRow_exact (c : MontCfg) (p0 : Nat) (ps : List Nat) (hp : c.p = p0 :: ps)
    (hinv : (c.inv * p0 + 1) % B = 0) (r a : List Nat) (bi : Nat)
    (hr : r.length = c.p.length) (ha : a.length = c.p.length) :
    ∃ lo k, k < B ∧
      nocarryRow c r a bi = lo ++ [((nocarryRowTop c r a bi).1 + (nocarryRowTop c r a bi).2) % B] ∧
      lo.length + 1 = c.p.length ∧ WF lo ∧
      (value lo + B ^ lo.length * ((nocarryRowTop c r a bi).1 + (nocarryRowTop c r a bi).2)) * B
        = value r + value a * bi + k * value c.p := by
  cases r with
  | nil => rw [hp] at hr; simp at hr
  | cons r0 rs =>
    cases a with
    | nil => rw [hp] at ha; simp at ha
    | cons a0 as =>
      have h1 : rs.length = as.length := by rw [hp] at hr ha; simp at hr ha; omega
      have h2 : rs.length = ps.length := by rw [hp] at hr; simpa using hr
      have hk : (r0 + a0 * bi) % B * c.inv % B < B := Nat.mod_lt _ B_pos
      have hdvd : ((r0 + a0 * bi) % B + (r0 + a0 * bi) % B * c.inv % B * p0) % B = 0 :=
        redc_dvd hinv
      have hun : nocarryRow c (r0 :: rs) (a0 :: as) bi =
          nocarryTail bi ((r0 + a0 * bi) % B * c.inv % B) rs as ps ((r0 + a0 * bi) / B)
            (((r0 + a0 * bi) % B + (r0 + a0 * bi) % B * c.inv % B * p0) / B) := by
        simp only [nocarryRow, hp]
      have hun2 : nocarryRowTop c (r0 :: rs) (a0 :: as) bi =
          nocarryTailTop bi ((r0 + a0 * bi) % B * c.inv % B) rs as ps ((r0 + a0 * bi) / B)
            (((r0 + a0 * bi) % B + (r0 + a0 * bi) % B * c.inv % B * p0) / B) := by
        simp only [nocarryRowTop, hp]
      rw [hun, hun2]
      have hd1 := Nat.div_add_mod (r0 + a0 * bi) B
      have hd2 := Nat.div_add_mod ((r0 + a0 * bi) % B + (r0 + a0 * bi) % B * c.inv % B * p0) B
      rw [hdvd, Nat.add_zero] at hd2
      generalize (r0 + a0 * bi) % B * c.inv % B = k at *
      generalize (r0 + a0 * bi) / B = q1 at *
      generalize (r0 + a0 * bi) % B = m1 at *
      generalize (m1 + k * p0) / B = c2 at *
      obtain ⟨lo, e1, e2, e3, e4⟩ := nocarryTail_spec bi k rs as ps q1 c2 h1 h2
      refine ⟨lo, k, hk, e1, by rw [e2, hp, h2]; rfl, e3, ?_⟩
      rw [e2, e4, hp]
      simp only [value_cons]
      generalize value rs = vrs at *
      generalize value as = vas at *
      generalize value ps = vps at *
      linear_combination hd1 + hd2

/-- item 4, one row: from `2p < R` alone the top store `carry1 + carry2` fits a `u64`, the row is
    exact, and the running value stays below `2p` -/
theorem nocarryRow_spec {c : MontCfg} {pv : Nat} (h : CfgOK c pv) (hs : c.spare = true)
    {r a : List Nat} {bi : Nat} (hr : Limbs c r) (hrv : value r < 2 * pv) (ha : Elem c pv a)
    (hbi : bi < B) :
    (nocarryRowTop c r a bi).1 + (nocarryRowTop c r a bi).2 < B ∧
    Limbs c (nocarryRow c r a bi) ∧ value (nocarryRow c r a bi) < 2 * pv ∧
    ∃ k, k < B ∧ value (nocarryRow c r a bi) * B = value r + value a * bi + k * pv := by
  obtain ⟨p0, ps, hp, hinv⟩ := cfg_p_cons h
  obtain ⟨lo, k, hk, e1, e2, e3, e4⟩ := nocarryRow_exact c p0 ps hp hinv r a bi
    (by rw [hr.len, h.p_len]) (by rw [ha.len, h.p_len])
  rw [h.p_val] at e4
  rw [h.p_len] at e2
  have h2 := h.spare_iff.mp hs
  generalize (nocarryRowTop c r a bi).1 + (nocarryRowTop c r a bi).2 = top at *
  have hb := step_bound e4 hrv ha.lt hbi hk
  -- the exact value is below R = B^(lo.length+1), so the top limb is a u64
  have htop : top < B := by
    by_contra hn
    have h3 : B ^ lo.length * B ≤ B ^ lo.length * top := Nat.mul_le_mul_left _ (by omega)
    rw [← e2, pow_succ] at h2
    omega
  rw [e1, Nat.mod_eq_of_lt htop]
  refine ⟨htop, ⟨by simp [e2], WF_append.mpr ⟨e3, WF_cons.mpr ⟨htop, WF_nil⟩⟩⟩, ?_, k, hk, ?_⟩
  · rw [value_snoc]; exact hb
  · rw [value_snoc]; exact e4

theorem zeros_limbs (c : MontCfg) : Limbs c (zeros c.n) :=
  ⟨by simp [zeros], WF_replicate_zero _⟩

theorem nocarryFold_spec {c : MontCfg} {pv : Nat} (h : CfgOK c pv) (hs : c.spare = true)
    {a : List Nat} (ha : Elem c pv a) :
    ∀ (bs r : List Nat), WF bs → Limbs c r → value r < 2 * pv →
      Limbs c (bs.foldl (fun r bi => nocarryRow c r a bi) r) ∧
      value (bs.foldl (fun r bi => nocarryRow c r a bi) r) < 2 * pv ∧
      value (bs.foldl (fun r bi => nocarryRow c r a bi) r) * B ^ bs.length
        ≡ value r + value a * value bs [MOD pv] := by
  intro bs
  induction bs with
  | nil =>
    intro r _ hr hrv
    simp only [List.foldl_nil, List.length_nil, pow_zero, Nat.mul_one, value_nil, Nat.mul_zero,
      Nat.add_zero]
    exact ⟨hr, hrv, Nat.ModEq.refl _⟩
  | cons bi bs ih =>
    intro r hw hr hrv
    have ⟨hbi, hbs⟩ := WF_cons.mp hw
    obtain ⟨_, n1, n2, k, _, n3⟩ := nocarryRow_spec h hs hr hrv ha hbi
    obtain ⟨i1, i2, i3⟩ := ih (nocarryRow c r a bi) hbs n1 n2
    simp only [List.foldl_cons, List.length_cons, value_cons]
    refine ⟨i1, i2, ?_⟩
    generalize List.foldl (fun r bi => nocarryRow c r a bi) (nocarryRow c r a bi) bs = res at *
    have e1 : value res * B ^ (bs.length + 1) = (value res * B ^ bs.length) * B := by
      rw [pow_succ]; ring
    rw [e1]
    have e2 := i3.mul_right B
    have e3 : (value (nocarryRow c r a bi) + value a * value bs) * B =
        (value r + value a * (bi + B * value bs)) + k * pv := by
      rw [Nat.add_mul, n3]; ring
    rw [e3] at e2
    refine e2.trans ?_
    have : k * pv ≡ 0 [MOD pv] := (Nat.modEq_zero_iff_dvd).mpr ⟨k, by ring⟩
    exact Nat.ModEq.add_left (value r + value a * (bi + B * value bs)) this

/-- item 4: the interleaved CIOS before the final subtraction -/
theorem mulNoCarry_spec {c : MontCfg} {pv : Nat} (h : CfgOK c pv) (hs : c.spare = true)
    {a b : List Nat} (ha : Elem c pv a) (hb : Limbs c b) :
    Limbs c (mulNoCarry c a b) ∧ value (mulNoCarry c a b) < 2 * pv ∧
    (value (mulNoCarry c a b) * B ^ c.n) % pv = (value a * value b) % pv := by
  have hz : value (zeros c.n) < 2 * pv := by
    unfold zeros; rw [value_replicate_zero]; have := h.p_gt; omega
  obtain ⟨i1, i2, i3⟩ := nocarryFold_spec h hs ha b (zeros c.n) hb.wf (zeros_limbs c) hz
  refine ⟨i1, i2, ?_⟩
  rw [hb.len] at i3
  have hz0 : value (zeros c.n) = 0 := by unfold zeros; exact value_replicate_zero _
  rw [hz0, Nat.zero_add] at i3
  exact i3

/-! ### `mul` / `constMul` -/

theorem constMul_spec {c : MontCfg} {pv : Nat} (h : CfgOK c pv) {a b : List Nat}
    (ha : Elem c pv a) (hb : Limbs c b) :
    Elem c pv (constMul c a b) ∧
    (value (constMul c a b) * B ^ c.n) % pv = (value a * value b) % pv := by
  obtain ⟨s1, s2, m, _, s3⟩ := mulCIOS_spec h ha hb
  unfold constMul
  apply finalSub_spec h s1 _ s2
  rw [s3, Nat.add_mul_mod_self_right]

theorem montMul_spec {c : MontCfg} {pv : Nat} (h : CfgOK c pv) {a b : List Nat}
    (ha : Elem c pv a) (hb : Limbs c b) :
    Elem c pv (Mont.mul c a b) ∧
    (value (Mont.mul c a b) * B ^ c.n) % pv = (value a * value b) % pv := by
  unfold Mont.mul
  by_cases hn : c.noCarry = true
  · rw [if_pos hn]
    have hs := h.noCarry_spare hn
    obtain ⟨n1, n2, n3⟩ := mulNoCarry_spec h hs ha hb
    have := finalSub_spec h n1 false (by simpa using n2) (X := (value a * value b) % pv)
      (by simp [n3])
    rw [if_pos hs] at this
    exact this
  · rw [if_neg hn]
    obtain ⟨s1, s2, m, _, s3⟩ := mulCIOS_spec h ha hb
    have := finalSub_spec h s1 _ s2 (X := (value a * value b) % pv)
      (by rw [s3, Nat.add_mul_mod_self_right])
    simp only []
    split <;> exact this

/-- the Montgomery product is THE residue `x < p` with `x·R ≡ a·b (mod p)` -/
theorem mont_unique {pv R x y X : Nat} (hc : Nat.Coprime R pv) (hx : x < pv) (hy : y < pv)
    (h1 : (x * R) % pv = X) (h2 : (y * R) % pv = X) : x = y := by
  have e : x * R ≡ y * R [MOD pv] := h1.trans h2.symm
  have := Nat.ModEq.cancel_right_of_coprime (Nat.coprime_comm.mp hc) e
  unfold Nat.ModEq at this
  rwa [Nat.mod_eq_of_lt hx, Nat.mod_eq_of_lt hy] at this

end Ark.Mont
