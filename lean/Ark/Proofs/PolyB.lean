import Ark.Model.Poly
import Mathlib.Tactic.Ring
import Mathlib.Tactic.Linarith
import Mathlib.Tactic.FieldSimp
import Mathlib.Algebra.Field.Basic
import Mathlib.Algebra.BigOperators.Group.Finset.Basic
import Mathlib.Algebra.BigOperators.Ring.Finset
import Mathlib.Algebra.BigOperators.Intervals
import Mathlib.Algebra.BigOperators.Group.List.Basic
import Mathlib.Algebra.Ring.GeomSum
import Mathlib.Tactic.LinearCombination
/-
  Ark.Proofs.PolyB — helper lemmas for property C08 (part b): sparse polynomials, the
  sparse constructor, sparse operators, dense/sparse conversions and mixed operators, division
  with sparse operands, evaluation over a domain, interpolation (`Ark.Model.Poly`).

  Vocabulary (own copies, distinct from part a):
  * `coeffB p i = p.getD i 0`, `CanonB p = (p.getLast? ≠ some 0)`;
  * `scoeff s i` = sum of the stored terms of degree `i`;
  * `SCanon s` = degrees strictly increasing and every stored coefficient non-zero.
-/
namespace Ark.PolyB
open Ark Ark.Poly

set_option linter.unusedSectionVars false
set_option linter.unusedVariables false
set_option linter.unusedSimpArgs false

/-! ## 0. the `Outcome` monad -/

@[simp] theorem ok_bind {α β : Type} (a : α) (f : α → Outcome β) :
    (Outcome.ok a >>= f) = f a := rfl
@[simp] theorem panic_bind {α β : Type} (f : α → Outcome β) :
    ((Outcome.panic : Outcome α) >>= f) = Outcome.panic := rfl
@[simp] theorem pure_ok {α : Type} (a : α) : (pure a : Outcome α) = Outcome.ok a := rfl

variable {F : Type} [Field F] [DecidableEq F]

/-! ## 1. vocabulary -/

/-- coefficient function of a stored dense vector -/
def coeffB (p : List F) (i : Nat) : F := p.getD i 0

/-- canonical dense form: no leading zero -/
def CanonB (p : List F) : Prop := p.getLast? ≠ some 0

/-- a term list denotes the sum of its monomials: coefficient of `X^i` -/
def scoeff (s : Terms F) (i : Nat) : F := ((s.filter (fun t => t.1 = i)).map (fun t => t.2)).sum

/-- canonical sparse form: degrees strictly increasing, every stored coefficient non-zero -/
def SCanon (s : Terms F) : Prop := s.Pairwise (fun a b => a.1 < b.1) ∧ ∀ t ∈ s, t.2 ≠ 0

instance (p : List F) : Decidable (CanonB p) := by unfold CanonB; infer_instance
instance (s : Terms F) : Decidable (SCanon s) := by unfold SCanon; infer_instance

/-- degree of a canonical sparse polynomial: the last stored degree, `0` for the empty list -/
def sdeg (s : Terms F) : Nat :=
  match s.getLast? with
  | some t => t.1
  | none => 0

/-! ### `coeffB` -/

@[simp] theorem coeffB_nil (i : Nat) : coeffB ([] : List F) i = 0 := rfl
@[simp] theorem coeffB_cons_zero (c : F) (cs : List F) : coeffB (c :: cs) 0 = c := rfl
@[simp] theorem coeffB_cons_succ (c : F) (cs : List F) (i : Nat) :
    coeffB (c :: cs) (i + 1) = coeffB cs i := rfl

theorem coeffB_of_le (p : List F) (i : Nat) (h : p.length ≤ i) : coeffB p i = 0 := by
  induction p generalizing i with
  | nil => rfl
  | cons c cs ih =>
    cases i with
    | zero => simp at h
    | succ i => simp only [coeffB_cons_succ]; exact ih i (by simpa using h)

theorem coeffB_append (p q : List F) (i : Nat) :
    coeffB (p ++ q) i = if i < p.length then coeffB p i else coeffB q (i - p.length) := by
  induction p generalizing i with
  | nil => simp
  | cons c cs ih =>
    cases i with
    | zero => simp
    | succ i => simp only [List.cons_append, coeffB_cons_succ, ih, List.length_cons,
        Nat.add_lt_add_iff_right, Nat.add_sub_add_right]

@[simp] theorem coeffB_replicate_zero (n i : Nat) : coeffB (List.replicate n (0 : F)) i = 0 := by
  induction n generalizing i with
  | zero => rfl
  | succ n ih => cases i with
    | zero => rfl
    | succ i => simp only [List.replicate_succ, coeffB_cons_succ, ih]

theorem coeffB_take (p : List F) (n i : Nat) :
    coeffB (p.take n) i = if i < n then coeffB p i else 0 := by
  induction p generalizing n i with
  | nil => simp
  | cons c cs ih =>
    cases n with
    | zero => simp
    | succ n => cases i with
      | zero => simp
      | succ i => simp only [List.take_succ_cons, coeffB_cons_succ, ih, Nat.add_lt_add_iff_right]

theorem coeffB_drop (p : List F) (n i : Nat) : coeffB (p.drop n) i = coeffB p (n + i) := by
  induction p generalizing n with
  | nil => simp
  | cons c cs ih =>
    cases n with
    | zero => simp
    | succ n => simp only [List.drop_succ_cons, ih, Nat.succ_add, coeffB_cons_succ]

theorem coeffB_getLast (p : List F) (c : F) (h : p.getLast? = some c) :
    coeffB p (p.length - 1) = c := by
  induction p with
  | nil => simp at h
  | cons a as ih =>
    cases as with
    | nil => simp at h; simp [h]
    | cons b bs =>
      rw [List.getLast?_cons_cons] at h
      have := ih h
      simpa using this

theorem list_ext_coeffB (p q : List F) (hl : p.length = q.length)
    (h : ∀ i, coeffB p i = coeffB q i) : p = q := by
  induction p generalizing q with
  | nil => cases q with
    | nil => rfl
    | cons _ _ => simp at hl
  | cons a as ih =>
    cases q with
    | nil => simp at hl
    | cons b bs =>
      have h0 := h 0
      simp only [coeffB_cons_zero] at h0
      rw [h0, ih bs (by simpa using hl) (fun i => by simpa using h (i + 1))]

/-! ### `pow`, `ofNat` -/

theorem pow_eq (x : F) (n : Nat) : Poly.pow x n = x ^ n := by
  induction n with
  | zero => simp [Poly.pow]
  | succ n ih => simp [Poly.pow, ih, pow_succ]

/-! ### `modifyAt` -/

theorem modifyAt_ok (f : F → F) (r : List F) (i : Nat) (h : i < r.length) :
    ∃ r', modifyAt f r i = .ok r' ∧ r'.length = r.length ∧
      ∀ j, coeffB r' j = if j = i then f (coeffB r i) else coeffB r j := by
  induction r generalizing i with
  | nil => simp at h
  | cons c cs ih =>
    cases i with
    | zero =>
      refine ⟨f c :: cs, rfl, rfl, ?_⟩
      intro j; cases j <;> simp
    | succ i =>
      obtain ⟨r', h1, h2, h3⟩ := ih i (by simpa using h)
      refine ⟨c :: r', by simp [modifyAt, h1], by simp [h2], ?_⟩
      intro j; cases j with
      | zero => simp
      | succ j => simp [h3]

theorem modifyAt_panic (f : F → F) (r : List F) (i : Nat) (h : r.length ≤ i) :
    modifyAt f r i = .panic := by
  induction r generalizing i with
  | nil => rfl
  | cons c cs ih =>
    cases i with
    | zero => simp at h
    | succ i => simp [modifyAt, ih i (by simpa using h)]

/-! ### `isZero`, `truncate`, `degree` on dense vectors -/

theorem isZero_iff (p : List F) : Poly.isZero p = true ↔ ∀ c ∈ p, c = 0 := by
  simp [Poly.isZero]

theorem isZero_coeffB (p : List F) (h : Poly.isZero p = true) (i : Nat) : coeffB p i = 0 := by
  rw [isZero_iff] at h
  induction p generalizing i with
  | nil => rfl
  | cons c cs ih =>
    cases i with
    | zero => simpa using h c (by simp)
    | succ i => simpa using ih (fun c hc => h c (by simp [hc])) i

theorem canon_isZero (p : List F) (hp : CanonB p) : Poly.isZero p = true ↔ p = [] := by
  constructor
  · intro h
    rw [isZero_iff] at h
    cases hl : p.getLast? with
    | none => simpa using hl
    | some c =>
      have : c = 0 := h c (List.mem_of_getLast? hl)
      exact absurd (this ▸ hl) hp
  · intro h; subst h; rfl

@[simp] theorem canon_nil : CanonB ([] : List F) := by simp [CanonB]

theorem truncate_canon (p : List F) : CanonB (truncate p) := by
  induction p with
  | nil => simp [truncate]
  | cons c cs ih =>
    unfold truncate
    cases h : truncate cs with
    | nil =>
      by_cases hc : c = 0
      · simp [hc]
      · simp [hc, CanonB]
    | cons t ts =>
      simp only
      rw [h] at ih
      unfold CanonB at *
      rwa [List.getLast?_cons_cons]

theorem coeffB_truncate (p : List F) (i : Nat) : coeffB (truncate p) i = coeffB p i := by
  induction p generalizing i with
  | nil => rfl
  | cons c cs ih =>
    unfold truncate
    cases h : truncate cs with
    | nil =>
      rw [h] at ih
      by_cases hc : c = 0
      · cases i with
        | zero => simp [hc]
        | succ i => simp [hc, ← ih i]
      · cases i with
        | zero => simp [hc]
        | succ i => simp [hc, ← ih i]
    | cons t ts =>
      rw [h] at ih
      cases i with
      | zero => simp
      | succ i => simp [← ih i]

theorem truncate_of_canon (p : List F) (hp : CanonB p) : truncate p = p := by
  induction p with
  | nil => rfl
  | cons c cs ih =>
    unfold truncate
    cases cs with
    | nil =>
      have : c ≠ 0 := by simpa [CanonB] using hp
      simp [truncate, this]
    | cons b bs =>
      have hp' : CanonB (b :: bs) := by
        unfold CanonB at *; rwa [List.getLast?_cons_cons] at hp
      rw [ih hp']

theorem truncate_length_le (p : List F) : (truncate p).length ≤ p.length := by
  induction p with
  | nil => simp [truncate]
  | cons c cs ih =>
    unfold truncate
    cases h : truncate cs with
    | nil => by_cases hc : c = 0 <;> simp [hc]
    | cons t ts => rw [h] at ih; simpa using ih

theorem truncate_length_le_of (p : List F) (m : Nat) (h : ∀ j, m ≤ j → coeffB p j = 0) :
    (truncate p).length ≤ m := by
  induction p generalizing m with
  | nil => simp [truncate]
  | cons c cs ih =>
    unfold truncate
    cases hcs : truncate cs with
    | nil =>
      by_cases hc : c = 0
      · simp [hc]
      · cases m with
        | zero => exact absurd (by simpa using h 0 (Nat.le_refl 0)) hc
        | succ m => simp [hc]
    | cons t ts =>
      cases m with
      | zero =>
        have h0 := ih 0 (fun j _ => by simpa using h (j + 1) (Nat.zero_le _))
        rw [hcs] at h0; simp at h0
      | succ m =>
        have h0 := ih m (fun j hj => by simpa using h (j + 1) (by omega))
        rw [hcs] at h0; simpa using h0

theorem degree_canon (p : List F) (hp : CanonB p) : degree p = .ok (p.length - 1) := by
  unfold degree
  by_cases hz : Poly.isZero p = true
  · rw [if_pos hz]; rw [(canon_isZero p hp).1 hz]; rfl
  · rw [if_neg hz]
    cases hl : p.getLast? with
    | none => rw [List.getLast?_eq_none_iff] at hl; subst hl; exact absurd rfl hz
    | some c =>
      have : c ≠ 0 := fun h => hp (h ▸ hl)
      simp [this]

/-! ### `scoeff` -/

@[simp] theorem scoeff_nil (i : Nat) : scoeff ([] : Terms F) i = 0 := rfl

theorem scoeff_cons (t : Nat × F) (s : Terms F) (i : Nat) :
    scoeff (t :: s) i = (if t.1 = i then t.2 else 0) + scoeff s i := by
  unfold scoeff
  by_cases h : t.1 = i <;> simp [List.filter_cons, h]

theorem scoeff_append (s u : Terms F) (i : Nat) :
    scoeff (s ++ u) i = scoeff s i + scoeff u i := by
  induction s with
  | nil => simp
  | cons t s ih => simp only [List.cons_append, scoeff_cons, ih, add_assoc]

theorem scoeff_singleton (t : Nat × F) (i : Nat) :
    scoeff [t] i = if t.1 = i then t.2 else 0 := by
  simp [scoeff_cons]

theorem scoeff_eq_zero_of_forall_ne (s : Terms F) (i : Nat) (h : ∀ t ∈ s, t.1 ≠ i) :
    scoeff s i = 0 := by
  induction s with
  | nil => rfl
  | cons t s ih =>
    rw [scoeff_cons, if_neg (h t (by simp)), ih (fun u hu => h u (by simp [hu])), add_zero]

theorem scoeff_eq_zero_of_forall_zero (s : Terms F) (i : Nat) (h : ∀ t ∈ s, t.2 = 0) :
    scoeff s i = 0 := by
  induction s with
  | nil => rfl
  | cons t s ih =>
    rw [scoeff_cons, h t (by simp), ih (fun u hu => h u (by simp [hu]))]; simp

theorem scoeff_filter_nonzero (s : Terms F) (i : Nat) :
    scoeff (s.filter (fun t => !decide (t.2 = 0))) i = scoeff s i := by
  induction s with
  | nil => rfl
  | cons t s ih =>
    by_cases h : t.2 = 0
    · simp [List.filter_cons, h, scoeff_cons, ih]
    · simp [List.filter_cons, h, scoeff_cons, ih]

/-! ### `SCanon`, `sIsZero`, `sDegree` -/

@[simp] theorem scanon_nil : SCanon ([] : Terms F) := by simp [SCanon]

theorem sIsZero_iff (s : Terms F) : sIsZero s = true ↔ ∀ t ∈ s, t.2 = 0 := by
  simp [sIsZero]

theorem scanon_sIsZero (s : Terms F) (hs : SCanon s) : sIsZero s = true ↔ s = [] := by
  constructor
  · intro h
    rw [sIsZero_iff] at h
    cases s with
    | nil => rfl
    | cons t s => exact absurd (h t (by simp)) (hs.2 t (by simp))
  · intro h; subst h; rfl

theorem sIsZero_scoeff (s : Terms F) (h : sIsZero s = true) (i : Nat) : scoeff s i = 0 :=
  scoeff_eq_zero_of_forall_zero s i ((sIsZero_iff s).1 h)

theorem scanon_tail (t : Nat × F) (s : Terms F) (h : SCanon (t :: s)) : SCanon s :=
  ⟨(List.pairwise_cons.1 h.1).2, fun u hu => h.2 u (by simp [hu])⟩

theorem scanon_head_lt (t : Nat × F) (s : Terms F) (h : SCanon (t :: s)) :
    ∀ u ∈ s, t.1 < u.1 := (List.pairwise_cons.1 h.1).1

theorem sDegree_scanon (s : Terms F) (hs : SCanon s) : sDegree s = .ok (sdeg s) := by
  unfold sDegree sdeg
  by_cases hz : sIsZero s = true
  · rw [if_pos hz, (scanon_sIsZero s hs).1 hz]; rfl
  · rw [if_neg hz]
    cases hl : s.getLast? with
    | none => rw [List.getLast?_eq_none_iff] at hl; subst hl; exact absurd rfl hz
    | some t =>
      have : t.2 ≠ 0 := hs.2 t (List.mem_of_getLast? hl)
      simp [this]

/-- every stored degree of a canonical sparse polynomial is at most `sdeg` -/
theorem scanon_le_sdeg (s : Terms F) (hs : SCanon s) : ∀ t ∈ s, t.1 ≤ sdeg s := by
  intro t ht
  unfold sdeg
  cases hl : s.getLast? with
  | none => rw [List.getLast?_eq_none_iff] at hl; subst hl; simp at ht
  | some l =>
    simp only
    obtain ⟨init, rfl⟩ : ∃ init, s = init ++ [l] := by
      have hne : s ≠ [] := by intro h; subst h; simp at hl
      refine ⟨s.dropLast, ?_⟩
      have := List.dropLast_append_getLast? l (by simpa using hl)
      exact this.symm
    rw [List.mem_append] at ht
    rcases ht with ht | ht
    · have := (List.pairwise_append.1 hs.1).2.2 t ht l (by simp)
      omega
    · simp at ht; subst ht; exact Nat.le_refl _

/-! ## 2. the sparse constructor `sFromCoefficientsVec` -/

/-- weakly sorted by degree -/
def WSorted (l : Terms F) : Prop := l.Pairwise (fun a b => a.1 ≤ b.1)

theorem scoeff_insertTerm (t : Nat × F) (l : Terms F) (i : Nat) :
    scoeff (insertTerm t l) i = scoeff (t :: l) i := by
  induction l with
  | nil => rfl
  | cons u us ih =>
    unfold insertTerm
    by_cases h : t.1 < u.1
    · rw [if_pos h]
    · rw [if_neg h, scoeff_cons, ih, scoeff_cons, scoeff_cons, scoeff_cons]; ring

theorem mem_insertTerm (t u : Nat × F) (l : Terms F) :
    u ∈ insertTerm t l ↔ u = t ∨ u ∈ l := by
  induction l with
  | nil => simp [insertTerm]
  | cons v vs ih =>
    unfold insertTerm
    by_cases h : t.1 < v.1
    · rw [if_pos h]; simp
    · rw [if_neg h]; simp only [List.mem_cons, ih]; tauto

theorem wsorted_insertTerm (t : Nat × F) (l : Terms F) (h : WSorted l) :
    WSorted (insertTerm t l) := by
  induction l with
  | nil => simp [insertTerm, WSorted]
  | cons v vs ih =>
    unfold WSorted at h
    rw [List.pairwise_cons] at h
    unfold insertTerm
    by_cases hlt : t.1 < v.1
    · rw [if_pos hlt]
      unfold WSorted
      refine List.pairwise_cons.2 ⟨?_, List.pairwise_cons.2 h⟩
      intro u hu
      rcases List.mem_cons.1 hu with rfl | hu
      · omega
      · have := h.1 u hu; omega
    · rw [if_neg hlt]
      unfold WSorted
      refine List.pairwise_cons.2 ⟨?_, ih h.2⟩
      intro u hu
      rcases (mem_insertTerm t u vs).1 hu with rfl | hu
      · omega
      · exact h.1 u hu

theorem sortTerms_aux (l acc : Terms F) :
    (WSorted acc → WSorted (l.foldl (fun acc t => insertTerm t acc) acc)) ∧
    ∀ i, scoeff (l.foldl (fun acc t => insertTerm t acc) acc) i = scoeff acc i + scoeff l i := by
  induction l generalizing acc with
  | nil => simp
  | cons t ts ih =>
    simp only [List.foldl_cons]
    refine ⟨fun h => (ih _).1 (wsorted_insertTerm t acc h), fun i => ?_⟩
    rw [(ih _).2, scoeff_insertTerm, scoeff_cons, scoeff_cons]; ring

theorem wsorted_sortTerms (l : Terms F) : WSorted (sortTerms l) :=
  (sortTerms_aux l []).1 (by simp [WSorted])

theorem scoeff_sortTerms (l : Terms F) (i : Nat) : scoeff (sortTerms l) i = scoeff l i := by
  unfold sortTerms; rw [(sortTerms_aux l []).2]; simp

theorem combineTerms_spec (ts acc : Terms F)
    (hacc : acc.Pairwise (fun a b => a.1 < b.1))
    (hle : ∀ a ∈ acc, ∀ t ∈ ts, a.1 ≤ t.1) (hts : WSorted ts) :
    (combineTerms acc ts).Pairwise (fun a b => a.1 < b.1) ∧
    ∀ i, scoeff (combineTerms acc ts) i = scoeff acc i + scoeff ts i := by
  induction ts generalizing acc with
  | nil => simp [combineTerms, hacc]
  | cons t ts ih =>
    have hts' := List.pairwise_cons.1 hts
    rw [combineTerms]
    rcases List.eq_nil_or_concat acc with rfl | ⟨init, l, hacceq⟩
    on_goal 2 => rw [List.concat_eq_append] at hacceq; subst hacceq
    · simp only [List.getLast?_nil]
      have := ih [t] (by simp) (by intro a ha u hu; simp at ha; subst ha; exact hts'.1 u hu) hts'.2
      refine ⟨this.1, fun i => ?_⟩
      rw [this.2, scoeff_cons t ts, scoeff_singleton]; simp
    · have hgl : (init ++ [l]).getLast? = some l := by simp
      rw [hgl]; simp only
      have hacc' := List.pairwise_append.1 hacc
      have hlt : l.1 ≤ t.1 := hle l (by simp) t (by simp)
      by_cases heq : l.1 = t.1
      · rw [if_pos heq, List.dropLast_concat]
        have := ih (init ++ [(l.1, l.2 + t.2)])
          (by
            refine List.pairwise_append.2 ⟨hacc'.1, by simp, ?_⟩
            intro a ha b hb
            simp at hb; subst hb
            exact hacc'.2.2 a ha l (by simp))
          (by
            intro a ha u hu
            rcases List.mem_append.1 ha with ha | ha
            · exact hle a (by simp [ha]) u (by simp [hu])
            · simp at ha; subst ha
              exact hle l (by simp) u (by simp [hu]))
          hts'.2
        refine ⟨this.1, fun i => ?_⟩
        rw [this.2]
        simp only [scoeff_append, scoeff_cons, scoeff_nil, heq]
        by_cases hi : t.1 = i <;> simp [hi]; ring
      · rw [if_neg heq]
        have := ih (init ++ [l] ++ [t])
          (by
            refine List.pairwise_append.2 ⟨hacc, by simp, ?_⟩
            intro a ha b hb
            simp at hb; subst hb
            rcases List.mem_append.1 ha with ha | ha
            · have := hacc'.2.2 a ha l (by simp); omega
            · simp at ha; subst ha; omega)
          (by
            intro a ha u hu
            rcases List.mem_append.1 ha with ha | ha
            · exact hle a ha u (by simp [hu])
            · simp at ha; subst ha; exact hts'.1 u hu)
          hts'.2
        refine ⟨this.1, fun i => ?_⟩
        rw [this.2]
        simp only [scoeff_append, scoeff_cons, scoeff_nil]; ring

/-- `sFromCoefficientsVec` on EVERY input: canonical output with the same coefficient function -/
theorem sFromCoefficientsVec_spec (v : Terms F) :
    SCanon (sFromCoefficientsVec v) ∧ ∀ i, scoeff (sFromCoefficientsVec v) i = scoeff v i := by
  have h := combineTerms_spec (sortTerms v) [] (by simp) (by simp) (wsorted_sortTerms v)
  unfold sFromCoefficientsVec
  refine ⟨⟨h.1.filter _, ?_⟩, fun i => ?_⟩
  · intro t ht
    have := (List.mem_filter.1 ht).2
    simpa using this
  · rw [scoeff_filter_nonzero, h.2, scoeff_sortTerms]; simp

/-! ## 3. corollaries of the constructor: `sMul`, `denseToSparse`, the vanishing polynomial -/

/-- convolution of coefficient functions: `Σ_{i+j=k} f i · g j` -/
def sconv (f g : Nat → F) (k : Nat) : F := ∑ i ∈ Finset.range (k + 1), f i * g (k - i)

theorem sconv_delta (d : Nat) (c : F) (g : Nat → F) (k : Nat) :
    sconv (fun i => if d = i then c else 0) g k = if d ≤ k then c * g (k - d) else 0 := by
  unfold sconv
  simp only [ite_mul, zero_mul]
  rw [Finset.sum_ite_eq]
  simp [Nat.lt_succ_iff]

theorem sconv_add_left (f f' g : Nat → F) (k : Nat) :
    sconv (fun i => f i + f' i) g k = sconv f g k + sconv f' g k := by
  unfold sconv; rw [← Finset.sum_add_distrib]; apply Finset.sum_congr rfl; intros; ring

theorem sconv_zero_left (f g : Nat → F) (k : Nat) (h : ∀ i, f i = 0) : sconv f g k = 0 := by
  unfold sconv; apply Finset.sum_eq_zero; intro i _; rw [h]; ring

theorem sconv_zero_right (f g : Nat → F) (k : Nat) (h : ∀ i, g i = 0) : sconv f g k = 0 := by
  unfold sconv; apply Finset.sum_eq_zero; intro i _; rw [h]; ring

theorem scoeff_btAdd (k : Nat) (v : F) (m : Terms F) (i : Nat) :
    scoeff (btAdd k v m) i = scoeff m i + if k = i then v else 0 := by
  induction m with
  | nil => simp [btAdd, scoeff_cons]
  | cons u m ih =>
    obtain ⟨k', v'⟩ := u
    rw [btAdd]
    by_cases h1 : k < k'
    · rw [if_pos h1]; simp only [scoeff_cons]; ring
    · rw [if_neg h1]
      by_cases h2 : k = k'
      · rw [if_pos h2]; subst h2; simp only [scoeff_cons]
        by_cases h3 : k = i <;> simp [h3]; ring
      · rw [if_neg h2]; simp only [scoeff_cons, ih]; ring

theorem sMul_inner (a : Nat × F) (t m0 : Terms F) (k : Nat) :
    scoeff (t.foldl (fun m b => btAdd (a.1 + b.1) (a.2 * b.2) m) m0) k
      = scoeff m0 k + if a.1 ≤ k then a.2 * scoeff t (k - a.1) else 0 := by
  induction t generalizing m0 with
  | nil => simp
  | cons b t ih =>
    simp only [List.foldl_cons]
    rw [ih, scoeff_btAdd, scoeff_cons]
    by_cases h : a.1 ≤ k
    · rw [if_pos h, if_pos h]
      by_cases h2 : a.1 + b.1 = k
      · have : b.1 = k - a.1 := by omega
        rw [if_pos h2, if_pos this]; ring
      · have : ¬ b.1 = k - a.1 := by omega
        rw [if_neg h2, if_neg this]; ring
    · have : ¬ a.1 + b.1 = k := by omega
      rw [if_neg h, if_neg h, if_neg this]; ring

theorem sMul_outer (s t m0 : Terms F) (k : Nat) :
    scoeff (s.foldl (fun m a => t.foldl (fun m b => btAdd (a.1 + b.1) (a.2 * b.2) m) m) m0) k
      = scoeff m0 k + sconv (scoeff s) (scoeff t) k := by
  induction s generalizing m0 with
  | nil => rw [sconv_zero_left _ _ _ (fun i => scoeff_nil i)]; simp
  | cons a s ih =>
    simp only [List.foldl_cons]
    rw [ih, sMul_inner]
    have : sconv (scoeff (a :: s)) (scoeff t) k
        = sconv (fun i => if a.1 = i then a.2 else 0) (scoeff t) k + sconv (scoeff s) (scoeff t) k := by
      rw [← sconv_add_left]; congr 1; funext i; rw [scoeff_cons]
    rw [this, sconv_delta]; ring

/-- `sMul` (for ALL stored operands): canonical, convolution coefficients -/
theorem sMul_spec (s t : Terms F) :
    SCanon (sMul s t) ∧ ∀ k, scoeff (sMul s t) k = sconv (scoeff s) (scoeff t) k := by
  unfold sMul
  by_cases hz : (sIsZero s || sIsZero t) = true
  · rw [if_pos hz]
    refine ⟨scanon_nil, fun k => ?_⟩
    rw [Bool.or_eq_true] at hz
    rcases hz with hz | hz
    · rw [sconv_zero_left _ _ _ (sIsZero_scoeff s hz)]; rfl
    · rw [sconv_zero_right _ _ _ (sIsZero_scoeff t hz)]; rfl
  · rw [if_neg hz]
    simp only
    refine ⟨(sFromCoefficientsVec_spec _).1, fun k => ?_⟩
    rw [(sFromCoefficientsVec_spec _).2, sMul_outer]; simp

theorem scoeff_nonzeroTerms (a : List F) (j i : Nat) :
    scoeff (nonzeroTerms a j) i = if j ≤ i then coeffB a (i - j) else 0 := by
  induction a generalizing j with
  | nil => simp [nonzeroTerms]
  | cons c cs ih =>
    rw [nonzeroTerms]
    have key : (if j ≤ i then coeffB (c :: cs) (i - j) else 0)
        = (if j = i then c else 0) + if j + 1 ≤ i then coeffB cs (i - (j + 1)) else 0 := by
      by_cases h1 : j = i
      · subst h1; simp
      · by_cases h2 : j ≤ i
        · have h3 : j + 1 ≤ i := by omega
          obtain ⟨d, rfl⟩ : ∃ d, i = j + 1 + d := ⟨i - (j + 1), by omega⟩
          have e1 : j + 1 + d - j = d + 1 := by omega
          have e2 : j + 1 + d - (j + 1) = d := by omega
          simp [h1, h2, h3, e1, e2]
        · have h3 : ¬ j + 1 ≤ i := by omega
          simp [h1, h2, h3]
    by_cases hc : c = 0
    · rw [if_pos hc, ih, key, hc]; simp
    · rw [if_neg hc, scoeff_cons, ih, key]

/-- `denseToSparse` (for ALL stored vectors): canonical, same coefficient function -/
theorem denseToSparse_spec (a : List F) :
    SCanon (denseToSparse a) ∧ ∀ i, scoeff (denseToSparse a) i = coeffB a i := by
  unfold denseToSparse
  refine ⟨(sFromCoefficientsVec_spec _).1, fun i => ?_⟩
  rw [(sFromCoefficientsVec_spec _).2, scoeff_nonzeroTerms]; simp

/-- `Domain.vanishingPolynomial` is `X^n − h^n` -/
theorem vanishingPolynomial_spec (D : Domain F) :
    SCanon D.vanishingPolynomial ∧ ∀ i, scoeff D.vanishingPolynomial i
      = (if i = D.size then 1 else 0) - (if i = 0 then D.offset ^ D.size else 0) := by
  unfold Domain.vanishingPolynomial
  refine ⟨(sFromCoefficientsVec_spec _).1, fun i => ?_⟩
  rw [(sFromCoefficientsVec_spec _).2]
  simp only [scoeff_cons, scoeff_nil, Domain.offsetPowSize, pow_eq, @eq_comm _ 0 i,
    @eq_comm _ D.size i]
  split_ifs <;> ring

/-! ### canonical sparse forms are unique -/

theorem scoeff_head (t : Nat × F) (s : Terms F) (h : SCanon (t :: s)) : scoeff (t :: s) t.1 = t.2 := by
  rw [scoeff_cons, scoeff_eq_zero_of_forall_ne]
  · simp
  · intro u hu; have := scanon_head_lt t s h u hu; omega

theorem scoeff_below_head (t : Nat × F) (s : Terms F) (h : SCanon (t :: s)) (i : Nat) (hi : i < t.1) :
    scoeff (t :: s) i = 0 := by
  apply scoeff_eq_zero_of_forall_ne
  intro u hu
  rcases List.mem_cons.1 hu with rfl | hu
  · omega
  · have := scanon_head_lt t s h u hu; omega

theorem scanon_ext (s t : Terms F) (hs : SCanon s) (ht : SCanon t)
    (h : ∀ i, scoeff s i = scoeff t i) : s = t := by
  induction s generalizing t with
  | nil =>
    cases t with
    | nil => rfl
    | cons u t =>
      have := h u.1
      rw [scoeff_head u t ht] at this
      exact absurd this.symm (ht.2 u (by simp))
  | cons a s ih =>
    cases t with
    | nil =>
      have := h a.1
      rw [scoeff_head a s hs] at this
      exact absurd this (hs.2 a (by simp))
    | cons u t =>
      have ha := scoeff_head a s hs
      have hu := scoeff_head u t ht
      have hd : a.1 = u.1 := by
        rcases Nat.lt_trichotomy a.1 u.1 with hlt | heq | hgt
        · have := h a.1
          rw [ha, scoeff_below_head u t ht a.1 hlt] at this
          exact absurd this (hs.2 a (by simp))
        · exact heq
        · have := h u.1
          rw [hu, scoeff_below_head a s hs u.1 hgt] at this
          exact absurd this.symm (ht.2 u (by simp))
      have hc : a.2 = u.2 := by
        have := h a.1
        rw [ha, hd, hu] at this; exact this
      have hau : a = u := Prod.ext hd hc
      subst hau
      rw [ih t (scanon_tail a s hs) (scanon_tail a t ht) (fun i => by
        have := h i
        rw [scoeff_cons, scoeff_cons] at this
        exact add_left_cancel this)]

/-- explicit stored form of the vanishing polynomial of a non-trivial domain -/
theorem vanishingPolynomial_eq (D : Domain F) (hn : D.size ≠ 0) (hh : D.offset ≠ 0) :
    D.vanishingPolynomial = [(0, -(D.offset ^ D.size)), (D.size, 1)] := by
  apply scanon_ext _ _ (vanishingPolynomial_spec D).1
  · refine ⟨by simp; omega, ?_⟩
    intro t ht
    simp at ht
    rcases ht with rfl | rfl
    · simpa using pow_ne_zero _ hh
    · simp
  · intro i
    rw [(vanishingPolynomial_spec D).2]
    simp only [scoeff_cons, scoeff_nil, @eq_comm _ 0 i, @eq_comm _ D.size i]
    split_ifs <;> ring

/-! ## 4. sparse operators -/

theorem scanon_append (r app : Terms F) (hr : SCanon r) (happ : SCanon app)
    (hlt : ∀ u ∈ r, ∀ v ∈ app, u.1 < v.1) : SCanon (r ++ app) := by
  refine ⟨List.pairwise_append.2 ⟨hr.1, happ.1, hlt⟩, ?_⟩
  intro t ht
  rcases List.mem_append.1 ht with ht | ht
  · exact hr.2 t ht
  · exact happ.2 t ht

theorem scanon_snoc (r : Terms F) (d : Nat) (c : F) (hr : SCanon r) (hlt : ∀ u ∈ r, u.1 < d)
    (hc : c ≠ 0) : SCanon (r ++ [(d, c)]) := by
  apply scanon_append r _ hr
  · exact ⟨by simp, by intro t ht; simp at ht; subst ht; exact hc⟩
  · intro u hu v hv; simp at hv; subst hv; exact hlt u hu

theorem sdeg_lt (r : Terms F) (d : Nat) (hlt : ∀ u ∈ r, u.1 < d) (h0 : r = [] → 0 < d) :
    sdeg r < d := by
  unfold sdeg
  cases hl : r.getLast? with
  | none => rw [List.getLast?_eq_none_iff] at hl; exact h0 hl
  | some l => exact hlt l (List.mem_of_getLast? hl)

theorem sAppendCoeffs_ok (r app : Terms F) (hr : SCanon r) (happ : SCanon app)
    (hlt : ∀ u ∈ r, ∀ v ∈ app, u.1 < v.1) (h0 : r = [] → ∀ v ∈ app, 0 < v.1) :
    sAppendCoeffs r app = .ok (r ++ app) ∧ SCanon (r ++ app) := by
  refine ⟨?_, scanon_append r app hr happ hlt⟩
  cases app with
  | nil => simp [sAppendCoeffs]
  | cons t app =>
    have : sdeg r < t.1 := sdeg_lt r t.1 (fun u hu => hlt u hu t (by simp))
      (fun h => h0 h t (by simp))
    simp [sAppendCoeffs, sDegree_scanon r hr, this]

theorem sAddLoop_nil_nil (fuel : Nat) (r : Terms F) : sAddLoop (fuel + 1) [] [] r = .ok r := rfl
theorem sAddLoop_nil_cons (fuel : Nat) (t : Nat × F) (ts r : Terms F) :
    sAddLoop (fuel + 1) [] (t :: ts) r = sAppendCoeffs r (t :: ts) := rfl
theorem sAddLoop_cons_nil (fuel : Nat) (s : Nat × F) (ss r : Terms F) :
    sAddLoop (fuel + 1) (s :: ss) [] r = sAppendCoeffs r (s :: ss) := rfl
theorem sAddLoop_cons_cons (fuel : Nat) (ds dt : Nat) (cs ct : F) (s' t' r : Terms F) :
    sAddLoop (fuel + 1) ((ds, cs) :: s') ((dt, ct) :: t') r =
      if ds < dt then sAddLoop fuel s' ((dt, ct) :: t') (r ++ [(ds, cs)])
      else if ds = dt then
        sAddLoop fuel s' t' (if cs + ct = 0 then r else r ++ [(ds, cs + ct)])
      else sAddLoop fuel ((ds, cs) :: s') t' (r ++ [(dt, ct)]) := rfl

theorem sAddLoop_spec (fuel : Nat) (s t r : Terms F) (hs : SCanon s) (ht : SCanon t)
    (hr : SCanon r) (hfuel : s.length + t.length < fuel)
    (hrs : ∀ u ∈ r, ∀ v ∈ s, u.1 < v.1) (hrt : ∀ u ∈ r, ∀ v ∈ t, u.1 < v.1)
    (h0 : r = [] → (s ≠ [] ∧ t ≠ []) ∨ ((∀ v ∈ s, 0 < v.1) ∧ ∀ v ∈ t, 0 < v.1)) :
    ∃ r', sAddLoop fuel s t r = .ok r' ∧ SCanon r' ∧
      ∀ i, scoeff r' i = scoeff r i + scoeff s i + scoeff t i := by
  induction fuel generalizing s t r with
  | zero => omega
  | succ fuel ih =>
    cases s with
    | nil =>
      cases t with
      | nil => exact ⟨r, rfl, hr, fun i => by simp⟩
      | cons t0 t' =>
        rw [sAddLoop_nil_cons]
        have := sAppendCoeffs_ok r (t0 :: t') hr ht hrt (fun h => by
          rcases h0 h with h1 | h1
          · exact absurd rfl h1.1
          · exact h1.2)
        exact ⟨_, this.1, this.2, fun i => by rw [scoeff_append]; simp⟩
    | cons s0 s' =>
      cases t with
      | nil =>
        rw [sAddLoop_cons_nil]
        have := sAppendCoeffs_ok r (s0 :: s') hr hs hrs (fun h => by
          rcases h0 h with h1 | h1
          · exact absurd rfl h1.2
          · exact h1.1)
        exact ⟨_, this.1, this.2, fun i => by rw [scoeff_append]; simp⟩
      | cons t0 t' =>
        obtain ⟨ds, cs⟩ := s0
        obtain ⟨dt, ct⟩ := t0
        rw [sAddLoop_cons_cons]
        have hs' := scanon_tail _ _ hs
        have ht' := scanon_tail _ _ ht
        have hsh := scanon_head_lt _ _ hs
        have hth := scanon_head_lt _ _ ht
        have hcs : cs ≠ 0 := hs.2 (ds, cs) (by simp)
        have hct : ct ≠ 0 := ht.2 (dt, ct) (by simp)
        simp only [List.length_cons] at hfuel
        by_cases h1 : ds < dt
        · rw [if_pos h1]
          obtain ⟨r', e1, e2, e3⟩ := ih s' ((dt, ct) :: t') (r ++ [(ds, cs)]) hs' ht
            (scanon_snoc r ds cs hr (fun u hu => hrs u hu (ds, cs) (by simp)) hcs)
            (by simp only [List.length_cons]; omega)
            (by
              intro u hu v hv
              rcases List.mem_append.1 hu with hu | hu
              · exact hrs u hu v (by simp [hv])
              · simp at hu; subst hu; exact hsh v hv)
            (by
              intro u hu v hv
              rcases List.mem_append.1 hu with hu | hu
              · exact hrt u hu v hv
              · simp at hu; subst hu
                rcases List.mem_cons.1 hv with rfl | hv
                · exact h1
                · have := hth v hv; simp only at this ⊢; omega)
            (by intro h; simp at h)
          refine ⟨r', e1, e2, fun i => ?_⟩
          rw [e3]; simp only [scoeff_append, scoeff_cons, scoeff_nil]; ring
        · rw [if_neg h1]
          by_cases h2 : ds = dt
          · rw [if_pos h2]
            subst h2
            have hnew : SCanon (if cs + ct = 0 then r else r ++ [(ds, cs + ct)]) := by
              by_cases hsum : cs + ct = 0
              · rw [if_pos hsum]; exact hr
              · rw [if_neg hsum]
                exact scanon_snoc r ds _ hr (fun u hu => hrs u hu (ds, cs) (by simp)) hsum
            have hmem : ∀ u ∈ (if cs + ct = 0 then r else r ++ [(ds, cs + ct)]),
                u ∈ r ∨ u.1 = ds := by
              intro u hu
              by_cases hsum : cs + ct = 0
              · rw [if_pos hsum] at hu; exact Or.inl hu
              · rw [if_neg hsum] at hu
                rcases List.mem_append.1 hu with hu | hu
                · exact Or.inl hu
                · simp at hu; subst hu; exact Or.inr rfl
            obtain ⟨r', e1, e2, e3⟩ := ih s' t' _ hs' ht' hnew (by omega)
              (by
                intro u hu v hv
                rcases hmem u hu with hu | hu
                · exact hrs u hu v (by simp [hv])
                · rw [hu]; exact hsh v hv)
              (by
                intro u hu v hv
                rcases hmem u hu with hu | hu
                · exact hrt u hu v (by simp [hv])
                · rw [hu]; exact hth v hv)
              (by
                intro _
                refine Or.inr ⟨fun v hv => ?_, fun v hv => ?_⟩
                · have := hsh v hv; simp only at this; omega
                · have := hth v hv; simp only at this; omega)
            refine ⟨r', e1, e2, fun i => ?_⟩
            rw [e3]
            by_cases hsum : cs + ct = 0
            · rw [if_pos hsum]; simp only [scoeff_cons]
              by_cases hi : ds = i
              · simp only [hi, if_true]
                have : ct = -cs := by rw [← sub_eq_zero]; rw [← hsum]; ring
                rw [this]; ring
              · simp only [hi, if_false]; ring
            · rw [if_neg hsum]; simp only [scoeff_append, scoeff_cons, scoeff_nil]
              by_cases hi : ds = i
              · simp only [hi, if_true]; ring
              · simp only [hi, if_false]; ring
          · rw [if_neg h2]
            have h3 : dt < ds := by omega
            obtain ⟨r', e1, e2, e3⟩ := ih ((ds, cs) :: s') t' (r ++ [(dt, ct)]) hs ht'
              (scanon_snoc r dt ct hr (fun u hu => hrt u hu (dt, ct) (by simp)) hct)
              (by simp only [List.length_cons]; omega)
              (by
                intro u hu v hv
                rcases List.mem_append.1 hu with hu | hu
                · exact hrs u hu v hv
                · simp at hu; subst hu
                  rcases List.mem_cons.1 hv with rfl | hv
                  · exact h3
                  · have := hsh v hv; simp only at this ⊢; omega)
              (by
                intro u hu v hv
                rcases List.mem_append.1 hu with hu | hu
                · exact hrt u hu v (by simp [hv])
                · simp at hu; subst hu; exact hth v hv)
              (by intro h; simp at h)
            refine ⟨r', e1, e2, fun i => ?_⟩
            rw [e3]; simp only [scoeff_append, scoeff_cons, scoeff_nil]; ring

/-- `&Sparse + &Sparse` on canonical operands -/
theorem sAdd_spec (s t : Terms F) (hs : SCanon s) (ht : SCanon t) :
    ∃ r, sAdd s t = .ok r ∧ SCanon r ∧ ∀ i, scoeff r i = scoeff s i + scoeff t i := by
  unfold sAdd
  by_cases hzs : sIsZero s = true
  · rw [if_pos hzs]
    exact ⟨t, rfl, ht, fun i => by rw [sIsZero_scoeff s hzs]; ring⟩
  · rw [if_neg hzs]
    by_cases hzt : sIsZero t = true
    · rw [if_pos hzt]
      exact ⟨s, rfl, hs, fun i => by rw [sIsZero_scoeff t hzt]; ring⟩
    · rw [if_neg hzt]
      have hs0 : s ≠ [] := fun h => hzs ((scanon_sIsZero s hs).2 h)
      have ht0 : t ≠ [] := fun h => hzt ((scanon_sIsZero t ht).2 h)
      obtain ⟨r', e1, e2, e3⟩ := sAddLoop_spec (s.length + t.length + 1) s t [] hs ht scanon_nil
        (by omega) (by simp) (by simp) (fun _ => Or.inl ⟨hs0, ht0⟩)
      exact ⟨r', e1, e2, fun i => by rw [e3]; simp⟩

theorem sNeg_spec (s : Terms F) :
    (SCanon s → SCanon (sNeg s)) ∧ ∀ i, scoeff (sNeg s) i = - scoeff s i := by
  constructor
  · intro hs
    unfold sNeg
    refine ⟨List.pairwise_map.2 (by simpa using hs.1), ?_⟩
    intro t ht
    obtain ⟨u, hu, rfl⟩ := List.mem_map.1 ht
    simpa using hs.2 u hu
  · intro i
    unfold sNeg
    induction s with
    | nil => simp
    | cons t s ih => simp only [List.map_cons, scoeff_cons, ih]; split_ifs <;> ring

theorem scoeff_map_mul (s : Terms F) (f : F) (i : Nat) :
    scoeff (s.map (fun u => (u.1, u.2 * f))) i = scoeff s i * f := by
  induction s with
  | nil => simp
  | cons t s ih => simp only [List.map_cons, scoeff_cons, ih]; split_ifs <;> ring

theorem sScale_spec (s : Terms F) (f : F) :
    (SCanon s → SCanon (sScale s f)) ∧ (∀ i, scoeff (sScale s f) i = scoeff s i * f) ∧
    (f = 0 → sScale s f = []) := by
  refine ⟨?_, ?_, ?_⟩
  · intro hs
    unfold sScale
    by_cases hz : (sIsZero s || decide (f = 0)) = true
    · rw [if_pos hz]; exact scanon_nil
    · rw [if_neg hz]
      have hf : f ≠ 0 := by
        intro h; apply hz; simp [h]
      refine ⟨List.pairwise_map.2 (by simpa using hs.1), ?_⟩
      intro t ht
      obtain ⟨u, hu, rfl⟩ := List.mem_map.1 ht
      exact mul_ne_zero (hs.2 u hu) hf
  · intro i
    unfold sScale
    by_cases hz : (sIsZero s || decide (f = 0)) = true
    · rw [if_pos hz]
      rw [Bool.or_eq_true] at hz
      rcases hz with hz | hz
      · rw [sIsZero_scoeff s hz]; simp
      · have : f = 0 := by simpa using hz
        rw [this]; simp
    · rw [if_neg hz, scoeff_map_mul]
  · intro hf; unfold sScale; simp [hf]

/-- `Sparse -= &Sparse` -/
theorem sSubAssign_spec (s t : Terms F) (hs : SCanon s) (ht : SCanon t) :
    ∃ r, sSubAssign s t = .ok r ∧ SCanon r ∧ ∀ i, scoeff r i = scoeff s i - scoeff t i := by
  obtain ⟨r, e1, e2, e3⟩ := sAdd_spec s (sNeg t) hs ((sNeg_spec t).1 ht)
  exact ⟨r, e1, e2, fun i => by rw [e3, (sNeg_spec t).2]; ring⟩

/-- `Sparse += (f, &Sparse)`, every `f` including `0` -/
theorem sAddAssignScaled_spec (s t : Terms F) (f : F) (hs : SCanon s) (ht : SCanon t) :
    ∃ r, sAddAssignScaled s f t = .ok r ∧ SCanon r ∧
      ∀ i, scoeff r i = scoeff s i + f * scoeff t i := by
  obtain ⟨r, e1, e2, e3⟩ := sAdd_spec s (sScale t f) hs ((sScale_spec t f).1 ht)
  exact ⟨r, e1, e2, fun i => by rw [e3, (sScale_spec t f).2.1]; ring⟩

/-! ### `sEvaluate` -/

theorem powWithTable_zero (fuel : Nat) (tbl : List F) (res : F) :
    powWithTable fuel tbl 0 res = some res := by
  cases fuel <;> simp [powWithTable]

theorem powWithTable_squarings (fuel e k : Nat) (y res : F) (h1 : e < fuel)
    (h2 : e < 2 ^ (k + 1)) :
    powWithTable fuel (squarings y k) e res = some (res * y ^ e) := by
  induction fuel generalizing e k y res with
  | zero => omega
  | succ fuel ih =>
    unfold powWithTable
    by_cases he : e = 0
    · simp [he]
    · rw [if_neg he]
      have hdiv : e / 2 < fuel := by omega
      by_cases hodd : e % 2 = 1
      · rw [if_pos hodd]
        cases k with
        | zero =>
          have : e = 1 := by simp at h2; omega
          subst this; simp [squarings, powWithTable_zero]
        | succ k =>
          simp only [squarings]
          rw [pow_succ] at h2
          rw [ih (e / 2) k (y * y) (res * y) hdiv (by omega)]
          congr 1
          have : e = 2 * (e / 2) + 1 := by omega
          conv_rhs => rw [this]
          rw [pow_succ, pow_mul]; ring
      · rw [if_neg hodd]
        cases k with
        | zero => simp at h2; omega
        | succ k =>
          simp only [squarings, List.tail_cons]
          rw [pow_succ] at h2
          rw [ih (e / 2) k (y * y) res hdiv (by omega)]
          congr 1
          have : e = 2 * (e / 2) := by omega
          conv_rhs => rw [this]
          rw [pow_mul]; ring

theorem lt_two_pow_bitLen (d : Nat) : d < 2 ^ (Poly.bitLen d - 1 + 1) := by
  unfold Poly.bitLen
  by_cases h : d = 0
  · simp [h]
  · rw [if_neg h]; simpa using Nat.lt_log2_self

theorem sEvaluate_fold (x : F) (k : Nat) (u : Terms F) (acc : F) (h : ∀ t ∈ u, t.1 < 2 ^ (k + 1)) :
    foldTerms (fun (acc : F) t =>
      match powWithTable (t.1 + 1) (squarings x k) t.1 1 with
      | some pw => .ok (acc + t.2 * pw)
      | none => .panic) u acc = .ok (acc + (u.map (fun t => t.2 * x ^ t.1)).sum) := by
  induction u generalizing acc with
  | nil => simp [foldTerms]
  | cons t u ih =>
    rw [foldTerms]
    rw [powWithTable_squarings (t.1 + 1) t.1 k x 1 (by omega) (h t (by simp))]
    simp only
    rw [ih _ (fun v hv => h v (by simp [hv]))]
    simp only [List.map_cons, List.sum_cons]; congr 1; ring

/-- `Polynomial::evaluate` (sparse) on a canonical operand: `Σ c·x^d`, never panics -/
theorem sEvaluate_spec (s : Terms F) (x : F) (hs : SCanon s) :
    sEvaluate s x = .ok ((s.map (fun t => t.2 * x ^ t.1)).sum) := by
  unfold sEvaluate
  by_cases hz : sIsZero s = true
  · rw [if_pos hz, (scanon_sIsZero s hs).1 hz]; rfl
  · rw [if_neg hz, sDegree_scanon s hs]
    simp only [ok_bind]
    have h := sEvaluate_fold x (Poly.bitLen (sdeg s) - 1) s 0 (fun t ht =>
      Nat.lt_of_le_of_lt (scanon_le_sdeg s hs t ht) (lt_two_pow_bitLen (sdeg s)))
    rw [zero_add] at h
    exact h

/-! ## 5. conversions and mixed dense / sparse operators -/

theorem length_resize (p : List F) (n : Nat) : (resize p n).length = n := by
  unfold resize; simp only [List.length_append, List.length_take, List.length_replicate]; omega

theorem coeffB_resize (p : List F) (n i : Nat) :
    coeffB (resize p n) i = if i < n then coeffB p i else 0 := by
  unfold resize
  rw [coeffB_append, coeffB_take, coeffB_replicate_zero, List.length_take]
  by_cases h1 : i < min n p.length
  · rw [if_pos h1]
  · rw [if_neg h1]
    by_cases h2 : i < n
    · rw [if_pos h2, coeffB_of_le p i (by omega)]
    · rw [if_neg h2]

/-- the "overwrite" loop of `sparseToDense` / `addAssignDS` on distinct degrees -/
theorem foldTerms_set (s : Terms F) (r0 : List F) (hs : s.Pairwise (fun a b => a.1 < b.1))
    (hlen : ∀ t ∈ s, t.1 < r0.length) (hz : ∀ t ∈ s, coeffB r0 t.1 = 0) :
    ∃ r, foldTerms (fun (r : List F) t => modifyAt (fun _ => t.2) r t.1) s r0 = .ok r ∧
      r.length = r0.length ∧ ∀ i, coeffB r i = coeffB r0 i + scoeff s i := by
  induction s generalizing r0 with
  | nil => exact ⟨r0, rfl, rfl, fun i => by simp⟩
  | cons t s ih =>
    obtain ⟨r1, e1, e2, e3⟩ := modifyAt_ok (fun _ => t.2) r0 t.1 (hlen t (by simp))
    have hp := List.pairwise_cons.1 hs
    obtain ⟨r, f1, f2, f3⟩ := ih r1 hp.2 (fun u hu => by rw [e2]; exact hlen u (by simp [hu]))
      (fun u hu => by
        rw [e3, if_neg (by have := hp.1 u hu; omega)]
        exact hz u (by simp [hu]))
    refine ⟨r, ?_, by rw [f2, e2], fun i => ?_⟩
    · rw [foldTerms, e1]; exact f1
    · rw [f3, e3, scoeff_cons]
      by_cases hi : i = t.1
      · subst hi; rw [if_pos rfl, if_pos rfl, hz t (by simp)]; ring
      · rw [if_neg hi, if_neg (fun h => hi h.symm)]; ring

/-- the loop of `Dense += &Sparse`: add inside the old vector, overwrite in the zero extension -/
theorem foldTerms_addset (lhs : Nat) (s : Terms F) (r0 : List F)
    (hs : s.Pairwise (fun a b => a.1 < b.1))
    (hlen : ∀ t ∈ s, t.1 < r0.length) (hz : ∀ t ∈ s, lhs < t.1 → coeffB r0 t.1 = 0) :
    ∃ r, foldTerms (fun (r : List F) t =>
        if t.1 ≤ lhs then modifyAt (fun c => c + t.2) r t.1
        else modifyAt (fun _ => t.2) r t.1) s r0 = .ok r ∧
      r.length = r0.length ∧ ∀ i, coeffB r i = coeffB r0 i + scoeff s i := by
  induction s generalizing r0 with
  | nil => exact ⟨r0, rfl, rfl, fun i => by simp⟩
  | cons t s ih =>
    have hp := List.pairwise_cons.1 hs
    have key : ∃ r1, (if t.1 ≤ lhs then modifyAt (fun c => c + t.2) r0 t.1
        else modifyAt (fun _ => t.2) r0 t.1) = .ok r1 ∧ r1.length = r0.length ∧
        ∀ j, coeffB r1 j = if j = t.1 then coeffB r0 t.1 + t.2 else coeffB r0 j := by
      by_cases hle : t.1 ≤ lhs
      · rw [if_pos hle]
        exact modifyAt_ok (fun c => c + t.2) r0 t.1 (hlen t (by simp))
      · rw [if_neg hle]
        obtain ⟨r1, e1, e2, e3⟩ := modifyAt_ok (fun _ => t.2) r0 t.1 (hlen t (by simp))
        refine ⟨r1, e1, e2, fun j => ?_⟩
        rw [e3, hz t (by simp) (by omega), zero_add]
    obtain ⟨r1, e1, e2, e3⟩ := key
    obtain ⟨r, f1, f2, f3⟩ := ih r1 hp.2 (fun u hu => by rw [e2]; exact hlen u (by simp [hu]))
      (fun u hu hl => by
        rw [e3, if_neg (by have := hp.1 u hu; omega)]
        exact hz u (by simp [hu]) hl)
    refine ⟨r, ?_, by rw [f2, e2], fun i => ?_⟩
    · rw [foldTerms, e1]; exact f1
    · rw [f3, e3, scoeff_cons]
      by_cases hi : i = t.1
      · subst hi; rw [if_pos rfl, if_pos rfl]; ring
      · rw [if_neg hi, if_neg (fun h => hi h.symm)]; ring

theorem sparseToDense_core (s : Terms F) (hs : SCanon s) :
    ∃ r, foldTerms (fun (r : List F) t => modifyAt (fun _ => t.2) r t.1) s
        (List.replicate (sdeg s + 1) 0) = .ok r ∧
      r.length = sdeg s + 1 ∧ ∀ i, coeffB r i = scoeff s i := by
  obtain ⟨r, e1, e2, e3⟩ := foldTerms_set s (List.replicate (sdeg s + 1) 0) hs.1
    (fun t ht => by have := scanon_le_sdeg s hs t ht; simp; omega) (fun t ht => by simp)
  exact ⟨r, e1, by simpa using e2, fun i => by rw [e3]; simp⟩

/-- `From<SparsePolynomial> for DensePolynomial` on a canonical operand -/
theorem sparseToDense_spec (s : Terms F) (hs : SCanon s) :
    ∃ r, sparseToDense s = .ok r ∧ CanonB r ∧ (∀ i, coeffB r i = scoeff s i) ∧
      r.length ≤ sdeg s + 1 := by
  obtain ⟨r, e1, e2, e3⟩ := sparseToDense_core s hs
  refine ⟨truncate r, ?_, truncate_canon r, fun i => by rw [coeffB_truncate, e3], ?_⟩
  · unfold sparseToDense
    rw [sDegree_scanon s hs]
    simp only [ok_bind, e1, pure_ok, fromCoefficientsVec]
  · rw [← e2]; exact truncate_length_le r

/-! ### `&Dense + &Sparse` -/

/-- loop body of `&Dense + &Sparse` -/
def addStep (r : List F) (t : Nat × F) : List F :=
  match modifyAt (fun c => c + t.2) r t.1 with
  | .ok r' => r'
  | .panic => r ++ List.replicate (t.1 - r.length) 0 ++ [t.2]

theorem coeffB_addStep (r : List F) (t : Nat × F) (i : Nat) :
    coeffB (addStep r t) i = coeffB r i + if t.1 = i then t.2 else 0 := by
  unfold addStep
  by_cases h : t.1 < r.length
  · obtain ⟨r', e1, _, e3⟩ := modifyAt_ok (fun c => c + t.2) r t.1 h
    rw [e1]; simp only; rw [e3]
    by_cases hi : i = t.1
    · subst hi; simp
    · rw [if_neg hi, if_neg (fun h => hi h.symm)]; ring
  · rw [modifyAt_panic _ r t.1 (by omega)]; simp only
    have hE : ∀ j, coeffB (r ++ List.replicate (t.1 - r.length) (0 : F)) j = coeffB r j := by
      intro j; rw [coeffB_append]
      by_cases hj : j < r.length
      · rw [if_pos hj]
      · rw [if_neg hj, coeffB_replicate_zero, coeffB_of_le r j (by omega)]
    rw [coeffB_append, hE]
    simp only [List.length_append, List.length_replicate]
    have hl : r.length + (t.1 - r.length) = t.1 := by omega
    rw [hl]
    by_cases h1 : i < t.1
    · rw [if_pos h1, if_neg (by omega)]; ring
    · rw [if_neg h1, coeffB_of_le r i (by omega)]
      by_cases h3 : t.1 = i
      · rw [if_pos h3, h3]; simp
      · rw [if_neg h3]
        obtain ⟨d, hd⟩ : ∃ d, i - t.1 = d + 1 := ⟨i - t.1 - 1, by omega⟩
        rw [hd]; simp

theorem coeffB_foldl_addStep (s : Terms F) (a : List F) (i : Nat) :
    coeffB (s.foldl addStep a) i = coeffB a i + scoeff s i := by
  induction s generalizing a with
  | nil => simp
  | cons t s ih => rw [List.foldl_cons, ih, coeffB_addStep, scoeff_cons]; ring

/-- `&Dense + &Sparse` -/
theorem addDS_spec (a : List F) (s : Terms F) (ha : CanonB a) (hs : SCanon s) :
    ∃ r, addDS a s = .ok r ∧ CanonB r ∧ ∀ i, coeffB r i = coeffB a i + scoeff s i := by
  unfold addDS
  by_cases hza : Poly.isZero a = true
  · rw [if_pos hza]
    obtain ⟨r, e1, e2, e3, _⟩ := sparseToDense_spec s hs
    exact ⟨r, e1, e2, fun i => by rw [e3, isZero_coeffB a hza]; ring⟩
  · rw [if_neg hza]
    by_cases hzs : sIsZero s = true
    · rw [if_pos hzs]
      exact ⟨a, rfl, ha, fun i => by rw [sIsZero_scoeff s hzs]; ring⟩
    · rw [if_neg hzs, sDegree_scanon s hs, degree_canon a ha]
      simp only [ok_bind, pure_ok]
      exact ⟨_, rfl, truncate_canon _, fun i => by
        rw [coeffB_truncate]; exact coeffB_foldl_addStep s a i⟩

/-- `Dense += &Sparse` -/
theorem addAssignDS_spec (a : List F) (s : Terms F) (ha : CanonB a) (hs : SCanon s) :
    ∃ r, addAssignDS a s = .ok r ∧ CanonB r ∧ ∀ i, coeffB r i = coeffB a i + scoeff s i := by
  unfold addAssignDS
  by_cases hzs : sIsZero s = true
  · rw [if_pos hzs]
    exact ⟨a, rfl, ha, fun i => by rw [sIsZero_scoeff s hzs]; ring⟩
  · rw [if_neg hzs]
    by_cases hza : Poly.isZero a = true
    · rw [if_pos hza, sDegree_scanon s hs]
      obtain ⟨r, e1, e2, e3⟩ := sparseToDense_core s hs
      simp only [ok_bind, e1, pure_ok]
      exact ⟨_, rfl, truncate_canon _, fun i => by
        rw [coeffB_truncate, e3, isZero_coeffB a hza]; ring⟩
    · rw [if_neg hza, sDegree_scanon s hs, degree_canon a ha]
      simp only [ok_bind]
      have ha0 : a ≠ [] := fun h => hza ((canon_isZero a ha).2 h)
      have hlen : 0 < a.length := List.length_pos_of_ne_nil ha0
      obtain ⟨r, e1, e2, e3⟩ := foldTerms_addset (a.length - 1) s
        (resize a (max (a.length - 1) (sdeg s) + 1)) hs.1
        (fun t ht => by
          rw [length_resize]; have := scanon_le_sdeg s hs t ht; omega)
        (fun t ht hl => by
          rw [coeffB_resize, coeffB_of_le a t.1 (by omega)]; simp)
      rw [e1]
      simp only [ok_bind, pure_ok]
      refine ⟨_, rfl, truncate_canon _, fun i => ?_⟩
      rw [coeffB_truncate, e3, coeffB_resize]
      by_cases hi : i < max (a.length - 1) (sdeg s) + 1
      · rw [if_pos hi]
      · rw [if_neg hi, coeffB_of_le a i (by omega)]

/-! ### `&Dense - &Sparse`, `Dense -= &Sparse` -/

/-- loop body of `subSparseLoop` -/
def subStep (r : List F) (t : Nat × F) : List F :=
  match modifyAt (fun c => c - t.2) r t.1 with
  | .ok r' => r'
  | .panic => resize r t.1 ++ [-t.2]

theorem coeffB_subStep (r : List F) (t : Nat × F) (i : Nat) :
    coeffB (subStep r t) i = coeffB r i - if t.1 = i then t.2 else 0 := by
  unfold subStep
  by_cases h : t.1 < r.length
  · obtain ⟨r', e1, _, e3⟩ := modifyAt_ok (fun c => c - t.2) r t.1 h
    rw [e1]; simp only; rw [e3]
    by_cases hi : i = t.1
    · subst hi; simp
    · rw [if_neg hi, if_neg (fun h => hi h.symm)]; ring
  · rw [modifyAt_panic _ r t.1 (by omega)]; simp only
    rw [coeffB_append, length_resize, coeffB_resize]
    by_cases h1 : i < t.1
    · rw [if_pos h1, if_pos h1, if_neg (by omega)]; ring
    · rw [if_neg h1, coeffB_of_le r i (by omega)]
      by_cases h3 : t.1 = i
      · rw [if_pos h3, h3]; simp
      · rw [if_neg h3]
        obtain ⟨d, hd⟩ : ∃ d, i - t.1 = d + 1 := ⟨i - t.1 - 1, by omega⟩
        rw [hd]; simp

theorem coeffB_subSparseLoop (s : Terms F) (a : List F) (i : Nat) :
    coeffB (subSparseLoop a s) i = coeffB a i - scoeff s i := by
  have : ∀ a : List F, coeffB (s.foldl subStep a) i = coeffB a i - scoeff s i := by
    induction s with
    | nil => intro a; simp
    | cons t s ih => intro a; rw [List.foldl_cons, ih, coeffB_subStep, scoeff_cons]; ring
  exact this a

/-- `Dense -= &Sparse`: total (no hypotheses needed for the coefficient law) -/
theorem subAssignDS_spec (a : List F) (s : Terms F) :
    CanonB (subAssignDS a s) ∧ ∀ i, coeffB (subAssignDS a s) i = coeffB a i - scoeff s i := by
  unfold subAssignDS
  exact ⟨truncate_canon _, fun i => by rw [coeffB_truncate, coeffB_subSparseLoop]⟩

/-- `&Dense - &Sparse` -/
theorem subDS_spec (a : List F) (s : Terms F) (ha : CanonB a) (hs : SCanon s) :
    ∃ r, subDS a s = .ok r ∧ CanonB r ∧ ∀ i, coeffB r i = coeffB a i - scoeff s i := by
  unfold subDS
  by_cases hza : Poly.isZero a = true
  · rw [if_pos hza]
    obtain ⟨r, e1, e2, e3, _⟩ := sparseToDense_spec (sNeg s) ((sNeg_spec s).1 hs)
    exact ⟨r, e1, e2, fun i => by rw [e3, (sNeg_spec s).2, isZero_coeffB a hza]; ring⟩
  · rw [if_neg hza]
    by_cases hzs : sIsZero s = true
    · rw [if_pos hzs]
      exact ⟨a, rfl, ha, fun i => by rw [sIsZero_scoeff s hzs]; ring⟩
    · rw [if_neg hzs]
      exact ⟨_, rfl, truncate_canon _, fun i => by rw [coeffB_truncate, coeffB_subSparseLoop]⟩

/-! ## 6. evaluation over a domain, interpolation -/

/-- `Σ_{i < len} coeff p i · x^i` -/
def peval (p : List F) (x : F) : F := ∑ i ∈ Finset.range p.length, coeffB p i * x ^ i

@[simp] theorem horner_nil (x : F) : horner ([] : List F) x = 0 := rfl
@[simp] theorem horner_cons (c : F) (cs : List F) (x : F) :
    horner (c :: cs) x = horner cs x * x + c := rfl

theorem horner_eq_peval (p : List F) (x : F) : horner p x = peval p x := by
  induction p with
  | nil => simp [peval]
  | cons c cs ih =>
    rw [horner_cons, ih]
    unfold peval
    rw [List.length_cons, Finset.sum_range_succ', Finset.sum_mul]
    simp only [coeffB_cons_succ, coeffB_cons_zero, pow_zero, mul_one, pow_succ]
    congr 1
    apply Finset.sum_congr rfl; intros; ring

theorem horner_append (p q : List F) (x : F) :
    horner (p ++ q) x = horner p x + x ^ p.length * horner q x := by
  induction p with
  | nil => simp
  | cons c cs ih => simp only [List.cons_append, horner_cons, ih, List.length_cons, pow_succ]; ring

@[simp] theorem horner_replicate_zero (n : Nat) (x : F) : horner (List.replicate n (0 : F)) x = 0 := by
  induction n with
  | zero => rfl
  | succ n ih => simp [List.replicate_succ, ih]

theorem horner_resize (p : List F) (n : Nat) (x : F) :
    horner (resize p n) x = horner (p.take n) x := by
  unfold resize; rw [horner_append]; simp

theorem horner_isZero (p : List F) (x : F) (h : Poly.isZero p = true) : horner p x = 0 := by
  rw [isZero_iff] at h
  induction p with
  | nil => rfl
  | cons c cs ih =>
    rw [horner_cons, ih (fun d hd => h d (by simp [hd])), h c (by simp)]; ring

theorem length_zipInto (f : F → F → F) (a b : List F) : (zipInto f a b).length = a.length := by
  induction a generalizing b with
  | nil => simp [zipInto]
  | cons x xs ih =>
    cases b with
    | nil => simp [zipInto]
    | cons y ys => simp [zipInto, ih]

theorem horner_zipInto (f : F → F → F) (op : F) (hf : ∀ a b, f a b = a + op * b)
    (first ch : List F) (x : F) (h : ch.length ≤ first.length) :
    horner (zipInto f first ch) x = horner first x + op * horner ch x := by
  induction first generalizing ch with
  | nil =>
    cases ch with
    | nil => simp [zipInto]
    | cons _ _ => simp at h
  | cons a as ih =>
    cases ch with
    | nil => simp [zipInto]
    | cons b bs =>
      simp only [zipInto, horner_cons, hf]
      rw [ih bs (by simpa using h)]; ring

/-- weighted sum of the chunk values: `Σ_j c^(i+j) · chunk_j(x)` -/
def evalChunks (x c : F) : Nat → List (List F) → F
  | _, [] => 0
  | i, ch :: chs => c ^ i * horner ch x + evalChunks x c (i + 1) chs

theorem chunksOf_nil (n fuel : Nat) : chunksOf n fuel ([] : List F) = [] := by
  cases fuel <;> simp [chunksOf]

theorem chunksOf_cons (n fuel : Nat) (l : List F) (h : l ≠ []) :
    chunksOf n (fuel + 1) l = l.take n :: chunksOf n fuel (l.drop n) := by
  rw [chunksOf]; simp [h]

theorem horner_take_drop (n : Nat) (l : List F) (x : F) :
    horner l x = horner (l.take n) x + x ^ (min n l.length) * horner (l.drop n) x := by
  conv_lhs => rw [← List.take_append_drop n l]
  rw [horner_append, List.length_take]

/-- splitting into chunks of `n` and weighting chunk `j` by `(x^n)^j` is evaluation -/
theorem evalChunks_chunksOf (n : Nat) (hn : 0 < n) (x c : F) (hx : x ^ n = c) (fuel : Nat)
    (l : List F) (i : Nat) (hl : l.length ≤ fuel) :
    evalChunks x c i (chunksOf n fuel l) = c ^ i * horner l x := by
  induction fuel generalizing l i with
  | zero =>
    have : l = [] := List.length_eq_zero_iff.1 (by omega)
    subst this; simp [chunksOf, evalChunks]
  | succ fuel ih =>
    by_cases hne : l = []
    · subst hne; rw [chunksOf_nil]; simp [evalChunks]
    · rw [chunksOf_cons n fuel l hne, evalChunks]
      have hlen : 0 < l.length := List.length_pos_of_ne_nil hne
      rw [ih (l.drop n) (i + 1) (by rw [List.length_drop]; omega), horner_take_drop n l x]
      by_cases hle : n ≤ l.length
      · rw [Nat.min_eq_left hle, hx]; ring
      · have : l.drop n = [] := List.drop_eq_nil_of_le (by omega)
        rw [this]; simp

theorem chunksOf_length_le (n fuel : Nat) (l : List F) :
    ∀ ch ∈ chunksOf n fuel l, ch.length ≤ n := by
  induction fuel generalizing l with
  | zero => simp [chunksOf]
  | succ fuel ih =>
    by_cases hne : l = []
    · subst hne; rw [chunksOf_nil]; simp
    · rw [chunksOf_cons n fuel l hne]
      intro ch hch
      rcases List.mem_cons.1 hch with rfl | hch
      · rw [List.length_take]; omega
      · exact ih _ ch hch

theorem foldChunks_spec (D : Domain F) (x : F) (hx : x ^ D.size = D.offset ^ D.size) (i : Nat)
    (first : List F) (chs : List (List F)) (hlen : ∀ ch ∈ chs, ch.length ≤ first.length) :
    horner (foldChunks D i first chs) x
      = horner first x + evalChunks x (D.offset ^ D.size) (i + 1) chs ∧
    (foldChunks D i first chs).length = first.length := by
  induction chs generalizing i first with
  | nil => simp [foldChunks, evalChunks]
  | cons ch chs ih =>
    rw [foldChunks]
    simp only
    have hch : ch.length ≤ first.length := hlen ch (by simp)
    have key : ∃ first', (if D.offset = 1 then zipInto (· + ·) first ch
        else zipInto (fun x y => x + Poly.pow D.offset ((i + 1) * D.size) * y) first ch) = first' ∧
        first'.length = first.length ∧
        horner first' x = horner first x + (D.offset ^ D.size) ^ (i + 1) * horner ch x := by
      by_cases h1 : D.offset = 1
      · rw [if_pos h1]
        refine ⟨_, rfl, length_zipInto _ _ _, ?_⟩
        rw [horner_zipInto (· + ·) 1 (fun a b => by ring) first ch x hch, h1]; simp
      · rw [if_neg h1]
        refine ⟨_, rfl, length_zipInto _ _ _, ?_⟩
        rw [horner_zipInto _ (Poly.pow D.offset ((i + 1) * D.size)) (fun a b => rfl) first ch x hch,
          pow_eq, pow_mul']
    obtain ⟨first', e1, e2, e3⟩ := key
    rw [e1]
    have := ih (i + 1) first' (fun c hc => by rw [e2]; exact hlen c (by simp [hc]))
    refine ⟨?_, by rw [this.2, e2]⟩
    rw [this.1, e3, evalChunks]; ring

theorem elementsAux_eq (g : F) (n : Nat) (cur : F) :
    elementsAux g n cur = (List.range n).map (fun k => cur * g ^ k) := by
  induction n generalizing cur with
  | zero => rfl
  | succ n ih =>
    rw [elementsAux, ih, List.range_succ_eq_map, List.map_cons, List.map_map]
    simp only [pow_zero, mul_one, List.cons.injEq, true_and]
    apply List.map_congr_left
    intro k _
    simp only [Function.comp, pow_succ]; ring

theorem elements_eq (D : Domain F) :
    D.elements = (List.range D.size).map (fun k => D.offset * D.gen ^ k) := by
  unfold Domain.elements; rw [elementsAux_eq]

theorem fftInPlace_eq (D : Domain F) (v : List F) :
    fftInPlace D v
      = (List.range D.size).map (fun k => horner (v.take D.size) (D.offset * D.gen ^ k)) := by
  unfold fftInPlace
  simp only
  rw [elements_eq, List.map_map]
  apply List.map_congr_left
  intro k _
  simp only [Function.comp]
  by_cases h : v.length * 4 ≤ D.size
  · rw [if_pos h, List.take_of_length_le (by omega)]
  · rw [if_neg h, horner_resize]

theorem point_pow (D : Domain F) (hg : D.gen ^ D.size = 1) (k : Nat) :
    (D.offset * D.gen ^ k) ^ D.size = D.offset ^ D.size := by
  rw [mul_pow, ← pow_mul, mul_comm k, pow_mul, hg, one_pow, mul_one]

/-- the folded first chunk has the same values on the coset as the whole vector -/
theorem fold_value (D : Domain F) (hn : D.size ≠ 0) (x : F) (hx : x ^ D.size = D.offset ^ D.size)
    (a : List F) (ha : a ≠ []) :
    ∃ first rest, chunksOf D.size a.length a = first :: rest ∧ first = a.take D.size ∧
      (foldChunks D 0 first rest).length = min D.size a.length ∧
      horner (foldChunks D 0 first rest) x = horner a x := by
  obtain ⟨k, hk⟩ : ∃ k, a.length = k + 1 :=
    ⟨a.length - 1, by have := List.length_pos_of_ne_nil ha; omega⟩
  refine ⟨a.take D.size, chunksOf D.size k (a.drop D.size), ?_, rfl, ?_, ?_⟩
  · rw [hk, chunksOf_cons _ _ _ ha]
  all_goals
    have hlen : ∀ ch ∈ chunksOf D.size k (a.drop D.size), ch.length ≤ (a.take D.size).length := by
      intro ch hch
      by_cases hle : a.length ≤ D.size
      · rw [List.drop_eq_nil_of_le hle, chunksOf_nil] at hch; simp at hch
      · have := chunksOf_length_le _ _ _ ch hch
        rw [List.length_take]; omega
    have hf := foldChunks_spec D x hx 0 (a.take D.size) _ hlen
  · rw [hf.2, List.length_take]
  · rw [hf.1]
    have := evalChunks_chunksOf D.size (by omega) x (D.offset ^ D.size) hx (k + 1) a 0 (by omega)
    rw [chunksOf_cons _ _ _ ha, evalChunks] at this
    simp only [pow_zero, one_mul, Nat.zero_add] at this
    exact this

theorem replicate_zero_eq (n : Nat) (f : Nat → F) (h : ∀ k, f k = 0) :
    List.replicate n (0 : F) = (List.range n).map f := by
  have : (List.range n).map f = (List.range n).map (fun _ => (0 : F)) :=
    List.map_congr_left (fun k _ => h k)
  rw [this, List.map_const', List.length_range]

/-- `eval_over_domain_helper` (borrowed dense operand), any operand length -/
theorem evaluateOverDomainRef_spec (D : Domain F) (a : List F) (hn : D.size ≠ 0)
    (hg : D.gen ^ D.size = 1) :
    evaluateOverDomainRef D a
      = .ok ((List.range D.size).map (fun k => peval a (D.offset * D.gen ^ k))) := by
  unfold evaluateOverDomainRef
  by_cases hz : Poly.isZero a = true
  · rw [if_pos hz]
    congr 1
    exact replicate_zero_eq _ _ (fun k => by rw [← horner_eq_peval, horner_isZero a _ hz])
  · rw [if_neg hz, if_neg hn]
    have ha : a ≠ [] := by intro h; subst h; exact hz rfl
    obtain ⟨first, rest, e1, e2, e3, _⟩ := fold_value D hn (D.offset) rfl a ha
    rw [e1]; simp only
    rw [fftInPlace_eq]
    congr 1
    apply List.map_congr_left
    intro k _
    obtain ⟨first', rest', e1', _, _, e4'⟩ :=
      fold_value D hn (D.offset * D.gen ^ k) (point_pow D hg k) a ha
    rw [e1] at e1'
    obtain ⟨rfl, rfl⟩ : first = first' ∧ rest = rest' := by simpa using e1'
    rw [List.take_of_length_le (by rw [e3]; omega), e4', horner_eq_peval]

/-- `eval_over_domain_helper` (owned dense operand), any operand length -/
theorem evaluateOverDomainOwned_spec (D : Domain F) (a : List F) (hn : D.size ≠ 0)
    (hg : D.gen ^ D.size = 1) :
    evaluateOverDomainOwned D a
      = .ok ((List.range D.size).map (fun k => peval a (D.offset * D.gen ^ k))) := by
  unfold evaluateOverDomainOwned
  by_cases hz : Poly.isZero a = true
  · rw [if_pos hz]
    congr 1
    exact replicate_zero_eq _ _ (fun k => by rw [← horner_eq_peval, horner_isZero a _ hz])
  · rw [if_neg hz, if_neg hn]
    have ha : a ≠ [] := by intro h; subst h; exact hz rfl
    obtain ⟨first, rest, e1, e2, e3, _⟩ := fold_value D hn (D.offset) rfl a ha
    rw [e1]; simp only
    rw [fftInPlace_eq]
    congr 1
    apply List.map_congr_left
    intro k _
    obtain ⟨first', rest', e1', _, _, e4'⟩ :=
      fold_value D hn (D.offset * D.gen ^ k) (point_pow D hg k) a ha
    rw [e1] at e1'
    obtain ⟨rfl, rfl⟩ : first = first' ∧ rest = rest' := by simpa using e1'
    have : (foldChunks D 0 first rest ++ a.drop D.size).take D.size = foldChunks D 0 first rest := by
      by_cases hle : a.length ≤ D.size
      · rw [List.drop_eq_nil_of_le hle, List.append_nil, List.take_of_length_le (by rw [e3]; omega)]
      · exact List.take_left' (by rw [e3]; omega)
    rw [this, e4', horner_eq_peval]

/-- `eval_over_domain_helper` (sparse operand) -/
theorem sEvaluateOverDomain_spec (D : Domain F) (s : Terms F) (hs : SCanon s) :
    sEvaluateOverDomain D s = .ok ((List.range D.size).map
      (fun k => (s.map (fun t => t.2 * (D.offset * D.gen ^ k) ^ t.1)).sum)) := by
  unfold sEvaluateOverDomain
  rw [elements_eq]
  generalize List.range D.size = l
  induction l with
  | nil => rfl
  | cons k l ih =>
    simp only [List.map_cons, List.foldr_cons]
    rw [ih, sEvaluate_spec s _ hs]
    rfl

theorem length_ifftInPlace (D : Domain F) (ev : List F) : (ifftInPlace D ev).length = D.size := by
  unfold ifftInPlace; simp

/-- `Evaluations::interpolate`: canonical, fewer than `size + 1` coefficients -/
theorem interpolate_spec (D : Domain F) (ev : List F) :
    CanonB (interpolate D ev) ∧ (interpolate D ev).length ≤ D.size := by
  unfold interpolate fromCoefficientsVec
  refine ⟨truncate_canon _, ?_⟩
  have := truncate_length_le (ifftInPlace D ev)
  rwa [length_ifftInPlace] at this

/-! ## 7. `divide_with_q_and_r` for every mix of dense / sparse operands -/

theorem foldTerms_sub (cq : F) (qd : Nat) (bterms : Terms F) (r : List F)
    (hlen : ∀ t ∈ bterms, qd + t.1 < r.length) :
    ∃ r', foldTerms (fun (r : List F) t => modifyAt (fun c => c - cq * t.2) r (qd + t.1)) bterms r
        = .ok r' ∧ r'.length = r.length ∧
      ∀ j, coeffB r' j = coeffB r j - cq * (if qd ≤ j then scoeff bterms (j - qd) else 0) := by
  induction bterms generalizing r with
  | nil => exact ⟨r, rfl, rfl, fun j => by simp⟩
  | cons t ts ih =>
    obtain ⟨r1, e1, e2, e3⟩ := modifyAt_ok (fun c => c - cq * t.2) r (qd + t.1) (hlen t (by simp))
    obtain ⟨r', f1, f2, f3⟩ := ih r1 (fun u hu => by rw [e2]; exact hlen u (by simp [hu]))
    refine ⟨r', ?_, by rw [f2, e2], fun j => ?_⟩
    · rw [foldTerms, e1]; exact f1
    · rw [f3, e3, scoeff_cons]
      by_cases hj : j = qd + t.1
      · subst hj
        rw [if_pos rfl, if_pos (by omega), if_pos (by omega), if_pos (by omega)]; ring
      · rw [if_neg hj]
        by_cases hle : qd ≤ j
        · rw [if_pos hle, if_pos hle, if_neg (by omega)]; ring
        · rw [if_neg hle, if_neg hle]

theorem sconv_congr_left (f f' g : Nat → F) (k : Nat) (h : ∀ i, f i = f' i) :
    sconv f g k = sconv f' g k := by
  have : f = f' := funext h
  rw [this]

/-- the `while` loop of `divide_with_q_and_r`, for an arbitrary divisor term list -/
theorem divLoop_spec (db : Nat) (inv : F) (bterms : Terms F)
    (hdeg : ∀ t ∈ bterms, t.1 ≤ db) (hinv : scoeff bterms db * inv = 1)
    (A : Nat → F) (fuel : Nat) (q r : List F) (m : Nat)
    (hfuel : r.length < fuel) (hr : CanonB r) (hrm : r.length ≤ m + db) (hqm : m ≤ q.length)
    (hq0 : ∀ j, j < m → coeffB q j = 0)
    (hA : ∀ k, A k = sconv (coeffB q) (scoeff bterms) k + coeffB r k) :
    ∃ q' r', divLoop db inv bterms fuel q r = .ok (q', r') ∧ q'.length = q.length ∧ CanonB r' ∧
      (r' = [] ∨ r'.length - 1 < db) ∧
      ∀ k, A k = sconv (coeffB q') (scoeff bterms) k + coeffB r' k := by
  induction fuel generalizing q r m with
  | zero => omega
  | succ fuel ih =>
    rw [divLoop]
    by_cases hz : Poly.isZero r = true
    · rw [if_pos hz]
      exact ⟨q, r, rfl, rfl, hr, Or.inl ((canon_isZero r hr).1 hz), hA⟩
    · rw [if_neg hz, degree_canon r hr]
      simp only [ok_bind]
      by_cases hlt : r.length - 1 < db
      · rw [if_pos hlt]
        exact ⟨q, r, rfl, rfl, hr, Or.inr hlt, hA⟩
      · rw [if_neg hlt]
        have hne : r ≠ [] := fun h => hz ((canon_isZero r hr).2 h)
        have hlen : 0 < r.length := List.length_pos_of_ne_nil hne
        cases hgl : r.getLast? with
        | none => rw [List.getLast?_eq_none_iff] at hgl; exact absurd hgl hne
        | some lc =>
          simp only [ok_bind]
          have hlc : coeffB r (r.length - 1) = lc := coeffB_getLast r lc hgl
          have hqd : r.length - 1 - db < q.length := by omega
          obtain ⟨q1, e1, e2, e3⟩ := modifyAt_ok (fun _ => lc * inv) q (r.length - 1 - db) hqd
          rw [e1]; simp only [ok_bind]
          obtain ⟨r1, f1, f2, f3⟩ := foldTerms_sub (lc * inv) (r.length - 1 - db) bterms r
            (fun t ht => by have := hdeg t ht; omega)
          rw [f1]; simp only [ok_bind]
          have hz1 : ∀ j, r.length - 1 ≤ j → coeffB r1 j = 0 := by
            intro j hj
            rw [f3, if_pos (by omega)]
            by_cases hj' : j = r.length - 1
            · subst hj'
              have : r.length - 1 - (r.length - 1 - db) = db := by omega
              rw [this, hlc]
              have : lc * inv * scoeff bterms db = lc * (scoeff bterms db * inv) := by ring
              rw [this, hinv]; ring
            · rw [coeffB_of_le r j (by omega), scoeff_eq_zero_of_forall_ne]
              · ring
              · intro t ht; have := hdeg t ht; omega
          have htl : (truncate r1).length ≤ r.length - 1 := truncate_length_le_of r1 _ hz1
          obtain ⟨q', r', g1, g2, g3, g4, g5⟩ := ih q1 (truncate r1) (r.length - 1 - db)
            (by omega) (truncate_canon r1) (by omega) (by omega)
            (fun j hj => by rw [e3, if_neg (by omega)]; exact hq0 j (by omega))
            (fun k => by
              rw [hA k, coeffB_truncate, f3]
              have hq1 : ∀ i, coeffB q1 i
                  = coeffB q i + (if r.length - 1 - db = i then lc * inv else 0) := by
                intro i
                rw [e3]
                by_cases hi : i = r.length - 1 - db
                · subst hi; rw [if_pos rfl, if_pos rfl, hq0 _ (by omega)]; ring
                · rw [if_neg hi, if_neg (fun h => hi h.symm)]; ring
              rw [sconv_congr_left _ _ _ k hq1, sconv_add_left, sconv_delta]
              by_cases hle : r.length - 1 - db ≤ k
              · rw [if_pos hle, if_pos hle]; ring
              · rw [if_neg hle, if_neg hle]; ring)
          exact ⟨q', r', g1, by rw [g2, e2], g3, g4, g5⟩

/-! ### the two representations, uniformly -/

/-- coefficient function of a dense-or-sparse operand -/
def dcoeff : DoS F → Nat → F
  | .d p => coeffB p
  | .s p => scoeff p

/-- canonical dense-or-sparse operand -/
def DCanon : DoS F → Prop
  | .d p => CanonB p
  | .s p => SCanon p

/-- degree of a canonical dense-or-sparse operand -/
def ddeg : DoS F → Nat
  | .d p => p.length - 1
  | .s p => sdeg p

theorem scoeff_enumFrom (p : List F) (j i : Nat) :
    scoeff (enumFrom p j) i = if j ≤ i then coeffB p (i - j) else 0 := by
  induction p generalizing j with
  | nil => simp [enumFrom]
  | cons c cs ih =>
    rw [enumFrom, scoeff_cons, ih]
    by_cases h1 : j = i
    · subst h1; simp
    · by_cases h2 : j ≤ i
      · have h3 : j + 1 ≤ i := by omega
        obtain ⟨d, rfl⟩ : ∃ d, i = j + 1 + d := ⟨i - (j + 1), by omega⟩
        have e1 : j + 1 + d - j = d + 1 := by omega
        have e2 : j + 1 + d - (j + 1) = d := by omega
        simp [h1, h2, h3, e1, e2]
      · have h3 : ¬ j + 1 ≤ i := by omega
        simp [h1, h2, h3]

theorem mem_enumFrom (p : List F) (j : Nat) : ∀ t ∈ enumFrom p j, t.1 < j + p.length := by
  induction p generalizing j with
  | nil => simp [enumFrom]
  | cons c cs ih =>
    intro t ht
    rw [enumFrom] at ht
    rcases List.mem_cons.1 ht with rfl | ht
    · simp
    · have := ih (j + 1) t ht; simp only [List.length_cons]; omega

theorem dos_isZero_coeff (x : DoS F) (h : x.isZero = true) (i : Nat) : dcoeff x i = 0 := by
  cases x with
  | d p => exact isZero_coeffB p h i
  | s p => exact sIsZero_scoeff p h i

theorem dos_degree (x : DoS F) (hx : DCanon x) : x.degree = .ok (ddeg x) := by
  cases x with
  | d p => exact degree_canon p hx
  | s p => exact sDegree_scanon p hx

theorem dos_toDense (x : DoS F) (hx : DCanon x) :
    ∃ r, x.toDense = .ok r ∧ CanonB r ∧ (∀ i, coeffB r i = dcoeff x i) ∧ r.length ≤ ddeg x + 1 := by
  cases x with
  | d p => exact ⟨p, rfl, hx, fun i => rfl, by simp [ddeg]; omega⟩
  | s p => exact sparseToDense_spec p hx

theorem dos_terms_coeff (x : DoS F) (i : Nat) : scoeff x.iterWithIndex i = dcoeff x i := by
  cases x with
  | d p => simp [DoS.iterWithIndex, dcoeff, scoeff_enumFrom]
  | s p => rfl

theorem dos_leading (x : DoS F) (hx : DCanon x) (hz : x.isZero = false) :
    ∃ lc, x.leadingCoefficient = some lc ∧ lc ≠ 0 ∧ dcoeff x (ddeg x) = lc ∧
      ∀ t ∈ x.iterWithIndex, t.1 ≤ ddeg x := by
  cases x with
  | d p =>
    have hx' : CanonB p := hx
    have hne : p ≠ [] := by
      intro h; subst h; simp [DoS.isZero, Poly.isZero] at hz
    cases hgl : p.getLast? with
    | none => rw [List.getLast?_eq_none_iff] at hgl; exact absurd hgl hne
    | some lc =>
      refine ⟨lc, hgl, fun h => hx' (h ▸ hgl), coeffB_getLast p lc hgl, ?_⟩
      intro t ht
      have := mem_enumFrom p 0 t ht
      have := List.length_pos_of_ne_nil hne
      simp only [ddeg]; omega
  | s p =>
    have hx' : SCanon p := hx
    have hne : p ≠ [] := by
      intro h; subst h; simp [DoS.isZero, sIsZero] at hz
    cases hgl : p.getLast? with
    | none => rw [List.getLast?_eq_none_iff] at hgl; exact absurd hgl hne
    | some l =>
      refine ⟨l.2, by simp [DoS.leadingCoefficient, hgl],
        hx'.2 l (List.mem_of_getLast? hgl), ?_, scanon_le_sdeg p hx'⟩
      have hd : sdeg p = l.1 := by simp [sdeg, hgl]
      simp only [ddeg, dcoeff, hd]
      obtain ⟨init, rfl⟩ : ∃ init, p = init ++ [l] :=
        ⟨p.dropLast, (List.dropLast_append_getLast? l (by simpa using hgl)).symm⟩
      rw [scoeff_append, scoeff_singleton, if_pos rfl, scoeff_eq_zero_of_forall_ne, zero_add]
      intro t ht
      have := (List.pairwise_append.1 hx'.1).2.2 t ht l (by simp)
      omega

/-- `divide_with_q_and_r` on canonical operands with a non-zero divisor, all four mixes -/
theorem divideWithQAndR_spec (a b : DoS F) (ha : DCanon a) (hb : DCanon b)
    (hbz : b.isZero = false) :
    ∃ q r, divideWithQAndR a b = .ok (q, r) ∧ CanonB q ∧ CanonB r ∧
      (∀ k, dcoeff a k = sconv (coeffB q) (dcoeff b) k + coeffB r k) ∧
      (r = [] ∨ r.length - 1 < ddeg b) := by
  unfold divideWithQAndR
  by_cases haz : a.isZero = true
  · rw [if_pos haz]
    refine ⟨[], [], rfl, canon_nil, canon_nil, fun k => ?_, Or.inl rfl⟩
    rw [dos_isZero_coeff a haz, sconv_zero_left _ _ _ (fun i => coeffB_nil i)]; simp
  · rw [if_neg haz, hbz]
    simp only [Bool.false_eq_true, if_false]
    rw [dos_degree a ha, dos_degree b hb]
    simp only [ok_bind]
    obtain ⟨r, e1, e2, e3, e4⟩ := dos_toDense a ha
    rw [e1]
    by_cases hlt : ddeg a < ddeg b
    · rw [if_pos hlt]
      simp only [ok_bind, pure_ok]
      refine ⟨[], r, rfl, canon_nil, e2, fun k => ?_, ?_⟩
      · rw [e3, sconv_zero_left _ _ _ (fun i => coeffB_nil i)]; simp
      · by_cases hr : r = []
        · exact Or.inl hr
        · have := List.length_pos_of_ne_nil hr
          exact Or.inr (by omega)
    · rw [if_neg hlt]
      simp only [ok_bind]
      obtain ⟨lc, l1, l2, l3, l4⟩ := dos_leading b hb hbz
      rw [l1]; simp only
      rw [if_neg l2]
      have hdb : scoeff b.iterWithIndex (ddeg b) * lc⁻¹ = 1 := by
        rw [dos_terms_coeff, l3]; exact mul_inv_cancel₀ l2
      obtain ⟨q', r', g1, g2, g3, g4, g5⟩ := divLoop_spec (ddeg b) lc⁻¹ b.iterWithIndex l4 hdb
        (dcoeff a) (r.length + 1) (List.replicate (ddeg a - ddeg b + 1) 0) r
        (ddeg a - ddeg b + 1) (by omega) e2 (by omega) (by simp) (fun j _ => by simp)
        (fun k => by
          rw [e3, sconv_zero_left _ _ _ (fun i => coeffB_replicate_zero _ i)]; simp)
      rw [g1]
      simp only [ok_bind, pure_ok, fromCoefficientsVec]
      refine ⟨truncate q', r', rfl, truncate_canon q', g3, fun k => ?_, g4⟩
      rw [g5 k, sconv_congr_left _ _ _ k (coeffB_truncate q')]
      have : scoeff b.iterWithIndex = dcoeff b := funext (dos_terms_coeff b)
      rw [this]

/-! ## 8. small facts used by the property file -/

theorem sdeg_nil : sdeg ([] : Terms F) = 0 := rfl

theorem sdeg_concat (init : Terms F) (t : Nat × F) : sdeg (init ++ [t]) = t.1 := by
  simp [sdeg]

theorem dos_isZero_d (b : List F) (hb : CanonB b) (h0 : b ≠ []) : (DoS.d b).isZero = false := by
  cases h : (DoS.d b).isZero with
  | false => rfl
  | true => exact absurd ((canon_isZero b hb).1 h) h0

theorem dos_isZero_s (t : Terms F) (ht : SCanon t) (h0 : t ≠ []) : (DoS.s t).isZero = false := by
  cases h : (DoS.s t).isZero with
  | false => rfl
  | true => exact absurd ((scanon_sIsZero t ht).1 h) h0

/-! ## 9. interpolation takes the given values (the naive inverse DFT of the model) -/

theorem ofNat_eq (n : Nat) : (Poly.ofNat n : F) = (n : F) := by
  induction n with
  | zero => simp [Poly.ofNat]
  | succ n ih => simp [Poly.ofNat, ih]

theorem horner_truncate (p : List F) (x : F) : horner (truncate p) x = horner p x := by
  induction p with
  | nil => rfl
  | cons c cs ih =>
    unfold truncate
    cases h : truncate cs with
    | nil =>
      rw [h] at ih
      by_cases hc : c = 0
      · simp [hc, ← ih]
      · simp [hc, ← ih]
    | cons t ts =>
      rw [h] at ih
      simp only [horner_cons] at ih ⊢
      rw [ih]

theorem foldl_running_pow (y : F) (l : List F) (acc pw : F) :
    (l.foldl (fun (st : F × F) e => (st.1 + e * st.2, st.2 * y)) (acc, pw)).1
      = acc + pw * horner l y := by
  induction l generalizing acc pw with
  | nil => simp
  | cons e l ih => rw [List.foldl_cons, ih, horner_cons]; ring

theorem coeffB_map_range (n : Nat) (f : Nat → F) (i : Nat) :
    coeffB ((List.range n).map f) i = if i < n then f i else 0 := by
  unfold coeffB
  by_cases h : i < n
  · rw [if_pos h]; simp [List.getD_eq_getElem?_getD, h]
  · rw [if_neg h]; simp [List.getD_eq_getElem?_getD, h]

theorem peval_map_range (n : Nat) (f : Nat → F) (x : F) :
    peval ((List.range n).map f) x = ∑ j ∈ Finset.range n, f j * x ^ j := by
  unfold peval
  rw [List.length_map, List.length_range]
  apply Finset.sum_congr rfl
  intro j hj
  rw [coeffB_map_range, if_pos (Finset.mem_range.1 hj)]

theorem geom_orth (g : F) (n : Nat) (hg : g ^ n = 1)
    (hprim : ∀ i, 0 < i → i < n → g ^ i ≠ 1) (k i : Nat) (hk : k < n) (hi : i < n) :
    ∑ j ∈ Finset.range n, (g ^ k * g⁻¹ ^ i) ^ j = if i = k then (n : F) else 0 := by
  have hg0 : g ≠ 0 := by
    intro h; rw [h, zero_pow (by omega)] at hg; exact zero_ne_one hg
  have hinv : ∀ m, g⁻¹ ^ m * g ^ m = 1 := by
    intro m; rw [← mul_pow, inv_mul_cancel₀ hg0, one_pow]
  by_cases hik : i = k
  · subst hik
    rw [if_pos rfl]
    have : g ^ i * g⁻¹ ^ i = 1 := by rw [mul_comm]; exact hinv i
    rw [this]; simp
  · rw [if_neg hik]
    set ζ := g ^ k * g⁻¹ ^ i with hζ
    have hζn : ζ ^ n = 1 := by
      rw [hζ, mul_pow, ← pow_mul, ← pow_mul, mul_comm k n, mul_comm i n, pow_mul, pow_mul, hg,
        inv_pow, hg]; simp
    have hζ1 : ζ ≠ 1 := by
      intro h
      have hki : g ^ k = g ^ i := by
        have := congrArg (· * g ^ i) h
        simp only [hζ, one_mul] at this
        rw [mul_assoc, hinv i, mul_one] at this
        exact this
      rcases Nat.lt_or_gt_of_ne hik with hlt | hgt
      · have hd : g ^ k = g ^ i * g ^ (k - i) := by rw [← pow_add]; congr 1; omega
        rw [hd] at hki
        have : g ^ (k - i) = 1 := by
          have h1 : g ^ i * g ^ (k - i) = g ^ i * 1 := by rw [mul_one]; exact hki
          exact mul_left_cancel₀ (pow_ne_zero _ hg0) h1
        exact hprim (k - i) (by omega) (by omega) this
      · have hd : g ^ i = g ^ k * g ^ (i - k) := by rw [← pow_add]; congr 1; omega
        rw [hd] at hki
        have : g ^ (i - k) = 1 := by
          have h1 : g ^ k * g ^ (i - k) = g ^ k * 1 := by rw [mul_one]; exact hki.symm
          exact mul_left_cancel₀ (pow_ne_zero _ hg0) h1
        exact hprim (i - k) (by omega) (by omega) this
    have := geom_sum_mul ζ n
    rw [hζn, sub_self] at this
    rcases mul_eq_zero.1 this with h | h
    · exact h
    · exact absurd (sub_eq_zero.1 h) hζ1

theorem coeffB_ifftInPlace (D : Domain F) (ev : List F) (j : Nat) (hj : j < D.size) :
    coeffB (ifftInPlace D ev) j
      = (∑ i ∈ Finset.range D.size, coeffB (resize ev D.size) i * (D.gen⁻¹ ^ j) ^ i)
        * (D.size : F)⁻¹ * D.offset⁻¹ ^ j := by
  unfold ifftInPlace
  simp only
  rw [coeffB_map_range, if_pos hj, foldl_running_pow, horner_eq_peval]
  unfold peval
  rw [length_resize, pow_eq, pow_eq, ofNat_eq]; ring

/-- the interpolant takes the given values on the domain -/
theorem interpolate_value (D : Domain F) (ev : List F) (hg : D.gen ^ D.size = 1)
    (hprim : ∀ i, 0 < i → i < D.size → D.gen ^ i ≠ 1) (hn : (D.size : F) ≠ 0)
    (hh : D.offset ≠ 0) (k : Nat) (hk : k < D.size) :
    peval (interpolate D ev) (D.offset * D.gen ^ k) = coeffB ev k := by
  unfold interpolate fromCoefficientsVec
  rw [← horner_eq_peval, horner_truncate, horner_eq_peval]
  have hmap : ifftInPlace D ev = (List.range D.size).map (fun j => coeffB (ifftInPlace D ev) j) := by
    apply list_ext_coeffB
    · rw [length_ifftInPlace]; simp
    · intro i
      rw [coeffB_map_range]
      by_cases hi : i < D.size
      · rw [if_pos hi]
      · rw [if_neg hi, coeffB_of_le _ _ (by rw [length_ifftInPlace]; omega)]
  rw [hmap, peval_map_range]
  have step : ∀ j ∈ Finset.range D.size,
      coeffB (ifftInPlace D ev) j * (D.offset * D.gen ^ k) ^ j
        = ∑ i ∈ Finset.range D.size, coeffB (resize ev D.size) i * (D.size : F)⁻¹
            * (D.gen ^ k * D.gen⁻¹ ^ i) ^ j := by
    intro j hj
    rw [coeffB_ifftInPlace D ev j (Finset.mem_range.1 hj), Finset.sum_mul, Finset.sum_mul,
      Finset.sum_mul]
    apply Finset.sum_congr rfl
    intro i _
    have hh' : D.offset⁻¹ ^ j * D.offset ^ j = 1 := by
      rw [← mul_pow, inv_mul_cancel₀ hh, one_pow]
    rw [pow_right_comm, mul_pow, mul_pow (D.gen ^ k)]
    linear_combination (coeffB (resize ev D.size) i * (D.gen⁻¹ ^ i) ^ j * (D.size : F)⁻¹
      * (D.gen ^ k) ^ j) * hh'
  rw [Finset.sum_congr rfl step, Finset.sum_comm]
  have step2 : ∀ i ∈ Finset.range D.size,
      ∑ j ∈ Finset.range D.size, coeffB (resize ev D.size) i * (D.size : F)⁻¹
            * (D.gen ^ k * D.gen⁻¹ ^ i) ^ j
        = if i = k then coeffB (resize ev D.size) i else 0 := by
    intro i hi
    rw [← Finset.mul_sum, geom_orth D.gen D.size hg hprim k i hk (Finset.mem_range.1 hi)]
    by_cases hik : i = k
    · rw [if_pos hik, if_pos hik, mul_assoc, inv_mul_cancel₀ hn, mul_one]
    · rw [if_neg hik, if_neg hik, mul_zero]
  rw [Finset.sum_congr rfl step2, Finset.sum_ite_eq', if_pos (Finset.mem_range.2 hk),
    coeffB_resize, if_pos hk]

/-- evaluating the interpolant over the domain returns the (zero-padded / truncated) input -/
theorem evaluate_interpolate (D : Domain F) (ev : List F) (hg : D.gen ^ D.size = 1)
    (hprim : ∀ i, 0 < i → i < D.size → D.gen ^ i ≠ 1) (hn : (D.size : F) ≠ 0)
    (hh : D.offset ≠ 0) :
    evaluateOverDomainRef D (interpolate D ev) = .ok (resize ev D.size) := by
  have hn0 : D.size ≠ 0 := by intro h; rw [h] at hn; simp at hn
  rw [evaluateOverDomainRef_spec D _ hn0 hg]
  congr 1
  apply list_ext_coeffB
  · rw [length_resize]; simp
  · intro i
    rw [coeffB_map_range, coeffB_resize]
    by_cases hi : i < D.size
    · rw [if_pos hi, if_pos hi, interpolate_value D ev hg hprim hn hh i hi]
    · rw [if_neg hi, if_neg hi]

end Ark.PolyB
