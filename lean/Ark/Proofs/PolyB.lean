import Ark.Model.Poly
import Mathlib.Tactic.Ring
import Mathlib.Tactic.Linarith
import Mathlib.Tactic.FieldSimp
import Mathlib.Algebra.Field.Basic
import Mathlib.Algebra.BigOperators.Group.Finset.Basic
import Mathlib.Algebra.BigOperators.Ring.Finset
import Mathlib.Algebra.BigOperators.Intervals
import Mathlib.Algebra.BigOperators.Group.List.Basic
/-
  Ark.Proofs.PolyB — helper lemmas for property C08 (part b): sparse polynomials, the
  sparse constructor, sparse operators, dense/sparse conversions and mixed operators, division
  with sparse operands, evaluation over a domain, interpolation (`Ark.Model.Poly`).

  Vocabulary (own copies, distinct from part a):
  * `coeffB p i = p.getD i 0`, `CanonB p = (p.getLast? ≠ some 0)`;
  * `scoeff s i` = sum of the stored terms of degree `i`;
  * `SCanon s` = degrees strictly increasing and every stored coefficient non-zero.
-/
namespace Ark.PolyB
open Ark Ark.Poly

set_option linter.unusedSectionVars false
set_option linter.unusedVariables false
set_option linter.unusedSimpArgs false

/-! ## 0. the `Outcome` monad -/

@[simp] theorem ok_bind {α β : Type} (a : α) (f : α → Outcome β) :
    (Outcome.ok a >>= f) = f a := rfl
@[simp] theorem panic_bind {α β : Type} (f : α → Outcome β) :
    ((Outcome.panic : Outcome α) >>= f) = Outcome.panic := rfl
@[simp] theorem pure_ok {α : Type} (a : α) : (pure a : Outcome α) = Outcome.ok a := rfl

variable {F : Type} [Field F] [DecidableEq F]

/-! ## 1. vocabulary -/

/-- coefficient function of a stored dense vector -/
def coeffB (p : List F) (i : Nat) : F := p.getD i 0

/-- canonical dense form: no leading zero -/
def CanonB (p : List F) : Prop := p.getLast? ≠ some 0

/-- a term list denotes the sum of its monomials: coefficient of `X^i` -/
def scoeff (s : Terms F) (i : Nat) : F := ((s.filter (fun t => t.1 = i)).map (fun t => t.2)).sum

/-- canonical sparse form: degrees strictly increasing, every stored coefficient non-zero -/
def SCanon (s : Terms F) : Prop := s.Pairwise (fun a b => a.1 < b.1) ∧ ∀ t ∈ s, t.2 ≠ 0

instance (p : List F) : Decidable (CanonB p) := by unfold CanonB; infer_instance
instance (s : Terms F) : Decidable (SCanon s) := by unfold SCanon; infer_instance

/-- degree of a canonical sparse polynomial: the last stored degree, `0` for the empty list -/
def sdeg (s : Terms F) : Nat :=
  match s.getLast? with
  | some t => t.1
  | none => 0

/-! ### `coeffB` -/

@[simp] theorem coeffB_nil (i : Nat) : coeffB ([] : List F) i = 0 := rfl
@[simp] theorem coeffB_cons_zero (c : F) (cs : List F) : coeffB (c :: cs) 0 = c := rfl
@[simp] theorem coeffB_cons_succ (c : F) (cs : List F) (i : Nat) :
    coeffB (c :: cs) (i + 1) = coeffB cs i := rfl

theorem coeffB_of_le (p : List F) (i : Nat) (h : p.length ≤ i) : coeffB p i = 0 := by
  induction p generalizing i with
  | nil => rfl
  | cons c cs ih =>
    cases i with
    | zero => simp at h
    | succ i => simp only [coeffB_cons_succ]; exact ih i (by simpa using h)

theorem coeffB_append (p q : List F) (i : Nat) :
    coeffB (p ++ q) i = if i < p.length then coeffB p i else coeffB q (i - p.length) := by
  induction p generalizing i with
  | nil => simp
  | cons c cs ih =>
    cases i with
    | zero => simp
    | succ i => simp only [List.cons_append, coeffB_cons_succ, ih, List.length_cons,
        Nat.add_lt_add_iff_right, Nat.add_sub_add_right]

@[simp] theorem coeffB_replicate_zero (n i : Nat) : coeffB (List.replicate n (0 : F)) i = 0 := by
  induction n generalizing i with
  | zero => rfl
  | succ n ih => cases i with
    | zero => rfl
    | succ i => simp only [List.replicate_succ, coeffB_cons_succ, ih]

theorem coeffB_take (p : List F) (n i : Nat) :
    coeffB (p.take n) i = if i < n then coeffB p i else 0 := by
  induction p generalizing n i with
  | nil => simp
  | cons c cs ih =>
    cases n with
    | zero => simp
    | succ n => cases i with
      | zero => simp
      | succ i => simp only [List.take_succ_cons, coeffB_cons_succ, ih, Nat.add_lt_add_iff_right]

theorem coeffB_drop (p : List F) (n i : Nat) : coeffB (p.drop n) i = coeffB p (n + i) := by
  induction p generalizing n with
  | nil => simp
  | cons c cs ih =>
    cases n with
    | zero => simp
    | succ n => simp only [List.drop_succ_cons, ih, Nat.succ_add, coeffB_cons_succ]

theorem coeffB_getLast (p : List F) (c : F) (h : p.getLast? = some c) :
    coeffB p (p.length - 1) = c := by
  induction p with
  | nil => simp at h
  | cons a as ih =>
    cases as with
    | nil => simp at h; simp [h]
    | cons b bs =>
      rw [List.getLast?_cons_cons] at h
      have := ih h
      simpa using this

theorem list_ext_coeffB (p q : List F) (hl : p.length = q.length)
    (h : ∀ i, coeffB p i = coeffB q i) : p = q := by
  induction p generalizing q with
  | nil => cases q with
    | nil => rfl
    | cons _ _ => simp at hl
  | cons a as ih =>
    cases q with
    | nil => simp at hl
    | cons b bs =>
      have h0 := h 0
      simp only [coeffB_cons_zero] at h0
      rw [h0, ih bs (by simpa using hl) (fun i => by simpa using h (i + 1))]

/-! ### `pow`, `ofNat` -/

theorem pow_eq (x : F) (n : Nat) : Poly.pow x n = x ^ n := by
  induction n with
  | zero => simp [Poly.pow]
  | succ n ih => simp [Poly.pow, ih, pow_succ]

/-! ### `modifyAt` -/

theorem modifyAt_ok (f : F → F) (r : List F) (i : Nat) (h : i < r.length) :
    ∃ r', modifyAt f r i = .ok r' ∧ r'.length = r.length ∧
      ∀ j, coeffB r' j = if j = i then f (coeffB r i) else coeffB r j := by
  induction r generalizing i with
  | nil => simp at h
  | cons c cs ih =>
    cases i with
    | zero =>
      refine ⟨f c :: cs, rfl, rfl, ?_⟩
      intro j; cases j <;> simp
    | succ i =>
      obtain ⟨r', h1, h2, h3⟩ := ih i (by simpa using h)
      refine ⟨c :: r', by simp [modifyAt, h1], by simp [h2], ?_⟩
      intro j; cases j with
      | zero => simp
      | succ j => simp [h3]

theorem modifyAt_panic (f : F → F) (r : List F) (i : Nat) (h : r.length ≤ i) :
    modifyAt f r i = .panic := by
  induction r generalizing i with
  | nil => rfl
  | cons c cs ih =>
    cases i with
    | zero => simp at h
    | succ i => simp [modifyAt, ih i (by simpa using h)]

/-! ### `isZero`, `truncate`, `degree` on dense vectors -/

theorem isZero_iff (p : List F) : Poly.isZero p = true ↔ ∀ c ∈ p, c = 0 := by
  simp [Poly.isZero]

theorem isZero_coeffB (p : List F) (h : Poly.isZero p = true) (i : Nat) : coeffB p i = 0 := by
  rw [isZero_iff] at h
  induction p generalizing i with
  | nil => rfl
  | cons c cs ih =>
    cases i with
    | zero => simpa using h c (by simp)
    | succ i => simpa using ih (fun c hc => h c (by simp [hc])) i

theorem canon_isZero (p : List F) (hp : CanonB p) : Poly.isZero p = true ↔ p = [] := by
  constructor
  · intro h
    rw [isZero_iff] at h
    cases hl : p.getLast? with
    | none => simpa using hl
    | some c =>
      have : c = 0 := h c (List.mem_of_getLast? hl)
      exact absurd (this ▸ hl) hp
  · intro h; subst h; rfl

@[simp] theorem canon_nil : CanonB ([] : List F) := by simp [CanonB]

theorem truncate_canon (p : List F) : CanonB (truncate p) := by
  induction p with
  | nil => simp [truncate]
  | cons c cs ih =>
    unfold truncate
    cases h : truncate cs with
    | nil =>
      by_cases hc : c = 0
      · simp [hc]
      · simp [hc, CanonB]
    | cons t ts =>
      simp only
      rw [h] at ih
      unfold CanonB at *
      rwa [List.getLast?_cons_cons]

theorem coeffB_truncate (p : List F) (i : Nat) : coeffB (truncate p) i = coeffB p i := by
  induction p generalizing i with
  | nil => rfl
  | cons c cs ih =>
    unfold truncate
    cases h : truncate cs with
    | nil =>
      rw [h] at ih
      by_cases hc : c = 0
      · cases i with
        | zero => simp [hc]
        | succ i => simp [hc, ← ih i]
      · cases i with
        | zero => simp [hc]
        | succ i => simp [hc, ← ih i]
    | cons t ts =>
      rw [h] at ih
      cases i with
      | zero => simp
      | succ i => simp [← ih i]

theorem truncate_of_canon (p : List F) (hp : CanonB p) : truncate p = p := by
  induction p with
  | nil => rfl
  | cons c cs ih =>
    unfold truncate
    cases cs with
    | nil =>
      have : c ≠ 0 := by simpa [CanonB] using hp
      simp [truncate, this]
    | cons b bs =>
      have hp' : CanonB (b :: bs) := by
        unfold CanonB at *; rwa [List.getLast?_cons_cons] at hp
      rw [ih hp']

theorem truncate_length_le (p : List F) : (truncate p).length ≤ p.length := by
  induction p with
  | nil => simp [truncate]
  | cons c cs ih =>
    unfold truncate
    cases h : truncate cs with
    | nil => by_cases hc : c = 0 <;> simp [hc]
    | cons t ts => rw [h] at ih; simpa using ih

theorem truncate_length_le_of (p : List F) (m : Nat) (h : ∀ j, m ≤ j → coeffB p j = 0) :
    (truncate p).length ≤ m := by
  induction p generalizing m with
  | nil => simp [truncate]
  | cons c cs ih =>
    unfold truncate
    cases hcs : truncate cs with
    | nil =>
      by_cases hc : c = 0
      · simp [hc]
      · cases m with
        | zero => exact absurd (by simpa using h 0 (Nat.le_refl 0)) hc
        | succ m => simp [hc]
    | cons t ts =>
      cases m with
      | zero =>
        have h0 := ih 0 (fun j _ => by simpa using h (j + 1) (Nat.zero_le _))
        rw [hcs] at h0; simp at h0
      | succ m =>
        have h0 := ih m (fun j hj => by simpa using h (j + 1) (by omega))
        rw [hcs] at h0; simpa using h0

theorem degree_canon (p : List F) (hp : CanonB p) : degree p = .ok (p.length - 1) := by
  unfold degree
  by_cases hz : Poly.isZero p = true
  · rw [if_pos hz]; rw [(canon_isZero p hp).1 hz]; rfl
  · rw [if_neg hz]
    cases hl : p.getLast? with
    | none => rw [List.getLast?_eq_none_iff] at hl; subst hl; exact absurd rfl hz
    | some c =>
      have : c ≠ 0 := fun h => hp (h ▸ hl)
      simp [this]

/-! ### `scoeff` -/

@[simp] theorem scoeff_nil (i : Nat) : scoeff ([] : Terms F) i = 0 := rfl

theorem scoeff_cons (t : Nat × F) (s : Terms F) (i : Nat) :
    scoeff (t :: s) i = (if t.1 = i then t.2 else 0) + scoeff s i := by
  unfold scoeff
  by_cases h : t.1 = i <;> simp [List.filter_cons, h]

theorem scoeff_append (s u : Terms F) (i : Nat) :
    scoeff (s ++ u) i = scoeff s i + scoeff u i := by
  induction s with
  | nil => simp
  | cons t s ih => simp only [List.cons_append, scoeff_cons, ih, add_assoc]

theorem scoeff_singleton (t : Nat × F) (i : Nat) :
    scoeff [t] i = if t.1 = i then t.2 else 0 := by
  simp [scoeff_cons]

theorem scoeff_eq_zero_of_forall_ne (s : Terms F) (i : Nat) (h : ∀ t ∈ s, t.1 ≠ i) :
    scoeff s i = 0 := by
  induction s with
  | nil => rfl
  | cons t s ih =>
    rw [scoeff_cons, if_neg (h t (by simp)), ih (fun u hu => h u (by simp [hu])), add_zero]

theorem scoeff_eq_zero_of_forall_zero (s : Terms F) (i : Nat) (h : ∀ t ∈ s, t.2 = 0) :
    scoeff s i = 0 := by
  induction s with
  | nil => rfl
  | cons t s ih =>
    rw [scoeff_cons, h t (by simp), ih (fun u hu => h u (by simp [hu]))]; simp

theorem scoeff_filter_nonzero (s : Terms F) (i : Nat) :
    scoeff (s.filter (fun t => !decide (t.2 = 0))) i = scoeff s i := by
  induction s with
  | nil => rfl
  | cons t s ih =>
    by_cases h : t.2 = 0
    · simp [List.filter_cons, h, scoeff_cons, ih]
    · simp [List.filter_cons, h, scoeff_cons, ih]

/-! ### `SCanon`, `sIsZero`, `sDegree` -/

@[simp] theorem scanon_nil : SCanon ([] : Terms F) := by simp [SCanon]

theorem sIsZero_iff (s : Terms F) : sIsZero s = true ↔ ∀ t ∈ s, t.2 = 0 := by
  simp [sIsZero]

theorem scanon_sIsZero (s : Terms F) (hs : SCanon s) : sIsZero s = true ↔ s = [] := by
  constructor
  · intro h
    rw [sIsZero_iff] at h
    cases s with
    | nil => rfl
    | cons t s => exact absurd (h t (by simp)) (hs.2 t (by simp))
  · intro h; subst h; rfl

theorem sIsZero_scoeff (s : Terms F) (h : sIsZero s = true) (i : Nat) : scoeff s i = 0 :=
  scoeff_eq_zero_of_forall_zero s i ((sIsZero_iff s).1 h)

theorem scanon_tail (t : Nat × F) (s : Terms F) (h : SCanon (t :: s)) : SCanon s :=
  ⟨(List.pairwise_cons.1 h.1).2, fun u hu => h.2 u (by simp [hu])⟩

theorem scanon_head_lt (t : Nat × F) (s : Terms F) (h : SCanon (t :: s)) :
    ∀ u ∈ s, t.1 < u.1 := (List.pairwise_cons.1 h.1).1

theorem sDegree_scanon (s : Terms F) (hs : SCanon s) : sDegree s = .ok (sdeg s) := by
  unfold sDegree sdeg
  by_cases hz : sIsZero s = true
  · rw [if_pos hz, (scanon_sIsZero s hs).1 hz]; rfl
  · rw [if_neg hz]
    cases hl : s.getLast? with
    | none => rw [List.getLast?_eq_none_iff] at hl; subst hl; exact absurd rfl hz
    | some t =>
      have : t.2 ≠ 0 := hs.2 t (List.mem_of_getLast? hl)
      simp [this]

/-- every stored degree of a canonical sparse polynomial is at most `sdeg` -/
theorem scanon_le_sdeg (s : Terms F) (hs : SCanon s) : ∀ t ∈ s, t.1 ≤ sdeg s := by
  intro t ht
  unfold sdeg
  cases hl : s.getLast? with
  | none => rw [List.getLast?_eq_none_iff] at hl; subst hl; simp at ht
  | some l =>
    simp only
    obtain ⟨init, rfl⟩ : ∃ init, s = init ++ [l] := by
      have hne : s ≠ [] := by intro h; subst h; simp at hl
      refine ⟨s.dropLast, ?_⟩
      have := List.dropLast_append_getLast? l (by simpa using hl)
      exact this.symm
    rw [List.mem_append] at ht
    rcases ht with ht | ht
    · have := (List.pairwise_append.1 hs.1).2.2 t ht l (by simp)
      omega
    · simp at ht; subst ht; exact Nat.le_refl _

/-! ## 2. the sparse constructor `sFromCoefficientsVec` -/

/-- weakly sorted by degree -/
def WSorted (l : Terms F) : Prop := l.Pairwise (fun a b => a.1 ≤ b.1)

theorem scoeff_insertTerm (t : Nat × F) (l : Terms F) (i : Nat) :
    scoeff (insertTerm t l) i = scoeff (t :: l) i := by
  induction l with
  | nil => rfl
  | cons u us ih =>
    unfold insertTerm
    by_cases h : t.1 < u.1
    · rw [if_pos h]
    · rw [if_neg h, scoeff_cons, ih, scoeff_cons, scoeff_cons, scoeff_cons]; ring

theorem mem_insertTerm (t u : Nat × F) (l : Terms F) :
    u ∈ insertTerm t l ↔ u = t ∨ u ∈ l := by
  induction l with
  | nil => simp [insertTerm]
  | cons v vs ih =>
    unfold insertTerm
    by_cases h : t.1 < v.1
    · rw [if_pos h]; simp
    · rw [if_neg h]; simp only [List.mem_cons, ih]; tauto

theorem wsorted_insertTerm (t : Nat × F) (l : Terms F) (h : WSorted l) :
    WSorted (insertTerm t l) := by
  induction l with
  | nil => simp [insertTerm, WSorted]
  | cons v vs ih =>
    unfold WSorted at h
    rw [List.pairwise_cons] at h
    unfold insertTerm
    by_cases hlt : t.1 < v.1
    · rw [if_pos hlt]
      unfold WSorted
      refine List.pairwise_cons.2 ⟨?_, List.pairwise_cons.2 h⟩
      intro u hu
      rcases List.mem_cons.1 hu with rfl | hu
      · omega
      · have := h.1 u hu; omega
    · rw [if_neg hlt]
      unfold WSorted
      refine List.pairwise_cons.2 ⟨?_, ih h.2⟩
      intro u hu
      rcases (mem_insertTerm t u vs).1 hu with rfl | hu
      · omega
      · exact h.1 u hu

theorem sortTerms_aux (l acc : Terms F) :
    (WSorted acc → WSorted (l.foldl (fun acc t => insertTerm t acc) acc)) ∧
    ∀ i, scoeff (l.foldl (fun acc t => insertTerm t acc) acc) i = scoeff acc i + scoeff l i := by
  induction l generalizing acc with
  | nil => simp
  | cons t ts ih =>
    simp only [List.foldl_cons]
    refine ⟨fun h => (ih _).1 (wsorted_insertTerm t acc h), fun i => ?_⟩
    rw [(ih _).2, scoeff_insertTerm, scoeff_cons, scoeff_cons]; ring

theorem wsorted_sortTerms (l : Terms F) : WSorted (sortTerms l) :=
  (sortTerms_aux l []).1 (by simp [WSorted])

theorem scoeff_sortTerms (l : Terms F) (i : Nat) : scoeff (sortTerms l) i = scoeff l i := by
  unfold sortTerms; rw [(sortTerms_aux l []).2]; simp

theorem combineTerms_spec (ts acc : Terms F)
    (hacc : acc.Pairwise (fun a b => a.1 < b.1))
    (hle : ∀ a ∈ acc, ∀ t ∈ ts, a.1 ≤ t.1) (hts : WSorted ts) :
    (combineTerms acc ts).Pairwise (fun a b => a.1 < b.1) ∧
    ∀ i, scoeff (combineTerms acc ts) i = scoeff acc i + scoeff ts i := by
  induction ts generalizing acc with
  | nil => simp [combineTerms, hacc]
  | cons t ts ih =>
    have hts' := List.pairwise_cons.1 hts
    rw [combineTerms]
    rcases List.eq_nil_or_concat acc with rfl | ⟨init, l, hacceq⟩
    on_goal 2 => rw [List.concat_eq_append] at hacceq; subst hacceq
    · simp only [List.getLast?_nil]
      have := ih [t] (by simp) (by intro a ha u hu; simp at ha; subst ha; exact hts'.1 u hu) hts'.2
      refine ⟨this.1, fun i => ?_⟩
      rw [this.2, scoeff_cons t ts, scoeff_singleton]; simp
    · have hgl : (init ++ [l]).getLast? = some l := by simp
      rw [hgl]; simp only
      have hacc' := List.pairwise_append.1 hacc
      have hlt : l.1 ≤ t.1 := hle l (by simp) t (by simp)
      by_cases heq : l.1 = t.1
      · rw [if_pos heq, List.dropLast_concat]
        have := ih (init ++ [(l.1, l.2 + t.2)])
          (by
            refine List.pairwise_append.2 ⟨hacc'.1, by simp, ?_⟩
            intro a ha b hb
            simp at hb; subst hb
            exact hacc'.2.2 a ha l (by simp))
          (by
            intro a ha u hu
            rcases List.mem_append.1 ha with ha | ha
            · exact hle a (by simp [ha]) u (by simp [hu])
            · simp at ha; subst ha
              exact hle l (by simp) u (by simp [hu]))
          hts'.2
        refine ⟨this.1, fun i => ?_⟩
        rw [this.2]
        simp only [scoeff_append, scoeff_cons, scoeff_nil, heq]
        by_cases hi : t.1 = i <;> simp [hi]; ring
      · rw [if_neg heq]
        have := ih (init ++ [l] ++ [t])
          (by
            refine List.pairwise_append.2 ⟨hacc, by simp, ?_⟩
            intro a ha b hb
            simp at hb; subst hb
            rcases List.mem_append.1 ha with ha | ha
            · have := hacc'.2.2 a ha l (by simp); omega
            · simp at ha; subst ha; omega)
          (by
            intro a ha u hu
            rcases List.mem_append.1 ha with ha | ha
            · exact hle a ha u (by simp [hu])
            · simp at ha; subst ha; exact hts'.1 u hu)
          hts'.2
        refine ⟨this.1, fun i => ?_⟩
        rw [this.2]
        simp only [scoeff_append, scoeff_cons, scoeff_nil]; ring

/-- `sFromCoefficientsVec` on EVERY input: canonical output with the same coefficient function -/
theorem sFromCoefficientsVec_spec (v : Terms F) :
    SCanon (sFromCoefficientsVec v) ∧ ∀ i, scoeff (sFromCoefficientsVec v) i = scoeff v i := by
  have h := combineTerms_spec (sortTerms v) [] (by simp) (by simp) (wsorted_sortTerms v)
  unfold sFromCoefficientsVec
  refine ⟨⟨h.1.filter _, ?_⟩, fun i => ?_⟩
  · intro t ht
    have := (List.mem_filter.1 ht).2
    simpa using this
  · rw [scoeff_filter_nonzero, h.2, scoeff_sortTerms]; simp

end Ark.PolyB
