import Ark.Model.Cfg
import Mathlib.Data.ZMod.Basic
import Mathlib.NumberTheory.LegendreSymbol.Basic
import Mathlib.GroupTheory.OrderOfElement
import Mathlib.RingTheory.RootsOfUnity.PrimitiveRoots
import Mathlib.Tactic.Ring
import Mathlib.Tactic.Linarith
import Mathlib.Tactic.NormNum
/-
  Ark.Proofs.CfgMeaning — helper lemmas for the *meaning* of the C16 checkers
  (`Ark/Model/Cfg.lean`): each checker `= true` implies the documented mathematical statement.
  The property-level statements are collected in `Ark/Props/C16Meaning.lean`.
-/
namespace Ark.CfgMeaning
open Ark.Spec Ark.Cfg

/-! ## `powMod` is modular exponentiation -/

theorem powModAux_reduced (m : Nat) : ∀ (fuel b e acc : Nat), acc % m = acc →
    powModAux m fuel b e acc % m = powModAux m fuel b e acc := by
  intro fuel
  induction fuel with
  | zero => intro b e acc h; simpa [powModAux] using h
  | succ n ih =>
    intro b e acc h
    unfold powModAux
    split
    · exact h
    · apply ih
      split
      · exact Nat.mod_mod _ _
      · exact h

theorem powModAux_spec (m : Nat) : ∀ (fuel b e acc : Nat), e < 2 ^ fuel →
    powModAux m fuel b e acc % m = (acc * b ^ e) % m := by
  intro fuel
  induction fuel with
  | zero =>
    intro b e acc h
    have : e = 0 := by simpa using h
    subst this; simp [powModAux]
  | succ n ih =>
    intro b e acc h
    unfold powModAux
    split
    · rename_i he; subst he; simp
    · have h2 : e / 2 < 2 ^ n := by
        rw [Nat.div_lt_iff_lt_mul (by norm_num)]; rw [pow_succ] at h; exact h
      rw [ih _ _ _ h2]
      have hb : ((b * b) % m) ^ (e / 2) % m = (b * b) ^ (e / 2) % m := (Nat.pow_mod _ _ _).symm
      have hsq : (b * b) ^ (e / 2) = b ^ (2 * (e / 2)) := by rw [pow_mul, pow_two]
      split
      · rename_i hodd
        have he : e = 2 * (e / 2) + 1 := by omega
        calc (acc * b % m * ((b * b) % m) ^ (e / 2)) % m
            = ((acc * b % m) * (((b * b) % m) ^ (e / 2) % m)) % m := by rw [Nat.mul_mod, Nat.mod_mod]
          _ = ((acc * b % m) * ((b * b) ^ (e / 2) % m)) % m := by rw [hb]
          _ = (acc * b * (b * b) ^ (e / 2)) % m := by rw [← Nat.mul_mod]
          _ = (acc * b ^ e) % m := by
              rw [hsq]; congr 1
              conv_rhs => rw [he, pow_succ]
              ring
      · rename_i hev
        have he : e = 2 * (e / 2) := by omega
        calc (acc * ((b * b) % m) ^ (e / 2)) % m
            = ((acc % m) * (((b * b) % m) ^ (e / 2) % m)) % m := by rw [Nat.mul_mod]
          _ = ((acc % m) * ((b * b) ^ (e / 2) % m)) % m := by rw [hb]
          _ = (acc * (b * b) ^ (e / 2)) % m := by rw [← Nat.mul_mod]
          _ = (acc * b ^ e) % m := by rw [hsq, ← he]

/-- `Ark.Spec.powMod b e m = b^e mod m` -/
theorem powMod_eq (b e m : Nat) : powMod b e m = b ^ e % m := by
  unfold powMod
  have hlt : e < 2 ^ (e.log2 + 2) :=
    lt_trans Nat.lt_log2_self (Nat.pow_lt_pow_right (by norm_num) (by omega))
  have hred := powModAux_reduced m (e.log2 + 2) (b % m) e (1 % m) (Nat.mod_mod _ _)
  rw [← hred, powModAux_spec m _ _ _ _ hlt]
  rw [Nat.mul_mod, Nat.mod_mod, ← Nat.pow_mod, ← Nat.mul_mod, one_mul]

/-- in `ZMod m`, `powMod` is `^` -/
theorem powMod_cast (b e m : Nat) : ((powMod b e m : Nat) : ZMod m) = (b : ZMod m) ^ e := by
  rw [powMod_eq, ZMod.natCast_mod, Nat.cast_pow]

/-! ## Bool plumbing -/

theorem and_true_iff {a b : Bool} : (a && b) = true ↔ a = true ∧ b = true := by
  cases a <;> cases b <;> simp

theorem beq_nat_true {a b : Nat} (h : (a == b) = true) : a = b := by simpa using h

theorem bne_nat_true {a b : Nat} (h : (a != b) = true) : a ≠ b := by simpa using h

/-! ## prime fields -/

/-- `checkGeneratorQNR`: the stated generator is a quadratic non-residue (Euler's criterion) -/
theorem generator_not_square (c : FpCfg) (p : Nat) [Fact p.Prime] (hp : c.modulus = p)
    (hodd : p % 2 = 1) (h : checkGeneratorQNR c = true) :
    ¬ IsSquare ((c.generator : Nat) : ZMod p) := by
  unfold checkGeneratorQNR at h
  rw [and_true_iff] at h
  obtain ⟨_, h2⟩ := h
  have h2 := beq_nat_true h2
  rw [hp] at h2
  have hp2 : 2 < p := by
    have := (Fact.out : p.Prime).two_le
    rcases Nat.lt_or_ge 2 p with h | h
    · exact h
    · have : p = 2 := by omega
      subst this; omega
  have hpow : ((c.generator : Nat) : ZMod p) ^ ((p - 1) / 2) = -1 := by
    rw [← powMod_cast, h2]
    have : ((p - 1 : Nat) : ZMod p) = (p : ZMod p) - 1 := by
      rw [Nat.cast_sub (by omega)]; simp
    rw [this]; simp
  have hdiv : p / 2 = (p - 1) / 2 := by omega
  have hne : ((c.generator : Nat) : ZMod p) ≠ 0 := by
    intro h0
    rw [h0, zero_pow (by omega : (p - 1) / 2 ≠ 0)] at hpow
    have : (1 : ZMod p) = 0 := by
      have := congrArg (fun x => -x) hpow; simpa using this.symm
    exact one_ne_zero this
  intro hsq
  rw [ZMod.euler_criterion p hne, hdiv, hpow] at hsq
  have h2 : (2 : ZMod p) = 0 := by
    have : (-1 : ZMod p) + 1 = 1 + 1 := by rw [hsq]
    have h3 : (1 : ZMod p) + 1 = 0 := by rw [← this]; ring
    rw [← h3]; ring
  have : (p : ℕ) ∣ 2 := by
    have := (ZMod.natCast_eq_zero_iff 2 p).mp (by exact_mod_cast h2)
    exact this
  have := Nat.le_of_dvd (by norm_num) this
  omega

/-- `checkRootOfUnity`: `TWO_ADIC_ROOT_OF_UNITY = g^t` has multiplicative order exactly `2^s` -/
theorem root_order (c : FpCfg) (p : Nat) [Fact p.Prime] (hp : c.modulus = p)
    (h : checkRootOfUnity c = true) :
    ((c.twoAdicRoot : Nat) : ZMod p) = ((c.generator : Nat) : ZMod p) ^ c.trace
    ∧ orderOf ((c.twoAdicRoot : Nat) : ZMod p) = 2 ^ c.twoAdicity := by
  unfold checkRootOfUnity at h
  simp only [and_true_iff] at h
  obtain ⟨⟨⟨_, hgt⟩, hone⟩, hne⟩ := h
  have hgt := beq_nat_true hgt
  have hone := beq_nat_true hone
  rw [hp] at hgt hone
  have hp1 : 1 < p := (Fact.out : p.Prime).one_lt
  have e1 : ((c.twoAdicRoot : Nat) : ZMod p) = ((c.generator : Nat) : ZMod p) ^ c.trace := by
    rw [← powMod_cast, ← hgt]
  have e2 : ((c.twoAdicRoot : Nat) : ZMod p) ^ (2 ^ c.twoAdicity) = 1 := by
    rw [← powMod_cast, hone]; simp
  refine ⟨e1, ?_⟩
  rcases Nat.eq_zero_or_pos c.twoAdicity with hs | hs
  · rw [hs] at e2 ⊢
    simp only [pow_zero, pow_one] at e2 ⊢
    rw [e2]; exact orderOf_one
  · have hne' : ¬ ((c.twoAdicRoot : Nat) : ZMod p) ^ (2 ^ (c.twoAdicity - 1)) = 1 := by
      rcases Bool.or_eq_true _ _ |>.mp hne with h0 | h1
      · have := beq_nat_true h0; omega
      · have h1 := bne_nat_true h1
        rw [hp] at h1
        intro hcontra
        apply h1
        have hlt : powMod c.twoAdicRoot (2 ^ (c.twoAdicity - 1)) p < p := by
          rw [powMod_eq]; exact Nat.mod_lt _ (by omega)
        have hc : ((powMod c.twoAdicRoot (2 ^ (c.twoAdicity - 1)) p : Nat) : ZMod p) = ((1 : Nat) : ZMod p) := by
          rw [powMod_cast, hcontra]; simp
        have := (ZMod.natCast_eq_natCast_iff' _ _ _).mp hc
        rw [Nat.mod_eq_of_lt hlt, Nat.mod_eq_of_lt hp1] at this
        exact this
    have hs' : c.twoAdicity = (c.twoAdicity - 1) + 1 := by omega
    rw [hs'] at e2 ⊢
    exact orderOf_eq_prime_pow hne' e2

/-- `checkTwoAdicity`: `p - 1 = 2^s · t` with `t` odd -/
theorem two_adicity (c : FpCfg) (h : checkTwoAdicity c = true) :
    c.modulus - 1 = 2 ^ c.twoAdicity * c.trace ∧ c.trace % 2 = 1
    ∧ c.traceMinusOneDivTwo = (c.trace - 1) / 2 := by
  unfold checkTwoAdicity at h
  simp only [and_true_iff] at h
  exact ⟨beq_nat_true h.1.1, beq_nat_true h.1.2, beq_nat_true h.2⟩

/-- `checkMontConsts`: the Montgomery constants are the documented functions of the modulus -/
theorem mont_consts (c : FpCfg) (h : checkMontConsts c = true) :
    c.montModulus = c.modulus
    ∧ limbsVal c.montModulusLimbs = c.modulus
    ∧ c.montModulusLimbs.length = c.limbs
    ∧ c.montR = 2 ^ (64 * c.limbs) % c.modulus
    ∧ c.montR2 = 2 ^ (128 * c.limbs) % c.modulus
    ∧ (c.montInv * c.modulus + 1) % 2 ^ 64 = 0
    ∧ c.montInv < 2 ^ 64
    ∧ c.oneRaw = c.montR
    ∧ c.generatorRaw = (c.generator * c.montR) % c.modulus := by
  unfold checkMontConsts at h
  simp only [and_true_iff] at h
  obtain ⟨⟨⟨⟨⟨⟨⟨⟨⟨h1, h2⟩, _⟩, h4⟩, h5⟩, h6⟩, h7⟩, h8⟩, h9⟩, h10⟩ := h
  exact ⟨beq_nat_true h1, beq_nat_true h4, beq_nat_true h2, beq_nat_true h5, beq_nat_true h6,
    beq_nat_true h8, by simpa using h7, beq_nat_true h9, beq_nat_true h10⟩

/-- `R2 = R² mod p` (the form in which the documentation states it) -/
theorem mont_r2_eq_sq (c : FpCfg) (h : checkMontConsts c = true) :
    c.montR2 = (c.montR * c.montR) % c.modulus := by
  obtain ⟨_, _, _, hR, hR2, _⟩ := mont_consts c h
  rw [hR2, hR, ← Nat.mul_mod, ← pow_add]
  congr 2; omega

/-- `INV = -p⁻¹ mod 2^64` -/
theorem mont_inv (c : FpCfg) (h : checkMontConsts c = true) :
    ((c.montInv : Nat) : ZMod (2 ^ 64)) * ((c.modulus : Nat) : ZMod (2 ^ 64)) = -1 := by
  obtain ⟨_, _, _, _, _, hI, _⟩ := mont_consts c h
  have : (((c.montInv * c.modulus + 1 : Nat)) : ZMod (2 ^ 64)) = 0 := by
    rw [ZMod.natCast_eq_zero_iff]; exact Nat.dvd_of_mod_eq_zero hI
  push_cast at this
  exact eq_neg_of_add_eq_zero_left this

/-! ## cofactor, GLV -/

/-- `COFACTOR · COFACTOR_INV = 1` in `F_r` -/
theorem cofactor_inv (r h hinv : Nat) (hc : checkCofactorInv r h hinv = true) :
    ((h : Nat) : ZMod r) * ((hinv : Nat) : ZMod r) = 1 := by
  unfold checkCofactorInv at hc
  have := beq_nat_true hc
  have h1 : ((h * hinv : Nat) : ZMod r) = ((1 : Nat) : ZMod r) := by
    rw [ZMod.natCast_eq_natCast_iff']; exact this
  simpa using h1

/-- `λ² + λ + 1 = 0` in `F_r` -/
theorem glv_lambda (c : GlvCfg) (h : checkGlvLambda c = true) :
    ((c.lambda : Nat) : ZMod c.curve.r) ^ 2 + ((c.lambda : Nat) : ZMod c.curve.r) + 1 = 0 := by
  unfold checkGlvLambda at h
  rw [and_true_iff] at h
  have := beq_nat_true h.2
  have h1 : ((c.lambda * c.lambda + c.lambda + 1 : Nat) : ZMod c.curve.r) = 0 := by
    rw [ZMod.natCast_eq_zero_iff]; exact Nat.dvd_of_mod_eq_zero this
  push_cast at h1
  rw [pow_two]; exact h1

/-- both rows `(n_i1, n_i2)` of the decomposition matrix satisfy `n_i1 + λ·n_i2 ≡ 0 (mod r)` -/
theorem glv_rows (c : GlvCfg) (h : checkGlvDecompRows c = true) :
    ((c.n 0 + (c.lambda : Int) * c.n 1 : Int) : ZMod c.curve.r) = 0
    ∧ ((c.n 2 + (c.lambda : Int) * c.n 3 : Int) : ZMod c.curve.r) = 0 := by
  unfold checkGlvDecompRows at h
  simp only [and_true_iff] at h
  obtain ⟨⟨_, h1⟩, h2⟩ := h
  have h1 : (c.n 0 + (c.lambda : Int) * c.n 1) % (c.curve.r : Int) = 0 := by simpa using h1
  have h2 : (c.n 2 + (c.lambda : Int) * c.n 3) % (c.curve.r : Int) = 0 := by simpa using h2
  constructor
  · rw [ZMod.intCast_zmod_eq_zero_iff_dvd]; exact Int.dvd_of_emod_eq_zero h1
  · rw [ZMod.intCast_zmod_eq_zero_iff_dvd]; exact Int.dvd_of_emod_eq_zero h2

/-- `det N = r` -/
theorem glv_det (c : GlvCfg) (h : checkGlvDet c = true) :
    c.n 0 * c.n 3 - c.n 1 * c.n 2 = (c.curve.r : Int) := by
  unfold checkGlvDet at h
  simpa using h


/-! ## mixed-radix root of unity -/

/-- `checkLargeSubgroup` (when the data are present and `b` is prime): `LARGE_SUBGROUP_ROOT_OF_UNITY`
    is `g^((p-1)/n)` and has multiplicative order exactly `n = 2^s · b^k` -/
theorem large_subgroup_order (c : FpCfg) (p b k w : Nat) [Fact p.Prime] (hp : c.modulus = p)
    (hb : c.smallSubgroupBase = some b) (hk : c.smallSubgroupBaseAdicity = some k)
    (hw : c.largeSubgroupRoot = some w) (hbp : b.Prime)
    (h : checkLargeSubgroup c = true) :
    (2 ^ c.twoAdicity * b ^ k) ∣ (p - 1)
    ∧ ((w : Nat) : ZMod p) = ((c.generator : Nat) : ZMod p) ^ ((p - 1) / (2 ^ c.twoAdicity * b ^ k))
    ∧ orderOf ((w : Nat) : ZMod p) = 2 ^ c.twoAdicity * b ^ k := by
  unfold checkLargeSubgroup at h
  rw [hb, hk, hw] at h
  simp only [and_true_iff] at h
  obtain ⟨⟨⟨⟨⟨⟨⟨⟨_, hbodd⟩, hk0⟩, hdvd⟩, _⟩, hgen⟩, hone⟩, hhalf⟩, hdivb⟩ := h
  have hk0 : 0 < k := by simpa using hk0
  have hdvd := beq_nat_true hdvd
  have hgen := beq_nat_true hgen
  have hone := beq_nat_true hone
  have hdivb := bne_nat_true hdivb
  rw [hp] at hdvd hgen hone hdivb hhalf
  have hp1 : 1 < p := (Fact.out : p.Prime).one_lt
  set n := 2 ^ c.twoAdicity * b ^ k with hn
  have ne_one_of (e : Nat) (hne : powMod w e p ≠ 1) : ((w : Nat) : ZMod p) ^ e ≠ 1 := by
    intro hcontra
    apply hne
    have hlt : powMod w e p < p := by rw [powMod_eq]; exact Nat.mod_lt _ (by omega)
    have hc : ((powMod w e p : Nat) : ZMod p) = ((1 : Nat) : ZMod p) := by
      rw [powMod_cast, hcontra]; simp
    have := (ZMod.natCast_eq_natCast_iff' _ _ _).mp hc
    rwa [Nat.mod_eq_of_lt hlt, Nat.mod_eq_of_lt hp1] at this
  refine ⟨Nat.dvd_of_mod_eq_zero hdvd, ?_, ?_⟩
  · rw [← powMod_cast, ← hgen]
  · have hnpos : 0 < n := by
      have : 0 < b := hbp.pos
      positivity
    have e1 : ((w : Nat) : ZMod p) ^ n = 1 := by rw [← powMod_cast, hone]; simp
    apply orderOf_eq_of_pow_and_pow_div_prime hnpos e1
    intro q hq hqn
    have hq2 : q = 2 ∨ q = b := by
      rcases (Nat.Prime.dvd_mul hq).mp hqn with h2 | hbk
      · left; exact (Nat.prime_dvd_prime_iff_eq hq Nat.prime_two).mp (hq.dvd_of_dvd_pow h2)
      · right; exact (Nat.prime_dvd_prime_iff_eq hq hbp).mp (hq.dvd_of_dvd_pow hbk)
    rcases hq2 with rfl | rfl
    · rcases Bool.or_eq_true _ _ |>.mp hhalf with h0 | h1
      · have hs0 := beq_nat_true h0
        exfalso
        rw [hn, hs0, pow_zero, one_mul] at hqn
        have := (Nat.prime_dvd_prime_iff_eq Nat.prime_two hbp).mp (Nat.prime_two.dvd_of_dvd_pow hqn)
        have hbodd := beq_nat_true hbodd
        omega
      · exact ne_one_of _ (bne_nat_true h1)
    · exact ne_one_of _ hdivb

/-! ## non-residues over the prime field, prime-field valued Frobenius tables -/

theorem primePowAux (p : Nat) : ∀ (fuel b e acc : Nat), e < 2 ^ fuel → acc % p = acc →
    Tw.powAux (.prime p) fuel [b] e [acc] = [(acc * b ^ e) % p] := by
  intro fuel
  induction fuel with
  | zero =>
    intro b e acc h hacc
    have : e = 0 := by simpa using h
    subst this; simp [Tw.powAux, hacc]
  | succ n ih =>
    intro b e acc h hacc
    unfold Tw.powAux
    split
    · rename_i he; subst he; simp [hacc]
    · have h2 : e / 2 < 2 ^ n := by
        rw [Nat.div_lt_iff_lt_mul (by norm_num)]; rw [pow_succ] at h; exact h
      have hsq : (b * b) ^ (e / 2) = b ^ (2 * (e / 2)) := by rw [pow_mul, pow_two]
      have hb : ((b * b) % p) ^ (e / 2) % p = (b * b) ^ (e / 2) % p := (Nat.pow_mod _ _ _).symm
      split
      · rename_i hodd
        have he : e = 2 * (e / 2) + 1 := by omega
        simp only [Tw.mul, List.headD_cons]
        rw [ih _ _ _ h2 (Nat.mod_mod _ _)]
        congr 1
        calc (acc * b % p * ((b * b) % p) ^ (e / 2)) % p
            = ((acc * b % p) * (((b * b) % p) ^ (e / 2) % p)) % p := by rw [Nat.mul_mod, Nat.mod_mod]
          _ = ((acc * b % p) * ((b * b) ^ (e / 2) % p)) % p := by rw [hb]
          _ = (acc * b * (b * b) ^ (e / 2)) % p := by rw [← Nat.mul_mod]
          _ = (acc * b ^ e) % p := by
              rw [hsq]; congr 1
              conv_rhs => rw [he, pow_succ]
              ring
      · rename_i hev
        have he : e = 2 * (e / 2) := by omega
        simp only [Tw.mul, List.headD_cons]
        rw [ih _ _ _ h2 hacc]
        congr 1
        calc (acc * ((b * b) % p) ^ (e / 2)) % p
            = ((acc % p) * (((b * b) % p) ^ (e / 2) % p)) % p := by rw [Nat.mul_mod]
          _ = ((acc % p) * ((b * b) ^ (e / 2) % p)) % p := by rw [hb]
          _ = (acc * (b * b) ^ (e / 2)) % p := by rw [← Nat.mul_mod]
          _ = (acc * b ^ e) % p := by rw [hsq, ← he]

/-- exponentiation in the bottom layer of a tower is modular exponentiation -/
theorem primePow (p b e : Nat) (hp : 1 < p) : Tw.pow (.prime p) [b] e = [b ^ e % p] := by
  unfold Tw.pow
  have hlt : e < 2 ^ (e.log2 + 2) :=
    lt_trans Nat.lt_log2_self (Nat.pow_lt_pow_right (by norm_num) (by omega))
  have : Tw.one (.prime p) = [1] := rfl
  rw [this, primePowAux p _ _ _ _ hlt (Nat.mod_eq_of_lt hp), one_mul]

/-- `checkNonresidue` for Fp2 / Fp3 (`NONRESIDUE ∈ F_p`, stored reduced): `k ∣ p - 1` and
    `NONRESIDUE` is not a `k`-th power in `F_p` (so `X^k - NONRESIDUE` has no root) -/
theorem nonresidue_prime (c : ExtCfg) (p nr : Nat) [Fact p.Prime] (hbase : c.baseTower = .prime p)
    (hnr : c.nonresidue = [nr]) (hlt : nr < p) (h : checkNonresidue c = true) :
    c.k ∣ p - 1 ∧ ¬ ∃ y : ZMod p, y ^ c.k = ((nr : Nat) : ZMod p) := by
  have hp1 : 1 < p := (Fact.out : p.Prime).one_lt
  unfold checkNonresidue at h
  rw [hbase] at h
  simp only [Tw.notKthPower, Tw.card, Tw.char, Tw.deg, pow_one, hnr, and_true_iff] at h
  obtain ⟨⟨hdvd, hz⟩, hpow⟩ := h
  have hdvd := Nat.dvd_of_mod_eq_zero (beq_nat_true hdvd)
  refine ⟨hdvd, ?_⟩
  rintro ⟨y, hy⟩
  rw [primePow p nr _ hp1] at hpow
  have hone : Tw.one (.prime p) = [1] := rfl
  rw [hone] at hpow
  have hpow : nr ^ ((p - 1) / c.k) % p ≠ 1 := by
    intro hc; rw [hc] at hpow; simp at hpow
  have hnz : nr ≠ 0 := by simpa [isZero] using hz
  have hnr0 : ((nr : Nat) : ZMod p) ≠ 0 := by
    intro h0
    have := Nat.le_of_dvd (by omega) ((ZMod.natCast_eq_zero_iff nr p).mp h0)
    omega
  have hk : 0 < c.k := by
    rcases Nat.eq_zero_or_pos c.k with hk | hk
    · rw [hk] at hdvd; simp at hdvd; omega
    · exact hk
  have hy0 : y ≠ 0 := by
    intro h0; rw [h0, zero_pow (by omega)] at hy; exact hnr0 hy.symm
  apply hpow
  have hfer : y ^ (p - 1) = 1 := ZMod.pow_card_sub_one_eq_one hy0
  have hc : ((nr ^ ((p - 1) / c.k) % p : Nat) : ZMod p) = ((1 : Nat) : ZMod p) := by
    rw [ZMod.natCast_mod, Nat.cast_pow, ← hy, ← pow_mul, Nat.mul_div_cancel' hdvd, hfer]; simp
  have := (ZMod.natCast_eq_natCast_iff' _ _ _).mp hc
  rwa [Nat.mod_mod, Nat.mod_eq_of_lt hp1] at this

/-! ## prime-field valued Frobenius tables: the recurrence gives the closed form -/

/-- arithmetic core: `(p^(i+1) - 1)/d = (p-1)/d + p·((p^i - 1)/d)` when `d ∣ p - 1` -/
theorem geom_div (p d i : Nat) (hp : 0 < p) (hd : d ∣ p - 1) :
    d ∣ p ^ i - 1 ∧ (p ^ (i + 1) - 1) / d = (p - 1) / d + p * ((p ^ i - 1) / d) := by
  have h1 : p - 1 ∣ p ^ i - 1 := by
    simpa using Nat.sub_dvd_pow_sub_pow p 1 i
  have hdi : d ∣ p ^ i - 1 := dvd_trans hd h1
  refine ⟨hdi, ?_⟩
  obtain ⟨a, ha⟩ := hd
  obtain ⟨b, hb⟩ := hdi
  have hpi : 0 < p ^ i := Nat.pow_pos hp
  have e : p ^ (i + 1) - 1 = d * (a + p * b) := by
    have : p ^ (i + 1) = p * (p ^ i - 1) + (p - 1) + 1 := by
      rw [pow_succ]
      have h2 : p ^ i = (p ^ i - 1) + 1 := by omega
      conv_lhs => rw [h2]
      ring_nf
      omega
    rw [this, hb, ha]; ring_nf; omega
  rcases Nat.eq_zero_or_pos d with hd0 | hd0
  · subst hd0; simp
  · rw [e, ha, hb, Nat.mul_div_cancel_left _ hd0, Nat.mul_div_cancel_left _ hd0,
      Nat.mul_div_cancel_left _ hd0]

/-- one step of `frobRec` over the prime field, read in `ZMod p` -/
theorem frobRec_prime (p : Nat) [Fact p.Prime] (c1 : Nat) : ∀ (xs : List El) (prev : Nat),
    frobRec (.prime p) p [c1] [prev] xs = true →
    ∀ (j : Nat) (hj : j < xs.length), ∃ v : Nat, xs[j] = [v] ∧
      ((v : Nat) : ZMod p) = ((c1 : Nat) : ZMod p) ^ (j + 1) * ((prev : Nat) : ZMod p) := by
  have hp1 : 1 < p := (Fact.out : p.Prime).one_lt
  intro xs
  induction xs with
  | nil => intro prev _ j hj; simp at hj
  | cons x xs ih =>
    intro prev h j hj
    unfold frobRec at h
    rw [and_true_iff] at h
    obtain ⟨hx, hrest⟩ := h
    have hx : x = Tw.mul (.prime p) [c1] (Tw.pow (.prime p) [prev] p) := by simpa using hx
    rw [primePow p prev p hp1] at hx
    simp only [Tw.mul, List.headD_cons] at hx
    have hxv : ((c1 * (prev ^ p % p) % p : Nat) : ZMod p) = ((c1 : Nat) : ZMod p) * ((prev : Nat) : ZMod p) := by
      rw [ZMod.natCast_mod, Nat.cast_mul, ZMod.natCast_mod, Nat.cast_pow, ZMod.pow_card]
    cases j with
    | zero =>
      refine ⟨c1 * (prev ^ p % p) % p, by rw [hx]; rfl, ?_⟩
      rw [hxv]; ring
    | succ j =>
      rw [hx] at hrest
      obtain ⟨v, hv1, hv2⟩ := ih _ hrest j (by simpa using hj)
      refine ⟨v, by simpa using hv1, ?_⟩
      rw [hv2, hxv]; ring

/-- `checkFrobeniusC1` for the layers whose table lives in `F_p` (Fp2, Fp3, Fp4, Fp6 2-over-3):
    entry `i` is `b^((p^i - 1)/d)` where `b = frobBase` and `d = frobDiv` -/
theorem frobenius_c1_prime (c : ExtCfg) (p b : Nat) [Fact p.Prime] (hp : c.p = p)
    (ht : c.frobTower = .prime p) (hb : c.frobBase = [b]) (h : checkFrobeniusC1 c = true) :
    c.frobDiv ∣ p - 1 ∧
    ∀ (i : Nat) (hi : i < c.frobC1.length), ∃ v : Nat, c.frobC1[i] = [v] ∧
      ((v : Nat) : ZMod p) = ((b : Nat) : ZMod p) ^ ((p ^ i - 1) / c.frobDiv) := by
  have hp1 : 1 < p := (Fact.out : p.Prime).one_lt
  unfold checkFrobeniusC1 at h
  split at h
  · rename_i c0 c1 rest heq
    rw [ht, hb, hp] at h
    simp only [and_true_iff] at h
    obtain ⟨⟨⟨hdvd, h0⟩, h1⟩, hrec⟩ := h
    have hdvd := Nat.dvd_of_mod_eq_zero (beq_nat_true hdvd)
    have h0 : c0 = [1] := by simpa [Tw.one, vone, Tw.deg] using h0
    have h1 : c1 = [b ^ ((p - 1) / c.frobDiv) % p] := by
      rw [primePow p b _ hp1] at h1; simpa using h1
    refine ⟨hdvd, ?_⟩
    rw [heq]
    set e := (p - 1) / c.frobDiv with he
    rw [h1] at hrec
    have key := frobRec_prime p (b ^ e % p) rest (b ^ e % p) hrec
    have hc1 : (((b ^ e % p : Nat)) : ZMod p) = ((b : Nat) : ZMod p) ^ e := by
      rw [ZMod.natCast_mod, Nat.cast_pow]
    -- closed form by induction on i
    have closed : ∀ i : Nat, ((b : Nat) : ZMod p) ^ ((p ^ (i + 1) - 1) / c.frobDiv)
        = (((b : Nat) : ZMod p) ^ e) ^ (i + 1) := by
      intro i
      induction i with
      | zero => simp [he]
      | succ i ih =>
        obtain ⟨_, hg⟩ := geom_div p c.frobDiv (i + 1) (by omega) hdvd
        rw [hg, pow_add, pow_mul, ← he]
        have : ((b : ZMod p) ^ p) = (b : ZMod p) := ZMod.pow_card _
        rw [this, ih]; ring
    intro i hi
    match i, hi with
    | 0, _ => exact ⟨1, by simp [h0], by simp⟩
    | 1, _ => exact ⟨b ^ e % p, by simp [h1], by rw [hc1]; simp [he]⟩
    | (j + 2), hi =>
      obtain ⟨v, hv1, hv2⟩ := key j (by simpa using hi)
      refine ⟨v, by simpa using hv1, ?_⟩
      rw [hv2, hc1, closed (j + 1)]; ring
  · exact absurd h (by simp)

/-! ## pairing families: the checkers are literally the family polynomials -/

theorem bls12_family (c : Bls12Cfg) (h : checkBls12Family c = true) :
    (c.r : Int) = c.xi ^ 4 - c.xi ^ 2 + 1 ∧ 3 * ((c.p : Int) - c.xi) = (c.xi - 1) ^ 2 * (c.r : Int) := by
  unfold checkBls12Family at h
  simpa [and_true_iff] using h

theorem bn_family (c : BnCfg) (h : checkBnFamily c = true) :
    (c.p : Int) = 36 * c.xi ^ 4 + 36 * c.xi ^ 3 + 24 * c.xi ^ 2 + 6 * c.xi + 1
    ∧ (c.r : Int) = 36 * c.xi ^ 4 + 36 * c.xi ^ 3 + 18 * c.xi ^ 2 + 6 * c.xi + 1 := by
  unfold checkBnFamily at h
  simpa [and_true_iff] using h

theorem mnt_final_exponent (c : MntCfg) (h : checkMntFinalExponent c = true) :
    (c.r : Int) * ((c.finalExponentLastChunk1 : Int) * (c.p : Int)
        + sgn c.finalExponentLastChunkW0IsNeg c.finalExponentLastChunkAbsOfW0)
      = (if c.k = 4 then (c.p : Int) ^ 2 + 1 else (c.p : Int) ^ 2 - (c.p : Int) + 1) := by
  unfold checkMntFinalExponent at h
  simpa using h

/-! ## curves over a prime field: the list arithmetic is arithmetic of `ZMod p` -/

theorem list_singleton_beq {a b : Nat} (h : ([a] == [b]) = true) : a = b := by simpa using h

/-- `checkSwGeneratorOnCurve` over a prime field: `y² = x³ + a x + b` in `F_p` -/
theorem sw_on_curve_prime (c : SwCfg) (p a b x y : Nat) (ht : c.tower = .prime p)
    (ha : c.a = [a]) (hb : c.b = [b]) (hx : c.gx = [x]) (hy : c.gy = [y])
    (h : checkSwGeneratorOnCurve c = true) :
    ((y : Nat) : ZMod p) ^ 2 = ((x : Nat) : ZMod p) ^ 3 + ((a : Nat) : ZMod p) * ((x : Nat) : ZMod p)
      + ((b : Nat) : ZMod p) := by
  unfold checkSwGeneratorOnCurve Sw.onCurve at h
  rw [ht, ha, hb, hx, hy, and_true_iff] at h
  have h2 := h.2
  simp only [Tw.sq, Tw.mul, Tw.add, Tw.char, vadd, List.headD_cons] at h2
  have h3 := list_singleton_beq h2
  have h4 := congrArg (fun n : Nat => (n : ZMod p)) h3
  simp only [ZMod.natCast_mod, Nat.cast_add, Nat.cast_mul] at h4
  rw [pow_two, h4]; ring

/-- `checkTeGeneratorOnCurve` over a prime field: `a x² + y² = 1 + d x² y²` in `F_p` -/
theorem te_on_curve_prime (c : TeCfg) (p a d x y : Nat) (ht : c.tower = .prime p)
    (ha : c.a = [a]) (hd : c.d = [d]) (hx : c.gx = [x]) (hy : c.gy = [y])
    (h : checkTeGeneratorOnCurve c = true) :
    ((a : Nat) : ZMod p) * ((x : Nat) : ZMod p) ^ 2 + ((y : Nat) : ZMod p) ^ 2
      = 1 + ((d : Nat) : ZMod p) * ((x : Nat) : ZMod p) ^ 2 * ((y : Nat) : ZMod p) ^ 2 := by
  unfold checkTeGeneratorOnCurve Te.onCurve at h
  rw [ht, ha, hd, hx, hy] at h
  simp only [Tw.sq, Tw.mul, Tw.add, Tw.one, Tw.deg, vone, Tw.char, vadd, List.headD_cons,
    List.replicate] at h
  have h3 := list_singleton_beq h
  have h4 := congrArg (fun n : Nat => (n : ZMod p)) h3
  simp only [ZMod.natCast_mod, Nat.cast_add, Nat.cast_mul, Nat.cast_one] at h4
  rw [pow_two, pow_two]
  linear_combination h4

/-- a non-square over a prime field (`SWUConfig::ZETA`, `Elligator2Config::Z`, …) -/
theorem nonSquare_prime (p z : Nat) [Fact p.Prime] (hlt : z < p)
    (h : Tw.nonSquare (.prime p) [z] = true) : ¬ IsSquare ((z : Nat) : ZMod p) := by
  have hp1 : 1 < p := (Fact.out : p.Prime).one_lt
  let c : ExtCfg := { kind := .fp2, p := p, baseTower := .prime p, nonresidue := [z], frobC1 := [],
                      frobC2 := [], nrMulBasis := [] }
  have hc : checkNonresidue c = true := by
    show Tw.notKthPower (.prime p) 2 [z] = true
    exact h
  obtain ⟨_, hno⟩ := nonresidue_prime c p z rfl rfl hlt hc
  rintro ⟨y, hy⟩
  exact hno ⟨y, by show y ^ 2 = _; rw [hy, pow_two]⟩

end Ark.CfgMeaning
