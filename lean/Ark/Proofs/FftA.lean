import Ark.Model.Fft
import Mathlib.Tactic.Ring
import Mathlib.Tactic.Linarith
import Mathlib.Algebra.BigOperators.Group.Finset.Basic
import Mathlib.Algebra.BigOperators.Ring.Finset
import Mathlib.Algebra.BigOperators.Intervals
import Mathlib.RingTheory.RootsOfUnity.PrimitiveRoots
import Mathlib.Data.ZMod.Basic
import Mathlib.Algebra.Ring.GeomSum
/-
  Ark.Proofs.FftA — helper lemmas for property C07 (part A): the radix-2 FFT of
  `Ark.Model.Fft` computes polynomial evaluation on the domain.

  Spec function: `eval c x = c.foldr (fun a acc => a + x * acc) 0` (Horner).
-/
namespace Ark.Fft.A
open Ark Ark.Fft

/-! ## 0. the spec function -/

section Ring
variable {F : Type} [CommRing F]

/-- Horner evaluation of `Σ c_j x^j` -/
def eval (c : List F) (x : F) : F := c.foldr (fun a acc => a + x * acc) 0

@[simp] theorem eval_nil (x : F) : eval ([] : List F) x = 0 := rfl
@[simp] theorem eval_cons (a : F) (c : List F) (x : F) : eval (a :: c) x = a + x * eval c x := rfl

theorem eval_append (lo hi : List F) (x : F) :
    eval (lo ++ hi) x = eval lo x + x ^ lo.length * eval hi x := by
  induction lo with
  | nil => simp
  | cons a lo ih => simp only [List.cons_append, eval_cons, ih, List.length_cons]; ring

@[simp] theorem eval_replicate_zero (n : Nat) (x : F) : eval (List.replicate n (0 : F)) x = 0 := by
  induction n with
  | zero => rfl
  | succ n ih => simp [List.replicate_succ, ih]

theorem eval_singleton (a x : F) : eval [a] x = a := by simp

omit [CommRing F] in
theorem resize_of_le (c : List F) (n : Nat) (z : F) (h : c.length ≤ n) :
    resize c n z = c ++ List.replicate (n - c.length) z := by
  unfold resize; rw [List.take_of_length_le h]

omit [CommRing F] in
theorem length_resize (c : List F) (n : Nat) (z : F) : (resize c n z).length = n := by
  unfold resize; simp only [List.length_append, List.length_take, List.length_replicate]; omega

theorem eval_resize (c : List F) (n : Nat) (x : F) (h : c.length ≤ n) :
    eval (resize c n 0) x = eval c x := by
  rw [resize_of_le c n 0 h, eval_append]; simp

/-! ## 1. powers -/

theorem cpamc_eq (n : Nat) (r v : F) :
    computePowersAndMulByConstSerial n r v = (List.range n).map (fun i => v * r ^ i) := by
  induction n generalizing v with
  | zero => rfl
  | succ n ih =>
    rw [computePowersAndMulByConstSerial, ih, List.range_succ_eq_map, List.map_cons, List.map_map]
    simp only [pow_zero, mul_one, List.cons.injEq, true_and]
    apply List.map_congr_left
    intro i _
    simp only [Function.comp, pow_succ]; ring

theorem computePowersSerial_eq (n : Nat) (w : F) :
    computePowersSerial n w = (List.range n).map (fun i => w ^ i) := by
  unfold computePowersSerial; rw [cpamc_eq]; simp

@[simp] theorem length_cpamc (n : Nat) (r v : F) :
    (computePowersAndMulByConstSerial n r v).length = n := by
  rw [cpamc_eq]; simp

@[simp] theorem length_computePowersSerial (n : Nat) (w : F) :
    (computePowersSerial n w).length = n := by
  unfold computePowersSerial; simp

theorem cpamc_drop (k n : Nat) (r v : F) :
    (computePowersAndMulByConstSerial n r v).drop k
      = computePowersAndMulByConstSerial (n - k) r (v * r ^ k) := by
  induction k generalizing n v with
  | zero => simp
  | succ k ih =>
    cases n with
    | zero => simp [computePowersAndMulByConstSerial]
    | succ n =>
      rw [computePowersAndMulByConstSerial, List.drop_succ_cons, ih]
      congr 1
      · omega
      · rw [pow_succ]; ring

theorem stepByAux_cpamc (s : Nat) (hs : 0 < s) (fuel n : Nat) (r v : F) (hf : n ≤ fuel) :
    stepByAux s fuel (computePowersAndMulByConstSerial n r v)
      = computePowersAndMulByConstSerial ((n + s - 1) / s) (r ^ s) v := by
  induction fuel generalizing n v with
  | zero =>
    have : n = 0 := by omega
    subst this
    have : (0 + s - 1) / s = 0 := Nat.div_eq_of_lt (by omega)
    rw [this]; rfl
  | succ fuel ih =>
    cases n with
    | zero =>
      have : (0 + s - 1) / s = 0 := Nat.div_eq_of_lt (by omega)
      rw [this]; rfl
    | succ n =>
      rw [computePowersAndMulByConstSerial, stepByAux, cpamc_drop, ih _ _ (by omega)]
      have h1 : (n + 1 + s - 1) / s = (n - (s - 1) + s - 1) / s + 1 := by
        by_cases hn : s - 1 ≤ n
        · have : n + 1 + s - 1 = (n - (s - 1) + s - 1) + s := by omega
          rw [this, Nat.add_div_right _ hs]
        · have h0 : n - (s - 1) = 0 := by omega
          rw [h0]
          have : (0 + s - 1) / s = 0 := Nat.div_eq_of_lt (by omega)
          rw [this]
          have : n + 1 + s - 1 = (n + 1 - 1) + s := by omega
          rw [this, Nat.add_div_right _ hs, Nat.div_eq_of_lt (by omega)]
      rw [h1, computePowersAndMulByConstSerial]
      congr 2
      rw [mul_assoc, ← pow_succ']
      congr 2
      omega

/-- `step_by(s)` on a power table is the power table of `ω^s` (length `⌈n/s⌉`) -/
theorem stepBy_computePowersSerial (s : Nat) (hs : 0 < s) (n : Nat) (w : F) :
    stepBy s (computePowersSerial n w) = computePowersSerial ((n + s - 1) / s) (w ^ s) := by
  unfold stepBy computePowersSerial
  rw [stepByAux_cpamc s hs _ n w 1 (by simp)]

omit [CommRing F] in
theorem stepBy_one (l : List F) : stepBy 1 l = l := by
  unfold stepBy
  suffices h : ∀ fuel (l : List F), l.length ≤ fuel → stepByAux 1 fuel l = l from h _ _ (le_refl _)
  intro fuel
  induction fuel with
  | zero => intro l hl; cases l with
    | nil => rfl
    | cons a l => simp at hl
  | succ fuel ih =>
    intro l hl
    cases l with
    | nil => rfl
    | cons a l =>
      rw [stepByAux]; simp only [Nat.sub_self, List.drop_zero]
      rw [ih l (by simpa using hl)]

theorem dpamc_eq_aux (c : List F) (g k : F) (i0 : Nat) :
    distributePowersAndMulByConst c g (k * g ^ i0)
      = (c.zipIdx i0).map (fun xi => xi.1 * k * g ^ xi.2) := by
  induction c generalizing i0 with
  | nil => rfl
  | cons x c ih =>
    rw [distributePowersAndMulByConst, List.zipIdx_cons, List.map_cons]
    have : k * g ^ i0 * g = k * g ^ (i0 + 1) := by rw [pow_succ]; ring
    rw [this, ih]
    congr 1
    ring

theorem distributePowersAndMulByConst_eq (c : List F) (g k : F) :
    distributePowersAndMulByConst c g k = c.zipIdx.map (fun xi => xi.1 * k * g ^ xi.2) := by
  have := dpamc_eq_aux c g k 0
  simpa using this

@[simp] theorem length_dpamc (c : List F) (g k : F) :
    (distributePowersAndMulByConst c g k).length = c.length := by
  rw [distributePowersAndMulByConst_eq]; simp

theorem eval_dpamc (c : List F) (g k y : F) :
    eval (distributePowersAndMulByConst c g k) y = k * eval c (g * y) := by
  induction c generalizing k with
  | nil => simp [distributePowersAndMulByConst]
  | cons x c ih =>
    rw [distributePowersAndMulByConst, eval_cons, ih, eval_cons]; ring

/-- coset = scaling -/
theorem eval_distributePowers (c : List F) (h y : F) :
    eval (distributePowers c h) y = eval c (h * y) := by
  unfold distributePowers; rw [eval_dpamc]; ring

theorem elementsAux_eq (g : F) (n : Nat) (cur : F) :
    elementsAux g n cur = (List.range n).map (fun i => cur * g ^ i) := by
  induction n generalizing cur with
  | zero => rfl
  | succ n ih =>
    rw [elementsAux, ih, List.range_succ_eq_map, List.map_cons, List.map_map]
    simp only [pow_zero, mul_one, List.cons.injEq, true_and]
    apply List.map_congr_left
    intro i _
    simp only [Function.comp, pow_succ]; ring

theorem elements_eq (d : Domain F) :
    elements d = (List.range d.size).map (fun i => d.offset * d.groupGen ^ i) := by
  unfold elements; rw [elementsAux_eq]

end Ring

/-! ### `Field::pow` with a one-limb exponent -/

theorem bitsLE_val (n x : Nat) :
    ((List.range n).map (fun i => x.testBit i)).foldr (fun b m => (if b then 1 else 0) + 2 * m) 0
      = x % 2 ^ n := by
  induction n generalizing x with
  | zero => simp [Nat.mod_one]
  | succ n ih =>
    rw [List.range_succ_eq_map, List.map_cons, List.map_map, List.foldr_cons]
    have : ((fun i => x.testBit i) ∘ Nat.succ) = (fun i => (x / 2).testBit i) := by
      funext i; simp [Function.comp, Nat.testBit_succ]
    rw [this, ih, pow_succ', Nat.mod_mul]
    congr 1
    simp only [Nat.testBit_zero]
    rcases Nat.mod_two_eq_zero_or_one x with h | h <;> simp [h]

section Pow
variable {F : Type} [Field F] [DecidableEq F]

theorem pow_fold (a : F) (bits : List Bool) (res : F) (n : Nat) (h : res = a ^ n) :
    bits.foldl (fun res bit => let s := (fieldOps F).square res;
        if bit then (fieldOps F).mul s a else s) res
      = a ^ (bits.foldl (fun n b => 2 * n + (if b then 1 else 0)) n) := by
  induction bits generalizing res n with
  | nil => exact h
  | cons b bs ih =>
    simp only [List.foldl_cons]
    apply ih
    subst h
    cases b
    · simp only [fieldOps, Bool.false_eq_true, if_false, Nat.add_zero]; ring
    · simp only [fieldOps, if_true]; ring

theorem foldl_dropWhile_false (bits : List Bool) :
    (bits.dropWhile (· == false)).foldl (fun n b => 2 * n + (if b then 1 else 0)) 0
      = bits.foldl (fun n b => 2 * n + (if b then 1 else 0)) 0 := by
  induction bits with
  | nil => rfl
  | cons b bs ih =>
    cases b
    · simp only [List.dropWhile_cons, beq_self_eq_true, if_true]
      rw [ih]; simp
    · simp

/-- the model's exponentiation is `a ^ (e mod 2^64)` (the exponent is one `u64` limb) -/
theorem pow_eq_mod (a : F) (e : Nat) : pow a e = a ^ (e % 2 ^ 64) := by
  unfold pow Ops.pow
  rw [pow_fold a _ (fieldOps F).one 0 (by simp [fieldOps]), foldl_dropWhile_false]
  congr 1
  unfold bitsBE64
  rw [List.map_reverse, ← bitsLE_val 64 e]
  rw [← List.foldr_reverse, List.reverse_reverse]
  congr 1
  funext b n
  omega

theorem pow_eq (a : F) (e : Nat) (he : e < 2 ^ 64) : pow a e = a ^ e := by
  rw [pow_eq_mod, Nat.mod_eq_of_lt he]

end Pow


section Ring
variable {F : Type} [CommRing F]

/-! ## 2. butterflies -/

omit [CommRing F] in
theorem zipButterfly_length (g : F → F → F → F × F) (lo hi rs : List F) :
    (zipButterfly g lo hi rs).1.length = lo.length ∧ (zipButterfly g lo hi rs).2.length = hi.length := by
  fun_induction zipButterfly g lo hi rs with
  | case1 l lo h hi r rs lh rest ih => simpa using ih
  | case2 lo hi rs _ => simp

theorem eval_zipButterflyIO (lo hi : List F) (w v x : F) (hl : lo.length = hi.length) :
    eval (zipButterfly butterflyIO lo hi (computePowersAndMulByConstSerial lo.length w v)).1 x
        = eval lo x + eval hi x ∧
    eval (zipButterfly butterflyIO lo hi (computePowersAndMulByConstSerial lo.length w v)).2 x
        = v * (eval lo (w * x) - eval hi (w * x)) := by
  induction lo generalizing hi v with
  | nil =>
    cases hi with
    | nil => simp [zipButterfly]
    | cons h hi => simp at hl
  | cons l lo ih =>
    cases hi with
    | nil => simp at hl
    | cons h hi =>
      have hl' : lo.length = hi.length := by simpa using hl
      obtain ⟨h1, h2⟩ := ih hi (v * w) hl'
      simp only [List.length_cons, computePowersAndMulByConstSerial, zipButterfly, eval_cons, h1, h2,
        butterflyIO]
      constructor <;> ring

/-- DIF step -/
theorem dif_step (lo hi : List F) (w : F) (m : Nat) (hlo : lo.length = m) (hhi : hi.length = m)
    (hw : w ^ m = -1) (k : Nat) :
    eval (lo ++ hi) ((w ^ 2) ^ k) = eval (zipButterfly butterflyIO lo hi (computePowersSerial m w)).1 ((w ^ 2) ^ k) ∧
    eval (lo ++ hi) (w * (w ^ 2) ^ k) = eval (zipButterfly butterflyIO lo hi (computePowersSerial m w)).2 ((w ^ 2) ^ k) := by
  subst hlo
  obtain ⟨h1, h2⟩ := eval_zipButterflyIO lo hi w 1 ((w ^ 2) ^ k) hhi.symm
  unfold computePowersSerial
  rw [h1, h2, eval_append, eval_append]
  have e1 : ((w ^ 2) ^ k) ^ lo.length = 1 := by
    have : ((w ^ 2) ^ k) ^ lo.length = (w ^ lo.length) ^ (2 * k) := by
      rw [← pow_mul, ← pow_mul, ← pow_mul]; congr 1; ring
    rw [this, hw, pow_mul]; simp
  have e2 : (w * (w ^ 2) ^ k) ^ lo.length = -1 := by
    rw [mul_pow, e1, hw]; ring
  rw [e1, e2]
  constructor <;> ring

end Ring

/-! ## 3. bit reversal -/

/-- bit reversal on `k` bits (spec) -/
def brev : Nat → Nat → Nat
  | 0, _ => 0
  | k + 1, a => (a % 2) * 2 ^ k + brev k (a / 2)

theorem brev_lt (k a : Nat) : brev k a < 2 ^ k := by
  induction k generalizing a with
  | zero => simp [brev]
  | succ k ih =>
    have := ih (a / 2)
    have h2 : a % 2 < 2 := Nat.mod_lt _ (by omega)
    rw [brev, pow_succ]
    nlinarith

@[simp] theorem brev_zero (k : Nat) : brev k 0 = 0 := by
  induction k with
  | zero => rfl
  | succ k ih => simp [brev, ih]

theorem brev_succ' (k a : Nat) : brev (k + 1) a = 2 * brev k (a % 2 ^ k) + a / 2 ^ k % 2 := by
  induction k generalizing a with
  | zero => simp [brev]
  | succ k ih =>
    rw [brev, ih (a / 2), brev]
    have e1 : a % 2 ^ (k + 1) % 2 = a % 2 :=
      Nat.mod_mod_of_dvd _ (dvd_pow_self 2 (Nat.succ_ne_zero k))
    have e2 : a % 2 ^ (k + 1) / 2 = a / 2 % 2 ^ k := by
      rw [pow_succ', Nat.mod_mul_right_div_self]
    have e3 : a / 2 / 2 ^ k = a / 2 ^ (k + 1) := by
      rw [Nat.div_div_eq_div_mul, pow_succ']
    rw [e1, e2, e3, pow_succ]
    ring

theorem brev_brev (k a : Nat) (h : a < 2 ^ k) : brev k (brev k a) = a := by
  induction k generalizing a with
  | zero => simp at h; simp [brev, h]
  | succ k ih =>
    have hc := brev_lt k (a / 2)
    have ha2 : a / 2 < 2 ^ k := by rw [pow_succ] at h; omega
    rw [brev_succ', brev]
    have e1 : (a % 2 * 2 ^ k + brev k (a / 2)) % 2 ^ k = brev k (a / 2) := by
      rw [Nat.add_comm, Nat.add_mul_mod_self_right, Nat.mod_eq_of_lt hc]
    have e2 : (a % 2 * 2 ^ k + brev k (a / 2)) / 2 ^ k = a % 2 := by
      rw [Nat.add_comm, Nat.add_mul_div_right _ _ (by positivity), Nat.div_eq_of_lt hc]; simp
    rw [e1, e2, ih _ ha2]
    omega

theorem brev_shift (n m a : Nat) (h : a < 2 ^ n) : brev (n + m) a = brev n a * 2 ^ m := by
  induction n generalizing a with
  | zero => simp at h; simp [h]
  | succ n ih =>
    have ha2 : a / 2 < 2 ^ n := by rw [pow_succ] at h; omega
    have : n + 1 + m = (n + m) + 1 := by omega
    rw [this, brev, ih _ ha2, brev, pow_add]
    ring

theorem brev_even (k c : Nat) : brev (k + 1) (2 * c) = brev k c := by
  rw [brev]; simp

theorem brev_odd (k c : Nat) : brev (k + 1) (2 * c + 1) = brev k c + 2 ^ k := by
  rw [brev]
  have h1 : (2 * c + 1) % 2 = 1 := by omega
  have h2 : (2 * c + 1) / 2 = c := by omega
  rw [h1, h2]; ring

theorem foldl_rev (a n : Nat) : ∀ (s r0 : Nat),
    (List.range' s n).foldl (fun r i => r * 2 + (a >>> i) % 2) r0 = r0 * 2 ^ n + brev n (a >>> s) := by
  induction n with
  | zero => intro s r0; simp [brev]
  | succ n ih =>
    intro s r0
    rw [List.range'_succ, List.foldl_cons, ih, brev, Nat.shiftRight_succ, pow_succ]
    ring

theorem reverseBits64_eq (a : Nat) : reverseBits64 a = brev 64 a := by
  unfold reverseBits64
  rw [List.range_eq_range', foldl_rev]; simp

/-- the model's `bitrev` (64-bit reverse, then shift) is bit reversal on `k` bits -/
theorem bitrev_eq (k a : Nat) (hk : k ≤ 64) (ha : a < 2 ^ k) : bitrev a k = brev k a := by
  unfold bitrev
  rw [reverseBits64_eq]
  have : 64 = k + (64 - k) := by omega
  rw [this, brev_shift k (64 - k) a ha, ← this]
  rcases Nat.eq_zero_or_pos k with h0 | hpos
  · subst h0; simp at ha; subst ha; simp
  · rw [Nat.mod_eq_of_lt (by omega), Nat.shiftRight_eq_div_pow, Nat.mul_div_cancel _ (by positivity)]

/-- bit-reversed order of `0 … 2^n − 1`, top-down recursion -/
def brOrder : Nat → List Nat
  | 0 => [0]
  | n + 1 => (brOrder n).map (fun i => 2 * i) ++ (brOrder n).map (fun i => 2 * i + 1)

/-- the same order, bottom-up recursion (the one the iterative loops follow) -/
def brU : Nat → List Nat
  | 0 => [0]
  | l + 1 => (brU l).flatMap (fun b => [b, b + 2 ^ l])

theorem range_two_mul (n : Nat) :
    List.range (2 * n) = (List.range n).flatMap (fun c => [2 * c, 2 * c + 1]) := by
  induction n with
  | zero => rfl
  | succ n ih =>
    have : 2 * (n + 1) = 2 * n + 1 + 1 := by omega
    rw [this, List.range_succ, List.range_succ, ih, List.range_succ, List.flatMap_append]
    simp

theorem brU_eq (k : Nat) : brU k = (List.range (2 ^ k)).map (brev k) := by
  induction k with
  | zero => rfl
  | succ k ih =>
    rw [brU, ih, pow_succ', range_two_mul, List.flatMap_map, List.map_flatMap]
    apply List.flatMap_congr
    intro c _
    simp [brev_even, brev_odd]

theorem brOrder_eq (k : Nat) : brOrder k = (List.range (2 ^ k)).map (brev k) := by
  induction k with
  | zero => rfl
  | succ k ih =>
    have : 2 ^ (k + 1) = 2 ^ k + 2 ^ k := by rw [pow_succ]; omega
    rw [brOrder, ih, this, List.range_add, List.map_append, List.map_map, List.map_map, List.map_map]
    congr 1
    · apply List.map_congr_left
      intro a ha
      have ha := List.mem_range.mp ha
      simp only [Function.comp, brev_succ', Nat.mod_eq_of_lt ha, Nat.div_eq_of_lt ha]; simp
    · apply List.map_congr_left
      intro a ha
      have ha := List.mem_range.mp ha
      simp only [Function.comp, brev_succ']
      have e1 : (2 ^ k + a) % 2 ^ k = a := by
        rw [Nat.add_mod_left, Nat.mod_eq_of_lt ha]
      have e2 : (2 ^ k + a) / 2 ^ k = 1 := by
        rw [Nat.add_div_left _ (by positivity), Nat.div_eq_of_lt ha]
      rw [e1, e2]

theorem brOrder_eq_brU (k : Nat) : brOrder k = brU k := by rw [brOrder_eq, brU_eq]

theorem brOrder_eq_bitrev (k : Nat) (hk : k ≤ 64) :
    brOrder k = (List.range (2 ^ k)).map (fun i => bitrev i k) := by
  rw [brOrder_eq]
  apply List.map_congr_left
  intro a ha
  rw [bitrev_eq k a hk (List.mem_range.mp ha)]


section Chunks
variable {F : Type}

/-! ## 4. chunk maps -/

theorem mapChunks_nil (f : List F → List F) (cs fuel : Nat) : mapChunks f cs fuel [] = [] := by
  cases fuel <;> rfl

/-- one step of `chunks_mut(cs).for_each(f)` -/
theorem mapChunks_append (f : List F → List F) (cs fuel : Nat) (a b : List F)
    (ha : a.length = cs) (hcs : 0 < cs) :
    mapChunks f cs (fuel + 1) (a ++ b) = f a ++ mapChunks f cs fuel b := by
  cases a with
  | nil => simp at ha; omega
  | cons x a =>
    rw [List.cons_append, mapChunks, ← List.cons_append, ← ha, List.take_left, List.drop_left]

theorem mapChunks_flatten (f : List F → List F) (s : Nat) (hs : 0 < s) (cs : List (List F))
    (hcs : ∀ c ∈ cs, c.length = s) (fuel : Nat) (hf : cs.length ≤ fuel) :
    mapChunks f s fuel cs.flatten = (cs.map f).flatten := by
  induction cs generalizing fuel with
  | nil => simp [mapChunks_nil]
  | cons c cs ih =>
    cases fuel with
    | zero => simp at hf
    | succ fuel =>
      rw [List.flatten_cons, mapChunks_append f s fuel c _ (hcs c (by simp)) hs,
        ih (fun c hc => hcs c (by simp [hc])) fuel (by simpa using hf)]
      simp

theorem length_flatten_const (s : Nat) (cs : List (List F)) (hcs : ∀ c ∈ cs, c.length = s) :
    cs.flatten.length = cs.length * s := by
  induction cs with
  | nil => simp
  | cons c cs ih =>
    rw [List.flatten_cons, List.length_append, ih (fun c hc => hcs c (by simp [hc])),
      hcs c (by simp), List.length_cons]
    ring

theorem flatten_pairs (cs : List (List F)) (p q : List F → List F) :
    (cs.flatMap (fun c => [p c, q c])).flatten = (cs.map (fun c => p c ++ q c)).flatten := by
  induction cs with
  | nil => rfl
  | cons c cs ih => simp [List.flatMap_cons, ih]

theorem flatMap_pair_congr {α β γ : Type} (l1 : List α) (l2 : List β) (f1 f2 : α → γ) (g1 g2 : β → γ)
    (h1 : l1.map f1 = l2.map g1) (h2 : l1.map f2 = l2.map g2) :
    l1.flatMap (fun c => [f1 c, f2 c]) = l2.flatMap (fun b => [g1 b, g2 b]) := by
  induction l1 generalizing l2 with
  | nil =>
    cases l2 with
    | nil => rfl
    | cons b l2 => simp at h1
  | cons a l1 ih =>
    cases l2 with
    | nil => simp at h1
    | cons b l2 =>
      simp only [List.map_cons, List.cons.injEq] at h1 h2
      simp only [List.flatMap_cons, h1.1, h2.1, ih l2 h1.2 h2.2]

theorem flatten_singletons (cs : List (List F)) (g : List F → F)
    (h : ∀ c ∈ cs, c = [g c]) : cs.flatten = cs.map g := by
  induction cs with
  | nil => rfl
  | cons c cs ih =>
    rw [List.flatten_cons, ih (fun c hc => h c (by simp [hc])), List.map_cons]
    conv_lhs => rw [h c (by simp)]
    rfl

/-- split a list of length `m·s` into `m` chunks of length `s` -/
theorem exists_chunks (s m : Nat) (l : List F) (hl : l.length = m * s) :
    ∃ cs : List (List F), cs.flatten = l ∧ cs.length = m ∧ ∀ c ∈ cs, c.length = s := by
  induction m generalizing l with
  | zero =>
    refine ⟨[], ?_, rfl, by simp⟩
    have : l.length = 0 := by simpa using hl
    simp [List.length_eq_zero_iff.mp this]
  | succ m ih =>
    obtain ⟨cs, h1, h2, h3⟩ := ih (l.drop s) (by rw [List.length_drop, hl]; rw [Nat.succ_mul]; omega)
    refine ⟨l.take s :: cs, ?_, by simp [h2], ?_⟩
    · rw [List.flatten_cons, h1, List.take_append_drop]
    · intro c hc
      rcases List.mem_cons.mp hc with rfl | hc
      · rw [List.length_take, hl, Nat.succ_mul]; omega
      · exact h3 c hc

end Chunks

section IO
variable {F : Type} [CommRing F]

/-! ## 5. `io_helper` (DIF, in-order input, bit-reversed output) -/

theorem ceil_div_pow (a b : Nat) (h : b ≤ a) : (2 ^ a + 2 ^ b - 1) / 2 ^ b = 2 ^ (a - b) := by
  have hpos : 0 < 2 ^ b := by positivity
  have e : 2 ^ a = 2 ^ (a - b) * 2 ^ b := by rw [← pow_add]; congr 1; omega
  rw [e]
  have : 2 ^ (a - b) * 2 ^ b + 2 ^ b - 1 = (2 ^ b - 1) + 2 ^ (a - b) * 2 ^ b := by omega
  rw [this, Nat.add_mul_div_right _ _ hpos, Nat.div_eq_of_lt (by omega)]
  simp

theorem stepBy_pow_table (a b : Nat) (h : b ≤ a) (w : F) :
    stepBy (2 ^ b) (computePowersSerial (2 ^ a) w) = computePowersSerial (2 ^ (a - b)) (w ^ 2 ^ b) := by
  rw [stepBy_computePowersSerial _ (by positivity), ceil_div_pow a b h]

/-- state of the `roots` / `step` / `first` variables of `io_helper` on entry to pass `l`
    (`2^l` chunks): untouched cache (first pass / later passes) or a compacted table -/
def RootsInv (k : Nat) (w : F) (l : Nat) (roots : List F) (step : Nat) (first : Bool) : Prop :=
  (roots = computePowersSerial (2 ^ (k - 1)) w ∧ first = true ∧ step = 1 ∧ l = 0) ∨
  (roots = computePowersSerial (2 ^ (k - 1)) w ∧ first = false ∧ 1 ≤ l ∧ step = 2 ^ (l - 1)) ∨
  (roots = computePowersSerial (2 ^ (k - l)) (w ^ 2 ^ (l - 1)) ∧ first = false ∧ 1 ≤ l ∧ step = 1 ∧
    128 ≤ 2 ^ (l - 1))

/-- both root-compaction branches of `io_helper` only re-index the table: the roots used by pass `l`
    are the first `gap = 2^j` powers of `root^numChunks` -/
theorem io_roots_step (k l j : Nat) (h : l + j + 1 = k) (w : F) (roots : List F) (step : Nat)
    (first : Bool) (hR : RootsInv k w l roots step first) (rs : List F × Nat)
    (hrs : rs = if 2 ^ l ≥ MIN_NUM_CHUNKS_FOR_COMPACTION then
        ((if !first then stepBy (step * 2) roots else roots), 1) else (roots, 2 ^ l)) :
    stepBy rs.2 rs.1 = computePowersSerial (2 ^ j) (w ^ 2 ^ l) ∧
      RootsInv k w (l + 1) rs.1 rs.2 false := by
  have hj : k - 1 - l = j := by omega
  have hj' : k - (l + 1) = j := by omega
  unfold MIN_NUM_CHUNKS_FOR_COMPACTION at hrs
  rcases hR with ⟨hr, hf, hs, hl⟩ | ⟨hr, hf, hl, hs⟩ | ⟨hr, hf, hl, hs, hbig⟩
  · subst hl hf hs
    have hk1 : k - 1 = j := by omega
    by_cases hc : (2 : Nat) ^ 0 ≥ 128
    · simp at hc
    · rw [if_neg hc] at hrs
      subst hrs
      simp only [pow_zero, pow_one, stepBy_one]
      refine ⟨by rw [hr, hk1], Or.inr (Or.inl ⟨hr, rfl, by omega, by simp⟩)⟩
  · subst hf
    by_cases hc : (2 : Nat) ^ l ≥ 128
    · rw [if_pos hc] at hrs
      subst hrs
      simp only [Bool.not_false, if_true, stepBy_one]
      have e : step * 2 = 2 ^ l := by rw [hs, ← pow_succ]; congr 1; omega
      have hst : stepBy (step * 2) roots = computePowersSerial (2 ^ j) (w ^ 2 ^ l) := by
        rw [e, hr, stepBy_pow_table (k - 1) l (by omega) w, hj]
      refine ⟨hst, Or.inr (Or.inr ⟨?_, rfl, by omega, rfl, ?_⟩)⟩
      · rw [hst, hj']; simp
      · simpa using hc
    · rw [if_neg hc] at hrs
      subst hrs
      refine ⟨?_, Or.inr (Or.inl ⟨hr, rfl, by omega, by simp⟩)⟩
      show stepBy (2 ^ l) roots = _
      rw [hr, stepBy_pow_table (k - 1) l (by omega) w, hj]
  · subst hf hs
    have hc : (2 : Nat) ^ l ≥ 128 := by
      have : 2 ^ l = 2 ^ (l - 1) * 2 := by rw [← pow_succ]; congr 1; omega
      omega
    rw [if_pos hc] at hrs
    subst hrs
    simp only [Bool.not_false, if_true, stepBy_one, one_mul]
    have hst : stepBy 2 roots = computePowersSerial (2 ^ j) (w ^ 2 ^ l) := by
      have := stepBy_pow_table (k - l) 1 (by omega) (w ^ 2 ^ (l - 1))
      rw [pow_one] at this
      rw [hr, this, ← pow_mul, ← pow_succ]
      congr 2
      · congr 1; omega
    refine ⟨hst, Or.inr (Or.inr ⟨?_, rfl, by omega, rfl, ?_⟩)⟩
    · rw [hst, hj']; simp
    · simpa using hc

/-- state invariant of `io_helper` after `l` passes: `2^l` chunks of length `2^(k−l)`; chunk number
    `c` is a polynomial whose values at the powers of `ω^(2^l)` are the values of the input at
    `ω^(2^l·t + brU_l[c])` -/
structure IoInv (k : Nat) (w : F) (x0 : List F) (l : Nat) (cs : List (List F)) : Prop where
  len : cs.length = 2 ^ l
  size : ∀ c ∈ cs, c.length = 2 ^ (k - l)
  ev : ∀ t : Nat, cs.map (fun c => eval c ((w ^ 2 ^ l) ^ t))
        = (brU l).map (fun b => eval x0 (w ^ (2 ^ l * t + b)))

omit [CommRing F] in
theorem length_flatMap_pair {α : Type} (cs : List α) (p q : α → List F) :
    (cs.flatMap (fun c => [p c, q c])).length = 2 * cs.length := by
  induction cs with
  | nil => rfl
  | cons c cs ih => simp only [List.flatMap_cons, List.length_append, ih, List.length_cons,
      List.length_nil]; omega

theorem io_pass (k l j : Nat) (h : l + j + 1 = k) (w : F) (hw : w ^ 2 ^ (k - 1) = -1)
    (x0 : List F) (cs : List (List F)) (hI : IoInv k w x0 l cs) :
    ∃ cs' : List (List F),
      (cs.map (chunkButterfly butterflyIO (computePowersSerial (2 ^ j) (w ^ 2 ^ l)) (2 ^ j))).flatten
        = cs'.flatten ∧ IoInv k w x0 (l + 1) cs' := by
  have hk : k - l = j + 1 := by omega
  have hk' : k - (l + 1) = j := by omega
  generalize hg : 2 ^ j = g
  generalize hζ : w ^ 2 ^ l = ζ
  have hζg : ζ ^ g = -1 := by
    rw [← hζ, ← hg, ← pow_mul, ← pow_add, show l + j = k - 1 by omega]; exact hw
  have hsz : ∀ c ∈ cs, c.length = 2 * g := by
    intro c hc; rw [hI.size c hc, hk, pow_succ, hg]; ring
  let zb := fun c : List F => zipButterfly butterflyIO (c.take g) (c.drop g) (computePowersSerial g ζ)
  have hdif : ∀ c ∈ cs, ∀ t : Nat,
      eval (zb c).1 ((ζ ^ 2) ^ t) = eval c ((ζ ^ 2) ^ t) ∧
      eval (zb c).2 ((ζ ^ 2) ^ t) = eval c (ζ * (ζ ^ 2) ^ t) := by
    intro c hc t
    have hc2 := hsz c hc
    have := dif_step (c.take g) (c.drop g) ζ g (by rw [List.length_take]; omega)
      (by rw [List.length_drop]; omega) hζg t
    rw [List.take_append_drop] at this
    exact ⟨this.1.symm, this.2.symm⟩
  have hζ2 : w ^ 2 ^ (l + 1) = ζ ^ 2 := by rw [← hζ, ← pow_mul, pow_succ]
  refine ⟨cs.flatMap (fun c => [(zb c).1, (zb c).2]), ?_, ⟨?_, ?_, ?_⟩⟩
  · rw [flatten_pairs]; rfl
  · rw [length_flatMap_pair, hI.len, pow_succ]; ring
  · intro c' hc'
    obtain ⟨c, hc, hm⟩ := List.mem_flatMap.mp hc'
    have hc2 := hsz c hc
    have hlen := zipButterfly_length butterflyIO (c.take g) (c.drop g) (computePowersSerial g ζ)
    rw [hk', hg]
    simp only [List.mem_cons, List.not_mem_nil, or_false] at hm
    rcases hm with rfl | rfl
    · rw [hlen.1, List.length_take]; omega
    · rw [hlen.2, List.length_drop]; omega
  · intro t
    rw [hζ2, List.map_flatMap, brU, List.map_flatMap]
    have h1 : cs.map (fun c => eval (zb c).1 ((ζ ^ 2) ^ t))
        = (brU l).map (fun b => eval x0 (w ^ (2 ^ (l + 1) * t + b))) := by
      have := hI.ev (2 * t)
      rw [hζ] at this
      rw [show (fun b => eval x0 (w ^ (2 ^ (l + 1) * t + b)))
            = (fun b => eval x0 (w ^ (2 ^ l * (2 * t) + b))) by
          funext b; rw [pow_succ]; congr 2; ring, ← this]
      apply List.map_congr_left
      intro c hc
      rw [(hdif c hc t).1, ← pow_mul]
    have h2 : cs.map (fun c => eval (zb c).2 ((ζ ^ 2) ^ t))
        = (brU l).map (fun b => eval x0 (w ^ (2 ^ (l + 1) * t + (b + 2 ^ l)))) := by
      have := hI.ev (2 * t + 1)
      rw [hζ] at this
      rw [show (fun b => eval x0 (w ^ (2 ^ (l + 1) * t + (b + 2 ^ l))))
            = (fun b => eval x0 (w ^ (2 ^ l * (2 * t + 1) + b))) by
          funext b; rw [pow_succ]; congr 2; ring, ← this]
      apply List.map_congr_left
      intro c hc
      rw [(hdif c hc t).2, ← pow_mul, ← pow_succ']
    exact flatMap_pair_congr cs (brU l) _ _ _ _ h1 h2

theorem ioLoop_spec (k : Nat) (w : F) (hw : w ^ 2 ^ (k - 1) = -1) (x0 : List F) :
    ∀ (j l : Nat), l + j = k → ∀ (fuel : Nat) (cs : List (List F)) (roots : List F) (step : Nat)
      (first : Bool), j < fuel → IoInv k w x0 l cs → RootsInv k w l roots step first →
      ioLoop fuel cs.flatten roots step first (2 ^ j / 2) = (brU k).map (fun b => eval x0 (w ^ b)) := by
  intro j
  induction j with
  | zero =>
    intro l hl fuel cs roots step first hf hI _
    obtain ⟨fuel, rfl⟩ : ∃ f, fuel = f + 1 := ⟨fuel - 1, by omega⟩
    have hl : l = k := by omega
    subst hl
    rw [ioLoop, if_neg (by simp)]
    have h0 := hI.ev 0
    simp only [pow_zero, Nat.mul_zero, Nat.zero_add] at h0
    rw [← h0]
    apply flatten_singletons
    intro c hc
    have := hI.size c hc
    simp only [Nat.sub_self, pow_zero] at this
    obtain ⟨a, rfl⟩ := List.length_eq_one_iff.mp this
    simp
  | succ j ih =>
    intro l hl fuel cs roots step first hf hI hR
    obtain ⟨fuel, rfl⟩ : ∃ f, fuel = f + 1 := ⟨fuel - 1, by omega⟩
    have hgap : 2 ^ (j + 1) / 2 = 2 ^ j := by rw [pow_succ]; simp
    have hlen : cs.flatten.length = 2 ^ k := by
      rw [length_flatten_const _ cs hI.size, hI.len, ← pow_add]; congr 1; omega
    have hnc : cs.flatten.length / (2 * 2 ^ j) = 2 ^ l := by
      rw [hlen, ← pow_succ', show k = l + (j + 1) by omega, pow_add,
        Nat.mul_div_cancel _ (by positivity)]
    rw [ioLoop, hgap, if_pos (by positivity)]
    simp only [hnc]
    generalize hrs : (if 2 ^ l ≥ MIN_NUM_CHUNKS_FOR_COMPACTION then
        ((if !first then stepBy (step * 2) roots else roots), 1) else (roots, 2 ^ l)) = rs
    obtain ⟨h1, h2⟩ := io_roots_step k l j (by omega) w roots step first hR rs hrs.symm
    obtain ⟨cs', hfl, hI'⟩ := io_pass k l j (by omega) w hw x0 cs hI
    have hab : applyButterfly butterflyIO cs.flatten rs.1 rs.2 (2 * 2 ^ j) (2 ^ j) = cs'.flatten := by
      unfold applyButterfly
      rw [h1, mapChunks_flatten _ (2 * 2 ^ j) (by positivity) cs ?_ _ ?_, hfl]
      · intro c hc; rw [hI.size c hc, show k - l = j + 1 by omega, pow_succ']
      · rw [hlen, hI.len]; exact Nat.pow_le_pow_right (by omega) (by omega)
    rw [hab]
    have := ih (l + 1) (by omega) fuel cs' rs.1 rs.2 false (by omega) hI' h2
    rw [← this]

/-- `io_helper` returns the values at the powers of `ω` in bit-reversed order -/
theorem ioHelper_spec (d : Domain F) (xi : List F) (w : F) (k : Nat) (hd : d.size = 2 ^ k)
    (hx : xi.length = 2 ^ k) (hw : k = 0 ∨ w ^ 2 ^ (k - 1) = -1) :
    ioHelper d xi w = (brU k).map (fun i => eval xi (w ^ i)) := by
  rcases Nat.eq_zero_or_pos k with h0 | hpos
  · subst h0
    obtain ⟨a, rfl⟩ := List.length_eq_one_iff.mp (by simpa using hx)
    simp [ioHelper, ioLoop, brU]
  · have hw : w ^ 2 ^ (k - 1) = -1 := by
      rcases hw with h | h
      · omega
      · exact h
    unfold ioHelper rootsOfUnity
    have hhalf : 2 ^ k / 2 = 2 ^ (k - 1) := by
      obtain ⟨k', rfl⟩ : ∃ k', k = k' + 1 := ⟨k - 1, by omega⟩
      rw [pow_succ]; simp
    have := ioLoop_spec k w hw xi k 0 (by omega) (xi.length + 1) [xi] (computePowersSerial (2 ^ (k - 1)) w)
      1 true (by rw [hx]; have := Nat.lt_two_pow_self (n := k); omega)
      ⟨by simp, by simp [hx], by intro t; simp [brU]⟩ (Or.inl ⟨rfl, rfl, rfl, rfl⟩)
    simp only [List.flatten_cons, List.flatten_nil, List.append_nil] at this
    rw [hhalf] at this
    rw [hd, hhalf, show xi.length / 2 = 2 ^ (k - 1) by rw [hx, hhalf]]
    exact this

end IO

section Derange
variable {F : Type}

/-! ## 6. `derange` -/

theorem getElem?_swapIfInBounds (a : Array F) (i j k : Nat) (hi : i < a.size) (hj : j < a.size) :
    (a.swapIfInBounds i j)[k]? = if j = k then a[i]? else if i = k then a[j]? else a[k]? := by
  rw [Array.swapIfInBounds_def, dif_pos hi, dif_pos hj, Array.getElem?_swap]
  simp [hi, hj]

theorem swapPass_congr (r r' : Nat → Nat) (idxs : List Nat) (h : ∀ i ∈ idxs, r i = r' i) (a : Array F) :
    swapPass r idxs a = swapPass r' idxs a := by
  unfold swapPass
  induction idxs generalizing a with
  | nil => rfl
  | cons i idxs ih =>
    simp only [List.foldl_cons]
    rw [h i (by simp), ih (fun j hj => h j (by simp [hj]))]

theorem swap_step (r : Nat → Nat) (n : Nat) (xs : Array F)
    (hr : ∀ i < n, r i < n) (hinv : ∀ i < n, r (r i) = i) (s : Nat) (hs : s < n) (a : Array F)
    (ha : a.size = n)
    (hP : ∀ i < n, a[i]? = if (i < s ∨ r i < s) then xs[r i]? else xs[i]?) :
    (if s < r s then a.swapIfInBounds s (r s) else a).size = n ∧
    ∀ i < n, (if s < r s then a.swapIfInBounds s (r s) else a)[i]?
      = if (i < s + 1 ∨ r i < s + 1) then xs[r i]? else xs[i]? := by
  by_cases h : s < r s
  · rw [if_pos h]
    refine ⟨by simp [ha], ?_⟩
    intro i hi
    rw [getElem?_swapIfInBounds a s (r s) i (by omega) (by rw [ha]; exact hr s hs)]
    by_cases h1 : r s = i
    · rw [if_pos h1, hP s hs, if_neg (by omega)]
      have : r i = s := by rw [← h1, hinv s hs]
      rw [if_pos (by omega), this]
    · rw [if_neg h1]
      by_cases h2 : s = i
      · rw [if_pos h2, hP (r s) (hr s hs), hinv s hs, if_neg (by omega), if_pos (by omega), h2]
      · rw [if_neg h2, hP i hi]
        have h3 : r i ≠ s := by
          intro h3; apply h1; rw [← h3, hinv i hi]
        by_cases hc : i < s ∨ r i < s
        · rw [if_pos hc, if_pos (by omega)]
        · rw [if_neg hc, if_neg (by omega)]
  · rw [if_neg h]
    refine ⟨ha, ?_⟩
    intro i hi
    rw [hP i hi]
    by_cases hc : i < s ∨ r i < s
    · rw [if_pos hc, if_pos (by omega)]
    · rw [if_neg hc]
      by_cases hc' : i < s + 1 ∨ r i < s + 1
      · rw [if_pos hc']
        have : i = s ∨ r i = s := by omega
        rcases this with rfl | h3
        · have : r i = i := by omega
          rw [this]
        · have : i = r s := by rw [← h3, hinv i hi]
          have h4 : r i = i := by omega
          rw [h4]
      · rw [if_neg hc']

/-- invariant of the conditional-swap loop over `s, s+1, …, s+len-1` for an involution `r` -/
theorem swapPass_range' (r : Nat → Nat) (n : Nat) (xs : Array F)
    (hr : ∀ i < n, r i < n) (hinv : ∀ i < n, r (r i) = i) :
    ∀ (len s : Nat) (a : Array F), s + len ≤ n → a.size = n →
      (∀ i < n, a[i]? = if (i < s ∨ r i < s) then xs[r i]? else xs[i]?) →
      (swapPass r (List.range' s len) a).size = n ∧
      ∀ i < n, (swapPass r (List.range' s len) a)[i]?
        = if (i < s + len ∨ r i < s + len) then xs[r i]? else xs[i]? := by
  intro len
  induction len with
  | zero => intro s a _ ha hP; exact ⟨ha, hP⟩
  | succ len ih =>
    intro s a hle ha hP
    obtain ⟨h1, h2⟩ := swap_step r n xs hr hinv s (by omega) a ha hP
    have := ih (s + 1) _ (by omega) h1 h2
    rw [List.range'_succ]
    unfold swapPass at this ⊢
    rw [List.foldl_cons]
    rw [show s + (len + 1) = s + 1 + len by omega]
    exact this

/-- the swap loop started at 1 and run to `n-2` (as `derange` does) realises `r` when `r 0 = 0` -/
theorem swapPass_derange (r : Nat → Nat) (n : Nat) (hn : 0 < n) (xs : Array F) (hxs : xs.size = n)
    (hr : ∀ i < n, r i < n) (hinv : ∀ i < n, r (r i) = i) (h0 : r 0 = 0) :
    (swapPass r (List.range' 1 (n - 2)) xs).size = n ∧
    ∀ i < n, (swapPass r (List.range' 1 (n - 2)) xs)[i]? = xs[r i]? := by
  have hP1 : ∀ i < n, xs[i]? = if (i < 1 ∨ r i < 1) then xs[r i]? else xs[i]? := by
    intro i hi
    by_cases hc : i < 1 ∨ r i < 1
    · rw [if_pos hc]
      have : i = 0 := by
        rcases hc with h | h
        · omega
        · have : r i = 0 := by omega
          rw [← hinv i hi, this, h0]
      subst this; rw [h0]
    · rw [if_neg hc]
  obtain ⟨h1, h2⟩ := swapPass_range' r n xs hr hinv (n - 2) 1 xs (by omega) hxs hP1
  refine ⟨h1, ?_⟩
  intro i hi
  rw [h2 i hi]
  by_cases hc : i < 1 + (n - 2) ∨ r i < 1 + (n - 2)
  · rw [if_pos hc]
  · rw [if_neg hc]
    have := hr i hi
    have : r i = i := by omega
    rw [this]

end Derange

section DerangeSpec
variable {F : Type}

theorem derange_spec (xs : List F) (k : Nat) (hk : k ≤ 64) (hx : xs.length = 2 ^ k) :
    (derange xs k).length = 2 ^ k ∧ ∀ i < 2 ^ k, (derange xs k)[i]? = xs[brev k i]? := by
  unfold derange
  rw [swapPass_congr (fun i => bitrev i k) (brev k)]
  · have hpos : 0 < 2 ^ k := by positivity
    obtain ⟨h1, h2⟩ := swapPass_derange (brev k) (2 ^ k) hpos xs.toArray (by simpa using hx)
      (fun i _ => brev_lt k i) (fun i hi => brev_brev k i hi) (brev_zero k)
    rw [hx]
    refine ⟨by simpa using h1, ?_⟩
    intro i hi
    have := h2 i hi
    simpa using this
  · intro i hi
    rw [List.mem_range'_1] at hi
    exact bitrev_eq k i hk (by omega)

theorem derange_getElem? (xs : List F) (k : Nat) (hk : k ≤ 64) (hx : xs.length = 2 ^ k) (i : Nat)
    (hi : i < 2 ^ k) : (derange xs k)[i]? = xs[brev k i]? := (derange_spec xs k hk hx).2 i hi

theorem length_derange (xs : List F) (k : Nat) (hk : k ≤ 64) (hx : xs.length = 2 ^ k) :
    (derange xs k).length = 2 ^ k := (derange_spec xs k hk hx).1

/-- `derange` of a tabulated function -/
theorem derange_map (f : Nat → F) (k : Nat) (hk : k ≤ 64) :
    derange ((List.range (2 ^ k)).map f) k = (List.range (2 ^ k)).map (fun i => f (brev k i)) := by
  have hx : ((List.range (2 ^ k)).map f).length = 2 ^ k := by simp
  apply List.ext_getElem?
  intro i
  by_cases hi : i < 2 ^ k
  · rw [derange_getElem? _ k hk hx i hi]
    simp [hi, brev_lt k i]
  · rw [List.getElem?_eq_none (by rw [length_derange _ k hk hx]; omega),
      List.getElem?_eq_none (by simp; omega)]

/-- `derange` is an involution -/
theorem derange_derange (xs : List F) (k : Nat) (hk : k ≤ 64) (hx : xs.length = 2 ^ k) :
    derange (derange xs k) k = xs := by
  have hl := length_derange xs k hk hx
  apply List.ext_getElem?
  intro i
  by_cases hi : i < 2 ^ k
  · rw [derange_getElem? _ k hk hl i hi, derange_getElem? _ k hk hx _ (brev_lt k i), brev_brev k i hi]
  · rw [List.getElem?_eq_none (by rw [length_derange _ k hk hl]; omega),
      List.getElem?_eq_none (by omega)]

end DerangeSpec

/-! ## 7. the in-order forward transform -/

theorem isPowerOfTwo_two_pow (k : Nat) : isPowerOfTwo (2 ^ k) = true := by
  unfold isPowerOfTwo
  rw [Nat.log2_two_pow]
  simp

theorem log2_two_pow (k : Nat) : log2 (2 ^ k) = k := by
  unfold log2
  rw [if_neg (by positivity), isPowerOfTwo_two_pow, if_pos rfl, Nat.log2_two_pow]

section Fwd
variable {F : Type} [CommRing F] [DecidableEq F]

/-- the coset pre-scaling of `in_order_fft_in_place` / `degree_aware_fft_in_place` -/
theorem coset_scale (d : Domain F) (xs : List F) :
    (if d.offset ≠ 1 then distributePowers xs d.offset else xs).length = xs.length ∧
    ∀ y, eval (if d.offset ≠ 1 then distributePowers xs d.offset else xs) y = eval xs (d.offset * y) := by
  by_cases h : d.offset ≠ 1
  · rw [if_pos h]
    exact ⟨by unfold distributePowers; simp, fun y => eval_distributePowers xs d.offset y⟩
  · rw [if_neg h]
    have : d.offset = 1 := by simpa using h
    exact ⟨rfl, fun y => by rw [this, one_mul]⟩

theorem half_pow (k : Nat) (hk : 0 < k) : 2 ^ k / 2 = 2 ^ (k - 1) := by
  obtain ⟨k', rfl⟩ : ∃ k', k = k' + 1 := ⟨k - 1, by omega⟩
  rw [pow_succ]; simp

omit [DecidableEq F] in
theorem root_hyp (k : Nat) (n : Nat) (hn : n = 2 ^ k) (g : F) (hg : n = 1 ∨ g ^ (n / 2) = -1) :
    k = 0 ∨ g ^ 2 ^ (k - 1) = -1 := by
  rcases Nat.eq_zero_or_pos k with h0 | hpos
  · exact Or.inl h0
  · right
    rcases hg with h | h
    · rw [hn] at h
      have : 2 ^ k ≠ 1 := by
        have := Nat.one_lt_two_pow (n := k) (by omega); omega
      exact absurd h this
    · rwa [hn, half_pow k hpos] at h

/-- forward transform on the full-size input -/
theorem inOrderFft_spec (d : Domain F) (xs : List F) (k : Nat) (hk : k ≤ 64) (hd : d.size = 2 ^ k)
    (hx : xs.length = d.size) (hg : k = 0 ∨ d.groupGen ^ 2 ^ (k - 1) = -1) :
    inOrderFft d xs = (elements d).map (eval xs) := by
  obtain ⟨hlen, hev⟩ := coset_scale d xs
  unfold inOrderFft fftHelper
  generalize (if d.offset ≠ 1 then distributePowers xs d.offset else xs) = xs' at hlen hev ⊢
  have hx' : xs'.length = 2 ^ k := by rw [hlen, hx, hd]
  simp only [show (FFTOrder.II = FFTOrder.OI) = False by simp, if_false, if_true]
  rw [hx', log2_two_pow, ioHelper_spec d xs' d.groupGen k hd hx' hg, brU_eq, List.map_map,
    derange_map _ k hk, elements_eq, hd, List.map_map]
  apply List.map_congr_left
  intro i hi
  simp only [Function.comp, brev_brev k i (List.mem_range.mp hi), hev]

end Fwd

section OI
variable {F : Type} [CommRing F]

/-! ## 8. `oi_helper` (DIT, bit-reversed input, in-order output) -/

theorem eval_eq_sum (n : Nat) (c : Nat → F) (y : F) :
    eval ((List.range n).map c) y = ∑ i ∈ Finset.range n, c i * y ^ i := by
  induction n generalizing c with
  | zero => simp
  | succ n ih =>
    rw [List.range_succ_eq_map, List.map_cons, List.map_map, eval_cons, ih, Finset.sum_range_succ',
      Finset.mul_sum]
    simp only [Function.comp, pow_zero, mul_one]
    rw [add_comm]
    congr 1
    apply Finset.sum_congr rfl
    intro i _
    rw [pow_succ]; ring

/-- even/odd split: `C(y) = E(y²) + y·O(y²)` -/
theorem eval_even_odd (m : Nat) (c : Nat → F) (y : F) :
    eval ((List.range (2 * m)).map c) y
      = eval ((List.range m).map (fun u => c (2 * u))) (y ^ 2)
        + y * eval ((List.range m).map (fun u => c (2 * u + 1))) (y ^ 2) := by
  rw [eval_eq_sum, eval_eq_sum, eval_eq_sum]
  induction m with
  | zero => simp
  | succ m ih =>
    rw [show 2 * (m + 1) = 2 * m + 1 + 1 by omega, Finset.sum_range_succ, Finset.sum_range_succ, ih,
      Finset.sum_range_succ, Finset.sum_range_succ]
    rw [← pow_mul, pow_succ (y) (2 * m)]
    ring

omit [CommRing F] in
theorem zipButterfly_map_range (g : F → F → F → F × F) (m : Nat) (a b r : Nat → F) :
    zipButterfly g ((List.range m).map a) ((List.range m).map b) ((List.range m).map r)
      = ((List.range m).map (fun t => (g (a t) (b t) (r t)).1),
         (List.range m).map (fun t => (g (a t) (b t) (r t)).2)) := by
  induction m generalizing a b r with
  | zero => rfl
  | succ m ih =>
    simp only [List.range_succ_eq_map, List.map_cons, List.map_map, zipButterfly]
    rw [ih]
    rfl

/-- the `u`-th entry is `x (b + u·s)`: the sub-sequence of stride `s` starting at `b` -/
def decim (x : Nat → F) (m s b : Nat) : List F := (List.range m).map (fun u => x (b + u * s))

/-- DIT step on one chunk: from the transforms of the even and odd sub-sequences to the transform of
    the sequence -/
theorem oi_chunk (x : Nat → F) (m s b : Nat) (z : F) (hz : z ^ m = -1) :
    chunkButterfly butterflyOI (computePowersSerial m z) m
        ((List.range m).map (fun t => eval (decim x m (2 * s) b) ((z ^ 2) ^ t))
          ++ (List.range m).map (fun t => eval (decim x m (2 * s) (b + s)) ((z ^ 2) ^ t)))
      = (List.range (2 * m)).map (fun t => eval (decim x (2 * m) s b) (z ^ t)) := by
  have hsplit : ∀ y : F, eval (decim x (2 * m) s b) y
      = eval (decim x m (2 * s) b) (y ^ 2) + y * eval (decim x m (2 * s) (b + s)) (y ^ 2) := by
    intro y
    have hE : (fun u => x (b + 2 * u * s)) = fun u => x (b + u * (2 * s)) := by
      funext u; congr 1; ring
    have hO : (fun u => x (b + (2 * u + 1) * s)) = fun u => x (b + s + u * (2 * s)) := by
      funext u; congr 1; ring
    unfold decim
    rw [eval_even_odd]
    simp only [hE, hO]
  unfold chunkButterfly
  simp only []
  rw [List.take_left' (by simp), List.drop_left' (by simp), computePowersSerial_eq,
    zipButterfly_map_range]
  simp only [butterflyOI]
  rw [show 2 * m = m + m by omega] at hsplit ⊢
  rw [List.range_add, List.map_append, List.map_map]
  congr 1
  · apply List.map_congr_left
    intro t _
    rw [hsplit, ← pow_mul, ← pow_mul, mul_comm t 2]; ring
  · apply List.map_congr_left
    intro t _
    simp only [Function.comp]
    rw [hsplit, pow_add, hz, ← pow_mul]
    have : (-1 * z ^ t) ^ 2 = z ^ (2 * t) := by rw [pow_mul]; ring
    rw [this]; ring

/-- the array on entry to the pass with `gap = 2^j`: chunk number `c` (of length `2^j`) is the
    transform (w.r.t. `ω^(2^(k−j))`) of the sub-sequence with stride `2^(k−j)` and start `brU_(k−j)[c]` -/
def oiState (k : Nat) (w : F) (x : Nat → F) (j : Nat) : List (List F) :=
  (brU (k - j)).map (fun b => (List.range (2 ^ j)).map
    (fun t => eval (decim x (2 ^ j) (2 ^ (k - j)) b) ((w ^ 2 ^ (k - j)) ^ t)))

omit [CommRing F] in
theorem flatten_pairs' {α : Type} (cs : List α) (p q : α → List F) :
    (cs.flatMap (fun c => [p c, q c])).flatten = (cs.map (fun c => p c ++ q c)).flatten := by
  induction cs with
  | nil => rfl
  | cons c cs ih => simp [List.flatMap_cons, ih]

theorem length_brU (l : Nat) : (brU l).length = 2 ^ l := by rw [brU_eq]; simp

theorem oi_pass (k j : Nat) (hj : j < k) (w : F) (hw : w ^ 2 ^ (k - 1) = -1) (x : Nat → F)
    (fuel : Nat) (hf : 2 ^ (k - j - 1) ≤ fuel) :
    mapChunks (chunkButterfly butterflyOI (computePowersSerial (2 ^ j) (w ^ 2 ^ (k - j - 1))) (2 ^ j))
        (2 * 2 ^ j) fuel (oiState k w x j).flatten
      = (oiState k w x (j + 1)).flatten := by
  obtain ⟨l', hl'⟩ : ∃ l', k - j - 1 = l' := ⟨_, rfl⟩
  have e1 : k - j = l' + 1 := by omega
  have e2 : k - (j + 1) = l' := by omega
  have hz : (w ^ 2 ^ l') ^ 2 ^ j = -1 := by
    rw [← pow_mul, ← pow_add, show l' + j = k - 1 by omega]; exact hw
  unfold oiState
  rw [hl', e1, e2, brU, List.map_flatMap]
  simp only [List.map_cons, List.map_nil]
  rw [flatten_pairs', mapChunks_flatten _ (2 * 2 ^ j) (by positivity) _ ?_ fuel ?_, List.map_map]
  · congr 1
    apply List.map_congr_left
    intro b _
    simp only [Function.comp]
    have := oi_chunk x (2 ^ j) (2 ^ l') b (w ^ 2 ^ l') hz
    rw [show (w ^ 2 ^ l') ^ 2 = w ^ 2 ^ (l' + 1) by rw [← pow_mul, pow_succ],
      show 2 * 2 ^ l' = 2 ^ (l' + 1) by rw [pow_succ]; ring,
      show 2 * 2 ^ j = 2 ^ (j + 1) by rw [pow_succ]; ring] at this
    exact this
  · intro c hc
    obtain ⟨b, _, rfl⟩ := List.mem_map.mp hc
    simp; ring
  · rw [List.length_map, length_brU, ← hl']; exact hf

theorem oiLoop_from (k : Nat) (w : F) (hw : w ^ 2 ^ (k - 1) = -1) (x : Nat → F) :
    ∀ (i j : Nat), j + i = k → ∀ fuel : Nat, i < fuel →
      oiLoop (computePowersSerial (2 ^ (k - 1)) w) fuel (oiState k w x j).flatten (2 ^ j)
        = (List.range (2 ^ k)).map (fun t => eval ((List.range (2 ^ k)).map x) (w ^ t)) := by
  intro i
  induction i with
  | zero =>
    intro j hj fuel hf
    obtain ⟨fuel, rfl⟩ : ∃ f, fuel = f + 1 := ⟨fuel - 1, by omega⟩
    have : j = k := by omega
    subst this
    have hst : (oiState j w x j).flatten
        = (List.range (2 ^ j)).map (fun t => eval ((List.range (2 ^ j)).map x) (w ^ t)) := by
      unfold oiState decim
      simp [brU]
    rw [oiLoop, hst, if_neg (by simp)]
  | succ i ih =>
    intro j hj fuel hf
    obtain ⟨fuel, rfl⟩ : ∃ f, fuel = f + 1 := ⟨fuel - 1, by omega⟩
    have hlen : (oiState k w x j).flatten.length = 2 ^ k := by
      rw [length_flatten_const (2 ^ j)]
      · unfold oiState; rw [List.length_map, length_brU, ← pow_add]; congr 1; omega
      · intro c hc
        unfold oiState at hc
        obtain ⟨b, _, rfl⟩ := List.mem_map.mp hc
        simp
    have hlt : 2 ^ j < 2 ^ k := Nat.pow_lt_pow_right (by omega) (by omega)
    have hnc : 2 ^ k / (2 * 2 ^ j) = 2 ^ (k - j - 1) := by
      have : 2 ^ k = 2 ^ (k - j - 1) * (2 * 2 ^ j) := by
        rw [← pow_succ', ← pow_add]; congr 1; omega
      rw [this, Nat.mul_div_cancel _ (by positivity)]
    rw [oiLoop, hlen, if_pos hlt]
    simp only [hnc]
    generalize hrs : (if 2 ^ (k - j - 1) ≥ MIN_NUM_CHUNKS_FOR_COMPACTION ∧ 2 ^ j < 2 ^ k / 2 then
        ((stepBy (2 ^ (k - j - 1)) (computePowersSerial (2 ^ (k - 1)) w)).take (2 ^ j), 1)
        else (computePowersSerial (2 ^ (k - 1)) w, 2 ^ (k - j - 1))) = rs
    have hst : stepBy (2 ^ (k - j - 1)) (computePowersSerial (2 ^ (k - 1)) w)
        = computePowersSerial (2 ^ j) (w ^ 2 ^ (k - j - 1)) := by
      rw [stepBy_pow_table (k - 1) (k - j - 1) (by omega) w]
      congr 2; omega
    have h1 : stepBy rs.2 rs.1 = computePowersSerial (2 ^ j) (w ^ 2 ^ (k - j - 1)) := by
      rw [← hrs]
      split
      · simp only [stepBy_one]
        rw [hst, List.take_of_length_le (by simp)]
      · exact hst
    have hab : applyButterfly butterflyOI (oiState k w x j).flatten rs.1 rs.2 (2 * 2 ^ j) (2 ^ j)
        = (oiState k w x (j + 1)).flatten := by
      unfold applyButterfly
      rw [h1, hlen]
      exact oi_pass k j (by omega) w hw x _
        (Nat.pow_le_pow_right (by omega) (by omega))
    rw [hab, ← pow_succ]
    exact ih (j + 1) (by omega) fuel (by omega)

end OI

section OI2
variable {F : Type} [CommRing F]

theorem list_eq_map_getD (xs : List F) (n : Nat) (hx : xs.length = n) :
    xs = (List.range n).map (fun i => xs.getD i 0) := by
  apply List.ext_getElem?
  intro i
  by_cases hi : i < n
  · simp [hi, hx, List.getD_eq_getElem?_getD]
  · rw [List.getElem?_eq_none (by omega), List.getElem?_eq_none (by simp; omega)]

/-- `oi_helper` entered at `gap = 2^j` on the state `oiState … j` returns all values in order -/
theorem oiHelper_from (d : Domain F) (k : Nat) (hd : d.size = 2 ^ k) (w : F)
    (hw : k = 0 ∨ w ^ 2 ^ (k - 1) = -1) (x : Nat → F) (j : Nat) (hj : j ≤ k) :
    oiHelper d (oiState k w x j).flatten w (2 ^ j)
      = (List.range (2 ^ k)).map (fun t => eval ((List.range (2 ^ k)).map x) (w ^ t)) := by
  rcases Nat.eq_zero_or_pos k with h0 | hpos
  · subst h0
    have : j = 0 := by omega
    subst this
    simp [oiHelper, oiState, oiLoop, brU, decim]
  · have hw : w ^ 2 ^ (k - 1) = -1 := by
      rcases hw with h | h
      · omega
      · exact h
    unfold oiHelper rootsOfUnity
    rw [hd, half_pow k hpos]
    apply oiLoop_from k w hw x (k - j) j (by omega)
    have hlen : (oiState k w x j).flatten.length = 2 ^ k := by
      rw [length_flatten_const (2 ^ j)]
      · unfold oiState; rw [List.length_map, length_brU, ← pow_add]; congr 1; omega
      · intro c hc
        unfold oiState at hc
        obtain ⟨b, _, rfl⟩ := List.mem_map.mp hc
        simp
    rw [hlen]
    have := Nat.lt_two_pow_self (n := k)
    omega

theorem oiState_zero (k : Nat) (w : F) (x : Nat → F) :
    (oiState k w x 0).flatten = (List.range (2 ^ k)).map (fun i => x (brev k i)) := by
  unfold oiState decim
  rw [brU_eq, List.map_map]
  simp only [Nat.sub_zero, pow_zero, List.range_one, List.map_cons, List.map_nil,
    Nat.zero_mul, eval_cons, eval_nil, mul_zero, add_zero]
  induction (List.range (2 ^ k)) with
  | nil => rfl
  | cons a l ih => simp [ih]

/-- the `oi` dual: on the bit-reversed input the DIT loops return the values in order -/
theorem oiHelper_derange (d : Domain F) (xs : List F) (k : Nat) (hk : k ≤ 64) (hd : d.size = 2 ^ k)
    (hx : xs.length = 2 ^ k) (w : F) (hw : k = 0 ∨ w ^ 2 ^ (k - 1) = -1) :
    oiHelper d (derange xs k) w 1 = (List.range (2 ^ k)).map (fun i => eval xs (w ^ i)) := by
  have hxs := list_eq_map_getD xs (2 ^ k) hx
  have := oiHelper_from d k hd w hw (fun i => xs.getD i 0) 0 (by omega)
  have hdm := derange_map (fun i => xs.getD i 0) k hk
  rw [← hxs] at hdm
  rw [oiState_zero, ← hdm, ← hxs, pow_zero] at this
  exact this

end OI2

/-! ## 9. the degree-aware path -/

/-- the `num_coeffs` computation of `degree_aware_fft_in_place`: `2^⌈log₂ m⌉` (1 for `m = 0`) -/
theorem numCoeffs_eq (m : Nat) (h64 : log2 m < 64) :
    (if isPowerOfTwo m then some m else checkedNextPowerOfTwo m) = some (2 ^ log2 m) := by
  by_cases hp : isPowerOfTwo m = true
  · rw [if_pos hp]
    have hm : m ≠ 0 := by
      intro h; subst h; simp [isPowerOfTwo] at hp
    have : 2 ^ m.log2 = m := by
      unfold isPowerOfTwo at hp; simpa [hm] using hp
    unfold log2
    rw [if_neg hm, if_pos hp, this]
  · rw [if_neg hp]
    unfold checkedNextPowerOfTwo
    by_cases h1 : m ≤ 1
    · rw [if_pos h1]
      have : m = 0 := by
        rcases Nat.lt_or_ge m 1 with h | h
        · omega
        · have : m = 1 := by omega
          subst this
          exact absurd (by decide) hp
      subst this
      rfl
    · rw [if_neg h1]
      simp only []
      rw [if_pos]
      unfold U64
      exact Nat.pow_lt_pow_right (by omega) h64

theorem le_two_pow_log2 (m : Nat) : m ≤ 2 ^ log2 m := by
  unfold log2
  by_cases hm : m = 0
  · simp [hm]
  · rw [if_neg hm]
    by_cases hp : isPowerOfTwo m = true
    · rw [if_pos hp]
      have : 2 ^ m.log2 = m := by
        unfold isPowerOfTwo at hp; simpa [hm] using hp
      omega
    · rw [if_neg hp]
      exact Nat.le_of_lt Nat.lt_log2_self

theorem log2_le_of_le (m k : Nat) (h : m ≤ 2 ^ k) : log2 m ≤ k := by
  unfold log2
  by_cases hm : m = 0
  · simp [hm]
  · rw [if_neg hm]
    by_cases hp : isPowerOfTwo m = true
    · rw [if_pos hp]
      have : 2 ^ m.log2 = m := by
        unfold isPowerOfTwo at hp; simpa [hm] using hp
      rw [← this] at h
      exact (Nat.pow_le_pow_iff_right (by omega)).mp h
    · rw [if_neg hp]
      have hne : m ≠ 2 ^ k := by
        intro h'
        apply hp
        rw [h']; exact isPowerOfTwo_two_pow k
      have : m < 2 ^ k := by omega
      have := (Nat.log2_lt hm).mpr this
      omega

theorem brev_mul_pow (e j c : Nat) : brev (e + j) (c * 2 ^ j) = brev e c := by
  induction j with
  | zero => simp
  | succ j ih =>
    rw [show e + (j + 1) = (e + j) + 1 by omega, show c * 2 ^ (j + 1) = 2 * (c * 2 ^ j) by
      rw [pow_succ]; ring, brev_even, ih]

section DA
variable {F : Type} [CommRing F]

omit [CommRing F] in
theorem range_mul_flatten (a b : Nat) (f : Nat → F) :
    (List.range (a * b)).map f
      = ((List.range a).map (fun c => (List.range b).map (fun t => f (c * b + t)))).flatten := by
  induction a with
  | zero => simp
  | succ a ih =>
    rw [Nat.succ_mul, List.range_add, List.map_append, ih, List.range_succ, List.map_append,
      List.flatten_append, List.map_map]
    simp

omit [CommRing F] in
theorem dupChunks_nil (dup fuel : Nat) : dupChunks dup fuel ([] : List F) = [] := by
  cases fuel <;> rfl

theorem dupChunks_flatten (dup : Nat) (hd : 0 < dup) (cs : List (List F))
    (hcs : ∀ c ∈ cs, c.length = dup) (fuel : Nat) (hf : cs.length ≤ fuel) :
    dupChunks dup fuel cs.flatten = (cs.map (fun c => List.replicate dup (c.headD 0))).flatten := by
  induction cs generalizing fuel with
  | nil => simp [dupChunks_nil]
  | cons c cs ih =>
    cases fuel with
    | zero => simp at hf
    | succ fuel =>
      have hc := hcs c (by simp)
      cases c with
      | nil => simp at hc; omega
      | cons a c' =>
        have ht : ((a :: c') ++ cs.flatten).take dup = a :: c' := by rw [← hc, List.take_left]
        have hdr : ((a :: c') ++ cs.flatten).drop dup = cs.flatten := by rw [← hc, List.drop_left]
        rw [List.flatten_cons, List.cons_append, dupChunks, ← List.cons_append, ht, hdr,
          ih (fun c hc => hcs c (by simp [hc])) fuel (by simpa using hf)]
        rw [List.map_cons (l := cs), List.flatten_cons, List.map_const', ← hc]
        rfl

end DA

section DA2
variable {F : Type} [CommRing F]

theorem headD_map_range (n : Nat) (hn : 0 < n) (g : Nat → F) :
    ((List.range n).map g).headD 0 = g 0 := by
  obtain ⟨n', rfl⟩ : ∃ n', n = n' + 1 := ⟨n - 1, by omega⟩
  rw [List.range_succ_eq_map]; simp

theorem getD_resize_ge (c : List F) (n i : Nat) (h : c.length ≤ i) : (resize c n 0).getD i 0 = 0 := by
  unfold resize
  rw [List.getD_eq_getElem?_getD, List.getElem?_append_right (by rw [List.length_take]; omega),
    List.getElem?_replicate]
  split <;> rfl

/-- the partial bit-reversal pass of `degree_aware_fft_in_place` (only `idx < 2^e` are visited) is the
    full bit-reversal permutation when everything from `2^e` on is zero -/
theorem partial_swapPass (X : List F) (k e : Nat) (hk : k ≤ 64) (he : e ≤ k) (hX : X.length = 2 ^ k)
    (hz : ∀ i, 2 ^ e ≤ i → X.getD i 0 = 0) :
    (swapPass (fun i => bitrev i k) (List.range (2 ^ e)) X.toArray).toList
      = (List.range (2 ^ k)).map (fun i => X.getD (brev k i) 0) := by
  have hle : 2 ^ e ≤ 2 ^ k := Nat.pow_le_pow_right (by omega) he
  rw [swapPass_congr (fun i => bitrev i k) (brev k) _
    (fun i hi => bitrev_eq k i hk (by have := List.mem_range.mp hi; omega)), List.range_eq_range']
  obtain ⟨h1, h2⟩ := swapPass_range' (brev k) (2 ^ k) X.toArray (fun i _ => brev_lt k i)
    (fun i hi => brev_brev k i hi) (2 ^ e) 0 X.toArray (by omega) (by simpa using hX)
    (fun i _ => by simp)
  have hget : ∀ i, i < 2 ^ k → X[i]? = some (X.getD i 0) := by
    intro i hi
    rw [List.getD_eq_getElem?_getD, List.getElem?_eq_getElem (by omega)]; simp
  apply List.ext_getElem?
  intro i
  by_cases hi : i < 2 ^ k
  · have := h2 i hi
    rw [Array.getElem?_toList] at *
    rw [this]
    simp only [List.getElem?_toArray, Nat.zero_add]
    rw [List.getElem?_map, List.getElem?_range hi, Option.map_some, hget _ (brev_lt k i)]
    by_cases hc : i < 2 ^ e ∨ brev k i < 2 ^ e
    · rw [if_pos hc]
    · rw [if_neg hc, hget i hi, hz i (by omega), hz (brev k i) (by omega)]
  · rw [List.getElem?_eq_none (by simp [h1]; omega), List.getElem?_eq_none (by simp; omega)]

theorem eval_decim_zero (x : Nat → F) (m s b : Nat) (hm : 0 < m)
    (hz : ∀ i, s ≤ i → x i = 0) (y : F) : eval (decim x m s b) y = x b := by
  unfold decim
  rw [eval_eq_sum, Finset.sum_eq_single 0]
  · simp
  · intro u _ hu
    rw [hz (b + u * s) (by
      have : 1 ≤ u := Nat.pos_of_ne_zero hu
      nlinarith)]
    simp
  · intro h; simp at h; omega

/-- after the partial bit reversal and the duplication the array is the state of `oi_helper` on entry
    to the pass with `gap = dup` (for the zero-padded input) -/
theorem dup_state (x : Nat → F) (k e : Nat) (he : e ≤ k) (w : F) (hz : ∀ i, 2 ^ e ≤ i → x i = 0) :
    (if 2 ^ (k - e) > 1 then
        dupChunks (2 ^ (k - e)) ((List.range (2 ^ k)).map (fun i => x (brev k i))).length
          ((List.range (2 ^ k)).map (fun i => x (brev k i)))
      else (List.range (2 ^ k)).map (fun i => x (brev k i)))
      = (oiState k w x (k - e)).flatten := by
  obtain ⟨j, hj⟩ : ∃ j, k - e = j := ⟨_, rfl⟩
  have hkej : k = e + j := by omega
  have hpow : 2 ^ k = 2 ^ e * 2 ^ j := by rw [hkej, pow_add]
  have hR : (oiState k w x j).flatten
      = ((List.range (2 ^ e)).map (fun c => List.replicate (2 ^ j) (x (brev e c)))).flatten := by
    unfold oiState
    rw [show k - j = e by omega, brU_eq, List.map_map]
    congr 1
    apply List.map_congr_left
    intro c _
    simp only [Function.comp]
    rw [show List.replicate (2 ^ j) (x (brev e c))
        = (List.range (2 ^ j)).map (fun _ => x (brev e c)) by rw [List.map_const', List.length_range]]
    apply List.map_congr_left
    intro t _
    exact eval_decim_zero x _ _ _ (by positivity) hz _
  rw [hj, hR]
  have hL : (List.range (2 ^ k)).map (fun i => x (brev k i))
      = ((List.range (2 ^ e)).map (fun c => (List.range (2 ^ j)).map
          (fun t => x (brev k (c * 2 ^ j + t))))).flatten := by
    rw [hpow, range_mul_flatten]
  by_cases hdup : 2 ^ j > 1
  · rw [if_pos hdup, List.length_map, List.length_range, hL,
      dupChunks_flatten (2 ^ j) (by positivity) _ ?_ _ ?_, List.map_map]
    · congr 1
      apply List.map_congr_left
      intro c _
      simp only [Function.comp]
      rw [headD_map_range _ (by positivity), Nat.add_zero, hkej, brev_mul_pow]
    · intro c hc
      obtain ⟨b, _, rfl⟩ := List.mem_map.mp hc
      simp
    · rw [List.length_map, List.length_range]; exact Nat.pow_le_pow_right (by omega) he
  · rw [if_neg hdup, hL]
    have hj0 : j = 0 := by
      rcases Nat.eq_zero_or_pos j with h | h
      · exact h
      · have := Nat.one_lt_two_pow (n := j) (by omega); omega
    subst hj0
    congr 1
    apply List.map_congr_left
    intro c _
    simp [hkej]

end DA2

section DA3
variable {F : Type} [CommRing F] [DecidableEq F]

/-- `degree_aware_fft_in_place` computes the values on the domain (for every input not longer than the
    domain whose padded length is representable) -/
theorem degreeAwareFft_spec (d : Domain F) (c : List F) (k : Nat) (hk : k ≤ 64) (hd : d.size = 2 ^ k)
    (hlog : d.logSizeOfGroup = k) (hc : c.length ≤ d.size) (h64 : log2 c.length < 64)
    (hg : k = 0 ∨ d.groupGen ^ 2 ^ (k - 1) = -1) :
    degreeAwareFft d c = .ok ((elements d).map (eval c)) := by
  obtain ⟨hlen, hev⟩ := coset_scale d c
  unfold degreeAwareFft
  generalize (if d.offset ≠ 1 then distributePowers c d.offset else c) = c1 at hlen hev ⊢
  simp only []
  rw [hlen, numCoeffs_eq c.length h64]
  simp only []
  generalize he : log2 c.length = e at h64
  have hek : e ≤ k := by rw [← he]; exact log2_le_of_le _ _ (by rw [← hd]; exact hc)
  have hme : c.length ≤ 2 ^ e := by rw [← he]; exact le_two_pow_log2 _
  rw [log2_two_pow, hlog, if_neg (by omega), hd]
  have hXlen : (resize c1 (2 ^ k) 0).length = 2 ^ k := length_resize _ _ _
  have hz : ∀ i, 2 ^ e ≤ i → (resize c1 (2 ^ k) 0).getD i 0 = 0 := by
    intro i hi; exact getD_resize_ge c1 _ i (by omega)
  rw [partial_swapPass _ k e hk hek hXlen hz, dup_state _ k e hek d.groupGen hz,
    oiHelper_from d k hd d.groupGen hg _ (k - e) (by omega), ← list_eq_map_getD _ _ hXlen,
    elements_eq, hd, List.map_map]
  congr 1
  apply List.map_congr_left
  intro t _
  simp only [Function.comp]
  rw [eval_resize _ _ _ (by rw [hlen, ← hd]; exact hc), hev]

end DA3

section R2
variable {F : Type} [CommRing F] [DecidableEq F]

theorem log2_lt_of_threshold (m k : Nat) (hk : k ≤ 64) (h : m * 4 ≤ 2 ^ k) : log2 m < 64 := by
  rcases Nat.eq_zero_or_pos m with h0 | hpos
  · subst h0; simp [log2]
  · have hk2 : 2 ≤ k := by
      by_contra hlt
      have : k = 0 ∨ k = 1 := by omega
      rcases this with rfl | rfl <;> simp at h <;> omega
    obtain ⟨k', rfl⟩ : ∃ k', k = k' + 2 := ⟨k - 2, by omega⟩
    have : m ≤ 2 ^ k' := by
      rw [pow_add] at h; omega
    have := log2_le_of_le m k' this
    omega

/-- full-size path on a short input: zero padding does not change the polynomial -/
theorem inOrderFft_resize (d : Domain F) (c : List F) (k : Nat) (hk : k ≤ 64) (hd : d.size = 2 ^ k)
    (hc : c.length ≤ d.size) (hg : k = 0 ∨ d.groupGen ^ 2 ^ (k - 1) = -1) :
    inOrderFft d (resize c d.size 0) = (elements d).map (eval c) := by
  rw [inOrderFft_spec d _ k hk hd (length_resize _ _ _) hg]
  apply List.map_congr_left
  intro y _
  exact eval_resize c _ y hc

/-- item 8: below the threshold the degree-aware path returns what the full path returns -/
theorem degreeAware_eq_full (d : Domain F) (c : List F) (k : Nat) (hk : k ≤ 64) (hd : d.size = 2 ^ k)
    (hlog : d.logSizeOfGroup = k) (hthr : c.length * DEGREE_AWARE_FFT_THRESHOLD_FACTOR ≤ d.size)
    (hg : k = 0 ∨ d.groupGen ^ 2 ^ (k - 1) = -1) :
    degreeAwareFft d c = .ok (inOrderFft d (resize c d.size 0)) := by
  unfold DEGREE_AWARE_FFT_THRESHOLD_FACTOR at hthr
  have hc : c.length ≤ d.size := by omega
  rw [degreeAwareFft_spec d c k hk hd hlog hc (log2_lt_of_threshold _ k hk (by rw [← hd]; exact hthr)) hg,
    inOrderFft_resize d c k hk hd hc hg]

theorem radix2Fft_spec (d : Domain F) (c : List F) (k : Nat) (hk : k ≤ 64) (hd : d.size = 2 ^ k)
    (hlog : d.logSizeOfGroup = k) (hc : c.length ≤ d.size)
    (hg : k = 0 ∨ d.groupGen ^ 2 ^ (k - 1) = -1) :
    radix2Fft d c = .ok ((elements d).map (eval c)) := by
  unfold radix2Fft
  by_cases hthr : c.length * DEGREE_AWARE_FFT_THRESHOLD_FACTOR ≤ d.size
  · rw [if_pos hthr, degreeAware_eq_full d c k hk hd hlog hthr hg, inOrderFft_resize d c k hk hd hc hg]
  · rw [if_neg hthr, inOrderFft_resize d c k hk hd hc hg]

theorem radix2Fft_long (d : Domain F) (c : List F)
    (hpos : 0 < d.size) (hc : d.size < c.length) :
    radix2Fft d c = radix2Fft d (c.take d.size) := by
  unfold radix2Fft DEGREE_AWARE_FFT_THRESHOLD_FACTOR
  rw [if_neg (by omega), if_neg (by rw [List.length_take]; omega)]
  unfold resize
  rw [List.take_take, Nat.min_self, List.length_take]
  congr 4
  omega

end R2

section Inv
variable {F : Type} [Field F]

/-! ## 10. the inverse transform -/

/-- orthogonality of the characters of the cyclic group generated by a primitive root:
    `Σ_{j<n} (g^m · g⁻ⁱ)^j = n·[m = i]` for `m, i < n` -/
theorem geom_orth (g gi : F) (n : Nat) (hg : IsPrimitiveRoot g n) (hgi : gi * g = 1) (m i : Nat)
    (hm : m < n) (hi : i < n) :
    ∑ j ∈ Finset.range n, (g ^ m * gi ^ i) ^ j = if m = i then (n : F) else 0 := by
  have hgi' : ∀ e : Nat, gi ^ e * g ^ e = 1 := fun e => by rw [← mul_pow, hgi, one_pow]
  by_cases hmi : m = i
  · subst hmi
    rw [if_pos rfl, mul_comm, hgi']
    simp
  · rw [if_neg hmi]
    set ρ := g ^ m * gi ^ i with hρ
    have hρn : ρ ^ n = 1 := by
      have h1 : g ^ n = 1 := hg.pow_eq_one
      have h2 : gi ^ n = 1 := by have := hgi' n; rwa [h1, mul_one] at this
      rw [hρ, mul_pow, ← pow_mul, ← pow_mul, mul_comm m n, mul_comm i n, pow_mul, pow_mul, h1, h2]
      simp
    have hρ1 : ρ - 1 ≠ 0 := by
      intro h
      have h1 : ρ = 1 := sub_eq_zero.mp h
      apply hmi
      apply hg.pow_inj hm hi
      calc g ^ m = g ^ m * (gi ^ i * g ^ i) := by rw [hgi', mul_one]
        _ = ρ * g ^ i := by rw [hρ]; ring
        _ = g ^ i := by rw [h1, one_mul]
    have := geom_sum_mul ρ n
    rw [hρn, sub_self] at this
    exact (mul_eq_zero.mp this).resolve_right hρ1

/-- the inverse DFT sum applied to the values of `Σ cc_m y^m` on the coset `h·⟨g⟩` -/
theorem idft_sum (g gi h : F) (n : Nat) (hg : IsPrimitiveRoot g n) (hgi : gi * g = 1) (cc : Nat → F)
    (i : Nat) (hi : i < n) :
    ∑ j ∈ Finset.range n, (∑ m ∈ Finset.range n, cc m * (h * g ^ j) ^ m) * (gi ^ i) ^ j
      = (n : F) * cc i * h ^ i := by
  have : ∀ j ∈ Finset.range n, (∑ m ∈ Finset.range n, cc m * (h * g ^ j) ^ m) * (gi ^ i) ^ j
      = ∑ m ∈ Finset.range n, cc m * h ^ m * (g ^ m * gi ^ i) ^ j := by
    intro j _
    rw [Finset.sum_mul]
    apply Finset.sum_congr rfl
    intro m _
    ring
  rw [Finset.sum_congr rfl this, Finset.sum_comm]
  have : ∀ m ∈ Finset.range n, ∑ j ∈ Finset.range n, cc m * h ^ m * (g ^ m * gi ^ i) ^ j
      = cc m * h ^ m * (if m = i then (n : F) else 0) := by
    intro m hm
    rw [← Finset.mul_sum, geom_orth g gi n hg hgi m i (Finset.mem_range.mp hm) hi]
  rw [Finset.sum_congr rfl this, Finset.sum_eq_single i]
  · rw [if_pos rfl]; ring
  · intro m _ hmi; rw [if_neg hmi, mul_zero]
  · intro h; exact absurd (Finset.mem_range.mpr hi) h

theorem neg_one_of_primitive (g : F) (k : Nat) (hk : 0 < k) (hg : IsPrimitiveRoot g (2 ^ k)) :
    g ^ 2 ^ (k - 1) = -1 := by
  obtain ⟨k', rfl⟩ : ∃ k', k = k' + 1 := ⟨k - 1, by omega⟩
  simp only [Nat.add_sub_cancel]
  have hsq : g ^ 2 ^ k' * g ^ 2 ^ k' = 1 := by
    rw [← pow_add, ← two_mul, ← pow_succ']; exact hg.pow_eq_one
  rcases mul_self_eq_one_iff.mp hsq with h | h
  · exact absurd h (hg.pow_ne_one_of_pos_of_lt (by positivity)
      (Nat.pow_lt_pow_right (by omega) (by omega)))
  · exact h

theorem dpamc_map_range (n : Nat) (f : Nat → F) (g k : F) :
    distributePowersAndMulByConst ((List.range n).map f) g k
      = (List.range n).map (fun i => f i * k * g ^ i) := by
  rw [distributePowersAndMulByConst_eq]
  apply List.ext_getElem?
  intro i
  simp only [List.getElem?_map, List.getElem?_zipIdx, Nat.zero_add]
  by_cases hi : i < n
  · simp [List.getElem?_range hi]
  · rw [List.getElem?_eq_none (by simp; omega)]; rfl

end Inv

section Inv2
variable {F : Type} [Field F] [DecidableEq F]

/-- item 9: the inverse transform returns the (zero-padded) coefficients -/
theorem radix2Ifft_spec (d : Domain F) (c : List F) (k : Nat) (hk : k ≤ 64) (hd : d.size = 2 ^ k)
    (hprim : IsPrimitiveRoot d.groupGen d.size) (hsz : d.sizeInv * (d.size : F) = 1)
    (hgi : d.groupGenInv * d.groupGen = 1) (hoi : d.offsetInv * d.offset = 1)
    (hc : c.length ≤ d.size) :
    radix2Ifft d ((elements d).map (eval c)) = resize c d.size 0 := by
  have hwi : k = 0 ∨ d.groupGenInv ^ 2 ^ (k - 1) = -1 := by
    rcases Nat.eq_zero_or_pos k with h0 | hpos
    · exact Or.inl h0
    · right
      have h1 := neg_one_of_primitive d.groupGen k hpos (hd ▸ hprim)
      have h2 : d.groupGenInv ^ 2 ^ (k - 1) * d.groupGen ^ 2 ^ (k - 1) = 1 := by
        rw [← mul_pow, hgi, one_pow]
      rw [h1] at h2
      have : d.groupGenInv ^ 2 ^ (k - 1) = -(d.groupGenInv ^ 2 ^ (k - 1) * -1) := by ring
      rw [this, h2]
  have hCl : (resize c d.size 0).length = d.size := length_resize _ _ _
  have hC := list_eq_map_getD (resize c d.size 0) d.size hCl
  generalize hcc : (fun i => (resize c d.size 0).getD i 0) = cc at hC
  have hevc : ∀ y, eval c y = ∑ m ∈ Finset.range d.size, cc m * y ^ m := by
    intro y
    rw [← eval_resize c d.size y hc, hC, eval_eq_sum]
  have hys : (elements d).map (eval c)
      = (List.range d.size).map (fun j => eval c (d.offset * d.groupGen ^ j)) := by
    rw [elements_eq, List.map_map]; rfl
  have hyl : ((elements d).map (eval c)).length = 2 ^ k := by rw [hys]; simp [hd]
  unfold radix2Ifft inOrderIfft ifftHelper
  have hres : resize ((elements d).map (eval c)) d.size 0 = (elements d).map (eval c) := by
    rw [resize_of_le _ _ _ (by rw [hyl, hd]), hyl, hd]; simp
  rw [hres]
  simp only [show (FFTOrder.II = FFTOrder.IO) = False by simp, if_false, if_true]
  rw [hyl, log2_two_pow, oiHelper_derange d _ k hk hd hyl d.groupGenInv hwi, ← hd]
  have hz : (List.range d.size).map (fun i => eval ((elements d).map (eval c)) (d.groupGenInv ^ i))
      = (List.range d.size).map (fun i => (d.size : F) * cc i * d.offset ^ i) := by
    apply List.map_congr_left
    intro i hi
    rw [hys, eval_eq_sum]
    simp only [hevc]
    exact idft_sum d.groupGen d.groupGenInv d.offset d.size hprim hgi cc i (List.mem_range.mp hi)
  rw [hz, hC]
  by_cases ho : d.offset = 1
  · rw [if_pos ho, List.map_map]
    apply List.map_congr_left
    intro i _
    simp only [Function.comp, ho, one_pow, mul_one]
    rw [mul_comm (d.size : F), mul_assoc, mul_comm (d.size : F), hsz, mul_one]
  · rw [if_neg ho, dpamc_map_range]
    apply List.map_congr_left
    intro i _
    have : d.offsetInv ^ i * d.offset ^ i = 1 := by rw [← mul_pow, hoi, one_pow]
    calc (d.size : F) * cc i * d.offset ^ i * d.sizeInv * d.offsetInv ^ i
        = cc i * (d.sizeInv * (d.size : F)) * (d.offsetInv ^ i * d.offset ^ i) := by ring
      _ = cc i := by rw [hsz, this]; ring

end Inv2

section Extra
variable {F : Type} [CommRing F]

/-! ## 11. statements in the form used by `Ark.Props.C07a` -/

/-- DIT step (dual of `dif_step`): from the transforms of the even- and odd-indexed coefficients to
    the transform of the sequence -/
theorem dit_step (c : Nat → F) (m : Nat) (z : F) (hz : z ^ m = -1) :
    zipButterfly butterflyOI
        ((List.range m).map (fun t => eval ((List.range m).map (fun u => c (2 * u))) ((z ^ 2) ^ t)))
        ((List.range m).map (fun t => eval ((List.range m).map (fun u => c (2 * u + 1))) ((z ^ 2) ^ t)))
        (computePowersSerial m z)
      = ((List.range m).map (fun t => eval ((List.range (2 * m)).map c) (z ^ t)),
         (List.range m).map (fun t => eval ((List.range (2 * m)).map c) (z ^ (m + t)))) := by
  rw [computePowersSerial_eq, zipButterfly_map_range]
  simp only [butterflyOI]
  congr 1
  · apply List.map_congr_left
    intro t _
    rw [eval_even_odd, ← pow_mul, ← pow_mul, mul_comm t 2]; ring
  · apply List.map_congr_left
    intro t _
    rw [eval_even_odd, pow_add, hz, ← pow_mul]
    have : (-1 * z ^ t) ^ 2 = z ^ (2 * t) := by rw [pow_mul]; ring
    rw [this]; ring

/-- both root branches of `oi_helper` (compacted slice / strided cache) give the first `gap = 2^j`
    powers of `root^numChunks` -/
theorem oi_roots_step (k j : Nat) (hj : j < k) (w : F) (rs : List F × Nat)
    (hrs : rs = if 2 ^ (k - j - 1) ≥ MIN_NUM_CHUNKS_FOR_COMPACTION ∧ 2 ^ j < 2 ^ k / 2 then
        ((stepBy (2 ^ (k - j - 1)) (computePowersSerial (2 ^ (k - 1)) w)).take (2 ^ j), 1)
        else (computePowersSerial (2 ^ (k - 1)) w, 2 ^ (k - j - 1))) :
    stepBy rs.2 rs.1 = computePowersSerial (2 ^ j) (w ^ 2 ^ (k - j - 1)) := by
  have hst : stepBy (2 ^ (k - j - 1)) (computePowersSerial (2 ^ (k - 1)) w)
      = computePowersSerial (2 ^ j) (w ^ 2 ^ (k - j - 1)) := by
    rw [stepBy_pow_table (k - 1) (k - j - 1) (by omega) w]
    congr 2; omega
  rw [hrs]
  split
  · simp only [stepBy_one]
    rw [hst, List.take_of_length_le (by simp)]
  · exact hst

/-- indexed form of `ioHelper_spec`: the value at `ω^i` sits at position `bitrev i` -/
theorem ioHelper_getElem (d : Domain F) (xi : List F) (w : F) (k : Nat) (hk : k ≤ 64)
    (hd : d.size = 2 ^ k) (hx : xi.length = 2 ^ k) (hw : k = 0 ∨ w ^ 2 ^ (k - 1) = -1) (i : Nat)
    (hi : i < 2 ^ k) : (ioHelper d xi w)[bitrev i k]? = some (eval xi (w ^ i)) := by
  rw [ioHelper_spec d xi w k hd hx hw, brU_eq, List.map_map, bitrev_eq k i hk hi,
    List.getElem?_map, List.getElem?_range (brev_lt k i)]
  simp [brev_brev k i hi]

end Extra

section Extra2
variable {F : Type} [Field F] [DecidableEq F]

theorem element_eq (d : Domain F) (i : Nat) (hi : i < 2 ^ 64) :
    element d i = d.offset * d.groupGen ^ i := by
  unfold element
  rw [pow_eq _ _ hi]
  by_cases h : d.offset ≠ 1
  · rw [if_pos h]; ring
  · rw [if_neg h]
    have : d.offset = 1 := by simpa using h
    rw [this, one_mul]

theorem elements_eq_element (d : Domain F) (hs : d.size ≤ 2 ^ 64) :
    elements d = (List.range d.size).map (element d) := by
  rw [elements_eq]
  apply List.map_congr_left
  intro i hi
  rw [element_eq d i (by have := List.mem_range.mp hi; omega)]

end Extra2
end Ark.Fft.A
