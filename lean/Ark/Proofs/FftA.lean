import Ark.Model.Fft
import Mathlib.Tactic.Ring
import Mathlib.Tactic.Linarith
import Mathlib.Algebra.BigOperators.Group.Finset.Basic
import Mathlib.Algebra.BigOperators.Ring.Finset
import Mathlib.Algebra.BigOperators.Intervals
import Mathlib.RingTheory.RootsOfUnity.PrimitiveRoots
import Mathlib.Data.ZMod.Basic
/-
  Ark.Proofs.FftA — helper lemmas for property C07 (part A): the radix-2 FFT of
  `Ark.Model.Fft` computes polynomial evaluation on the domain.

  Spec function: `eval c x = c.foldr (fun a acc => a + x * acc) 0` (Horner).
-/
namespace Ark.Fft.A
open Ark Ark.Fft

/-! ## 0. the spec function -/

section Ring
variable {F : Type} [CommRing F]

/-- Horner evaluation of `Σ c_j x^j` -/
def eval (c : List F) (x : F) : F := c.foldr (fun a acc => a + x * acc) 0

@[simp] theorem eval_nil (x : F) : eval ([] : List F) x = 0 := rfl
@[simp] theorem eval_cons (a : F) (c : List F) (x : F) : eval (a :: c) x = a + x * eval c x := rfl

theorem eval_append (lo hi : List F) (x : F) :
    eval (lo ++ hi) x = eval lo x + x ^ lo.length * eval hi x := by
  induction lo with
  | nil => simp
  | cons a lo ih => simp only [List.cons_append, eval_cons, ih, List.length_cons]; ring

@[simp] theorem eval_replicate_zero (n : Nat) (x : F) : eval (List.replicate n (0 : F)) x = 0 := by
  induction n with
  | zero => rfl
  | succ n ih => simp [List.replicate_succ, ih]

theorem eval_singleton (a x : F) : eval [a] x = a := by simp

omit [CommRing F] in
theorem resize_of_le (c : List F) (n : Nat) (z : F) (h : c.length ≤ n) :
    resize c n z = c ++ List.replicate (n - c.length) z := by
  unfold resize; rw [List.take_of_length_le h]

omit [CommRing F] in
theorem length_resize (c : List F) (n : Nat) (z : F) : (resize c n z).length = n := by
  unfold resize; simp only [List.length_append, List.length_take, List.length_replicate]; omega

theorem eval_resize (c : List F) (n : Nat) (x : F) (h : c.length ≤ n) :
    eval (resize c n 0) x = eval c x := by
  rw [resize_of_le c n 0 h, eval_append]; simp

/-! ## 1. powers -/

theorem cpamc_eq (n : Nat) (r v : F) :
    computePowersAndMulByConstSerial n r v = (List.range n).map (fun i => v * r ^ i) := by
  induction n generalizing v with
  | zero => rfl
  | succ n ih =>
    rw [computePowersAndMulByConstSerial, ih, List.range_succ_eq_map, List.map_cons, List.map_map]
    simp only [pow_zero, mul_one, List.cons.injEq, true_and]
    apply List.map_congr_left
    intro i _
    simp only [Function.comp, pow_succ]; ring

theorem computePowersSerial_eq (n : Nat) (w : F) :
    computePowersSerial n w = (List.range n).map (fun i => w ^ i) := by
  unfold computePowersSerial; rw [cpamc_eq]; simp

@[simp] theorem length_cpamc (n : Nat) (r v : F) :
    (computePowersAndMulByConstSerial n r v).length = n := by
  rw [cpamc_eq]; simp

@[simp] theorem length_computePowersSerial (n : Nat) (w : F) :
    (computePowersSerial n w).length = n := by
  unfold computePowersSerial; simp

theorem cpamc_drop (k n : Nat) (r v : F) :
    (computePowersAndMulByConstSerial n r v).drop k
      = computePowersAndMulByConstSerial (n - k) r (v * r ^ k) := by
  induction k generalizing n v with
  | zero => simp
  | succ k ih =>
    cases n with
    | zero => simp [computePowersAndMulByConstSerial]
    | succ n =>
      rw [computePowersAndMulByConstSerial, List.drop_succ_cons, ih]
      congr 1
      · omega
      · rw [pow_succ]; ring

theorem stepByAux_cpamc (s : Nat) (hs : 0 < s) (fuel n : Nat) (r v : F) (hf : n ≤ fuel) :
    stepByAux s fuel (computePowersAndMulByConstSerial n r v)
      = computePowersAndMulByConstSerial ((n + s - 1) / s) (r ^ s) v := by
  induction fuel generalizing n v with
  | zero =>
    have : n = 0 := by omega
    subst this
    have : (0 + s - 1) / s = 0 := Nat.div_eq_of_lt (by omega)
    rw [this]; rfl
  | succ fuel ih =>
    cases n with
    | zero =>
      have : (0 + s - 1) / s = 0 := Nat.div_eq_of_lt (by omega)
      rw [this]; rfl
    | succ n =>
      rw [computePowersAndMulByConstSerial, stepByAux, cpamc_drop, ih _ _ (by omega)]
      have h1 : (n + 1 + s - 1) / s = (n - (s - 1) + s - 1) / s + 1 := by
        by_cases hn : s - 1 ≤ n
        · have : n + 1 + s - 1 = (n - (s - 1) + s - 1) + s := by omega
          rw [this, Nat.add_div_right _ hs]
        · have h0 : n - (s - 1) = 0 := by omega
          rw [h0]
          have : (0 + s - 1) / s = 0 := Nat.div_eq_of_lt (by omega)
          rw [this]
          have : n + 1 + s - 1 = (n + 1 - 1) + s := by omega
          rw [this, Nat.add_div_right _ hs, Nat.div_eq_of_lt (by omega)]
      rw [h1, computePowersAndMulByConstSerial]
      congr 2
      rw [mul_assoc, ← pow_succ']
      congr 2
      omega

/-- `step_by(s)` on a power table is the power table of `ω^s` (length `⌈n/s⌉`) -/
theorem stepBy_computePowersSerial (s : Nat) (hs : 0 < s) (n : Nat) (w : F) :
    stepBy s (computePowersSerial n w) = computePowersSerial ((n + s - 1) / s) (w ^ s) := by
  unfold stepBy computePowersSerial
  rw [stepByAux_cpamc s hs _ n w 1 (by simp)]

omit [CommRing F] in
theorem stepBy_one (l : List F) : stepBy 1 l = l := by
  unfold stepBy
  suffices h : ∀ fuel (l : List F), l.length ≤ fuel → stepByAux 1 fuel l = l from h _ _ (le_refl _)
  intro fuel
  induction fuel with
  | zero => intro l hl; cases l with
    | nil => rfl
    | cons a l => simp at hl
  | succ fuel ih =>
    intro l hl
    cases l with
    | nil => rfl
    | cons a l =>
      rw [stepByAux]; simp only [Nat.sub_self, List.drop_zero]
      rw [ih l (by simpa using hl)]

theorem dpamc_eq_aux (c : List F) (g k : F) (i0 : Nat) :
    distributePowersAndMulByConst c g (k * g ^ i0)
      = (c.zipIdx i0).map (fun xi => xi.1 * k * g ^ xi.2) := by
  induction c generalizing i0 with
  | nil => rfl
  | cons x c ih =>
    rw [distributePowersAndMulByConst, List.zipIdx_cons, List.map_cons]
    have : k * g ^ i0 * g = k * g ^ (i0 + 1) := by rw [pow_succ]; ring
    rw [this, ih]
    congr 1
    ring

theorem distributePowersAndMulByConst_eq (c : List F) (g k : F) :
    distributePowersAndMulByConst c g k = c.zipIdx.map (fun xi => xi.1 * k * g ^ xi.2) := by
  have := dpamc_eq_aux c g k 0
  simpa using this

@[simp] theorem length_dpamc (c : List F) (g k : F) :
    (distributePowersAndMulByConst c g k).length = c.length := by
  rw [distributePowersAndMulByConst_eq]; simp

theorem eval_dpamc (c : List F) (g k y : F) :
    eval (distributePowersAndMulByConst c g k) y = k * eval c (g * y) := by
  induction c generalizing k with
  | nil => simp [distributePowersAndMulByConst]
  | cons x c ih =>
    rw [distributePowersAndMulByConst, eval_cons, ih, eval_cons]; ring

/-- coset = scaling -/
theorem eval_distributePowers (c : List F) (h y : F) :
    eval (distributePowers c h) y = eval c (h * y) := by
  unfold distributePowers; rw [eval_dpamc]; ring

theorem elementsAux_eq (g : F) (n : Nat) (cur : F) :
    elementsAux g n cur = (List.range n).map (fun i => cur * g ^ i) := by
  induction n generalizing cur with
  | zero => rfl
  | succ n ih =>
    rw [elementsAux, ih, List.range_succ_eq_map, List.map_cons, List.map_map]
    simp only [pow_zero, mul_one, List.cons.injEq, true_and]
    apply List.map_congr_left
    intro i _
    simp only [Function.comp, pow_succ]; ring

theorem elements_eq (d : Domain F) :
    elements d = (List.range d.size).map (fun i => d.offset * d.groupGen ^ i) := by
  unfold elements; rw [elementsAux_eq]

end Ring

/-! ### `Field::pow` with a one-limb exponent -/

theorem bitsLE_val (n x : Nat) :
    ((List.range n).map (fun i => x.testBit i)).foldr (fun b m => (if b then 1 else 0) + 2 * m) 0
      = x % 2 ^ n := by
  induction n generalizing x with
  | zero => simp [Nat.mod_one]
  | succ n ih =>
    rw [List.range_succ_eq_map, List.map_cons, List.map_map, List.foldr_cons]
    have : ((fun i => x.testBit i) ∘ Nat.succ) = (fun i => (x / 2).testBit i) := by
      funext i; simp [Function.comp, Nat.testBit_succ]
    rw [this, ih, pow_succ', Nat.mod_mul]
    congr 1
    simp only [Nat.testBit_zero]
    rcases Nat.mod_two_eq_zero_or_one x with h | h <;> simp [h]

section Pow
variable {F : Type} [Field F] [DecidableEq F]

theorem pow_fold (a : F) (bits : List Bool) (res : F) (n : Nat) (h : res = a ^ n) :
    bits.foldl (fun res bit => let s := (fieldOps F).square res;
        if bit then (fieldOps F).mul s a else s) res
      = a ^ (bits.foldl (fun n b => 2 * n + (if b then 1 else 0)) n) := by
  induction bits generalizing res n with
  | nil => exact h
  | cons b bs ih =>
    simp only [List.foldl_cons]
    apply ih
    subst h
    cases b
    · simp only [fieldOps, Bool.false_eq_true, if_false, Nat.add_zero]; ring
    · simp only [fieldOps, if_true]; ring

theorem foldl_dropWhile_false (bits : List Bool) :
    (bits.dropWhile (· == false)).foldl (fun n b => 2 * n + (if b then 1 else 0)) 0
      = bits.foldl (fun n b => 2 * n + (if b then 1 else 0)) 0 := by
  induction bits with
  | nil => rfl
  | cons b bs ih =>
    cases b
    · simp only [List.dropWhile_cons, beq_self_eq_true, if_true]
      rw [ih]; simp
    · simp

/-- the model's exponentiation is `a ^ (e mod 2^64)` (the exponent is one `u64` limb) -/
theorem pow_eq_mod (a : F) (e : Nat) : pow a e = a ^ (e % 2 ^ 64) := by
  unfold pow Ops.pow
  rw [pow_fold a _ (fieldOps F).one 0 (by simp [fieldOps]), foldl_dropWhile_false]
  congr 1
  unfold bitsBE64
  rw [List.map_reverse, ← bitsLE_val 64 e]
  rw [← List.foldr_reverse, List.reverse_reverse]
  congr 1
  funext b n
  omega

theorem pow_eq (a : F) (e : Nat) (he : e < 2 ^ 64) : pow a e = a ^ e := by
  rw [pow_eq_mod, Nat.mod_eq_of_lt he]

end Pow


section Ring
variable {F : Type} [CommRing F]

/-! ## 2. butterflies -/

omit [CommRing F] in
theorem zipButterfly_length (g : F → F → F → F × F) (lo hi rs : List F) :
    (zipButterfly g lo hi rs).1.length = lo.length ∧ (zipButterfly g lo hi rs).2.length = hi.length := by
  fun_induction zipButterfly g lo hi rs with
  | case1 l lo h hi r rs lh rest ih => simpa using ih
  | case2 lo hi rs _ => simp

theorem eval_zipButterflyIO (lo hi : List F) (w v x : F) (hl : lo.length = hi.length) :
    eval (zipButterfly butterflyIO lo hi (computePowersAndMulByConstSerial lo.length w v)).1 x
        = eval lo x + eval hi x ∧
    eval (zipButterfly butterflyIO lo hi (computePowersAndMulByConstSerial lo.length w v)).2 x
        = v * (eval lo (w * x) - eval hi (w * x)) := by
  induction lo generalizing hi v with
  | nil =>
    cases hi with
    | nil => simp [zipButterfly]
    | cons h hi => simp at hl
  | cons l lo ih =>
    cases hi with
    | nil => simp at hl
    | cons h hi =>
      have hl' : lo.length = hi.length := by simpa using hl
      obtain ⟨h1, h2⟩ := ih hi (v * w) hl'
      simp only [List.length_cons, computePowersAndMulByConstSerial, zipButterfly, eval_cons, h1, h2,
        butterflyIO]
      constructor <;> ring

/-- DIF step -/
theorem dif_step (lo hi : List F) (w : F) (m : Nat) (hlo : lo.length = m) (hhi : hi.length = m)
    (hw : w ^ m = -1) (k : Nat) :
    eval (lo ++ hi) ((w ^ 2) ^ k) = eval (zipButterfly butterflyIO lo hi (computePowersSerial m w)).1 ((w ^ 2) ^ k) ∧
    eval (lo ++ hi) (w * (w ^ 2) ^ k) = eval (zipButterfly butterflyIO lo hi (computePowersSerial m w)).2 ((w ^ 2) ^ k) := by
  subst hlo
  obtain ⟨h1, h2⟩ := eval_zipButterflyIO lo hi w 1 ((w ^ 2) ^ k) hhi.symm
  unfold computePowersSerial
  rw [h1, h2, eval_append, eval_append]
  have e1 : ((w ^ 2) ^ k) ^ lo.length = 1 := by
    have : ((w ^ 2) ^ k) ^ lo.length = (w ^ lo.length) ^ (2 * k) := by
      rw [← pow_mul, ← pow_mul, ← pow_mul]; congr 1; ring
    rw [this, hw, pow_mul]; simp
  have e2 : (w * (w ^ 2) ^ k) ^ lo.length = -1 := by
    rw [mul_pow, e1, hw]; ring
  rw [e1, e2]
  constructor <;> ring

end Ring

/-! ## 3. bit reversal -/

/-- bit reversal on `k` bits (spec) -/
def brev : Nat → Nat → Nat
  | 0, _ => 0
  | k + 1, a => (a % 2) * 2 ^ k + brev k (a / 2)

theorem brev_lt (k a : Nat) : brev k a < 2 ^ k := by
  induction k generalizing a with
  | zero => simp [brev]
  | succ k ih =>
    have := ih (a / 2)
    have h2 : a % 2 < 2 := Nat.mod_lt _ (by omega)
    rw [brev, pow_succ]
    nlinarith

@[simp] theorem brev_zero (k : Nat) : brev k 0 = 0 := by
  induction k with
  | zero => rfl
  | succ k ih => simp [brev, ih]

theorem brev_succ' (k a : Nat) : brev (k + 1) a = 2 * brev k (a % 2 ^ k) + a / 2 ^ k % 2 := by
  induction k generalizing a with
  | zero => simp [brev]
  | succ k ih =>
    rw [brev, ih (a / 2), brev]
    have e1 : a % 2 ^ (k + 1) % 2 = a % 2 :=
      Nat.mod_mod_of_dvd _ (dvd_pow_self 2 (Nat.succ_ne_zero k))
    have e2 : a % 2 ^ (k + 1) / 2 = a / 2 % 2 ^ k := by
      rw [pow_succ', Nat.mod_mul_right_div_self]
    have e3 : a / 2 / 2 ^ k = a / 2 ^ (k + 1) := by
      rw [Nat.div_div_eq_div_mul, pow_succ']
    rw [e1, e2, e3, pow_succ]
    ring

theorem brev_brev (k a : Nat) (h : a < 2 ^ k) : brev k (brev k a) = a := by
  induction k generalizing a with
  | zero => simp at h; simp [brev, h]
  | succ k ih =>
    have hc := brev_lt k (a / 2)
    have ha2 : a / 2 < 2 ^ k := by rw [pow_succ] at h; omega
    rw [brev_succ', brev]
    have e1 : (a % 2 * 2 ^ k + brev k (a / 2)) % 2 ^ k = brev k (a / 2) := by
      rw [Nat.add_comm, Nat.add_mul_mod_self_right, Nat.mod_eq_of_lt hc]
    have e2 : (a % 2 * 2 ^ k + brev k (a / 2)) / 2 ^ k = a % 2 := by
      rw [Nat.add_comm, Nat.add_mul_div_right _ _ (by positivity), Nat.div_eq_of_lt hc]; simp
    rw [e1, e2, ih _ ha2]
    omega

theorem brev_shift (n m a : Nat) (h : a < 2 ^ n) : brev (n + m) a = brev n a * 2 ^ m := by
  induction n generalizing a with
  | zero => simp at h; simp [h]
  | succ n ih =>
    have ha2 : a / 2 < 2 ^ n := by rw [pow_succ] at h; omega
    have : n + 1 + m = (n + m) + 1 := by omega
    rw [this, brev, ih _ ha2, brev, pow_add]
    ring

theorem brev_even (k c : Nat) : brev (k + 1) (2 * c) = brev k c := by
  rw [brev]; simp

theorem brev_odd (k c : Nat) : brev (k + 1) (2 * c + 1) = brev k c + 2 ^ k := by
  rw [brev]
  have h1 : (2 * c + 1) % 2 = 1 := by omega
  have h2 : (2 * c + 1) / 2 = c := by omega
  rw [h1, h2]; ring

theorem foldl_rev (a n : Nat) : ∀ (s r0 : Nat),
    (List.range' s n).foldl (fun r i => r * 2 + (a >>> i) % 2) r0 = r0 * 2 ^ n + brev n (a >>> s) := by
  induction n with
  | zero => intro s r0; simp [brev]
  | succ n ih =>
    intro s r0
    rw [List.range'_succ, List.foldl_cons, ih, brev, Nat.shiftRight_succ, pow_succ]
    ring

theorem reverseBits64_eq (a : Nat) : reverseBits64 a = brev 64 a := by
  unfold reverseBits64
  rw [List.range_eq_range', foldl_rev]; simp

/-- the model's `bitrev` (64-bit reverse, then shift) is bit reversal on `k` bits -/
theorem bitrev_eq (k a : Nat) (hk : k ≤ 64) (ha : a < 2 ^ k) : bitrev a k = brev k a := by
  unfold bitrev
  rw [reverseBits64_eq]
  have : 64 = k + (64 - k) := by omega
  rw [this, brev_shift k (64 - k) a ha, ← this]
  rcases Nat.eq_zero_or_pos k with h0 | hpos
  · subst h0; simp at ha; subst ha; simp
  · rw [Nat.mod_eq_of_lt (by omega), Nat.shiftRight_eq_div_pow, Nat.mul_div_cancel _ (by positivity)]

/-- bit-reversed order of `0 … 2^n − 1`, top-down recursion -/
def brOrder : Nat → List Nat
  | 0 => [0]
  | n + 1 => (brOrder n).map (fun i => 2 * i) ++ (brOrder n).map (fun i => 2 * i + 1)

/-- the same order, bottom-up recursion (the one the iterative loops follow) -/
def brU : Nat → List Nat
  | 0 => [0]
  | l + 1 => (brU l).flatMap (fun b => [b, b + 2 ^ l])

theorem range_two_mul (n : Nat) :
    List.range (2 * n) = (List.range n).flatMap (fun c => [2 * c, 2 * c + 1]) := by
  induction n with
  | zero => rfl
  | succ n ih =>
    have : 2 * (n + 1) = 2 * n + 1 + 1 := by omega
    rw [this, List.range_succ, List.range_succ, ih, List.range_succ, List.flatMap_append]
    simp

theorem brU_eq (k : Nat) : brU k = (List.range (2 ^ k)).map (brev k) := by
  induction k with
  | zero => rfl
  | succ k ih =>
    rw [brU, ih, pow_succ', range_two_mul, List.flatMap_map, List.map_flatMap]
    apply List.flatMap_congr
    intro c _
    simp [brev_even, brev_odd]

theorem brOrder_eq (k : Nat) : brOrder k = (List.range (2 ^ k)).map (brev k) := by
  induction k with
  | zero => rfl
  | succ k ih =>
    have : 2 ^ (k + 1) = 2 ^ k + 2 ^ k := by rw [pow_succ]; omega
    rw [brOrder, ih, this, List.range_add, List.map_append, List.map_map, List.map_map, List.map_map]
    congr 1
    · apply List.map_congr_left
      intro a ha
      have ha := List.mem_range.mp ha
      simp only [Function.comp, brev_succ', Nat.mod_eq_of_lt ha, Nat.div_eq_of_lt ha]; simp
    · apply List.map_congr_left
      intro a ha
      have ha := List.mem_range.mp ha
      simp only [Function.comp, brev_succ']
      have e1 : (2 ^ k + a) % 2 ^ k = a := by
        rw [Nat.add_mod_left, Nat.mod_eq_of_lt ha]
      have e2 : (2 ^ k + a) / 2 ^ k = 1 := by
        rw [Nat.add_div_left _ (by positivity), Nat.div_eq_of_lt ha]
      rw [e1, e2]

theorem brOrder_eq_brU (k : Nat) : brOrder k = brU k := by rw [brOrder_eq, brU_eq]

theorem brOrder_eq_bitrev (k : Nat) (hk : k ≤ 64) :
    brOrder k = (List.range (2 ^ k)).map (fun i => bitrev i k) := by
  rw [brOrder_eq]
  apply List.map_congr_left
  intro a ha
  rw [bitrev_eq k a hk (List.mem_range.mp ha)]

end Ark.Fft.A
