import Ark.Model.MontOps
import Ark.Props.C01a
import Ark.Props.C01b
import Ark.Props.C01c
import Ark.Props.C01d
import Ark.Props.C01e
import Ark.Props.C15b
import Ark.Props.FieldOpsGeneric
import Mathlib.Data.ZMod.Basic
import Mathlib.Algebra.Field.ZMod
import Mathlib.Tactic.Ring
import Mathlib.Tactic.FieldSimp
import Mathlib.Tactic.Linarith
/-
  Ark.Proofs.MontF — the denotation of Montgomery limbs in `ZMod pv`, the `Ops.Interp` instance of
  the Montgomery backend, and the integer / byte-string conversions of `Ark.Model.MontOps`.
  Helper lemmas for Ark/Props/C01f.lean.
-/
namespace Ark.Mont
open Ark

/-- the residue denoted by the Montgomery limbs `a`: `value a · R⁻¹` with `R = 2^(64N)` -/
def den (c : MontCfg) (pv : Nat) (a : List Nat) : ZMod pv :=
  (value a : ZMod pv) * ((B ^ c.n : ℕ) : ZMod pv)⁻¹

section
variable {c : MontCfg} {pv : Nat}

/-! ### the bridge `% pv` ↔ `ZMod pv` -/

theorem cast_eq_of_mod_eq {x y : Nat} (h : x % pv = y % pv) : (x : ZMod pv) = (y : ZMod pv) :=
  (ZMod.natCast_eq_natCast_iff' x y pv).2 h

theorem mod_eq_of_cast_eq {x y : Nat} (h : (x : ZMod pv) = (y : ZMod pv)) : x % pv = y % pv :=
  (ZMod.natCast_eq_natCast_iff' x y pv).1 h

theorem eq_of_cast_eq {x y : Nat} (hx : x < pv) (hy : y < pv)
    (h : (x : ZMod pv) = (y : ZMod pv)) : x = y := by
  have := mod_eq_of_cast_eq h
  rwa [Nat.mod_eq_of_lt hx, Nat.mod_eq_of_lt hy] at this

theorem cast_eq_zero_of_lt {x : Nat} (hx : x < pv) : (x : ZMod pv) = 0 ↔ x = 0 := by
  rw [ZMod.natCast_eq_zero_iff]
  constructor
  · intro hd
    exact Nat.eq_zero_of_dvd_of_lt hd hx
  · rintro rfl; exact dvd_zero _

variable [Fact pv.Prime]

/-- `R = 2^(64N)` is a unit modulo the odd prime `pv` -/
theorem R_ne_zero (h : CfgOK c pv) : ((B ^ c.n : ℕ) : ZMod pv) ≠ 0 := by
  intro h0
  rw [ZMod.natCast_eq_zero_iff] at h0
  have hco := coprime_R h.p_odd c.n
  have : pv ∣ 1 := by
    have := Nat.dvd_gcd h0 (dvd_refl pv)
    rwa [hco] at this
  have := Nat.le_of_dvd Nat.one_pos this
  have := h.p_gt
  omega

theorem den_def (a : List Nat) :
    den c pv a = (value a : ZMod pv) * ((B ^ c.n : ℕ) : ZMod pv)⁻¹ := rfl

/-- `value a = den a · R` in `ZMod pv` -/
theorem den_mul_R (h : CfgOK c pv) (a : List Nat) :
    den c pv a * ((B ^ c.n : ℕ) : ZMod pv) = (value a : ZMod pv) := by
  rw [den_def, mul_assoc, inv_mul_cancel₀ (R_ne_zero h), mul_one]

/-- a Montgomery congruence `x·R ≡ y (mod p)` read in `ZMod pv` -/
theorem cast_of_mont {x y : Nat} (h : CfgOK c pv) (e : (x * B ^ c.n) % pv = y % pv) :
    (x : ZMod pv) = (y : ZMod pv) * ((B ^ c.n : ℕ) : ZMod pv)⁻¹ := by
  have := cast_eq_of_mod_eq e
  rw [Nat.cast_mul] at this
  rw [← this, mul_assoc, mul_inv_cancel₀ (R_ne_zero h), mul_one]

theorem den_eq_zero_iff (h : CfgOK c pv) {a : List Nat} (ha : Elem c pv a) :
    den c pv a = 0 ↔ value a = 0 := by
  rw [den_def, mul_eq_zero, cast_eq_zero_of_lt ha.lt]
  constructor
  · rintro (h1 | h1)
    · exact h1
    · exact absurd (inv_eq_zero.1 h1) (R_ne_zero h)
  · exact Or.inl

theorem den_isZero_iff (h : CfgOK c pv) {a : List Nat} (ha : Elem c pv a) :
    isZero a = true ↔ den c pv a = 0 := by
  rw [den_eq_zero_iff h ha, isZero_iff]

theorem den_inj (h : CfgOK c pv) {a b : List Nat} (ha : Elem c pv a) (hb : Elem c pv b)
    (e : den c pv a = den c pv b) : a = b := by
  have e2 : (value a : ZMod pv) = (value b : ZMod pv) := by
    rw [← den_mul_R h a, ← den_mul_R h b, e]
  exact value_inj _ _ ha.wf hb.wf (by rw [ha.len, hb.len]) (eq_of_cast_eq ha.lt hb.lt e2)

/-! ### constants -/

theorem zeros_elem (h : CfgOK c pv) : Elem c pv (zeros c.n) :=
  ⟨List.length_replicate, WF_replicate_zero _, by
    show value (List.replicate c.n 0) < pv
    rw [value_replicate_zero]; have := h.p_gt; omega⟩

theorem den_zeros : den c pv (zeros c.n) = 0 := by
  rw [den_def]
  show ((value (List.replicate c.n 0) : ℕ) : ZMod pv) * _ = 0
  rw [value_replicate_zero, Nat.cast_zero, zero_mul]

theorem one_elem (h : CfgOK c pv) : Elem c pv c.r :=
  ⟨h.r_len, h.r_wf, by rw [h.r_val]; exact Nat.mod_lt _ (by have := h.p_gt; omega)⟩

theorem den_one (h : CfgOK c pv) : den c pv c.r = 1 := by
  rw [den_def, h.r_val, ZMod.natCast_mod, mul_inv_cancel₀ (R_ne_zero h)]

/-! ### ring operations -/

theorem den_add (h : CfgOK c pv) {a b : List Nat} (ha : Elem c pv a) (hb : Elem c pv b) :
    den c pv (add c a b) = den c pv a + den c pv b := by
  rw [den_def, (C01.add_exact h a b ha hb).2, ZMod.natCast_mod, Nat.cast_add, add_mul]; rfl

theorem den_sub (h : CfgOK c pv) {a b : List Nat} (ha : Elem c pv a) (hb : Elem c pv b) :
    den c pv (sub c a b) = den c pv a - den c pv b := by
  have hl := hb.lt
  rw [den_def, (C01.sub_exact h a b ha hb).2, ZMod.natCast_mod,
    Nat.cast_sub (by omega), Nat.cast_add, ZMod.natCast_self, zero_add, sub_mul]; rfl

theorem den_neg (h : CfgOK c pv) {a : List Nat} (ha : Elem c pv a) :
    den c pv (neg c a) = - den c pv a := by
  have hl := ha.lt
  rw [den_def, (C01.neg_exact h a ha).2, ZMod.natCast_mod,
    Nat.cast_sub (by omega), ZMod.natCast_self, zero_sub, neg_mul]; rfl

theorem den_double (h : CfgOK c pv) {a : List Nat} (ha : Elem c pv a) :
    den c pv (double c a) = 2 * den c pv a := by
  rw [den_def, (C01.double_exact h a ha).2, ZMod.natCast_mod, Nat.cast_mul, mul_assoc]; rfl

theorem den_mul (h : CfgOK c pv) {a b : List Nat} (ha : Elem c pv a) (hb : Elem c pv b) :
    den c pv (mul c a b) = den c pv a * den c pv b := by
  have e := cast_of_mont h (C01.mul_correct h ha hb).2
  rw [den_def, e, Nat.cast_mul, den_def, den_def]; ring

theorem den_square (h : CfgOK c pv) {a : List Nat} (ha : Elem c pv a) :
    den c pv (square c a) = den c pv a * den c pv a := by
  rw [C01.square_eq_mul h ha, den_mul h ha ha]

theorem den_inverse (h : CfgOK c pv) {a : List Nat} (ha : Elem c pv a) (hne : den c pv a ≠ 0) :
    ∃ r, inverse c a = some r ∧ Elem c pv r ∧ den c pv r = (den c pv a)⁻¹ := by
  have hv : value a ≠ 0 := fun h0 => hne ((den_eq_zero_iff h ha).2 h0)
  obtain ⟨r, e1, e2, e3⟩ := (C01.inverse_correct h Fact.out a ha).1 hv
  refine ⟨r, e1, e2, ?_⟩
  have e4 := cast_eq_of_mod_eq e3
  rw [Nat.cast_mul, Nat.cast_mul] at e4
  apply eq_inv_of_mul_eq_one_left
  have hR := R_ne_zero h
  rw [den_def, den_def]
  have : (value r : ZMod pv) * ((B ^ c.n : ℕ) : ZMod pv)⁻¹ * ((value a : ZMod pv) * ((B ^ c.n : ℕ) : ZMod pv)⁻¹)
      = ((value r : ZMod pv) * (value a : ZMod pv)) * (((B ^ c.n : ℕ) : ZMod pv)⁻¹ * ((B ^ c.n : ℕ) : ZMod pv)⁻¹) := by
    ring
  rw [this, e4]
  field_simp

theorem inverse_none_of_den_zero (h : CfgOK c pv) {a : List Nat} (ha : Elem c pv a)
    (h0 : den c pv a = 0) : inverse c a = none :=
  C01.inverse_zero a ((den_eq_zero_iff h ha).1 h0)

/-! ### conversions out of / into Montgomery form -/

theorem den_intoBigint (h : CfgOK c pv) {a : List Nat} (ha : Elem c pv a) :
    (value (intoBigint c a) : ZMod pv) = den c pv a := by
  obtain ⟨_, _, e⟩ := C01.into_bigint_correct h ha
  rw [cast_of_mont h e]; rfl

theorem intoBigint_val (h : CfgOK c pv) {a : List Nat} (ha : Elem c pv a) :
    value (intoBigint c a) = (den c pv a).val := by
  rw [← den_intoBigint h ha, ZMod.val_cast_of_lt (C01.into_bigint_correct h ha).2.1]

theorem den_of_mont_value (h : CfgOK c pv) {r : List Nat} {x : Nat}
    (e : value r = (x * B ^ c.n) % pv) : den c pv r = (x : ZMod pv) := by
  rw [den_def, e, ZMod.natCast_mod, Nat.cast_mul, mul_assoc, mul_inv_cancel₀ (R_ne_zero h), mul_one]

theorem den_fromBigint (h : CfgOK c pv) {x : List Nat} (hx : Limbs c x) (hlt : value x < pv) :
    ∃ r, fromBigint c x = some r ∧ Elem c pv r ∧ den c pv r = (value x : ZMod pv) := by
  obtain ⟨r, e1, e2, e3⟩ := C01.from_bigint_some h hx hlt
  exact ⟨r, e1, e2, den_of_mont_value h e3⟩

theorem den_fpNew (h : CfgOK c pv) {x : List Nat} (hx : Limbs c x) :
    Elem c pv (fpNew c x) ∧ den c pv (fpNew c x) = (value x : ZMod pv) := by
  obtain ⟨e1, e2⟩ := C01.fp_new_correct h hx
  exact ⟨e1, den_of_mont_value h e2⟩

/-! ### sum of products -/

theorem cast_sum_pairs (l : List (List Nat × List Nat)) :
    (((l.map (fun ab => value ab.1 * value ab.2)).sum : ℕ) : ZMod pv) * ((B ^ c.n : ℕ) : ZMod pv)⁻¹
        * ((B ^ c.n : ℕ) : ZMod pv)⁻¹
      = (l.map (fun ab => den c pv ab.1 * den c pv ab.2)).sum := by
  induction l with
  | nil => simp
  | cons ab l ih =>
    simp only [List.map_cons, List.sum_cons, Nat.cast_add, Nat.cast_mul, add_mul]
    rw [ih, den_def, den_def]; ring

theorem den_sumOfProducts (h : CfgOK c pv) {as bs : List (List Nat)}
    (hlen : as.length = bs.length) (ha : ∀ a ∈ as, Elem c pv a) (hb : ∀ b ∈ bs, Elem c pv b) :
    Elem c pv (sumOfProducts c as bs) ∧
    den c pv (sumOfProducts c as bs)
      = ((as.zip bs).map (fun ab => den c pv ab.1 * den c pv ab.2)).sum := by
  obtain ⟨e1, e2⟩ := C01.sum_of_products_correct h hlen ha hb
  refine ⟨e1, ?_⟩
  rw [← cast_sum_pairs (c := c) (as.zip bs), den_def, cast_of_mont h e2]

end
end Ark.Mont
