import Ark.Model.MontOps
import Ark.Props.C01a
import Ark.Props.C01b
import Ark.Props.C01c
import Ark.Props.C01d
import Ark.Props.C01e
import Ark.Props.C15b
import Ark.Props.FieldOpsGeneric
import Mathlib.Data.ZMod.Basic
import Mathlib.Algebra.Field.ZMod
import Mathlib.Tactic.Ring
import Mathlib.Tactic.FieldSimp
import Mathlib.Tactic.Linarith
/-
  Ark.Proofs.MontF — the denotation of Montgomery limbs in `ZMod pv`, the `Ops.Interp` instance of
  the Montgomery backend, and the integer / byte-string conversions of `Ark.Model.MontOps`.
  Helper lemmas for Ark/Props/C01f.lean.
-/
namespace Ark.Mont
open Ark

/-- the residue denoted by the Montgomery limbs `a`: `value a · R⁻¹` with `R = 2^(64N)` -/
def den (c : MontCfg) (pv : Nat) (a : List Nat) : ZMod pv :=
  (value a : ZMod pv) * ((B ^ c.n : ℕ) : ZMod pv)⁻¹

section
variable {c : MontCfg} {pv : Nat}

/-! ### the bridge `% pv` ↔ `ZMod pv` -/

theorem cast_eq_of_mod_eq {x y : Nat} (h : x % pv = y % pv) : (x : ZMod pv) = (y : ZMod pv) :=
  (ZMod.natCast_eq_natCast_iff' x y pv).2 h

theorem mod_eq_of_cast_eq {x y : Nat} (h : (x : ZMod pv) = (y : ZMod pv)) : x % pv = y % pv :=
  (ZMod.natCast_eq_natCast_iff' x y pv).1 h

theorem eq_of_cast_eq {x y : Nat} (hx : x < pv) (hy : y < pv)
    (h : (x : ZMod pv) = (y : ZMod pv)) : x = y := by
  have := mod_eq_of_cast_eq h
  rwa [Nat.mod_eq_of_lt hx, Nat.mod_eq_of_lt hy] at this

theorem cast_eq_zero_of_lt {x : Nat} (hx : x < pv) : (x : ZMod pv) = 0 ↔ x = 0 := by
  rw [ZMod.natCast_eq_zero_iff]
  constructor
  · intro hd
    exact Nat.eq_zero_of_dvd_of_lt hd hx
  · rintro rfl; exact dvd_zero _

theorem one_elem (h : CfgOK c pv) : Elem c pv c.r :=
  ⟨h.r_len, h.r_wf, by rw [h.r_val]; exact Nat.mod_lt _ (by have := h.p_gt; omega)⟩

variable [Fact pv.Prime]

/-- `R = 2^(64N)` is a unit modulo the odd prime `pv` -/
theorem R_ne_zero (h : CfgOK c pv) : ((B ^ c.n : ℕ) : ZMod pv) ≠ 0 := by
  intro h0
  rw [ZMod.natCast_eq_zero_iff] at h0
  have hco := coprime_R h.p_odd c.n
  have : pv ∣ 1 := by
    have := Nat.dvd_gcd h0 (dvd_refl pv)
    rwa [hco] at this
  have := Nat.le_of_dvd Nat.one_pos this
  have := h.p_gt
  omega

theorem den_def (a : List Nat) :
    den c pv a = (value a : ZMod pv) * ((B ^ c.n : ℕ) : ZMod pv)⁻¹ := rfl

/-- `value a = den a · R` in `ZMod pv` -/
theorem den_mul_R (h : CfgOK c pv) (a : List Nat) :
    den c pv a * ((B ^ c.n : ℕ) : ZMod pv) = (value a : ZMod pv) := by
  rw [den_def, mul_assoc, inv_mul_cancel₀ (R_ne_zero h), mul_one]

/-- a Montgomery congruence `x·R ≡ y (mod p)` read in `ZMod pv` -/
theorem cast_of_mont {x y : Nat} (h : CfgOK c pv) (e : (x * B ^ c.n) % pv = y % pv) :
    (x : ZMod pv) = (y : ZMod pv) * ((B ^ c.n : ℕ) : ZMod pv)⁻¹ := by
  have := cast_eq_of_mod_eq e
  rw [Nat.cast_mul] at this
  rw [← this, mul_assoc, mul_inv_cancel₀ (R_ne_zero h), mul_one]

theorem den_eq_zero_iff (h : CfgOK c pv) {a : List Nat} (ha : Elem c pv a) :
    den c pv a = 0 ↔ value a = 0 := by
  rw [den_def, mul_eq_zero, cast_eq_zero_of_lt ha.lt]
  constructor
  · rintro (h1 | h1)
    · exact h1
    · exact absurd (inv_eq_zero.1 h1) (R_ne_zero h)
  · exact Or.inl

theorem den_isZero_iff (h : CfgOK c pv) {a : List Nat} (ha : Elem c pv a) :
    isZero a = true ↔ den c pv a = 0 := by
  rw [den_eq_zero_iff h ha, isZero_iff]

theorem den_inj (h : CfgOK c pv) {a b : List Nat} (ha : Elem c pv a) (hb : Elem c pv b)
    (e : den c pv a = den c pv b) : a = b := by
  have e2 : (value a : ZMod pv) = (value b : ZMod pv) := by
    rw [← den_mul_R h a, ← den_mul_R h b, e]
  exact value_inj _ _ ha.wf hb.wf (by rw [ha.len, hb.len]) (eq_of_cast_eq ha.lt hb.lt e2)

/-! ### constants -/

theorem den_zeros : den c pv (zeros c.n) = 0 := by
  rw [den_def]
  show ((value (List.replicate c.n 0) : ℕ) : ZMod pv) * _ = 0
  rw [value_replicate_zero, Nat.cast_zero, zero_mul]

theorem den_one (h : CfgOK c pv) : den c pv c.r = 1 := by
  rw [den_def, h.r_val, ZMod.natCast_mod, mul_inv_cancel₀ (R_ne_zero h)]

/-! ### ring operations -/

theorem den_add (h : CfgOK c pv) {a b : List Nat} (ha : Elem c pv a) (hb : Elem c pv b) :
    den c pv (add c a b) = den c pv a + den c pv b := by
  rw [den_def, (C01.add_exact h a b ha hb).2, ZMod.natCast_mod, Nat.cast_add, add_mul]; rfl

theorem den_sub (h : CfgOK c pv) {a b : List Nat} (ha : Elem c pv a) (hb : Elem c pv b) :
    den c pv (sub c a b) = den c pv a - den c pv b := by
  have hl := hb.lt
  rw [den_def, (C01.sub_exact h a b ha hb).2, ZMod.natCast_mod,
    Nat.cast_sub (by omega), Nat.cast_add, ZMod.natCast_self, zero_add, sub_mul]; rfl

theorem den_neg (h : CfgOK c pv) {a : List Nat} (ha : Elem c pv a) :
    den c pv (neg c a) = - den c pv a := by
  have hl := ha.lt
  rw [den_def, (C01.neg_exact h a ha).2, ZMod.natCast_mod,
    Nat.cast_sub (by omega), ZMod.natCast_self, zero_sub, neg_mul]; rfl

theorem den_double (h : CfgOK c pv) {a : List Nat} (ha : Elem c pv a) :
    den c pv (double c a) = 2 * den c pv a := by
  rw [den_def, (C01.double_exact h a ha).2, ZMod.natCast_mod, Nat.cast_mul, mul_assoc]; rfl

theorem den_mul (h : CfgOK c pv) {a b : List Nat} (ha : Elem c pv a) (hb : Elem c pv b) :
    den c pv (mul c a b) = den c pv a * den c pv b := by
  have e := cast_of_mont h (C01.mul_correct h ha hb).2
  rw [den_def, e, Nat.cast_mul, den_def, den_def]; ring

theorem den_square (h : CfgOK c pv) {a : List Nat} (ha : Elem c pv a) :
    den c pv (square c a) = den c pv a * den c pv a := by
  rw [C01.square_eq_mul h ha, den_mul h ha ha]

theorem den_inverse (h : CfgOK c pv) {a : List Nat} (ha : Elem c pv a) (hne : den c pv a ≠ 0) :
    ∃ r, inverse c a = some r ∧ Elem c pv r ∧ den c pv r = (den c pv a)⁻¹ := by
  have hv : value a ≠ 0 := fun h0 => hne ((den_eq_zero_iff h ha).2 h0)
  obtain ⟨r, e1, e2, e3⟩ := (C01.inverse_correct h Fact.out a ha).1 hv
  refine ⟨r, e1, e2, ?_⟩
  have e4 := cast_eq_of_mod_eq e3
  rw [Nat.cast_mul, Nat.cast_mul] at e4
  apply eq_inv_of_mul_eq_one_left
  have hR := R_ne_zero h
  rw [den_def, den_def]
  have : (value r : ZMod pv) * ((B ^ c.n : ℕ) : ZMod pv)⁻¹ * ((value a : ZMod pv) * ((B ^ c.n : ℕ) : ZMod pv)⁻¹)
      = ((value r : ZMod pv) * (value a : ZMod pv)) * (((B ^ c.n : ℕ) : ZMod pv)⁻¹ * ((B ^ c.n : ℕ) : ZMod pv)⁻¹) := by
    ring
  rw [this, e4]
  field_simp

theorem inverse_none_of_den_zero (h : CfgOK c pv) {a : List Nat} (ha : Elem c pv a)
    (h0 : den c pv a = 0) : inverse c a = none :=
  C01.inverse_zero a ((den_eq_zero_iff h ha).1 h0)

/-! ### conversions out of / into Montgomery form -/

theorem den_intoBigint (h : CfgOK c pv) {a : List Nat} (ha : Elem c pv a) :
    (value (intoBigint c a) : ZMod pv) = den c pv a := by
  obtain ⟨_, _, e⟩ := C01.into_bigint_correct h ha
  rw [cast_of_mont h e]; rfl

theorem intoBigint_val (h : CfgOK c pv) {a : List Nat} (ha : Elem c pv a) :
    value (intoBigint c a) = (den c pv a).val := by
  rw [← den_intoBigint h ha, ZMod.val_cast_of_lt (C01.into_bigint_correct h ha).2.1]

theorem den_of_mont_value (h : CfgOK c pv) {r : List Nat} {x : Nat}
    (e : value r = (x * B ^ c.n) % pv) : den c pv r = (x : ZMod pv) := by
  rw [den_def, e, ZMod.natCast_mod, Nat.cast_mul, mul_assoc, mul_inv_cancel₀ (R_ne_zero h), mul_one]

theorem den_fromBigint (h : CfgOK c pv) {x : List Nat} (hx : Limbs c x) (hlt : value x < pv) :
    ∃ r, fromBigint c x = some r ∧ Elem c pv r ∧ den c pv r = (value x : ZMod pv) := by
  obtain ⟨r, e1, e2, e3⟩ := C01.from_bigint_some h hx hlt
  exact ⟨r, e1, e2, den_of_mont_value h e3⟩

theorem den_fpNew (h : CfgOK c pv) {x : List Nat} (hx : Limbs c x) :
    Elem c pv (fpNew c x) ∧ den c pv (fpNew c x) = (value x : ZMod pv) := by
  obtain ⟨e1, e2⟩ := C01.fp_new_correct h hx
  exact ⟨e1, den_of_mont_value h e2⟩

/-! ### sum of products -/

theorem cast_sum_pairs (l : List (List Nat × List Nat)) :
    (((l.map (fun ab => value ab.1 * value ab.2)).sum : ℕ) : ZMod pv) * ((B ^ c.n : ℕ) : ZMod pv)⁻¹
        * ((B ^ c.n : ℕ) : ZMod pv)⁻¹
      = (l.map (fun ab => den c pv ab.1 * den c pv ab.2)).sum := by
  induction l with
  | nil => simp
  | cons ab l ih =>
    simp only [List.map_cons, List.sum_cons, Nat.cast_add, Nat.cast_mul, add_mul]
    rw [ih, den_def, den_def]; ring

theorem den_sumOfProducts (h : CfgOK c pv) {as bs : List (List Nat)}
    (hlen : as.length = bs.length) (ha : ∀ a ∈ as, Elem c pv a) (hb : ∀ b ∈ bs, Elem c pv b) :
    Elem c pv (sumOfProducts c as bs) ∧
    den c pv (sumOfProducts c as bs)
      = ((as.zip bs).map (fun ab => den c pv ab.1 * den c pv ab.2)).sum := by
  obtain ⟨e1, e2⟩ := C01.sum_of_products_correct h hlen ha hb
  refine ⟨e1, ?_⟩
  rw [← cast_sum_pairs (c := c) (as.zip bs), den_def, cast_of_mont h e2]

/-! ### the `Ops.Interp` instance -/

/-- the Montgomery backend interpreted in `ZMod pv`: valid representations are the canonical
    elements, the denotation is `den` -/
def montInterp (h : CfgOK c pv) : (montOps c).Interp (ZMod pv) where
  V := Elem c pv
  φ := den c pv
  one_V := one_elem h
  one_φ := den_one h
  mul_V := fun ha hb => (C01.mul_correct h ha hb).1
  mul_φ := fun ha hb => den_mul h ha hb
  square_V := fun ha => (C01.square_correct h ha).1
  square_φ := fun ha => den_square h ha
  isZero_iff := fun ha => den_isZero_iff h ha
  inv_some := fun ha hne => den_inverse h ha hne

theorem den_pow (h : CfgOK c pv) {a : List Nat} (ha : Elem c pv a) (e : List Nat) (he : WF e) :
    Elem c pv ((montOps c).pow a (toBitsBE e)) ∧
    den c pv ((montOps c).pow a (toBitsBE e)) = den c pv a ^ value e :=
  Ops.pow_limbs_correct (montInterp h) ha e he

theorem den_pow_bits (h : CfgOK c pv) {a : List Nat} (ha : Elem c pv a) (bits : List Bool) :
    Elem c pv ((montOps c).pow a bits) ∧
    den c pv ((montOps c).pow a bits) = den c pv a ^ bitsValBE bits :=
  Ops.pow_correct (montInterp h) ha bits

theorem den_batchInvMul (h : CfgOK c pv) (v : List (List Nat)) (coeff : List Nat)
    (hv : ∀ f ∈ v, Elem c pv f) (hc : Elem c pv coeff) :
    ∃ w, (montOps c).batchInvMul v coeff = some w ∧ w.length = v.length ∧
      (∀ x ∈ w, Elem c pv x) ∧
      ∀ (i : Nat) (h1 : i < v.length) (h2 : i < w.length),
        (den c pv v[i] = 0 → w[i] = v[i]) ∧
        (den c pv v[i] ≠ 0 → den c pv w[i] = den c pv coeff * (den c pv v[i])⁻¹) :=
  Ops.batchInvMul_correct (montInterp h) v coeff hv hc

/-! ### integer conversions -/

theorem fromBigintUnwrap_ok (h : CfgOK c pv) {x : Nat} (hx : x < pv) :
    ∃ r, fromBigintUnwrap c x = .ok r ∧ Elem c pv r ∧ den c pv r = (x : ZMod pv) := by
  have hl : Limbs c (toLimbs c.n x) := ⟨toLimbs_length _ _, toLimbs_wf _ _⟩
  have hv : value (toLimbs c.n x) = x := by
    rw [toLimbs_value, Nat.mod_eq_of_lt (Nat.lt_trans hx h.p_lt)]
  obtain ⟨r, e1, e2, e3⟩ := den_fromBigint h hl (by rw [hv]; exact hx)
  refine ⟨r, ?_, e2, by rw [e3, hv]⟩
  unfold fromBigintUnwrap; rw [e1]

omit [Fact pv.Prime] in
theorem fromBigintUnwrap_panic (h : CfgOK c pv) {x : Nat} (hx : pv ≤ x) (hlt : x < B ^ c.n) :
    fromBigintUnwrap c x = .panic := by
  have hl : Limbs c (toLimbs c.n x) := ⟨toLimbs_length _ _, toLimbs_wf _ _⟩
  have hv : value (toLimbs c.n x) = x := by rw [toLimbs_value, Nat.mod_eq_of_lt hlt]
  unfold fromBigintUnwrap
  rw [C01.from_bigint_none h hl (by rw [hv]; exact hx)]

omit [Fact pv.Prime] in
theorem p_headD_one (h : CfgOK c pv) (hn : c.n = 1) : c.p.headD 1 = pv := by
  have hl := h.p_len
  have hv := h.p_val
  rw [hn] at hl
  match hp : c.p, hl with
  | [p0], _ =>
    rw [hp] at hv
    simp only [value, Nat.mul_zero, Nat.add_zero] at hv
    simpa using hv

/-- `From<u64>`: correct whenever `N = 1` (reduction first) or `x < p` -/
theorem fromU64_ok (h : CfgOK c pv) {x : Nat} (hx : c.n = 1 ∨ x < pv) :
    ∃ r, fromU64 c x = .ok r ∧ Elem c pv r ∧ den c pv r = (x : ZMod pv) := by
  have hp : 0 < pv := by have := h.p_gt; omega
  unfold fromU64
  by_cases hn : c.n = 1
  · rw [if_pos (by simp [hn]), p_headD_one h hn]
    obtain ⟨r, e1, e2, e3⟩ := fromBigintUnwrap_ok h (Nat.mod_lt x hp)
    exact ⟨r, e1, e2, by rw [e3, ZMod.natCast_mod]⟩
  · rw [if_neg (by simp [hn])]
    exact fromBigintUnwrap_ok h (hx.resolve_left hn)

omit [Fact pv.Prime] in
/-- with more limbs than needed (`N ≥ 2`, `p ≤ x < 2^64`) the `unwrap` panics -/
theorem fromU64_panic (h : CfgOK c pv) {x : Nat} (hn : c.n ≠ 1) (hx : pv ≤ x) (hlt : x < B) :
    fromU64 c x = .panic := by
  unfold fromU64
  rw [if_neg (by simp [hn])]
  apply fromBigintUnwrap_panic h hx
  have : B ^ 1 ≤ B ^ c.n := Nat.pow_le_pow_right B_pos h.n_pos
  rw [Nat.pow_one] at this; omega

omit [Fact pv.Prime] in
/-- minimal limb count ⇒ every `u64` is below a modulus of `N ≥ 2` limbs -/
theorem u64_lt_of_min (h : CfgOK c pv) (hmin : B ^ (c.n - 1) ≤ pv) {x : Nat} (hx : x < B) :
    c.n = 1 ∨ x < pv := by
  by_cases hn : c.n = 1
  · exact Or.inl hn
  · right
    have h2 : 1 ≤ c.n - 1 := by have := h.n_pos; omega
    have : B ^ 1 ≤ B ^ (c.n - 1) := Nat.pow_le_pow_right B_pos h2
    rw [Nat.pow_one] at this; omega

omit [Fact pv.Prime] in
/-- shape of the modulus limbs for `N ≥ 2` -/
theorem p_two_limbs (h : CfgOK c pv) (hn : c.n ≠ 1) :
    ∃ p0 p1 rest, c.p = p0 :: p1 :: rest ∧ rest.length = c.n - 2 ∧
      pv = p0 + B * p1 + B ^ 2 * value rest := by
  have hl := h.p_len
  have hv := h.p_val
  have hpos := h.n_pos
  match hp : c.p, hl with
  | [], hl => simp at hl; omega
  | [_], hl => simp at hl; omega
  | p0 :: p1 :: rest, hl =>
    refine ⟨p0, p1, rest, rfl, by simp at hl; omega, ?_⟩
    rw [hp] at hv
    simp only [value] at hv
    rw [← hv]; ring

/-- `From<u128>`: correct for every `x < 2^128`, whatever the limb count -/
theorem fromU128_ok (h : CfgOK c pv) {x : Nat} (hx : x < B ^ 2) :
    ∃ r, fromU128 c x = .ok r ∧ Elem c pv r ∧ den c pv r = (x : ZMod pv) := by
  have hp : 0 < pv := by have := h.p_gt; omega
  unfold fromU128
  by_cases hn : c.n = 1
  · rw [if_pos (by simp [hn]), p_headD_one h hn]
    obtain ⟨r, e1, e2, e3⟩ := fromBigintUnwrap_ok h (Nat.mod_lt x hp)
    exact ⟨r, e1, e2, by rw [e3, ZMod.natCast_mod]⟩
  · rw [if_neg (by simp [hn])]
    obtain ⟨p0, p1, rest, e, hrl, hpv⟩ := p_two_limbs h hn
    by_cases hb : (c.n == 2 || isZero (c.p.drop 2)) = true
    · rw [if_pos hb]
      have hr0 : value rest = 0 := by
        rw [Bool.or_eq_true] at hb
        rcases hb with hb | hb
        · have : c.n = 2 := by simpa using hb
          have : rest = [] := List.length_eq_zero_iff.1 (by omega)
          rw [this]; rfl
        · rw [e] at hb
          exact (isZero_iff _).1 hb
      have hm : c.p.headD 0 + B * c.p.getD 1 0 = pv := by
        rw [e, hpv, hr0]; simp
      simp only [hm]
      obtain ⟨r, e1, e2, e3⟩ := fromBigintUnwrap_ok h (Nat.mod_lt x hp)
      exact ⟨r, e1, e2, by rw [e3, ZMod.natCast_mod]⟩
    · rw [if_neg hb]
      apply fromBigintUnwrap_ok h
      have hr0 : value rest ≠ 0 := by
        intro h0
        apply hb
        rw [Bool.or_eq_true]; right
        rw [e]; exact (isZero_iff _).2 h0
      have : B ^ 2 * 1 ≤ B ^ 2 * value rest := Nat.mul_le_mul_left _ (by omega)
      omega

/-- the sign handling shared by all `From<i*>` impls -/
theorem fromSigned_of_abs (h : CfgOK c pv) (wide : Bool) (x : Int) {a : List Nat}
    (habs : (if wide then fromU128 c x.natAbs else fromU64 c x.natAbs) = .ok a)
    (ha : Elem c pv a) (hd : den c pv a = (x.natAbs : ZMod pv)) :
    ∃ r, fromSigned c wide x = .ok r ∧ Elem c pv r ∧ den c pv r = (x : ZMod pv) := by
  unfold fromSigned
  simp only [habs]
  by_cases hpos : x > 0
  · rw [if_pos hpos]
    refine ⟨a, rfl, ha, ?_⟩
    rw [hd]
    have : ((x.natAbs : ℤ) : ZMod pv) = (x : ZMod pv) := by
      rw [Int.natAbs_of_nonneg (le_of_lt hpos)]
    rw [← this, Int.cast_natCast]
  · rw [if_neg hpos]
    refine ⟨neg c a, rfl, (C01.neg_exact h a ha).1, ?_⟩
    rw [den_neg h ha, hd]
    have : ((x.natAbs : ℤ) : ZMod pv) = ((-x : ℤ) : ZMod pv) := by
      rw [Int.ofNat_natAbs_of_nonpos (not_lt.1 hpos)]
    rw [← Int.cast_natCast, this, Int.cast_neg, neg_neg]

theorem fromSigned_narrow_ok (h : CfgOK c pv) {x : Int} (hx : c.n = 1 ∨ x.natAbs < pv) :
    ∃ r, fromSigned c false x = .ok r ∧ Elem c pv r ∧ den c pv r = (x : ZMod pv) := by
  obtain ⟨a, e1, e2, e3⟩ := fromU64_ok h hx
  exact fromSigned_of_abs h false x (by simpa using e1) e2 e3

theorem fromSigned_wide_ok (h : CfgOK c pv) {x : Int} (hx : x.natAbs < B ^ 2) :
    ∃ r, fromSigned c true x = .ok r ∧ Elem c pv r ∧ den c pv r = (x : ZMod pv) := by
  obtain ⟨a, e1, e2, e3⟩ := fromU128_ok h hx
  exact fromSigned_of_abs h true x (by simpa using e1) e2 e3

/-! ### byte strings -/

omit [Fact pv.Prime] in
theorem bytesValueLE_lt (l : List Nat) (hb : ∀ b ∈ l, b < 256) :
    bytesValueLE l < 256 ^ l.length := by
  induction l with
  | nil => simp [bytesValueLE]
  | cons b l ih =>
    have h1 := hb b (by simp)
    have h2 := ih (fun x hx => hb x (by simp [hx]))
    simp only [bytesValueLE, List.length_cons, Nat.pow_succ]
    omega

omit [Fact pv.Prime] in
theorem bytesValueLE_append (l1 l2 : List Nat) :
    bytesValueLE (l1 ++ l2) = bytesValueLE l1 + 256 ^ l1.length * bytesValueLE l2 := by
  induction l1 with
  | nil => simp [bytesValueLE]
  | cons b l ih =>
    simp only [List.cons_append, bytesValueLE, ih, List.length_cons, Nat.pow_succ]
    ring

omit [Fact pv.Prime] in
/-- `modulusBytes = ⌈bits/8⌉`, so `modulusBytes − 1` whole bytes always fit below the modulus -/
theorem pow_modulusBytes_le (h : CfgOK c pv) : 256 ^ (modulusBytes c - 1) ≤ pv := by
  have hb : numBits c.p = bitLen pv := by rw [numBits_spec c.p h.p_wf, h.p_val]
  have hp := h.p_gt
  have h1 : ¬ bitLen pv ≤ bitLen pv - 1 := by
    have h0 : ¬ bitLen pv ≤ 0 := by rw [bitLen_le_iff]; omega
    omega
  rw [bitLen_le_iff] at h1
  have h2 : 8 * (modulusBytes c - 1) ≤ bitLen pv - 1 := by
    unfold modulusBytes; rw [hb]; omega
  have h3 : (256 : Nat) ^ (modulusBytes c - 1) = 2 ^ (8 * (modulusBytes c - 1)) := by
    rw [Nat.pow_mul]
  rw [h3]
  exact Nat.le_trans (Nat.pow_le_pow_right (by omega) h2) (not_lt.1 h1)

theorem bytes_fold (h : CfgOK c pv) {w : List Nat} (hw : Elem c pv w)
    (hdw : den c pv w = 256) :
    ∀ (L : List Nat), (∀ b ∈ L, c.n = 1 ∨ b < pv) → ∀ res, Elem c pv res →
    ∃ r, L.reverse.foldl (fun (acc : Outcome (List Nat)) byte =>
        match acc, fromU64 c byte with
        | .ok res, .ok bb => .ok (add c (mul c res w) bb)
        | _, _ => .panic) (.ok res) = .ok r ∧ Elem c pv r ∧
      den c pv r = (bytesValueLE L : ZMod pv) + 256 ^ L.length * den c pv res := by
  intro L
  induction L with
  | nil =>
    intro _ res hres
    exact ⟨res, rfl, hres, by simp [bytesValueLE]⟩
  | cons b L ih =>
    intro hL res hres
    obtain ⟨r1, e1, e2, e3⟩ := ih (fun x hx => hL x (by simp [hx])) res hres
    obtain ⟨bb, f1, f2, f3⟩ := fromU64_ok h (hL b (by simp))
    have hm := (C01.mul_correct h e2 hw).1
    refine ⟨add c (mul c r1 w) bb, ?_, (C01.add_exact h _ _ hm f2).1, ?_⟩
    · rw [List.reverse_cons, List.foldl_append, e1]
      simp only [List.foldl_cons, List.foldl_nil, f1]
    · rw [den_add h hm f2, den_mul h e2 hw, e3, hdw, f3]
      simp only [bytesValueLE, List.length_cons, Nat.cast_add, Nat.cast_mul, Nat.cast_ofNat]
      ring

/-- `from_le_bytes_mod_order`: correct for every byte string as soon as the field elements
    `256` and the single bytes can be built (`N = 1`, or `256 < p`) -/
theorem fromLeBytes_ok (h : CfgOK c pv) (bytes : List Nat) (hb : ∀ b ∈ bytes, b < 256)
    (hs : c.n = 1 ∨ 256 < pv) :
    ∃ r, fromLeBytesModOrder c bytes = .ok r ∧ Elem c pv r ∧
      den c pv r = (bytesValueLE bytes : ZMod pv) := by
  have hk : min (modulusBytes c - 1) bytes.length ≤ bytes.length := Nat.min_le_right _ _
  have hk2 : min (modulusBytes c - 1) bytes.length ≤ modulusBytes c - 1 := Nat.min_le_left _ _
  generalize hkdef : min (modulusBytes c - 1) bytes.length = k at hk hk2
  have hdl : (bytes.drop (bytes.length - k)).length = k := by
    rw [List.length_drop]; omega
  have hdlt : bytesValueLE (bytes.drop (bytes.length - k)) < pv := by
    have h1 := bytesValueLE_lt (bytes.drop (bytes.length - k))
      (fun x hx => hb x (List.mem_of_mem_drop hx))
    rw [hdl] at h1
    have h2 : (256 : Nat) ^ k ≤ 256 ^ (modulusBytes c - 1) := Nat.pow_le_pow_right (by omega) hk2
    have h3 := pow_modulusBytes_le h
    omega
  have hl : Limbs c (toLimbs c.n (bytesValueLE (bytes.drop (bytes.length - k)))) :=
    ⟨toLimbs_length _ _, toLimbs_wf _ _⟩
  have hv : value (toLimbs c.n (bytesValueLE (bytes.drop (bytes.length - k))))
      = bytesValueLE (bytes.drop (bytes.length - k)) := by
    rw [toLimbs_value, Nat.mod_eq_of_lt (Nat.lt_trans hdlt h.p_lt)]
  obtain ⟨res0, e1, e2, e3⟩ := den_fromBigint h hl (by rw [hv]; exact hdlt)
  obtain ⟨w, w1, w2, w3⟩ := fromU64_ok h (x := 256) hs
  have hbytes : ∀ b ∈ bytes.take (bytes.length - k), c.n = 1 ∨ b < pv := by
    intro b hbm
    rcases hs with hs | hs
    · exact Or.inl hs
    · right; have := hb b (List.mem_of_mem_take hbm); omega
  obtain ⟨r, f1, f2, f3⟩ := bytes_fold h w2 (by rw [w3]; norm_num)
    (bytes.take (bytes.length - k)) hbytes res0 e2
  refine ⟨r, ?_, f2, ?_⟩
  · unfold fromLeBytesModOrder
    simp only [hkdef, e1, w1]
    exact f1
  · rw [f3, e3, hv]
    have hsplit := bytesValueLE_append (bytes.take (bytes.length - k)) (bytes.drop (bytes.length - k))
    rw [List.take_append_drop] at hsplit
    rw [hsplit, Nat.cast_add, Nat.cast_mul, Nat.cast_pow, Nat.cast_ofNat]

omit [Fact pv.Prime] in
theorem byte_small_of_min (h : CfgOK c pv) (hmin : B ^ (c.n - 1) ≤ pv) : c.n = 1 ∨ 256 < pv :=
  u64_lt_of_min h hmin (by unfold B; omega)

omit [Fact pv.Prime] in
/-- the little-endian value of the reversed string is the big-endian Horner value -/
theorem bytesValueLE_reverse (l : List Nat) :
    bytesValueLE l.reverse = l.foldl (fun acc b => 256 * acc + b) 0 := by
  have key : ∀ (l : List Nat) (acc : Nat),
      l.foldl (fun acc b => 256 * acc + b) acc = bytesValueLE l.reverse + 256 ^ l.length * acc := by
    intro l
    induction l with
    | nil => intro acc; simp [bytesValueLE]
    | cons b l ih =>
      intro acc
      rw [List.foldl_cons, ih, List.reverse_cons, bytesValueLE_append]
      simp only [bytesValueLE, List.length_reverse, List.length_cons, Nat.pow_succ]
      ring
  rw [key l 0]; simp

end

/-! ### a concrete configuration for the non-vacuity examples of Ark/Props/C01f.lean -/

theorem prime13 : Nat.Prime 13 := by decide
theorem cfg13 : CfgOK (mkCfg true 1 13) 13 := C01.mk_cfg_ok true 1 13 (by decide) (by decide)
  (by decide) (by decide +kernel)
theorem elem13 (x : Nat) (hx : x < 13) : Elem (mkCfg true 1 13) 13 [x] :=
  ⟨rfl, by unfold WF; intro l hl; simp at hl; subst hl; unfold B; omega,
   by simp only [value]; omega⟩

end Ark.Mont
