import Ark.Model.BytesSqrt
import Ark.Proofs.Bytes
import Ark.Proofs.Sqrt
import Mathlib.FieldTheory.Finite.Basic
import Mathlib.Data.ZMod.Basic
import Mathlib.Tactic.NormNum.Prime
/-
  Ark.Proofs.BytesSqrt — helper lemmas of property C09b: the prime-field dictionary `fpCodecV`
  (`Ark.Model.BytesSqrt`, `sqrt` through the C11 model) satisfies `SqrtOK`, `CodecOK`, `LtOK` for
  every prime modulus, and `Spec.modInv` (the inversion of the executable `Fp p`) is correct for a
  prime modulus, so that the twisted-Edwards equation can be solved for `x²` inside `Fp p`.
-/
set_option linter.style.haveILetI false
set_option linter.unusedSectionVars false
set_option linter.unusedVariables false

namespace Ark.Bytes
open Ark

/-! ## 1. `findQnr`, the two-adic root, `fpSqrtPre` -/

section sqrtv
variable (p : ℕ) [Fact p.Prime]

theorem ofZ_natCast (z : ℕ) : SqrtP.ofZ p (z : ZMod p) = Fp.ofNat p z := by
  show (⟨((z : ℕ) : ZMod p).val⟩ : Fp p) = ⟨z % p⟩
  rw [ZMod.val_natCast]

theorem ofZ_sq (a : ZMod p) :
    (fun a : Fp p => a * a) (SqrtP.ofZ p a) = SqrtP.ofZ p ((fun a : ZMod p => a * a) a) :=
  ((SqrtP.ofZ_emb p).mul a a).symm

/-- the test of `findQnr` is Euler's criterion in `ZMod p` -/
theorem legendre_ofNat (hp : p ≠ 2) (z : ℕ) :
    Sqrt.legendreEuler (fun a : Fp p => a * a) (p / 2) (Fp.ofNat p z) = .qnr ↔
      ¬ IsSquare (z : ZMod p) := by
  rw [← ofZ_natCast, SqrtP.legendreEuler_map (sqG := fun a : ZMod p => a * a) (SqrtP.ofZ_emb p)
    (ofZ_sq p)]
  exact (SqrtP.legendreEuler_zmod_legSpec p hp _ (fun _ => rfl) _).2.2

theorem findQnr_found (hp : p ≠ 2) : ∀ (fuel z : ℕ),
    (∃ w : ℕ, z ≤ w ∧ w < z + fuel ∧ ¬ IsSquare (w : ZMod p)) →
      ¬ IsSquare ((findQnr p fuel z : ℕ) : ZMod p)
  | 0, z, ⟨w, h1, h2, _⟩ => by omega
  | fuel + 1, z, ⟨w, h1, h2, h3⟩ => by
    rw [findQnr]
    split
    · rename_i h; exact (legendre_ofNat p hp z).mp h
    · rename_i h
      apply findQnr_found hp fuel (z + 1)
      refine ⟨w, ?_, by omega, h3⟩
      rcases Nat.eq_or_lt_of_le h1 with rfl | h'
      · exact absurd ((legendre_ofNat p hp _).mpr h3) h
      · omega

/-- an odd prime has a quadratic non-residue in `[2, p)`: the search from 2 with fuel `p` finds one -/
theorem findQnr_nonsquare (hp : p ≠ 2) : ¬ IsSquare ((findQnr p p 2 : ℕ) : ZMod p) := by
  haveI : NeZero p := ⟨(Fact.out : p.Prime).ne_zero⟩
  obtain ⟨a, ha⟩ := FiniteField.exists_nonsquare (SqrtP.zmod_char_ne_two p hp)
  apply findQnr_found p hp
  refine ⟨a.val, ?_, ?_, ?_⟩
  · by_contra hlt
    have h01 : a.val = 0 ∨ a.val = 1 := by omega
    rcases h01 with h0 | h1
    · have : a = 0 := (ZMod.val_eq_zero a).mp h0
      exact ha (this ▸ IsSquare.zero)
    · have : a = 1 := by
        have := ZMod.natCast_zmod_val a
        rw [h1, Nat.cast_one] at this
        exact this.symm
      exact ha (this ▸ IsSquare.one)
  · have := ZMod.val_lt a; omega
  · rw [ZMod.natCast_zmod_val]; exact ha

theorem twoAdicRoot_eq :
    twoAdicRoot p = SqrtP.ofZ p (((findQnr p p 2 : ℕ) : ZMod p) ^ (Sqrt.twoAdic p).2) := by
  unfold twoAdicRoot
  rw [← ofZ_natCast, SqrtP.pow_map (sqG := fun a : ZMod p => a * a) (SqrtP.ofZ_emb p) (ofZ_sq p),
    SqrtP.pow_eq _ (fun _ => rfl)]

theorem sqrtPrecomputation_root_irrel {F : Type} (n m : Nat) (r r' : F) (h : m % 4 = 3) :
    Sqrt.sqrtPrecomputation n m r = Sqrt.sqrtPrecomputation n m r' := by
  unfold Sqrt.sqrtPrecomputation
  rw [if_pos h, if_pos h]

theorem fpSqrtPre_eq (n : Nat) :
    fpSqrtPre ⟨p, n⟩ = Sqrt.sqrtPrecomputation n p
      (SqrtP.ofZ p (((findQnr p p 2 : ℕ) : ZMod p) ^ (Sqrt.twoAdic p).2)) := by
  unfold fpSqrtPre
  split
  · rename_i h; exact sqrtPrecomputation_root_irrel _ _ _ _ h
  · rw [twoAdicRoot_eq]

/-- `fpSqrtV` on canonical representatives, odd prime modulus fitting its limbs: never the fallback of
    `panic`/`diverge`; `none` exactly on non-residues; otherwise a canonical root -/
theorem fpSqrtV_spec (hp : p ≠ 2) (n : Nat) (hlt : p < 2 ^ (64 * n)) (x : ZMod p) :
    ∃ r, fpSqrtV ⟨p, n⟩ (fpSqrtPre ⟨p, n⟩) (SqrtP.ofZ p x) = r ∧ (r = none ↔ ¬ IsSquare x) ∧
      ∀ y, r = some y → y * y = SqrtP.ofZ p x ∧ ∃ y', y = SqrtP.ofZ p y' ∧ y' * y' = x := by
  obtain ⟨r, hr, h1, h2⟩ := SqrtP.fpSqrtD_correct p false hp n hlt _ (findQnr_nonsquare p hp) x
  refine ⟨r, ?_, h1, h2⟩
  unfold fpSqrtV
  rw [if_neg hp, fpSqrtPre_eq]
  have hx : (⟨(SqrtP.ofZ p x).val % p⟩ : Fp p) = SqrtP.ofZ p x := by
    show (⟨x.val % p⟩ : Fp p) = ⟨x.val⟩
    rw [Nat.mod_eq_of_lt (ZMod.val_lt x)]
  simp only [hx, hr]

/-- the C11 model neither panics nor diverges on the constants `fpSqrtPre` computes: the fallback
    branch of `fpSqrtV` is unreachable -/
theorem fpSqrtD_total (hp : p ≠ 2) (n : Nat) (hlt : p < 2 ^ (64 * n)) (a : Fp p) (ha : a.val < p) :
    ∃ r, (Sqrt.fpSqrtD false p (fpSqrtPre ⟨p, n⟩)).sqrt a = .ok r := by
  obtain ⟨r, hr, -, -⟩ :=
    SqrtP.fpSqrtD_correct p false hp n hlt _ (findQnr_nonsquare p hp) (a.val : ZMod p)
  rw [SqrtP.ofZ_surj_reduced p a ha] at hr
  exact ⟨r, by rw [fpSqrtPre_eq]; exact hr⟩

end sqrtv

/-! ## 2. `SqrtOK`, `CodecOK`, `LtOK` for `fpCodecV` -/

theorem fpCodecV_sqrt (c : FpCfg) : (fpCodecV c).sqrt = fpSqrtV c (fpSqrtPre c) := rfl

/-- **`SqrtOK` for every prime modulus** (the square root of the dictionary is the C11 model) -/
theorem fpSqrtOKV {c : FpCfg} (hp : c.p.Prime) (hlt : c.p < 2 ^ (64 * c.N)) :
    SqrtOK (fpCodecV c) (fun x => x.val < c.p) := by
  obtain ⟨p, n⟩ := c
  simp only at hp hlt
  haveI : Fact p.Prime := ⟨hp⟩
  by_cases h2 : p = 2
  · subst h2
    constructor
    · intro a y ha hs
      have ha' : a.val < 2 := ha
      rw [fpCodecV_sqrt] at hs
      unfold fpSqrtV at hs
      rw [if_pos rfl] at hs
      cases hs
      refine ⟨Nat.mod_lt _ (by decide), ?_⟩
      apply Fp.ext'
      rw [Fp.mul_val]
      have : a.val = 0 ∨ a.val = 1 := by omega
      rcases this with h | h <;> rw [h] <;> rfl
    · intro a y _ _ _
      exact ⟨_, by rw [fpCodecV_sqrt]; unfold fpSqrtV; rw [if_pos rfl]⟩
  · constructor
    · intro a y ha hs
      have ha' : a.val < p := ha
      rw [fpCodecV_sqrt, ← SqrtP.ofZ_surj_reduced p a ha'] at hs
      obtain ⟨r, hr, -, hsome⟩ := fpSqrtV_spec p h2 n hlt (a.val : ZMod p)
      rw [hr] at hs
      obtain ⟨hyy, y', rfl, -⟩ := hsome y hs
      rw [SqrtP.ofZ_surj_reduced p a ha'] at hyy
      exact ⟨ZMod.val_lt y', hyy⟩
    · intro a y ha hy hyy
      have ha' : a.val < p := ha
      have hy' : y.val < p := hy
      obtain ⟨r, hr, hnone, -⟩ := fpSqrtV_spec p h2 n hlt (a.val : ZMod p)
      rw [fpCodecV_sqrt, ← SqrtP.ofZ_surj_reduced p a ha', hr]
      cases r with
      | some y' => exact ⟨y', rfl⟩
      | none =>
        exfalso
        refine hnone.mp rfl ⟨(y.val : ZMod p), ?_⟩
        apply (SqrtP.ofZ_emb p).inj
        rw [(SqrtP.ofZ_emb p).mul, SqrtP.ofZ_surj_reduced p a ha', SqrtP.ofZ_surj_reduced p y hy', hyy]

/-- `CodecOK` only looks at the (de)serialisers, which `fpCodecV` shares with `fpCodec` -/
theorem fpCodecVOK {c : FpCfg} (h : WFc c) : CodecOK (fpCodecV c) (fun x => x.val < c.p) where
  ser_size := (fpCodecOK h).ser_size
  deFlags_reads := (fpCodecOK h).deFlags_reads
  de_reads := (fpCodecOK h).de_reads
  deFlags_canon := (fpCodecOK h).deFlags_canon
  de_canon := (fpCodecOK h).de_canon
  rt_flags := (fpCodecOK h).rt_flags
  rt_plain := (fpCodecOK h).rt_plain

theorem fpLtOKV (c : FpCfg) : LtOK (fpCodecV c) (fun x => x.val < c.p) where
  asymm := (fpLtOK c).asymm
  total := (fpLtOK c).total

/-! ## 3. `Spec.modInv` (extended Euclid with fuel `2·log₂ m + 4`) is the inverse modulo a prime -/


theorem two_mod_lt (a b : Nat) (hb : 0 < b) (h : b ≤ a) : 2 * (a % b) < a := by
  have h1 := Nat.mod_lt a hb
  have h2 := Nat.div_add_mod a b
  have h3 : 1 ≤ a / b := Nat.div_pos h hb
  nlinarith

theorem log2_mod_lt (a b : ℕ) (hb : 0 < b) (h : b ≤ a) (hr : a % b ≠ 0) :
    (a % b).log2 + 1 ≤ a.log2 := by
  have h2 : 2 * (a % b) < a := two_mod_lt a b hb h
  rw [← Nat.log2_two_mul hr, Nat.log2_eq_log_two, Nat.log2_eq_log_two]
  exact Nat.log_mono_right h2.le

theorem log2_mono' {a b : ℕ} (h : a ≤ b) : a.log2 ≤ b.log2 := by
  rw [Nat.log2_eq_log_two, Nat.log2_eq_log_two]; exact Nat.log_mono_right h

theorem egcdAux_spec (a m : Int) : ∀ (fuel n0 n1 : ℕ) (s0 s1 : Int),
    (n1 = 0 ∨ n0.log2 + n1.log2 + 2 ≤ fuel) → n1 ≤ n0 →
    (n0 : Int) ≡ s0 * a [ZMOD m] → (n1 : Int) ≡ s1 * a [ZMOD m] →
    (Spec.egcdAux fuel n0 n1 s0 s1).1 = (Nat.gcd n0 n1 : ℕ) ∧
    (Spec.egcdAux fuel n0 n1 s0 s1).1 ≡ (Spec.egcdAux fuel n0 n1 s0 s1).2 * a [ZMOD m] := by
  intro fuel
  induction fuel with
  | zero =>
    intro n0 n1 s0 s1 hf hle h0 h1
    have : n1 = 0 := by omega
    subst this
    simp only [Spec.egcdAux, Nat.gcd_zero_right]
    exact ⟨trivial, h0⟩
  | succ fuel ih =>
    intro n0 n1 s0 s1 hf hle h0 h1
    rw [Spec.egcdAux]
    by_cases hn : n1 = 0
    · subst hn
      simp only [Nat.cast_zero, if_true, Nat.gcd_zero_right]
      exact ⟨trivial, h0⟩
    · have hn' : (n1 : Int) ≠ 0 := by exact_mod_cast hn
      rw [if_neg hn']
      have hmod : (n0 : Int) - (n0 : Int) / (n1 : Int) * (n1 : Int) = ((n0 % n1 : ℕ) : Int) := by
        rw [Int.natCast_mod, Int.emod_def]; ring
      simp only [hmod]
      have hpos : 0 < n1 := Nat.pos_of_ne_zero hn
      have := ih n1 (n0 % n1) s1 (s0 - (n0 : Int) / (n1 : Int) * s1) ?_ (Nat.mod_lt _ hpos).le h1 ?_
      · have hgcd : n0.gcd n1 = n1.gcd (n0 % n1) := by
          rw [Nat.gcd_comm, Nat.gcd_rec n1 n0, Nat.gcd_comm]
        rw [hgcd]; exact this
      · by_cases hr : n0 % n1 = 0
        · exact Or.inl hr
        · right
          have := log2_mod_lt n0 n1 hpos hle hr
          rcases hf with hf | hf
          · exact absurd hf hn
          · omega
      · rw [← hmod]
        have : (s0 - (n0 : Int) / (n1 : Int) * s1) * a = s0 * a - (n0 : Int) / (n1 : Int) * (s1 * a) := by ring
        rw [this]
        exact h0.sub (h1.mul_left _)

theorem modInv_mul (a m : ℕ) (hm : m.Prime) (ha : a % m ≠ 0) : (Spec.modInv a m * a) % m = 1 := by
  have hm0 : 0 < m := hm.pos
  have hlt : a % m < m := Nat.mod_lt _ hm0
  have hspec := egcdAux_spec ((a % m : ℕ) : Int) (m : Int) (2 * m.log2 + 3) m (a % m) 0 1
    (Or.inr (by have := log2_mono' hlt.le; omega)) hlt.le
    (by rw [zero_mul]; exact (Int.modEq_zero_iff_dvd).mpr dvd_rfl) (by rw [one_mul])
  have hstep : Spec.egcdAux (2 * m.log2 + 4) ((a % m : ℕ) : Int) (m : Int) 1 0 =
      Spec.egcdAux (2 * m.log2 + 3) (m : Int) ((a % m : ℕ) : Int) 0 1 := by
    show Spec.egcdAux ((2 * m.log2 + 3) + 1) _ _ _ _ = _
    rw [Spec.egcdAux, if_neg (by exact_mod_cast hm0.ne')]
    have hq : ((a % m : ℕ) : Int) / (m : Int) = 0 := Int.ediv_eq_zero_of_lt (by positivity) (by exact_mod_cast hlt)
    simp only [hq, zero_mul, sub_zero]
  obtain ⟨h1, h2⟩ := hspec
  have hg : Nat.gcd m (a % m) = 1 := by
    have : ¬ m ∣ a % m := Nat.not_dvd_of_pos_of_lt (Nat.pos_of_ne_zero ha) hlt
    exact (Nat.Prime.coprime_iff_not_dvd hm).2 this
  rw [h1, hg] at h2
  unfold Spec.modInv
  rw [hstep]
  simp only
  generalize (Spec.egcdAux (2 * m.log2 + 3) (m : Int) ((a % m : ℕ) : Int) 0 1).2 = s at h2 ⊢
  have hnn : 0 ≤ s % (m : Int) := Int.emod_nonneg _ (by exact_mod_cast hm0.ne')
  have key : (((s % (m : Int)).toNat * a : ℕ) : Int) ≡ ((1 : ℕ) : Int) [ZMOD (m : Int)] := by
    push_cast
    rw [Int.toNat_of_nonneg hnn]
    have e1 : s % (m : Int) ≡ s [ZMOD m] := Int.mod_modEq _ _
    have e2 : (a : Int) ≡ ((a % m : ℕ) : Int) [ZMOD m] := by
      rw [Int.natCast_mod]; exact (Int.mod_modEq _ _).symm
    exact ((e1.mul e2).trans h2.symm)
  have := (Int.natCast_modEq_iff).mp key
  rw [Nat.ModEq, Nat.mod_eq_of_lt hm.one_lt] at this
  exact this

/-! ## 4. the executable `Fp p` maps homomorphically onto `ZMod p` -/

section toz
variable {p : ℕ}

/-- the residue class of an element of the executable field -/
def toZ (a : Fp p) : ZMod p := (a.val : ZMod p)

theorem toZ_add (a b : Fp p) : toZ (a + b) = toZ a + toZ b := by
  show (((a.val + b.val) % p : ℕ) : ZMod p) = (a.val : ZMod p) + (b.val : ZMod p)
  rw [ZMod.natCast_mod, Nat.cast_add]

theorem toZ_mul (a b : Fp p) : toZ (a * b) = toZ a * toZ b := by
  show (((a.val * b.val) % p : ℕ) : ZMod p) = (a.val : ZMod p) * (b.val : ZMod p)
  rw [ZMod.natCast_mod, Nat.cast_mul]

theorem toZ_sub (hp : 0 < p) (a b : Fp p) : toZ (a - b) = toZ a - toZ b := by
  show (((a.val + (p - b.val % p)) % p : ℕ) : ZMod p) = (a.val : ZMod p) - (b.val : ZMod p)
  rw [ZMod.natCast_mod, Nat.cast_add, Nat.cast_sub (Nat.mod_lt _ hp).le, ZMod.natCast_self,
    ZMod.natCast_mod]
  ring

theorem toZ_zero : toZ (0 : Fp p) = 0 := by
  show (((0 : ℕ)) : ZMod p) = 0
  rw [Nat.cast_zero]

theorem toZ_one : toZ (1 : Fp p) = 1 := by
  show (((1 % p : ℕ)) : ZMod p) = 1
  rw [ZMod.natCast_mod, Nat.cast_one]

theorem toZ_inj (a b : Fp p) (ha : a.val < p) (hb : b.val < p) (h : toZ a = toZ b) : a = b := by
  apply Fp.ext'
  have := (ZMod.natCast_eq_natCast_iff' a.val b.val p).mp h
  rwa [Nat.mod_eq_of_lt ha, Nat.mod_eq_of_lt hb] at this

/-- **inversion in the executable field is correct for a prime modulus** -/
theorem toZ_inv (hp : p.Prime) (a : Fp p) (ha : toZ a ≠ 0) : toZ a⁻¹ = (toZ a)⁻¹ := by
  haveI : Fact p.Prime := ⟨hp⟩
  have ha' : a.val % p ≠ 0 := by
    intro h0
    exact ha ((ZMod.natCast_eq_zero_iff a.val p).mpr (Nat.dvd_of_mod_eq_zero h0))
  have h1 := modInv_mul a.val p hp ha'
  have h2 : ((Spec.modInv a.val p : ℕ) : ZMod p) * (a.val : ZMod p) = 1 := by
    rw [← Nat.cast_mul, ← ZMod.natCast_mod, h1, Nat.cast_one]
  show (((Spec.modInv a.val p % p : ℕ)) : ZMod p) = ((a.val : ℕ) : ZMod p)⁻¹
  rw [ZMod.natCast_mod]
  exact eq_inv_of_mul_eq_one_left h2

theorem Fp.mul_inv_cancel' (hp : p.Prime) (a : Fp p) (ha : a.val % p ≠ 0) : a * a⁻¹ = 1 := by
  haveI : Fact p.Prime := ⟨hp⟩
  apply Fp.ext'
  show (a.val * (Spec.modInv a.val p % p)) % p = 1 % p
  rw [Nat.mul_mod, Nat.mod_mod, ← Nat.mul_mod, Nat.mul_comm, modInv_mul a.val p hp ha,
    Nat.mod_eq_of_lt hp.one_lt]

end toz

/-! ## 5. the twisted-Edwards equation solved for `x²` inside the executable `Fp p` -/

theorem te_solve_fp {p : ℕ} (hp : p.Prime) (E : TECfg (Fp p)) (P : TEAff (Fp p))
    (hon : teIsOnCurve E P = true) (had : E.a.val % p ≠ E.d.val % p) :
    E.a - (P.y * P.y) * E.d ≠ 0 ∧ P.x * P.x = teX2 E P.y := by
  haveI : Fact p.Prime := ⟨hp⟩
  have had' : toZ E.a ≠ toZ E.d := fun h => had ((ZMod.natCast_eq_natCast_iff' _ _ p).mp h)
  unfold teIsOnCurve at hon
  simp only [beq_iff_eq] at hon
  have hz := congrArg toZ hon
  simp only [toZ_add, toZ_mul, toZ_one] at hz
  have hden : toZ (E.a - (P.y * P.y) * E.d) ≠ 0 := by
    rw [toZ_sub hp.pos, toZ_mul, toZ_mul]
    intro h0
    have h1 : toZ P.y * toZ P.y = 1 := by linear_combination hz - (toZ P.x * toZ P.x) * h0
    rw [h1, one_mul] at h0
    exact had' (sub_eq_zero.mp h0)
  refine ⟨fun h0 => hden (by rw [h0, toZ_zero]), ?_⟩
  refine toZ_inj (P.x * P.x) (teX2 E P.y) (Nat.mod_lt _ hp.pos) (Nat.mod_lt _ hp.pos) ?_
  unfold teX2
  rw [toZ_mul, toZ_mul, toZ_inv hp _ hden, toZ_sub hp.pos 1, toZ_one, toZ_mul, eq_comm,
    inv_mul_eq_iff_eq_mul₀ hden, toZ_sub hp.pos, toZ_mul, toZ_mul]
  linear_combination (-1 : ZMod p) * hz

end Ark.Bytes

/-! ## 6. `Fp2`: `QuadExtField::sqrt` (C11's `quadSqrt`) transported from `ZMod p` to the executable `Fp p`,
    and the dictionary laws of `fp2CodecV` -/

namespace Ark.Bytes
open Ark Ark.Ext Ark.Sqrt

section qtransport
variable {PG PH G H : Type}
  [Add G] [Sub G] [Mul G] [Neg G] [Zero G] [One G] [DecidableEq G]
  [Add H] [Sub H] [Mul H] [Neg H] [Zero H] [One H] [DecidableEq H]

/-- coordinatewise image of an element of a quadratic extension -/
def mapQ (f : G → H) (a : Quad G) : Quad H := ⟨f a.c0, f a.c1⟩

/-- `f` commutes with everything `QuadExtField::sqrt` uses of its base field -/
structure QHom (f : G → H) (cfgG : QuadCfg G) (cfgH : QuadCfg H) (BG : FieldD PG G)
    (BH : FieldD PH H) (SG : SqrtD G) (SH : SqrtD H) : Prop where
  inj : Function.Injective f
  add : ∀ a b, f (a + b) = f a + f b
  sub : ∀ a b, f (a - b) = f a - f b
  mul : ∀ a b, f (a * b) = f a * f b
  neg : ∀ a, f (-a) = -f a
  zero : f 0 = 0
  one : f 1 = 1
  nr : cfgH.nonresidue = f cfgG.nonresidue
  subAndMulNr : ∀ y x, cfgH.subAndMulNr (f y) (f x) = f (cfgG.subAndMulNr y x)
  mulNrPlusOneAndAdd : ∀ y x, cfgH.mulNrPlusOneAndAdd (f y) (f x) = f (cfgG.mulNrPlusOneAndAdd y x)
  square : ∀ x, BH.square (f x) = f (BG.square x)
  double : ∀ x, BH.double (f x) = f (BG.double x)
  inverse : ∀ x, BH.inverse (f x) = match BG.inverse x with
    | .ok o => .ok (o.map f)
    | .panic => .panic
  legendre : ∀ x, SH.legendre (f x) = SG.legendre x
  sqrt : ∀ x, SH.sqrt (f x) = SqrtP.Res.map (Option.map f) (SG.sqrt x)

variable {f : G → H} {cfgG : QuadCfg G} {cfgH : QuadCfg H} {BG : FieldD PG G} {BH : FieldD PH H}
  {SG : SqrtD G} {SH : SqrtD H}

theorem QHom.eq_zero (h : QHom f cfgG cfgH BG BH SG SH) (x : G) : f x = 0 ↔ x = 0 := by
  rw [← h.zero]; exact h.inj.eq_iff

theorem QHom.norm (h : QHom f cfgG cfgH BG BH SG SH) (a : Quad G) :
    Quad.norm cfgH BH (mapQ f a) = f (Quad.norm cfgG BG a) := by
  simp only [Quad.norm, mapQ, h.square, h.subAndMulNr]

theorem QHom.squareQ (h : QHom f cfgG cfgH BG BH SG SH) (a : Quad G) :
    Quad.square cfgH BH (mapQ f a) = mapQ f (Quad.square cfgG BG a) := by
  have hneg1 : (cfgH.nonresidue = -(1 : H)) ↔ (cfgG.nonresidue = -(1 : G)) := by
    rw [h.nr, ← h.one, ← h.neg]; exact h.inj.eq_iff
  unfold Quad.square
  by_cases hn : cfgG.nonresidue = -(1 : G)
  · rw [if_pos hn, if_pos (hneg1.mpr hn)]
    simp only [mapQ, ← h.sub, ← h.add, ← h.mul, h.double]
  · rw [if_neg hn, if_neg (fun h' => hn (hneg1.mp h'))]
    simp only [mapQ, ← h.sub, ← h.mul, h.double, h.subAndMulNr, h.mulNrPlusOneAndAdd]

theorem mapQ_inj (hf : Function.Injective f) : Function.Injective (mapQ f) := by
  intro a b hab
  obtain ⟨a0, a1⟩ := a
  obtain ⟨b0, b1⟩ := b
  simp only [mapQ, Quad.mk.injEq] at hab
  rw [hf hab.1, hf hab.2]

theorem QHom.fdiv (h : QHom f cfgG cfgH BG BH SG SH) (a b : G) :
    Sqrt.fdiv BH (f a) (f b) = SqrtP.Res.map f (Sqrt.fdiv BG a b) := by
  unfold Sqrt.fdiv
  rw [h.inverse]
  cases BG.inverse b with
  | panic => rfl
  | ok o =>
    cases o with
    | none => rfl
    | some bi =>
      show Sqrt.Res.ok (f a * f bi) = Sqrt.Res.ok (f (a * bi))
      rw [h.mul]


theorem quadSqrt_map (h : QHom f cfgG cfgH BG BH SG SH) (PDG : PrimeD PG) (PDH : PrimeD PH)
    (hti : Sqrt.twoInv BH PDH = SqrtP.Res.map f (Sqrt.twoInv BG PDG)) (dbg : Bool) (a : Quad G) :
    quadSqrt dbg cfgH BH SH PDH (mapQ f a) =
      SqrtP.Res.map (Option.map (mapQ f)) (quadSqrt dbg cfgG BG SG PDG a) := by
  unfold quadSqrt
  by_cases h1 : a.c1 = 0
  · rw [if_pos h1, if_pos (show (mapQ f a).c1 = 0 from (h.eq_zero _).mpr h1)]
    show ((SH.legendre (f a.c0)).bind _) = _
    rw [h.legendre]
    cases SG.legendre a.c0 with
    | panic => rfl
    | diverge => rfl
    | ok l =>
      simp only [SqrtP.bind_ok]
      by_cases hq : l.isQr = true
      · rw [if_pos hq, if_pos hq]
        show (SH.sqrt (f a.c0)).bind _ = _
        rw [h.sqrt]
        cases SG.sqrt a.c0 with
        | panic => rfl
        | diverge => rfl
        | ok o => cases o <;> simp [SqrtP.Res.map, mapQ, h.zero]
      · rw [if_neg hq, if_neg hq]
        show (Sqrt.fdiv BH (f a.c0) cfgH.nonresidue).bind _ = _
        rw [h.nr, h.fdiv]
        cases Sqrt.fdiv BG a.c0 cfgG.nonresidue with
        | panic => rfl
        | diverge => rfl
        | ok d =>
          simp only [SqrtP.Res.map, SqrtP.bind_ok, h.sqrt]
          cases SG.sqrt d with
          | panic => rfl
          | diverge => rfl
          | ok o => cases o <;> simp [mapQ, h.zero]
  · rw [if_neg h1, if_neg (show ¬ (mapQ f a).c1 = 0 from fun h' => h1 ((h.eq_zero _).mp h'))]
    simp only [h.norm, hti]
    cases Sqrt.twoInv BG PDG with
    | panic => rfl
    | diverge => rfl
    | ok ti =>
      simp only [SqrtP.Res.map, SqrtP.bind_ok, h.sqrt]
      cases SG.sqrt (Quad.norm cfgG BG a) with
      | panic => rfl
      | diverge => rfl
      | ok o =>
        cases o with
        | none => rfl
        | some alpha =>
          simp only [Option.map, SqrtP.bind_ok, mapQ, ← h.add, ← h.mul, h.legendre]
          cases SG.legendre ((alpha + a.c0) * ti) with
          | panic => rfl
          | diverge => rfl
          | ok l =>
            simp only [SqrtP.bind_ok]
            have hd : (if l.isQnr = true then f ((alpha + a.c0) * ti) - f alpha else f ((alpha + a.c0) * ti)) =
                f (if l.isQnr = true then (alpha + a.c0) * ti - alpha else (alpha + a.c0) * ti) := by
              split <;> simp only [h.sub]
            rw [hd, h.sqrt]
            cases SG.sqrt (if l.isQnr = true then (alpha + a.c0) * ti - alpha else (alpha + a.c0) * ti) with
            | panic => rfl
            | diverge => rfl
            | ok r =>
              cases r with
              | none => rfl
              | some c0 =>
                simp only [SqrtP.Res.map, Option.map, SqrtP.bind_ok, SqrtP.expect_some, h.inverse]
                cases BG.inverse c0 with
                | panic => rfl
                | ok ci =>
                  cases ci with
                  | none => rfl
                  | some c0Inv =>
                    simp only [SqrtP.ofOutcome_ok, SqrtP.bind_ok, SqrtP.expect_some]
                    have hcand : ({ c0 := f c0, c1 := f (a.c1 * ti) * f c0Inv } : Quad H) =
                        mapQ f ⟨c0, a.c1 * ti * c0Inv⟩ := by simp only [mapQ, h.mul]
                    have ha : ({ c0 := f a.c0, c1 := f a.c1 } : Quad H) = mapQ f a := rfl
                    rw [hcand, ha, h.squareQ]
                    by_cases hsq : Quad.square cfgG BG ⟨c0, a.c1 * ti * c0Inv⟩ = a
                    · rw [if_pos hsq, if_pos (congrArg _ hsq)]; rfl
                    · rw [if_neg hsq, if_neg (fun h' => hsq (mapQ_inj h.inj h'))]
                      cases dbg with
                      | false => rfl
                      | true =>
                        simp only [if_true]
                        unfold quadLegendre
                        rw [h.norm, h.legendre]
                        cases SG.legendre (Quad.norm cfgG BG a) with
                        | panic => rfl
                        | diverge => rfl
                        | ok l' =>
                          simp only [SqrtP.bind_ok]
                          split <;> rfl
end qtransport

/-! ## the embedding `ofZ : ZMod p → Fp p` commutes with the field operations -/

section ofz
variable (p : ℕ) [Fact p.Prime]

theorem toZ_neg {p : ℕ} (hp : 0 < p) (a : Fp p) : toZ (-a) = -toZ a := by
  show (((p - a.val % p) % p : ℕ) : ZMod p) = -(a.val : ZMod p)
  rw [ZMod.natCast_mod, Nat.cast_sub (Nat.mod_lt _ hp).le, ZMod.natCast_self, ZMod.natCast_mod]
  ring

theorem toZ_ofNat {p : ℕ} (n : ℕ) : toZ (Fp.ofNat p n) = (n : ZMod p) := by
  show (((n % p : ℕ)) : ZMod p) = n
  rw [ZMod.natCast_mod]

theorem toZ_ofZ (x : ZMod p) : toZ (SqrtP.ofZ p x) = x := by
  have : NeZero p := ⟨(Fact.out : p.Prime).ne_zero⟩
  exact ZMod.natCast_zmod_val x

theorem ofZ_val_lt (x : ZMod p) : (SqrtP.ofZ p x).val < p := ZMod.val_lt x

theorem eq_ofZ (y : Fp p) (x : ZMod p) (hy : y.val < p) (h : toZ y = x) : y = SqrtP.ofZ p x := by
  rw [← h]; exact (SqrtP.ofZ_surj_reduced p y hy).symm

theorem ppos : 0 < p := (Fact.out : p.Prime).pos

theorem ofZ_add (a b : ZMod p) : SqrtP.ofZ p (a + b) = SqrtP.ofZ p a + SqrtP.ofZ p b :=
  (eq_ofZ p (SqrtP.ofZ p a + SqrtP.ofZ p b) _ (Nat.mod_lt _ (ppos p))
    (by rw [toZ_add, toZ_ofZ, toZ_ofZ])).symm

theorem ofZ_sub (a b : ZMod p) : SqrtP.ofZ p (a - b) = SqrtP.ofZ p a - SqrtP.ofZ p b :=
  (eq_ofZ p (SqrtP.ofZ p a - SqrtP.ofZ p b) _ (Nat.mod_lt _ (ppos p))
    (by rw [toZ_sub (ppos p), toZ_ofZ, toZ_ofZ])).symm

theorem ofZ_neg (a : ZMod p) : SqrtP.ofZ p (-a) = -SqrtP.ofZ p a :=
  (eq_ofZ p (-SqrtP.ofZ p a) _ (Nat.mod_lt _ (ppos p)) (by rw [toZ_neg (ppos p), toZ_ofZ])).symm

theorem ofZ_inv (a : ZMod p) (ha : a ≠ 0) : SqrtP.ofZ p a⁻¹ = (SqrtP.ofZ p a)⁻¹ :=
  (eq_ofZ p (SqrtP.ofZ p a)⁻¹ _ (Nat.mod_lt _ (ppos p))
    (by rw [toZ_inv Fact.out _ (by rw [toZ_ofZ]; exact ha), toZ_ofZ])).symm

/-- the `Fp2Config` over `ZMod p` that `fp2QuadCfg` mirrors -/
def zCfg (β : ℕ) : QuadCfg (ZMod p) := (Fp2Cfg.default ((β : ℕ) : ZMod p) []).wrap

theorem ofZ_qhom (β : ℕ) (preZ : Option (Precomp (ZMod p))) :
    QHom (SqrtP.ofZ p) (zCfg p β) (fp2QuadCfg p β) (ExtB.primeD (ZMod p)) (fpD p)
      (SqrtP.zmodSqrtD false p preZ)
      (fpSqrtD false p (preZ.map (SqrtP.precompMap (SqrtP.ofZ p)))) where
  inj := (SqrtP.ofZ_emb p).inj
  add := ofZ_add p
  sub := ofZ_sub p
  mul := (SqrtP.ofZ_emb p).mul
  neg := ofZ_neg p
  zero := (SqrtP.ofZ_emb p).zero
  one := (SqrtP.ofZ_emb p).one
  nr := (ofZ_natCast p β).symm
  subAndMulNr := by
    intro y x
    show SqrtP.ofZ p x - SqrtP.ofZ p y * Fp.ofNat p β = SqrtP.ofZ p (x - y * (β : ZMod p))
    rw [← ofZ_natCast, ← (SqrtP.ofZ_emb p).mul, ← ofZ_sub]
  mulNrPlusOneAndAdd := by
    intro y x
    show (SqrtP.ofZ p y * Fp.ofNat p β + SqrtP.ofZ p x) + SqrtP.ofZ p y =
      SqrtP.ofZ p ((y * (β : ZMod p) + x) + y)
    rw [← ofZ_natCast, ← (SqrtP.ofZ_emb p).mul, ← ofZ_add, ← ofZ_add]
  square := fun x => ((SqrtP.ofZ_emb p).mul x x).symm
  double := fun x => (ofZ_add p x x).symm
  inverse := by
    intro x
    show Outcome.ok (if SqrtP.ofZ p x = 0 then none else some (SqrtP.ofZ p x)⁻¹) =
      Outcome.ok ((if x = 0 then none else some x⁻¹).map (SqrtP.ofZ p))
    by_cases hx : x = 0
    · rw [if_pos hx, if_pos (by rw [hx]; exact (SqrtP.ofZ_emb p).zero)]; rfl
    · rw [if_neg hx, if_neg (fun h' => hx ((SqrtP.ofZ_emb p).inj (h'.trans (SqrtP.ofZ_emb p).zero.symm)))]
      show Outcome.ok (some (SqrtP.ofZ p x)⁻¹) = Outcome.ok (some (SqrtP.ofZ p x⁻¹))
      rw [ofZ_inv p x hx]
  legendre := fun x => SqrtP.fpSqrtD_legendre_ofZ p false _ x
  sqrt := fun x => SqrtP.fpSqrtD_sqrt_ofZ p false preZ x

theorem twoInv_ofZ (n : ℕ) :
    Sqrt.twoInv (fpD p) (fpPrimeD p n) =
      SqrtP.Res.map (SqrtP.ofZ p) (Sqrt.twoInv (ExtB.primeD (ZMod p)) (SqrtP.zmodPrimeD p n)) := by
  unfold Sqrt.twoInv
  show (Sqrt.Res.expect (if (p + 1) % 2 ^ (64 * n) / 2 < p then
      some (⟨(p + 1) % 2 ^ (64 * n) / 2⟩ : Fp p) else none)).bind _ =
    SqrtP.Res.map _ ((Sqrt.Res.expect (if (p + 1) % 2 ^ (64 * n) / 2 < p then
      some ((((p + 1) % 2 ^ (64 * n) / 2 : ℕ)) : ZMod p) else none)).bind _)
  by_cases hv : (p + 1) % 2 ^ (64 * n) / 2 < p
  · rw [if_pos hv, if_pos hv]
    show Sqrt.Res.ok (⟨(p + 1) % 2 ^ (64 * n) / 2⟩ : Fp p) =
      Sqrt.Res.ok (SqrtP.ofZ p ((((p + 1) % 2 ^ (64 * n) / 2 : ℕ)) : ZMod p))
    rw [ofZ_natCast]
    show _ = Sqrt.Res.ok (⟨((p + 1) % 2 ^ (64 * n) / 2) % p⟩ : Fp p)
    rw [Nat.mod_eq_of_lt hv]
  · rw [if_neg hv, if_neg hv]; rfl

end ofz

/-! ## `Fp2 p β` against the field `Quad (ZMod p)` -/

theorem fp2CodecV_sqrt (c : FpCfg) (β : ℕ) : (fp2CodecV c β).sqrt = fp2SqrtV c β (fpSqrtPre c) := rfl

section fp2laws
variable (p : ℕ) [Fact p.Prime] (β : ℕ)

def toQ {p β : ℕ} (a : Fp2 p β) : Quad (ZMod p) := ⟨toZ a.c0, toZ a.c1⟩
def ofQ {p : ℕ} [Fact p.Prime] (β : ℕ) (y : Quad (ZMod p)) : Fp2 p β := ⟨SqrtP.ofZ p y.c0, SqrtP.ofZ p y.c1⟩

theorem Fp2.ext' {p β : ℕ} {a b : Fp2 p β} (h0 : a.c0 = b.c0) (h1 : a.c1 = b.c1) : a = b := by
  cases a; cases b; simp only at h0 h1; rw [h0, h1]

theorem toQ_inj {p β : ℕ} (a b : Fp2 p β) (ha : a.c0.val < p ∧ a.c1.val < p)
    (hb : b.c0.val < p ∧ b.c1.val < p) (h : toQ a = toQ b) : a = b := by
  simp only [toQ, Quad.mk.injEq] at h
  exact Fp2.ext' (toZ_inj _ _ ha.1 hb.1 h.1) (toZ_inj _ _ ha.2 hb.2 h.2)

theorem toQ_ofQ (y : Quad (ZMod p)) : toQ (ofQ β y) = y := by
  obtain ⟨y0, y1⟩ := y
  simp only [toQ, ofQ, toZ_ofZ]

theorem ofQ_canon (y : Quad (ZMod p)) : (ofQ β y).c0.val < p ∧ (ofQ β y).c1.val < p :=
  ⟨ofZ_val_lt p _, ofZ_val_lt p _⟩

theorem mapQ_toQ (a : Fp2 p β) (ha : a.c0.val < p ∧ a.c1.val < p) :
    (⟨⟨a.c0.val % p⟩, ⟨a.c1.val % p⟩⟩ : Quad (Fp p)) = mapQ (SqrtP.ofZ p) (toQ a) := by
  simp only [mapQ, toQ, toZ]
  rw [SqrtP.ofZ_surj_reduced p a.c0 ha.1, SqrtP.ofZ_surj_reduced p a.c1 ha.2,
    Nat.mod_eq_of_lt ha.1, Nat.mod_eq_of_lt ha.2]

theorem zCfg_lawful : ExtB.QuadLawful (zCfg p β) := ExtB.Fp2Cfg.default_wrap_lawful _ _

theorem toQ_mul (a b : Fp2 p β) :
    toQ (a * b) = Quad.mul (zCfg p β) (ExtB.primeD (ZMod p)) (toQ a) (toQ b) := by
  rw [ExtB.Quad.mul_eq ExtB.primeD_lawful (zCfg_lawful p β)]
  show (⟨toZ (a.c0 * b.c0 + Fp.ofNat p β * (a.c1 * b.c1)), toZ (a.c0 * b.c1 + a.c1 * b.c0)⟩ :
    Quad (ZMod p)) = _
  simp only [toZ_add, toZ_mul, toZ_ofNat]
  rfl

theorem toQ_neg (a : Fp2 p β) : toQ (-a) = -toQ a := by
  show (⟨toZ (-a.c0), toZ (-a.c1)⟩ : Quad (ZMod p)) = ⟨-toZ a.c0, -toZ a.c1⟩
  rw [toZ_neg (ppos p), toZ_neg (ppos p)]

theorem Fp2.mul_canon {p β : ℕ} (hp : 0 < p) (a b : Fp2 p β) : (a * b).c0.val < p ∧ (a * b).c1.val < p :=
  ⟨Nat.mod_lt _ hp, Nat.mod_lt _ hp⟩

theorem Fp2.neg_canon {p β : ℕ} (hp : 0 < p) (a : Fp2 p β) : (-a).c0.val < p ∧ (-a).c1.val < p :=
  ⟨Nat.mod_lt _ hp, Nat.mod_lt _ hp⟩

theorem Fp2.add_canon {p β : ℕ} (hp : 0 < p) (a b : Fp2 p β) : (a + b).c0.val < p ∧ (a + b).c1.val < p :=
  ⟨Nat.mod_lt _ hp, Nat.mod_lt _ hp⟩

/-- `2^(64n) − 1` is divisible by 3: a prime below `2^(64n)` leaves room for the `+ 1` of `(p + 1)/2` -/
theorem prime_succ_lt (n : ℕ) (hlt : p < 2 ^ (64 * n)) : p + 1 < 2 ^ (64 * n) := by
  have hp : p.Prime := Fact.out
  by_contra hge
  have he : p + 1 = 2 ^ (64 * n) := by omega
  have hn : n ≠ 0 := by
    rintro rfl
    have := hp.two_le
    simp at hlt; omega
  have h64 : 2 ^ 64 ≤ 2 ^ (64 * n) := Nat.pow_le_pow_right (by decide) (by omega)
  have hmod : 2 ^ (64 * n) % 3 = 1 := by
    rw [show 64 * n = 2 * (32 * n) by ring, pow_mul, Nat.pow_mod]
    simp
  have h3 : 3 ∣ p := by omega
  have := (Nat.prime_dvd_prime_iff_eq Nat.prime_three hp).mp h3
  omega

variable (hnr : ∀ x : ZMod p, x * x ≠ ((β : ℕ) : ZMod p))
include hnr

theorem ne_two_of_nonresidue : p ≠ 2 := by
  have h := SqrtP.char_ne_two_of_nonsquare (F := ZMod p) (β := ((β : ℕ) : ZMod p))
    (fun ⟨r, hr⟩ => hnr r hr.symm)
  rwa [ZMod.ringChar_zmod_n] at h

/-- `fp2SqrtV` on canonical representatives: the image of the C11 `quadSqrt` over `ZMod p`, which
    returns `none` exactly on non-squares of `F_{p²}` and a root otherwise -/
theorem fp2SqrtV_spec (n : ℕ) (hlt : p < 2 ^ (64 * n)) (a : Fp2 p β)
    (ha : a.c0.val < p ∧ a.c1.val < p) :
    ∃ o : Option (Quad (ZMod p)), fp2SqrtV ⟨p, n⟩ β (fpSqrtPre ⟨p, n⟩) a = o.map (ofQ β) ∧
      (o = none ↔ ¬ ∃ r, toQ a = Quad.mul (zCfg p β) (ExtB.primeD (ZMod p)) r r) ∧
      ∀ y, o = some y → Quad.mul (zCfg p β) (ExtB.primeD (ZMod p)) y y = toQ a := by
  have hp2 := ne_two_of_nonresidue p β hnr
  have hS := SqrtP.zmodSqrtD_lawful p false hp2 n hlt _ (findQnr_nonsquare p hp2)
  have hti := SqrtP.twoInv_zmod p hp2 n (prime_succ_lt p n hlt)
  have hspec := SqrtP.quadSqrt_spec (cfg := zCfg p β) ExtB.primeD_lawful (zCfg_lawful p β) hnr hS false
    (SqrtP.zmodPrimeD p n) hti (toQ a)
  obtain ⟨o, ho, hnone, hsome⟩ := hspec
  refine ⟨o, ?_, ?_, hsome⟩
  · unfold fp2SqrtV
    simp only
    rw [mapQ_toQ p β a ha, fpSqrtPre_eq, SqrtP.sqrtPrecomputation_map,
      quadSqrt_map (ofZ_qhom p β _) (SqrtP.zmodPrimeD p n) (fpPrimeD p n) (twoInv_ofZ p n), ho]
    cases o <;> rfl
  · rw [hnone]
    constructor
    · rintro h ⟨r, hr⟩; exact h ⟨r, hr⟩
    · rintro h ⟨r, hr⟩; exact h ⟨r, hr⟩



/-- **`SqrtOK` for `Fp2`**, `p` prime, `β` a quadratic non-residue -/
theorem fp2SqrtOKV_aux (n : ℕ) (hlt : p < 2 ^ (64 * n)) :
    SqrtOK (fp2CodecV ⟨p, n⟩ β) (fun x => x.c0.val < p ∧ x.c1.val < p) where
  sound := by
    intro a y ha hs
    obtain ⟨o, ho, -, hsome⟩ := fp2SqrtV_spec p β hnr n hlt a ha
    rw [fp2CodecV_sqrt, ho] at hs
    cases o with
    | none => cases hs
    | some y0 =>
      simp only [Option.map, Option.some.injEq] at hs
      subst hs
      refine ⟨ofQ_canon p β y0, ?_⟩
      apply toQ_inj _ _ (Fp2.mul_canon (ppos p) _ _) ha
      rw [toQ_mul, toQ_ofQ, hsome y0 rfl]
  complete := by
    intro a y ha hy hyy
    obtain ⟨o, ho, hnone, -⟩ := fp2SqrtV_spec p β hnr n hlt a ha
    rw [fp2CodecV_sqrt, ho]
    cases o with
    | some y0 => exact ⟨_, rfl⟩
    | none =>
      exfalso
      exact hnone.mp rfl ⟨toQ y, by rw [← toQ_mul, hyy]⟩

/-- the algebra of the sign rule in `Fp2`: through the field `Quad (ZMod p)` -/
theorem fp2SignLaws_aux : SignLaws (Fp2 p β) (fun x => x.c0.val < p ∧ x.c1.val < p) where
  canon_add := Fp2.add_canon (ppos p)
  canon_mul := Fp2.mul_canon (ppos p)
  canon_neg := Fp2.neg_canon (ppos p)
  neg_neg := by
    intro a ha
    exact Fp2.ext' ((fpSignLaws Fact.out).neg_neg a.c0 ha.1) ((fpSignLaws Fact.out).neg_neg a.c1 ha.2)
  neg_sq := by
    intro a
    letI := ExtB.Quad.field (zCfg p β) (ExtB.primeD (ZMod p)) ExtB.primeD_lawful (zCfg_lawful p β) hnr
    apply toQ_inj _ _ (Fp2.mul_canon (ppos p) _ _) (Fp2.mul_canon (ppos p) _ _)
    rw [toQ_mul, toQ_mul, toQ_neg]
    exact neg_mul_neg (toQ a) (toQ a)
  sq_eq := by
    intro y y' hy hy' h
    letI := ExtB.Quad.field (zCfg p β) (ExtB.primeD (ZMod p)) ExtB.primeD_lawful (zCfg_lawful p β) hnr
    have h' : toQ y' * toQ y' = toQ y * toQ y := by
      show Quad.mul _ _ _ _ = Quad.mul _ _ _ _
      rw [← toQ_mul, ← toQ_mul, h]
    rcases mul_self_eq_mul_self_iff.mp h' with e | e
    · left; exact toQ_inj _ _ hy' hy e
    · right
      apply toQ_inj _ _ hy' (Fp2.neg_canon (ppos p) _)
      rw [toQ_neg]; exact e

end fp2laws

theorem fp2LtOKV (c : FpCfg) (β : ℕ) :
    LtOK (fp2CodecV c β) (fun x => x.c0.val < c.p ∧ x.c1.val < c.p) where
  asymm := by
    intro a b h
    have h' : (decide (a.c1.val < b.c1.val) || (a.c1.val == b.c1.val && decide (a.c0.val < b.c0.val))) = true := h
    show (decide (b.c1.val < a.c1.val) || (b.c1.val == a.c1.val && decide (b.c0.val < a.c0.val))) = false
    simp only [Bool.or_eq_true, Bool.and_eq_true, decide_eq_true_eq, beq_iff_eq, Bool.or_eq_false_iff,
      Bool.and_eq_false_iff, decide_eq_false_iff_not, beq_eq_false_iff_ne] at h' ⊢
    omega
  total := by
    intro a b _ _ h1 h2
    have h1' : (decide (a.c1.val < b.c1.val) || (a.c1.val == b.c1.val && decide (a.c0.val < b.c0.val))) = false := h1
    have h2' : (decide (b.c1.val < a.c1.val) || (b.c1.val == a.c1.val && decide (b.c0.val < a.c0.val))) = false := h2
    simp only [Bool.or_eq_false_iff, Bool.and_eq_false_iff, decide_eq_false_iff_not,
      beq_eq_false_iff_ne] at h1' h2'
    exact Fp2.ext' (Fp.ext' (by omega)) (Fp.ext' (by omega))

theorem fp2CodecVOK {c : FpCfg} (h : WFc c) (β : ℕ) :
    CodecOK (fp2CodecV c β) (fun x => x.c0.val < c.p ∧ x.c1.val < c.p) where
  ser_size := (fp2CodecOK h β).ser_size
  deFlags_reads := (fp2CodecOK h β).deFlags_reads
  de_reads := (fp2CodecOK h β).de_reads
  deFlags_canon := (fp2CodecOK h β).deFlags_canon
  de_canon := (fp2CodecOK h β).de_canon
  rt_flags := (fp2CodecOK h β).rt_flags
  rt_plain := (fp2CodecOK h β).rt_plain

theorem fp2SqrtOKV {c : FpCfg} (hp : c.p.Prime) (hlt : c.p < 2 ^ (64 * c.N)) (β : ℕ)
    (hnr : ∀ x : ZMod c.p, x * x ≠ ((β : ℕ) : ZMod c.p)) :
    SqrtOK (fp2CodecV c β) (fun x => x.c0.val < c.p ∧ x.c1.val < c.p) := by
  obtain ⟨p, n⟩ := c
  haveI : Fact p.Prime := ⟨hp⟩
  exact fp2SqrtOKV_aux p β hnr n hlt

theorem fp2SignLaws {p : ℕ} (hp : p.Prime) (β : ℕ) (hnr : ∀ x : ZMod p, x * x ≠ ((β : ℕ) : ZMod p)) :
    SignLaws (Fp2 p β) (fun x => x.c0.val < p ∧ x.c1.val < p) :=
  haveI : Fact p.Prime := ⟨hp⟩
  fp2SignLaws_aux p β hnr

end Ark.Bytes

namespace Ark.Bytes
open Ark

/-! ## 7. small primes for the examples -/

theorem prime_97 : Nat.Prime 97 := by norm_num
theorem prime_10007 : Nat.Prime 10007 := by norm_num
theorem wfc_97 : WFc ⟨97, 1⟩ := ⟨by decide, by decide, by decide⟩
theorem wfc_10007 : WFc ⟨10007, 1⟩ := ⟨by decide, by decide, by decide⟩

end Ark.Bytes
