import Ark.Model.Mont
import Ark.Proofs.LimbsA
import Ark.Proofs.LimbsB
/-
  Shared definitions for the C01 proofs: what it means for a `MontCfg` to be a
  well-formed configuration of the odd modulus `pv`, and for a limb list to be an element.
-/
namespace Ark.Mont
open Ark

/-- `c` is a consistent configuration for the modulus `pv` (an odd number `> 1`; primality is only
    needed for inverses). Every field is what `mkCfg` computes (proved separately). -/
structure CfgOK (c : MontCfg) (pv : Nat) : Prop where
  n_pos : 0 < c.n
  p_len : c.p.length = c.n
  p_wf : WF c.p
  p_val : value c.p = pv
  p_odd : pv % 2 = 1
  p_gt : 1 < pv
  inv_lt : c.inv < B
  inv_ok : (c.inv * (pv % B) + 1) % B = 0          -- INV = -p⁻¹ mod 2^64
  spare_iff : c.spare = true ↔ 2 * pv < B ^ c.n     -- top bit of the top limb clear
  noCarry_spare : c.noCarry = true → c.spare = true
  r_len : c.r.length = c.n
  r_wf : WF c.r
  r_val : value c.r = B ^ c.n % pv
  r2_len : c.r2.length = c.n
  r2_wf : WF c.r2
  r2_val : value c.r2 = (B ^ c.n * B ^ c.n) % pv

/-- `a` is a (canonical) element of the field: `N` well-formed limbs with value `< p` -/
structure Elem (c : MontCfg) (pv : Nat) (a : List Nat) : Prop where
  len : a.length = c.n
  wf : WF a
  lt : value a < pv

/-- `a` is an arbitrary `N`-limb integer (not necessarily reduced) -/
structure Limbs (c : MontCfg) (a : List Nat) : Prop where
  len : a.length = c.n
  wf : WF a

end Ark.Mont
