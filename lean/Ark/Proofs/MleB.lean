import Ark.Model.Mle
import Mathlib.Tactic.Ring
import Mathlib.Tactic.Linarith
import Mathlib.Algebra.BigOperators.Group.Finset.Basic
import Mathlib.Algebra.BigOperators.Ring.Finset
import Mathlib.Algebra.BigOperators.Intervals
/-
  Ark.Proofs.MleB — helper lemmas for property C17 (part B): the SPARSE multilinear extension of
  `Ark.Model.Mle` (`TreeMap`, `Sparse.*`) and the dense ↔ sparse agreement.
-/
namespace Ark.Mle
open Ark

/-! ## `Outcome` monad plumbing -/

@[simp] theorem ok_bind {α β} (a : α) (f : α → Outcome β) : (Outcome.ok a >>= f) = f a := rfl
@[simp] theorem panic_bind {α β} (f : α → Outcome β) : (Outcome.panic >>= f) = .panic := rfl
@[simp] theorem pure_eq_ok {α} (a : α) : (pure a : Outcome α) = .ok a := rfl
@[simp] theorem assert_true : assert true = .ok () := rfl
@[simp] theorem assert_false : assert false = .panic := rfl

theorem assert_eq_ok {c : Bool} : assert c = .ok () ↔ c = true := by
  cases c <;> simp

/-! ## TreeMap: sortedness, lookup laws -/

namespace TreeMap
variable {F : Type}

/-- strictly key-sorted association list (the `BTreeMap` invariant) -/
def Sorted (m : TreeMap F) : Prop := m.Pairwise (fun a b => a.1 < b.1)

/-- stored value at key `i`, or `0` -/
def val [Zero F] (m : TreeMap F) (i : Nat) : F :=
  match get? i m with
  | some v => v
  | none => 0

theorem sorted_nil : Sorted ([] : TreeMap F) := List.Pairwise.nil

theorem Sorted.tail {a : Nat × F} {m : TreeMap F} (h : Sorted (a :: m)) : Sorted m :=
  (List.pairwise_cons.1 h).2

theorem Sorted.head_lt {a : Nat × F} {m : TreeMap F} (h : Sorted (a :: m)) :
    ∀ b ∈ m, a.1 < b.1 := (List.pairwise_cons.1 h).1

/-- keys smaller than every key are absent -/
theorem get?_eq_none_of_lt {k : Nat} {m : TreeMap F} (h : ∀ b ∈ m, k < b.1) : get? k m = none := by
  cases m with
  | nil => rfl
  | cons a m =>
    obtain ⟨k', v'⟩ := a
    have := h (k', v') (List.mem_cons_self)
    simp only [get?]
    rw [if_neg (by simp at this; omega), if_pos (by simpa using this)]

theorem get?_cons {k k' : Nat} {v' : F} {m : TreeMap F} (h : Sorted ((k', v') :: m)) :
    get? k ((k', v') :: m) = if k = k' then some v' else get? k m := by
  simp only [get?]
  by_cases h1 : k = k'
  · simp [h1]
  · simp only [h1, if_false]
    by_cases h2 : k < k'
    · rw [if_pos h2, get?_eq_none_of_lt]
      intro b hb
      have := h.head_lt b hb
      simp at this; omega
    · rw [if_neg h2]

/-- on a sorted map, `get?` is membership -/
theorem get?_eq_some_iff {k : Nat} {v : F} {m : TreeMap F} (h : Sorted m) :
    get? k m = some v ↔ (k, v) ∈ m := by
  induction m with
  | nil => simp [get?]
  | cons a m ih =>
    obtain ⟨k', v'⟩ := a
    rw [get?_cons h, List.mem_cons]
    by_cases h1 : k = k'
    · subst h1
      simp only [if_true, Option.some.injEq, Prod.mk.injEq, true_and]
      constructor
      · intro e; exact Or.inl e.symm
      · rintro (e | e)
        · exact e.symm
        · have := h.head_lt _ e; simp at this
    · simp only [h1, if_false, Prod.mk.injEq, false_and, false_or]
      exact ih h.tail

theorem get?_eq_none_iff {k : Nat} {m : TreeMap F} (h : Sorted m) :
    get? k m = none ↔ ∀ b ∈ m, b.1 ≠ k := by
  induction m with
  | nil => simp [get?]
  | cons a m ih =>
    obtain ⟨k', v'⟩ := a
    rw [get?_cons h]
    by_cases h1 : k = k'
    · subst h1; simp
    · simp only [h1, if_false, List.mem_cons, forall_eq_or_imp, ne_eq]
      rw [ih h.tail]
      constructor
      · intro hh; exact ⟨fun e => h1 e.symm, hh⟩
      · intro hh; exact hh.2

theorem get?_isSome_iff {k : Nat} {m : TreeMap F} (h : Sorted m) :
    (get? k m).isSome ↔ ∃ b ∈ m, b.1 = k := by
  rw [← not_iff_not, Bool.not_eq_true, Option.isSome_eq_false_iff, Option.isNone_iff_eq_none,
    get?_eq_none_iff h, not_exists]
  simp only [not_and]

/-- keys of `insert` -/
theorem mem_insert {k : Nat} {v : F} {m : TreeMap F} {b : Nat × F} (hb : b ∈ insert k v m) :
    b = (k, v) ∨ b ∈ m := by
  induction m with
  | nil => simp [insert] at hb; exact Or.inl hb
  | cons a m ih =>
    obtain ⟨k', v'⟩ := a
    simp only [insert] at hb
    split at hb
    · simpa using hb
    · split at hb
      · rcases List.mem_cons.1 hb with e | e
        · exact Or.inl e
        · exact Or.inr (List.mem_cons_of_mem _ e)
      · rcases List.mem_cons.1 hb with e | e
        · exact Or.inr (e ▸ List.mem_cons_self)
        · rcases ih e with e | e
          · exact Or.inl e
          · exact Or.inr (List.mem_cons_of_mem _ e)

theorem sorted_insert {k : Nat} {v : F} {m : TreeMap F} (h : Sorted m) : Sorted (insert k v m) := by
  induction m with
  | nil => simp [insert, Sorted]
  | cons a m ih =>
    obtain ⟨k', v'⟩ := a
    simp only [insert]
    split
    · rename_i h1
      refine List.pairwise_cons.2 ⟨?_, h⟩
      intro b hb
      rcases List.mem_cons.1 hb with e | e
      · subst e; exact h1
      · exact lt_trans h1 (h.head_lt b e)
    · split
      · rename_i h1 h2
        subst h2
        exact List.pairwise_cons.2 ⟨h.head_lt, h.tail⟩
      · rename_i h1 h2
        refine List.pairwise_cons.2 ⟨?_, ih h.tail⟩
        intro b hb
        rcases mem_insert hb with e | e
        · subst e; show k' < k; omega
        · exact h.head_lt b e

theorem get?_insert {k k' : Nat} {v : F} {m : TreeMap F} (h : Sorted m) :
    get? k (insert k' v m) = if k = k' then some v else get? k m := by
  induction m with
  | nil =>
    simp only [insert, get?]
    by_cases h1 : k = k' <;> simp [h1]
  | cons a m ih =>
    obtain ⟨k2, v2⟩ := a
    simp only [insert]
    split
    · rename_i h1
      have hs : Sorted ((k', v) :: (k2, v2) :: m) := by
        have := sorted_insert (k := k') (v := v) h
        simpa [insert, h1] using this
      rw [get?_cons hs]
    · split
      · rename_i h1 h2
        subst h2
        have hs : Sorted ((k', v) :: m) := List.pairwise_cons.2 ⟨h.head_lt, h.tail⟩
        rw [get?_cons hs, get?_cons h]
        by_cases h3 : k = k' <;> simp [h3]
      · rename_i h1 h2
        have hs : Sorted ((k2, v2) :: insert k' v m) := by
          have := sorted_insert (k := k') (v := v) h
          simpa [insert, h1, h2] using this
        rw [get?_cons hs, get?_cons h, ih h.tail]
        by_cases h3 : k = k2
        · have : k ≠ k' := by omega
          simp [h3]
          intro e; omega
        · simp [h3]

theorem sorted_accumulate [Add F] [Zero F] {k : Nat} {x : F} {m : TreeMap F} (h : Sorted m) :
    Sorted (accumulate m k x) := by
  unfold accumulate
  split <;> exact sorted_insert h

theorem get?_accumulate [Add F] [Zero F] {k k' : Nat} {x : F} {m : TreeMap F} (h : Sorted m) :
    get? k (accumulate m k' x) =
      if k = k' then some ((match get? k' m with | some y => y | none => 0) + x) else get? k m := by
  unfold accumulate
  split <;> rename_i e <;> rw [get?_insert h, e]

theorem mem_accumulate [Add F] [Zero F] {k : Nat} {x : F} {m : TreeMap F} {b : Nat × F}
    (hb : b ∈ accumulate m k x) : b.1 = k ∨ b ∈ m := by
  unfold accumulate at hb
  split at hb <;> rcases mem_insert hb with e | e
  · exact Or.inl (by rw [e])
  · exact Or.inr e
  · exact Or.inl (by rw [e])
  · exact Or.inr e

theorem val_accumulate [AddMonoid F] {k k' : Nat} {x : F} {m : TreeMap F} (h : Sorted m) :
    val (accumulate m k' x) k = if k = k' then val m k' + x else val m k := by
  unfold val
  rw [get?_accumulate h]
  by_cases h1 : k = k' <;> simp [h1]

/-! ### `ofTuples` -/

theorem ofTuples_append_singleton (l : List (Nat × F)) (kv : Nat × F) :
    ofTuples (l ++ [kv]) = insert kv.1 kv.2 (ofTuples l) := by
  simp [ofTuples, List.foldl_append]

theorem sorted_ofTuples (l : List (Nat × F)) : Sorted (ofTuples l) := by
  induction l using List.reverseRecOn with
  | nil => exact sorted_nil
  | append_singleton l kv ih => rw [ofTuples_append_singleton]; exact sorted_insert ih

/-- `get? k (ofTuples l)` is the last pair of `l` with key `k` -/
theorem get?_ofTuples (l : List (Nat × F)) (k : Nat) :
    get? k (ofTuples l) = l.reverse.lookup k := by
  induction l using List.reverseRecOn with
  | nil => rfl
  | append_singleton l kv ih =>
    obtain ⟨k', v⟩ := kv
    rw [ofTuples_append_singleton, get?_insert (sorted_ofTuples l), ih, List.reverse_append]
    simp only [List.reverse_cons, List.reverse_nil, List.nil_append, List.singleton_append,
      List.lookup_cons]
    by_cases h1 : k = k'
    · simp [h1]
    · have : (k == k') = false := by simp [h1]
      simp [h1, this]

theorem mem_ofTuples {l : List (Nat × F)} {b : Nat × F} (hb : b ∈ ofTuples l) : b ∈ l := by
  induction l using List.reverseRecOn with
  | nil => simp [ofTuples] at hb
  | append_singleton l kv ih =>
    rw [ofTuples_append_singleton] at hb
    rcases mem_insert hb with e | e
    · simp [e]
    · exact List.mem_append_left _ (ih e)

/-- a key-sorted list is a fixed point of `ofTuples` -/
theorem insert_last {k : Nat} {v : F} {m : TreeMap F} (h : ∀ b ∈ m, b.1 < k) :
    insert k v m = m ++ [(k, v)] := by
  induction m with
  | nil => rfl
  | cons a m ih =>
    obtain ⟨k', v'⟩ := a
    have h1 : k' < k := h (k', v') List.mem_cons_self
    simp only [insert]
    rw [if_neg (by omega), if_neg (by omega), ih (fun b hb => h b (List.mem_cons_of_mem _ hb))]
    rfl

theorem ofTuples_of_sorted {m : TreeMap F} (h : Sorted m) : ofTuples m = m := by
  induction m using List.reverseRecOn with
  | nil => rfl
  | append_singleton l kv ih =>
    have h' : Sorted l := (List.pairwise_append.1 h).1
    rw [ofTuples_append_singleton, ih h', insert_last]
    intro b hb
    exact (List.pairwise_append.1 h).2.2 b hb kv (by simp)

/-- two sorted maps with the same lookups are equal -/
theorem ext_of_sorted {m₁ m₂ : TreeMap F} (h₁ : Sorted m₁) (h₂ : Sorted m₂)
    (h : ∀ k, get? k m₁ = get? k m₂) : m₁ = m₂ := by
  induction m₁ generalizing m₂ with
  | nil =>
    cases m₂ with
    | nil => rfl
    | cons b m₂ =>
      obtain ⟨k, v⟩ := b
      have := h k
      rw [get?_cons h₂] at this
      simp [get?] at this
  | cons a m₁ ih =>
    obtain ⟨k, v⟩ := a
    cases m₂ with
    | nil =>
      have := h k
      rw [get?_cons h₁] at this
      simp [get?] at this
    | cons b m₂ =>
      obtain ⟨k', v'⟩ := b
      have hk : k = k' := by
        have e1 := h k
        have e2 := h k'
        rw [get?_cons h₁, get?_cons h₂] at e1 e2
        simp only [if_true] at e1 e2
        by_contra hne
        rw [if_neg hne] at e1
        rw [if_neg (fun e => hne e.symm)] at e2
        have m1 : (k, v) ∈ m₂ := (get?_eq_some_iff h₂.tail).1 e1.symm
        have m2 : (k', v') ∈ m₁ := (get?_eq_some_iff h₁.tail).1 e2
        have := h₂.head_lt _ m1
        have := h₁.head_lt _ m2
        simp at *; omega
      subst hk
      have hv : v = v' := by
        have e1 := h k
        rw [get?_cons h₁, get?_cons h₂] at e1
        simpa using e1
      subst hv
      congr 1
      apply ih h₁.tail h₂.tail
      intro j
      have e := h j
      rw [get?_cons h₁, get?_cons h₂] at e
      by_cases hj : j = k
      · subst hj
        rw [get?_eq_none_of_lt (fun b hb => h₁.head_lt b hb),
          get?_eq_none_of_lt (fun b hb => h₂.head_lt b hb)]
      · simpa [hj] using e

end TreeMap

/-! ## the `eq` polynomial and `precomputeEq` -/

theorem ofFn_eq_map_range {α} (n : Nat) (f : Nat → α) :
    List.ofFn (fun i : Fin n => f i.val) = (List.range n).map f := by
  apply List.ext_getElem
  · simp
  · intro i h1 h2; simp

section Eq
variable {F : Type} [CommRing F]

/-- bit `i` of `b` as a ring element -/
def bitF (b i : Nat) : F := if b.testBit i then 1 else 0

/-- `eq x b = Π_{i<|x|} (x_i·b_i + (1−x_i)(1−b_i))`, `b_i = b.testBit i` -/
def eqPoly (x : List F) (b : Nat) : F :=
  ∏ i ∈ Finset.range x.length, (x.getD i 0 * bitF b i + (1 - x.getD i 0) * (1 - bitF b i))

/-- recursive form of `eqPoly` -/
def eqR : List F → Nat → F
  | [], _ => 1
  | x :: xs, b => (if b % 2 = 1 then x else 1 - x) * eqR xs (b / 2)

theorem eqPoly_eq_eqR (x : List F) (b : Nat) : eqPoly x b = eqR x b := by
  induction x generalizing b with
  | nil => simp [eqPoly, eqR]
  | cons x xs ih =>
    unfold eqPoly eqR
    rw [List.length_cons, Finset.prod_range_succ', mul_comm, ← ih (b / 2)]
    unfold eqPoly
    congr 1
    · simp only [List.getD_cons_zero, bitF, Nat.testBit_zero]
      by_cases h : b % 2 = 1 <;> simp [h]
    · apply Finset.prod_congr rfl
      intro i _
      simp only [List.getD_cons_succ, bitF, Nat.testBit_succ]

theorem eqR_append (x₁ x₂ : List F) (b : Nat) :
    eqR (x₁ ++ x₂) b = eqR x₁ b * eqR x₂ (b / 2 ^ x₁.length) := by
  induction x₁ generalizing b with
  | nil => simp [eqR]
  | cons x xs ih =>
    simp only [List.cons_append, eqR, List.length_cons, ih, mul_assoc]
    rw [Nat.pow_succ, Nat.mul_comm, Nat.div_div_eq_div_mul]

theorem eqR_add_mul (x : List F) (b₁ b₂ : Nat) :
    eqR x (b₁ + 2 ^ x.length * b₂) = eqR x b₁ := by
  induction x generalizing b₁ b₂ with
  | nil => simp [eqR]
  | cons x xs ih =>
    simp only [eqR, List.length_cons]
    have hp : 2 ^ (xs.length + 1) * b₂ = 2 * (2 ^ xs.length * b₂) := by
      rw [Nat.pow_succ]; ring
    have e1 : (b₁ + 2 ^ (xs.length + 1) * b₂) % 2 = b₁ % 2 := by
      rw [hp]; exact Nat.add_mul_mod_self_left _ _ _
    have e2 : (b₁ + 2 ^ (xs.length + 1) * b₂) / 2 = b₁ / 2 + 2 ^ xs.length * b₂ := by
      rw [hp]; exact Nat.add_mul_div_left _ _ (by decide)
    simp only [e1, e2, ih]

/-- batch composition: `eq (x₁++x₂) (b₁ + 2^{d₁} b₂) = eq x₁ b₁ · eq x₂ b₂` -/
theorem eqR_append_add (x₁ x₂ : List F) (b₁ b₂ : Nat) (h : b₁ < 2 ^ x₁.length) :
    eqR (x₁ ++ x₂) (b₁ + 2 ^ x₁.length * b₂) = eqR x₁ b₁ * eqR x₂ b₂ := by
  rw [eqR_append, eqR_add_mul]
  congr 2
  rw [Nat.add_mul_div_left _ _ (Nat.two_pow_pos _), Nat.div_eq_of_lt h, Nat.zero_add]

/-- the doubling step of `precompute_eq` -/
def eqStep (dp : List F) (gi : F) : List F :=
  let hi := dp.map (fun prev => prev * gi)
  List.zipWith (fun prev h => prev - h) dp hi ++ hi

theorem eqStep_spec (pre : List F) (gi : F) :
    eqStep ((List.range (2 ^ pre.length)).map (eqR pre)) gi =
      (List.range (2 ^ (pre.length + 1))).map (eqR (pre ++ [gi])) := by
  have e : 2 ^ (pre.length + 1) = 2 ^ pre.length + 2 ^ pre.length := by rw [Nat.pow_succ]; omega
  rw [e, List.range_add, List.map_append, eqStep]
  congr 1
  · rw [List.zipWith_map_right, List.zipWith_self, List.map_map]
    apply List.map_congr_left
    intro b hb
    have hb' : b < 2 ^ pre.length := List.mem_range.1 hb
    simp only [Function.comp]
    rw [eqR_append, Nat.div_eq_of_lt hb']
    simp [eqR]; ring
  · simp only [List.map_map]
    apply List.map_congr_left
    intro b hb
    have hb' : b < 2 ^ pre.length := List.mem_range.1 hb
    simp only [Function.comp]
    have := eqR_append_add pre [gi] b 1 hb'
    rw [Nat.mul_one, Nat.add_comm] at this
    rw [this]
    simp [eqR]

theorem eqStep_foldl (gs pre : List F) :
    gs.foldl eqStep ((List.range (2 ^ pre.length)).map (eqR pre)) =
      (List.range (2 ^ (pre ++ gs).length)).map (eqR (pre ++ gs)) := by
  induction gs generalizing pre with
  | nil => simp
  | cons g gs ih =>
    rw [List.foldl_cons, eqStep_spec]
    have := ih (pre ++ [g])
    simp only [List.length_append, List.length_cons, List.length_nil, List.append_assoc,
      List.cons_append, List.nil_append] at this ⊢
    exact this

theorem precomputeEq_eq_range (g : List F) (hg : g ≠ []) :
    Sparse.precomputeEq g = .ok ((List.range (2 ^ g.length)).map (eqR g)) := by
  cases g with
  | nil => exact absurd rfl hg
  | cons g0 gs =>
    unfold Sparse.precomputeEq
    have base : [1 - g0, g0] = (List.range (2 ^ [g0].length)).map (eqR [g0]) := by
      simp [List.range_succ, eqR]
    have := eqStep_foldl gs [g0]
    rw [← base] at this
    simp only [List.cons_append, List.nil_append] at this
    rw [← this]
    rfl

theorem precomputeEq_nil : Sparse.precomputeEq ([] : List F) = .panic := rfl

end Eq

/-! ## sums over a sorted map -/

section Sums
variable {F : Type} [CommRing F]
open TreeMap

theorem TreeMap.val_nil (i : Nat) : val ([] : TreeMap F) i = 0 := rfl

theorem TreeMap.val_cons {k : Nat} {v : F} {m : TreeMap F} (h : Sorted ((k, v) :: m)) (i : Nat) :
    val ((k, v) :: m) i = (if i = k then v else 0) + val m i := by
  unfold val
  rw [get?_cons h]
  by_cases h1 : i = k
  · subst h1
    rw [get?_eq_none_of_lt (fun b hb => h.head_lt b hb)]
    simp
  · simp [h1]

theorem TreeMap.val_eq_zero_of_not_mem {m : TreeMap F} (h : Sorted m) {i : Nat}
    (hi : ∀ b ∈ m, b.1 ≠ i) : val m i = 0 := by
  unfold val; rw [(get?_eq_none_iff h).2 hi]

theorem sum_range_mul_split (f : Nat → F) (n m : Nat) :
    ∑ b ∈ Finset.range (n * m), f b =
      ∑ b₂ ∈ Finset.range m, ∑ b₁ ∈ Finset.range n, f (b₁ + n * b₂) := by
  induction m with
  | zero => simp
  | succ m ih =>
    rw [Nat.mul_succ, Finset.sum_range_add, ih, Finset.sum_range_succ]
    congr 1
    apply Finset.sum_congr rfl
    intro x _
    rw [Nat.add_comm]

/-- a windowed sum of `val m` is a sum over the stored pairs -/
theorem sum_val_window {m : TreeMap F} (hm : Sorted m) (h : Nat → F) (off n : Nat) :
    ∑ b ∈ Finset.range n, val m (b + off) * h b =
      (m.map (fun iv => if off ≤ iv.1 ∧ iv.1 < off + n then iv.2 * h (iv.1 - off) else 0)).sum := by
  induction m with
  | nil => simp [TreeMap.val_nil]
  | cons a m ih =>
    obtain ⟨k, v⟩ := a
    rw [List.map_cons, List.sum_cons, ← ih hm.tail]
    simp only [TreeMap.val_cons hm, add_mul, Finset.sum_add_distrib]
    congr 1
    by_cases hk : off ≤ k ∧ k < off + n
    · rw [if_pos hk]
      have : ∀ b, (b + off = k) ↔ (b = k - off) := by intro b; omega
      simp only [this, ite_mul, zero_mul]
      rw [Finset.sum_ite_eq', if_pos (Finset.mem_range.2 (by omega))]
    · rw [if_neg hk]
      apply Finset.sum_eq_zero
      intro b hb
      have := Finset.mem_range.1 hb
      rw [if_neg (by omega), zero_mul]

end Sums

/-! ## `Sparse.fixVariables` -/

section Fix
variable {F : Type} [CommRing F]
open TreeMap

theorem get?_eq_of_val_isSome {m₁ m₂ : TreeMap F} {j : Nat}
    (hv : val m₁ j = val m₂ j) (hs : (get? j m₁).isSome ↔ (get? j m₂).isSome) :
    get? j m₁ = get? j m₂ := by
  unfold val at hv
  cases h1 : get? j m₁ <;> cases h2 : get? j m₂ <;> simp_all

theorem isSome_get?_accumulate {k k' : Nat} {x : F} {m : TreeMap F} (h : Sorted m) :
    (get? k (accumulate m k' x)).isSome ↔ (k = k' ∨ (get? k m).isSome) := by
  rw [get?_accumulate h]
  by_cases h1 : k = k' <;> simp [h1]

/-- one batch: never panics when the weight table has length `2^dim` -/
theorem foldBatch_spec (pre : List F) (dim : Nat) (hpre : pre.length = 2 ^ dim)
    (l : List (Nat × F)) (r : TreeMap F) (hr : Sorted r) :
    ∃ r', Sparse.foldBatch pre dim l r = .ok r' ∧ Sorted r' ∧
      (∀ j, val r' j = val r j +
        (l.map (fun iv => if iv.1 / 2 ^ dim = j then iv.2 * pre.getD (iv.1 % 2 ^ dim) 0 else 0)).sum) ∧
      (∀ j, (get? j r').isSome ↔ ((get? j r).isSome ∨ ∃ iv ∈ l, iv.1 / 2 ^ dim = j)) := by
  induction l generalizing r with
  | nil => exact ⟨r, rfl, hr, by simp, by simp⟩
  | cons a l ih =>
    obtain ⟨i, v⟩ := a
    have hlt : i % 2 ^ dim < pre.length := by rw [hpre]; exact Nat.mod_lt _ (Nat.two_pow_pos _)
    have hidx : pre[i &&& ((1 <<< dim) - 1)]? = some (pre.getD (i % 2 ^ dim) 0) := by
      rw [Nat.one_shiftLeft, Nat.and_two_pow_sub_one_eq_mod, List.getD_eq_getElem?_getD,
        List.getElem?_eq_getElem hlt]
      rfl
    obtain ⟨r', e, hs, hv, hk⟩ := ih (accumulate r (i >>> dim) (pre.getD (i % 2 ^ dim) 0 * v))
      (sorted_accumulate hr)
    refine ⟨r', ?_, hs, ?_, ?_⟩
    · simp only [Sparse.foldBatch, hidx, ofOption, ok_bind]
      exact e
    · intro j
      rw [hv j, val_accumulate hr, Nat.shiftRight_eq_div_pow, List.map_cons, List.sum_cons]
      by_cases hj : i / 2 ^ dim = j
      · subst hj; simp; ring
      · rw [if_neg (fun e => hj e.symm)]; simp [hj]
    · intro j
      rw [hk j, isSome_get?_accumulate hr, Nat.shiftRight_eq_div_pow]
      simp only [List.mem_cons, exists_eq_or_imp]
      constructor
      · rintro ((e | e) | e)
        · exact Or.inr (Or.inl e.symm)
        · exact Or.inl e
        · exact Or.inr (Or.inr e)
      · rintro (e | e | e)
        · exact Or.inl (Or.inr e)
        · exact Or.inl (Or.inl e.symm)
        · exact Or.inr e

/-- one batch started from the empty map, as a hypercube sum -/
theorem foldBatch_empty (focus : List F) (m : TreeMap F) (hm : Sorted m) :
    ∃ r', Sparse.foldBatch ((List.range (2 ^ focus.length)).map (eqR focus)) focus.length m [] = .ok r' ∧
      Sorted r' ∧
      (∀ j, val r' j = ∑ b ∈ Finset.range (2 ^ focus.length),
          val m (b + j * 2 ^ focus.length) * eqR focus b) ∧
      (∀ j, (get? j r').isSome ↔ ∃ iv ∈ m, iv.1 / 2 ^ focus.length = j) := by
  obtain ⟨r', e, hs, hv, hk⟩ := foldBatch_spec ((List.range (2 ^ focus.length)).map (eqR focus))
    focus.length (by simp) m [] sorted_nil
  refine ⟨r', e, hs, ?_, ?_⟩
  · intro j
    rw [hv j, sum_val_window hm, TreeMap.val_nil, zero_add]
    congr 1
    apply List.map_congr_left
    intro iv _
    have hp : 0 < 2 ^ focus.length := Nat.two_pow_pos _
    have hiff : (j * 2 ^ focus.length ≤ iv.1 ∧ iv.1 < j * 2 ^ focus.length + 2 ^ focus.length) ↔
        iv.1 / 2 ^ focus.length = j := by
      rw [Nat.div_eq_iff hp]
      constructor
      · rintro ⟨h1, h2⟩; exact ⟨h1, by omega⟩
      · rintro ⟨h1, h2⟩; exact ⟨h1, by omega⟩
    by_cases hj : iv.1 / 2 ^ focus.length = j
    · rw [if_pos hj, if_pos (hiff.2 hj)]
      have hlt : iv.1 % 2 ^ focus.length < 2 ^ focus.length := Nat.mod_lt _ hp
      have : iv.1 - j * 2 ^ focus.length = iv.1 % 2 ^ focus.length := by
        rw [← hj, Nat.mod_def, Nat.mul_comm]
      rw [this, List.getD_eq_getElem?_getD, List.getElem?_map, List.getElem?_range hlt]
      rfl
    · rw [if_neg hj, if_neg (fun h => hj (hiff.1 h))]
  · intro j
    rw [hk j]; simp [get?]

theorem fixLoop_spec (w : Nat) (hw : 1 ≤ w) (fuel : Nat) (pt : List F) (m : TreeMap F)
    (hf : pt.length ≤ fuel) (hm : Sorted m) :
    ∃ r, Sparse.fixLoop w fuel pt m = .ok r ∧ Sorted r ∧
      (∀ j, val r j = ∑ b ∈ Finset.range (2 ^ pt.length),
          val m (b + j * 2 ^ pt.length) * eqR pt b) ∧
      (∀ j, (get? j r).isSome ↔ ∃ iv ∈ m, iv.1 / 2 ^ pt.length = j) := by
  induction fuel generalizing pt m with
  | zero =>
    have : pt = [] := List.length_eq_zero_iff.1 (by omega)
    subst this
    refine ⟨m, rfl, hm, ?_, ?_⟩
    · intro j; simp [eqR]
    · intro j; simp [get?_isSome_iff hm]
  | succ fuel ih =>
    by_cases hpt : pt = []
    · subst hpt
      refine ⟨m, rfl, hm, ?_, ?_⟩
      · intro j; simp [eqR]
      · intro j; simp [get?_isSome_iff hm]
    · have hlen : 0 < pt.length := List.length_pos_iff.2 hpt
      -- the batch
      set fl := if pt.length > w then w else pt.length with hfl
      have hfl1 : 1 ≤ fl := by rw [hfl]; split <;> omega
      have hfl2 : fl ≤ pt.length := by rw [hfl]; split <;> omega
      have hflen : (pt.take fl).length = fl := by rw [List.length_take]; omega
      have hne : pt.take fl ≠ [] := by
        intro e; rw [e] at hflen; simp at hflen; omega
      obtain ⟨r₁, e₁, hs₁, hv₁, hk₁⟩ := foldBatch_empty (pt.take fl) m hm
      have hdl : (pt.drop fl).length ≤ fuel := by rw [List.length_drop]; omega
      obtain ⟨r, e, hs, hv, hk⟩ := ih (pt.drop fl) r₁ hdl hs₁
      refine ⟨r, ?_, hs, ?_, ?_⟩
      · unfold Sparse.fixLoop
        have : pt.isEmpty = false := by cases pt <;> simp_all
        simp only [this, Bool.false_eq_true, if_false, ← hfl, precomputeEq_eq_range _ hne, ok_bind,
          e₁]
        exact e
      · intro j
        rw [hv j]
        simp only [hv₁]
        have hsplit : pt = pt.take fl ++ pt.drop fl := (List.take_append_drop fl pt).symm
        have hl : pt.length = (pt.take fl).length + (pt.drop fl).length := by
          rw [← List.length_append, ← hsplit]
        generalize pt.take fl = x₁ at *
        generalize pt.drop fl = x₂ at *
        subst hsplit
        rw [hl, Nat.pow_add, sum_range_mul_split]
        apply Finset.sum_congr rfl
        intro b₂ _
        rw [Finset.sum_mul]
        apply Finset.sum_congr rfl
        intro b₁ hb₁
        rw [eqR_append_add _ _ _ _ (Finset.mem_range.1 hb₁), mul_assoc]
        congr 2
        ring
      · intro j
        rw [hk j]
        have hl : pt.length = (pt.take fl).length + (pt.drop fl).length := by
          rw [← List.length_append, List.take_append_drop]
        constructor
        · rintro ⟨iv, hiv, e⟩
          have := (get?_isSome_iff hs₁).2 ⟨iv, hiv, rfl⟩
          obtain ⟨iv', hiv', e'⟩ := (hk₁ iv.1).1 this
          refine ⟨iv', hiv', ?_⟩
          rw [hl, Nat.pow_add, ← Nat.div_div_eq_div_mul, e', e]
        · rintro ⟨iv, hiv, e⟩
          have := (hk₁ (iv.1 / 2 ^ (pt.take fl).length)).2 ⟨iv, hiv, rfl⟩
          obtain ⟨b, hb, e'⟩ := (get?_isSome_iff hs₁).1 this
          refine ⟨b, hb, ?_⟩
          rw [e', Nat.div_div_eq_div_mul, ← Nat.pow_add, ← hl, e]

/-- the result of the batch loop does not depend on the window size (nor on spare fuel) -/
theorem fixLoop_window_indep (w₁ w₂ : Nat) (hw₁ : 1 ≤ w₁) (hw₂ : 1 ≤ w₂) (f₁ f₂ : Nat)
    (pt : List F) (m : TreeMap F) (hf₁ : pt.length ≤ f₁) (hf₂ : pt.length ≤ f₂) (hm : Sorted m) :
    Sparse.fixLoop w₁ f₁ pt m = Sparse.fixLoop w₂ f₂ pt m := by
  obtain ⟨r₁, e₁, hs₁, hv₁, hk₁⟩ := fixLoop_spec w₁ hw₁ f₁ pt m hf₁ hm
  obtain ⟨r₂, e₂, hs₂, hv₂, hk₂⟩ := fixLoop_spec w₂ hw₂ f₂ pt m hf₂ hm
  rw [e₁, e₂]
  congr 1
  apply ext_of_sorted hs₁ hs₂
  intro j
  apply get?_eq_of_val_isSome
  · rw [hv₁, hv₂]
  · rw [hk₁, hk₂]

end Fix

/-! ## `Sparse`: well-formedness, `fixVariables`, `evaluate` -/

namespace Sparse
open TreeMap

/-- the `BTreeMap` invariant plus the range invariant established by `from_evaluations`
    and preserved by every operation -/
def WF {F : Type} (s : Sparse F) : Prop :=
  Sorted s.evals ∧ ∀ kv ∈ s.evals, kv.1 < 2 ^ s.numVars

section
variable {F : Type} [CommRing F]

theorem index_eq_val (s : Sparse F) (i : Nat) : s.index i = val s.evals i := rfl

omit [CommRing F] in
theorem wf_zero : WF (zero : Sparse F) := ⟨sorted_nil, by simp [zero]⟩

theorem index_eq_zero_of_ge {s : Sparse F} (hs : WF s) {i : Nat} (hi : 2 ^ s.numVars ≤ i) :
    s.index i = 0 := by
  rw [index_eq_val]
  apply val_eq_zero_of_not_mem hs.1
  intro b hb e
  have := hs.2 b hb
  omega

theorem window_pos (n : Nat) : 1 ≤ (if (arkLog2 n == 0) = true then 1 else arkLog2 n) := by
  split
  · exact Nat.le_refl 1
  · rename_i h; simp at h; omega

theorem fixVariables_spec (s : Sparse F) (pp : List F) (hs : Sorted s.evals)
    (hd : pp.length ≤ s.numVars) :
    ∃ r, fixVariables s pp = .ok r ∧ r.numVars = s.numVars - pp.length ∧ Sorted r.evals ∧
      (∀ j, r.index j = ∑ b ∈ Finset.range (2 ^ pp.length),
          s.index (b + j * 2 ^ pp.length) * eqR pp b) ∧
      (∀ j, (get? j r.evals).isSome ↔ ∃ iv ∈ s.evals, iv.1 / 2 ^ pp.length = j) := by
  obtain ⟨r, e, hr, hv, hk⟩ := fixLoop_spec _ (window_pos s.evals.length) pp.length pp s.evals
    (Nat.le_refl _) hs
  refine ⟨⟨s.numVars - pp.length, r⟩, ?_, rfl, hr, hv, hk⟩
  unfold fixVariables
  simp only [decide_eq_true hd, assert_true, ok_bind]
  simp only [e, ok_bind, pure_eq_ok]

/-- `fixVariables` computed with ANY window `w ≥ 1` (and any sufficient fuel) gives the same result -/
theorem fixVariables_window_indep (s : Sparse F) (pp : List F) (hs : Sorted s.evals)
    (hd : pp.length ≤ s.numVars) (w fuel : Nat) (hw : 1 ≤ w) (hf : pp.length ≤ fuel) :
    fixVariables s pp =
      (match fixLoop w fuel pp s.evals with
       | .ok last => .ok ⟨s.numVars - pp.length, last⟩
       | .panic => .panic) := by
  unfold fixVariables
  simp only [decide_eq_true hd, assert_true, ok_bind]
  rw [fixLoop_window_indep _ w (window_pos s.evals.length) hw pp.length fuel pp s.evals
    (Nat.le_refl _) hf hs]
  cases fixLoop w fuel pp s.evals <;> rfl

theorem fixVariables_panic (s : Sparse F) (pp : List F) (hd : s.numVars < pp.length) :
    fixVariables s pp = .panic := by
  unfold fixVariables
  have : decide (pp.length ≤ s.numVars) = false := decide_eq_false (by omega)
  simp only [this, assert_false, panic_bind]

theorem fixVariables_wf (s : Sparse F) (pp : List F) (hs : WF s) (hd : pp.length ≤ s.numVars)
    (r : Sparse F) (e : fixVariables s pp = .ok r) : WF r := by
  obtain ⟨r', e', hn, hr, _, hk⟩ := fixVariables_spec s pp hs.1 hd
  rw [e] at e'
  cases e'
  refine ⟨hr, ?_⟩
  intro kv hkv
  obtain ⟨iv, hiv, e⟩ := (hk kv.1).1 ((get?_isSome_iff hr).2 ⟨kv, hkv, rfl⟩)
  rw [hn, ← e]
  have h1 := hs.2 iv hiv
  have h2 : 2 ^ s.numVars = 2 ^ (s.numVars - pp.length) * 2 ^ pp.length := by
    rw [← Nat.pow_add]; congr 1; omega
  rw [Nat.div_lt_iff_lt_mul (Nat.two_pow_pos _), ← h2]
  exact h1

theorem evaluate_spec (s : Sparse F) (x : List F) (hs : Sorted s.evals)
    (hx : x.length = s.numVars) :
    evaluate s x = .ok (∑ b ∈ Finset.range (2 ^ s.numVars), s.index b * eqR x b) := by
  obtain ⟨r, e, _, _, hv, _⟩ := fixVariables_spec s x hs (by omega)
  unfold evaluate
  have : (x.length == s.numVars) = true := by simp [hx]
  simp only [this, assert_true, ok_bind, e, pure_eq_ok]
  rw [hv 0, hx]
  simp

theorem evaluate_panic (s : Sparse F) (x : List F) (hx : x.length ≠ s.numVars) :
    evaluate s x = .panic := by
  unfold evaluate
  have : (x.length == s.numVars) = false := by simp [hx]
  simp only [this, assert_false, panic_bind]

/-! ## `writeAll`, `toEvaluations`, `toDense`, `fromEvaluations` -/

theorem writeAll_spec (l : TreeMap F) (hl : Sorted l) (ev : List F)
    (hk : ∀ kv ∈ l, kv.1 < ev.length) :
    writeAll l ev = .ok ((List.range ev.length).map
      (fun i => match get? i l with | some v => v | none => ev.getD i 0)) := by
  induction l generalizing ev with
  | nil =>
    simp only [writeAll, get?]
    congr 1
    apply List.ext_getElem
    · simp
    · intro i h1 h2
      simp [List.getD_eq_getElem?_getD, List.getElem?_eq_getElem h1]
  | cons a l ih =>
    obtain ⟨k, v⟩ := a
    have hk' : k < ev.length := hk (k, v) List.mem_cons_self
    have := ih hl.tail (ev.set k v) (by
      intro kv hkv; rw [List.length_set]; exact hk kv (List.mem_cons_of_mem _ hkv))
    simp only [writeAll, setAt, if_pos hk', ok_bind]
    rw [this, List.length_set]
    congr 1
    apply List.map_congr_left
    intro i hi
    rw [get?_cons hl]
    by_cases h1 : i = k
    · subst h1
      rw [get?_eq_none_of_lt (fun b hb => hl.head_lt b hb)]
      simp [List.getD_eq_getElem?_getD, List.getElem?_set_self hk']
    · simp only [h1, if_false]
      cases get? i l with
      | some _ => rfl
      | none =>
        simp only [List.getD_eq_getElem?_getD]
        rw [List.getElem?_set_ne (fun e => h1 e.symm)]

theorem writeAll_panic_iff (l : List (Nat × F)) (ev : List F) :
    writeAll l ev = .panic ↔ ∃ kv ∈ l, ev.length ≤ kv.1 := by
  induction l generalizing ev with
  | nil => simp [writeAll]
  | cons a l ih =>
    obtain ⟨k, v⟩ := a
    simp only [writeAll, setAt, List.mem_cons, exists_eq_or_imp]
    by_cases hk : k < ev.length
    · simp only [if_pos hk, ok_bind]
      rw [ih, List.length_set]
      constructor
      · intro h; exact Or.inr h
      · rintro (h | h)
        · omega
        · exact h
    · simp only [if_neg hk, panic_bind, true_iff]
      exact Or.inl (by omega)

theorem getD_zeros (n i : Nat) : (zeros n : List F).getD i 0 = 0 := by
  unfold zeros
  rw [List.getD_eq_getElem?_getD, List.getElem?_replicate]
  split <;> rfl

theorem length_zeros (n : Nat) : (zeros n : List F).length = n := by simp [zeros]

theorem toEvaluations_spec (s : Sparse F) (hs : WF s) :
    toEvaluations s = .ok ((List.range (2 ^ s.numVars)).map s.index) := by
  unfold toEvaluations
  rw [writeAll_spec _ hs.1, length_zeros, Nat.one_shiftLeft]
  · congr 1
    apply List.map_congr_left
    intro i _
    rw [index, getD_zeros]
    rfl
  · intro kv hkv
    rw [length_zeros, Nat.one_shiftLeft]
    exact hs.2 kv hkv

theorem toEvaluations_panic_iff (s : Sparse F) :
    toEvaluations s = .panic ↔ ∃ kv ∈ s.evals, 2 ^ s.numVars ≤ kv.1 := by
  unfold toEvaluations
  rw [writeAll_panic_iff, length_zeros, Nat.one_shiftLeft]

theorem toDense_spec (s : Sparse F) (hs : WF s) :
    toDense s = .ok ⟨s.numVars, (List.range (2 ^ s.numVars)).map s.index⟩ := by
  have := toEvaluations_spec s hs
  unfold toEvaluations at this
  unfold toDense
  rw [this]
  simp only [ok_bind, Dense.fromEvaluationsVec, List.length_map, List.length_range,
    Nat.one_shiftLeft, beq_self_eq_true, assert_true, pure_eq_ok]

theorem toDense_panic_iff (s : Sparse F) :
    toDense s = .panic ↔ ∃ kv ∈ s.evals, 2 ^ s.numVars ≤ kv.1 := by
  rw [← toEvaluations_panic_iff]
  unfold toDense toEvaluations
  cases h : writeAll s.evals (zeros (1 <<< s.numVars)) with
  | panic => simp
  | ok ev =>
    simp only [ok_bind, Dense.fromEvaluationsVec, reduceCtorEq, iff_false]
    have : ev.length = 1 <<< s.numVars := by
      have hl : ∀ (l : List (Nat × F)) (e e' : List F), writeAll l e = .ok e' → e'.length = e.length := by
        intro l
        induction l with
        | nil => intro e e' h; simp [writeAll] at h; rw [h]
        | cons a l ih =>
          intro e e' h
          obtain ⟨k, v⟩ := a
          simp only [writeAll, setAt] at h
          split at h
          · rw [ih _ _ h, List.length_set]
          · simp at h
      rw [hl _ _ _ h, length_zeros]
    simp [this]

omit [CommRing F] in
theorem fromEvaluations_ok (nv : Nat) (l : List (Nat × F)) (h : ∀ kv ∈ l, kv.1 < 2 ^ nv) :
    fromEvaluations nv l = .ok ⟨nv, ofTuples l⟩ := by
  unfold fromEvaluations
  have : l.all (fun iv => decide (iv.1 < 1 <<< nv)) = true := by
    rw [List.all_eq_true]; intro kv hkv; simpa [Nat.one_shiftLeft] using h kv hkv
  simp only [this, assert_true, ok_bind, pure_eq_ok]

omit [CommRing F] in
theorem fromEvaluations_panic (nv : Nat) (l : List (Nat × F)) (h : ∃ kv ∈ l, 2 ^ nv ≤ kv.1) :
    fromEvaluations nv l = .panic := by
  unfold fromEvaluations
  have : l.all (fun iv => decide (iv.1 < 1 <<< nv)) = false := by
    rw [List.all_eq_false]
    obtain ⟨kv, hkv, hge⟩ := h
    exact ⟨kv, hkv, by simpa [Nat.one_shiftLeft] using hge⟩
  simp only [this, assert_false, panic_bind]

omit [CommRing F] in
theorem wf_ofTuples (nv : Nat) (l : List (Nat × F)) (h : ∀ kv ∈ l, kv.1 < 2 ^ nv) :
    WF (⟨nv, ofTuples l⟩ : Sparse F) :=
  ⟨sorted_ofTuples l, fun kv hkv => h kv (mem_ofTuples hkv)⟩

theorem index_ofTuples (nv : Nat) (l : List (Nat × F)) (i : Nat) :
    (⟨nv, ofTuples l⟩ : Sparse F).index i = (l.reverse.lookup i).getD 0 := by
  unfold index
  simp only [get?_ofTuples]
  cases l.reverse.lookup i <;> rfl

end

/-! ## arithmetic: `isZero`, `add`, `neg`, `sub`, `addScaled` -/

section Arith
variable {F : Type} [CommRing F]

omit [CommRing F] in
theorem _root_.Ark.Mle.TreeMap.mem_of_get?_eq_some {k : Nat} {v : F} {m : TreeMap F}
    (h : get? k m = some v) : (k, v) ∈ m := by
  induction m with
  | nil => simp [get?] at h
  | cons a m ih =>
    obtain ⟨k', v'⟩ := a
    simp only [get?] at h
    split at h
    · rename_i e; cases h; subst e; exact List.mem_cons_self
    · split at h
      · cases h
      · exact List.mem_cons_of_mem _ (ih h)

omit [CommRing F] in
/-- value-wise map of a sorted map (keys unchanged) -/
theorem sorted_mapVals (g : F → F) {m : TreeMap F} (h : Sorted m) :
    Sorted (m.map (fun iv => (iv.1, g iv.2))) := by
  unfold Sorted at *
  rw [List.pairwise_map]
  exact h

theorem val_mapVals (g : F → F) (hg : g 0 = 0) {m : TreeMap F} (h : Sorted m) (i : Nat) :
    val (m.map (fun iv => (iv.1, g iv.2))) i = g (val m i) := by
  induction m with
  | nil => simp [val, get?, hg]
  | cons a m ih =>
    obtain ⟨k, v⟩ := a
    have h' := sorted_mapVals g h
    simp only [List.map_cons] at h' ⊢
    rw [val_cons h', val_cons h, ih h.tail]
    by_cases h1 : i = k
    · subst h1
      have : val m i = 0 := val_eq_zero_of_not_mem h.tail (by
        intro b hb e; have := h.head_lt b hb; simp at this; omega)
      simp [this, hg]
    · simp [h1]

omit [CommRing F] in
theorem ofTuples_mapVals (g : F → F) {m : TreeMap F} (h : Sorted m) :
    ofTuples (m.map (fun iv => (iv.1, g iv.2))) = m.map (fun iv => (iv.1, g iv.2)) :=
  ofTuples_of_sorted (sorted_mapVals g h)

/-- the accumulate-merge of `add` -/
theorem foldl_accumulate (l : List (Nat × F)) (m : TreeMap F) (hm : Sorted m) :
    Sorted (l.foldl (fun m iv => accumulate m iv.1 iv.2) m) ∧
    (∀ i, val (l.foldl (fun m iv => accumulate m iv.1 iv.2) m) i =
      val m i + (l.map (fun iv => if iv.1 = i then iv.2 else 0)).sum) ∧
    (∀ b ∈ l.foldl (fun m iv => accumulate m iv.1 iv.2) m, b ∈ m ∨ ∃ iv ∈ l, iv.1 = b.1) := by
  induction l generalizing m with
  | nil => exact ⟨hm, by simp, by simp⟩
  | cons a l ih =>
    obtain ⟨h1, h2, h3⟩ := ih (accumulate m a.1 a.2) (sorted_accumulate hm)
    refine ⟨h1, ?_, ?_⟩
    · intro i
      rw [List.foldl_cons, h2 i, val_accumulate hm, List.map_cons, List.sum_cons]
      by_cases e : i = a.1
      · subst e; simp; ring
      · rw [if_neg e, if_neg (fun e' => e e'.symm)]; ring
    · intro b hb
      rcases h3 b hb with h | ⟨iv, hiv, e⟩
      · rcases mem_accumulate h with h | h
        · exact Or.inr ⟨a, List.mem_cons_self, h.symm⟩
        · exact Or.inl h
      · exact Or.inr ⟨iv, List.mem_cons_of_mem _ hiv, e⟩

theorem sum_key_eq {m : TreeMap F} (hm : Sorted m) (i : Nat) :
    (m.map (fun iv => if iv.1 = i then iv.2 else 0)).sum = val m i := by
  induction m with
  | nil => simp [val, get?]
  | cons a m ih =>
    obtain ⟨k, v⟩ := a
    rw [List.map_cons, List.sum_cons, ih hm.tail, val_cons hm]
    by_cases h : k = i
    · simp [h]
    · have : ¬ i = k := fun e => h e.symm
      simp [h, this]

variable [DecidableEq F]

theorem val_filter_nonzero {m : TreeMap F} (hm : Sorted m) (i : Nat) :
    val (m.filter (fun iv => !isZeroF iv.2)) i = val m i := by
  have hf : ∀ {m : TreeMap F}, Sorted m → Sorted (m.filter (fun iv => !isZeroF iv.2)) :=
    fun h => List.Pairwise.filter _ h
  induction m with
  | nil => rfl
  | cons a m ih =>
    obtain ⟨k, v⟩ := a
    rw [val_cons hm, ← ih hm.tail]
    by_cases hv : v = 0
    · subst hv
      have e : List.filter (fun iv : Nat × F => !isZeroF iv.2) ((k, 0) :: m) =
          List.filter (fun iv : Nat × F => !isZeroF iv.2) m := by
        simp [isZeroF]
      rw [e]
      simp
    · have e : List.filter (fun iv : Nat × F => !isZeroF iv.2) ((k, v) :: m) =
          (k, v) :: List.filter (fun iv : Nat × F => !isZeroF iv.2) m := by
        simp [isZeroF, hv]
      have hs := hf hm
      rw [e] at hs ⊢
      rw [val_cons hs]

/-- every stored value is zero ⇒ the map denotes the zero table -/
theorem index_eq_zero_of_isZero {s : Sparse F} (hz : s.isZero = true) (i : Nat) : s.index i = 0 := by
  unfold isZero at hz
  simp only [Bool.and_eq_true, List.all_eq_true] at hz
  unfold index
  cases h : get? i s.evals with
  | none => rfl
  | some v =>
    have := hz.2 _ (mem_of_get?_eq_some h)
    simpa [isZeroF] using this

theorem numVars_of_isZero {s : Sparse F} (hz : s.isZero = true) : s.numVars = 0 := by
  unfold isZero at hz
  simp only [Bool.and_eq_true, beq_iff_eq] at hz
  exact hz.1

theorem isZero_iff {s : Sparse F} (hs : WF s) :
    s.isZero = true ↔ s.numVars = 0 ∧ s.index 0 = 0 := by
  constructor
  · intro hz; exact ⟨numVars_of_isZero hz, index_eq_zero_of_isZero hz 0⟩
  · rintro ⟨hn, h0⟩
    unfold isZero
    simp only [Bool.and_eq_true, beq_iff_eq, List.all_eq_true]
    refine ⟨hn, ?_⟩
    intro kv hkv
    have hk : kv.1 = 0 := by have := hs.2 kv hkv; rw [hn] at this; simpa using this
    have : get? 0 s.evals = some kv.2 := by
      rw [get?_eq_some_iff hs.1, ← hk]; exact hkv
    unfold index at h0
    rw [this] at h0
    simp [isZeroF, h0]

theorem add_spec (s r : Sparse F) (hs : WF s) (hr : WF r)
    (h : s.numVars = r.numVars ∨ s.isZero = true ∨ r.isZero = true) :
    ∃ t, add s r = .ok t ∧ t.numVars = (if s.isZero then r.numVars else s.numVars) ∧ WF t ∧
      ∀ i, t.index i = s.index i + r.index i := by
  unfold add
  by_cases hsz : s.isZero = true
  · refine ⟨r, by simp [hsz], by simp [hsz], hr, ?_⟩
    intro i; rw [index_eq_zero_of_isZero hsz, zero_add]
  · by_cases hrz : r.isZero = true
    · refine ⟨s, by simp [hsz, hrz], by simp [hsz], hs, ?_⟩
      intro i; rw [index_eq_zero_of_isZero hrz, add_zero]
    · have hn : s.numVars = r.numVars := by
        rcases h with h | h | h
        · exact h
        · exact absurd h hsz
        · exact absurd h hrz
      obtain ⟨h1, h2, h3⟩ := foldl_accumulate (s.evals ++ r.evals) [] sorted_nil
      have hk : Sorted ((List.foldl (fun m iv => accumulate m iv.1 iv.2) [] (s.evals ++ r.evals)).filter
          (fun iv => !isZeroF iv.2)) := List.Pairwise.filter _ h1
      have hb : (r.numVars == s.numVars) = true := by simp [hn]
      refine ⟨_, by simp only [hsz, hrz, hb, assert_true, ok_bind]; rfl,
        by simp [hsz], ?_, ?_⟩
      · rw [ofTuples_of_sorted hk]
        refine ⟨hk, ?_⟩
        intro kv hkv
        have hm := (List.mem_filter.1 hkv).1
        rcases h3 kv hm with h | ⟨iv, hiv, e⟩
        · simp at h
        · show kv.1 < 2 ^ s.numVars
          rw [← e]
          rcases List.mem_append.1 hiv with h | h
          · exact hs.2 iv h
          · rw [hn]; exact hr.2 iv h
      · intro i
        show val (ofTuples _) i = _
        rw [ofTuples_of_sorted hk, val_filter_nonzero h1, h2 i, List.map_append, List.sum_append,
          sum_key_eq hs.1, sum_key_eq hr.1]
        simp [index_eq_val, val, get?]

omit [CommRing F] in
theorem add_panic [Add F] [Zero F] (s r : Sparse F) (hn : s.numVars ≠ r.numVars) (hsz : s.isZero = false)
    (hrz : r.isZero = false) : add s r = .panic := by
  unfold add
  have : (r.numVars == s.numVars) = false := by simp; exact fun e => hn e.symm
  simp [hsz, hrz, this]

omit [DecidableEq F] in
theorem neg_spec (s : Sparse F) (hs : WF s) :
    (neg s).numVars = s.numVars ∧ WF (neg s) ∧ ∀ i, (neg s).index i = - s.index i := by
  unfold neg
  rw [ofTuples_mapVals (fun x => -x) hs.1]
  refine ⟨rfl, ⟨sorted_mapVals _ hs.1, ?_⟩, ?_⟩
  · intro kv hkv
    obtain ⟨iv, hiv, e⟩ := List.mem_map.1 hkv
    subst e; exact hs.2 iv hiv
  · intro i
    exact val_mapVals (fun x => -x) neg_zero hs.1 i

theorem isZero_neg (s : Sparse F) (hs : WF s) : (neg s).isZero = s.isZero := by
  obtain ⟨hn, hw, hi⟩ := neg_spec s hs
  rw [Bool.eq_iff_iff, isZero_iff hw, isZero_iff hs, hn, hi 0, neg_eq_zero]

theorem sub_spec (s r : Sparse F) (hs : WF s) (hr : WF r)
    (h : s.numVars = r.numVars ∨ s.isZero = true ∨ r.isZero = true) :
    ∃ t, sub s r = .ok t ∧ t.numVars = (if s.isZero then r.numVars else s.numVars) ∧ WF t ∧
      ∀ i, t.index i = s.index i - r.index i := by
  obtain ⟨hn, hw, hi⟩ := neg_spec r hr
  obtain ⟨t, e, h1, h2, h3⟩ := add_spec s (neg r) hs hw (by rw [hn, isZero_neg r hr]; exact h)
  refine ⟨t, e, by rw [h1, hn], h2, ?_⟩
  intro i; rw [h3 i, hi i, sub_eq_add_neg]

theorem sub_panic (s r : Sparse F) (hr : WF r) (hn : s.numVars ≠ r.numVars) (hsz : s.isZero = false)
    (hrz : r.isZero = false) : sub s r = .panic := by
  unfold sub
  apply add_panic _ _ _ hsz
  · rw [isZero_neg r hr]; exact hrz
  · rw [(neg_spec r hr).1]; exact hn

omit [DecidableEq F] in
/-- the scaled copy used by `addScaled` -/
theorem scaled_spec (f : F) (o : Sparse F) (ho : WF o) :
    WF (⟨o.numVars, ofTuples (o.evals.map (fun iv => (iv.1, f * iv.2)))⟩ : Sparse F) ∧
    ∀ i, (⟨o.numVars, ofTuples (o.evals.map (fun iv => (iv.1, f * iv.2)))⟩ : Sparse F).index i =
      f * o.index i := by
  rw [ofTuples_mapVals (fun x => f * x) ho.1]
  refine ⟨⟨sorted_mapVals _ ho.1, ?_⟩, ?_⟩
  · intro kv hkv
    obtain ⟨iv, hiv, e⟩ := List.mem_map.1 hkv
    subst e; exact ho.2 iv hiv
  · intro i
    exact val_mapVals (fun x => f * x) (mul_zero f) ho.1 i

theorem addScaled_spec (s : Sparse F) (f : F) (o : Sparse F) (hs : WF s) (ho : WF o)
    (h : s.numVars = o.numVars ∨ s.isZero = true ∨ o.isZero = true) :
    ∃ t, addScaled s f o = .ok t ∧ t.numVars = (if s.isZero then o.numVars else s.numVars) ∧ WF t ∧
      ∀ i, t.index i = s.index i + f * o.index i := by
  obtain ⟨hw, hi⟩ := scaled_spec f o ho
  have hz : o.isZero = true →
      (⟨o.numVars, ofTuples (o.evals.map (fun iv => (iv.1, f * iv.2)))⟩ : Sparse F).isZero = true := by
    intro hz
    rw [isZero_iff hw, hi 0]
    rw [isZero_iff ho] at hz
    exact ⟨hz.1, by rw [hz.2, mul_zero]⟩
  obtain ⟨t, e, h1, h2, h3⟩ := add_spec s _ hs hw (by
    rcases h with h | h | h
    · exact Or.inl h
    · exact Or.inr (Or.inl h)
    · exact Or.inr (Or.inr (hz h)))
  refine ⟨t, ?_, h1, h2, ?_⟩
  · unfold addScaled
    by_cases hc : (!s.isZero && !o.isZero) = true
    · have hn : s.numVars = o.numVars := by
        simp only [Bool.and_eq_true, Bool.not_eq_true'] at hc
        rcases h with h | h | h
        · exact h
        · rw [hc.1] at h; cases h
        · rw [hc.2] at h; cases h
      have hb : (o.numVars == s.numVars) = true := by simp [hn]
      simp only [hc, if_true, hb, assert_true, ok_bind]
      exact e
    · simp only [hc]
      exact e
  · intro i; rw [h3 i, hi i]

theorem addScaled_panic (s : Sparse F) (f : F) (o : Sparse F) (hn : s.numVars ≠ o.numVars)
    (hsz : s.isZero = false) (hoz : o.isZero = false) : addScaled s f o = .panic := by
  unfold addScaled
  have : (o.numVars == s.numVars) = false := by simp; exact fun e => hn e.symm
  simp [hsz, hoz, this]

end Arith
end Sparse

/-! ## `swapBits` (private copies of the facts needed for the sparse `relabel`) -/

theorem testBit_swapBits (x a b n q : Nat) (h : a + n ≤ b) :
    (swapBits x a b n).testBit q =
      if a ≤ q ∧ q < a + n then x.testBit (q - a + b)
      else if b ≤ q ∧ q < b + n then x.testBit (q - b + a)
      else x.testBit q := by
  unfold swapBits
  simp only [Nat.one_shiftLeft, Nat.testBit_xor, Nat.testBit_or, Nat.testBit_shiftLeft,
    Nat.testBit_and, Nat.testBit_shiftRight, Nat.testBit_two_pow_sub_one]
  by_cases h1 : a ≤ q
  · by_cases h2 : q < a + n
    · have e1 : a + (q - a) = q := by omega
      have e2 : b + (q - a) = q - a + b := by omega
      have e3 : q - a < n := by omega
      have e4 : ¬ (q ≥ b) := by omega
      simp [h1, h2, e1, e2, e3, e4]
    · by_cases h3 : b ≤ q
      · by_cases h4 : q < b + n
        · have e1 : b + (q - b) = q := by omega
          have e2 : a + (q - b) = q - b + a := by omega
          have e3 : q - b < n := by omega
          have e5 : ¬ (q - a < n) := by omega
          have e6 : ¬ (q < a + n) := by omega
          simp [h1, h3, h4, e1, e2, e3, e5, e6]
          generalize x.testBit q = u
          generalize x.testBit (q - b + a) = w
          cases u <;> cases w <;> rfl
        · have e3 : ¬ (q - b < n) := by omega
          have e5 : ¬ (q - a < n) := by omega
          simp [h1, h2, h3, h4, e3, e5]
      · have e5 : ¬ (q - a < n) := by omega
        simp [h1, h2, h3, e5]
  · have e4 : ¬ (q ≥ b) := by omega
    simp [h1, e4]

/-- with disjoint windows, `swapBits` is an involution -/
theorem swapBits_swapBits (x a b n : Nat) (h : a + n ≤ b) :
    swapBits (swapBits x a b n) a b n = x := by
  apply Nat.eq_of_testBit_eq
  intro q
  rw [testBit_swapBits _ _ _ _ _ h]
  by_cases h1 : a ≤ q ∧ q < a + n
  · rw [if_pos h1, testBit_swapBits _ _ _ _ _ h, if_neg (by omega), if_pos (by omega)]
    congr 1; omega
  · rw [if_neg h1]
    by_cases h2 : b ≤ q ∧ q < b + n
    · rw [if_pos h2, testBit_swapBits _ _ _ _ _ h, if_pos (by omega)]
      congr 1; omega
    · rw [if_neg h2, testBit_swapBits _ _ _ _ _ h, if_neg h1, if_neg h2]

theorem swapBits_lt (x a b n nv : Nat) (h : a + n ≤ b) (hb : b + n ≤ nv) (hx : x < 2 ^ nv) :
    swapBits x a b n < 2 ^ nv := by
  apply Nat.lt_pow_two_of_testBit
  intro q hq
  have hf : ∀ j, nv ≤ j → x.testBit j = false := by
    intro j hj
    apply Nat.testBit_lt_two_pow
    exact lt_of_lt_of_le hx (Nat.pow_le_pow_right (by decide) hj)
  rw [testBit_swapBits _ _ _ _ _ h, if_neg (by omega), if_neg (by omega)]
  exact hf q hq

/-! ## `Sparse.relabel` -/

namespace Sparse
section Relabel
variable {F : Type} [CommRing F]
open TreeMap

omit [CommRing F] in
theorem lookup_of_mem_nodupKeys {l : List (Nat × F)} (hn : (l.map Prod.fst).Nodup) {k : Nat} {v : F}
    (h : (k, v) ∈ l) : l.lookup k = some v := by
  induction l with
  | nil => simp at h
  | cons a l ih =>
    obtain ⟨k', v'⟩ := a
    simp only [List.map_cons, List.nodup_cons] at hn
    rw [List.lookup_cons]
    rcases List.mem_cons.1 h with e | e
    · cases e; simp
    · have : k ≠ k' := by
        intro e'; subst e'
        exact hn.1 (List.mem_map.2 ⟨(k, v), e, rfl⟩)
      have hb : (k == k') = false := by simp [this]
      rw [hb]
      exact ih hn.2 e

omit [CommRing F] in
/-- re-keying a sorted map by an involution -/
theorem get?_ofTuples_rekey (f : Nat → Nat) (hf : ∀ i, f (f i) = i) {m : TreeMap F} (hm : Sorted m)
    (j : Nat) :
    get? j (ofTuples (m.map (fun iv => (f iv.1, iv.2)))) = get? (f j) m := by
  rw [get?_ofTuples]
  have hinj : Function.Injective f := fun x y e => by rw [← hf x, ← hf y, e]
  have hnd : (((m.map (fun iv => (f iv.1, iv.2))).reverse).map Prod.fst).Nodup := by
    rw [List.map_reverse, List.nodup_reverse, List.map_map]
    have : (Prod.fst ∘ fun iv : Nat × F => (f iv.1, iv.2)) = f ∘ Prod.fst := rfl
    rw [this, ← List.map_map]
    apply List.Nodup.map hinj
    have hp : (m.map Prod.fst).Pairwise (· < ·) := by
      rw [List.pairwise_map]; exact hm
    exact hp.imp (fun h => Nat.ne_of_lt h)
  cases h : get? (f j) m with
  | some v =>
    have hmem := (get?_eq_some_iff hm).1 h
    apply lookup_of_mem_nodupKeys hnd
    rw [List.mem_reverse, List.mem_map]
    exact ⟨(f j, v), hmem, by simp [hf]⟩
  | none =>
    rw [List.lookup_eq_none_iff]
    intro p hp
    rw [List.mem_reverse, List.mem_map] at hp
    obtain ⟨iv, hiv, e⟩ := hp
    subst e
    simp only [bne_iff_ne, ne_eq]
    intro e
    have := (get?_eq_none_iff hm).1 h iv hiv
    apply this
    rw [e, hf]

omit [CommRing F] in
theorem relabel_unfold (s : Sparse F) (a b k : Nat) :
    relabel s a b k =
      if (min a b == max a b || k == 0) = true then .ok s
      else (do
        assert (decide (min a b + k ≤ s.numVars) && decide (max a b + k ≤ s.numVars))
        assert (decide (min a b + k ≤ max a b))
        pure ⟨s.numVars,
          ofTuples (s.evals.map (fun iv => (swapBits iv.1 (min a b) (max a b) k, iv.2)))⟩) := by
  unfold relabel
  by_cases h : a > b
  · have e1 : min a b = b := by omega
    have e2 : max a b = a := by omega
    simp only [h, if_true, e1, e2]
  · have e1 : min a b = a := by omega
    have e2 : max a b = b := by omega
    simp only [h, if_false, e1, e2]

omit [CommRing F] in
theorem relabel_noop (s : Sparse F) (a b k : Nat) (h : a = b ∨ k = 0) : relabel s a b k = .ok s := by
  rw [relabel_unfold]
  have : (min a b == max a b || k == 0) = true := by
    rcases h with h | h
    · subst h; simp
    · subst h; simp
  rw [if_pos this]

omit [CommRing F] in
theorem relabel_panic (s : Sparse F) (a b k : Nat) (hne : a ≠ b) (hk : k ≠ 0)
    (h : ¬ (max a b + k ≤ s.numVars ∧ min a b + k ≤ max a b)) : relabel s a b k = .panic := by
  rw [relabel_unfold]
  have : (min a b == max a b || k == 0) = false := by
    simp only [Bool.or_eq_false_iff, beq_eq_false_iff_ne, ne_eq]
    exact ⟨by omega, hk⟩
  rw [this]
  simp only [Bool.false_eq_true, if_false]
  by_cases h1 : max a b + k ≤ s.numVars
  · have h2 : ¬ (min a b + k ≤ max a b) := fun h2 => h ⟨h1, h2⟩
    have h3 : min a b + k ≤ s.numVars := by omega
    simp [h1, h2, h3]
  · simp [h1]

theorem relabel_spec (s : Sparse F) (hs : WF s) (a b k : Nat) (hk : k ≠ 0)
    (h1 : max a b + k ≤ s.numVars) (h2 : min a b + k ≤ max a b) :
    ∃ s', relabel s a b k = .ok s' ∧ s'.numVars = s.numVars ∧ WF s' ∧
      ∀ i, s'.index i = s.index (swapBits i (min a b) (max a b) k) := by
  refine ⟨⟨s.numVars, ofTuples (s.evals.map (fun iv => (swapBits iv.1 (min a b) (max a b) k, iv.2)))⟩,
    ?_, rfl, ?_, ?_⟩
  · rw [relabel_unfold]
    have : (min a b == max a b || k == 0) = false := by
      simp only [Bool.or_eq_false_iff, beq_eq_false_iff_ne, ne_eq]
      exact ⟨by omega, hk⟩
    rw [this]
    have h3 : min a b + k ≤ s.numVars := by omega
    simp [h1, h2, h3]
  · apply wf_ofTuples
    intro kv hkv
    obtain ⟨iv, hiv, e⟩ := List.mem_map.1 hkv
    subst e
    exact swapBits_lt _ _ _ _ _ h2 h1 (hs.2 iv hiv)
  · intro i
    unfold index
    simp only
    rw [get?_ofTuples_rekey (fun i => swapBits i (min a b) (max a b) k)
      (fun i => swapBits_swapBits i _ _ _ h2) hs.1]

end Relabel
end Sparse

end Ark.Mle
