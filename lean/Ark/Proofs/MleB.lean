import Ark.Model.Mle
import Mathlib.Tactic.Ring
import Mathlib.Tactic.Linarith
import Mathlib.Algebra.BigOperators.Group.Finset.Basic
import Mathlib.Algebra.BigOperators.Ring.Finset
import Mathlib.Algebra.BigOperators.Intervals
/-
  Ark.Proofs.MleB — helper lemmas for property C17 (part B): the SPARSE multilinear extension of
  `Ark.Model.Mle` (`TreeMap`, `Sparse.*`) and the dense ↔ sparse agreement.
-/
namespace Ark.Mle
open Ark

/-! ## `Outcome` monad plumbing -/

@[simp] theorem ok_bind {α β} (a : α) (f : α → Outcome β) : (Outcome.ok a >>= f) = f a := rfl
@[simp] theorem panic_bind {α β} (f : α → Outcome β) : (Outcome.panic >>= f) = .panic := rfl
@[simp] theorem pure_eq_ok {α} (a : α) : (pure a : Outcome α) = .ok a := rfl
@[simp] theorem assert_true : assert true = .ok () := rfl
@[simp] theorem assert_false : assert false = .panic := rfl

theorem assert_eq_ok {c : Bool} : assert c = .ok () ↔ c = true := by
  cases c <;> simp

/-! ## TreeMap: sortedness, lookup laws -/

namespace TreeMap
variable {F : Type}

/-- strictly key-sorted association list (the `BTreeMap` invariant) -/
def Sorted (m : TreeMap F) : Prop := m.Pairwise (fun a b => a.1 < b.1)

/-- stored value at key `i`, or `0` -/
def val [Zero F] (m : TreeMap F) (i : Nat) : F :=
  match get? i m with
  | some v => v
  | none => 0

theorem sorted_nil : Sorted ([] : TreeMap F) := List.Pairwise.nil

theorem Sorted.tail {a : Nat × F} {m : TreeMap F} (h : Sorted (a :: m)) : Sorted m :=
  (List.pairwise_cons.1 h).2

theorem Sorted.head_lt {a : Nat × F} {m : TreeMap F} (h : Sorted (a :: m)) :
    ∀ b ∈ m, a.1 < b.1 := (List.pairwise_cons.1 h).1

/-- keys smaller than every key are absent -/
theorem get?_eq_none_of_lt {k : Nat} {m : TreeMap F} (h : ∀ b ∈ m, k < b.1) : get? k m = none := by
  cases m with
  | nil => rfl
  | cons a m =>
    obtain ⟨k', v'⟩ := a
    have := h (k', v') (List.mem_cons_self)
    simp only [get?]
    rw [if_neg (by simp at this; omega), if_pos (by simpa using this)]

theorem get?_cons {k k' : Nat} {v' : F} {m : TreeMap F} (h : Sorted ((k', v') :: m)) :
    get? k ((k', v') :: m) = if k = k' then some v' else get? k m := by
  simp only [get?]
  by_cases h1 : k = k'
  · simp [h1]
  · simp only [h1, if_false]
    by_cases h2 : k < k'
    · rw [if_pos h2, get?_eq_none_of_lt]
      intro b hb
      have := h.head_lt b hb
      simp at this; omega
    · rw [if_neg h2]

/-- on a sorted map, `get?` is membership -/
theorem get?_eq_some_iff {k : Nat} {v : F} {m : TreeMap F} (h : Sorted m) :
    get? k m = some v ↔ (k, v) ∈ m := by
  induction m with
  | nil => simp [get?]
  | cons a m ih =>
    obtain ⟨k', v'⟩ := a
    rw [get?_cons h, List.mem_cons]
    by_cases h1 : k = k'
    · subst h1
      simp only [if_true, Option.some.injEq, Prod.mk.injEq, true_and]
      constructor
      · intro e; exact Or.inl e.symm
      · rintro (e | e)
        · exact e.symm
        · have := h.head_lt _ e; simp at this
    · simp only [h1, if_false, Prod.mk.injEq, false_and, false_or]
      exact ih h.tail

theorem get?_eq_none_iff {k : Nat} {m : TreeMap F} (h : Sorted m) :
    get? k m = none ↔ ∀ b ∈ m, b.1 ≠ k := by
  induction m with
  | nil => simp [get?]
  | cons a m ih =>
    obtain ⟨k', v'⟩ := a
    rw [get?_cons h]
    by_cases h1 : k = k'
    · subst h1; simp
    · simp only [h1, if_false, List.mem_cons, forall_eq_or_imp, ne_eq]
      rw [ih h.tail]
      constructor
      · intro hh; exact ⟨fun e => h1 e.symm, hh⟩
      · intro hh; exact hh.2

theorem get?_isSome_iff {k : Nat} {m : TreeMap F} (h : Sorted m) :
    (get? k m).isSome ↔ ∃ b ∈ m, b.1 = k := by
  rw [← not_iff_not, Bool.not_eq_true, Option.isSome_eq_false_iff, Option.isNone_iff_eq_none,
    get?_eq_none_iff h]
  push_neg; rfl

/-- keys of `insert` -/
theorem mem_insert {k : Nat} {v : F} {m : TreeMap F} {b : Nat × F} (hb : b ∈ insert k v m) :
    b = (k, v) ∨ b ∈ m := by
  induction m with
  | nil => simp [insert] at hb; exact Or.inl hb
  | cons a m ih =>
    obtain ⟨k', v'⟩ := a
    simp only [insert] at hb
    split at hb
    · simpa using hb
    · split at hb
      · rcases List.mem_cons.1 hb with e | e
        · exact Or.inl e
        · exact Or.inr (List.mem_cons_of_mem _ e)
      · rcases List.mem_cons.1 hb with e | e
        · exact Or.inr (e ▸ List.mem_cons_self)
        · rcases ih e with e | e
          · exact Or.inl e
          · exact Or.inr (List.mem_cons_of_mem _ e)

theorem sorted_insert {k : Nat} {v : F} {m : TreeMap F} (h : Sorted m) : Sorted (insert k v m) := by
  induction m with
  | nil => simp [insert, Sorted]
  | cons a m ih =>
    obtain ⟨k', v'⟩ := a
    simp only [insert]
    split
    · rename_i h1
      refine List.pairwise_cons.2 ⟨?_, h⟩
      intro b hb
      rcases List.mem_cons.1 hb with e | e
      · subst e; exact h1
      · exact lt_trans h1 (h.head_lt b e)
    · split
      · rename_i h1 h2
        subst h2
        exact List.pairwise_cons.2 ⟨h.head_lt, h.tail⟩
      · rename_i h1 h2
        refine List.pairwise_cons.2 ⟨?_, ih h.tail⟩
        intro b hb
        rcases mem_insert hb with e | e
        · subst e; show k' < k; omega
        · exact h.head_lt b e

theorem get?_insert {k k' : Nat} {v : F} {m : TreeMap F} (h : Sorted m) :
    get? k (insert k' v m) = if k = k' then some v else get? k m := by
  induction m with
  | nil =>
    simp only [insert, get?]
    by_cases h1 : k = k' <;> simp [h1]
  | cons a m ih =>
    obtain ⟨k2, v2⟩ := a
    simp only [insert]
    split
    · rename_i h1
      have hs : Sorted ((k', v) :: (k2, v2) :: m) := by
        have := sorted_insert (k := k') (v := v) h
        simpa [insert, h1] using this
      rw [get?_cons hs]
    · split
      · rename_i h1 h2
        subst h2
        have hs : Sorted ((k', v) :: m) := List.pairwise_cons.2 ⟨h.head_lt, h.tail⟩
        rw [get?_cons hs, get?_cons h]
        by_cases h3 : k = k' <;> simp [h3]
      · rename_i h1 h2
        have hs : Sorted ((k2, v2) :: insert k' v m) := by
          have := sorted_insert (k := k') (v := v) h
          simpa [insert, h1, h2] using this
        rw [get?_cons hs, get?_cons h, ih h.tail]
        by_cases h3 : k = k2
        · have : k ≠ k' := by omega
          simp [h3, this]
          intro e; omega
        · simp [h3]

theorem sorted_accumulate [Add F] [Zero F] {k : Nat} {x : F} {m : TreeMap F} (h : Sorted m) :
    Sorted (accumulate m k x) := by
  unfold accumulate
  split <;> exact sorted_insert h

theorem get?_accumulate [Add F] [Zero F] {k k' : Nat} {x : F} {m : TreeMap F} (h : Sorted m) :
    get? k (accumulate m k' x) =
      if k = k' then some ((match get? k' m with | some y => y | none => 0) + x) else get? k m := by
  unfold accumulate
  split <;> rename_i e <;> rw [get?_insert h, e]

theorem mem_accumulate [Add F] [Zero F] {k : Nat} {x : F} {m : TreeMap F} {b : Nat × F}
    (hb : b ∈ accumulate m k x) : b.1 = k ∨ b ∈ m := by
  unfold accumulate at hb
  split at hb <;> rcases mem_insert hb with e | e
  · exact Or.inl (by rw [e])
  · exact Or.inr e
  · exact Or.inl (by rw [e])
  · exact Or.inr e

theorem val_accumulate [AddMonoid F] {k k' : Nat} {x : F} {m : TreeMap F} (h : Sorted m) :
    val (accumulate m k' x) k = if k = k' then val m k' + x else val m k := by
  unfold val
  rw [get?_accumulate h]
  by_cases h1 : k = k' <;> simp [h1]

/-! ### `ofTuples` -/

theorem ofTuples_append_singleton (l : List (Nat × F)) (kv : Nat × F) :
    ofTuples (l ++ [kv]) = insert kv.1 kv.2 (ofTuples l) := by
  simp [ofTuples, List.foldl_append]

theorem sorted_ofTuples (l : List (Nat × F)) : Sorted (ofTuples l) := by
  induction l using List.reverseRecOn with
  | nil => exact sorted_nil
  | append_singleton l kv ih => rw [ofTuples_append_singleton]; exact sorted_insert ih

/-- `get? k (ofTuples l)` is the last pair of `l` with key `k` -/
theorem get?_ofTuples (l : List (Nat × F)) (k : Nat) :
    get? k (ofTuples l) = l.reverse.lookup k := by
  induction l using List.reverseRecOn with
  | nil => rfl
  | append_singleton l kv ih =>
    obtain ⟨k', v⟩ := kv
    rw [ofTuples_append_singleton, get?_insert (sorted_ofTuples l), ih, List.reverse_append]
    simp only [List.reverse_cons, List.reverse_nil, List.nil_append, List.singleton_append,
      List.lookup_cons]
    by_cases h1 : k = k' <;> simp [h1]

theorem mem_ofTuples {l : List (Nat × F)} {b : Nat × F} (hb : b ∈ ofTuples l) : b ∈ l := by
  induction l using List.reverseRecOn with
  | nil => simp [ofTuples] at hb
  | append_singleton l kv ih =>
    rw [ofTuples_append_singleton] at hb
    rcases mem_insert hb with e | e
    · simp [e]
    · exact List.mem_append_left _ (ih e)

/-- a key-sorted list is a fixed point of `ofTuples` -/
theorem insert_last {k : Nat} {v : F} {m : TreeMap F} (h : ∀ b ∈ m, b.1 < k) :
    insert k v m = m ++ [(k, v)] := by
  induction m with
  | nil => rfl
  | cons a m ih =>
    obtain ⟨k', v'⟩ := a
    have h1 : k' < k := h (k', v') List.mem_cons_self
    simp only [insert]
    rw [if_neg (by omega), if_neg (by omega), ih (fun b hb => h b (List.mem_cons_of_mem _ hb))]
    rfl

theorem ofTuples_of_sorted {m : TreeMap F} (h : Sorted m) : ofTuples m = m := by
  induction m using List.reverseRecOn with
  | nil => rfl
  | append_singleton l kv ih =>
    have h' : Sorted l := (List.pairwise_append.1 h).1
    rw [ofTuples_append_singleton, ih h', insert_last]
    intro b hb
    exact (List.pairwise_append.1 h).2.2 b hb kv (by simp)

/-- two sorted maps with the same lookups are equal -/
theorem ext_of_sorted {m₁ m₂ : TreeMap F} (h₁ : Sorted m₁) (h₂ : Sorted m₂)
    (h : ∀ k, get? k m₁ = get? k m₂) : m₁ = m₂ := by
  induction m₁ generalizing m₂ with
  | nil =>
    cases m₂ with
    | nil => rfl
    | cons b m₂ =>
      obtain ⟨k, v⟩ := b
      have := h k
      rw [get?_cons h₂] at this
      simp [get?] at this
  | cons a m₁ ih =>
    obtain ⟨k, v⟩ := a
    cases m₂ with
    | nil =>
      have := h k
      rw [get?_cons h₁] at this
      simp [get?] at this
    | cons b m₂ =>
      obtain ⟨k', v'⟩ := b
      have hk : k = k' := by
        have e1 := h k
        have e2 := h k'
        rw [get?_cons h₁, get?_cons h₂] at e1 e2
        simp only [if_true] at e1 e2
        by_contra hne
        rw [if_neg hne] at e1
        rw [if_neg (fun e => hne e.symm)] at e2
        have m1 : (k, v) ∈ m₂ := (get?_eq_some_iff h₂.tail).1 e1.symm
        have m2 : (k', v') ∈ m₁ := (get?_eq_some_iff h₁.tail).1 e2
        have := h₂.head_lt _ m1
        have := h₁.head_lt _ m2
        simp at *; omega
      subst hk
      have hv : v = v' := by
        have e1 := h k
        rw [get?_cons h₁, get?_cons h₂] at e1
        simpa using e1
      subst hv
      congr 1
      apply ih h₁.tail h₂.tail
      intro j
      have e := h j
      rw [get?_cons h₁, get?_cons h₂] at e
      by_cases hj : j = k
      · subst hj
        rw [get?_eq_none_of_lt (fun b hb => h₁.head_lt b hb),
          get?_eq_none_of_lt (fun b hb => h₂.head_lt b hb)]
      · simpa [hj] using e

end TreeMap

end Ark.Mle
