import Ark.Proofs.MontA
import Mathlib.Data.Nat.GCD.Basic
import Mathlib.Data.Nat.ModEq
import Mathlib.Data.Nat.Prime.Basic
/-
  Helper lemmas for C01 part D: the binary extended Euclidean inversion of
  `Ark.Model.Mont` (`halveMod`, `evenLoop`, `isOne`, `inverseLoop`, `inverse`),
  for every limb count, with and without spare bit.
-/
namespace Ark.Mont
open Ark

/-! ### small facts -/

theorem B_pow_even {n : Nat} (hn : 0 < n) : B ^ n % 2 = 0 := by
  cases n with
  | zero => omega
  | succ k => rw [Nat.pow_succ, B_eq, Nat.mul_mod]; simp

/-- the `is_even` test on the low limb is the parity of the value -/
theorem even_test (u : List Nat) (hu : WF u) :
    (u.headD 0 % 2 == 0) = decide (value u % 2 = 0) := by
  rw [headD_eq u hu]
  have h2 : value u % B % 2 = value u % 2 :=
    Nat.mod_mod_of_dvd _ ⟨2 ^ 63, by rw [B_eq]; norm_num⟩
  rw [h2]
  by_cases h : value u % 2 = 0 <;> simp [h]

/-- `a - b` on limbs when `b ≤ a` -/
theorem subB_exact {c : MontCfg} (a b : List Nat) (ha : Limbs c a) (hb : Limbs c b)
    (hle : value b ≤ value a) :
    Limbs c (subB a b 0).1 ∧ value (subB a b 0).1 = value a - value b := by
  have hlen : a.length = b.length := by rw [ha.len, hb.len]
  have hs := subB_spec a b 0 hlen ha.wf hb.wf (by omega)
  have hb2 := subB_borrow_le a b 0 (by omega)
  have hwf := subB_wf a b 0
  have hl2 : (subB a b 0).1.length = c.n := by rw [subB_length _ _ _ hlen, ha.len]
  have hrl : value (subB a b 0).1 < B ^ c.n := value_lt' hwf hl2
  have hal := ha.lt
  rw [ha.len, Nat.add_zero] at hs
  generalize subB a b 0 = r at *
  have hbb : B ^ c.n * r.2 = 0 ∨ B ^ c.n * r.2 = B ^ c.n := by
    rcases Nat.le_one_iff_eq_zero_or_eq_one.mp hb2 with h0 | h1
    · left; rw [h0]; rfl
    · right; rw [h1]; omega
  generalize B ^ c.n * r.2 = br at *
  generalize B ^ c.n = P at *
  exact ⟨⟨hl2, hwf⟩, by omega⟩

theorem div2_limbs {c : MontCfg} (u : List Nat) (hu : Limbs c u) : Limbs c (div2 u) :=
  ⟨by rw [div2_length, hu.len], div2_wf u hu.wf⟩

theorem zeros_elem {c : MontCfg} {pv : Nat} (h : CfgOK c pv) : Elem c pv (zeros c.n) ∧
    value (zeros c.n) = 0 := by
  have hv : value (zeros c.n) = 0 := value_replicate_zero c.n
  refine ⟨⟨by simp [zeros], WF_replicate_zero c.n, ?_⟩, hv⟩
  rw [hv]; have := h.p_gt; omega

theorem two_coprime {pv : Nat} (hodd : pv % 2 = 1) : Nat.gcd pv 2 = 1 := by
  have h := Nat.gcd_rec 2 pv
  rw [Nat.gcd_comm, h, hodd]; rfl

/-! ### halveMod: multiplication by `2⁻¹ mod p` -/

theorem halveMod_spec {c : MontCfg} {pv : Nat} (h : CfgOK c pv) (b : List Nat)
    (hb : Elem c pv b) :
    Elem c pv (halveMod c b) ∧ (2 * value (halveMod c b)) % pv = value b := by
  have hbl := hb.lt
  have hpo := h.p_odd
  have hpl := h.p_lt
  unfold halveMod
  rw [even_test b hb.wf]
  by_cases he : value b % 2 = 0
  · simp only [he, decide_true, if_true]
    refine ⟨⟨by rw [div2_length, hb.len], div2_wf _ hb.wf, by rw [div2_value]; omega⟩, ?_⟩
    rw [div2_value, Nat.mod_eq_of_lt (by omega)]; omega
  · simp only [he, decide_false, Bool.false_eq_true, if_false]
    have hlen1 : b.length = c.p.length := by rw [hb.len, h.p_len]
    have hs := addC_spec b c.p 0 hlen1
    have hc := addC_carry_le b c.p 0 hb.wf h.p_wf (by omega)
    have hL : Limbs c (addC b c.p 0).1 :=
      ⟨by rw [addC_length _ _ _ hlen1, hb.len], addC_wf b c.p 0⟩
    have hsl := hL.lt
    rw [hb.len, h.p_val, Nat.add_zero] at hs
    have hPe := B_pow_even h.n_pos
    generalize addC b c.p 0 = s at *
    have hdv := div2_value s.1
    have hdL := div2_limbs s.1 hL
    rcases Nat.le_one_iff_eq_zero_or_eq_one.mp hc with h0 | h1
    · have hcond : (!c.spare && s.2 != 0) = false := by rw [h0]; simp
      rw [hcond]
      simp only [Bool.false_eq_true, if_false]
      rw [h0, Nat.mul_zero, Nat.add_zero] at hs
      refine ⟨⟨hdL.len, hdL.wf, by omega⟩, ?_⟩
      have e : 2 * value (div2 s.1) = value b + pv * 1 := by omega
      rw [e, Nat.add_mul_mod_self_left, Nat.mod_eq_of_lt hbl]
    · rw [h1, Nat.mul_one] at hs
      have hns : c.spare = false := by
        cases hsp : c.spare with
        | false => rfl
        | true => have := h.spare_iff.mp hsp; omega
      have hcond : (!c.spare && s.2 != 0) = true := by rw [hns, h1]; rfl
      rw [hcond]
      simp only [if_true]
      have hd2 : 2 * value (div2 s.1) < B ^ (div2 s.1).length := by
        rw [hdL.len]; omega
      obtain ⟨o1, o2, o3⟩ := orTop_spec (div2 s.1) hdL.wf hd2
      rw [hdL.len] at o1 o3
      refine ⟨⟨o3, o2, by omega⟩, ?_⟩
      have e : 2 * value (orTop (div2 s.1)) = value b + pv * 1 := by omega
      rw [e, Nat.add_mul_mod_self_left, Nat.mod_eq_of_lt hbl]

/-! ### the inner `while u.is_even()` loop -/

theorem evenLoop_succ (c : MontCfg) (fuel : Nat) (u b : List Nat) :
    evenLoop c (fuel + 1) u b =
      if u.headD 0 % 2 == 0 then evenLoop c fuel (div2 u) (halveMod c b) else (u, b) := rfl

/-- what the even loop does to `u` (independent of the cofactor `b`): the result divides `u`;
    if `0 < u < 2^fuel` the loop really exits with an odd value, and an even `u` is at least halved -/
theorem evenLoop_fst (c : MontCfg) :
    ∀ (fuel : Nat) (u b : List Nat), Limbs c u →
      Limbs c (evenLoop c fuel u b).1 ∧
      value (evenLoop c fuel u b).1 ∣ value u ∧
      (0 < value u → value u < 2 ^ fuel →
        value (evenLoop c fuel u b).1 % 2 = 1 ∧
        (value u % 2 = 0 → 2 * value (evenLoop c fuel u b).1 ≤ value u)) := by
  intro fuel
  induction fuel with
  | zero =>
    intro u b hu
    refine ⟨hu, Nat.dvd_refl _, ?_⟩
    intro h0 h1
    simp at h1; omega
  | succ f ih =>
    intro u b hu
    rw [evenLoop_succ, even_test u hu.wf]
    by_cases he : value u % 2 = 0
    · simp only [he, decide_true, if_true]
      obtain ⟨i1, i2, i3⟩ := ih (div2 u) (halveMod c b) (div2_limbs u hu)
      rw [div2_value] at i2 i3
      refine ⟨i1, Nat.dvd_trans i2 (Nat.div_dvd_of_dvd (by omega)), ?_⟩
      intro h0 h1
      have h2 : value u / 2 < 2 ^ f := by rw [Nat.pow_succ] at h1; omega
      obtain ⟨j1, _⟩ := i3 (by omega) h2
      refine ⟨j1, fun _ => ?_⟩
      have hle := Nat.le_of_dvd (by omega) i2
      omega
    · simp only [he, decide_false, Bool.false_eq_true, if_false]
      refine ⟨hu, Nat.dvd_refl _, ?_⟩
      intro _ _
      exact ⟨by omega, fun h => h.elim⟩

/-- what the even loop does to the cofactor: a congruence `b·X ≡ u·Y (mod p)` is preserved
    (2 is invertible modulo the odd `p`) -/
theorem evenLoop_snd {c : MontCfg} {pv : Nat} (h : CfgOK c pv) (X Y : Nat) :
    ∀ (fuel : Nat) (u b : List Nat), Limbs c u → Elem c pv b →
      value b * X ≡ value u * Y [MOD pv] →
      Elem c pv (evenLoop c fuel u b).2 ∧
      value (evenLoop c fuel u b).2 * X ≡ value (evenLoop c fuel u b).1 * Y [MOD pv] := by
  intro fuel
  induction fuel with
  | zero => intro u b _ hb hcg; exact ⟨hb, hcg⟩
  | succ f ih =>
    intro u b hu hb hcg
    rw [evenLoop_succ, even_test u hu.wf]
    by_cases he : value u % 2 = 0
    · simp only [he, decide_true, if_true]
      obtain ⟨k1, k2⟩ := halveMod_spec h b hb
      apply ih (div2 u) (halveMod c b) (div2_limbs u hu) k1
      rw [div2_value]
      apply Nat.ModEq.cancel_left_of_coprime (c := 2) (two_coprime h.p_odd)
      have e1 : 2 * (value u / 2 * Y) = value u * Y := by
        rw [← Nat.mul_assoc]; congr 1; omega
      rw [e1, ← Nat.mul_assoc]
      have e2 : 2 * value (halveMod c b) ≡ value b [MOD pv] := by
        unfold Nat.ModEq; rw [k2, Nat.mod_eq_of_lt hb.lt]
      exact (e2.mul_right X).trans hcg
    · simp only [he, decide_false, Bool.false_eq_true, if_false]
      exact ⟨hb, hcg⟩

/-! ### isOne, comparison test -/

theorem isOne_iff (a : List Nat) (ha : WF a) : isOne a = true ↔ value a = 1 := by
  have hB : 2 ≤ B := by rw [B_eq]; omega
  cases a with
  | nil => simp [isOne, value]
  | cons x rest =>
    have ⟨hx, _⟩ := WF_cons.mp ha
    by_cases h1 : x = 1
    · subst h1
      have e : isOne (1 :: rest) = isZero rest := rfl
      rw [e, isZero_iff, value_cons]
      constructor
      · intro h; rw [h, Nat.mul_zero]
      · intro h
        have h2 : B * value rest = 0 := by omega
        rcases Nat.mul_eq_zero.mp h2 with h3 | h3
        · omega
        · exact h3
    · have e : isOne (x :: rest) = false := by
        unfold isOne
        split
        · rename_i heq; simp at heq; exact absurd heq.1 h1
        · rfl
      rw [e, value_cons]
      constructor
      · intro h; simp at h
      · intro h
        exfalso
        rcases Nat.eq_zero_or_pos (value rest) with h3 | h3
        · rw [h3] at h; omega
        · have : B * 1 ≤ B * value rest := Nat.mul_le_mul_left B h3
          omega

theorem cmp_lt_test (a b : List Nat) (h : a.length = b.length) (ha : WF a) (hb : WF b) :
    (cmp a b == .lt) = decide (value a < value b) := by
  rw [cmp_spec a b h ha hb]
  by_cases hlt : value a < value b
  · rw [Nat.compare_eq_lt.mpr hlt]; simp [hlt]
  · have hne : compare (value a) (value b) ≠ .lt := fun hc => hlt (Nat.compare_eq_lt.mp hc)
    simp [hne, hlt]

/-! ### the outer loop -/

theorem inverseLoop_zero (c : MontCfg) (u v b cc : List Nat) :
    inverseLoop c 0 u v b cc = none := rfl

theorem inverseLoop_succ (c : MontCfg) (fuel : Nat) (u v b cc : List Nat) :
    inverseLoop c (fuel + 1) u v b cc =
      if isOne u then some b
      else if isOne v then some cc
      else
        if cmp (evenLoop c (64 * c.n + 1) v cc).1 (evenLoop c (64 * c.n + 1) u b).1 == .lt then
          inverseLoop c fuel
            (subB (evenLoop c (64 * c.n + 1) u b).1 (evenLoop c (64 * c.n + 1) v cc).1 0).1
            (evenLoop c (64 * c.n + 1) v cc).1
            (sub c (evenLoop c (64 * c.n + 1) u b).2 (evenLoop c (64 * c.n + 1) v cc).2)
            (evenLoop c (64 * c.n + 1) v cc).2
        else
          inverseLoop c fuel
            (evenLoop c (64 * c.n + 1) u b).1
            (subB (evenLoop c (64 * c.n + 1) v cc).1 (evenLoop c (64 * c.n + 1) u b).1 0).1
            (evenLoop c (64 * c.n + 1) u b).2
            (sub c (evenLoop c (64 * c.n + 1) v cc).2 (evenLoop c (64 * c.n + 1) u b).2) := rfl

/-- the loop invariant (partial-correctness part): `u`, `v` are `N`-limb integers, the cofactors
    are field elements with `b·A ≡ u·Y` and `cc·A ≡ v·Y (mod p)` -/
structure LoopInv (c : MontCfg) (pv A Y : Nat) (u v b cc : List Nat) : Prop where
  hu : Limbs c u
  hv : Limbs c v
  hb : Elem c pv b
  hc : Elem c pv cc
  cb : value b * A ≡ value u * Y [MOD pv]
  cv : value cc * A ≡ value v * Y [MOD pv]

/-- the subtraction step `u ← u - v`, `b ← b - cc` preserves the congruence -/
theorem sub_step {c : MontCfg} {pv : Nat} (h : CfgOK c pv) (A Y : Nat) (u v b cc : List Nat)
    (hu : Limbs c u) (hv : Limbs c v) (hb : Elem c pv b) (hc : Elem c pv cc)
    (cb : value b * A ≡ value u * Y [MOD pv]) (cv : value cc * A ≡ value v * Y [MOD pv])
    (hle : value v ≤ value u) :
    Limbs c (subB u v 0).1 ∧ value (subB u v 0).1 = value u - value v ∧
    Elem c pv (sub c b cc) ∧ value (sub c b cc) * A ≡ value (subB u v 0).1 * Y [MOD pv] := by
  obtain ⟨s1, s2⟩ := subB_exact u v hu hv hle
  obtain ⟨t1, t2⟩ := sub_spec h b cc hb hc
  refine ⟨s1, s2, t1, ?_⟩
  have hcl := hc.lt
  have e1 : value (sub c b cc) + value cc ≡ value b [MOD pv] := by
    rw [t2]
    have e : (pv + value b - value cc) % pv + value cc ≡ (pv + value b - value cc) + value cc [MOD pv] :=
      (Nat.mod_modEq _ _).add_right _
    have e' : pv + value b - value cc + value cc = pv + value b := by omega
    rw [e'] at e
    refine e.trans ?_
    unfold Nat.ModEq
    rw [Nat.add_mod_left]
  have e2 : value (sub c b cc) * A + value cc * A ≡ value (subB u v 0).1 * Y + value v * Y [MOD pv] := by
    rw [← Nat.add_mul, ← Nat.add_mul, s2]
    have e3 : value u - value v + value v = value u := by omega
    rw [e3]
    exact (e1.mul_right A).trans cb
  exact Nat.ModEq.add_right_cancel cv e2

theorem limbs_lt_fuel {c : MontCfg} {u : List Nat} (hu : Limbs c u) :
    value u < 2 ^ (64 * c.n + 1) := by
  have h1 := hu.lt
  rw [B_pow_eq] at h1
  have h2 : 2 ^ (64 * c.n) < 2 ^ (64 * c.n + 1) := Nat.pow_lt_pow_right (by omega) (by omega)
  omega

/-- one outer round preserves the invariant, whichever way the comparison goes -/
theorem round_inv {c : MontCfg} {pv : Nat} (h : CfgOK c pv) (A Y : Nat) (u v b cc : List Nat)
    (I : LoopInv c pv A Y u v b cc) :
    (value (evenLoop c (64 * c.n + 1) v cc).1 < value (evenLoop c (64 * c.n + 1) u b).1 →
      LoopInv c pv A Y
        (subB (evenLoop c (64 * c.n + 1) u b).1 (evenLoop c (64 * c.n + 1) v cc).1 0).1
        (evenLoop c (64 * c.n + 1) v cc).1
        (sub c (evenLoop c (64 * c.n + 1) u b).2 (evenLoop c (64 * c.n + 1) v cc).2)
        (evenLoop c (64 * c.n + 1) v cc).2) ∧
    (¬ value (evenLoop c (64 * c.n + 1) v cc).1 < value (evenLoop c (64 * c.n + 1) u b).1 →
      LoopInv c pv A Y
        (evenLoop c (64 * c.n + 1) u b).1
        (subB (evenLoop c (64 * c.n + 1) v cc).1 (evenLoop c (64 * c.n + 1) u b).1 0).1
        (evenLoop c (64 * c.n + 1) u b).2
        (sub c (evenLoop c (64 * c.n + 1) v cc).2 (evenLoop c (64 * c.n + 1) u b).2)) := by
  obtain ⟨a1, _, _⟩ := evenLoop_fst c (64 * c.n + 1) u b I.hu
  obtain ⟨a2, a3⟩ := evenLoop_snd h A Y (64 * c.n + 1) u b I.hu I.hb I.cb
  obtain ⟨b1, _, _⟩ := evenLoop_fst c (64 * c.n + 1) v cc I.hv
  obtain ⟨b2, b3⟩ := evenLoop_snd h A Y (64 * c.n + 1) v cc I.hv I.hc I.cv
  generalize evenLoop c (64 * c.n + 1) u b = eu at *
  generalize evenLoop c (64 * c.n + 1) v cc = ev at *
  constructor
  · intro hlt
    obtain ⟨s1, _, s3, s4⟩ := sub_step h A Y eu.1 ev.1 eu.2 ev.2 a1 b1 a2 b2 a3 b3 (by omega)
    exact ⟨s1, b1, s3, b2, s4, b3⟩
  · intro hlt
    obtain ⟨s1, _, s3, s4⟩ := sub_step h A Y ev.1 eu.1 ev.2 eu.2 b1 a1 b2 a2 b3 a3 (by omega)
    exact ⟨a1, s1, a2, s3, a3, s4⟩

/-- partial correctness of the outer loop: whatever it returns is a field element `r`
    with `r·A ≡ Y (mod p)` -/
theorem inverseLoop_sound {c : MontCfg} {pv : Nat} (h : CfgOK c pv) (A Y : Nat) :
    ∀ (fuel : Nat) (u v b cc : List Nat), LoopInv c pv A Y u v b cc →
      ∀ r, inverseLoop c fuel u v b cc = some r →
        Elem c pv r ∧ value r * A ≡ Y [MOD pv] := by
  intro fuel
  induction fuel with
  | zero => intro u v b cc _ r hr; rw [inverseLoop_zero] at hr; exact absurd hr (by simp)
  | succ f ih =>
    intro u v b cc I r hr
    rw [inverseLoop_succ] at hr
    by_cases h1 : isOne u = true
    · rw [if_pos h1] at hr
      have e : b = r := by simpa using hr
      subst e
      have hv1 := (isOne_iff u I.hu.wf).mp h1
      have := I.cb
      rw [hv1, Nat.one_mul] at this
      exact ⟨I.hb, this⟩
    · rw [if_neg h1] at hr
      by_cases h2 : isOne v = true
      · rw [if_pos h2] at hr
        have e : cc = r := by simpa using hr
        subst e
        have hv1 := (isOne_iff v I.hv.wf).mp h2
        have := I.cv
        rw [hv1, Nat.one_mul] at this
        exact ⟨I.hc, this⟩
      · rw [if_neg h2] at hr
        obtain ⟨r1, r2⟩ := round_inv h A Y u v b cc I
        have a1 := (evenLoop_fst c (64 * c.n + 1) u b I.hu).1
        have b1 := (evenLoop_fst c (64 * c.n + 1) v cc I.hv).1
        rw [cmp_lt_test _ _ (by rw [a1.len, b1.len]) b1.wf a1.wf] at hr
        by_cases hlt : value (evenLoop c (64 * c.n + 1) v cc).1 <
            value (evenLoop c (64 * c.n + 1) u b).1
        · rw [if_pos (by simpa using hlt)] at hr
          exact ih _ _ _ _ (r1 hlt) r hr
        · rw [if_neg (by simpa using hlt)] at hr
          exact ih _ _ _ _ (r2 hlt) r hr

/-! ### termination: the product of the odd parts halves every round -/

/-- `x·y < 2^f` after removing one factor 2 when one of them is even -/
def Meas (f x y : Nat) : Prop :=
  ((x % 2 = 0 ∨ y % 2 = 0) ∧ x * y < 2 ^ (f + 1)) ∨ x * y < 2 ^ f

theorem not_one_ge_two {u v : List Nat} (hu : WF u) (hv : WF v) (h0 : 0 < value u)
    (hco : Nat.Coprime (value u) (value v)) (h1 : ¬ isOne u = true) (h2 : ¬ isOne v = true) :
    2 ≤ value u ∧ 2 ≤ value v := by
  have n1 : value u ≠ 1 := fun e => h1 ((isOne_iff u hu).mpr e)
  have n2 : value v ≠ 1 := fun e => h2 ((isOne_iff v hv).mpr e)
  have n3 : value v ≠ 0 := by
    intro e
    rw [e, Nat.Coprime, Nat.gcd_zero_right] at hco
    exact n1 hco
  omega

/-- total correctness, termination part: from a state with `0 < u`, `gcd(u,v) = 1` and
    `Meas f u v` the loop answers within `f + 1` rounds -/
theorem inverseLoop_total (c : MontCfg) :
    ∀ (f : Nat) (u v b cc : List Nat), Limbs c u → Limbs c v → 0 < value u →
      Nat.Coprime (value u) (value v) → Meas f (value u) (value v) →
      ∃ r, inverseLoop c (f + 1) u v b cc = some r := by
  intro f
  induction f with
  | zero =>
    intro u v b cc hu hv h0 hco hm
    rw [inverseLoop_succ]
    by_cases h1 : isOne u = true
    · rw [if_pos h1]; exact ⟨_, rfl⟩
    · rw [if_neg h1]
      by_cases h2 : isOne v = true
      · rw [if_pos h2]; exact ⟨_, rfl⟩
      · exfalso
        obtain ⟨g1, g2⟩ := not_one_ge_two hu.wf hv.wf h0 hco h1 h2
        have : 2 * 2 ≤ value u * value v := Nat.mul_le_mul g1 g2
        unfold Meas at hm
        simp only [Nat.zero_add, Nat.pow_one, Nat.pow_zero] at hm
        omega
  | succ f ih =>
    intro u v b cc hu hv h0 hco hm
    rw [inverseLoop_succ]
    by_cases h1 : isOne u = true
    · rw [if_pos h1]; exact ⟨_, rfl⟩
    · rw [if_neg h1]
      by_cases h2 : isOne v = true
      · rw [if_pos h2]; exact ⟨_, rfl⟩
      · rw [if_neg h2]
        obtain ⟨g1, g2⟩ := not_one_ge_two hu.wf hv.wf h0 hco h1 h2
        obtain ⟨a1, a2, a3⟩ := evenLoop_fst c (64 * c.n + 1) u b hu
        obtain ⟨b1, b2, b3⟩ := evenLoop_fst c (64 * c.n + 1) v cc hv
        obtain ⟨a4, a5⟩ := a3 (by omega) (limbs_lt_fuel hu)
        obtain ⟨b4, b5⟩ := b3 (by omega) (limbs_lt_fuel hv)
        rw [cmp_lt_test _ _ (by rw [a1.len, b1.len]) b1.wf a1.wf]
        generalize evenLoop c (64 * c.n + 1) u b = eu at *
        generalize evenLoop c (64 * c.n + 1) v cc = ev at *
        have hco1 : Nat.Coprime (value eu.1) (value ev.1) :=
          (hco.coprime_dvd_left a2).coprime_dvd_right b2
        have l1 : value eu.1 ≤ value u := Nat.le_of_dvd (by omega) a2
        have l2 : value ev.1 ≤ value v := Nat.le_of_dvd (by omega) b2
        -- the product of the odd parts
        have hprod : value eu.1 * value ev.1 < 2 ^ (f + 1) := by
          rcases hm with ⟨he, hlt⟩ | hlt
          · have e2 : 2 ^ (f + 1 + 1) = 2 * 2 ^ (f + 1) := by rw [Nat.pow_succ, Nat.mul_comm]
            rw [e2] at hlt
            rcases he with he | he
            · have := Nat.mul_le_mul (a5 he) l2
              rw [Nat.mul_assoc] at this
              omega
            · have := Nat.mul_le_mul l1 (b5 he)
              have e3 : value eu.1 * (2 * value ev.1) = 2 * (value eu.1 * value ev.1) := by
                rw [Nat.mul_left_comm]
              rw [e3] at this
              omega
          · have := Nat.mul_le_mul l1 l2
            omega
        by_cases hlt : value ev.1 < value eu.1
        · rw [if_pos (by simpa using hlt)]
          obtain ⟨s1, s2⟩ := subB_exact eu.1 ev.1 a1 b1 (by omega)
          apply ih _ _ _ _ s1 b1
          · rw [s2]; omega
          · rw [s2]; exact (Nat.coprime_sub_self_left (by omega)).mpr hco1
          · left
            rw [s2]
            refine ⟨Or.inl (by omega), ?_⟩
            have := Nat.mul_le_mul_right (value ev.1) (Nat.sub_le (value eu.1) (value ev.1))
            omega
        · rw [if_neg (by simpa using hlt)]
          obtain ⟨s1, s2⟩ := subB_exact ev.1 eu.1 b1 a1 (by omega)
          apply ih _ _ _ _ a1 s1
          · have := Nat.pos_of_dvd_of_pos a2 h0; exact this
          · rw [s2]; exact (Nat.coprime_sub_self_right (by omega)).mpr hco1
          · left
            rw [s2]
            refine ⟨Or.inr (by omega), ?_⟩
            have := Nat.mul_le_mul_left (value eu.1) (Nat.sub_le (value ev.1) (value eu.1))
            omega

theorem Meas_initial {c : MontCfg} {u v : List Nat} (hu : Limbs c u) (hv : Limbs c v) :
    Meas (128 * c.n + 1) (value u) (value v) := by
  right
  have h1 := hu.lt
  have h2 := hv.lt
  rw [B_pow_eq] at h1 h2
  have h3 : value u * value v < 2 ^ (64 * c.n) * 2 ^ (64 * c.n) :=
    Nat.mul_lt_mul'' h1 h2
  rw [← Nat.pow_add] at h3
  have e : 64 * c.n + 64 * c.n = 128 * c.n := by omega
  rw [e] at h3
  have h4 : 2 ^ (128 * c.n) < 2 ^ (128 * c.n + 1) := Nat.pow_lt_pow_right (by omega) (by omega)
  omega

/-! ### inverse -/

/-- partial correctness of `inverse` (no primality / coprimality needed) -/
theorem inverse_sound_spec {c : MontCfg} {pv : Nat} (h : CfgOK c pv) (a : List Nat)
    (ha : Elem c pv a) (r : List Nat) (hr : inverse c a = some r) :
    Elem c pv r ∧ (value r * value a) % pv = (B ^ c.n * B ^ c.n) % pv := by
  unfold inverse at hr
  by_cases hz : isZero a = true
  · rw [if_pos hz] at hr; exact absurd hr (by simp)
  · rw [if_neg hz] at hr
    obtain ⟨z1, z2⟩ := zeros_elem h
    have I : LoopInv c pv (value a) (B ^ c.n * B ^ c.n) a c.p c.r2 (zeros c.n) := by
      refine ⟨ha.limbs, h.p_limbs, ⟨h.r2_len, h.r2_wf, ?_⟩, z1, ?_, ?_⟩
      · rw [h.r2_val]; exact Nat.mod_lt _ (by have := h.p_gt; omega)
      · rw [h.r2_val, Nat.mul_comm (value a)]
        exact (Nat.mod_modEq _ _).mul_right _
      · rw [z2, h.p_val, Nat.zero_mul]
        unfold Nat.ModEq
        rw [Nat.mul_mod_right, Nat.zero_mod]
    exact inverseLoop_sound h _ _ _ _ _ _ _ I r hr

theorem inverse_zero (c : MontCfg) (a : List Nat) (h0 : value a = 0) : inverse c a = none := by
  unfold inverse; rw [if_pos ((isZero_iff a).mpr h0)]

/-- total correctness for a non-zero element coprime to the modulus -/
theorem inverse_spec {c : MontCfg} {pv : Nat} (h : CfgOK c pv) (a : List Nat)
    (ha : Elem c pv a) (hco : Nat.Coprime (value a) pv) (hne : value a ≠ 0) :
    ∃ r, inverse c a = some r ∧ Elem c pv r ∧
      (value r * value a) % pv = (B ^ c.n * B ^ c.n) % pv := by
  have hz : ¬ isZero a = true := fun hz => hne ((isZero_iff a).mp hz)
  have hco' : Nat.Coprime (value a) (value c.p) := by rw [h.p_val]; exact hco
  obtain ⟨r, hr⟩ := inverseLoop_total c (128 * c.n + 1) a c.p c.r2 (zeros c.n) ha.limbs h.p_limbs
    (by omega) hco' (Meas_initial ha.limbs h.p_limbs)
  have hr' : inverse c a = some r := by
    unfold inverse; rw [if_neg hz]; exact hr
  exact ⟨r, hr', inverse_sound_spec h a ha r hr'⟩

theorem coprime_of_prime {pv x : Nat} (hp : Nat.Prime pv) (h0 : x ≠ 0) (hlt : x < pv) :
    Nat.Coprime x pv :=
  (Nat.coprime_of_lt_prime h0 hlt hp).symm

end Ark.Mont
