import Ark.Model.Ext
import Ark.Props.C15a
import Ark.Props.C15b
import Mathlib.Tactic.Ring
import Mathlib.Tactic.FieldSimp
import Mathlib.Tactic.Linarith
import Mathlib.Tactic.LinearCombination
import Mathlib.Algebra.CharP.Lemmas
import Mathlib.Algebra.CharP.Algebra
import Mathlib.FieldTheory.Finite.Basic
import Mathlib.Data.ZMod.Basic
/-
  Helper lemmas for C02 (part B): norms, inverses, Frobenius, cyclotomic operations and the
  coordinate conversions of the extension-field templates `Ark.Model.Ext`.

  Everything lives in the namespace `Ark.ExtB` (part A uses `Ark.Ext` for its own helpers, so the
  two files can be imported together).

  The hypotheses on the base-field dictionary and on the configuration hooks are bundled in the
  `…Lawful` structures below (they are what part A establishes for the concrete wrappers; here
  they are assumptions, and the two-line ring identities "Karatsuba = schoolbook" are re-proved
  locally so that this file does not depend on part A).
-/
set_option linter.style.haveILetI false

namespace Ark.ExtB
open Ark Ark.Ext

/-! ## lawfulness bundles -/

section lawful
variable {P F : Type} [Field F] [DecidableEq F]

/-- the base-field dictionary computes the field operations of `F` -/
structure BaseLawful (B : FieldD P F) : Prop where
  square : ∀ x, B.square x = x * x
  double : ∀ x, B.double x = x + x
  sop2 : ∀ a0 a1 b0 b1, B.sop2 a0 a1 b0 b1 = a0 * b0 + a1 * b1
  inverse : ∀ x, B.inverse x = .ok (if x = 0 then none else some x⁻¹)

/-- the hooks of a `QuadExtConfig` multiply by the constant `NONRESIDUE` -/
structure QuadLawful (cfg : QuadCfg F) : Prop where
  mulNr : ∀ x, cfg.mulNr x = cfg.nonresidue * x
  mulNrAndAdd : ∀ y x, cfg.mulNrAndAdd y x = x + cfg.nonresidue * y
  mulNrPlusOneAndAdd : ∀ y x, cfg.mulNrPlusOneAndAdd y x = x + cfg.nonresidue * y + y
  subAndMulNr : ∀ y x, cfg.subAndMulNr y x = x - cfg.nonresidue * y

/-- the hook of a `CubicExtConfig` multiplies by the constant `NONRESIDUE` -/
structure CubicLawful (cfg : CubicCfg F) : Prop where
  mulNr : ∀ x, cfg.mulNr x = cfg.nonresidue * x

end lawful

/-! ## plumbing -/

@[simp] theorem obind_ok {α β : Type} (a : α) (f : α → Outcome β) : obind (.ok a) f = f a := rfl
@[simp] theorem obind_panic {α β : Type} (f : α → Outcome β) : obind .panic f = .panic := rfl

theorem index_of_lt {α : Type} (tbl : List α) (i : Nat) (h : i < tbl.length) :
    index tbl i = .ok tbl[i] := by
  unfold index
  rw [List.getElem?_eq_getElem h]

namespace Quad
variable {F : Type}

theorem ext' {a b : Quad F} (h0 : a.c0 = b.c0) (h1 : a.c1 = b.c1) : a = b := by
  cases a; cases b; simp_all

@[simp] theorem zero_c0 [Zero F] : (0 : Quad F).c0 = 0 := rfl
@[simp] theorem zero_c1 [Zero F] : (0 : Quad F).c1 = 0 := rfl
@[simp] theorem one_c0 [Zero F] [One F] : (1 : Quad F).c0 = 1 := rfl
@[simp] theorem one_c1 [Zero F] [One F] : (1 : Quad F).c1 = 0 := rfl
@[simp] theorem add_c0 [Add F] (a b : Quad F) : (a + b).c0 = a.c0 + b.c0 := rfl
@[simp] theorem add_c1 [Add F] (a b : Quad F) : (a + b).c1 = a.c1 + b.c1 := rfl
@[simp] theorem sub_c0 [Sub F] (a b : Quad F) : (a - b).c0 = a.c0 - b.c0 := rfl
@[simp] theorem sub_c1 [Sub F] (a b : Quad F) : (a - b).c1 = a.c1 - b.c1 := rfl
@[simp] theorem neg_c0 [Neg F] (a : Quad F) : (-a).c0 = -a.c0 := rfl
@[simp] theorem neg_c1 [Neg F] (a : Quad F) : (-a).c1 = -a.c1 := rfl

theorem eq_zero_iff [Zero F] (a : Quad F) : a = 0 ↔ a.c0 = 0 ∧ a.c1 = 0 := by
  constructor
  · rintro rfl; exact ⟨rfl, rfl⟩
  · rintro ⟨h0, h1⟩; exact ext' h0 h1

end Quad

namespace Cubic
variable {F : Type}

theorem ext' {a b : Cubic F} (h0 : a.c0 = b.c0) (h1 : a.c1 = b.c1) (h2 : a.c2 = b.c2) :
    a = b := by
  cases a; cases b; simp_all

@[simp] theorem zero_c0 [Zero F] : (0 : Cubic F).c0 = 0 := rfl
@[simp] theorem zero_c1 [Zero F] : (0 : Cubic F).c1 = 0 := rfl
@[simp] theorem zero_c2 [Zero F] : (0 : Cubic F).c2 = 0 := rfl
@[simp] theorem one_c0 [Zero F] [One F] : (1 : Cubic F).c0 = 1 := rfl
@[simp] theorem one_c1 [Zero F] [One F] : (1 : Cubic F).c1 = 0 := rfl
@[simp] theorem one_c2 [Zero F] [One F] : (1 : Cubic F).c2 = 0 := rfl
@[simp] theorem add_c0 [Add F] (a b : Cubic F) : (a + b).c0 = a.c0 + b.c0 := rfl
@[simp] theorem add_c1 [Add F] (a b : Cubic F) : (a + b).c1 = a.c1 + b.c1 := rfl
@[simp] theorem add_c2 [Add F] (a b : Cubic F) : (a + b).c2 = a.c2 + b.c2 := rfl
@[simp] theorem sub_c0 [Sub F] (a b : Cubic F) : (a - b).c0 = a.c0 - b.c0 := rfl
@[simp] theorem sub_c1 [Sub F] (a b : Cubic F) : (a - b).c1 = a.c1 - b.c1 := rfl
@[simp] theorem sub_c2 [Sub F] (a b : Cubic F) : (a - b).c2 = a.c2 - b.c2 := rfl
@[simp] theorem neg_c0 [Neg F] (a : Cubic F) : (-a).c0 = -a.c0 := rfl
@[simp] theorem neg_c1 [Neg F] (a : Cubic F) : (-a).c1 = -a.c1 := rfl
@[simp] theorem neg_c2 [Neg F] (a : Cubic F) : (-a).c2 = -a.c2 := rfl

theorem eq_zero_iff [Zero F] (a : Cubic F) : a = 0 ↔ a.c0 = 0 ∧ a.c1 = 0 ∧ a.c2 = 0 := by
  constructor
  · rintro rfl; exact ⟨rfl, rfl, rfl⟩
  · rintro ⟨h0, h1, h2⟩; exact ext' h0 h1 h2

end Cubic

/-! ## the quadratic layer over a field -/

section quad
variable {P F : Type} [Field F] [DecidableEq F]
variable {cfg : QuadCfg F} {B : FieldD P F}

/-- the model's multiplication is the schoolbook product in `F[X]/(X² - β)` -/
theorem Quad.mul_eq (hB : BaseLawful B) (hc : QuadLawful cfg) (a b : Quad F) :
    Quad.mul cfg B a b =
      ⟨a.c0 * b.c0 + cfg.nonresidue * (a.c1 * b.c1), a.c0 * b.c1 + a.c1 * b.c0⟩ := by
  unfold Quad.mul
  split
  · simp only [hB.sop2, hc.mulNr]
    congr 1
    ring
  · simp only [hc.mulNrAndAdd]
    congr 1
    ring

/-- the model's squaring (both branches) is `a * a` -/
theorem Quad.square_eq (hB : BaseLawful B) (hc : QuadLawful cfg) (a : Quad F) :
    Quad.square cfg B a = Quad.mul cfg B a a := by
  rw [Quad.mul_eq hB hc]
  unfold Quad.square
  split
  · rename_i h
    simp only [hB.double, h]
    congr 1 <;> ring
  · simp only [hB.double, hc.subAndMulNr, hc.mulNrPlusOneAndAdd]
    congr 1 <;> ring

theorem Quad.norm_eq (hB : BaseLawful B) (hc : QuadLawful cfg) (a : Quad F) :
    Quad.norm cfg B a = a.c0 ^ 2 - cfg.nonresidue * a.c1 ^ 2 := by
  unfold Quad.norm
  rw [hc.subAndMulNr, hB.square, hB.square]
  ring

theorem Quad.mul_conj (hB : BaseLawful B) (hc : QuadLawful cfg) (a : Quad F) :
    Quad.mul cfg B a (Quad.conj a) = ⟨Quad.norm cfg B a, 0⟩ := by
  rw [Quad.mul_eq hB hc, Quad.norm_eq hB hc]
  simp only [Quad.conj]
  congr 1 <;> ring

/-- the norm form `x² - β y²` is anisotropic exactly when `β` is not a square -/
theorem Quad.norm_ne_zero (hB : BaseLawful B) (hc : QuadLawful cfg)
    (hnr : ∀ x : F, x * x ≠ cfg.nonresidue) (a : Quad F) (ha : a ≠ 0) :
    Quad.norm cfg B a ≠ 0 := by
  rw [Quad.norm_eq hB hc]
  intro h
  by_cases h1 : a.c1 = 0
  · rw [h1] at h
    have h0 : a.c0 = 0 := by
      have : a.c0 ^ 2 = 0 := by linear_combination h
      exact pow_eq_zero_iff (two_ne_zero) |>.mp this
    exact ha (Quad.ext' h0 h1)
  · apply hnr (a.c0 / a.c1)
    field_simp
    linear_combination h

theorem Quad.inverse_zero : Quad.inverse cfg B (0 : Quad F) = .ok none := by
  unfold Quad.inverse
  simp

theorem Quad.inverse_eq (hB : BaseLawful B) (hc : QuadLawful cfg) (a : Quad F)
    (hn : Quad.norm cfg B a ≠ 0) :
    Quad.inverse cfg B a =
      .ok (some ⟨a.c0 * (Quad.norm cfg B a)⁻¹, -(a.c1 * (Quad.norm cfg B a)⁻¹)⟩) := by
  have ha : ¬ (a.c0 = 0 ∧ a.c1 = 0) := by
    rintro ⟨h0, h1⟩
    apply hn
    rw [Quad.norm_eq hB hc, h0, h1]; ring
  unfold Quad.inverse
  rw [if_neg ha]
  simp only []
  have : cfg.subAndMulNr (B.square a.c1) (B.square a.c0) = Quad.norm cfg B a := rfl
  rw [this, hB.inverse, if_neg hn]
  rfl

theorem Quad.mul_inverse (hB : BaseLawful B) (hc : QuadLawful cfg) (a : Quad F)
    (hn : Quad.norm cfg B a ≠ 0) :
    Quad.mul cfg B a ⟨a.c0 * (Quad.norm cfg B a)⁻¹, -(a.c1 * (Quad.norm cfg B a)⁻¹)⟩ = 1 := by
  have hn' := hn
  rw [Quad.norm_eq hB hc] at hn'
  rw [Quad.mul_eq hB hc, Quad.norm_eq hB hc]
  apply Quad.ext'
  · simp only [Quad.one_c0]
    field_simp
    ring
  · simp only [Quad.one_c1]
    ring

/-- `inverse` never panics and returns `none` only when the norm vanishes -/
theorem Quad.inverse_total (hB : BaseLawful B) (a : Quad F) :
    Quad.inverse cfg B a ≠ .panic := by
  unfold Quad.inverse
  split
  · simp
  · simp only [hB.inverse]
    split <;> simp [obind]

/-- on unitary elements the inverse is the conjugate -/
theorem Quad.inverse_of_norm_one (hB : BaseLawful B) (hc : QuadLawful cfg) (a : Quad F)
    (hn : Quad.norm cfg B a = 1) :
    Quad.inverse cfg B a = .ok (some (Quad.conj a)) := by
  rw [Quad.inverse_eq hB hc a (by rw [hn]; exact one_ne_zero), hn]
  simp [Quad.conj]

end quad

/-! ## the cubic layer over a field -/

section cubic
variable {P F : Type} [Field F] [DecidableEq F]
variable {cfg : CubicCfg F} {B : FieldD P F}

/-- the norm form of `F[X]/(X³ - β)` -/
def Cubic.normF (β : F) (a : Cubic F) : F :=
  a.c0 ^ 3 + β * a.c1 ^ 3 + β ^ 2 * a.c2 ^ 3 - 3 * β * a.c0 * a.c1 * a.c2

omit [DecidableEq F] in
/-- the model's (Karatsuba) multiplication is the schoolbook product in `F[X]/(X³ - β)` -/
theorem Cubic.mul_eq (hc : CubicLawful cfg) (a b : Cubic F) :
    Cubic.mul cfg a b =
      ⟨a.c0 * b.c0 + cfg.nonresidue * (a.c1 * b.c2 + a.c2 * b.c1),
       a.c0 * b.c1 + a.c1 * b.c0 + cfg.nonresidue * (a.c2 * b.c2),
       a.c0 * b.c2 + a.c1 * b.c1 + a.c2 * b.c0⟩ := by
  unfold Cubic.mul
  simp only [hc.mulNr]
  congr 1 <;> ring

/-- the model's CH-SQR2 squaring is `a * a` -/
theorem Cubic.square_eq (hB : BaseLawful B) (hc : CubicLawful cfg) (a : Cubic F) :
    Cubic.square cfg B a = Cubic.mul cfg a a := by
  rw [Cubic.mul_eq hc]
  unfold Cubic.square
  simp only [hc.mulNr, hB.square, hB.double]
  congr 1 <;> ring

/-- if `β` is not a cube, the cubic norm form is anisotropic -/
theorem Cubic.normF_ne_zero (β : F) (hnc : ∀ x : F, x ^ 3 ≠ β) (a : Cubic F) (ha : a ≠ 0) :
    Cubic.normF β a ≠ 0 := by
  intro hN
  unfold Cubic.normF at hN
  -- `s1 - s2·X = a · (a2·X - a1)`, hence `s1³ - β s2³ = N(a) · (β a2³ - a1³)`
  have key : (β * a.c2 ^ 2 - a.c0 * a.c1) ^ 3 - β * (a.c1 ^ 2 - a.c0 * a.c2) ^ 3 = 0 := by
    linear_combination (β * a.c2 ^ 3 - a.c1 ^ 3) * hN
  have hs2 : a.c1 ^ 2 - a.c0 * a.c2 = 0 := by
    by_contra hs2
    apply hnc ((β * a.c2 ^ 2 - a.c0 * a.c1) / (a.c1 ^ 2 - a.c0 * a.c2))
    rw [div_pow, div_eq_iff (pow_ne_zero 3 hs2)]
    linear_combination key
  have hs1 : β * a.c2 ^ 2 - a.c0 * a.c1 = 0 := by
    rw [hs2] at key
    have : (β * a.c2 ^ 2 - a.c0 * a.c1) ^ 3 = 0 := by linear_combination key
    exact pow_eq_zero_iff (by norm_num) |>.mp this
  by_cases h2 : a.c2 = 0
  · have h1 : a.c1 = 0 := by
      rw [h2] at hs2
      have : a.c1 ^ 2 = 0 := by linear_combination hs2
      exact pow_eq_zero_iff (by norm_num) |>.mp this
    have h0 : a.c0 = 0 := by
      rw [h1, h2] at hN
      have : a.c0 ^ 3 = 0 := by linear_combination hN
      exact pow_eq_zero_iff (by norm_num) |>.mp this
    exact ha (Cubic.ext' h0 h1 h2)
  · apply hnc (a.c1 / a.c2)
    rw [div_pow, div_eq_iff (pow_ne_zero 3 h2)]
    linear_combination a.c1 * hs2 - a.c2 * hs1

/-- the argument of the base-field inversion in `Cubic.inverse` is the norm -/
theorem Cubic.inverse_eq (hB : BaseLawful B) (hc : CubicLawful cfg) (a : Cubic F)
    (hn : Cubic.normF cfg.nonresidue a ≠ 0) :
    Cubic.inverse cfg B a =
      .ok (some ⟨(Cubic.normF cfg.nonresidue a)⁻¹ * (a.c0 ^ 2 - cfg.nonresidue * (a.c1 * a.c2)),
                 (Cubic.normF cfg.nonresidue a)⁻¹ * (cfg.nonresidue * a.c2 ^ 2 - a.c0 * a.c1),
                 (Cubic.normF cfg.nonresidue a)⁻¹ * (a.c1 ^ 2 - a.c0 * a.c2)⟩) := by
  have ha : ¬ (a.c0 = 0 ∧ a.c1 = 0 ∧ a.c2 = 0) := by
    rintro ⟨h0, h1, h2⟩
    apply hn
    unfold Cubic.normF
    rw [h0, h1, h2]; ring
  unfold Cubic.inverse
  rw [if_neg ha]
  simp only [hc.mulNr, hB.square]
  have e : a.c0 * (a.c0 * a.c0 - cfg.nonresidue * (a.c1 * a.c2)) +
      cfg.nonresidue * (a.c2 * (cfg.nonresidue * (a.c2 * a.c2) - a.c0 * a.c1) +
        a.c1 * (a.c1 * a.c1 - a.c0 * a.c2)) = Cubic.normF cfg.nonresidue a := by
    unfold Cubic.normF; ring
  rw [e, hB.inverse, if_neg hn]
  simp only [obind_ok]
  congr 3 <;> ring

omit [DecidableEq F] in
theorem Cubic.mul_inverse (hc : CubicLawful cfg) (a : Cubic F)
    (hn : Cubic.normF cfg.nonresidue a ≠ 0) :
    Cubic.mul cfg a
      ⟨(Cubic.normF cfg.nonresidue a)⁻¹ * (a.c0 ^ 2 - cfg.nonresidue * (a.c1 * a.c2)),
       (Cubic.normF cfg.nonresidue a)⁻¹ * (cfg.nonresidue * a.c2 ^ 2 - a.c0 * a.c1),
       (Cubic.normF cfg.nonresidue a)⁻¹ * (a.c1 ^ 2 - a.c0 * a.c2)⟩ = 1 := by
  rw [Cubic.mul_eq hc]
  apply Cubic.ext'
  · simp only [Cubic.one_c0]
    field_simp
    unfold Cubic.normF
    ring
  · simp only [Cubic.one_c1]
    field_simp
    unfold Cubic.normF
    ring
  · simp only [Cubic.one_c2]
    field_simp
    unfold Cubic.normF
    ring

theorem Cubic.inverse_zero : Cubic.inverse cfg B (0 : Cubic F) = .ok none := by
  unfold Cubic.inverse
  simp

end cubic

/-! ## `characteristic_square_mod_6_is_one` -/

theorem B_mod_six : B % 6 = 4 := by unfold B; norm_num

theorem charSq_go_mod (ls : List Nat) (i : Nat) (hi : 0 < i) (acc : Nat) :
    charSquareMod6IsOne.go ls i acc % 6 = (acc + 4 * value ls) % 6 := by
  induction ls generalizing i acc with
  | nil => simp [charSquareMod6IsOne.go, value]
  | cons l ls ih =>
    unfold charSquareMod6IsOne.go
    rw [if_neg (by omega), ih (i + 1) (by omega)]
    simp only [value]
    have hB := B_mod_six
    have e : B * value ls = 6 * ((B / 6) * value ls) + 4 * value ls := by
      have : B = 6 * (B / 6) + 4 := by omega
      calc B * value ls = (6 * (B / 6) + 4) * value ls := by rw [← this]
        _ = _ := by ring
    rw [e]
    generalize B / 6 * value ls = w
    generalize value ls = v
    omega

theorem charSq_go_zero (ls : List Nat) :
    charSquareMod6IsOne.go ls 0 0 % 6 = value ls % 6 := by
  cases ls with
  | nil => simp [charSquareMod6IsOne.go, value]
  | cons l ls =>
    unfold charSquareMod6IsOne.go
    rw [if_pos rfl, charSq_go_mod ls (0 + 1) (by omega)]
    simp only [value]
    have hB := B_mod_six
    have e : B * value ls = 6 * ((B / 6) * value ls) + 4 * value ls := by
      have : B = 6 * (B / 6) + 4 := by omega
      calc B * value ls = (6 * (B / 6) + 4) * value ls := by rw [← this]
        _ = _ := by ring
    rw [e]
    generalize B / 6 * value ls = w
    generalize value ls = v
    omega

theorem charSquareMod6IsOne_spec (limbs : List Nat) :
    charSquareMod6IsOne limbs = decide ((value limbs) ^ 2 % 6 = 1) := by
  unfold charSquareMod6IsOne
  simp only []
  have h := charSq_go_zero limbs
  have e : (charSquareMod6IsOne.go limbs 0 0 * charSquareMod6IsOne.go limbs 0 0) % 6
      = (value limbs) ^ 2 % 6 := by
    rw [Nat.mul_mod, h, ← Nat.mul_mod, pow_two]
  rw [e]
  by_cases h1 : value limbs ^ 2 % 6 = 1 <;> simp [h1]

/-! ## `from_base_prime_field_elems` / `to_base_prime_field_elements` -/

/-- the coordinate conversions of a dictionary are mutually inverse bijections between the type and
    the lists of length `extension_degree()` -/
structure PrimesLawful {P F : Type} (B : FieldD P F) : Prop where
  toLen : ∀ x, (B.toPrimes x).length = B.extDeg
  fromTo : ∀ x, B.fromPrimes (B.toPrimes x) = some x
  fromSome : ∀ l, (B.fromPrimes l).isSome ↔ l.length = B.extDeg
  toFrom : ∀ l x, B.fromPrimes l = some x → B.toPrimes x = l

theorem fpD_primesLawful (p : Nat) : PrimesLawful (fpD p) where
  toLen := fun _ => rfl
  fromTo := fun _ => rfl
  fromSome := by
    intro l
    match l with
    | [] => simp [fpD]
    | [x] => simp [fpD]
    | _ :: _ :: _ => simp [fpD]
  toFrom := by
    intro l x h
    match l with
    | [] => simp [fpD] at h
    | [y] => simp only [fpD, Option.some.injEq] at h; simp [fpD, h]
    | _ :: _ :: _ => simp [fpD] at h

section primes
set_option linter.unusedSectionVars false
variable {P F : Type} [Add F] [Sub F] [Mul F] [Neg F] [Zero F] [One F] [DecidableEq F]

theorem Quad.fromPrimes_isSome {B : FieldD P F} (hB : PrimesLawful B) (l : List P) :
    (Quad.fromPrimes B l).isSome ↔ l.length = 2 * B.extDeg := by
  unfold Quad.fromPrimes
  simp only []
  have h1 := hB.fromSome (l.take B.extDeg)
  have h2 := hB.fromSome ((l.drop B.extDeg).take B.extDeg)
  rw [List.length_take] at h1 h2
  rw [List.length_drop] at h2
  cases ha : B.fromPrimes (l.take B.extDeg) with
  | none =>
    rw [ha] at h1
    simp only [Option.isSome_none, Bool.false_eq_true, false_iff] at h1 ⊢
    omega
  | some a =>
    rw [ha] at h1
    cases hb : B.fromPrimes ((l.drop B.extDeg).take B.extDeg) with
    | none =>
      rw [hb] at h2
      simp only [Option.isSome_none, Bool.false_eq_true, false_iff, Option.isSome_some,
        true_iff] at h1 h2 ⊢
      omega
    | some b =>
      rw [hb] at h2
      simp only [Option.isSome_some, true_iff] at h1 h2
      show (if (l.drop (2 * B.extDeg)).isEmpty then some (⟨a, b⟩ : Quad F) else none).isSome ↔ _
      by_cases he : (l.drop (2 * B.extDeg)).isEmpty
      · rw [if_pos he]
        rw [List.isEmpty_iff, List.drop_eq_nil_iff] at he
        simp only [Option.isSome_some, true_iff]
        omega
      · rw [if_neg he]
        rw [List.isEmpty_iff, List.drop_eq_nil_iff] at he
        simp only [Option.isSome_none, Bool.false_eq_true, false_iff]
        omega

theorem Quad.fromPrimes_toPrimes {cfg : QuadCfg F} {B : FieldD P F} (hB : PrimesLawful B)
    (a : Quad F) : Quad.fromPrimes B ((Quad.fieldD cfg B).toPrimes a) = some a := by
  have l0 := hB.toLen a.c0
  have l1 := hB.toLen a.c1
  have e : (Quad.fieldD cfg B).toPrimes a = B.toPrimes a.c0 ++ B.toPrimes a.c1 := rfl
  have he : (List.drop (2 * B.extDeg) (B.toPrimes a.c0 ++ B.toPrimes a.c1)).isEmpty = true := by
    rw [List.isEmpty_iff, List.drop_eq_nil_iff, List.length_append]
    omega
  rw [e]
  unfold Quad.fromPrimes
  simp only []
  rw [List.take_left' l0, List.drop_left' l0, List.take_of_length_le (by omega), hB.fromTo,
    hB.fromTo]
  simp only []
  rw [if_pos he]

theorem Quad.toPrimes_fromPrimes {cfg : QuadCfg F} {B : FieldD P F} (hB : PrimesLawful B)
    (l : List P) (a : Quad F) (h : Quad.fromPrimes B l = some a) :
    (Quad.fieldD cfg B).toPrimes a = l := by
  have hl : l.length = 2 * B.extDeg := (Quad.fromPrimes_isSome hB l).mp (by rw [h]; rfl)
  unfold Quad.fromPrimes at h
  simp only [] at h
  cases ha : B.fromPrimes (l.take B.extDeg) with
  | none => rw [ha] at h; simp at h
  | some x =>
    cases hb : B.fromPrimes ((l.drop B.extDeg).take B.extDeg) with
    | none => rw [ha, hb] at h; simp at h
    | some y =>
      rw [ha, hb] at h
      simp only [] at h
      split at h
      · simp only [Option.some.injEq] at h
        subst h
        simp only [Quad.fieldD]
        rw [hB.toFrom _ _ ha, hB.toFrom _ _ hb, List.take_of_length_le (l := l.drop B.extDeg)
          (by rw [List.length_drop]; omega), List.take_append_drop]
      · simp at h

theorem Quad.fieldD_primesLawful {cfg : QuadCfg F} {B : FieldD P F} (hB : PrimesLawful B) :
    PrimesLawful (Quad.fieldD cfg B) where
  toLen := by
    intro x
    simp only [Quad.fieldD, List.length_append, hB.toLen]
    omega
  fromTo := Quad.fromPrimes_toPrimes hB
  fromSome := Quad.fromPrimes_isSome hB
  toFrom := Quad.toPrimes_fromPrimes hB

theorem Cubic.fromPrimes_isSome {B : FieldD P F} (hB : PrimesLawful B) (l : List P) :
    (Cubic.fromPrimes B l).isSome ↔ l.length = 3 * B.extDeg := by
  unfold Cubic.fromPrimes
  simp only []
  have h1 := hB.fromSome (l.take B.extDeg)
  have h2 := hB.fromSome ((l.drop B.extDeg).take B.extDeg)
  have h3 := hB.fromSome ((l.drop (2 * B.extDeg)).take B.extDeg)
  rw [List.length_take] at h1 h2 h3
  rw [List.length_drop] at h2 h3
  cases ha : B.fromPrimes (l.take B.extDeg) with
  | none =>
    rw [ha] at h1
    simp only [Option.isSome_none, Bool.false_eq_true, false_iff] at h1 ⊢
    omega
  | some a =>
    rw [ha] at h1
    cases hb : B.fromPrimes ((l.drop B.extDeg).take B.extDeg) with
    | none =>
      rw [hb] at h2
      simp only [Option.isSome_none, Bool.false_eq_true, false_iff, Option.isSome_some,
        true_iff] at h1 h2 ⊢
      omega
    | some b =>
      rw [hb] at h2
      cases hc : B.fromPrimes ((l.drop (2 * B.extDeg)).take B.extDeg) with
      | none =>
        rw [hc] at h3
        simp only [Option.isSome_none, Bool.false_eq_true, false_iff, Option.isSome_some,
          true_iff] at h1 h2 h3 ⊢
        omega
      | some c =>
        rw [hc] at h3
        simp only [Option.isSome_some, true_iff] at h1 h2 h3
        show (if (l.drop (3 * B.extDeg)).isEmpty then some (⟨a, b, c⟩ : Cubic F) else none).isSome
          ↔ _
        by_cases he : (l.drop (3 * B.extDeg)).isEmpty
        · rw [if_pos he]
          rw [List.isEmpty_iff, List.drop_eq_nil_iff] at he
          simp only [Option.isSome_some, true_iff]
          omega
        · rw [if_neg he]
          rw [List.isEmpty_iff, List.drop_eq_nil_iff] at he
          simp only [Option.isSome_none, Bool.false_eq_true, false_iff]
          omega

theorem Cubic.fromPrimes_toPrimes {cfg : CubicCfg F} {B : FieldD P F} (hB : PrimesLawful B)
    (a : Cubic F) : Cubic.fromPrimes B ((Cubic.fieldD cfg B).toPrimes a) = some a := by
  have l0 := hB.toLen a.c0
  have l1 := hB.toLen a.c1
  have l2 := hB.toLen a.c2
  have l01 : (B.toPrimes a.c0 ++ B.toPrimes a.c1).length = 2 * B.extDeg := by
    rw [List.length_append]; omega
  have e : (Cubic.fieldD cfg B).toPrimes a = B.toPrimes a.c0 ++ B.toPrimes a.c1 ++ B.toPrimes a.c2 :=
    rfl
  have he : (List.drop (3 * B.extDeg)
      (B.toPrimes a.c0 ++ B.toPrimes a.c1 ++ B.toPrimes a.c2)).isEmpty = true := by
    rw [List.isEmpty_iff, List.drop_eq_nil_iff, List.length_append, List.length_append]
    omega
  have t3 : List.take B.extDeg (List.drop (2 * B.extDeg)
      (B.toPrimes a.c0 ++ B.toPrimes a.c1 ++ B.toPrimes a.c2)) = B.toPrimes a.c2 := by
    rw [List.drop_left' l01, List.take_of_length_le (by omega)]
  have t2 : List.take B.extDeg (List.drop B.extDeg
      (B.toPrimes a.c0 ++ B.toPrimes a.c1 ++ B.toPrimes a.c2)) = B.toPrimes a.c1 := by
    rw [List.append_assoc, List.drop_left' l0, List.take_left' l1]
  have t1 : List.take B.extDeg
      (B.toPrimes a.c0 ++ B.toPrimes a.c1 ++ B.toPrimes a.c2) = B.toPrimes a.c0 := by
    rw [List.append_assoc, List.take_left' l0]
  rw [e]
  unfold Cubic.fromPrimes
  simp only []
  rw [t1, t2, t3, hB.fromTo, hB.fromTo, hB.fromTo]
  simp only []
  rw [if_pos he]

theorem Cubic.toPrimes_fromPrimes {cfg : CubicCfg F} {B : FieldD P F} (hB : PrimesLawful B)
    (l : List P) (a : Cubic F) (h : Cubic.fromPrimes B l = some a) :
    (Cubic.fieldD cfg B).toPrimes a = l := by
  have hl : l.length = 3 * B.extDeg := (Cubic.fromPrimes_isSome hB l).mp (by rw [h]; rfl)
  unfold Cubic.fromPrimes at h
  simp only [] at h
  cases ha : B.fromPrimes (l.take B.extDeg) with
  | none => rw [ha] at h; simp at h
  | some x =>
    cases hb : B.fromPrimes ((l.drop B.extDeg).take B.extDeg) with
    | none => rw [ha, hb] at h; simp at h
    | some y =>
      cases hc : B.fromPrimes ((l.drop (2 * B.extDeg)).take B.extDeg) with
      | none => rw [ha, hb, hc] at h; simp at h
      | some z =>
        rw [ha, hb, hc] at h
        simp only [] at h
        split at h
        · simp only [Option.some.injEq] at h
          subst h
          simp only [Cubic.fieldD]
          rw [hB.toFrom _ _ ha, hB.toFrom _ _ hb, hB.toFrom _ _ hc,
            List.take_of_length_le (l := l.drop (2 * B.extDeg))
              (by rw [List.length_drop]; omega)]
          have e : l.drop (2 * B.extDeg) = (l.drop B.extDeg).drop B.extDeg := by
            rw [List.drop_drop]; congr 1; omega
          rw [e, List.append_assoc, List.take_append_drop, List.take_append_drop]
        · simp at h

theorem Cubic.fieldD_primesLawful {cfg : CubicCfg F} {B : FieldD P F} (hB : PrimesLawful B) :
    PrimesLawful (Cubic.fieldD cfg B) where
  toLen := by
    intro x
    simp only [Cubic.fieldD, List.length_append, hB.toLen]
    omega
  fromTo := Cubic.fromPrimes_toPrimes hB
  fromSome := Cubic.fromPrimes_isSome hB
  toFrom := Cubic.toPrimes_fromPrimes hB

end primes

/-! ## `cyclotomic.rs`: `exp_loop` -/

section cyc
set_option linter.unusedSectionVars false
variable {E : Type} [Monoid E] [Zero E] [DecidableEq E]

theorem digitsValue_reverse_cons (v : Int) (vs : List Int) :
    digitsValue (v :: vs).reverse = digitsValue vs.reverse + 2 ^ vs.length * v := by
  rw [List.reverse_cons, digitsValue_append, List.length_reverse]
  simp [digitsValue]

/-- the loop invariant of `exp_loop`: the accumulator is a power of the unit `u`, every digit
    doubles the exponent and adds the digit -/
theorem expLoopGo_units (C : CycD E) (u : Eˣ) (sinv : E)
    (hsq : ∀ z : ℤ, C.cycSquare ((u ^ z : Eˣ) : E) = ((u ^ z : Eˣ) : E) * ((u ^ z : Eˣ) : E))
    (hinv : C.inverseIsFast = true → sinv = ((u⁻¹ : Eˣ) : E))
    (ds : List Int)
    (hd : ∀ d ∈ ds, d = 0 ∨ d = 1 ∨ (d = -1 ∧ C.inverseIsFast = true))
    (z : ℤ) (found : Bool) (hf : found = false → z = 0) :
    expLoopGo C (u : E) sinv ds ((u ^ z : Eˣ) : E) found =
      ((u ^ (z * 2 ^ ds.length + digitsValue ds.reverse) : Eˣ) : E) := by
  induction ds generalizing z found with
  | nil => simp [expLoopGo, digitsValue]
  | cons v vs ih =>
    have hvs : ∀ d ∈ vs, d = 0 ∨ d = 1 ∨ (d = -1 ∧ C.inverseIsFast = true) :=
      fun d hd' => hd d (List.mem_cons_of_mem _ hd')
    have hres : (if found then C.cycSquare ((u ^ z : Eˣ) : E) else ((u ^ z : Eˣ) : E))
        = ((u ^ (2 * z) : Eˣ) : E) := by
      cases found with
      | true =>
        simp only [if_true]
        rw [hsq z, ← Units.val_mul, ← zpow_add, two_mul]
      | false =>
        rw [hf rfl]; simp
    rw [digitsValue_reverse_cons]
    unfold expLoopGo
    simp only [hres]
    rcases hd v (List.mem_cons_self) with hv | hv | ⟨hv, hfast⟩
    · subst hv
      simp only [bne_self_eq_false, Bool.false_eq_true, if_false]
      rw [ih hvs (2 * z) found (by intro h; rw [hf h]; rfl)]
      congr 2
      rw [List.length_cons, pow_succ]; ring
    · subst hv
      have h1 : ((1 : Int) != 0) = true := by decide
      simp only [h1, if_true, show (1 : Int) > 0 by decide]
      have : ((u ^ (2 * z) : Eˣ) : E) * (u : E) = ((u ^ (2 * z + 1) : Eˣ) : E) := by
        rw [zpow_add_one, Units.val_mul]
      rw [this, ih hvs (2 * z + 1) true (by intro h; cases h)]
      congr 2
      rw [List.length_cons, pow_succ]; ring
    · subst hv
      have h1 : ((-1 : Int) != 0) = true := by decide
      simp only [h1, if_true, show ¬ ((-1 : Int) > 0) by decide, if_false, hfast]
      have : ((u ^ (2 * z) : Eˣ) : E) * sinv = ((u ^ (2 * z - 1) : Eˣ) : E) := by
        rw [hinv hfast, ← Units.val_mul, zpow_sub_one]
      rw [this, ih hvs (2 * z - 1) true (by intro h; cases h)]
      congr 2
      rw [List.length_cons, pow_succ]; ring

/-- `exp_loop` on a unit `u` whose inverse is available computes `u ^ (value of the digits)` -/
theorem expLoop_units (C : CycD E) (u : Eˣ)
    (hsq : ∀ z : ℤ, C.cycSquare ((u ^ z : Eˣ) : E) = ((u ^ z : Eˣ) : E) * ((u ^ z : Eˣ) : E))
    (hinv : C.inverseIsFast = true → C.cycInverse (u : E) = .ok (some ((u⁻¹ : Eˣ) : E)))
    (ds : List Int)
    (hd : ∀ d ∈ ds, d = 0 ∨ d = 1 ∨ (d = -1 ∧ C.inverseIsFast = true)) :
    expLoop C (u : E) ds = .ok ((u ^ digitsValue ds.reverse : Eˣ) : E) := by
  unfold expLoop
  cases hfast : C.inverseIsFast with
  | true =>
    simp only [if_true, hinv hfast, obind_ok]
    have := expLoopGo_units C u ((u⁻¹ : Eˣ) : E) hsq (fun _ => rfl) ds hd 0 false (fun _ => rfl)
    simp only [zpow_zero, Units.val_one, zero_mul, zero_add] at this
    rw [this]
  | false =>
    simp only [Bool.false_eq_true, if_false, obind_ok]
    have := expLoopGo_units C u (1 : E) hsq (by intro h; rw [hfast] at h; cases h) ds hd 0 false
      (fun _ => rfl)
    simp only [zpow_zero, Units.val_one, zero_mul, zero_add] at this
    rw [this]

/-- value of a most-significant-first bit string, as the signed-digit value of its reverse -/
theorem digitsValue_bits_dropWhile (l : List Bool) :
    digitsValue (((l.dropWhile (· == false)).map
      (fun b => if b then (1 : Int) else 0)).reverse) =
    digitsValue ((l.map (fun b => if b then (1 : Int) else 0)).reverse) := by
  induction l with
  | nil => rfl
  | cons b bs ih =>
    cases b with
    | true => simp [List.dropWhile]
    | false =>
      simp only [List.dropWhile, beq_self_eq_true, ih, List.map_cons, Bool.false_eq_true, if_false]
      rw [digitsValue_reverse_cons]; simp

theorem digitsValue_bits (l : List Bool) :
    digitsValue (l.map (fun b => if b then (1 : Int) else 0)) = (bitsToNat l : Int) := by
  induction l with
  | nil => rfl
  | cons b bs ih =>
    simp only [List.map_cons, digitsValue, bitsToNat, ih]
    cases b <;> simp

/-- the digit string of the default (`INVERSE_IS_FAST = false`) branch denotes `value e` -/
theorem bits_digits_value (e : List Nat) (he : WF e) :
    digitsValue ((((toBitsBE e).dropWhile (· == false)).map
      (fun b => if b then (1 : Int) else 0)).reverse) = (value e : Int) := by
  rw [digitsValue_bits_dropWhile, toBitsBE, ← List.map_reverse, List.reverse_reverse,
    digitsValue_bits, bitsToNat_toBitsLE e he]

theorem mem_bits_digits (l : List Bool) (d : Int)
    (h : d ∈ l.map (fun b => if b then (1 : Int) else 0)) : d = 0 ∨ d = 1 := by
  rw [List.mem_map] at h
  obtain ⟨b, _, rfl⟩ := h
  cases b <;> simp

/-- `cyclotomic_exp_in_place`: on a unit `u` all of whose powers are squared correctly by
    `cyclotomic_square` and whose `cyclotomic_inverse` is its inverse, the result is `u ^ e`;
    both the NAF branch and the plain-bits branch are covered -/
theorem cycExp_units (C : CycD E) (u : Eˣ) (hu : (u : E) ≠ 0)
    (hsq : ∀ z : ℤ, C.cycSquare ((u ^ z : Eˣ) : E) = ((u ^ z : Eˣ) : E) * ((u ^ z : Eˣ) : E))
    (hinv : C.inverseIsFast = true → C.cycInverse (u : E) = .ok (some ((u⁻¹ : Eˣ) : E)))
    (e : List Nat) (he : WF e) :
    cycExp C (u : E) e = .ok ((u : E) ^ value e) := by
  unfold cycExp
  rw [if_neg hu]
  cases hfast : C.inverseIsFast with
  | true =>
    simp only [if_true]
    rw [expLoop_units C u hsq hinv]
    · rw [List.reverse_reverse, Ark.C15.find_naf_value e he, zpow_natCast, Units.val_pow_eq_pow_val]
    · intro d hd
      rw [List.mem_reverse] at hd
      rcases Ark.C15.find_naf_digits e he d hd with h | h | h
      · exact Or.inr (Or.inr ⟨h, hfast⟩)
      · exact Or.inl h
      · exact Or.inr (Or.inl h)
  | false =>
    simp only [Bool.false_eq_true, if_false]
    rw [expLoop_units C u hsq hinv]
    · rw [bits_digits_value e he, zpow_natCast, Units.val_pow_eq_pow_val]
    · intro d hd
      rcases mem_bits_digits _ d hd with h | h
      · exact Or.inl h
      · exact Or.inr (Or.inl h)

/-- `cyclotomic_exp` of zero returns zero (the early return of the Rust code) -/
theorem cycExp_zero (C : CycD E) (e : List Nat) : cycExp C (0 : E) e = .ok 0 := by
  unfold cycExp
  rw [if_pos rfl]

end cyc

/-! ## the ring / field structure carried by the model's operations on `Quad F` -/

section quadring
variable {P F : Type} [Field F] [DecidableEq F]

/-- `Quad F` with the model's `+ - neg 0 1` and the model's multiplication `Quad.mul cfg B` is a
    commutative ring as soon as the hooks are lawful -/
@[reducible] def Quad.commRing (cfg : QuadCfg F) (B : FieldD P F) (hB : BaseLawful B)
    (hc : QuadLawful cfg) : CommRing (Quad F) where
  add := (· + ·)
  zero := 0
  one := 1
  neg := Neg.neg
  sub := (· - ·)
  mul := Quad.mul cfg B
  nsmul := nsmulRec
  zsmul := zsmulRec
  add_assoc a b c := by apply Quad.ext' <;> simp [add_assoc]
  zero_add a := by apply Quad.ext' <;> simp
  add_zero a := by apply Quad.ext' <;> simp
  add_comm a b := by apply Quad.ext' <;> simp [add_comm]
  neg_add_cancel a := by apply Quad.ext' <;> simp
  sub_eq_add_neg a b := by apply Quad.ext' <;> simp [sub_eq_add_neg]
  left_distrib a b c := by
    show Quad.mul cfg B a (b + c) = Quad.mul cfg B a b + Quad.mul cfg B a c
    simp only [Quad.mul_eq hB hc]
    apply Quad.ext' <;> simp only [Quad.add_c0, Quad.add_c1] <;> ring
  right_distrib a b c := by
    show Quad.mul cfg B (a + b) c = Quad.mul cfg B a c + Quad.mul cfg B b c
    simp only [Quad.mul_eq hB hc]
    apply Quad.ext' <;> simp only [Quad.add_c0, Quad.add_c1] <;> ring
  zero_mul a := by
    show Quad.mul cfg B 0 a = 0
    simp only [Quad.mul_eq hB hc]
    apply Quad.ext' <;> simp
  mul_zero a := by
    show Quad.mul cfg B a 0 = 0
    simp only [Quad.mul_eq hB hc]
    apply Quad.ext' <;> simp
  mul_assoc a b c := by
    show Quad.mul cfg B (Quad.mul cfg B a b) c = Quad.mul cfg B a (Quad.mul cfg B b c)
    simp only [Quad.mul_eq hB hc]
    apply Quad.ext' <;> ring
  one_mul a := by
    show Quad.mul cfg B 1 a = a
    simp only [Quad.mul_eq hB hc]
    apply Quad.ext' <;> simp
  mul_one a := by
    show Quad.mul cfg B a 1 = a
    simp only [Quad.mul_eq hB hc]
    apply Quad.ext' <;> simp
  mul_comm a b := by
    show Quad.mul cfg B a b = Quad.mul cfg B b a
    simp only [Quad.mul_eq hB hc]
    apply Quad.ext' <;> ring

/-- … and a field when moreover `NONRESIDUE` is not a square -/
@[reducible] def Quad.field (cfg : QuadCfg F) (B : FieldD P F) (hB : BaseLawful B)
    (hc : QuadLawful cfg) (hnr : ∀ x : F, x * x ≠ cfg.nonresidue) : Field (Quad F) :=
  { Quad.commRing cfg B hB hc with
    inv := fun a => if a = 0 then 0
      else ⟨a.c0 * (Quad.norm cfg B a)⁻¹, -(a.c1 * (Quad.norm cfg B a)⁻¹)⟩
    exists_pair_ne := ⟨0, 1, by
      intro h
      have := congrArg Quad.c0 h
      simp at this⟩
    mul_inv_cancel := by
      intro a ha
      show Quad.mul cfg B a (if a = 0 then 0
        else ⟨a.c0 * (Quad.norm cfg B a)⁻¹, -(a.c1 * (Quad.norm cfg B a)⁻¹)⟩) = 1
      rw [if_neg ha]
      exact Quad.mul_inverse hB hc a (Quad.norm_ne_zero hB hc hnr a ha)
    inv_zero := if_pos rfl
    nnqsmul := _
    nnqsmul_def := fun _ _ => rfl
    qsmul := _
    qsmul_def := fun _ _ => rfl }

variable {cfg : QuadCfg F} {B : FieldD P F}

/-- the model's `inverse` is the inverse of that field: `Quad.fieldD` is a lawful dictionary for the
    next layer of a tower -/
theorem Quad.fieldD_baseLawful (hB : BaseLawful B) (hc : QuadLawful cfg)
    (hnr : ∀ x : F, x * x ≠ cfg.nonresidue) :
    @BaseLawful P (Quad F) (Quad.field cfg B hB hc hnr) _ (Quad.fieldD cfg B) := by
  letI := Quad.field cfg B hB hc hnr
  refine ⟨?_, ?_, ?_, ?_⟩
  · intro x; exact Quad.square_eq hB hc x
  · intro x
    show Quad.double B x = x + x
    apply Quad.ext' <;> simp [Quad.double, hB.double]
  · intro a0 a1 b0 b1
    show (0 + Quad.mul cfg B a0 b0) + Quad.mul cfg B a1 b1 = _
    rw [zero_add]; rfl
  · intro x
    show Quad.inverse cfg B x = _
    by_cases hx : x = 0
    · rw [if_pos hx, hx]; exact Quad.inverse_zero
    · rw [if_neg hx, Quad.inverse_eq hB hc x (Quad.norm_ne_zero hB hc hnr x hx)]
      show _ = Outcome.ok (some (if x = 0 then 0 else _))
      rw [if_neg hx]

/-- the embedding of the base field -/
def Quad.ofBase (hB : BaseLawful B) (hc : QuadLawful cfg) :
    letI := Quad.commRing cfg B hB hc
    F →+* Quad F :=
  letI := Quad.commRing cfg B hB hc
  { toFun := fun x => ⟨x, 0⟩
    map_one' := rfl
    map_zero' := rfl
    map_mul' := by
      intro x y
      show _ = Quad.mul cfg B _ _
      rw [Quad.mul_eq hB hc]
      apply Quad.ext' <;> simp
    map_add' := by
      intro x y
      apply Quad.ext' <;> simp }

theorem Quad.ofBase_injective (hB : BaseLawful B) (hc : QuadLawful cfg) :
    Function.Injective (Quad.ofBase hB hc) := by
  intro x y h
  exact congrArg Quad.c0 h

theorem Quad.charP (hB : BaseLawful B) (hc : QuadLawful cfg) (p : ℕ) [CharP F p] :
    @CharP (Quad F) (Quad.commRing cfg B hB hc).toAddGroupWithOne.toAddMonoidWithOne p := by
  letI := Quad.commRing cfg B hB hc
  exact charP_of_injective_ringHom (Quad.ofBase_injective hB hc) p

end quadring

/-! ## Frobenius on the quadratic layer -/

/-- a map of period `D` under iterated `p`-th powers: `y^(p^k)` only depends on `k % D` -/
theorem pow_char_pow_mod {M : Type} [Monoid M] (p D : ℕ) (y : M) (hper : y ^ p ^ D = y) (k : ℕ) :
    y ^ p ^ k = y ^ p ^ (k % D) := by
  have hj : ∀ j : ℕ, y ^ p ^ (D * j) = y := by
    intro j
    induction j with
    | zero => simp
    | succ j ih => rw [Nat.mul_succ, pow_add, pow_mul, ih, hper]
  conv_lhs => rw [← Nat.div_add_mod k D, pow_add, pow_mul, hj]

section quadfrob
variable {P F : Type} [Field F] [DecidableEq F]
variable {cfg : QuadCfg F} {B : FieldD P F}

/-- `u + v·(w·X) = (u, v w)` in the ring of the model -/
theorem Quad.ofBase_add_mul_X (hB : BaseLawful B) (hc : QuadLawful cfg) (u v w : F) :
    letI := Quad.commRing cfg B hB hc
    Quad.ofBase hB hc u + Quad.ofBase hB hc v * (Quad.ofBase hB hc w * (⟨0, 1⟩ : Quad F))
      = ⟨u, v * w⟩ := by
  show (⟨u, 0⟩ : Quad F) + Quad.mul cfg B ⟨v, 0⟩ (Quad.mul cfg B ⟨w, 0⟩ ⟨0, 1⟩) = _
  simp only [Quad.mul_eq hB hc]
  apply Quad.ext' <;> simp

theorem Quad.X_mul_X (hB : BaseLawful B) (hc : QuadLawful cfg) :
    letI := Quad.commRing cfg B hB hc
    (⟨0, 1⟩ : Quad F) * ⟨0, 1⟩ = Quad.ofBase hB hc cfg.nonresidue := by
  show Quad.mul cfg B ⟨0, 1⟩ ⟨0, 1⟩ = (⟨cfg.nonresidue, 0⟩ : Quad F)
  simp only [Quad.mul_eq hB hc]
  apply Quad.ext' <;> simp

/-- `X^(2m+1) = β^m · X` -/
theorem Quad.X_pow_odd (hB : BaseLawful B) (hc : QuadLawful cfg) (m : ℕ) :
    letI := Quad.commRing cfg B hB hc
    (⟨0, 1⟩ : Quad F) ^ (2 * m + 1) = Quad.ofBase hB hc (cfg.nonresidue ^ m) * ⟨0, 1⟩ := by
  letI := Quad.commRing cfg B hB hc
  rw [pow_succ, pow_mul, pow_two, Quad.X_mul_X hB hc, map_pow]

/-- **Frobenius** on a quadratic layer: if the base dictionary's `frobenius_map(k)` is `x ↦ x^(p^k)`
    and the hook multiplies by `c (k % D)` with `c i = β^((p^i-1)/2)` for `i < D`, where `D` is a
    period of the `p`-power map of the extension, then `frobenius_map(k)` returns (no index panic)
    `a ^ (p^k)`, the power being taken with the model's multiplication. -/
theorem Quad.frob_eq_pow (p : ℕ) [Fact p.Prime] [CharP F p] (hp2 : p % 2 = 1)
    (hB : BaseLawful B) (hc : QuadLawful cfg)
    (hfrobB : ∀ x k, B.frob x k = .ok (x ^ p ^ k))
    (D : ℕ) (c : ℕ → F)
    (hmf : ∀ fe k, cfg.mulFrobCoeff fe k = .ok (fe * c (k % D)))
    (hcv : ∀ i, i < D → c i = cfg.nonresidue ^ ((p ^ i - 1) / 2))
    (hD : 0 < D)
    (hper : letI := Quad.commRing cfg B hB hc; ∀ y : Quad F, y ^ p ^ D = y)
    (a : Quad F) (k : ℕ) :
    letI := Quad.commRing cfg B hB hc
    Quad.frob cfg B a k = .ok (a ^ p ^ k) := by
  letI := Quad.commRing cfg B hB hc
  haveI := Quad.charP hB hc (cfg := cfg) (B := B) p
  have hX : (⟨0, 1⟩ : Quad F) ^ p ^ k = Quad.ofBase hB hc (c (k % D)) * ⟨0, 1⟩ := by
    rw [pow_char_pow_mod p D _ (hper _) k, hcv _ (Nat.mod_lt k hD)]
    have hodd : p ^ (k % D) % 2 = 1 := by
      rw [Nat.pow_mod, hp2]; simp
    have : p ^ (k % D) = 2 * ((p ^ (k % D) - 1) / 2) + 1 := by omega
    conv_lhs => rw [this]
    exact Quad.X_pow_odd hB hc _
  have ha : a = Quad.ofBase hB hc a.c0 + Quad.ofBase hB hc a.c1 * (Quad.ofBase hB hc 1 * ⟨0, 1⟩) := by
    rw [Quad.ofBase_add_mul_X hB hc, mul_one]
  have hpow : a ^ p ^ k = ⟨a.c0 ^ p ^ k, a.c1 ^ p ^ k * c (k % D)⟩ := by
    conv_lhs => rw [ha]
    rw [map_one, one_mul, add_pow_char_pow, mul_pow, hX, ← map_pow, ← map_pow,
      Quad.ofBase_add_mul_X hB hc]
  rw [hpow]
  unfold Quad.frob
  simp only [hfrobB, hmf, obind_ok]

end quadfrob

/-! ## the ring / field structure carried by the model's operations on `Cubic F` -/

section cubicring
set_option linter.unusedSectionVars false
variable {P F : Type} [Field F] [DecidableEq F]

/-- `Cubic F` with the model's operations is a commutative ring when the hook is lawful -/
@[reducible] def Cubic.commRing (cfg : CubicCfg F) (hc : CubicLawful cfg) : CommRing (Cubic F) where
  add := (· + ·)
  zero := 0
  one := 1
  neg := Neg.neg
  sub := (· - ·)
  mul := Cubic.mul cfg
  nsmul := nsmulRec
  zsmul := zsmulRec
  add_assoc a b c := by apply Cubic.ext' <;> simp [add_assoc]
  zero_add a := by apply Cubic.ext' <;> simp
  add_zero a := by apply Cubic.ext' <;> simp
  add_comm a b := by apply Cubic.ext' <;> simp [add_comm]
  neg_add_cancel a := by apply Cubic.ext' <;> simp
  sub_eq_add_neg a b := by apply Cubic.ext' <;> simp [sub_eq_add_neg]
  left_distrib a b c := by
    show Cubic.mul cfg a (b + c) = Cubic.mul cfg a b + Cubic.mul cfg a c
    simp only [Cubic.mul_eq hc]
    apply Cubic.ext' <;> simp only [Cubic.add_c0, Cubic.add_c1, Cubic.add_c2] <;> ring
  right_distrib a b c := by
    show Cubic.mul cfg (a + b) c = Cubic.mul cfg a c + Cubic.mul cfg b c
    simp only [Cubic.mul_eq hc]
    apply Cubic.ext' <;> simp only [Cubic.add_c0, Cubic.add_c1, Cubic.add_c2] <;> ring
  zero_mul a := by
    show Cubic.mul cfg 0 a = 0
    simp only [Cubic.mul_eq hc]
    apply Cubic.ext' <;> simp
  mul_zero a := by
    show Cubic.mul cfg a 0 = 0
    simp only [Cubic.mul_eq hc]
    apply Cubic.ext' <;> simp
  mul_assoc a b c := by
    show Cubic.mul cfg (Cubic.mul cfg a b) c = Cubic.mul cfg a (Cubic.mul cfg b c)
    simp only [Cubic.mul_eq hc]
    apply Cubic.ext' <;> ring
  one_mul a := by
    show Cubic.mul cfg 1 a = a
    simp only [Cubic.mul_eq hc]
    apply Cubic.ext' <;> simp
  mul_one a := by
    show Cubic.mul cfg a 1 = a
    simp only [Cubic.mul_eq hc]
    apply Cubic.ext' <;> simp
  mul_comm a b := by
    show Cubic.mul cfg a b = Cubic.mul cfg b a
    simp only [Cubic.mul_eq hc]
    apply Cubic.ext' <;> ring

/-- … and a field when moreover `NONRESIDUE` is not a cube -/
@[reducible] def Cubic.field (cfg : CubicCfg F) (hc : CubicLawful cfg)
    (hnc : ∀ x : F, x ^ 3 ≠ cfg.nonresidue) : Field (Cubic F) :=
  { Cubic.commRing cfg hc with
    inv := fun a => if a = 0 then 0
      else ⟨(Cubic.normF cfg.nonresidue a)⁻¹ * (a.c0 ^ 2 - cfg.nonresidue * (a.c1 * a.c2)),
            (Cubic.normF cfg.nonresidue a)⁻¹ * (cfg.nonresidue * a.c2 ^ 2 - a.c0 * a.c1),
            (Cubic.normF cfg.nonresidue a)⁻¹ * (a.c1 ^ 2 - a.c0 * a.c2)⟩
    exists_pair_ne := ⟨0, 1, by
      intro h
      have := congrArg Cubic.c0 h
      simp at this⟩
    mul_inv_cancel := by
      intro a ha
      show Cubic.mul cfg a (if a = 0 then 0 else _) = 1
      rw [if_neg ha]
      exact Cubic.mul_inverse hc a (Cubic.normF_ne_zero _ hnc a ha)
    inv_zero := if_pos rfl
    nnqsmul := _
    nnqsmul_def := fun _ _ => rfl
    qsmul := _
    qsmul_def := fun _ _ => rfl }

variable {cfg : CubicCfg F} {B : FieldD P F}

/-- `Cubic.fieldD` is a lawful dictionary for the next layer of a tower -/
theorem Cubic.fieldD_baseLawful (hB : BaseLawful B) (hc : CubicLawful cfg)
    (hnc : ∀ x : F, x ^ 3 ≠ cfg.nonresidue) :
    @BaseLawful P (Cubic F) (Cubic.field cfg hc hnc) _ (Cubic.fieldD cfg B) := by
  letI := Cubic.field cfg hc hnc
  refine ⟨?_, ?_, ?_, ?_⟩
  · intro x; exact Cubic.square_eq hB hc x
  · intro x
    show Cubic.double B x = x + x
    apply Cubic.ext' <;> simp [Cubic.double, hB.double]
  · intro a0 a1 b0 b1
    show (0 + Cubic.mul cfg a0 b0) + Cubic.mul cfg a1 b1 = _
    rw [zero_add]; rfl
  · intro x
    show Cubic.inverse cfg B x = _
    by_cases hx : x = 0
    · rw [if_pos hx, hx]; exact Cubic.inverse_zero
    · rw [if_neg hx, Cubic.inverse_eq hB hc x (Cubic.normF_ne_zero _ hnc x hx)]
      show _ = Outcome.ok (some (if x = 0 then 0 else _))
      rw [if_neg hx]

/-- the embedding of the base field -/
def Cubic.ofBase (hc : CubicLawful cfg) :
    letI := Cubic.commRing cfg hc
    F →+* Cubic F :=
  letI := Cubic.commRing cfg hc
  { toFun := fun x => ⟨x, 0, 0⟩
    map_one' := rfl
    map_zero' := rfl
    map_mul' := by
      intro x y
      show _ = Cubic.mul cfg _ _
      rw [Cubic.mul_eq hc]
      apply Cubic.ext' <;> simp
    map_add' := by
      intro x y
      apply Cubic.ext' <;> simp }

theorem Cubic.ofBase_injective (hc : CubicLawful cfg) :
    Function.Injective (Cubic.ofBase hc) := by
  intro x y h
  exact congrArg Cubic.c0 h

theorem Cubic.charP (hc : CubicLawful cfg) (p : ℕ) [CharP F p] :
    @CharP (Cubic F) (Cubic.commRing cfg hc).toAddGroupWithOne.toAddMonoidWithOne p := by
  letI := Cubic.commRing cfg hc
  exact charP_of_injective_ringHom (Cubic.ofBase_injective hc) p

/-! ## Frobenius on the cubic layer -/

theorem Cubic.ofBase_add_mul_X (hc : CubicLawful cfg) (u v w v' w' : F) :
    letI := Cubic.commRing cfg hc
    Cubic.ofBase hc u + Cubic.ofBase hc v * (Cubic.ofBase hc w * (⟨0, 1, 0⟩ : Cubic F))
        + Cubic.ofBase hc v' * (Cubic.ofBase hc w' * (⟨0, 0, 1⟩ : Cubic F))
      = ⟨u, v * w, v' * w'⟩ := by
  show (⟨u, 0, 0⟩ : Cubic F) + Cubic.mul cfg ⟨v, 0, 0⟩ (Cubic.mul cfg ⟨w, 0, 0⟩ ⟨0, 1, 0⟩)
    + Cubic.mul cfg ⟨v', 0, 0⟩ (Cubic.mul cfg ⟨w', 0, 0⟩ ⟨0, 0, 1⟩) = _
  simp only [Cubic.mul_eq hc]
  apply Cubic.ext' <;> simp

theorem Cubic.X_mul_X (hc : CubicLawful cfg) :
    letI := Cubic.commRing cfg hc
    (⟨0, 1, 0⟩ : Cubic F) * ⟨0, 1, 0⟩ = ⟨0, 0, 1⟩ := by
  show Cubic.mul cfg ⟨0, 1, 0⟩ ⟨0, 1, 0⟩ = _
  simp only [Cubic.mul_eq hc]
  apply Cubic.ext' <;> simp

theorem Cubic.X_cube (hc : CubicLawful cfg) :
    letI := Cubic.commRing cfg hc
    (⟨0, 1, 0⟩ : Cubic F) ^ 3 = Cubic.ofBase hc cfg.nonresidue := by
  letI := Cubic.commRing cfg hc
  rw [pow_succ, pow_two, Cubic.X_mul_X hc]
  show Cubic.mul cfg ⟨0, 0, 1⟩ ⟨0, 1, 0⟩ = (⟨cfg.nonresidue, 0, 0⟩ : Cubic F)
  simp only [Cubic.mul_eq hc]
  apply Cubic.ext' <;> simp

/-- `X^(3m+1) = β^m · X` -/
theorem Cubic.X_pow (hc : CubicLawful cfg) (m : ℕ) :
    letI := Cubic.commRing cfg hc
    (⟨0, 1, 0⟩ : Cubic F) ^ (3 * m + 1) = Cubic.ofBase hc (cfg.nonresidue ^ m) * ⟨0, 1, 0⟩ := by
  letI := Cubic.commRing cfg hc
  rw [pow_succ, pow_mul, Cubic.X_cube hc, map_pow]

/-- **Frobenius** on a cubic layer (`p ≡ 1 mod 3`): with the base `frobenius_map(k)` equal to
    `x ↦ x^(p^k)` and the hook multiplying by `c1 (k % D)`, `c2 (k % D)` where
    `c1 i = β^((p^i-1)/3)`, `c2 i = β^((2p^i-2)/3)` for `i < D` (`D` a period of the `p`-power map),
    `frobenius_map(k)` returns `a ^ (p^k)` (no index panic). -/
theorem Cubic.frob_eq_pow (p : ℕ) [Fact p.Prime] [CharP F p] (hp3 : p % 3 = 1)
    (hc : CubicLawful cfg)
    (hfrobB : ∀ x k, B.frob x k = .ok (x ^ p ^ k))
    (D : ℕ) (c1 c2 : ℕ → F)
    (hmf : ∀ x y k, cfg.mulFrobCoeff x y k = .ok (x * c1 (k % D), y * c2 (k % D)))
    (hcv1 : ∀ i, i < D → c1 i = cfg.nonresidue ^ ((p ^ i - 1) / 3))
    (hcv2 : ∀ i, i < D → c2 i = cfg.nonresidue ^ ((2 * p ^ i - 2) / 3))
    (hD : 0 < D)
    (hper : letI := Cubic.commRing cfg hc; ∀ y : Cubic F, y ^ p ^ D = y)
    (a : Cubic F) (k : ℕ) :
    letI := Cubic.commRing cfg hc
    Cubic.frob cfg B a k = .ok (a ^ p ^ k) := by
  letI := Cubic.commRing cfg hc
  haveI := Cubic.charP hc (cfg := cfg) p
  have hmod : p ^ (k % D) % 3 = 1 := by
    rw [Nat.pow_mod, hp3]; simp
  have hX : (⟨0, 1, 0⟩ : Cubic F) ^ p ^ k = Cubic.ofBase hc (c1 (k % D)) * ⟨0, 1, 0⟩ := by
    rw [pow_char_pow_mod p D _ (hper _) k, hcv1 _ (Nat.mod_lt k hD)]
    have : p ^ (k % D) = 3 * ((p ^ (k % D) - 1) / 3) + 1 := by omega
    conv_lhs => rw [this]
    exact Cubic.X_pow hc _
  have hX2 : (⟨0, 0, 1⟩ : Cubic F) ^ p ^ k = Cubic.ofBase hc (c2 (k % D)) * ⟨0, 0, 1⟩ := by
    rw [← Cubic.X_mul_X hc, mul_pow, hX, hcv1 _ (Nat.mod_lt k hD), hcv2 _ (Nat.mod_lt k hD)]
    have : (2 * p ^ (k % D) - 2) / 3 = (p ^ (k % D) - 1) / 3 + (p ^ (k % D) - 1) / 3 := by omega
    rw [this, pow_add, map_mul]
    ring
  have ha : a = Cubic.ofBase hc a.c0 + Cubic.ofBase hc a.c1 * (Cubic.ofBase hc 1 * ⟨0, 1, 0⟩)
      + Cubic.ofBase hc a.c2 * (Cubic.ofBase hc 1 * ⟨0, 0, 1⟩) := by
    rw [Cubic.ofBase_add_mul_X hc, mul_one, mul_one]
  have hpow : a ^ p ^ k =
      ⟨a.c0 ^ p ^ k, a.c1 ^ p ^ k * c1 (k % D), a.c2 ^ p ^ k * c2 (k % D)⟩ := by
    conv_lhs => rw [ha]
    rw [map_one, one_mul, one_mul, add_pow_char_pow, add_pow_char_pow, mul_pow, mul_pow, hX, hX2,
      ← map_pow, ← map_pow, ← map_pow, Cubic.ofBase_add_mul_X hc]
  rw [hpow]
  unfold Cubic.frob
  simp only [hfrobB, hmf, obind_ok]

end cubicring

/-! ## finite base fields: periods of the `p`-power map, and the cubic norm -/

section finite
open Polynomial in
/-- an element of a field `K ⊇ F` fixed by `x ↦ x^|F|` lies in `F` -/
theorem mem_range_of_pow_card {F K : Type} [Field F] [Fintype F] [Field K] (ι : F →+* K) (y : K)
    (hy : y ^ Fintype.card F = y) : ∃ n, ι n = y := by
  classical
  have hq : 1 < Fintype.card F := Fintype.one_lt_card
  have hP : (X ^ Fintype.card F - X : K[X]) ≠ 0 := FiniteField.X_pow_card_sub_X_ne_zero K hq
  have hdeg : (X ^ Fintype.card F - X : K[X]).natDegree = Fintype.card F :=
    FiniteField.X_pow_card_sub_X_natDegree_eq K hq
  have hS : (Finset.univ.image ι).card = Fintype.card F := by
    rw [Finset.card_image_of_injective _ ι.injective, Finset.card_univ]
  have hsub : Finset.univ.image ι ⊆ (X ^ Fintype.card F - X : K[X]).roots.toFinset := by
    intro z hz
    obtain ⟨n, -, rfl⟩ := Finset.mem_image.mp hz
    rw [Multiset.mem_toFinset, mem_roots hP, IsRoot.def, eval_sub, eval_pow, eval_X, sub_eq_zero,
      ← map_pow, FiniteField.pow_card]
  have hle : (X ^ Fintype.card F - X : K[X]).roots.toFinset.card ≤ (Finset.univ.image ι).card := by
    refine (Multiset.toFinset_card_le _).trans ((card_roots' _).trans ?_)
    rw [hdeg, hS]
  have heq := Finset.eq_of_subset_of_card_le hsub hle
  have hy' : y ∈ (X ^ Fintype.card F - X : K[X]).roots.toFinset := by
    rw [Multiset.mem_toFinset, mem_roots hP, IsRoot.def, eval_sub, eval_pow, eval_X, sub_eq_zero, hy]
  rw [← heq] at hy'
  obtain ⟨n, -, h⟩ := Finset.mem_image.mp hy'
  exact ⟨n, h⟩

variable {P F : Type}

def Quad.equivProd : Quad F ≃ F × F where
  toFun a := (a.c0, a.c1)
  invFun x := ⟨x.1, x.2⟩
  left_inv a := by cases a; rfl
  right_inv _ := rfl

def Cubic.equivProd : Cubic F ≃ F × F × F where
  toFun a := (a.c0, a.c1, a.c2)
  invFun x := ⟨x.1, x.2.1, x.2.2⟩
  left_inv a := by cases a; rfl
  right_inv _ := rfl

instance [Fintype F] : Fintype (Quad F) := Fintype.ofEquiv _ Quad.equivProd.symm
instance [Fintype F] : Fintype (Cubic F) := Fintype.ofEquiv _ Cubic.equivProd.symm

theorem Quad.card [Fintype F] : Fintype.card (Quad F) = Fintype.card F ^ 2 := by
  rw [Fintype.card_congr Quad.equivProd, Fintype.card_prod, pow_two]

theorem Cubic.card [Fintype F] : Fintype.card (Cubic F) = Fintype.card F ^ 3 := by
  rw [Fintype.card_congr Cubic.equivProd, Fintype.card_prod, Fintype.card_prod]
  ring

variable [Field F] [DecidableEq F] [Fintype F]

/-- over a finite base field with `|F|² = p^D`, `D` is a period of the `p`-power map of the
    quadratic extension field -/
theorem Quad.pow_period {cfg : QuadCfg F} {B : FieldD P F} (hB : BaseLawful B) (hc : QuadLawful cfg)
    (hnr : ∀ x : F, x * x ≠ cfg.nonresidue) (p D : ℕ) (hcard : Fintype.card F ^ 2 = p ^ D) :
    letI := Quad.commRing cfg B hB hc
    ∀ y : Quad F, y ^ p ^ D = y := by
  letI := Quad.field cfg B hB hc hnr
  intro y
  have := FiniteField.pow_card y
  rwa [Quad.card, hcard] at this

theorem Cubic.pow_period {cfg : CubicCfg F} (hc : CubicLawful cfg)
    (hnc : ∀ x : F, x ^ 3 ≠ cfg.nonresidue) (p D : ℕ) (hcard : Fintype.card F ^ 3 = p ^ D) :
    letI := Cubic.commRing cfg hc
    ∀ y : Cubic F, y ^ p ^ D = y := by
  letI := Cubic.field cfg hc hnc
  intro y
  have := FiniteField.pow_card y
  rwa [Cubic.card, hcard] at this

/-- **cubic norm**: once `frobenius_map(d)`, `frobenius_map(2d)` (`d` = the base's extension degree)
    are the `q`- and `q²`-power maps (`q = |F|`), the `assert!` of `CubicExtField::norm` is
    unreachable and the result `n ∈ F` satisfies `n = a^q · (a^(q²) · a)`. -/
theorem Cubic.norm_spec {cfg : CubicCfg F} {B : FieldD P F} (hc : CubicLawful cfg)
    (hnc : ∀ x : F, x ^ 3 ≠ cfg.nonresidue) (a : Cubic F)
    (hf1 : letI := Cubic.commRing cfg hc
      Cubic.frob cfg B a B.extDeg = .ok (a ^ Fintype.card F))
    (hf2 : letI := Cubic.commRing cfg hc
      Cubic.frob cfg B a (2 * B.extDeg) = .ok (a ^ Fintype.card F ^ 2)) :
    letI := Cubic.commRing cfg hc
    ∃ n : F, Cubic.norm cfg B a = .ok n ∧
      (⟨n, 0, 0⟩ : Cubic F) = a ^ Fintype.card F * (a ^ Fintype.card F ^ 2 * a) := by
  letI := Cubic.field cfg hc hnc
  have hfix : (a ^ Fintype.card F * (a ^ Fintype.card F ^ 2 * a)) ^ Fintype.card F
      = a ^ Fintype.card F * (a ^ Fintype.card F ^ 2 * a) := by
    have h3 : a ^ Fintype.card F ^ 3 = a := by
      have := FiniteField.pow_card a
      rwa [Cubic.card] at this
    calc (a ^ Fintype.card F * (a ^ Fintype.card F ^ 2 * a)) ^ Fintype.card F
        = a ^ Fintype.card F ^ 2 * (a ^ Fintype.card F ^ 3 * a ^ Fintype.card F) := by
          rw [mul_pow, mul_pow, ← pow_mul, ← pow_mul]
          congr 2
          ring_nf
      _ = _ := by rw [h3]; ring
  obtain ⟨n, hn⟩ := mem_range_of_pow_card (Cubic.ofBase hc) _ hfix
  refine ⟨n, ?_, hn⟩
  unfold Cubic.norm
  simp only [hf1, hf2, obind_ok]
  have hr : Cubic.mul cfg (a ^ Fintype.card F) (Cubic.mul cfg (a ^ Fintype.card F ^ 2) a)
      = ⟨n, 0, 0⟩ := hn.symm
  rw [hr]
  simp

end finite

/-! ## the concrete wrappers: hooks and Frobenius tables -/

section wrappers
set_option linter.unusedSectionVars false
variable {F : Type} [Field F] [DecidableEq F]

theorem index_mod_getD (tbl : List F) (D : ℕ) (h : tbl.length = D) (hD : 0 < D) (k : ℕ) :
    index tbl (k % D) = .ok (tbl.getD (k % D) 0) := by
  have hlt : k % D < tbl.length := by rw [h]; exact Nat.mod_lt k hD
  rw [index_of_lt tbl _ hlt, List.getD_eq_getElem?_getD, List.getElem?_eq_getElem hlt]
  rfl

/-- a table that is too short makes some Frobenius power panic (`FROBENIUS_COEFF[power % DEGREE]`) -/
theorem index_mod_panic (tbl : List F) (D : ℕ) (h : tbl.length < D) :
    index tbl (tbl.length % D) = .panic := by
  rw [Nat.mod_eq_of_lt h]
  unfold index
  rw [List.getElem?_eq_none (Nat.le_refl _)]

theorem Fp2Cfg.default_wrap_lawful (nr : F) (tbl : List F) :
    QuadLawful (Fp2Cfg.default nr tbl).wrap where
  mulNr x := by show x * nr = nr * x; ring
  mulNrAndAdd y x := by show y * nr + x = x + nr * y; ring
  mulNrPlusOneAndAdd y x := by show y * nr + x + y = x + nr * y + y; ring
  subAndMulNr y x := by show x - y * nr = x - nr * y; ring

/-- the `bls12_381::Fq2Config` overrides are lawful exactly for `NONRESIDUE = -1` -/
theorem Fp2Cfg.negOne_wrap_lawful (tbl : List F) :
    QuadLawful (Fp2Cfg.negOne (-1 : F) tbl).wrap where
  mulNr x := by show -x = -1 * x; ring
  mulNrAndAdd y x := by show -y + x = x + -1 * y; ring
  mulNrPlusOneAndAdd y x := by show x = x + -1 * y + y; ring
  subAndMulNr y x := by show y + x = x - -1 * y; ring

theorem Fp3Cfg.default_wrap_lawful (nr : F) (c1 c2 : List F) :
    CubicLawful (Fp3Cfg.default nr c1 c2).wrap where
  mulNr x := by show x * nr = nr * x; ring

theorem Fp2Cfg.wrap_mulFrobCoeff (c : Fp2Cfg F) (h : c.frobC1.length = 2) (fe : F) (k : ℕ) :
    c.wrap.mulFrobCoeff fe k = .ok (fe * c.frobC1.getD (k % 2) 0) := by
  show obind (index c.frobC1 (k % 2)) _ = _
  rw [index_mod_getD _ 2 h (by norm_num)]
  rfl

theorem Fp3Cfg.wrap_mulFrobCoeff (c : Fp3Cfg F) (h1 : c.frobC1.length = 3)
    (h2 : c.frobC2.length = 3) (x y : F) (k : ℕ) :
    c.wrap.mulFrobCoeff x y k =
      .ok (x * c.frobC1.getD (k % 3) 0, y * c.frobC2.getD (k % 3) 0) := by
  show obind (index c.frobC1 (k % 3)) _ = _
  rw [index_mod_getD _ 3 h1 (by norm_num)]
  show obind (index c.frobC2 (k % 3)) _ = _
  rw [index_mod_getD _ 3 h2 (by norm_num)]
  rfl

/-- the prime-field dictionary (`models/fp/mod.rs`) over an arbitrary field: same bodies as
    `Ark.Ext.fpD` -/
def primeD (F : Type) [Field F] [DecidableEq F] : FieldD F F where
  extDeg := 1
  square := fun a => a * a
  double := fun a => a + a
  inverse := fun a => .ok (if a = 0 then none else some a⁻¹)
  frob := fun a _ => .ok a
  mulByPrime := fun a e => a * e
  ofPrime := fun e => e
  toPrimes := fun a => [a]
  fromPrimes := fun l => match l with
    | [x] => some x
    | _ => none
  sop2 := fun a0 a1 b0 b1 => a0 * b0 + a1 * b1

theorem primeD_lawful : BaseLawful (primeD F) where
  square _ := rfl
  double _ := rfl
  sop2 _ _ _ _ := rfl
  inverse _ := rfl

/-- on a prime field (`|F| = p`) the identity is the `p^k`-power map -/
theorem primeD_frob [Fintype F] (p : ℕ) (hcard : Fintype.card F = p) (x : F) (k : ℕ) :
    (primeD F).frob x k = .ok (x ^ p ^ k) := by
  show Outcome.ok x = _
  rw [← hcard, FiniteField.pow_card_pow]

theorem primeD_primesLawful : PrimesLawful (primeD F) where
  toLen := fun _ => rfl
  fromTo := fun _ => rfl
  fromSome := by
    intro l
    match l with
    | [] => simp [primeD]
    | [x] => simp [primeD]
    | _ :: _ :: _ => simp [primeD]
  toFrom := by
    intro l x h
    match l with
    | [] => simp [primeD] at h
    | [y] => simp only [primeD, Option.some.injEq] at h; simp [primeD, h]
    | _ :: _ :: _ => simp [primeD] at h

/-- **Frobenius of `Fp2`** (`Fp2ConfigWrapper` over the prime field with `p` odd elements): with the
    two-entry table `C1[i] = β^((p^i-1)/2)`, `frobenius_map(k)` is `a ↦ a^(p^k)` for every `k`. -/
theorem Fp2.frob_eq_pow [Fintype F] (p : ℕ) [Fact p.Prime] [CharP F p] (hp2 : p % 2 = 1)
    (hcard : Fintype.card F = p) (c : Fp2Cfg F) (hc : QuadLawful c.wrap)
    (hnr : ∀ x : F, x * x ≠ c.wrap.nonresidue)
    (hlen : c.frobC1.length = 2)
    (htbl : ∀ i, i < 2 → c.frobC1.getD i 0 = c.nonresidue ^ ((p ^ i - 1) / 2))
    (a : Quad F) (k : ℕ) :
    letI := Quad.commRing c.wrap (primeD F) primeD_lawful hc
    Quad.frob c.wrap (primeD F) a k = .ok (a ^ p ^ k) :=
  Quad.frob_eq_pow p hp2 primeD_lawful hc (primeD_frob p hcard) 2 (fun i => c.frobC1.getD i 0)
    (Fp2Cfg.wrap_mulFrobCoeff c hlen) htbl (by norm_num)
    (Quad.pow_period primeD_lawful hc hnr p 2 (by rw [hcard])) a k

/-- **Frobenius of `Fp3`** (`Fp3ConfigWrapper`, `p ≡ 1 mod 3`) -/
theorem Fp3.frob_eq_pow [Fintype F] (p : ℕ) [Fact p.Prime] [CharP F p] (hp3 : p % 3 = 1)
    (hcard : Fintype.card F = p) (c : Fp3Cfg F) (hc : CubicLawful c.wrap)
    (hnc : ∀ x : F, x ^ 3 ≠ c.wrap.nonresidue)
    (hlen1 : c.frobC1.length = 3) (hlen2 : c.frobC2.length = 3)
    (htbl1 : ∀ i, i < 3 → c.frobC1.getD i 0 = c.nonresidue ^ ((p ^ i - 1) / 3))
    (htbl2 : ∀ i, i < 3 → c.frobC2.getD i 0 = c.nonresidue ^ ((2 * p ^ i - 2) / 3))
    (a : Cubic F) (k : ℕ) :
    letI := Cubic.commRing c.wrap hc
    Cubic.frob c.wrap (primeD F) a k = .ok (a ^ p ^ k) :=
  Cubic.frob_eq_pow p hp3 hc (primeD_frob p hcard) 3 (fun i => c.frobC1.getD i 0)
    (fun i => c.frobC2.getD i 0)
    (Fp3Cfg.wrap_mulFrobCoeff c hlen1 hlen2) htbl1 htbl2 (by norm_num)
    (Cubic.pow_period hc hnc p 3 (by rw [hcard])) a k

/-- **norm of `Fp3`**: with correct tables the `assert!` is unreachable and the result is
    `a^p · (a^(p²) · a)` -/
theorem Fp3.norm_spec [Fintype F] (p : ℕ) [Fact p.Prime] [CharP F p] (hp3 : p % 3 = 1)
    (hcard : Fintype.card F = p) (c : Fp3Cfg F) (hc : CubicLawful c.wrap)
    (hnc : ∀ x : F, x ^ 3 ≠ c.wrap.nonresidue)
    (hlen1 : c.frobC1.length = 3) (hlen2 : c.frobC2.length = 3)
    (htbl1 : ∀ i, i < 3 → c.frobC1.getD i 0 = c.nonresidue ^ ((p ^ i - 1) / 3))
    (htbl2 : ∀ i, i < 3 → c.frobC2.getD i 0 = c.nonresidue ^ ((2 * p ^ i - 2) / 3))
    (a : Cubic F) :
    letI := Cubic.commRing c.wrap hc
    ∃ n : F, Cubic.norm c.wrap (primeD F) a = .ok n ∧
      (⟨n, 0, 0⟩ : Cubic F) = a ^ p * (a ^ p ^ 2 * a) := by
  letI := Cubic.commRing c.wrap hc
  have h1 := Fp3.frob_eq_pow p hp3 hcard c hc hnc hlen1 hlen2 htbl1 htbl2 a 1
  have h2 := Fp3.frob_eq_pow p hp3 hcard c hc hnc hlen1 hlen2 htbl1 htbl2 a 2
  rw [pow_one] at h1
  have := Cubic.norm_spec (B := primeD F) hc hnc a (by rw [hcard]; exact h1)
    (by rw [hcard]; exact h2)
  rwa [hcard] at this

end wrappers

/-! ## cyclotomic operations of the quadratic layers -/

section quadcyc
variable {P F : Type} [Field F] [DecidableEq F]
variable {cfg : QuadCfg F} {B : FieldD P F}

theorem Quad.norm_zero (hB : BaseLawful B) (hc : QuadLawful cfg) :
    Quad.norm cfg B (0 : Quad F) = 0 := by
  rw [Quad.norm_eq hB hc]; simp

theorem Quad.ne_zero_of_norm_one (hB : BaseLawful B) (hc : QuadLawful cfg) (a : Quad F)
    (hn : Quad.norm cfg B a = 1) : ¬ (a.c0 = 0 ∧ a.c1 = 0) := by
  intro h
  have : a = 0 := (Quad.eq_zero_iff a).mpr h
  rw [this, Quad.norm_zero hB hc] at hn
  exact zero_ne_one hn

/-- `cyclotomic_inverse` of the quadratic-extension impls: the conjugate, which on unitary elements
    is the inverse -/
theorem cycInverse_conj (hB : BaseLawful B) (hc : QuadLawful cfg) (D : FieldD P (Quad F))
    (cs : Option (Quad F → Quad F)) (a : Quad F) (hn : Quad.norm cfg B a = 1) :
    (CycD.conj D cs).cycInverse a = .ok (some (Quad.conj a)) := by
  show (if a.c0 = 0 ∧ a.c1 = 0 then _ else _) = _
  rw [if_neg (Quad.ne_zero_of_norm_one hB hc a hn)]

theorem Quad.mul_conj_of_norm_one (hB : BaseLawful B) (hc : QuadLawful cfg) (a : Quad F)
    (hn : Quad.norm cfg B a = 1) : Quad.mul cfg B a (Quad.conj a) = 1 := by
  rw [Quad.mul_conj hB hc, hn]; rfl

/-- a unitary element as a unit of the model's ring -/
def Quad.unitOfNormOne (hB : BaseLawful B) (hc : QuadLawful cfg) (a : Quad F)
    (hn : Quad.norm cfg B a = 1) :
    letI := Quad.commRing cfg B hB hc
    (Quad F)ˣ :=
  letI := Quad.commRing cfg B hB hc
  { val := a
    inv := Quad.conj a
    val_inv := Quad.mul_conj_of_norm_one hB hc a hn
    inv_val := by rw [mul_comm]; exact Quad.mul_conj_of_norm_one hB hc a hn }

/-- `cyclotomic_exp` of the quadratic-extension impls (`INVERSE_IS_FAST = true`, NAF digits,
    inverse = conjugate) on a unitary element `a`, for any cyclotomic squaring that is correct on the
    powers of `a`: the result is `a ^ e` -/
theorem Quad.cycExp_conj_gen (hB : BaseLawful B) (hc : QuadLawful cfg) (D : FieldD P (Quad F))
    (cs : Option (Quad F → Quad F)) (a : Quad F) (hn : Quad.norm cfg B a = 1)
    (hsq : letI := Quad.commRing cfg B hB hc
      ∀ z : ℤ, (CycD.conj D cs).cycSquare ((Quad.unitOfNormOne hB hc a hn ^ z : (Quad F)ˣ) : Quad F)
        = ((Quad.unitOfNormOne hB hc a hn ^ z : (Quad F)ˣ) : Quad F) *
          ((Quad.unitOfNormOne hB hc a hn ^ z : (Quad F)ˣ) : Quad F))
    (e : List Nat) (he : WF e) :
    letI := Quad.commRing cfg B hB hc
    cycExp (CycD.conj D cs) a e = .ok (a ^ value e) := by
  letI := Quad.commRing cfg B hB hc
  have hne : ((Quad.unitOfNormOne hB hc a hn : (Quad F)ˣ) : Quad F) ≠ 0 := by
    intro h
    exact Quad.ne_zero_of_norm_one hB hc a hn ((Quad.eq_zero_iff a).mp h)
  exact cycExp_units (CycD.conj D cs) (Quad.unitOfNormOne hB hc a hn) hne hsq
    (fun _ => cycInverse_conj hB hc D cs a hn) e he

/-- … in particular with the generic squaring (Fp2, Fp4, Fp6 2-over-3) -/
theorem Quad.cycExp_conj (hB : BaseLawful B) (hc : QuadLawful cfg) (a : Quad F)
    (hn : Quad.norm cfg B a = 1) (e : List Nat) (he : WF e) :
    letI := Quad.commRing cfg B hB hc
    cycExp (CycD.conj (Quad.fieldD cfg B) none) a e = .ok (a ^ value e) :=
  Quad.cycExp_conj_gen hB hc (Quad.fieldD cfg B) none a hn
    (fun _ => Quad.square_eq hB hc _) e he

end quadcyc

section cubiccyc
variable {P F : Type} [Field F] [DecidableEq F]
variable {cfg : CubicCfg F} {B : FieldD P F}

/-- `cyclotomic_exp` of the default impl (Fp3, Fp6 3-over-2: `INVERSE_IS_FAST = false`, plain bits)
    on a non-zero element of the cubic extension field -/
theorem Cubic.cycExp_default (hB : BaseLawful B) (hc : CubicLawful cfg)
    (hnc : ∀ x : F, x ^ 3 ≠ cfg.nonresidue) (a : Cubic F) (ha : a ≠ 0) (e : List Nat) (he : WF e) :
    letI := Cubic.commRing cfg hc
    cycExp (CycD.default (Cubic.fieldD cfg B)) a e = .ok (a ^ value e) := by
  letI := Cubic.field cfg hc hnc
  exact cycExp_units (CycD.default (Cubic.fieldD cfg B)) (Units.mk0 a ha) ha
    (fun _ => Cubic.square_eq hB hc _) (fun h => by cases h) e he

end cubiccyc

/-! ## Granger–Scott cyclotomic squaring of `Fp12 = Fp6[w]/(w² - v)`, `Fp6 = Fp2[v]/(v³ - ξ)` -/

section quadnorm
set_option linter.unusedSectionVars false
variable {P F : Type} [Field F] [DecidableEq F]
variable {cfg : QuadCfg F} {B : FieldD P F}

theorem Quad.norm_mul (hB : BaseLawful B) (hc : QuadLawful cfg) (a b : Quad F) :
    Quad.norm cfg B (Quad.mul cfg B a b) = Quad.norm cfg B a * Quad.norm cfg B b := by
  rw [Quad.norm_eq hB hc, Quad.norm_eq hB hc, Quad.norm_eq hB hc, Quad.mul_eq hB hc]
  ring

theorem Quad.norm_conj (hB : BaseLawful B) (hc : QuadLawful cfg) (a : Quad F) :
    Quad.norm cfg B (Quad.conj a) = Quad.norm cfg B a := by
  rw [Quad.norm_eq hB hc, Quad.norm_eq hB hc]
  simp only [Quad.conj]
  ring

theorem Quad.norm_one (hB : BaseLawful B) (hc : QuadLawful cfg) :
    Quad.norm cfg B (1 : Quad F) = 1 := by
  rw [Quad.norm_eq hB hc]; simp

/-- a property of unitary elements that holds for `1`, is closed under the model's multiplication and
    holds for `a` and its conjugate holds for every integer power of `a` -/
theorem Quad.unit_zpow_induction (hB : BaseLawful B) (hc : QuadLawful cfg) (a : Quad F)
    (hn : Quad.norm cfg B a = 1) (S : Quad F → Prop) (h1 : S 1)
    (hmul : ∀ x y, S x → S y → S (Quad.mul cfg B x y)) (ha : S a) (hca : S (Quad.conj a))
    (z : ℤ) :
    letI := Quad.commRing cfg B hB hc
    S ((Quad.unitOfNormOne hB hc a hn ^ z : (Quad F)ˣ) : Quad F) := by
  letI := Quad.commRing cfg B hB hc
  induction z using Int.induction_on with
  | zero => rw [zpow_zero]; exact h1
  | succ n ih =>
    rw [zpow_add_one, Units.val_mul]
    exact hmul _ _ ih ha
  | pred n ih =>
    rw [zpow_sub_one, Units.val_mul]
    exact hmul _ _ ih hca

end quadnorm

section gs
set_option linter.unusedSectionVars false
variable {P G : Type} [Field G] [DecidableEq G]

/-- schoolbook product of `Fp6 = G[v]/(v³ - ξ)` -/
def cmul (ξ : G) (a b : Cubic G) : Cubic G :=
  ⟨a.c0 * b.c0 + ξ * (a.c1 * b.c2 + a.c2 * b.c1),
   a.c0 * b.c1 + a.c1 * b.c0 + ξ * (a.c2 * b.c2),
   a.c0 * b.c2 + a.c1 * b.c1 + a.c2 * b.c0⟩

/-- schoolbook product of `Fp12 = Fp6[w]/(w² - v)` -/
def mul12 (ξ : G) (x y : Quad (Cubic G)) : Quad (Cubic G) :=
  ⟨cmul ξ x.c0 y.c0 + cmul ξ ⟨0, 1, 0⟩ (cmul ξ x.c1 y.c1), cmul ξ x.c0 y.c1 + cmul ξ x.c1 y.c0⟩

/-- `Fp12 = Fp4[w]/(w³ - t)` with `Fp4 = G[t]/(t² - ξ)`, `t = w³`: writing
    `s = A + B w + C w²` with `A = r0 + r1 t`, `B = r2 + r3 t`, `C = r4 + r5 t`
    (`r0 r4 r3 = s.c0`, `r2 r1 r5 = s.c1` as in the Rust code), this is the adjugate
    `(A² - tBC) + (tC² - AB) w + (B² - AC) w²` of `s` over `Fp4`. -/
def adj4 (ξ : G) (s : Quad (Cubic G)) : Quad (Cubic G) :=
  let r0 := s.c0.c0
  let r4 := s.c0.c1
  let r3 := s.c0.c2
  let r2 := s.c1.c0
  let r1 := s.c1.c1
  let r5 := s.c1.c2
  ⟨⟨r0 ^ 2 + ξ * r1 ^ 2 - ξ * (r2 * r5 + r3 * r4),
    r2 ^ 2 + ξ * r3 ^ 2 - r0 * r4 - ξ * (r1 * r5),
    r4 ^ 2 + ξ * r5 ^ 2 - r0 * r3 - r1 * r2⟩,
   ⟨2 * ξ * (r4 * r5) - r0 * r2 - ξ * (r1 * r3),
    2 * r0 * r1 - (r2 * r4 + ξ * (r3 * r5)),
    2 * r2 * r3 - r0 * r5 - r1 * r4⟩⟩

/-- the Granger–Scott relations: the `Fp4`-adjugate of `s` is its `Fp6`-conjugate, i.e.
    `Ā = A² - tBC`, `B̄ = AB - tC²`, `C̄ = B² - AC` (the bar is the conjugation of `Fp4/Fp2`).
    On non-zero `s` this says `s^(p⁴) · s = s^(p²)`, i.e. `s` is in the cyclotomic subgroup of
    order `Φ₁₂(p) = p⁴ - p² + 1`. -/
def GSRel (ξ : G) (s : Quad (Cubic G)) : Prop := adj4 ξ s = Quad.conj s

theorem adj4_mul (ξ : G) (x y : Quad (Cubic G)) :
    adj4 ξ (mul12 ξ x y) = mul12 ξ (adj4 ξ x) (adj4 ξ y) := by
  obtain ⟨⟨x0, x4, x3⟩, ⟨x2, x1, x5⟩⟩ := x
  obtain ⟨⟨y0, y4, y3⟩, ⟨y2, y1, y5⟩⟩ := y
  simp only [adj4, mul12, cmul, Cubic.add_c0, Cubic.add_c1, Cubic.add_c2]
  apply Quad.ext' <;> apply Cubic.ext' <;>
    simp only [Cubic.add_c0, Cubic.add_c1, Cubic.add_c2] <;> ring

theorem adj4_conj (ξ : G) (x : Quad (Cubic G)) :
    adj4 ξ (Quad.conj x) = Quad.conj (adj4 ξ x) := by
  obtain ⟨⟨x0, x4, x3⟩, ⟨x2, x1, x5⟩⟩ := x
  simp only [adj4, Quad.conj]
  apply Quad.ext' <;> apply Cubic.ext' <;> simp <;> ring

theorem conj_mul12 (ξ : G) (x y : Quad (Cubic G)) :
    Quad.conj (mul12 ξ x y) = mul12 ξ (Quad.conj x) (Quad.conj y) := by
  obtain ⟨⟨x0, x4, x3⟩, ⟨x2, x1, x5⟩⟩ := x
  obtain ⟨⟨y0, y4, y3⟩, ⟨y2, y1, y5⟩⟩ := y
  simp only [mul12, cmul, Quad.conj]
  apply Quad.ext' <;> apply Cubic.ext' <;> simp <;> ring

theorem GSRel.one (ξ : G) : GSRel ξ (1 : Quad (Cubic G)) := by
  unfold GSRel adj4 Quad.conj
  apply Quad.ext' <;> apply Cubic.ext' <;> simp

theorem GSRel.mul {ξ : G} {x y : Quad (Cubic G)} (hx : GSRel ξ x) (hy : GSRel ξ y) :
    GSRel ξ (mul12 ξ x y) := by
  unfold GSRel at *
  rw [adj4_mul, hx, hy, conj_mul12]

theorem GSRel.conj {ξ : G} {x : Quad (Cubic G)} (hx : GSRel ξ x) : GSRel ξ (Quad.conj x) := by
  unfold GSRel at *
  rw [adj4_conj, hx]

/-- the hooks of `Fp12ConfigWrapper` (coordinate rotation with the `Fp6Config` hook) are lawful for
    `NONRESIDUE = v = (0,1,0)` -/
theorem Fp12.cfg_lawful (c6 : Fp6bCfg G) (hc : CubicLawful c6.wrap)
    (hnc : ∀ x : G, x ^ 3 ≠ c6.wrap.nonresidue) (tbl : List G) :
    @QuadLawful (Cubic G) (Cubic.field c6.wrap hc hnc) (Fp12.cfg c6 ⟨0, 1, 0⟩ tbl) := by
  letI := Cubic.field c6.wrap hc hnc
  have hm : ∀ x : Cubic G, Fp12.mulFp6ByNr c6 x = Cubic.mul c6.wrap ⟨0, 1, 0⟩ x := by
    intro x
    rw [Cubic.mul_eq hc]
    have := hc.mulNr x.c2
    apply Cubic.ext' <;> simp [Fp12.mulFp6ByNr]
    exact this
  refine ⟨?_, ?_, ?_, ?_⟩
  · intro x; exact hm x
  · intro y x
    show Fp12.mulFp6ByNr c6 y + x = x + Cubic.mul c6.wrap ⟨0, 1, 0⟩ y
    rw [hm, add_comm]
  · intro y x
    show Fp12.mulFp6ByNr c6 y + x + y = x + Cubic.mul c6.wrap ⟨0, 1, 0⟩ y + y
    rw [hm, add_comm x]
  · intro y x
    show x - Fp12.mulFp6ByNr c6 y = x - Cubic.mul c6.wrap ⟨0, 1, 0⟩ y
    rw [hm]

theorem Cubic.mul_eq_cmul {c : CubicCfg G} (hc : CubicLawful c) (a b : Cubic G) :
    Cubic.mul c a b = cmul c.nonresidue a b := Cubic.mul_eq hc a b

/-- the model's `Fp12` multiplication is the two-level schoolbook product -/
theorem Fp12.mul_eq_mul12 (c6 : Fp6bCfg G) (hc : CubicLawful c6.wrap)
    (hnc : ∀ x : G, x ^ 3 ≠ c6.wrap.nonresidue) (tbl : List G)
    (B2 : FieldD P G) (hB2 : BaseLawful B2) (x y : Quad (Cubic G)) :
    letI := Cubic.field c6.wrap hc hnc
    Quad.mul (Fp12.cfg c6 ⟨0, 1, 0⟩ tbl) (Cubic.fieldD c6.wrap B2) x y
      = mul12 c6.wrap.nonresidue x y := by
  letI := Cubic.field c6.wrap hc hnc
  have hB6 := Cubic.fieldD_baseLawful hB2 hc hnc
  have hc12 := Fp12.cfg_lawful c6 hc hnc tbl
  rw [Quad.mul_eq hB6 hc12]
  show (⟨Cubic.mul c6.wrap x.c0 y.c0 + Cubic.mul c6.wrap ⟨0, 1, 0⟩ (Cubic.mul c6.wrap x.c1 y.c1),
    Cubic.mul c6.wrap x.c0 y.c1 + Cubic.mul c6.wrap x.c1 y.c0⟩ : Quad (Cubic G)) = _
  simp only [Cubic.mul_eq_cmul hc]
  rfl

/-- **Granger–Scott**: on an element satisfying the relations, the compressed squaring is the
    square -/
theorem Fp12.cycSquare_eq_mul12 (c6 : Fp6bCfg G) (hc : CubicLawful c6.wrap)
    (dbl : G → G) (hd : ∀ x, dbl x = x + x) (sq : Quad (Cubic G) → Quad (Cubic G))
    (limbs : List Nat) (hl : charSquareMod6IsOne limbs = true)
    (s : Quad (Cubic G)) (hs : GSRel c6.wrap.nonresidue s) :
    Fp12.cycSquare c6 dbl sq limbs s = mul12 c6.wrap.nonresidue s s := by
  unfold Fp12.cycSquare
  rw [if_pos hl]
  have hm : ∀ x, c6.mulNr x = c6.wrap.nonresidue * x := hc.mulNr
  simp only [hd, hm, mul12, cmul]
  unfold GSRel adj4 Quad.conj at hs
  obtain ⟨⟨r0, r4, r3⟩, ⟨r2, r1, r5⟩⟩ := s
  have h0 := congrArg Quad.c0 hs
  have h1 := congrArg Quad.c1 hs
  have a0 := congrArg Cubic.c0 h0
  have c0 := congrArg Cubic.c1 h0
  have b1 := congrArg Cubic.c2 h0
  have b0 := congrArg Cubic.c0 h1
  have a1 := congrArg Cubic.c1 h1
  have c1 := congrArg Cubic.c2 h1
  simp only [Cubic.neg_c0, Cubic.neg_c1, Cubic.neg_c2] at a0 c0 b1 b0 a1 c1
  apply Quad.ext' <;> apply Cubic.ext' <;> simp only [Cubic.add_c0, Cubic.add_c1, Cubic.add_c2]
  · linear_combination 2 * a0
  · linear_combination 2 * c0
  · linear_combination 2 * b1
  · linear_combination 2 * b0
  · linear_combination 2 * a1
  · linear_combination 2 * c1

/-- when `p² ≢ 1 (mod 6)` the Rust code falls back to the generic squaring -/
theorem Fp12.cycSquare_fallback (c6 : Fp6bCfg G) (dbl : G → G)
    (sq : Quad (Cubic G) → Quad (Cubic G)) (limbs : List Nat)
    (hl : charSquareMod6IsOne limbs = false) (s : Quad (Cubic G)) :
    Fp12.cycSquare c6 dbl sq limbs s = sq s := by
  unfold Fp12.cycSquare
  rw [hl]; rfl

/-- **`cyclotomic_exp` of `Fp12`** (conjugation inverse, NAF digits, Granger–Scott squaring when
    `p² ≡ 1 mod 6`, generic squaring otherwise): on a unitary element satisfying the
    Granger–Scott relations the result is `s ^ e` (power w.r.t. the model's multiplication). -/
theorem Fp12.cycExp_spec (c6 : Fp6bCfg G) (hc : CubicLawful c6.wrap)
    (hnc : ∀ x : G, x ^ 3 ≠ c6.wrap.nonresidue) (tbl : List G)
    (B2 : FieldD P G) (hB2 : BaseLawful B2) (limbs : List Nat) (s : Quad (Cubic G))
    (hn : letI := Cubic.field c6.wrap hc hnc
      Quad.norm (Fp12.cfg c6 ⟨0, 1, 0⟩ tbl) (Cubic.fieldD c6.wrap B2) s = 1)
    (hs : GSRel c6.wrap.nonresidue s) (e : List Nat) (he : WF e) :
    letI := Cubic.field c6.wrap hc hnc
    letI := Quad.commRing (Fp12.cfg c6 ⟨0, 1, 0⟩ tbl) (Cubic.fieldD c6.wrap B2)
      (Cubic.fieldD_baseLawful hB2 hc hnc) (Fp12.cfg_lawful c6 hc hnc tbl)
    cycExp (CycD.conj (Quad.fieldD (Fp12.cfg c6 ⟨0, 1, 0⟩ tbl) (Cubic.fieldD c6.wrap B2))
      (some (Fp12.cycSquare c6 B2.double
        (Quad.fieldD (Fp12.cfg c6 ⟨0, 1, 0⟩ tbl) (Cubic.fieldD c6.wrap B2)).square limbs))) s e
      = .ok (s ^ value e) := by
  letI := Cubic.field c6.wrap hc hnc
  have hB6 := Cubic.fieldD_baseLawful hB2 hc hnc
  have hc12 := Fp12.cfg_lawful c6 hc hnc tbl
  refine Quad.cycExp_conj_gen hB6 hc12 _ _ s hn ?_ e he
  intro z
  obtain ⟨-, hsz⟩ := Quad.unit_zpow_induction hB6 hc12 s hn
    (fun x => Quad.norm (Fp12.cfg c6 ⟨0, 1, 0⟩ tbl) (Cubic.fieldD c6.wrap B2) x = 1 ∧
      GSRel c6.wrap.nonresidue x)
    ⟨Quad.norm_one hB6 hc12, GSRel.one _⟩
    (by
      rintro x y ⟨hx1, hx2⟩ ⟨hy1, hy2⟩
      refine ⟨by rw [Quad.norm_mul hB6 hc12, hx1, hy1, mul_one], ?_⟩
      rw [Fp12.mul_eq_mul12 c6 hc hnc tbl B2 hB2]
      exact hx2.mul hy2)
    ⟨hn, hs⟩ ⟨by rw [Quad.norm_conj hB6 hc12]; exact hn, hs.conj⟩ z
  show Fp12.cycSquare c6 B2.double _ limbs _ = Quad.mul _ _ _ _
  cases hl : charSquareMod6IsOne limbs with
  | true =>
    rw [Fp12.cycSquare_eq_mul12 c6 hc B2.double hB2.double _ limbs hl _ hsz,
      Fp12.mul_eq_mul12 c6 hc hnc tbl B2 hB2]
  | false =>
    rw [Fp12.cycSquare_fallback c6 _ _ limbs hl]
    exact Quad.square_eq hB6 hc12 _

end gs


/-! ## coordinates of `p^n`-th powers; the cyclotomic subgroup of `Fp12` -/

section powcoords
set_option linter.unusedSectionVars false
variable {P F : Type} [Field F] [DecidableEq F]

/-- coordinates of a `p^n`-th power on a quadratic layer (`p^n` odd) -/
theorem Quad.pow_char_pow_coords {cfg : QuadCfg F} {B : FieldD P F} (p : ℕ) [Fact p.Prime]
    [CharP F p] (hB : BaseLawful B) (hc : QuadLawful cfg) (n : ℕ) (hodd : p ^ n % 2 = 1)
    (a : Quad F) :
    letI := Quad.commRing cfg B hB hc
    a ^ p ^ n = ⟨a.c0 ^ p ^ n, a.c1 ^ p ^ n * cfg.nonresidue ^ ((p ^ n - 1) / 2)⟩ := by
  letI := Quad.commRing cfg B hB hc
  haveI := Quad.charP hB hc (cfg := cfg) (B := B) p
  have hX : (⟨0, 1⟩ : Quad F) ^ p ^ n =
      Quad.ofBase hB hc (cfg.nonresidue ^ ((p ^ n - 1) / 2)) * ⟨0, 1⟩ := by
    have : p ^ n = 2 * ((p ^ n - 1) / 2) + 1 := by omega
    conv_lhs => rw [this]
    exact Quad.X_pow_odd hB hc _
  have ha : a = Quad.ofBase hB hc a.c0 + Quad.ofBase hB hc a.c1 * (Quad.ofBase hB hc 1 * ⟨0, 1⟩) := by
    rw [Quad.ofBase_add_mul_X hB hc, mul_one]
  conv_lhs => rw [ha]
  rw [map_one, one_mul, add_pow_char_pow, mul_pow, hX, ← map_pow, ← map_pow,
    Quad.ofBase_add_mul_X hB hc]

/-- coordinates of a `p^n`-th power on a cubic layer (`p^n ≡ 1 mod 3`) -/
theorem Cubic.pow_char_pow_coords {cfg : CubicCfg F} (p : ℕ) [Fact p.Prime]
    [CharP F p] (hc : CubicLawful cfg) (n : ℕ) (h3 : p ^ n % 3 = 1) (a : Cubic F) :
    letI := Cubic.commRing cfg hc
    a ^ p ^ n = ⟨a.c0 ^ p ^ n, a.c1 ^ p ^ n * cfg.nonresidue ^ ((p ^ n - 1) / 3),
      a.c2 ^ p ^ n * (cfg.nonresidue ^ ((p ^ n - 1) / 3)) ^ 2⟩ := by
  letI := Cubic.commRing cfg hc
  haveI := Cubic.charP hc (cfg := cfg) p
  have hX : (⟨0, 1, 0⟩ : Cubic F) ^ p ^ n =
      Cubic.ofBase hc (cfg.nonresidue ^ ((p ^ n - 1) / 3)) * ⟨0, 1, 0⟩ := by
    have : p ^ n = 3 * ((p ^ n - 1) / 3) + 1 := by omega
    conv_lhs => rw [this]
    exact Cubic.X_pow hc _
  have hX2 : (⟨0, 0, 1⟩ : Cubic F) ^ p ^ n =
      Cubic.ofBase hc ((cfg.nonresidue ^ ((p ^ n - 1) / 3)) ^ 2) * ⟨0, 0, 1⟩ := by
    rw [← Cubic.X_mul_X hc, mul_pow, hX, pow_two (cfg.nonresidue ^ _), map_mul]
    ring
  have ha : a = Cubic.ofBase hc a.c0 + Cubic.ofBase hc a.c1 * (Cubic.ofBase hc 1 * ⟨0, 1, 0⟩)
      + Cubic.ofBase hc a.c2 * (Cubic.ofBase hc 1 * ⟨0, 0, 1⟩) := by
    rw [Cubic.ofBase_add_mul_X hc, mul_one, mul_one]
  conv_lhs => rw [ha]
  rw [map_one, one_mul, one_mul, add_pow_char_pow, add_pow_char_pow, mul_pow, mul_pow, hX, hX2,
    ← map_pow, ← map_pow, ← map_pow, Cubic.ofBase_add_mul_X hc]

end powcoords

section gsmem
set_option linter.unusedSectionVars false
variable {P G : Type} [Field G] [DecidableEq G]

/-- the `q`-power Frobenius of `Fp12` over `G = F_q` in coordinates: `g_i w^i ↦ g_i γ^i w^i` with
    `γ = ξ^((q-1)/6)` -/
def sigma (γ : G) (s : Quad (Cubic G)) : Quad (Cubic G) :=
  ⟨⟨s.c0.c0, s.c0.c1 * γ ^ 2, s.c0.c2 * γ ^ 4⟩, ⟨s.c1.c0 * γ, s.c1.c1 * γ ^ 3, s.c1.c2 * γ ^ 5⟩⟩

/-- if `σ²(s)·s = σ(s)` for a primitive sixth root of unity `γ` then the Granger–Scott relations
    hold -/
theorem GSRel.of_sigma (ξ γ : G) (hγ : γ ^ 2 - γ + 1 = 0) (s : Quad (Cubic G))
    (E : mul12 ξ (sigma γ (sigma γ s)) s = sigma γ s) : GSRel ξ s := by
  have hγ0 : γ ≠ 0 := by
    intro h; rw [h] at hγ; simp at hγ
  have hγ1 : γ - 1 ≠ 0 := by
    intro h
    have : γ = 1 := by linear_combination h
    rw [this] at hγ; simp at hγ
  have g2 : γ ^ 2 = γ - 1 := by linear_combination hγ
  have g3 : γ ^ 3 = -1 := by linear_combination (γ + 1) * hγ
  have g4 : γ ^ 4 = -γ := by linear_combination (γ ^ 2 + γ) * hγ
  have g5 : γ ^ 5 = 1 - γ := by linear_combination (γ ^ 3 + γ ^ 2 - 1) * hγ
  have g6 : γ ^ 6 = 1 := by
    rw [show γ ^ 6 = γ ^ 3 * γ ^ 3 by ring, g3]; ring
  have g8 : γ ^ 8 = γ - 1 := by
    rw [show γ ^ 8 = γ ^ 4 * γ ^ 4 by ring, g4]; linear_combination g2
  have g10 : γ ^ 10 = -γ := by
    rw [show γ ^ 10 = γ ^ 5 * γ ^ 5 by ring, g5]; linear_combination g2
  obtain ⟨⟨r0, r4, r3⟩, ⟨r2, r1, r5⟩⟩ := s
  have hs1 : sigma γ ⟨⟨r0, r4, r3⟩, ⟨r2, r1, r5⟩⟩ =
      ⟨⟨r0, r4 * (γ - 1), r3 * (-γ)⟩, ⟨r2 * γ, r1 * (-1), r5 * (1 - γ)⟩⟩ := by
    simp only [sigma, g2, g3, g4, g5]
  have hs2 : sigma γ (sigma γ ⟨⟨r0, r4, r3⟩, ⟨r2, r1, r5⟩⟩) =
      ⟨⟨r0, r4 * (-γ), r3 * (γ - 1)⟩, ⟨r2 * (γ - 1), r1, r5 * (-γ)⟩⟩ := by
    simp only [sigma]
    apply Quad.ext' <;> apply Cubic.ext' <;> simp only []
    · rw [mul_assoc, ← pow_add, g4]
    · rw [mul_assoc, ← pow_add, g8]
    · rw [mul_assoc, ← pow_two, g2]
    · rw [mul_assoc, ← pow_add, g6, mul_one]
    · rw [mul_assoc, ← pow_add, g10]
  rw [hs2, hs1] at E
  simp only [mul12, cmul] at E
  have h0 := congrArg Quad.c0 E
  have h1 := congrArg Quad.c1 E
  have e0 := congrArg Cubic.c0 h0
  have e1 := congrArg Cubic.c1 h0
  have e2 := congrArg Cubic.c2 h0
  have e3 := congrArg Cubic.c0 h1
  have e4 := congrArg Cubic.c1 h1
  have e5 := congrArg Cubic.c2 h1
  simp only [Cubic.add_c0, Cubic.add_c1, Cubic.add_c2] at e0 e1 e2 e3 e4 e5
  unfold GSRel adj4 Quad.conj
  apply Quad.ext' <;> apply Cubic.ext' <;> simp only [Cubic.neg_c0, Cubic.neg_c1, Cubic.neg_c2]
  · linear_combination e0
  · apply mul_left_cancel₀ hγ1
    linear_combination e1
  · apply mul_left_cancel₀ hγ0
    linear_combination (-1 : G) * e2
  · apply mul_left_cancel₀ hγ0
    linear_combination (-1 : G) * e3
  · linear_combination e4
  · apply mul_left_cancel₀ hγ1
    linear_combination e5


/-- the `|G|`-power map of `Fp12` over a finite `G` with `|G| ≡ 1 mod 6` is `sigma γ`,
    `γ = ξ^((|G|-1)/6)` -/
theorem Fp12.pow_card_eq_sigma [Fintype G] (p : ℕ) [Fact p.Prime] [CharP G p]
    (hq6 : Fintype.card G % 6 = 1) (c6 : Fp6bCfg G) (hc : CubicLawful c6.wrap)
    (hnc : ∀ x : G, x ^ 3 ≠ c6.wrap.nonresidue) (tbl : List G)
    (B2 : FieldD P G) (hB2 : BaseLawful B2) (s : Quad (Cubic G)) :
    letI := Cubic.field c6.wrap hc hnc
    letI := Quad.commRing (Fp12.cfg c6 ⟨0, 1, 0⟩ tbl) (Cubic.fieldD c6.wrap B2)
      (Cubic.fieldD_baseLawful hB2 hc hnc) (Fp12.cfg_lawful c6 hc hnc tbl)
    s ^ Fintype.card G = sigma (c6.wrap.nonresidue ^ ((Fintype.card G - 1) / 6)) s := by
  letI := Cubic.field c6.wrap hc hnc
  haveI : CharP (Cubic G) p := Cubic.charP hc p
  have hB6 := Cubic.fieldD_baseLawful hB2 hc hnc
  have hc12 := Fp12.cfg_lawful c6 hc hnc tbl
  obtain ⟨n, -, hn⟩ := FiniteField.card G p
  have hodd : p ^ (n : ℕ) % 2 = 1 := by rw [← hn]; omega
  have h3 : p ^ (n : ℕ) % 3 = 1 := by rw [← hn]; omega
  have hfix : ∀ r : G, r ^ p ^ (n : ℕ) = r := by
    intro r; rw [← hn]; exact FiniteField.pow_card r
  have e1 := Quad.pow_char_pow_coords p hB6 hc12 n hodd s
  have e2 := Cubic.pow_char_pow_coords (cfg := c6.wrap) p hc n h3 s.c0
  have e3 := Cubic.pow_char_pow_coords (cfg := c6.wrap) p hc n h3 s.c1
  have e4 : ((⟨0, 1, 0⟩ : Cubic G)) ^ ((p ^ (n : ℕ) - 1) / 2) =
      ⟨c6.wrap.nonresidue ^ ((p ^ (n : ℕ) - 1) / 6), 0, 0⟩ := by
    have : (p ^ (n : ℕ) - 1) / 2 = 3 * ((p ^ (n : ℕ) - 1) / 6) := by
      rw [← hn]; omega
    rw [this, pow_mul]
    have := Cubic.X_cube (cfg := c6.wrap) hc
    rw [this, ← map_pow]
    rfl
  rw [hn]
  refine e1.trans ?_
  show (⟨s.c0 ^ p ^ (n : ℕ), Cubic.mul c6.wrap (s.c1 ^ p ^ (n : ℕ))
    ((⟨0, 1, 0⟩ : Cubic G) ^ ((p ^ (n : ℕ) - 1) / 2))⟩ : Quad (Cubic G)) = _
  rw [e4]
  have e2' : s.c0 ^ p ^ (n : ℕ) = _ := e2
  have e3' : s.c1 ^ p ^ (n : ℕ) = _ := e3
  rw [e2', e3', Cubic.mul_eq hc]
  simp only [hfix, sigma]
  have hm : (p ^ (n : ℕ) - 1) / 3 = 2 * ((p ^ (n : ℕ) - 1) / 6) := by
    rw [← hn]; omega
  rw [hm]
  apply Quad.ext' <;> apply Cubic.ext' <;> simp only [] <;> ring


/-- in a finite field with `k ∣ |F| - 1`, the `k`-th powers are the non-zero elements killed by the
    exponent `(|F|-1)/k` -/
theorem exists_pow_eq_of_pow_card_div {F : Type} [Field F] [Fintype F] (k : ℕ)
    (hk : k ∣ Fintype.card F - 1) (a : F) (ha : a ≠ 0)
    (h : a ^ ((Fintype.card F - 1) / k) = 1) : ∃ y : F, y ^ k = a := by
  obtain ⟨g, hg⟩ := IsCyclic.exists_generator (α := Fˣ)
  obtain ⟨n, hn⟩ : Units.mk0 a ha ∈ Submonoid.powers g := by
    rw [mem_powers_iff_mem_zpowers]; apply hg
  have hord : orderOf g = Fintype.card F - 1 := by
    rw [orderOf_eq_card_of_forall_mem_zpowers hg, Nat.card_units, Nat.card_eq_fintype_card]
  have hu : (Units.mk0 a ha) ^ ((Fintype.card F - 1) / k) = 1 := by
    apply Units.ext
    rw [Units.val_pow_eq_pow_val, Units.val_mk0, h, Units.val_one]
  rw [← hn, ← pow_mul] at hu
  have key := orderOf_dvd_of_pow_eq_one hu
  rw [hord] at key
  obtain ⟨d, hd⟩ := hk
  have hq : 0 < Fintype.card F - 1 := by
    have := Fintype.one_lt_card (α := F); omega
  have hk0 : 0 < k := Nat.pos_of_ne_zero (by rintro rfl; rw [zero_mul] at hd; omega)
  have hd0 : 0 < d := Nat.pos_of_ne_zero (by rintro rfl; rw [mul_zero] at hd; omega)
  rw [hd, Nat.mul_div_cancel_left d hk0] at key
  obtain ⟨m, rfl⟩ := Nat.dvd_of_mul_dvd_mul_right hd0 key
  refine ⟨((g ^ m : Fˣ) : F), ?_⟩
  have : (g ^ m) ^ k = Units.mk0 a ha := by rw [← hn, ← pow_mul, mul_comm]
  have := congrArg Units.val this
  rwa [Units.val_pow_eq_pow_val, Units.val_mk0] at this

/-- `Quad.conj` is `sigma γ` iterated three times when `γ³ = -1` -/
theorem sigma_three (γ : G) (g3 : γ ^ 3 = -1) (s : Quad (Cubic G)) :
    sigma γ (sigma γ (sigma γ s)) = Quad.conj s := by
  have g6 : γ ^ 6 = 1 := by rw [show γ ^ 6 = γ ^ 3 * γ ^ 3 by ring, g3]; ring
  obtain ⟨⟨r0, r4, r3⟩, ⟨r2, r1, r5⟩⟩ := s
  simp only [sigma, Quad.conj]
  apply Quad.ext' <;> apply Cubic.ext' <;> simp only [Cubic.neg_c0, Cubic.neg_c1, Cubic.neg_c2]
  · rw [mul_assoc, mul_assoc, ← pow_add, ← pow_add, g6, mul_one]
  · rw [mul_assoc, mul_assoc, ← pow_add, ← pow_add,
      show γ ^ (4 + (4 + 4)) = γ ^ 6 * γ ^ 6 by ring, g6]; ring
  · rw [mul_assoc, mul_assoc, ← pow_two, ← pow_succ', g3]; ring
  · rw [mul_assoc, mul_assoc, ← pow_add, ← pow_add,
      show γ ^ (3 + (3 + 3)) = γ ^ 6 * γ ^ 3 by ring, g6, g3]; ring
  · rw [mul_assoc, mul_assoc, ← pow_add, ← pow_add,
      show γ ^ (5 + (5 + 5)) = γ ^ 6 * γ ^ 6 * γ ^ 3 by ring, g6, g3]; ring

/-- the sixth root of unity `γ = ξ^((q-1)/6)` attached to a non-square non-cube `ξ` is primitive -/
theorem gamma_spec [Fintype G] (hq6 : Fintype.card G % 6 = 1) (ξ : G)
    (hnr : ∀ x : G, x * x ≠ ξ) (hnc : ∀ x : G, x ^ 3 ≠ ξ) :
    (ξ ^ ((Fintype.card G - 1) / 6)) ^ 3 = -1 ∧
    (ξ ^ ((Fintype.card G - 1) / 6)) ^ 2 - ξ ^ ((Fintype.card G - 1) / 6) + 1 = 0 := by
  have hξ : ξ ≠ 0 := by
    intro h
    exact hnc 0 (by rw [h]; ring)
  have hcard := FiniteField.pow_card_sub_one_eq_one ξ hξ
  have h6 : Fintype.card G - 1 = 6 * ((Fintype.card G - 1) / 6) := by omega
  have e2 : (Fintype.card G - 1) / 2 = 3 * ((Fintype.card G - 1) / 6) := by omega
  have e3 : (Fintype.card G - 1) / 3 = 2 * ((Fintype.card G - 1) / 6) := by omega
  have hsq : ξ ^ ((Fintype.card G - 1) / 2) ≠ 1 := by
    intro h
    obtain ⟨y, hy⟩ := exists_pow_eq_of_pow_card_div 2 (by omega) _ hξ h
    exact hnr y (by rw [← hy]; ring)
  have hcb : ξ ^ ((Fintype.card G - 1) / 3) ≠ 1 := by
    intro h
    obtain ⟨y, hy⟩ := exists_pow_eq_of_pow_card_div 3 (by omega) _ hξ h
    exact hnc y hy
  set γ := ξ ^ ((Fintype.card G - 1) / 6) with hγdef
  have g6 : γ ^ 6 = 1 := by rw [hγdef, ← pow_mul, mul_comm, ← h6]; exact hcard
  have g3 : γ ^ 3 = -1 := by
    have hne : γ ^ 3 ≠ 1 := by rw [hγdef, ← pow_mul, mul_comm, ← e2]; exact hsq
    have : (γ ^ 3 - 1) * (γ ^ 3 + 1) = 0 := by linear_combination g6
    rcases mul_eq_zero.mp this with h | h
    · exact absurd (by linear_combination h) hne
    · linear_combination h
  have g2 : γ ^ 2 ≠ 1 := by rw [hγdef, ← pow_mul, mul_comm, ← e3]; exact hcb
  refine ⟨g3, ?_⟩
  have : (γ + 1) * (γ ^ 2 - γ + 1) = 0 := by linear_combination g3
  rcases mul_eq_zero.mp this with h | h
  · exfalso; apply g2
    have : γ = -1 := by linear_combination h
    rw [this]; ring
  · exact h

/-- **membership ⇒ relations**: over `G = F_q`, `q ≡ 1 (mod 6)`, with `ξ` neither a square nor a
    cube, every `s ∈ Fp12` with `s^(q²) · s = s^q` satisfies the Granger–Scott relations -/
theorem GSRel.of_mem [Fintype G] (p : ℕ) [Fact p.Prime] [CharP G p]
    (hq6 : Fintype.card G % 6 = 1) (c6 : Fp6bCfg G) (hc : CubicLawful c6.wrap)
    (hnr : ∀ x : G, x * x ≠ c6.wrap.nonresidue)
    (hnc : ∀ x : G, x ^ 3 ≠ c6.wrap.nonresidue) (tbl : List G)
    (B2 : FieldD P G) (hB2 : BaseLawful B2) (s : Quad (Cubic G))
    (hmem : letI := Cubic.field c6.wrap hc hnc
      letI := Quad.commRing (Fp12.cfg c6 ⟨0, 1, 0⟩ tbl) (Cubic.fieldD c6.wrap B2)
        (Cubic.fieldD_baseLawful hB2 hc hnc) (Fp12.cfg_lawful c6 hc hnc tbl)
      s ^ Fintype.card G ^ 2 * s = s ^ Fintype.card G) :
    GSRel c6.wrap.nonresidue s := by
  letI := Cubic.field c6.wrap hc hnc
  letI := Quad.commRing (Fp12.cfg c6 ⟨0, 1, 0⟩ tbl) (Cubic.fieldD c6.wrap B2)
    (Cubic.fieldD_baseLawful hB2 hc hnc) (Fp12.cfg_lawful c6 hc hnc tbl)
  obtain ⟨-, hγ⟩ := gamma_spec hq6 c6.wrap.nonresidue hnr hnc
  apply GSRel.of_sigma _ _ hγ
  have hp1 := Fp12.pow_card_eq_sigma p hq6 c6 hc hnc tbl B2 hB2 s
  have hp2 := Fp12.pow_card_eq_sigma p hq6 c6 hc hnc tbl B2 hB2 (sigma (c6.wrap.nonresidue ^ ((Fintype.card G - 1) / 6)) s)
  rw [pow_two, pow_mul, hp1, hp2] at hmem
  rw [← Fp12.mul_eq_mul12 c6 hc hnc tbl B2 hB2]
  exact hmem


/-- elements of the cyclotomic subgroup (`s^(q²-q+1) = 1`) are unitary and satisfy the relations -/
theorem Fp12.of_cyclotomic [Fintype G] (p : ℕ) [Fact p.Prime] [CharP G p]
    (hq6 : Fintype.card G % 6 = 1) (c6 : Fp6bCfg G) (hc : CubicLawful c6.wrap)
    (hnr : ∀ x : G, x * x ≠ c6.wrap.nonresidue)
    (hnc : ∀ x : G, x ^ 3 ≠ c6.wrap.nonresidue) (tbl : List G)
    (B2 : FieldD P G) (hB2 : BaseLawful B2) (s : Quad (Cubic G))
    (hmem : letI := Cubic.field c6.wrap hc hnc
      letI := Quad.commRing (Fp12.cfg c6 ⟨0, 1, 0⟩ tbl) (Cubic.fieldD c6.wrap B2)
        (Cubic.fieldD_baseLawful hB2 hc hnc) (Fp12.cfg_lawful c6 hc hnc tbl)
      s ^ (Fintype.card G ^ 2 - Fintype.card G + 1) = 1) :
    letI := Cubic.field c6.wrap hc hnc
    Quad.norm (Fp12.cfg c6 ⟨0, 1, 0⟩ tbl) (Cubic.fieldD c6.wrap B2) s = 1 ∧
    GSRel c6.wrap.nonresidue s := by
  letI := Cubic.field c6.wrap hc hnc
  have hB6 := Cubic.fieldD_baseLawful hB2 hc hnc
  have hc12 := Fp12.cfg_lawful c6 hc hnc tbl
  letI := Quad.commRing (Fp12.cfg c6 ⟨0, 1, 0⟩ tbl) (Cubic.fieldD c6.wrap B2) hB6 hc12
  have hle : Fintype.card G ≤ Fintype.card G ^ 2 := Nat.le_self_pow (by norm_num) _
  obtain ⟨g3, hγ⟩ := gamma_spec hq6 c6.wrap.nonresidue hnr hnc
  have hpow : ∀ x : Quad (Cubic G), x ^ Fintype.card G =
      sigma (c6.wrap.nonresidue ^ ((Fintype.card G - 1) / 6)) x :=
    fun x => Fp12.pow_card_eq_sigma p hq6 c6 hc hnc tbl B2 hB2 x
  constructor
  · -- `s · conj s = s^(q³+1) = (s^(q²-q+1))^(q+1) = 1`
    have e : (Fintype.card G ^ 2 - Fintype.card G + 1) * (Fintype.card G + 1)
        = Fintype.card G ^ 3 + 1 := by
      zify [hle]; ring
    have h3 : s ^ Fintype.card G ^ 3 = Quad.conj s := by
      rw [show Fintype.card G ^ 3 = Fintype.card G * Fintype.card G * Fintype.card G by ring,
        pow_mul, pow_mul, hpow, hpow, hpow, sigma_three _ g3]
    have h1 : s ^ Fintype.card G ^ 3 * s = 1 := by
      rw [← pow_succ, ← e, pow_mul, hmem, one_pow]
    rw [h3, mul_comm] at h1
    have h2 : Quad.mul (Fp12.cfg c6 ⟨0, 1, 0⟩ tbl) (Cubic.fieldD c6.wrap B2) s (Quad.conj s) = 1 := h1
    rw [Quad.mul_conj hB6 hc12] at h2
    exact congrArg Quad.c0 h2
  · apply GSRel.of_mem p hq6 c6 hc hnr hnc tbl B2 hB2 s
    have e : Fintype.card G ^ 2 + 1 = (Fintype.card G ^ 2 - Fintype.card G + 1) + Fintype.card G := by
      omega
    rw [← pow_succ, e, pow_add, hmem, one_mul]


/-- **`cyclotomic_exp` of `Fp12` on the cyclotomic subgroup**: over `Fp2 = G` of order `q ≡ 1 mod 6`
    (`q = p²`, this is the guard `characteristic_square_mod_6_is_one`), for every `s` with
    `s^(q² - q + 1) = 1` (`q² - q + 1 = Φ₁₂(p)`), the result is `s ^ e`. -/
theorem Fp12.cycExp_of_cyclotomic [Fintype G] (p : ℕ) [Fact p.Prime] [CharP G p]
    (hq6 : Fintype.card G % 6 = 1) (c6 : Fp6bCfg G) (hc : CubicLawful c6.wrap)
    (hnr : ∀ x : G, x * x ≠ c6.wrap.nonresidue)
    (hnc : ∀ x : G, x ^ 3 ≠ c6.wrap.nonresidue) (tbl : List G)
    (B2 : FieldD P G) (hB2 : BaseLawful B2) (limbs : List Nat) (s : Quad (Cubic G))
    (hmem : letI := Cubic.field c6.wrap hc hnc
      letI := Quad.commRing (Fp12.cfg c6 ⟨0, 1, 0⟩ tbl) (Cubic.fieldD c6.wrap B2)
        (Cubic.fieldD_baseLawful hB2 hc hnc) (Fp12.cfg_lawful c6 hc hnc tbl)
      s ^ (Fintype.card G ^ 2 - Fintype.card G + 1) = 1)
    (e : List Nat) (he : WF e) :
    letI := Cubic.field c6.wrap hc hnc
    letI := Quad.commRing (Fp12.cfg c6 ⟨0, 1, 0⟩ tbl) (Cubic.fieldD c6.wrap B2)
      (Cubic.fieldD_baseLawful hB2 hc hnc) (Fp12.cfg_lawful c6 hc hnc tbl)
    cycExp (CycD.conj (Quad.fieldD (Fp12.cfg c6 ⟨0, 1, 0⟩ tbl) (Cubic.fieldD c6.wrap B2))
      (some (Fp12.cycSquare c6 B2.double
        (Quad.fieldD (Fp12.cfg c6 ⟨0, 1, 0⟩ tbl) (Cubic.fieldD c6.wrap B2)).square limbs))) s e
      = .ok (s ^ value e) := by
  obtain ⟨hn, hs⟩ := Fp12.of_cyclotomic p hq6 c6 hc hnr hnc tbl B2 hB2 s hmem
  exact Fp12.cycExp_spec c6 hc hnc tbl B2 hB2 limbs s hn hs e he

end gsmem
/-! ## Frobenius hooks of the upper wrappers; the two-layer composition for `Fp4` -/

section upper
set_option linter.unusedSectionVars false
variable {P F : Type} [Field F] [DecidableEq F]

theorem Fp6bCfg.wrap_mulFrobCoeff (c : Fp6bCfg F) (h1 : c.frobC1.length = 6)
    (h2 : c.frobC2.length = 6) (x y : F) (k : ℕ) :
    c.wrap.mulFrobCoeff x y k =
      .ok (x * c.frobC1.getD (k % 6) 0, y * c.frobC2.getD (k % 6) 0) := by
  show obind (index c.frobC1 (k % 6)) _ = _
  rw [index_mod_getD _ 6 h1 (by norm_num)]
  show obind (index c.frobC2 (k % 6)) _ = _
  rw [index_mod_getD _ 6 h2 (by norm_num)]
  rfl

/-- `Fp4ConfigWrapper`: the Frobenius hook `mul_assign_by_fp(C1[k % 4])` multiplies by the embedded
    table entry -/
theorem Fp4.cfg_mulFrobCoeff (c2 : Fp2Cfg F) {B : FieldD P F} (hB : BaseLawful B)
    (hc : QuadLawful c2.wrap) (nr : Quad F) (tbl : List F) (h : tbl.length = 4)
    (fe : Quad F) (k : ℕ) :
    letI := Quad.commRing c2.wrap B hB hc
    (Fp4.cfg c2 nr tbl).mulFrobCoeff fe k = .ok (fe * (⟨tbl.getD (k % 4) 0, 0⟩ : Quad F)) := by
  show obind (index tbl (k % 4)) _ = Outcome.ok (Quad.mul c2.wrap B fe ⟨tbl.getD (k % 4) 0, 0⟩)
  rw [index_mod_getD _ 4 h (by norm_num), Quad.mul_eq hB hc]
  show Outcome.ok (Fp2.mulAssignByFp fe _) = _
  congr 1
  apply Quad.ext' <;> simp [Fp2.mulAssignByFp]

/-- `Fp6ConfigWrapper` (2-over-3): hook `mul_assign_by_fp(C1[k % 6])` -/
theorem Fp6a.cfg_mulFrobCoeff (c3 : Fp3Cfg F) (hc : CubicLawful c3.wrap) (nr : Cubic F)
    (tbl : List F) (h : tbl.length = 6) (fe : Cubic F) (k : ℕ) :
    letI := Cubic.commRing c3.wrap hc
    (Fp6a.cfg c3 nr tbl).mulFrobCoeff fe k = .ok (fe * (⟨tbl.getD (k % 6) 0, 0, 0⟩ : Cubic F)) := by
  show obind (index tbl (k % 6)) _ = Outcome.ok (Cubic.mul c3.wrap fe ⟨tbl.getD (k % 6) 0, 0, 0⟩)
  rw [index_mod_getD _ 6 h (by norm_num), Cubic.mul_eq hc]
  show Outcome.ok (Fp3.mulAssignByFp fe _) = _
  congr 1
  apply Cubic.ext' <;> simp [Fp3.mulAssignByFp]

/-- `Fp12ConfigWrapper`: hook `mul_assign_by_fp2(C1[k % 12])` -/
theorem Fp12.cfg_mulFrobCoeff (c6 : Fp6bCfg F) (hc : CubicLawful c6.wrap) (nr : Cubic F)
    (tbl : List F) (h : tbl.length = 12) (fe : Cubic F) (k : ℕ) :
    letI := Cubic.commRing c6.wrap hc
    (Fp12.cfg c6 nr tbl).mulFrobCoeff fe k = .ok (fe * (⟨tbl.getD (k % 12) 0, 0, 0⟩ : Cubic F)) := by
  show obind (index tbl (k % 12)) _ = Outcome.ok (Cubic.mul c6.wrap fe ⟨tbl.getD (k % 12) 0, 0, 0⟩)
  rw [index_mod_getD _ 12 h (by norm_num), Cubic.mul_eq hc]
  show Outcome.ok (Fp6b.mulByFp2 fe _) = _
  congr 1
  apply Cubic.ext' <;> simp [Fp6b.mulByFp2]

/-- the hooks of `Fp4ConfigWrapper` are lawful for `NONRESIDUE = X = (0,1)` -/
theorem Fp4.cfg_lawful (c2 : Fp2Cfg F) {B : FieldD P F} (hB : BaseLawful B)
    (hc : QuadLawful c2.wrap) (hnr : ∀ x : F, x * x ≠ c2.wrap.nonresidue) (tbl : List F) :
    @QuadLawful (Quad F) (Quad.field c2.wrap B hB hc hnr) (Fp4.cfg c2 ⟨0, 1⟩ tbl) := by
  letI := Quad.field c2.wrap B hB hc hnr
  have hm : ∀ x : Quad F, Fp4.mulFp2ByNr c2 x = Quad.mul c2.wrap B ⟨0, 1⟩ x := by
    intro x
    rw [Quad.mul_eq hB hc]
    have := hc.mulNr x.c1
    apply Quad.ext' <;> simp [Fp4.mulFp2ByNr]
    exact this
  refine ⟨?_, ?_, ?_, ?_⟩
  · intro x; exact hm x
  · intro y x
    show Fp4.mulFp2ByNr c2 y + x = x + Quad.mul c2.wrap B ⟨0, 1⟩ y
    rw [hm, add_comm]
  · intro y x
    show Fp4.mulFp2ByNr c2 y + x + y = x + Quad.mul c2.wrap B ⟨0, 1⟩ y + y
    rw [hm, add_comm x]
  · intro y x
    show x - Fp4.mulFp2ByNr c2 y = x - Quad.mul c2.wrap B ⟨0, 1⟩ y
    rw [hm]


/-- **Frobenius of `Fp4 = Fp2[Y]/(Y² - X)` over the prime field** — the two-layer composition of
    `Quad.frob_eq_pow`: with `Fp2` tables as in `Fp2.frob_eq_pow` and the four-entry table
    `C1[i] = X^((p^i-1)/2)` (an element of the prime field embedded in `Fp2`),
    `frobenius_map(k) = a ↦ a^(p^k)` on `Fp4`. -/
theorem Fp4.frob_eq_pow [Fintype F] (p : ℕ) [Fact p.Prime] [CharP F p] (hp2 : p % 2 = 1)
    (hcard : Fintype.card F = p) (c2 : Fp2Cfg F) (hc2 : QuadLawful c2.wrap)
    (hnr2 : ∀ x : F, x * x ≠ c2.wrap.nonresidue)
    (hlen2 : c2.frobC1.length = 2)
    (htbl2 : ∀ i, i < 2 → c2.frobC1.getD i 0 = c2.nonresidue ^ ((p ^ i - 1) / 2))
    (tbl4 : List F) (hlen4 : tbl4.length = 4)
    (hnr4 : letI := Quad.field c2.wrap (primeD F) primeD_lawful hc2 hnr2
      ∀ x : Quad F, x * x ≠ ⟨0, 1⟩)
    (htbl4 : letI := Quad.field c2.wrap (primeD F) primeD_lawful hc2 hnr2
      ∀ i, i < 4 → (⟨tbl4.getD i 0, 0⟩ : Quad F) = (⟨0, 1⟩ : Quad F) ^ ((p ^ i - 1) / 2))
    (a : Quad (Quad F)) (k : ℕ) :
    letI := Quad.field c2.wrap (primeD F) primeD_lawful hc2 hnr2
    letI := Quad.commRing (Fp4.cfg c2 ⟨0, 1⟩ tbl4) (Quad.fieldD c2.wrap (primeD F))
      (Quad.fieldD_baseLawful primeD_lawful hc2 hnr2) (Fp4.cfg_lawful c2 primeD_lawful hc2 hnr2 tbl4)
    Quad.frob (Fp4.cfg c2 ⟨0, 1⟩ tbl4) (Quad.fieldD c2.wrap (primeD F)) a k = .ok (a ^ p ^ k) := by
  letI := Quad.field c2.wrap (primeD F) primeD_lawful hc2 hnr2
  haveI : CharP (Quad F) p := Quad.charP primeD_lawful hc2 p
  have hB2 := Quad.fieldD_baseLawful (B := primeD F) primeD_lawful hc2 hnr2
  have hc4 := Fp4.cfg_lawful c2 (B := primeD F) primeD_lawful hc2 hnr2 tbl4
  refine Quad.frob_eq_pow p hp2 hB2 hc4 ?_ 4 (fun i => (⟨tbl4.getD i 0, 0⟩ : Quad F)) ?_ htbl4
    (by norm_num) ?_ a k
  · intro x k
    exact Fp2.frob_eq_pow p hp2 hcard c2 hc2 hnr2 hlen2 htbl2 x k
  · intro fe k
    exact Fp4.cfg_mulFrobCoeff c2 primeD_lawful hc2 ⟨0, 1⟩ tbl4 hlen4 fe k
  · exact Quad.pow_period hB2 hc4 hnr4 p 4 (by rw [Quad.card, hcard]; ring)

end upper


/-! ## sharpness lemmas and small corollaries used by `Ark.Props.C02b` -/

section sharp
set_option linter.unusedSectionVars false
variable {P F : Type} [Field F] [DecidableEq F]

/-- if `β = x²` then `(x, 1) ≠ 0` has norm zero and `inverse` returns `None` on it -/
theorem Quad.inverse_none_of_square {cfg : QuadCfg F} {B : FieldD P F} (hB : BaseLawful B)
    (hc : QuadLawful cfg) (x : F) (hx : x * x = cfg.nonresidue) :
    (⟨x, 1⟩ : Quad F) ≠ 0 ∧ Quad.inverse cfg B ⟨x, 1⟩ = .ok none := by
  have hn : Quad.norm cfg B (⟨x, 1⟩ : Quad F) = 0 := by
    rw [Quad.norm_eq hB hc, ← hx]; ring
  refine ⟨fun h => one_ne_zero (congrArg Quad.c1 h), ?_⟩
  unfold Quad.inverse
  have h1 : ¬ ((⟨x, 1⟩ : Quad F).c0 = 0 ∧ (⟨x, 1⟩ : Quad F).c1 = 0) := fun h => one_ne_zero h.2
  rw [if_neg h1]
  show obind (B.inverse (Quad.norm cfg B ⟨x, 1⟩)) _ = _
  rw [hn, hB.inverse, if_pos rfl]
  rfl

/-- if `β = x³` the `unwrap` of `CubicExtField::inverse` panics on `(-x, 1, 0) ≠ 0` -/
theorem Cubic.inverse_panic_of_cube {cfg : CubicCfg F} {B : FieldD P F} (hB : BaseLawful B)
    (hc : CubicLawful cfg) (x : F) (hx : x ^ 3 = cfg.nonresidue) :
    Cubic.inverse cfg B (⟨-x, 1, 0⟩ : Cubic F) = .panic := by
  unfold Cubic.inverse
  have h1 : ¬ ((⟨-x, 1, 0⟩ : Cubic F).c0 = 0 ∧ (⟨-x, 1, 0⟩ : Cubic F).c1 = 0 ∧
      (⟨-x, 1, 0⟩ : Cubic F).c2 = 0) := fun h => one_ne_zero h.2.1
  rw [if_neg h1]
  simp only [hc.mulNr, hB.square]
  have e : -x * (-x * -x - cfg.nonresidue * (1 * 0)) +
      cfg.nonresidue * (0 * (cfg.nonresidue * (0 * 0) - -x * 1) + 1 * (1 * 1 - -x * 0)) = 0 := by
    rw [← hx]; ring
  rw [e, hB.inverse, if_pos rfl]
  rfl

/-- a truncated `FROBENIUS_COEFF_FP2_C1` makes `frobenius_map` panic for `power = len` -/
theorem Fp2.frob_panic_of_short_table (c : Fp2Cfg F) (B : FieldD P F)
    (hB : ∀ x k, B.frob x k ≠ .panic) (hlen : c.frobC1.length < 2) (a : Quad F) :
    Quad.frob c.wrap B a c.frobC1.length = .panic := by
  unfold Quad.frob
  cases h0 : B.frob a.c0 c.frobC1.length with
  | panic => exact absurd h0 (hB _ _)
  | ok x0 =>
    cases h1 : B.frob a.c1 c.frobC1.length with
    | panic => exact absurd h1 (hB _ _)
    | ok x1 =>
      show obind (obind (index c.frobC1 (c.frobC1.length % 2)) _) _ = _
      rw [index_mod_panic _ 2 hlen]
      rfl

/-- in the field structure: `cyclotomic_inverse a = some a⁻¹` on unitary `a` -/
theorem cycInverse_conj_inv {cfg : QuadCfg F} {B : FieldD P F} (hB : BaseLawful B)
    (hc : QuadLawful cfg) (hnr : ∀ x : F, x * x ≠ cfg.nonresidue) (D : FieldD P (Quad F))
    (cs : Option (Quad F → Quad F)) (a : Quad F) (hn : Quad.norm cfg B a = 1) :
    letI := Quad.field cfg B hB hc hnr
    (CycD.conj D cs).cycInverse a = .ok (some a⁻¹) := by
  letI := Quad.field cfg B hB hc hnr
  rw [cycInverse_conj hB hc D cs a hn]
  congr 2
  exact eq_inv_of_mul_eq_one_right (Quad.mul_conj_of_norm_one hB hc a hn)

theorem cycInverse_conj_zero (D : FieldD P (Quad F)) (cs : Option (Quad F → Quad F)) :
    (CycD.conj D cs).cycInverse (0 : Quad F) = .ok none := by
  show (if (0 : Quad F).c0 = 0 ∧ (0 : Quad F).c1 = 0 then _ else _) = _
  rw [if_pos ⟨rfl, rfl⟩]

/-- Granger–Scott (both branches of the guard) against the model's `Fp12` multiplication -/
theorem Fp12.cycSquare_eq_mul {G : Type} [Field G] [DecidableEq G]
    (c6 : Fp6bCfg G) (hc : CubicLawful c6.wrap)
    (hnc : ∀ x : G, x ^ 3 ≠ c6.wrap.nonresidue) (tbl : List G)
    (B2 : FieldD P G) (hB2 : BaseLawful B2) (limbs : List Nat)
    (s : Quad (Cubic G)) (hs : GSRel c6.wrap.nonresidue s) :
    letI := Cubic.field c6.wrap hc hnc
    Fp12.cycSquare c6 B2.double
        (Quad.fieldD (Fp12.cfg c6 ⟨0, 1, 0⟩ tbl) (Cubic.fieldD c6.wrap B2)).square limbs s =
      Quad.mul (Fp12.cfg c6 ⟨0, 1, 0⟩ tbl) (Cubic.fieldD c6.wrap B2) s s := by
  letI := Cubic.field c6.wrap hc hnc
  cases hl : charSquareMod6IsOne limbs with
  | true =>
    rw [Fp12.cycSquare_eq_mul12 c6 hc B2.double hB2.double _ limbs hl s hs,
      Fp12.mul_eq_mul12 c6 hc hnc tbl B2 hB2]
  | false =>
    rw [Fp12.cycSquare_fallback c6 _ _ limbs hl]
    exact Quad.square_eq (Cubic.fieldD_baseLawful hB2 hc hnc) (Fp12.cfg_lawful c6 hc hnc tbl) s

end sharp

/-! ## concrete instances over `ZMod 7` (for the non-vacuity examples of `Ark.Props.C02b`) -/

section zmod7

instance fact7 : Fact (Nat.Prime 7) := ⟨by decide⟩

/-- `Fp2 = F₇[X]/(X² + 1)` with the `bls12_381`-style overrides; `C1 = [1, (-1)^3]` -/
def c7neg : Fp2Cfg (ZMod 7) := Fp2Cfg.negOne (-1) [1, 6]
/-- `Fp2 = F₇[X]/(X² - 3)` with the default hooks; `C1 = [1, 3^3]` -/
def c7three : Fp2Cfg (ZMod 7) := Fp2Cfg.default 3 [1, 6]
/-- `Fp3 = F₇[X]/(X³ - 3)`; `C1 = [1, 3^2, 3^16]`, `C2 = [1, 3^4, 3^32]` -/
def c7cub : Fp3Cfg (ZMod 7) := Fp3Cfg.default 3 [1, 2, 4] [1, 4, 2]
/-- the prime-field dictionary of `F₇` -/
def B7 : FieldD (ZMod 7) (ZMod 7) := primeD (ZMod 7)
/-- a 3-over-1 "Fp6" configuration over `F₇` (ξ = 3) used to exercise the `Fp12` template -/
def c7six : Fp6bCfg (ZMod 7) := Fp6bCfg.default 3 [] []

theorem c7neg_lawful : QuadLawful c7neg.wrap := Fp2Cfg.negOne_wrap_lawful _
theorem c7three_lawful : QuadLawful c7three.wrap := Fp2Cfg.default_wrap_lawful _ _
theorem c7cub_lawful : CubicLawful c7cub.wrap := Fp3Cfg.default_wrap_lawful _ _ _
theorem c7six_lawful : CubicLawful c7six.wrap := ⟨fun x => by show x * 3 = 3 * x; ring⟩
theorem B7_lawful : BaseLawful B7 := primeD_lawful

theorem nonsq7_neg : ∀ x : ZMod 7, x * x ≠ c7neg.wrap.nonresidue := by decide
theorem nonsq7_three : ∀ x : ZMod 7, x * x ≠ c7three.wrap.nonresidue := by decide
theorem noncube7 : ∀ x : ZMod 7, x ^ 3 ≠ c7cub.wrap.nonresidue := by decide
theorem noncube7six : ∀ x : ZMod 7, x ^ 3 ≠ c7six.wrap.nonresidue := by decide
theorem nonsq7six : ∀ x : ZMod 7, x * x ≠ c7six.wrap.nonresidue := by decide

end zmod7

/-! ## a concrete `Fp4` over `ZMod 5` -/

section zmod5
instance fact5 : Fact (Nat.Prime 5) := ⟨by decide⟩
/-- `Fp2 = F₅[X]/(X² - 2)`, `C1 = [1, 2^2]` -/
def c5two : Fp2Cfg (ZMod 5) := Fp2Cfg.default 2 [1, 4]
theorem c5two_lawful : QuadLawful c5two.wrap := Fp2Cfg.default_wrap_lawful _ _
theorem nonsq5 : ∀ x : ZMod 5, x * x ≠ c5two.wrap.nonresidue := by decide
/-- the `Fp4` Frobenius table over `F₅`: `X^((5^i-1)/2) = 2^((5^i-1)/4)` -/
def tbl5 : List (ZMod 5) := [1, 2, 4, 3]

theorem nonsq5_4 :
    letI := Quad.field c5two.wrap (primeD (ZMod 5)) primeD_lawful c5two_lawful nonsq5
    ∀ x : Quad (ZMod 5), x * x ≠ ⟨0, 1⟩ := by
  intro x
  show Quad.mul c5two.wrap (primeD (ZMod 5)) x x ≠ ⟨0, 1⟩
  obtain ⟨x0, x1⟩ := x
  revert x0 x1
  decide

theorem tbl5_ok :
    letI := Quad.field c5two.wrap (primeD (ZMod 5)) primeD_lawful c5two_lawful nonsq5
    ∀ i, i < 4 → (⟨tbl5.getD i 0, 0⟩ : Quad (ZMod 5)) = (⟨0, 1⟩ : Quad (ZMod 5)) ^ ((5 ^ i - 1) / 2) := by
  letI := Quad.field c5two.wrap (primeD (ZMod 5)) primeD_lawful c5two_lawful nonsq5
  have hX2 : ∀ m : ℕ, (⟨0, 1⟩ : Quad (ZMod 5)) ^ (2 * m) = ⟨2 ^ m, 0⟩ := by
    intro m
    rw [pow_mul, pow_two, Quad.X_mul_X primeD_lawful c5two_lawful, ← map_pow]
    rfl
  intro i hi
  interval_cases i
  · rfl
  · rw [show (5 ^ 1 - 1) / 2 = 2 * 1 by norm_num, hX2]; rfl
  · rw [show (5 ^ 2 - 1) / 2 = 2 * 6 by norm_num, hX2]; decide
  · rw [show (5 ^ 3 - 1) / 2 = 2 * 31 by norm_num, hX2]; decide
end zmod5

end Ark.ExtB
