import Ark.Model.Msm
import Ark.Proofs.Limbs
import Mathlib.Algebra.BigOperators.Group.List.Basic
import Mathlib.Tactic.Abel
/-
  Helper lemmas for C05 (part B): `msm_chunks`, `ChunkedPippenger`, `HashMapPippenger`.

  The correctness of the inner `msm_bigint` is a hypothesis (`MsmOK`), discharged by part A.
-/
namespace Ark.Msm
open Ark

/-! ## specification sums and the interface to the inner MSM -/

section Spec
variable {G : Type} [AddCommGroup G]

/-- `Σ value(kᵢ) • bᵢ` over a list of `(base, big-integer scalar)` pairs -/
def pairSum (l : List (G × List Nat)) : G := (l.map fun a => value a.2 • a.1).sum

/-- `Σ_{i < min} value(ksᵢ) • basesᵢ` -/
def msmSum (bases : List G) (ks : List (List Nat)) : G := pairSum (bases.zip ks)

/-- `Σ kᵢ • bᵢ` over a list of `(base, scalar)` pairs -/
def natPairSum (l : List (G × Nat)) : G := (l.map fun a => a.2 • a.1).sum

/-- `Σ_{i < min} ksᵢ • basesᵢ` -/
def msmSumNat (bases : List G) (ks : List Nat) : G := natPairSum (bases.zip ks)

/-- the big integers of the scalar domain of `msm_bigint`: `N` limbs, `u64` limbs, below `2^MODULUS_BIT_SIZE` -/
def InRange (cfg : Cfg) (k : List Nat) : Prop :=
  k.length = cfg.limbs ∧ WF k ∧ value k < 2 ^ cfg.numBits

/-- correctness of the inner `msm_bigint` on the scalar domain `P`, for inputs whose common length is a
    `usize` (hypothesis of this part; the instance `P = InRange cfg` is what part A proves; the length
    bound holds for every Rust slice) -/
structure MsmOK (G : Type) [AddCommGroup G] (cfg : Cfg) (P : List Nat → Prop) : Prop where
  spec : ∀ (bases : List G) (ks : List (List Nat)), (∀ k ∈ ks, P k) →
    min bases.length ks.length < 2 ^ 64 →
    msmBigint cfg bases ks = .ok (msmSum bases ks)

@[simp] theorem pairSum_nil : pairSum ([] : List (G × List Nat)) = 0 := rfl
@[simp] theorem pairSum_cons (a : G × List Nat) (l : List (G × List Nat)) :
    pairSum (a :: l) = value a.2 • a.1 + pairSum l := by simp [pairSum]
theorem pairSum_append (l₁ l₂ : List (G × List Nat)) :
    pairSum (l₁ ++ l₂) = pairSum l₁ + pairSum l₂ := by simp [pairSum]
theorem pairSum_perm {l₁ l₂ : List (G × List Nat)} (h : l₁.Perm l₂) : pairSum l₁ = pairSum l₂ :=
  (h.map _).sum_eq

@[simp] theorem natPairSum_nil : natPairSum ([] : List (G × Nat)) = 0 := rfl
@[simp] theorem natPairSum_cons (a : G × Nat) (l : List (G × Nat)) :
    natPairSum (a :: l) = a.2 • a.1 + natPairSum l := by simp [natPairSum]
theorem natPairSum_append (l₁ l₂ : List (G × Nat)) :
    natPairSum (l₁ ++ l₂) = natPairSum l₁ + natPairSum l₂ := by simp [natPairSum]
theorem natPairSum_perm {l₁ l₂ : List (G × Nat)} (h : l₁.Perm l₂) : natPairSum l₁ = natPairSum l₂ :=
  (h.map _).sum_eq

@[simp] theorem msmSum_nil_left (ks : List (List Nat)) : msmSum ([] : List G) ks = 0 := by
  simp [msmSum]
@[simp] theorem msmSum_nil_right (bases : List G) : msmSum bases [] = 0 := by
  simp [msmSum]
@[simp] theorem msmSum_cons (b : G) (bases : List G) (k : List Nat) (ks : List (List Nat)) :
    msmSum (b :: bases) (k :: ks) = value k • b + msmSum bases ks := by simp [msmSum]

theorem msmSum_take_drop (n : Nat) (bases : List G) (ks : List (List Nat)) :
    msmSum bases ks = msmSum (bases.take n) (ks.take n) + msmSum (bases.drop n) (ks.drop n) := by
  unfold msmSum
  rw [List.zip_eq_zipWith, List.zip_eq_zipWith, List.zip_eq_zipWith, ← List.take_zipWith,
    ← List.drop_zipWith, ← pairSum_append, List.take_append_drop]

theorem msmSum_snoc (bases : List G) (ks : List (List Nat)) (b : G) (k : List Nat)
    (h : ks.length = bases.length) :
    msmSum (bases ++ [b]) (ks ++ [k]) = msmSum bases ks + value k • b := by
  unfold msmSum
  rw [List.zip_append h.symm, pairSum_append]; simp

/-- the pair-list form: `msmSum` of the two projections -/
theorem msmSum_unzip (l : List (G × List Nat)) : msmSum (l.map (·.1)) (l.map (·.2)) = pairSum l := by
  induction l with
  | nil => simp
  | cons a l ih => simp [ih]

@[simp] theorem msmSumNat_nil_left (ks : List Nat) : msmSumNat ([] : List G) ks = 0 := by
  simp [msmSumNat]
@[simp] theorem msmSumNat_nil_right (bases : List G) : msmSumNat bases [] = 0 := by
  simp [msmSumNat]
@[simp] theorem msmSumNat_cons (b : G) (bases : List G) (k : Nat) (ks : List Nat) :
    msmSumNat (b :: bases) (k :: ks) = k • b + msmSumNat bases ks := by simp [msmSumNat]

theorem msmSumNat_unzip (l : List (G × Nat)) : msmSumNat (l.map (·.1)) (l.map (·.2)) = natPairSum l := by
  induction l with
  | nil => simp
  | cons a l ih => simp [ih]

/-! ### `into_bigint`
  (`toLimbs` facts are re-proved here under local names: `LimbsA` and `LimbsB` cannot be imported together,
  and part A imports `LimbsB`) -/

theorem toLimbs_value_B (n v : Nat) : value (toLimbs n v) = v % B ^ n := by
  induction n generalizing v with
  | zero => simp [toLimbs, value, Nat.mod_one]
  | succ n ih =>
    simp only [toLimbs, value, ih]
    rw [Nat.pow_succ, Nat.mul_comm (B ^ n) B, Nat.mod_mul, Nat.add_comm]

theorem toLimbs_wf_B (n v : Nat) : WF (toLimbs n v) := by
  induction n generalizing v with
  | zero => simp [toLimbs, WF]
  | succ n ih =>
    intro l hl
    simp only [toLimbs, List.mem_cons] at hl
    rcases hl with rfl | hl
    · exact Nat.mod_lt _ B_pos
    · exact ih _ l hl

theorem toLimbs_length_B (n v : Nat) : (toLimbs n v).length = n := by
  induction n generalizing v with
  | zero => simp [toLimbs]
  | succ n ih => simp [toLimbs, ih]

theorem value_intoBigint (cfg : Cfg) (k : Nat) (h : k < B ^ cfg.limbs) :
    value (cfg.intoBigint k) = k := by
  unfold Cfg.intoBigint; rw [toLimbs_value_B, Nat.mod_eq_of_lt h]

theorem msmSum_map_intoBigint (cfg : Cfg) (bases : List G) (ks : List Nat)
    (h : ∀ k ∈ ks, k < B ^ cfg.limbs) :
    msmSum bases (ks.map cfg.intoBigint) = msmSumNat bases ks := by
  induction bases generalizing ks with
  | nil => simp
  | cons b bases ih =>
    cases ks with
    | nil => simp
    | cons k ks =>
      simp only [List.map_cons, msmSum_cons, msmSumNat_cons]
      rw [value_intoBigint cfg k (h k (by simp)), ih ks (fun k' hk' => h k' (by simp [hk']))]

theorem msmSum_buffer (cfg : Cfg) (buf : List (G × Nat)) (h : ∀ e ∈ buf, e.2 < B ^ cfg.limbs) :
    msmSum (buf.map (·.1)) (buf.map (fun e => cfg.intoBigint e.2)) = natPairSum buf := by
  have : buf.map (fun e => cfg.intoBigint e.2) = (buf.map (·.2)).map cfg.intoBigint := by simp
  rw [this, msmSum_map_intoBigint, msmSumNat_unzip]
  intro k hk
  obtain ⟨e, he, rfl⟩ := List.mem_map.1 hk
  exact h e he

/-- `x < 2^bitLen x` -/
theorem lt_two_pow_bitLen (x : Nat) : x < 2 ^ bitLen x := by
  unfold bitLen
  split
  · subst_vars; simp
  · exact Nat.lt_log2_self

theorem getLastD_toLimbs (n v d : Nat) : (toLimbs (n + 1) v).getLastD d = v / B ^ n % B := by
  induction n generalizing v d with
  | zero => simp [toLimbs]
  | succ n ih =>
    have : toLimbs (n + 1 + 1) v = v % B :: toLimbs (n + 1) (v / B) := rfl
    rw [this, List.getLastD_cons, ih, Nat.div_div_eq_div_mul, Nat.pow_succ']

/-- a scalar-field element `k < r` is in the scalar domain of `msm_bigint` (for `r < 2^(64N)`, `N > 0`) -/
theorem inRange_intoBigint (cfg : Cfg) (hN : 0 < cfg.limbs) (hr : cfg.r < B ^ cfg.limbs) (k : Nat)
    (hk : k < cfg.r) : InRange cfg (cfg.intoBigint k) := by
  refine ⟨toLimbs_length_B _ _, toLimbs_wf_B _ _, ?_⟩
  rw [value_intoBigint cfg k (by omega)]
  refine lt_trans hk ?_
  unfold Cfg.numBits
  obtain ⟨n, hn⟩ : ∃ n, cfg.limbs = n + 1 := ⟨cfg.limbs - 1, by omega⟩
  rw [hn] at hr ⊢
  rw [getLastD_toLimbs, Nat.add_sub_cancel]
  have hB : B ^ n = 2 ^ (n * 64) := by unfold B; rw [Nat.mul_comm, Nat.pow_mul]
  have hlt : cfg.r / B ^ n < B := by
    rw [Nat.div_lt_iff_lt_mul (Nat.pow_pos B_pos)]; rwa [Nat.pow_succ, Nat.mul_comm] at hr
  rw [Nat.mod_eq_of_lt hlt, Nat.pow_add, ← hB]
  have h1 := lt_two_pow_bitLen (cfg.r / B ^ n)
  have h2 := Nat.lt_mul_div_succ cfg.r (Nat.pow_pos (n := n) B_pos)
  calc cfg.r < B ^ n * (cfg.r / B ^ n + 1) := h2
    _ ≤ B ^ n * 2 ^ bitLen (cfg.r / B ^ n) := Nat.mul_le_mul_left _ h1

end Spec


/-! ## `msm_chunks` -/

theorem obind_ok_eq {α β : Type} (a : α) (f : α → Outcome β) : obind (.ok a) f = f a := rfl

theorem le_divCeil_mul (a b : Nat) (hb : 0 < b) : a ≤ divCeil a b * b := by
  unfold divCeil
  have h := Nat.lt_mul_div_succ (a + b - 1) hb
  rw [Nat.mul_succ, Nat.mul_comm] at h
  generalize (a + b - 1) / b * b = q at h
  omega

/-- the buffer (current length `len`) stays a `usize` during `n` more `add`s: either the whole history is
    shorter than `2^64`, or the buffer size is a non-zero `usize` (then the buffer stays below it) -/
def HistBound (len bufSize n : Nat) : Prop := len + n < 2 ^ 64 ∨ (bufSize < 2 ^ 64 ∧ len < bufSize)

theorem HistBound.zero {len bs : Nat} (h : HistBound len bs 0) : len < 2 ^ 64 := by
  unfold HistBound at h; omega
theorem HistBound.succ_lt {len bs n : Nat} (h : HistBound len bs (n + 1)) : len + 1 < 2 ^ 64 := by
  unfold HistBound at h; omega
theorem HistBound.step {len len' bs n : Nat} (h : HistBound len bs (n + 1)) (h1 : len' ≤ len + 1)
    (h2 : len < bs → len' < bs) : HistBound len' bs n := by
  unfold HistBound at h ⊢; omega

section Chunks
variable {G : Type} [AddCommGroup G] {cfg : Cfg} {P : List Nat → Prop}

theorem msmChunksLoop_spec (ok : MsmOK G cfg P) (step : Nat) :
    ∀ (n : Nat) (bases : List G) (scalars : List Nat) (result : G),
      (∀ k ∈ scalars, P (cfg.intoBigint k)) → scalars.length ≤ n * step →
      (step < 2 ^ 64 ∨ scalars.length < 2 ^ 64) →
      msmChunksLoop cfg step n bases scalars result
        = .ok (result + msmSum bases (scalars.map cfg.intoBigint)) := by
  intro n
  induction n with
  | zero =>
    intro bases scalars result _ hl _
    have : scalars = [] := List.eq_nil_of_length_eq_zero (by omega)
    subst this; simp [msmChunksLoop]
  | succ n ih =>
    intro bases scalars result hP hl hb
    have h1 : ∀ k ∈ (scalars.take step).map cfg.intoBigint, P k := by
      intro k hk
      obtain ⟨k', hk', rfl⟩ := List.mem_map.1 hk
      exact hP k' (List.mem_of_mem_take hk')
    have h2 : ∀ k ∈ scalars.drop step, P (cfg.intoBigint k) :=
      fun k hk => hP k (List.mem_of_mem_drop hk)
    have h3 : (scalars.drop step).length ≤ n * step := by
      rw [List.length_drop]; rw [Nat.succ_mul] at hl; omega
    have h4 : min (bases.take step).length ((scalars.take step).map cfg.intoBigint).length < 2 ^ 64 := by
      simp only [List.length_take, List.length_map]; omega
    have h5 : step < 2 ^ 64 ∨ (scalars.drop step).length < 2 ^ 64 := by
      rw [List.length_drop]; omega
    rw [msmChunksLoop, ok.spec _ _ h1 h4, obind_ok_eq, ih _ _ _ h2 h3 h5,
      msmSum_take_drop step bases (scalars.map _), List.map_take, List.map_drop, add_assoc]

theorem msmChunksWith_ok (ok : MsmOK G cfg P) (step : Nat) (hstep : 0 < step) (bases : List G)
    (ks : List Nat) (hP : ∀ k ∈ ks, P (cfg.intoBigint k)) (hlen : ks.length ≤ bases.length)
    (hb : step < 2 ^ 64 ∨ ks.length < 2 ^ 64) :
    msmChunksWith step cfg bases ks
      = .ok (msmSum (bases.drop (bases.length - ks.length)) (ks.map cfg.intoBigint)) := by
  unfold msmChunksWith
  rw [if_neg (by omega), msmChunksLoop_spec ok step _ _ _ _ hP (le_divCeil_mul _ _ hstep) hb, zero_add]

theorem msmChunksWith_panic (step : Nat) (bases : List G) (ks : List Nat)
    (hlen : bases.length < ks.length) : msmChunksWith step cfg bases ks = .panic := by
  unfold msmChunksWith
  rw [if_pos hlen]

end Chunks

/-! ## `ChunkedPippenger` -/

section ModelLevel
variable {G : Type} [Add G] [Sub G] [Zero G]

/-- a history of `add` calls applied to a state (the state machine without `finalize`) -/
def Chunked.addAll (cfg : Cfg) : Chunked G → List (G × List Nat) → Outcome (Chunked G)
  | s, [] => .ok s
  | s, (b, k) :: rest => obind (s.add cfg b k) fun s' => Chunked.addAll cfg s' rest

theorem Chunked.run_go_eq (cfg : Cfg) (s : Chunked G) (adds : List (G × List Nat)) :
    Chunked.run.go cfg s adds = obind (Chunked.addAll cfg s adds) fun s' => s'.finalize cfg := by
  induction adds generalizing s with
  | nil => rfl
  | cons a adds ih =>
    obtain ⟨b, k⟩ := a
    simp only [Chunked.run.go, Chunked.addAll]
    cases s.add cfg b k with
    | ok s' => exact ih s'
    | panic => rfl

/-- histories compose: running `h₁ ++ h₂` is running `h₁`, then `h₂` from the reached state -/
theorem Chunked.addAll_append (cfg : Cfg) (s : Chunked G) (h₁ h₂ : List (G × List Nat)) :
    Chunked.addAll cfg s (h₁ ++ h₂) = obind (Chunked.addAll cfg s h₁) fun s' => Chunked.addAll cfg s' h₂ := by
  induction h₁ generalizing s with
  | nil => rfl
  | cons a h₁ ih =>
    obtain ⟨b, k⟩ := a
    simp only [List.cons_append, Chunked.addAll]
    cases s.add cfg b k with
    | ok s' => exact ih s'
    | panic => rfl

/-- a history of `add` calls applied to a state (the state machine without `finalize`) -/
def HashMapAcc.addAll [DecidableEq G] (cfg : Cfg) : HashMapAcc G → List (G × Nat) → Outcome (HashMapAcc G)
  | s, [] => .ok s
  | s, (b, k) :: rest => obind (s.add cfg b k) fun s' => HashMapAcc.addAll cfg s' rest

theorem HashMapAcc.run_go_eq [DecidableEq G] (cfg : Cfg) (s : HashMapAcc G) (adds : List (G × Nat)) :
    HashMapAcc.run.go cfg s adds = obind (HashMapAcc.addAll cfg s adds) fun s' => s'.finalize cfg := by
  induction adds generalizing s with
  | nil => rfl
  | cons a adds ih =>
    obtain ⟨b, k⟩ := a
    simp only [HashMapAcc.run.go, HashMapAcc.addAll]
    cases s.add cfg b k with
    | ok s' => exact ih s'
    | panic => rfl

theorem HashMapAcc.addAll_append [DecidableEq G] (cfg : Cfg) (s : HashMapAcc G) (h₁ h₂ : List (G × Nat)) :
    HashMapAcc.addAll cfg s (h₁ ++ h₂)
      = obind (HashMapAcc.addAll cfg s h₁) fun s' => HashMapAcc.addAll cfg s' h₂ := by
  induction h₁ generalizing s with
  | nil => rfl
  | cons a h₁ ih =>
    obtain ⟨b, k⟩ := a
    simp only [List.cons_append, HashMapAcc.addAll]
    cases s.add cfg b k with
    | ok s' => exact ih s'
    | panic => rfl

end ModelLevel

section Chunked
variable {G : Type} [AddCommGroup G] {cfg : Cfg} {P : List Nat → Prop}

/-- the invariant of `ChunkedPippenger`: the two buffers are aligned, buffered scalars are in the scalar
    domain, and `result + msm(buffer)` is the sum `total` of all pairs added so far -/
def Chunked.Inv (P : List Nat → Prop) (s : Chunked G) (total : G) : Prop :=
  s.scalarsBuffer.length = s.basesBuffer.length ∧ (∀ k ∈ s.scalarsBuffer, P k) ∧
  s.result + msmSum s.basesBuffer s.scalarsBuffer = total

theorem Chunked.new_inv (bufSize : Nat) : Chunked.Inv P (Chunked.new bufSize : Chunked G) 0 := by
  simp [Chunked.Inv, Chunked.new]

theorem Chunked.add_inv (ok : MsmOK G cfg P) {s : Chunked G} {total : G} (h : Chunked.Inv P s total)
    (b : G) (k : List Nat) (hk : P k) (hlen : s.scalarsBuffer.length + 1 < 2 ^ 64) :
    ∃ s', s.add cfg b k = .ok s' ∧ s'.bufSize = s.bufSize ∧
      s'.scalarsBuffer.length ≤ s.scalarsBuffer.length + 1 ∧
      Chunked.Inv P s' (total + value k • b) := by
  obtain ⟨hl, hP, hs⟩ := h
  have hmin : min (s.basesBuffer ++ [b]).length (s.scalarsBuffer ++ [k]).length < 2 ^ 64 := by
    simp only [List.length_append, List.length_cons, List.length_nil]; omega
  have hP' : ∀ k' ∈ s.scalarsBuffer ++ [k], P k' := by
    intro k' hk'
    rcases List.mem_append.1 hk' with h | h
    · exact hP k' h
    · rw [List.mem_singleton.1 h]; exact hk
  unfold Chunked.add
  by_cases hfull : (s.scalarsBuffer ++ [k]).length = s.bufSize
  · simp only [hfull, if_true]
    rw [ok.spec _ _ hP' hmin, obind_ok_eq]
    refine ⟨_, rfl, rfl, by simp, by simp, by simp, ?_⟩
    simp only [msmSum_nil_left, add_zero]
    rw [msmSum_snoc _ _ _ _ hl, ← hs, add_assoc]
  · simp only [hfull, if_false]
    refine ⟨_, rfl, rfl, by simp, by simp [hl], hP', ?_⟩
    simp only
    rw [msmSum_snoc _ _ _ _ hl, ← hs, add_assoc]

/-- the buffer never reaches `bufSize` (for `bufSize ≠ 0`) -/
theorem Chunked.add_buffer_lt {s s' : Chunked G} (b : G) (k : List Nat)
    (h : s.bufSize ≠ 0 → s.scalarsBuffer.length < s.bufSize) (hs : s.add cfg b k = .ok s') :
    s'.bufSize ≠ 0 → s'.scalarsBuffer.length < s'.bufSize := by
  unfold Chunked.add at hs
  by_cases hfull : (s.scalarsBuffer ++ [k]).length = s.bufSize
  · simp only [hfull, if_true] at hs
    cases hm : msmBigint cfg (s.basesBuffer ++ [b]) (s.scalarsBuffer ++ [k]) with
    | panic => rw [hm] at hs; cases hs
    | ok r =>
      rw [hm, obind_ok_eq] at hs
      cases hs
      intro h0
      exact Nat.pos_of_ne_zero h0
  · simp only [hfull, if_false] at hs
    cases hs
    intro h0
    have := h h0
    simp at hfull ⊢
    omega

theorem Chunked.finalize_inv (ok : MsmOK G cfg P) {s : Chunked G} {total : G}
    (h : Chunked.Inv P s total) (hlen : s.scalarsBuffer.length < 2 ^ 64) :
    s.finalize cfg = .ok total := by
  obtain ⟨hl, hP, hs⟩ := h
  unfold Chunked.finalize
  by_cases he : s.scalarsBuffer.isEmpty
  · simp only [he, Bool.not_true, Bool.false_eq_true, if_false]
    rw [List.isEmpty_iff] at he
    rw [he] at hs; simpa using hs
  · simp only [he, Bool.not_false, if_true]
    rw [ok.spec _ _ hP (by omega), obind_ok_eq, hs]

/-- one step of the length bookkeeping -/
theorem Chunked.histBound_step {s s' : Chunked G} (b : G) (k : List Nat) {n : Nat}
    (hB : HistBound s.scalarsBuffer.length s.bufSize (n + 1)) (hs : s.add cfg b k = .ok s')
    (hbs : s'.bufSize = s.bufSize) (hle : s'.scalarsBuffer.length ≤ s.scalarsBuffer.length + 1) :
    HistBound s'.scalarsBuffer.length s'.bufSize n := by
  rw [hbs]
  refine hB.step hle (fun hlt => ?_)
  have := Chunked.add_buffer_lt (cfg := cfg) b k (fun _ => hlt) hs (by rw [hbs]; omega)
  rwa [hbs] at this

theorem Chunked.addAll_inv (ok : MsmOK G cfg P) :
    ∀ (adds : List (G × List Nat)) (s : Chunked G) (total : G), Chunked.Inv P s total →
      (∀ a ∈ adds, P a.2) → HistBound s.scalarsBuffer.length s.bufSize adds.length →
      ∃ s', Chunked.addAll cfg s adds = .ok s' ∧ s'.bufSize = s.bufSize ∧
        s'.scalarsBuffer.length < 2 ^ 64 ∧ Chunked.Inv P s' (total + pairSum adds) := by
  intro adds
  induction adds with
  | nil => intro s total h _ hB; exact ⟨s, rfl, rfl, hB.zero, by simpa using h⟩
  | cons a adds ih =>
    intro s total h hP hB
    obtain ⟨b, k⟩ := a
    rw [List.length_cons] at hB
    obtain ⟨s₁, h₁, hb₁, hl₁, hi₁⟩ := Chunked.add_inv ok h b k (hP (b, k) (by simp)) hB.succ_lt
    have hB₁ := Chunked.histBound_step b k hB h₁ hb₁ hl₁
    obtain ⟨s₂, h₂, hb₂, hl₂, hi₂⟩ := ih s₁ _ hi₁ (fun a ha => hP a (by simp [ha])) hB₁
    refine ⟨s₂, ?_, by rw [hb₂, hb₁], hl₂, ?_⟩
    · simp only [Chunked.addAll, h₁, obind_ok_eq, h₂]
    · simpa [add_assoc] using hi₂

theorem Chunked.run_go_spec (ok : MsmOK G cfg P) (adds : List (G × List Nat)) (s : Chunked G)
    (total : G) (h : Chunked.Inv P s total) (hP : ∀ a ∈ adds, P a.2)
    (hB : HistBound s.scalarsBuffer.length s.bufSize adds.length) :
    Chunked.run.go cfg s adds = .ok (total + pairSum adds) := by
  obtain ⟨s', h₁, _, hl, hi⟩ := Chunked.addAll_inv ok adds s total h hP hB
  rw [Chunked.run_go_eq, h₁, obind_ok_eq, Chunked.finalize_inv ok hi hl]

theorem Chunked.run_ok (ok : MsmOK G cfg P) (bufSize : Nat) (adds : List (G × List Nat))
    (hP : ∀ a ∈ adds, P a.2) (hB : adds.length < 2 ^ 64 ∨ (0 < bufSize ∧ bufSize < 2 ^ 64)) :
    Chunked.run cfg bufSize adds = .ok (pairSum adds) := by
  unfold Chunked.run
  rw [Chunked.run_go_spec ok adds _ 0 (Chunked.new_inv bufSize) hP ?_, zero_add]
  simp only [Chunked.new, HistBound, List.length_nil, Nat.zero_add]
  omega

end Chunked

/-! ## order independence of the inner MSM (under `MsmOK`) -/

section Perm
variable {G : Type} [AddCommGroup G] {cfg : Cfg} {P : List Nat → Prop}

/-- `msm_bigint` on a list of pairs does not depend on the order of the pairs -/
theorem msmBigint_perm (ok : MsmOK G cfg P) {l l' : List (G × List Nat)} (h : l.Perm l')
    (hP : ∀ a ∈ l, P a.2) (hlen : l.length < 2 ^ 64) :
    msmBigint cfg (l.map (·.1)) (l.map (·.2)) = msmBigint cfg (l'.map (·.1)) (l'.map (·.2)) := by
  have h1 : ∀ k ∈ l.map (·.2), P k := by
    intro k hk; obtain ⟨a, ha, rfl⟩ := List.mem_map.1 hk; exact hP a ha
  have h2 : ∀ k ∈ l'.map (·.2), P k := by
    intro k hk; obtain ⟨a, ha, rfl⟩ := List.mem_map.1 hk; exact hP a (h.mem_iff.2 ha)
  have hl' := h.length_eq
  rw [ok.spec _ _ h1 (by simp only [List.length_map]; omega),
    ok.spec _ _ h2 (by simp only [List.length_map]; omega), msmSum_unzip, msmSum_unzip, pairSum_perm h]

end Perm

/-! ## `HashMapPippenger` -/

section HashMap
variable {G : Type} [AddCommGroup G] [DecidableEq G] {cfg : Cfg} {P : List Nat → Prop}

omit [DecidableEq G] in
theorem mod_nsmul (r n : Nat) (b : G) (h : r • b = 0) : (n % r) • b = n • b := by
  conv_rhs => rw [← Nat.div_add_mod n r, add_nsmul, mul_nsmul, h, nsmul_zero, zero_add]

/-- the sum over the map: `upsert` adds `k • base` (scalars are added modulo `r`, which is invisible on a
    base of order dividing `r`) -/
theorem upsert_sum (r : Nat) (base : G) (k : Nat) (h : r • base = 0) (buf : List (G × Nat)) :
    natPairSum (upsert r base k buf) = natPairSum buf + k • base := by
  induction buf with
  | nil => simp [upsert, mod_nsmul r _ base h]
  | cons e buf ih =>
    obtain ⟨b, v⟩ := e
    unfold upsert
    by_cases hb : b = base
    · subst hb
      simp only [if_true, natPairSum_cons, mod_nsmul r _ b h, add_nsmul]
      abel
    · simp only [hb, if_false, natPairSum_cons, ih]
      abel

omit [AddCommGroup G] in
theorem upsert_lt (r : Nat) (hr : 0 < r) (base : G) (k : Nat) (buf : List (G × Nat))
    (h : ∀ e ∈ buf, e.2 < r) : ∀ e ∈ upsert r base k buf, e.2 < r := by
  induction buf with
  | nil => intro e he; simp [upsert] at he; subst he; exact Nat.mod_lt _ hr
  | cons e' buf ih =>
    obtain ⟨b, v⟩ := e'
    intro e he
    unfold upsert at he
    by_cases hb : b = base
    · simp only [hb, if_true, List.mem_cons] at he
      rcases he with rfl | he
      · exact Nat.mod_lt _ hr
      · exact h e (by simp [he])
    · simp only [hb, if_false, List.mem_cons] at he
      rcases he with rfl | he
      · exact h (b, v) (by simp)
      · exact ih (fun e he => h e (by simp [he])) e he

omit [AddCommGroup G] in
/-- the key set after `upsert` -/
theorem upsert_keys (r : Nat) (base : G) (k : Nat) (buf : List (G × Nat)) :
    (upsert r base k buf).map (·.1)
      = if base ∈ buf.map (·.1) then buf.map (·.1) else buf.map (·.1) ++ [base] := by
  induction buf with
  | nil => simp [upsert]
  | cons e buf ih =>
    obtain ⟨b, v⟩ := e
    unfold upsert
    by_cases hb : b = base
    · simp [hb]
    · have hb' : ¬ base = b := fun h => hb h.symm
      simp only [hb, if_false, List.map_cons, ih, List.mem_cons, hb', false_or]
      split <;> simp

omit [AddCommGroup G] in
theorem upsert_nodup (r : Nat) (base : G) (k : Nat) (buf : List (G × Nat))
    (h : (buf.map (·.1)).Nodup) : ((upsert r base k buf).map (·.1)).Nodup := by
  rw [upsert_keys]
  split
  · exact h
  · rename_i hm
    rw [List.nodup_append]
    exact ⟨h, by simp, by intro a ha b hb; simp at hb; subst hb; intro hab; subst hab; exact hm ha⟩

omit [AddCommGroup G] in
theorem upsert_length (r : Nat) (base : G) (k : Nat) (buf : List (G × Nat)) :
    (upsert r base k buf).length
      = if base ∈ buf.map (·.1) then buf.length else buf.length + 1 := by
  have := congrArg List.length (upsert_keys r base k buf)
  rw [List.length_map] at this
  rw [this]; split <;> simp

omit [AddCommGroup G] in
/-- the stored scalar of `base` becomes `(old + k) mod r` (`old = 0` for a fresh key) -/
theorem upsert_lookup_self (r : Nat) (base : G) (k : Nat) (buf : List (G × Nat)) :
    (upsert r base k buf).lookup base = some (((buf.lookup base).getD 0 + k) % r) := by
  induction buf with
  | nil => simp [upsert, List.lookup]
  | cons e buf ih =>
    obtain ⟨b, v⟩ := e
    unfold upsert
    by_cases hb : b = base
    · subst hb; simp [List.lookup]
    · have hb' : (base == b) = false := by simpa using fun h => hb h.symm
      simp only [hb, if_false, List.lookup, hb', ih]

omit [AddCommGroup G] in
/-- all other keys keep their scalar -/
theorem upsert_lookup_ne (r : Nat) (base : G) (k : Nat) (buf : List (G × Nat)) (b' : G)
    (hne : b' ≠ base) : (upsert r base k buf).lookup b' = buf.lookup b' := by
  induction buf with
  | nil =>
    have : (b' == base) = false := by simpa using hne
    simp [upsert, List.lookup, this]
  | cons e buf ih =>
    obtain ⟨b, v⟩ := e
    unfold upsert
    by_cases hb : b = base
    · subst hb
      have : (b' == b) = false := by simpa using hne
      simp [List.lookup, this]
    · simp only [hb, if_false, List.lookup, ih]

omit [AddCommGroup G] in
/-- `upsert` commutes with reordering the association list (keys are distinct, as in a map) -/
theorem upsert_perm (r : Nat) (base : G) (k : Nat) {l l' : List (G × Nat)} (h : l.Perm l')
    (hn : (l.map (·.1)).Nodup) : (upsert r base k l).Perm (upsert r base k l') := by
  induction h with
  | nil => exact .refl _
  | cons x h ih =>
    obtain ⟨b, v⟩ := x
    unfold upsert
    by_cases hb : b = base
    · simp only [hb, if_true]; exact h.cons _
    · simp only [hb, if_false]
      exact (ih (List.nodup_cons.1 hn).2).cons _
  | swap x y l =>
    obtain ⟨b, v⟩ := x
    obtain ⟨c, w⟩ := y
    simp only [List.map_cons, List.nodup_cons, List.mem_cons, not_or] at hn
    have hcb : c ≠ b := hn.1.1
    by_cases hb : b = base
    · have hc : c ≠ base := by rw [← hb]; exact hcb
      simp only [upsert, hb, hc, if_true, if_false]
      exact List.Perm.swap _ _ _
    · by_cases hc : c = base
      · simp only [upsert, hb, hc, if_true, if_false]
        exact List.Perm.swap _ _ _
      · simp only [upsert, hb, hc, if_false]
        exact List.Perm.swap _ _ _
  | trans h₁ _ ih₁ ih₂ =>
    exact (ih₁ hn).trans (ih₂ ((h₁.map _).nodup_iff.1 hn))

/-- the invariant of `HashMapPippenger`: the map has distinct keys, its scalars are reduced, and
    `result + Σ_{(b,v) ∈ buffer} v • b` is the sum `total` of all pairs added so far -/
def HashMapAcc.Inv (cfg : Cfg) (s : HashMapAcc G) (total : G) : Prop :=
  (s.buffer.map (·.1)).Nodup ∧ (∀ e ∈ s.buffer, e.2 < cfg.r) ∧ s.result + natPairSum s.buffer = total

omit [DecidableEq G] in
theorem HashMapAcc.new_inv (bufSize : Nat) : HashMapAcc.Inv cfg (HashMapAcc.new bufSize : HashMapAcc G) 0 := by
  simp [HashMapAcc.Inv, HashMapAcc.new]

omit [DecidableEq G] in
/-- the flush: `msm_bigint` over the map's keys and values -/
theorem HashMapAcc.flush_ok (ok : MsmOK G cfg P) (hrB : cfg.r ≤ B ^ cfg.limbs)
    (hP : ∀ v < cfg.r, P (cfg.intoBigint v)) (buf : List (G × Nat)) (h : ∀ e ∈ buf, e.2 < cfg.r)
    (hlen : buf.length < 2 ^ 64) :
    msmBigint cfg (buf.map (·.1)) (buf.map (fun e => cfg.intoBigint e.2)) = .ok (natPairSum buf) := by
  rw [ok.spec, msmSum_buffer cfg buf (fun e he => lt_of_lt_of_le (h e he) hrB)]
  · intro k hk
    obtain ⟨e, he, rfl⟩ := List.mem_map.1 hk
    exact hP _ (h e he)
  · simp only [List.length_map]; omega

omit [DecidableEq G] in
/-- the flush does not depend on the iteration order of the map -/
theorem HashMapAcc.flush_perm (ok : MsmOK G cfg P) (hrB : cfg.r ≤ B ^ cfg.limbs)
    (hP : ∀ v < cfg.r, P (cfg.intoBigint v)) {buf buf' : List (G × Nat)} (hp : buf.Perm buf')
    (h : ∀ e ∈ buf, e.2 < cfg.r) (hlen : buf.length < 2 ^ 64) :
    msmBigint cfg (buf'.map (·.1)) (buf'.map (fun e => cfg.intoBigint e.2))
      = msmBigint cfg (buf.map (·.1)) (buf.map (fun e => cfg.intoBigint e.2)) := by
  rw [HashMapAcc.flush_ok ok hrB hP buf h hlen,
    HashMapAcc.flush_ok ok hrB hP buf' (fun e he => h e (hp.mem_iff.2 he)) (by rw [← hp.length_eq]; exact hlen),
    natPairSum_perm hp]

omit [AddCommGroup G] in
theorem upsert_length_le (r : Nat) (base : G) (k : Nat) (buf : List (G × Nat)) :
    (upsert r base k buf).length ≤ buf.length + 1 := by
  rw [upsert_length]; split <;> omega

theorem HashMapAcc.add_inv (ok : MsmOK G cfg P) (hr0 : 0 < cfg.r) (hrB : cfg.r ≤ B ^ cfg.limbs)
    (hP : ∀ v < cfg.r, P (cfg.intoBigint v)) {s : HashMapAcc G} {total : G}
    (h : HashMapAcc.Inv cfg s total) (b : G) (k : Nat) (hb : cfg.r • b = 0)
    (hlen : s.buffer.length + 1 < 2 ^ 64) :
    ∃ s', s.add cfg b k = .ok s' ∧ s'.bufSize = s.bufSize ∧ s'.buffer.length ≤ s.buffer.length + 1 ∧
      HashMapAcc.Inv cfg s' (total + k • b) := by
  obtain ⟨hn, hlt, hs⟩ := h
  have hlt' := upsert_lt cfg.r hr0 b k s.buffer hlt
  have hn' := upsert_nodup cfg.r b k s.buffer hn
  have hsum := upsert_sum cfg.r b k hb s.buffer
  have hle := upsert_length_le cfg.r b k s.buffer
  unfold HashMapAcc.add
  by_cases hfull : (upsert cfg.r b k s.buffer).length = s.bufSize
  · simp only [hfull, if_true]
    rw [HashMapAcc.flush_ok ok hrB hP _ hlt' (by omega), obind_ok_eq]
    refine ⟨_, rfl, rfl, by simp, by simp, by simp, ?_⟩
    simp only [natPairSum_nil, add_zero]
    rw [hsum, ← hs, add_assoc]
  · simp only [hfull, if_false]
    refine ⟨_, rfl, rfl, hle, hn', hlt', ?_⟩
    simp only
    rw [hsum, ← hs, add_assoc]

/-- the map never reaches `bufSize` entries (for `bufSize ≠ 0`) -/
theorem HashMapAcc.add_buffer_lt {s s' : HashMapAcc G} (b : G) (k : Nat)
    (h : s.bufSize ≠ 0 → s.buffer.length < s.bufSize) (hs : s.add cfg b k = .ok s') :
    s'.bufSize ≠ 0 → s'.buffer.length < s'.bufSize := by
  have hle := upsert_length_le cfg.r b k s.buffer
  unfold HashMapAcc.add at hs
  by_cases hfull : (upsert cfg.r b k s.buffer).length = s.bufSize
  · simp only [hfull, if_true] at hs
    cases hm : msmBigint cfg ((upsert cfg.r b k s.buffer).map (·.1))
        ((upsert cfg.r b k s.buffer).map (fun e => cfg.intoBigint e.2)) with
    | panic => rw [hm] at hs; cases hs
    | ok r =>
      rw [hm, obind_ok_eq] at hs
      cases hs
      intro h0
      exact Nat.pos_of_ne_zero h0
  · simp only [hfull, if_false] at hs
    cases hs
    intro h0
    have := h h0
    show (upsert cfg.r b k s.buffer).length < s.bufSize
    omega

omit [DecidableEq G] in
theorem HashMapAcc.finalize_inv (ok : MsmOK G cfg P) (hrB : cfg.r ≤ B ^ cfg.limbs)
    (hP : ∀ v < cfg.r, P (cfg.intoBigint v)) {s : HashMapAcc G} {total : G}
    (h : HashMapAcc.Inv cfg s total) (hlen : s.buffer.length < 2 ^ 64) : s.finalize cfg = .ok total := by
  obtain ⟨_, hlt, hs⟩ := h
  unfold HashMapAcc.finalize
  by_cases he : s.buffer.isEmpty
  · simp only [he, Bool.not_true, Bool.false_eq_true, if_false]
    rw [List.isEmpty_iff] at he
    rw [he] at hs; simpa using hs
  · simp only [he, Bool.not_false, if_true]
    rw [HashMapAcc.flush_ok ok hrB hP _ hlt hlen, obind_ok_eq, hs]

/-- one step of the length bookkeeping for the hash-map accumulator -/
theorem HashMapAcc.histBound_step {s s' : HashMapAcc G} (b : G) (k : Nat) {n : Nat}
    (hB : HistBound s.buffer.length s.bufSize (n + 1)) (hs : s.add cfg b k = .ok s')
    (hbs : s'.bufSize = s.bufSize) (hle : s'.buffer.length ≤ s.buffer.length + 1) :
    HistBound s'.buffer.length s'.bufSize n := by
  rw [hbs]
  refine hB.step hle (fun hlt => ?_)
  have := HashMapAcc.add_buffer_lt (cfg := cfg) b k (fun _ => hlt) hs (by rw [hbs]; omega)
  rwa [hbs] at this

theorem HashMapAcc.addAll_inv (ok : MsmOK G cfg P) (hr0 : 0 < cfg.r) (hrB : cfg.r ≤ B ^ cfg.limbs)
    (hP : ∀ v < cfg.r, P (cfg.intoBigint v)) :
    ∀ (adds : List (G × Nat)) (s : HashMapAcc G) (total : G), HashMapAcc.Inv cfg s total →
      (∀ a ∈ adds, cfg.r • a.1 = 0) → HistBound s.buffer.length s.bufSize adds.length →
      ∃ s', HashMapAcc.addAll cfg s adds = .ok s' ∧ s'.bufSize = s.bufSize ∧
        s'.buffer.length < 2 ^ 64 ∧ HashMapAcc.Inv cfg s' (total + natPairSum adds) := by
  intro adds
  induction adds with
  | nil => intro s total h _ hB; exact ⟨s, rfl, rfl, hB.zero, by simpa using h⟩
  | cons a adds ih =>
    intro s total h hord hB
    obtain ⟨b, k⟩ := a
    rw [List.length_cons] at hB
    obtain ⟨s₁, h₁, hb₁, hl₁, hi₁⟩ :=
      HashMapAcc.add_inv ok hr0 hrB hP h b k (hord (b, k) (by simp)) hB.succ_lt
    have hB₁ := HashMapAcc.histBound_step b k hB h₁ hb₁ hl₁
    obtain ⟨s₂, h₂, hb₂, hl₂, hi₂⟩ := ih s₁ _ hi₁ (fun a ha => hord a (by simp [ha])) hB₁
    refine ⟨s₂, ?_, by rw [hb₂, hb₁], hl₂, ?_⟩
    · simp only [HashMapAcc.addAll, h₁, obind_ok_eq, h₂]
    · simpa [add_assoc] using hi₂

theorem HashMapAcc.run_go_spec (ok : MsmOK G cfg P) (hr0 : 0 < cfg.r) (hrB : cfg.r ≤ B ^ cfg.limbs)
    (hP : ∀ v < cfg.r, P (cfg.intoBigint v)) (adds : List (G × Nat)) (s : HashMapAcc G)
    (total : G) (h : HashMapAcc.Inv cfg s total) (hord : ∀ a ∈ adds, cfg.r • a.1 = 0)
    (hB : HistBound s.buffer.length s.bufSize adds.length) :
    HashMapAcc.run.go cfg s adds = .ok (total + natPairSum adds) := by
  obtain ⟨s', h₁, _, hl, hi⟩ := HashMapAcc.addAll_inv ok hr0 hrB hP adds s total h hord hB
  rw [HashMapAcc.run_go_eq, h₁, obind_ok_eq, HashMapAcc.finalize_inv ok hrB hP hi hl]

theorem HashMapAcc.run_ok (ok : MsmOK G cfg P) (hr0 : 0 < cfg.r) (hrB : cfg.r ≤ B ^ cfg.limbs)
    (hP : ∀ v < cfg.r, P (cfg.intoBigint v)) (bufSize : Nat) (adds : List (G × Nat))
    (hord : ∀ a ∈ adds, cfg.r • a.1 = 0)
    (hB : adds.length < 2 ^ 64 ∨ (0 < bufSize ∧ bufSize < 2 ^ 64)) :
    HashMapAcc.run cfg bufSize adds = .ok (natPairSum adds) := by
  unfold HashMapAcc.run
  rw [HashMapAcc.run_go_spec ok hr0 hrB hP adds _ 0 (HashMapAcc.new_inv bufSize) hord ?_, zero_add]
  simp only [HashMapAcc.new, HistBound, List.length_nil, Nat.zero_add]
  omega

/-! ### the iteration order of the map is irrelevant -/

/-- two states that hold the same map (association lists equal up to order) -/
def HashMapAcc.Equiv (s s' : HashMapAcc G) : Prop :=
  s.buffer.Perm s'.buffer ∧ s.result = s'.result ∧ s.bufSize = s'.bufSize

theorem HashMapAcc.add_equiv (ok : MsmOK G cfg P) (hr0 : 0 < cfg.r) (hrB : cfg.r ≤ B ^ cfg.limbs)
    (hP : ∀ v < cfg.r, P (cfg.intoBigint v)) {s s' : HashMapAcc G}
    (he : HashMapAcc.Equiv s s') (hn : (s.buffer.map (·.1)).Nodup) (hlt : ∀ e ∈ s.buffer, e.2 < cfg.r)
    (b : G) (k : Nat) (hlen : s.buffer.length + 1 < 2 ^ 64) :
    ∃ t t', s.add cfg b k = .ok t ∧ s'.add cfg b k = .ok t' ∧ HashMapAcc.Equiv t t' ∧
      (t.buffer.map (·.1)).Nodup ∧ (∀ e ∈ t.buffer, e.2 < cfg.r) ∧
      t.bufSize = s.bufSize ∧ t.buffer.length ≤ s.buffer.length + 1 := by
  obtain ⟨hp, hres, hbs⟩ := he
  have hp' := upsert_perm cfg.r b k hp hn
  have hlt' := upsert_lt cfg.r hr0 b k s.buffer hlt
  have hn' := upsert_nodup cfg.r b k s.buffer hn
  have hle := upsert_length_le cfg.r b k s.buffer
  have hlen' := hp'.length_eq
  unfold HashMapAcc.add
  by_cases hfull : (upsert cfg.r b k s.buffer).length = s.bufSize
  · have hfull' : (upsert cfg.r b k s'.buffer).length = s'.bufSize := by rw [← hlen', hfull, hbs]
    simp only [hfull, hfull', if_true]
    rw [HashMapAcc.flush_perm ok hrB hP hp' hlt' (by omega),
      HashMapAcc.flush_ok ok hrB hP _ hlt' (by omega), obind_ok_eq]
    exact ⟨_, _, rfl, rfl, ⟨.refl _, by simp [hres], hbs⟩, by simp, by simp, rfl, by simp⟩
  · have hfull' : ¬ (upsert cfg.r b k s'.buffer).length = s'.bufSize := by rw [← hlen', ← hbs]; exact hfull
    simp only [hfull, hfull', if_false]
    exact ⟨_, _, rfl, rfl, ⟨hp', hres, hbs⟩, hn', hlt', rfl, hle⟩

omit [DecidableEq G] in
theorem HashMapAcc.finalize_equiv (ok : MsmOK G cfg P) (hrB : cfg.r ≤ B ^ cfg.limbs)
    (hP : ∀ v < cfg.r, P (cfg.intoBigint v)) {s s' : HashMapAcc G}
    (he : HashMapAcc.Equiv s s') (hlt : ∀ e ∈ s.buffer, e.2 < cfg.r) (hlen : s.buffer.length < 2 ^ 64) :
    s.finalize cfg = s'.finalize cfg := by
  obtain ⟨hp, hres, _⟩ := he
  have hemp : s'.buffer.isEmpty = s.buffer.isEmpty := by
    rw [Bool.eq_iff_iff, List.isEmpty_iff, List.isEmpty_iff]
    exact ⟨fun h => by rw [h] at hp; exact hp.eq_nil, fun h => by rw [h] at hp; exact hp.symm.eq_nil⟩
  unfold HashMapAcc.finalize
  rw [hemp, HashMapAcc.flush_perm ok hrB hP hp hlt hlen, hres]

/-- whatever order the map is iterated in — i.e. from any reordering of the association list, at any
    point of the history — the outcome is the same -/
theorem HashMapAcc.run_go_equiv (ok : MsmOK G cfg P) (hr0 : 0 < cfg.r) (hrB : cfg.r ≤ B ^ cfg.limbs)
    (hP : ∀ v < cfg.r, P (cfg.intoBigint v)) (adds : List (G × Nat)) :
    ∀ (s s' : HashMapAcc G), HashMapAcc.Equiv s s' → (s.buffer.map (·.1)).Nodup →
      (∀ e ∈ s.buffer, e.2 < cfg.r) → HistBound s.buffer.length s.bufSize adds.length →
      HashMapAcc.run.go cfg s adds = HashMapAcc.run.go cfg s' adds := by
  induction adds with
  | nil => intro s s' he _ hlt hB; exact HashMapAcc.finalize_equiv ok hrB hP he hlt hB.zero
  | cons a adds ih =>
    intro s s' he hn hlt hB
    obtain ⟨b, k⟩ := a
    rw [List.length_cons] at hB
    obtain ⟨t, t', h₁, h₂, he', hn', hlt', hbs, hle⟩ :=
      HashMapAcc.add_equiv ok hr0 hrB hP he hn hlt b k hB.succ_lt
    have hB₁ := HashMapAcc.histBound_step b k hB h₁ hbs hle
    simp only [HashMapAcc.run.go, h₁, h₂, obind_ok_eq]
    exact ih t t' he' hn' hlt' hB₁

end HashMap

end Ark.Msm
