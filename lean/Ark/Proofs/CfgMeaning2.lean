import Ark.Proofs.IsoIdentity
import Ark.Proofs.CfgMeaning
import Ark.Proofs.GlvEndo
import Ark.Proofs.Sqrt
import Ark.Proofs.TeGroupLaw
import Mathlib.FieldTheory.Finite.Basic
import Mathlib.GroupTheory.OrderOfElement
import Mathlib.Tactic.Ring
import Mathlib.Tactic.Linarith
import Mathlib.Tactic.LinearCombination
import Mathlib.Tactic.FieldSimp
/-
  Ark.Proofs.CfgMeaning2 — helper lemmas for the second batch of *meaning lemmas* of the C16 checkers
  (`Ark/Model/Cfg.lean`); the property-level statements are in `Ark/Props/C16Meaning2.lean`.

  Route (extends `Ark/Proofs/IsoIdentity.lean`).  `Realises2 t φ` says that `φ : El → K` interprets the
  tower `t` in a field `K` on the *well-formed* elements (`wf t a = true`: right arity, reduced
  coordinates): `add`, `sub`, `mul`, `zero`, `one`, `const` become the field operations, well-formedness
  is preserved and `φ` is injective on well-formed elements (so `isZero` / `==` / `!=` on coordinate
  lists decide `= 0` / `=` / `≠` in `K`).  Everything derived (`sq`, `dbl`, `triple`, `pow`, `evalPoly`,
  the Jacobian / projective point arithmetic, `notKthPower`, …) is proved once, generically in the
  realisation.  Instances: the prime tower in `ZMod p` (`realises2_prime`), the quadratic tower
  `F_p[u]/(u² - n)` in `AdjoinRoot (X² - n)` (`realises2_quad`).
-/
set_option linter.unusedSectionVars false
set_option linter.unusedVariables false
set_option linter.style.haveILetI false

namespace Ark.Cfg.Meaning2
open Ark.Cfg Ark.IsoId Ark.CfgMeaning

/-! ## Bool plumbing -/

theorem band {a b : Bool} : (a && b) = true ↔ a = true ∧ b = true := by
  cases a <;> cases b <;> simp

theorem bnot_true {a : Bool} : (!a) = true ↔ a = false := by cases a <;> simp

theorem el_beq {a b : El} (h : (a == b) = true) : a = b := eq_of_beq h

theorem el_bne {a b : El} (h : (a != b) = true) : a ≠ b := by
  intro e; subst e; simp at h

theorem allB_forall {α : Type} (f : α → Bool) : ∀ (l : List α), allB f l = true ↔ ∀ x ∈ l, f x = true
  | [] => by simp [allB]
  | x :: xs => by simp [allB, allB_forall f xs]

/-! ## well-formedness of coordinate vectors -/

/-- reduced coordinates -/
def Red (p : Nat) (a : El) : Prop := ∀ x ∈ a, x < p

theorem wf_iff (t : Tw) (a : El) : wf t a = true ↔ a.length = t.deg ∧ Red t.char a := by
  unfold wf Red
  rw [band, allB_forall]
  simp

theorem vadd_length (p : Nat) : ∀ (a b : El), a.length = b.length → (vadd p a b).length = a.length
  | [], [], _ => rfl
  | [], _ :: _, h => by simp at h
  | _ :: _, [], h => by simp at h
  | x :: xs, y :: ys, h => by
    simp only [vadd, List.length_cons, add_left_inj] at h ⊢
    exact vadd_length p xs ys h

theorem vadd_red (p : Nat) (hp : 0 < p) : ∀ (a b : El), Red p (vadd p a b)
  | [], _ => by intro x hx; simp [vadd] at hx
  | _ :: _, [] => by intro x hx; simp [vadd] at hx
  | x :: xs, y :: ys => by
    intro z hz
    simp only [vadd, List.mem_cons] at hz
    rcases hz with rfl | hz
    · exact Nat.mod_lt _ hp
    · exact vadd_red p hp xs ys z hz

theorem vsub_length (p : Nat) : ∀ (a b : El), a.length = b.length → (vsub p a b).length = a.length
  | [], [], _ => rfl
  | [], _ :: _, h => by simp at h
  | _ :: _, [], h => by simp at h
  | x :: xs, y :: ys, h => by
    simp only [vsub, List.length_cons, add_left_inj] at h ⊢
    exact vsub_length p xs ys h

theorem vsub_red (p : Nat) (hp : 0 < p) : ∀ (a b : El), Red p (vsub p a b)
  | [], _ => by intro x hx; simp [vsub] at hx
  | _ :: _, [] => by intro x hx; simp [vsub] at hx
  | x :: xs, y :: ys => by
    intro z hz
    simp only [vsub, List.mem_cons] at hz
    rcases hz with rfl | hz
    · exact Nat.mod_lt _ hp
    · exact vsub_red p hp xs ys z hz

theorem wf_add (t : Tw) (hp : 0 < t.char) (a b : El) (ha : wf t a = true) (hb : wf t b = true) :
    wf t (t.add a b) = true := by
  rw [wf_iff] at ha hb ⊢
  exact ⟨by rw [Tw.add, vadd_length _ _ _ (ha.1.trans hb.1.symm)]; exact ha.1, vadd_red _ hp _ _⟩

theorem wf_sub (t : Tw) (hp : 0 < t.char) (a b : El) (ha : wf t a = true) (hb : wf t b = true) :
    wf t (t.sub a b) = true := by
  rw [wf_iff] at ha hb ⊢
  exact ⟨by rw [Tw.sub, vsub_length _ _ _ (ha.1.trans hb.1.symm)]; exact ha.1, vsub_red _ hp _ _⟩

theorem isZero_replicate : ∀ n : Nat, isZero (List.replicate n 0) = true
  | 0 => rfl
  | n + 1 => by simp only [List.replicate, isZero, band, beq_self_eq_true, isZero_replicate n, and_self]

theorem isZero_iff_replicate : ∀ a : El, isZero a = true ↔ a = List.replicate a.length 0
  | [] => by simp [isZero]
  | x :: xs => by
    simp only [isZero, band, beq_iff_eq, List.length_cons, List.replicate_succ, List.cons.injEq]
    rw [isZero_iff_replicate xs]


/-! ## realisations of a tower in a field, on well-formed elements -/

section generic
variable {K : Type} [Field K]

/-- `φ` interprets the tower `t` in the field `K` on well-formed elements, injectively -/
structure Realises2 (t : Tw) (φ : El → K) : Prop where
  base : Realises t (fun a => wf t a = true) φ
  sub_ok : ∀ a b, wf t a = true → wf t b = true → wf t (t.sub a b) = true
  sub_eq : ∀ a b, wf t a = true → wf t b = true → φ (t.sub a b) = φ a - φ b
  const_ok : ∀ c : Nat, wf t (t.const c) = true
  const_eq : ∀ c : Nat, φ (t.const c) = (c : K)
  inj : ∀ a b, wf t a = true → wf t b = true → φ a = φ b → a = b

variable {t : Tw} {φ : El → K}

namespace Realises2

theorem add_ok (R : Realises2 t φ) {a b : El} (ha : wf t a = true) (hb : wf t b = true) :
    wf t (t.add a b) = true := R.base.add_ok a b ha hb
theorem add_eq (R : Realises2 t φ) {a b : El} (ha : wf t a = true) (hb : wf t b = true) :
    φ (t.add a b) = φ a + φ b := R.base.add_eq a b ha hb
theorem mul_ok (R : Realises2 t φ) {a b : El} (ha : wf t a = true) (hb : wf t b = true) :
    wf t (t.mul a b) = true := R.base.mul_ok a b ha hb
theorem mul_eq (R : Realises2 t φ) {a b : El} (ha : wf t a = true) (hb : wf t b = true) :
    φ (t.mul a b) = φ a * φ b := R.base.mul_eq a b ha hb
theorem zero_ok (R : Realises2 t φ) : wf t t.zero = true := R.base.zero_ok
theorem zero_eq (R : Realises2 t φ) : φ t.zero = 0 := R.base.zero_eq
theorem one_ok (R : Realises2 t φ) : wf t t.one = true := R.base.one_ok
theorem one_eq (R : Realises2 t φ) : φ t.one = 1 := R.base.one_eq

theorem sq_ok (R : Realises2 t φ) {a : El} (ha : wf t a = true) : wf t (t.sq a) = true :=
  R.mul_ok ha ha
theorem sq_eq (R : Realises2 t φ) {a : El} (ha : wf t a = true) : φ (t.sq a) = φ a * φ a :=
  R.mul_eq ha ha
theorem dbl_ok (R : Realises2 t φ) {a : El} (ha : wf t a = true) : wf t (t.dbl a) = true :=
  R.add_ok ha ha
theorem dbl_eq (R : Realises2 t φ) {a : El} (ha : wf t a = true) : φ (t.dbl a) = φ a + φ a :=
  R.add_eq ha ha
theorem triple_ok (R : Realises2 t φ) {a : El} (ha : wf t a = true) : wf t (t.triple a) = true :=
  R.add_ok (t := t) (R.add_ok (t := t) ha ha) ha
theorem triple_eq (R : Realises2 t φ) {a : El} (ha : wf t a = true) :
    φ (t.triple a) = φ a + φ a + φ a := by
  show φ (t.add (t.add a a) a) = _
  rw [R.add_eq (R.add_ok ha ha) ha, R.add_eq ha ha]

/-- `isZero` decides `= 0` in the field -/
theorem isZero_iff (R : Realises2 t φ) {a : El} (ha : wf t a = true) :
    Cfg.isZero a = true ↔ φ a = 0 := by
  constructor
  · exact R.base.isZero_eq a
  · intro h
    have := R.inj a t.zero ha R.zero_ok (by rw [h, R.zero_eq])
    rw [this]
    exact isZero_replicate _

theorem not_isZero_iff (R : Realises2 t φ) {a : El} (ha : wf t a = true) :
    (!Cfg.isZero a) = true ↔ φ a ≠ 0 := by
  rw [bnot_true, Ne, ← R.isZero_iff ha]
  cases Cfg.isZero a <;> simp

theorem beq_eq (_R : Realises2 t φ) {a b : El} (h : (a == b) = true) : φ a = φ b := by
  rw [el_beq h]

theorem bne_ne (R : Realises2 t φ) {a b : El} (ha : wf t a = true) (hb : wf t b = true)
    (h : (a != b) = true) : φ a ≠ φ b := fun e => el_bne h (R.inj a b ha hb e)

theorem powAux_spec (R : Realises2 t φ) : ∀ (fuel : Nat) (b : El) (e : Nat) (acc : El),
    wf t b = true → wf t acc = true → e < 2 ^ fuel →
    wf t (t.powAux fuel b e acc) = true ∧ φ (t.powAux fuel b e acc) = φ acc * φ b ^ e := by
  intro fuel
  induction fuel with
  | zero =>
    intro b e acc _ hacc h
    have : e = 0 := by simpa using h
    subst this
    simp [Tw.powAux, hacc]
  | succ n ih =>
    intro b e acc hb hacc h
    unfold Tw.powAux
    split
    · rename_i he; subst he; simp [hacc]
    · have h2 : e / 2 < 2 ^ n := by
        rw [Nat.div_lt_iff_lt_mul (by norm_num)]; rw [pow_succ] at h; exact h
      have hbb := R.mul_ok hb hb
      split
      · rename_i hodd
        obtain ⟨h1, h3⟩ := ih (t.mul b b) (e / 2) (t.mul acc b) hbb (R.mul_ok hacc hb) h2
        refine ⟨h1, ?_⟩
        rw [h3, R.mul_eq hb hb, R.mul_eq hacc hb, ← pow_two, ← pow_mul]
        have he : e = 2 * (e / 2) + 1 := by omega
        conv_rhs => rw [he, pow_succ]
        ring
      · rename_i hev
        obtain ⟨h1, h3⟩ := ih (t.mul b b) (e / 2) acc hbb hacc h2
        refine ⟨h1, ?_⟩
        rw [h3, R.mul_eq hb hb, ← pow_two, ← pow_mul]
        have he : e = 2 * (e / 2) := by omega
        rw [← he]

theorem pow_ok (R : Realises2 t φ) {a : El} (ha : wf t a = true) (e : Nat) :
    wf t (t.pow a e) = true := by
  have hlt : e < 2 ^ (e.log2 + 2) :=
    lt_trans Nat.lt_log2_self (Nat.pow_lt_pow_right (by norm_num) (by omega))
  exact (R.powAux_spec _ a e t.one ha R.one_ok hlt).1

theorem pow_eq (R : Realises2 t φ) {a : El} (ha : wf t a = true) (e : Nat) :
    φ (t.pow a e) = φ a ^ e := by
  have hlt : e < 2 ^ (e.log2 + 2) :=
    lt_trans Nat.lt_log2_self (Nat.pow_lt_pow_right (by norm_num) (by omega))
  have := (R.powAux_spec _ a e t.one ha R.one_ok hlt).2
  rw [R.one_eq, one_mul] at this
  exact this

theorem inv_ok (R : Realises2 t φ) {a : El} (ha : wf t a = true) : wf t (t.inv a) = true :=
  R.pow_ok ha _

theorem inv_eq_pow (R : Realises2 t φ) {a : El} (ha : wf t a = true) :
    φ (t.inv a) = φ a ^ (t.card - 2) := R.pow_eq ha _

/-- `Tw.inv` is the field inverse when `K` has as many elements as the tower says -/
theorem inv_eq (R : Realises2 t φ) [Fintype K] (hc : Fintype.card K = t.card) {a : El}
    (ha : wf t a = true) (h0 : φ a ≠ 0) : φ (t.inv a) = (φ a)⁻¹ := by
  rw [R.inv_eq_pow ha, ← hc]
  have h1 : φ a ^ (Fintype.card K - 1) = 1 := FiniteField.pow_card_sub_one_eq_one _ h0
  have hq : 1 < Fintype.card K := Fintype.one_lt_card
  have : Fintype.card K - 1 = (Fintype.card K - 2) + 1 := by omega
  rw [this, pow_succ] at h1
  exact eq_inv_of_mul_eq_one_left h1

/-- Horner evaluation -/
theorem evalPoly_spec (R : Realises2 t φ) {x : El} (hx : wf t x = true) : ∀ (cs : List El),
    allB (wf t) cs = true →
    wf t (t.evalPoly x cs) = true ∧ φ (t.evalPoly x cs) = ev φ (φ x) cs
  | [], _ => ⟨R.zero_ok, by simp [Tw.evalPoly, ev, R.zero_eq]⟩
  | c :: cs, h => by
    simp only [allB, band] at h
    obtain ⟨h1, h2⟩ := evalPoly_spec R hx cs h.2
    have hm := R.mul_ok hx h1
    refine ⟨R.add_ok h.1 hm, ?_⟩
    show φ (t.add c (t.mul x (t.evalPoly x cs))) = _
    rw [R.add_eq h.1 hm, R.mul_eq hx h1, h2]
    rfl

/-- in a realised tower of odd characteristic `2 ≠ 0` in `K` -/
theorem natCast_ne_zero (R : Realises2 t φ) (c : Nat) (hc : 0 < c % t.char) (hd : 0 < t.deg) :
    (c : K) ≠ 0 := by
  rw [← R.const_eq c]
  intro h
  have hz := (R.isZero_iff (R.const_ok c)).2 h
  unfold Tw.const vconst at hz
  cases hd' : t.deg with
  | zero => omega
  | succ n =>
    rw [hd'] at hz
    simp only [Cfg.isZero, band, beq_iff_eq] at hz
    omega

end Realises2

/-! ### non-`k`-th powers, squares (Euler-type criteria in a finite field) -/

theorem not_kth_power_of_pow_ne_one [Fintype K] (k q : Nat) (hq : Fintype.card K = q)
    (hdvd : k ∣ q - 1) (a : K) (ha : a ≠ 0) (hpow : a ^ ((q - 1) / k) ≠ 1) :
    ¬ ∃ y : K, y ^ k = a := by
  rintro ⟨y, rfl⟩
  apply hpow
  have hk : k ≠ 0 := by
    rintro rfl
    have h1 : 1 < Fintype.card K := Fintype.one_lt_card
    have : q - 1 = 0 := by simpa using hdvd
    omega
  have hy : y ≠ 0 := by
    rintro rfl
    exact ha (zero_pow hk)
  rw [← pow_mul, Nat.mul_div_cancel' hdvd, ← hq]
  exact FiniteField.pow_card_sub_one_eq_one y hy

/-- meaning of `Tw.notKthPower` in a realisation with the right number of elements -/
theorem notKthPower_meaning {t : Tw} {φ : El → K} (R : Realises2 t φ) [Fintype K]
    (hc : Fintype.card K = t.card) (k : Nat) {a : El} (ha : wf t a = true)
    (h : t.notKthPower k a = true) :
    k ∣ t.card - 1 ∧ φ a ≠ 0 ∧ ¬ ∃ y : K, y ^ k = φ a := by
  unfold Tw.notKthPower at h
  simp only [band] at h
  obtain ⟨⟨h1, h2⟩, h3⟩ := h
  have hdvd : k ∣ t.card - 1 := Nat.dvd_of_mod_eq_zero (beq_nat_true h1)
  have h0 : φ a ≠ 0 := (R.not_isZero_iff ha).1 h2
  refine ⟨hdvd, h0, not_kth_power_of_pow_ne_one k t.card hc hdvd _ h0 ?_⟩
  have := R.bne_ne (R.pow_ok ha _) R.one_ok h3
  rwa [R.pow_eq ha, R.one_eq] at this

theorem nonSquare_meaning {t : Tw} {φ : El → K} (R : Realises2 t φ) [Fintype K]
    (hc : Fintype.card K = t.card) {a : El} (ha : wf t a = true) (h : t.nonSquare a = true) :
    φ a ≠ 0 ∧ ¬ IsSquare (φ a) := by
  obtain ⟨_, h0, hn⟩ := notKthPower_meaning R hc 2 ha h
  refine ⟨h0, ?_⟩
  rintro ⟨y, hy⟩
  exact hn ⟨y, by rw [hy, pow_two]⟩

/-- meaning of `Tw.isSquare` (Euler's criterion, odd characteristic) -/
theorem isSquare_meaning {t : Tw} {φ : El → K} (R : Realises2 t φ) [Fintype K]
    (hc : Fintype.card K = t.card) (h2 : ringChar K ≠ 2) {a : El} (ha : wf t a = true)
    (h : t.isSquare a = true) : φ a ≠ 0 ∧ IsSquare (φ a) := by
  unfold Tw.isSquare at h
  rw [band] at h
  have h0 : φ a ≠ 0 := (R.not_isZero_iff ha).1 h.1
  refine ⟨h0, ?_⟩
  have hp := R.beq_eq h.2
  rw [R.pow_eq ha, R.one_eq, ← hc] at hp
  have hdiv : (Fintype.card K - 1) / 2 = Fintype.card K / 2 := by
    have := FiniteField.odd_card_of_char_ne_two h2
    omega
  rw [hdiv] at hp
  exact (FiniteField.isSquare_iff h2 h0).2 hp

end generic


/-! ## instances: the prime tower in `ZMod p`, the quadratic tower in `AdjoinRoot (X² - n)` -/

theorem Realises.restrict {K : Type} [Field K] {t : Tw} {φ : El → K} {ok ok' : El → Prop}
    (R : Realises t ok φ) (h : ∀ a, ok' a → ok a)
    (hadd : ∀ a b, ok' a → ok' b → ok' (t.add a b)) (hmul : ∀ a b, ok' a → ok' b → ok' (t.mul a b))
    (hzero : ok' t.zero) (hone : ok' t.one) : Realises t ok' φ where
  add_ok := hadd
  add_eq := fun a b ha hb => R.add_eq a b (h a ha) (h b hb)
  mul_ok := hmul
  mul_eq := fun a b ha hb => R.mul_eq a b (h a ha) (h b hb)
  zero_ok := hzero
  zero_eq := R.zero_eq
  one_ok := hone
  one_eq := R.one_eq
  isZero_eq := R.isZero_eq

theorem wf_prime_iff (p : Nat) (a : El) : wf (.prime p) a = true ↔ ∃ x, a = [x] ∧ x < p := by
  rw [wf_iff]
  constructor
  · rintro ⟨h1, h2⟩
    obtain ⟨x, rfl⟩ := List.length_eq_one_iff.1 h1
    exact ⟨x, rfl, h2 x (by simp)⟩
  · rintro ⟨x, rfl, hx⟩
    refine ⟨rfl, ?_⟩
    intro y hy
    simp only [List.mem_singleton] at hy
    subst hy; exact hx

theorem natCast_sub_mod (p x y : Nat) (hp : 0 < p) :
    (((x + (p - y % p)) % p : Nat) : ZMod p) = (x : ZMod p) - (y : ZMod p) := by
  rw [ZMod.natCast_mod, Nat.cast_add, Nat.cast_sub (Nat.le_of_lt (Nat.mod_lt _ hp)),
    ZMod.natCast_self, ZMod.natCast_mod]
  ring

theorem natCast_inj_of_lt (p x y : Nat) (hx : x < p) (hy : y < p)
    (h : (x : ZMod p) = (y : ZMod p)) : x = y := by
  have := (ZMod.natCast_eq_natCast_iff' _ _ _).mp h
  rwa [Nat.mod_eq_of_lt hx, Nat.mod_eq_of_lt hy] at this

theorem realises2_prime (p : Nat) [Fact p.Prime] : Realises2 (K := ZMod p) (.prime p) (phiP p) := by
  have hp1 : 1 < p := (Fact.out : p.Prime).one_lt
  have hp0 : 0 < (Tw.prime p).char := by show 0 < p; omega
  refine ⟨?_, ?_, ?_, ?_, ?_, ?_⟩
  · refine Realises.restrict (realises_prime p) (fun a ha => wf_prime_ok p a ha)
      (fun a b ha hb => wf_add _ hp0 a b ha hb) ?_ ?_ ?_
    · intro a b _ _
      rw [wf_prime_iff]
      exact ⟨_, rfl, Nat.mod_lt _ (by omega)⟩
    · rw [wf_prime_iff]; exact ⟨0, rfl, by omega⟩
    · rw [wf_prime_iff]; exact ⟨1, rfl, hp1⟩
  · exact fun a b ha hb => wf_sub _ hp0 a b ha hb
  · intro a b ha hb
    obtain ⟨x, rfl, _⟩ := (wf_prime_iff p a).1 ha
    obtain ⟨y, rfl, _⟩ := (wf_prime_iff p b).1 hb
    exact natCast_sub_mod p x y (by omega)
  · intro c
    rw [wf_prime_iff]
    exact ⟨c % p, rfl, Nat.mod_lt _ (by omega)⟩
  · intro c
    show ((c % p : Nat) : ZMod p) = (c : ZMod p)
    exact ZMod.natCast_mod c p
  · intro a b ha hb h
    obtain ⟨x, rfl, hx⟩ := (wf_prime_iff p a).1 ha
    obtain ⟨y, rfl, hy⟩ := (wf_prime_iff p b).1 hb
    rw [natCast_inj_of_lt p x y hx hy h]

section quad
open Polynomial
variable (p n : Nat)

theorem wf_quad_iff (nr a : El) :
    wf (.ext 2 (.prime p) nr) a = true ↔ ∃ x0 x1, a = [x0, x1] ∧ x0 < p ∧ x1 < p := by
  rw [wf_iff]
  constructor
  · rintro ⟨h1, h2⟩
    obtain ⟨x0, x1, rfl⟩ := List.length_eq_two.1 h1
    exact ⟨x0, x1, rfl, h2 x0 (by simp), h2 x1 (by simp)⟩
  · rintro ⟨x0, x1, rfl, h0, h1⟩
    refine ⟨rfl, ?_⟩
    intro y hy
    simp only [List.mem_cons, List.not_mem_nil, or_false] at hy
    rcases hy with rfl | rfl
    · exact h0
    · exact h1

theorem phiQ_pair (x0 x1 : Nat) : phiQ p n [x0, x1] =
    AdjoinRoot.of (quadPoly p n) ((x0 : Nat) : ZMod p) +
      AdjoinRoot.of (quadPoly p n) ((x1 : Nat) : ZMod p) * AdjoinRoot.root (quadPoly p n) := rfl

/-- `1, u` are linearly independent over `F_p` in `F_p[u]/(u² - n)` -/
theorem quad_coords_zero [Fact p.Prime] (d0 d1 : ZMod p)
    (h : AdjoinRoot.of (quadPoly p n) d0 + AdjoinRoot.of (quadPoly p n) d1 * AdjoinRoot.root (quadPoly p n) = 0) :
    d0 = 0 ∧ d1 = 0 := by
  have hm : AdjoinRoot.mk (quadPoly p n) (C d0 + C d1 * X) = 0 := by
    rw [map_add, map_mul, AdjoinRoot.mk_C, AdjoinRoot.mk_C, AdjoinRoot.mk_X]; exact h
  rw [AdjoinRoot.mk_eq_zero] at hm
  have hdeg : (C d0 + C d1 * X : (ZMod p)[X]).degree < (quadPoly p n).degree := by
    have h2 : (quadPoly p n).degree = 2 := by
      unfold quadPoly; exact degree_X_pow_sub_C (by norm_num) _
    rw [h2]
    calc (C d0 + C d1 * X : (ZMod p)[X]).degree ≤ 1 := by
            rw [add_comm]; exact degree_linear_le
      _ < 2 := by norm_num
  have hz := Polynomial.eq_zero_of_dvd_of_degree_lt hm hdeg
  have c0 := congrArg (fun q => Polynomial.coeff q 0) hz
  have c1 := congrArg (fun q => Polynomial.coeff q 1) hz
  simp at c0 c1
  exact ⟨c0, c1⟩

theorem realises2_quad [Fact p.Prime] [Fact (Irreducible (quadPoly p n))] (nr : El)
    (hn : nr.headD 0 = n) :
    Realises2 (K := AdjoinRoot (quadPoly p n)) (.ext 2 (.prime p) nr) (phiQ p n) := by
  have hp1 : 1 < p := (Fact.out : p.Prime).one_lt
  have hp0 : 0 < (Tw.ext 2 (.prime p) nr).char := by show 0 < p; omega
  refine ⟨?_, ?_, ?_, ?_, ?_, ?_⟩
  · refine Realises.restrict (realises_quad p n nr hn) (fun a ha => wf_quad_ok p nr a ha)
      (fun a b ha hb => wf_add _ hp0 a b ha hb) ?_ ?_ ?_
    · intro a b ha hb
      obtain ⟨x0, x1, rfl, _, _⟩ := (wf_quad_iff p nr a).1 ha
      obtain ⟨y0, y1, rfl, _, _⟩ := (wf_quad_iff p nr b).1 hb
      rw [wf_quad_iff]
      exact ⟨_, _, rfl, Nat.mod_lt _ (by omega), Nat.mod_lt _ (by omega)⟩
    · rw [wf_quad_iff]; exact ⟨0, 0, rfl, by omega, by omega⟩
    · rw [wf_quad_iff]; exact ⟨1, 0, rfl, hp1, by omega⟩
  · exact fun a b ha hb => wf_sub _ hp0 a b ha hb
  · intro a b ha hb
    obtain ⟨x0, x1, rfl, _, _⟩ := (wf_quad_iff p nr a).1 ha
    obtain ⟨y0, y1, rfl, _, _⟩ := (wf_quad_iff p nr b).1 hb
    show phiQ p n [(x0 + (p - y0 % p)) % p, (x1 + (p - y1 % p)) % p] = _
    rw [phiQ_pair, phiQ_pair, phiQ_pair, natCast_sub_mod p x0 y0 (by omega),
      natCast_sub_mod p x1 y1 (by omega), map_sub, map_sub]
    ring
  · intro c
    rw [wf_quad_iff]
    exact ⟨c % p, 0, rfl, Nat.mod_lt _ (by omega), by omega⟩
  · intro c
    show phiQ p n [c % p, 0] = _
    rw [phiQ_pair, ZMod.natCast_mod]
    simp
  · intro a b ha hb h
    obtain ⟨x0, x1, rfl, hx0, hx1⟩ := (wf_quad_iff p nr a).1 ha
    obtain ⟨y0, y1, rfl, hy0, hy1⟩ := (wf_quad_iff p nr b).1 hb
    rw [phiQ_pair, phiQ_pair] at h
    have h' : AdjoinRoot.of (quadPoly p n) ((x0 : ZMod p) - (y0 : ZMod p)) +
        AdjoinRoot.of (quadPoly p n) ((x1 : ZMod p) - (y1 : ZMod p)) * AdjoinRoot.root (quadPoly p n) = 0 := by
      rw [map_sub, map_sub]; linear_combination h
    obtain ⟨e0, e1⟩ := quad_coords_zero p n _ _ h'
    rw [natCast_inj_of_lt p x0 y0 hx0 hy0 (sub_eq_zero.1 e0),
      natCast_inj_of_lt p x1 y1 hx1 hy1 (sub_eq_zero.1 e1)]

theorem quad_finite [Fact p.Prime] : Finite (AdjoinRoot (quadPoly p n)) := by
  have hm : (quadPoly p n).Monic := monic_X_pow_sub_C _ (by norm_num)
  have := hm.finite_adjoinRoot
  exact Module.finite_of_finite (ZMod p)

/-- `F_p[u]/(u² - n)` has `p²` elements, as `Tw.card` says -/
theorem quad_card [Fact p.Prime] [Fintype (AdjoinRoot (quadPoly p n))] (nr : El) :
    Fintype.card (AdjoinRoot (quadPoly p n)) = (Tw.ext 2 (.prime p) nr).card := by
  have hm : (quadPoly p n).Monic := monic_X_pow_sub_C _ (by norm_num)
  have := Module.card_fintype (AdjoinRoot.powerBasisAux' hm)
  rw [this, ZMod.card, Fintype.card_fin]
  have hd : (quadPoly p n).natDegree = 2 := by unfold quadPoly; exact natDegree_X_pow_sub_C
  rw [hd]
  rfl

theorem prime_card [Fact p.Prime] : Fintype.card (ZMod p) = (Tw.prime p).card := by
  rw [ZMod.card]; simp [Tw.card, Tw.char, Tw.deg]

end quad


/-! ## values: `Rep R a v` — `a` is well formed and denotes `v` -/

section rep
variable {K : Type} [Field K] {t : Tw} {φ : El → K}

/-- the well-formed coordinate vector `a` denotes the field element `v` -/
def Rep (t : Tw) (φ : El → K) (a : El) (v : K) : Prop := wf t a = true ∧ φ a = v

theorem Rep.mk' {a : El} (h : wf t a = true) : Rep t φ a (φ a) := ⟨h, rfl⟩

namespace Realises2
variable (R : Realises2 t φ)
include R

theorem radd {a b : El} {v w : K} (ha : Rep t φ a v) (hb : Rep t φ b w) :
    Rep t φ (t.add a b) (v + w) := ⟨R.add_ok ha.1 hb.1, by rw [R.add_eq ha.1 hb.1, ha.2, hb.2]⟩
theorem rsub {a b : El} {v w : K} (ha : Rep t φ a v) (hb : Rep t φ b w) :
    Rep t φ (t.sub a b) (v - w) := ⟨R.sub_ok _ _ ha.1 hb.1, by rw [R.sub_eq _ _ ha.1 hb.1, ha.2, hb.2]⟩
theorem rmul {a b : El} {v w : K} (ha : Rep t φ a v) (hb : Rep t φ b w) :
    Rep t φ (t.mul a b) (v * w) := ⟨R.mul_ok ha.1 hb.1, by rw [R.mul_eq ha.1 hb.1, ha.2, hb.2]⟩
theorem rsq {a : El} {v : K} (ha : Rep t φ a v) : Rep t φ (t.sq a) (v * v) := R.rmul ha ha
theorem rdbl {a : El} {v : K} (ha : Rep t φ a v) : Rep t φ (t.dbl a) (v + v) := R.radd ha ha
theorem rtriple {a : El} {v : K} (ha : Rep t φ a v) : Rep t φ (t.triple a) (v + v + v) :=
  R.radd (t := t) (R.radd (t := t) ha ha) ha
theorem rzero : Rep t φ t.zero 0 := ⟨R.zero_ok, R.zero_eq⟩
theorem rone : Rep t φ t.one 1 := ⟨R.one_ok, R.one_eq⟩
theorem rconst (c : Nat) : Rep t φ (t.const c) (c : K) := ⟨R.const_ok c, R.const_eq c⟩
theorem rpow {a : El} {v : K} (ha : Rep t φ a v) (e : Nat) : Rep t φ (t.pow a e) (v ^ e) :=
  ⟨R.pow_ok ha.1 e, by rw [R.pow_eq ha.1, ha.2]⟩
theorem rinv [Fintype K] (hc : Fintype.card K = t.card) {a : El} {v : K} (ha : Rep t φ a v)
    (h0 : v ≠ 0) : Rep t φ (t.inv a) v⁻¹ :=
  ⟨R.inv_ok ha.1, by rw [R.inv_eq hc ha.1 (by rw [ha.2]; exact h0), ha.2]⟩
theorem risZero {a : El} {v : K} (ha : Rep t φ a v) : Cfg.isZero a = true ↔ v = 0 := by
  rw [R.isZero_iff ha.1, ha.2]
theorem rnotZero {a : El} {v : K} (ha : Rep t φ a v) : (!Cfg.isZero a) = true ↔ v ≠ 0 := by
  rw [R.not_isZero_iff ha.1, ha.2]
theorem rbeq {a b : El} {v w : K} (ha : Rep t φ a v) (hb : Rep t φ b w) (h : (a == b) = true) :
    v = w := by rw [← ha.2, ← hb.2]; exact R.beq_eq h
theorem rbne {a b : El} {v w : K} (ha : Rep t φ a v) (hb : Rep t φ b w) (h : (a != b) = true) :
    v ≠ w := by rw [← ha.2, ← hb.2]; exact R.bne_ne ha.1 hb.1 h
theorem revalPoly {x : El} {v : K} (hx : Rep t φ x v) (cs : List El) (h : allB (wf t) cs = true) :
    Rep t φ (t.evalPoly x cs) (ev φ v cs) := by
  obtain ⟨h1, h2⟩ := R.evalPoly_spec hx.1 cs h
  exact ⟨h1, by rw [h2, hx.2]⟩

end Realises2
end rep

/-! ## short Weierstrass: the Jacobian arithmetic of `Cfg.Sw` read in a field -/

section sw
open Ark.Curve Ark.Curve.SW
variable {K : Type} [Field K] [DecidableEq K]

/-- `Sw.dbl` over a field (dbl-2007-bl) -/
def dblK (a : K) (P : Jac K) : Jac K :=
  let xx := P.x * P.x
  let yy := P.y * P.y
  let yyyy := yy * yy
  let zz := P.z * P.z
  let s := ((P.x + yy) * (P.x + yy) - xx - yyyy) + ((P.x + yy) * (P.x + yy) - xx - yyyy)
  let m := (xx + xx + xx) + a * (zz * zz)
  let x3 := m * m - (s + s)
  ⟨x3, m * (s - x3) - (((yyyy + yyyy) + (yyyy + yyyy)) + ((yyyy + yyyy) + (yyyy + yyyy))),
   (P.y + P.z) * (P.y + P.z) - yy - zz⟩

/-- `Sw.addAff` over a field (madd-2007-bl with the special cases) -/
def addAffK (a : K) (P : Jac K) (x2 y2 : K) : Jac K :=
  if P.z = 0 then ⟨x2, y2, 1⟩
  else
    let z1z1 := P.z * P.z
    let u2 := x2 * z1z1
    let s2 := (y2 * P.z) * z1z1
    let h := u2 - P.x
    let rr := s2 - P.y
    if h = 0 then (if rr = 0 then dblK a P else ⟨1, 1, 0⟩)
    else
      let hh := h * h
      let i := (hh + hh) + (hh + hh)
      let j := h * i
      let r2 := rr + rr
      let v := P.x * i
      let x3 := r2 * r2 - j - (v + v)
      ⟨x3, r2 * (v - x3) - (P.y * j + P.y * j), (P.z + h) * (P.z + h) - z1z1 - hh⟩

def smulAuxK (a x y : K) : Nat → Nat → Jac K
  | 0, _ => ⟨1, 1, 0⟩
  | fuel + 1, k =>
    if k = 0 then ⟨1, 1, 0⟩
    else
      let d := dblK a (smulAuxK a x y fuel (k / 2))
      if k % 2 = 1 then addAffK a d x y else d

def smulK (a x y : K) (k : Nat) : Jac K := smulAuxK a x y (k.log2 + 1) k

/-- a Jacobian triple of coordinate vectors denotes a triple of field elements -/
def RepJ (t : Tw) (φ : El → K) (P : JPt) (Q : Jac K) : Prop :=
  Rep t φ P.x Q.x ∧ Rep t φ P.y Q.y ∧ Rep t φ P.z Q.z

variable {t : Tw} {φ : El → K}

theorem dbl_rep (R : Realises2 t φ) {a : El} {α : K} (ha : Rep t φ a α) {P : JPt} {Q : Jac K}
    (hP : RepJ t φ P Q) : RepJ t φ (Sw.dbl t a P) (dblK α Q) := by
  obtain ⟨hx, hy, hz⟩ := hP
  have hxx := R.rsq hx
  have hyy := R.rsq hy
  have hyyyy := R.rsq hyy
  have hzz := R.rsq hz
  have hs := R.rdbl (R.rsub (R.rsub (R.rsq (R.radd hx hyy)) hxx) hyyyy)
  have hm := R.radd (R.rtriple hxx) (R.rmul ha (R.rsq hzz))
  have hx3 := R.rsub (R.rsq hm) (R.rdbl hs)
  exact ⟨hx3, R.rsub (R.rmul hm (R.rsub hs hx3)) (R.rdbl (R.rdbl (R.rdbl hyyyy))),
    R.rsub (R.rsub (R.rsq (R.radd hy hz)) hyy) hzz⟩

theorem inf_rep (R : Realises2 t φ) : RepJ t φ (Sw.inf t) (⟨1, 1, 0⟩ : Jac K) :=
  ⟨R.rone, R.rone, R.rzero⟩

theorem addAff_rep (R : Realises2 t φ) {a : El} {α : K} (ha : Rep t φ a α) {P : JPt} {Q : Jac K}
    (hP : RepJ t φ P Q) {x2 y2 : El} {u v : K} (hx2 : Rep t φ x2 u) (hy2 : Rep t φ y2 v) :
    RepJ t φ (Sw.addAff t a P x2 y2) (addAffK α Q u v) := by
  obtain ⟨hx, hy, hz⟩ := hP
  unfold Sw.addAff addAffK
  by_cases h0 : Q.z = 0
  · rw [if_pos ((R.risZero hz).2 h0), if_pos h0]
    exact ⟨hx2, hy2, R.rone⟩
  · have hnz : ¬ Cfg.isZero P.z = true := fun h => h0 ((R.risZero hz).1 h)
    rw [if_neg hnz, if_neg h0]
    have hz1 := R.rsq hz
    have hu2 := R.rmul hx2 hz1
    have hs2 := R.rmul (R.rmul hy2 hz) hz1
    have hh := R.rsub hu2 hx
    have hrr := R.rsub hs2 hy
    dsimp only
    by_cases hh0 : u * (Q.z * Q.z) - Q.x = 0
    · rw [if_pos ((R.risZero hh).2 hh0), if_pos hh0]
      by_cases hr0 : v * Q.z * (Q.z * Q.z) - Q.y = 0
      · rw [if_pos ((R.risZero hrr).2 hr0), if_pos hr0]
        exact dbl_rep R ha ⟨hx, hy, hz⟩
      · rw [if_neg (fun h => hr0 ((R.risZero hrr).1 h)), if_neg hr0]
        exact inf_rep R
    · rw [if_neg (fun h => hh0 ((R.risZero hh).1 h)), if_neg hh0]
      have hhh := R.rsq hh
      have hi := R.rdbl (R.rdbl hhh)
      have hj := R.rmul hh hi
      have hr2 := R.rdbl hrr
      have hv := R.rmul hx hi
      have hx3 := R.rsub (R.rsub (R.rsq hr2) hj) (R.rdbl hv)
      exact ⟨hx3, R.rsub (R.rmul hr2 (R.rsub hv hx3)) (R.rdbl (R.rmul hy hj)),
        R.rsub (R.rsub (R.rsq (R.radd hz hh)) hz1) hhh⟩

theorem smulAux_rep (R : Realises2 t φ) {a x y : El} {α u v : K} (ha : Rep t φ a α)
    (hx : Rep t φ x u) (hy : Rep t φ y v) : ∀ (fuel k : Nat),
    RepJ t φ (Sw.smulAux t a x y fuel k) (smulAuxK α u v fuel k)
  | 0, _ => inf_rep R
  | fuel + 1, k => by
    unfold Sw.smulAux smulAuxK
    by_cases hk : k = 0
    · rw [if_pos hk, if_pos hk]; exact inf_rep R
    · rw [if_neg hk, if_neg hk]
      have hd := dbl_rep R ha (smulAux_rep R ha hx hy fuel (k / 2))
      dsimp only
      by_cases hodd : k % 2 = 1
      · rw [if_pos hodd, if_pos hodd]; exact addAff_rep R ha hd hx hy
      · rw [if_neg hodd, if_neg hodd]; exact hd

theorem smul_rep (R : Realises2 t φ) {a x y : El} {α u v : K} (ha : Rep t φ a α)
    (hx : Rep t φ x u) (hy : Rep t φ y v) (k : Nat) :
    RepJ t φ (Sw.smul t a x y k) (smulK α u v k) := smulAux_rep R ha hx hy _ k

end sw


/-! ### the field-level Jacobian formulas compute the chord-and-tangent law -/

section swspec
open Ark.Curve Ark.Curve.SW
variable {K : Type} [Field K] [DecidableEq K]

/-- the curve record used to quote the C03 theorems (`mul_by_a` = multiplication by `a`) -/
def curveOf (a b : K) : Curve K := ⟨a, b, fun e => a * e, true⟩

theorem curveOf_mulByA (a b : K) : ∀ e, (curveOf a b).mulByA e = (curveOf a b).a * e := fun _ => rfl

theorem dblK_eq_double (a b : K) (P : Jac K) (hz : P.z ≠ 0) : dblK a P = double (curveOf a b) P := by
  unfold double
  rw [isZero_eq_false hz]
  by_cases ha : a = 0
  · subst ha
    simp only [curveOf, Bool.false_eq_true, if_false, if_true, dblK, Curve.sq, Curve.dbl]
    rw [Jac.mk.injEq]
    refine ⟨by ring, by ring, by ring⟩
  · simp only [curveOf, ha, Bool.false_eq_true, if_false, dblK, Curve.sq, Curve.dbl]
    rw [Jac.mk.injEq]
    refine ⟨by ring, by ring, by ring⟩

theorem toAff_dblK (a : K) (P : Jac K) : toAff (dblK a P) = affAdd a (toAff P) (toAff P) := by
  by_cases hz : P.z = 0
  · have : (dblK a P).z = 0 := by
      show (P.y + P.z) * (P.y + P.z) - P.y * P.y - P.z * P.z = 0
      rw [hz]; ring
    rw [toAff_of_z_eq_zero this, toAff_of_z_eq_zero hz, affAdd_none_left]
  · rw [dblK_eq_double a 0 P hz]
    exact toAff_double (curveOf a 0) (curveOf_mulByA a 0) P

theorem addAffK_eq_addMixed (a b : K) (P : Jac K) (x2 y2 : K) :
    addAffK a P x2 y2 = addMixed (curveOf a b) P ⟨x2, y2, false⟩ := by
  unfold addAffK addMixed
  simp only [Affine.xy, Bool.false_eq_true, if_false]
  by_cases hz : P.z = 0
  · rw [if_pos hz, isZero_eq_true hz, if_pos rfl]
  · rw [if_neg hz, isZero_eq_false hz]
    simp only [Bool.false_eq_true, if_false]
    by_cases hh : x2 * (P.z * P.z) - P.x = 0
    · have hx : P.x = x2 * Curve.sq P.z := (sub_eq_zero.1 hh).symm
      rw [if_pos hh, if_pos hx]
      by_cases hr : y2 * P.z * (P.z * P.z) - P.y = 0
      · have hy : P.y = P.z * y2 * Curve.sq P.z := by
          show P.y = P.z * y2 * (P.z * P.z)
          rw [← sub_eq_zero.1 hr]; ring
        rw [if_pos hr, if_pos hy]
        exact dblK_eq_double a b P hz
      · have hy : ¬ P.y = P.z * y2 * Curve.sq P.z := fun e => hr (by
          have e' : P.y = P.z * y2 * (P.z * P.z) := e
          rw [e']; ring)
        rw [if_neg hr, if_neg hy]
        rfl
    · have hx : ¬ P.x = x2 * Curve.sq P.z := fun e => hh (by
        have e' : P.x = x2 * (P.z * P.z) := e
        rw [e']; ring)
      rw [if_neg hh, if_neg hx]
      simp only [Curve.sq, Curve.dbl]
      rw [Jac.mk.injEq]
      refine ⟨by ring, by ring, by ring⟩

theorem toAff_addAffK (a b : K) (h2 : (2 : K) ≠ 0) (P : Jac K) (x2 y2 : K)
    (hP : onCurve a b (toAff P) = true) (hQ : onCurve a b (some (x2, y2)) = true) :
    toAff (addAffK a P x2 y2) = affAdd a (toAff P) (some (x2, y2)) := by
  rw [addAffK_eq_addMixed a b]
  exact toAff_addMixed (curveOf a b) (curveOf_mulByA a b) h2 P ⟨x2, y2, false⟩ hP hQ

/-- **the double-and-add ladder computes the scalar multiple in Mathlib's group of points** -/
theorem toAff_smulAuxK (a b : K) (h2 : (2 : K) ≠ 0) (G : (wcurve a b).Point) (x y : K)
    (hG : ofPoint G = some (x, y)) : ∀ (fuel k : Nat), k < 2 ^ fuel →
    toAff (smulAuxK a x y fuel k) = ofPoint (k • G)
  | 0, k, h => by
    have : k = 0 := by simpa using h
    subst this
    rw [zero_smul]
    exact toAff_of_z_eq_zero rfl
  | fuel + 1, k, h => by
    unfold smulAuxK
    by_cases hk : k = 0
    · subst hk
      rw [if_pos rfl, zero_smul]
      exact toAff_of_z_eq_zero rfl
    · rw [if_neg hk]
      have h2' : k / 2 < 2 ^ fuel := by
        rw [Nat.div_lt_iff_lt_mul (by norm_num)]; rw [pow_succ] at h; exact h
      have ih := toAff_smulAuxK a b h2 G x y hG fuel (k / 2) h2'
      have hd : toAff (dblK a (smulAuxK a x y fuel (k / 2))) = ofPoint ((2 * (k / 2)) • G) := by
        rw [toAff_dblK, ih, ← ofPoint_add, ← add_smul]
        congr 2; omega
      dsimp only
      by_cases hodd : k % 2 = 1
      · rw [if_pos hodd]
        have hon : onCurve a b (toAff (dblK a (smulAuxK a x y fuel (k / 2)))) = true := by
          rw [hd]; exact onCurve_ofPoint _
        have hq : onCurve a b (some (x, y)) = true := by rw [← hG]; exact onCurve_ofPoint _
        rw [toAff_addAffK a b h2 _ x y hon hq, hd, ← hG, ← ofPoint_add]
        have : k = 2 * (k / 2) + 1 := by omega
        conv_rhs => rw [this, add_smul, one_smul]
      · rw [if_neg hodd, hd]
        have : 2 * (k / 2) = k := by omega
        rw [this]

theorem toAff_smulK (a b : K) (h2 : (2 : K) ≠ 0) (G : (wcurve a b).Point) (x y : K)
    (hG : ofPoint G = some (x, y)) (k : Nat) : toAff (smulK a x y k) = ofPoint (k • G) :=
  toAff_smulAuxK a b h2 G x y hG _ k Nat.lt_log2_self

end swspec


/-! ## well-formed towers -/

theorem wfTower_char_deg : ∀ t : Tw, t.wfTower = true → 2 < t.char ∧ 0 < t.deg
  | .prime p, h => ⟨by simpa [Tw.wfTower, Tw.char] using h, by simp [Tw.deg]⟩
  | .ext k b nr, h => by
    simp only [Tw.wfTower, band] at h
    obtain ⟨⟨hk, hb⟩, _⟩ := h
    obtain ⟨h1, h2⟩ := wfTower_char_deg b hb
    refine ⟨h1, ?_⟩
    have hk' : k = 2 ∨ k = 3 := by simpa using hk
    show 0 < k * b.deg
    rcases hk' with rfl | rfl <;> omega

theorem two_ne_zero_of_wfTower {K : Type} [Field K] {t : Tw} {φ : El → K} (R : Realises2 t φ)
    (h : t.wfTower = true) : (2 : K) ≠ 0 := by
  obtain ⟨h1, h2⟩ := wfTower_char_deg t h
  have := R.natCast_ne_zero 2 (by rw [Nat.mod_eq_of_lt h1]; norm_num) h2
  exact_mod_cast this

/-! ## short Weierstrass configurations -/

/-- `checkSwShape`, conjunct by conjunct -/
theorem swShape_unfold (c : SwCfg) (h : checkSwShape c = true) :
    c.tower.wfTower = true ∧ wf c.tower c.a = true ∧ wf c.tower c.b = true ∧
    wf c.tower c.gx = true ∧ wf c.tower c.gy = true ∧ 2 < c.r ∧ c.cofactorInv < c.r ∧
    limbsVal c.cofactorLimbs = c.cofactor ∧ ∀ x ∈ c.cofactorLimbs, x < 2 ^ 64 := by
  unfold checkSwShape at h
  simp only [band] at h
  obtain ⟨⟨⟨⟨⟨⟨⟨⟨h1, h2⟩, h3⟩, h4⟩, h5⟩, h6⟩, h7⟩, h8⟩, h9⟩ := h
  refine ⟨h1, h2, h3, h4, h5, of_decide_eq_true h6, of_decide_eq_true h7, beq_nat_true h8, ?_⟩
  intro x hx
  exact of_decide_eq_true ((allB_forall _ _).1 h9 x hx)

section swcfg
open Ark.Curve Ark.Curve.SW
variable {K : Type} [Field K] {φ : El → K}

/-- `checkSwNonsingular`: `4a³ + 27b² ≠ 0` -/
theorem sw_nonsingular (c : SwCfg) (R : Realises2 c.tower φ) (ha : wf c.tower c.a = true)
    (hb : wf c.tower c.b = true) (h : checkSwNonsingular c = true) :
    4 * φ c.a ^ 3 + 27 * φ c.b ^ 2 ≠ 0 := by
  unfold checkSwNonsingular at h
  have ra : Rep c.tower φ c.a (φ c.a) := Rep.mk' ha
  have rb : Rep c.tower φ c.b (φ c.b) := Rep.mk' hb
  have := (R.rnotZero (R.radd (R.rmul (R.rconst 4) (R.rmul ra (R.rsq ra)))
    (R.rmul (R.rconst 27) (R.rsq rb)))).1 h
  intro e
  apply this
  push_cast
  linear_combination e

/-- `Sw.onCurve` in a realisation -/
theorem sw_onCurve_rep {t : Tw} (R : Realises2 t φ) {a b x y : El} {α β u v : K}
    (ha : Rep t φ a α) (hb : Rep t φ b β) (hx : Rep t φ x u) (hy : Rep t φ y v)
    (h : Sw.onCurve t a b x y = true) : v * v = u * u * u + α * u + β := by
  unfold Sw.onCurve at h
  exact R.rbeq (R.rsq hy) (R.radd (R.radd (R.rmul (R.rsq hx) hx) (R.rmul ha hx)) hb) h

variable [DecidableEq K]

theorem wcurve_delta_ne_zero (a b : K) (h2 : (2 : K) ≠ 0) (h : 4 * a ^ 3 + 27 * b ^ 2 ≠ 0) :
    (wcurve a b).Δ ≠ 0 := by
  rw [wcurve_Δ]
  have h16 : (-16 : K) ≠ 0 := by
    have : (-16 : K) = -(2 ^ 4) := by norm_num
    rw [this]; exact neg_ne_zero.2 (pow_ne_zero 4 h2)
  exact mul_ne_zero h16 h

/-- `Sw.eqAffine` in a realisation: the Jacobian triple denotes the affine point -/
theorem sw_eqAffine_rep {t : Tw} (R : Realises2 t φ) {P : JPt} {Q : Jac K} (hP : RepJ t φ P Q)
    {x y : El} {u v : K} (hx : Rep t φ x u) (hy : Rep t φ y v)
    (h : Sw.eqAffine t P x y = true) : toAff Q = some (u, v) := by
  obtain ⟨px, py, pz⟩ := hP
  unfold Sw.eqAffine at h
  simp only [band] at h
  obtain ⟨⟨h1, h2⟩, h3⟩ := h
  have hz : Q.z ≠ 0 := (R.rnotZero pz).1 h1
  have ex := R.rbeq px (R.rmul hx (R.rsq pz)) h2
  have ey := R.rbeq py (R.rmul hy (R.rmul (R.rsq pz) pz)) h3
  have : Q = SW.mk u v Q.z := by
    cases Q with
    | mk qx qy qz =>
      have ex' : qx = u * (qz * qz) := ex
      have ey' : qy = v * (qz * qz * qz) := by rw [show qy = _ from ey]
      show (⟨qx, qy, qz⟩ : Jac K) = ⟨u * (qz * qz), v * (qz * qz * qz), qz⟩
      rw [ex', ey']
  rw [this]
  exact toAff_mk u v Q.z hz

/-- the generator is a point of Mathlib's group of non-singular points of `y² = x³ + a x + b` -/
theorem sw_generator_point (c : SwCfg) (R : Realises2 c.tower φ) (hs : checkSwShape c = true)
    (hn : checkSwNonsingular c = true) (hc : checkSwGeneratorOnCurve c = true) :
    ∃ G : (wcurve (φ c.a) (φ c.b)).Point, ofPoint G = some (φ c.gx, φ c.gy) := by
  obtain ⟨hw, ha, hb, hx, hy, _⟩ := swShape_unfold c hs
  have h2 := two_ne_zero_of_wfTower R hw
  have hΔ := wcurve_delta_ne_zero _ _ h2 (sw_nonsingular c R ha hb hn)
  unfold checkSwGeneratorOnCurve at hc
  rw [band] at hc
  have e := sw_onCurve_rep R (Rep.mk' ha) (Rep.mk' hb) (Rep.mk' hx) (Rep.mk' hy) hc.2
  exact exists_point hΔ _ ((onCurve_some _ _ _ _).2 e)

/-- `r·(x, y) = O` in Mathlib's group, from the model ladder returning `Z = 0` -/
theorem sw_smul_zero {t : Tw} (R : Realises2 t φ) (hw : t.wfTower = true) {a x y : El} {α u v : K}
    (ha : Rep t φ a α) (hx : Rep t φ x u) (hy : Rep t φ y v) (b : K)
    (G : (wcurve α b).Point) (hG : ofPoint G = some (u, v)) (k : Nat)
    (h : Cfg.isZero (Sw.smul t a x y k).z = true) : k • G = 0 := by
  have h2 := two_ne_zero_of_wfTower R hw
  have hrep := smul_rep R ha hx hy k
  have hz : (smulK α u v k).z = 0 := (R.risZero hrep.2.2).1 h
  have := toAff_smulK α b h2 G u v hG k
  rw [toAff_of_z_eq_zero hz] at this
  exact ofPoint_injective (by rw [← this]; rfl)

/-- `checkSwGeneratorOrder`: `r·G = O`, `G ≠ O` -/
theorem sw_generator_order (c : SwCfg) (R : Realises2 c.tower φ) (hs : checkSwShape c = true)
    (ho : checkSwGeneratorOrder c = true) (G : (wcurve (φ c.a) (φ c.b)).Point)
    (hG : ofPoint G = some (φ c.gx, φ c.gy)) : c.r • G = 0 ∧ G ≠ 0 := by
  obtain ⟨hw, ha, hb, hx, hy, _⟩ := swShape_unfold c hs
  unfold checkSwGeneratorOrder at ho
  rw [band] at ho
  refine ⟨sw_smul_zero R hw (Rep.mk' ha) (Rep.mk' hx) (Rep.mk' hy) _ G hG c.r ho.2, ?_⟩
  rintro rfl
  simp [ofPoint_zero] at hG

/-- `Sw.eqAffine (k·(x, y)) (x', y')`: `k • G = G'` in Mathlib's group -/
theorem sw_smul_eq {t : Tw} (R : Realises2 t φ) (hw : t.wfTower = true) {a x y x' y' : El}
    {α u v u' v' : K} (ha : Rep t φ a α) (hx : Rep t φ x u) (hy : Rep t φ y v)
    (hx' : Rep t φ x' u') (hy' : Rep t φ y' v') (b : K) (G G' : (wcurve α b).Point)
    (hG : ofPoint G = some (u, v)) (hG' : ofPoint G' = some (u', v')) (k : Nat)
    (h : Sw.eqAffine t (Sw.smul t a x y k) x' y' = true) : k • G = G' := by
  have h2 := two_ne_zero_of_wfTower R hw
  have hrep := smul_rep R ha hx hy k
  have e := sw_eqAffine_rep R hrep hx' hy' h
  have := toAff_smulK α b h2 G u v hG k
  exact ofPoint_injective (by rw [← this, e, hG'])

end swcfg


/-! ## twisted Edwards: the projective arithmetic of `Cfg.Te` read in a field -/

/-- a projective triple `(X : Y : Z)` over a field -/
structure Proj (K : Type) where
  x : K
  y : K
  z : K

section te
open Ark.Curve.TE
variable {K : Type} [Field K] [DecidableEq K]

/-- `Te.add` over a field (add-2008-bbjlp) -/
def teAddK (a d : K) (P Q : Proj K) : Proj K :=
  let aa := P.z * Q.z
  let bb := aa * aa
  let cc := P.x * Q.x
  let dd := P.y * Q.y
  let ee := d * (cc * dd)
  let ff := bb - ee
  let gg := bb + ee
  ⟨aa * ff * ((P.x + P.y) * (Q.x + Q.y) - cc - dd), aa * gg * (dd - a * cc), ff * gg⟩

def teSmulAuxK (a d : K) (G : Proj K) : Nat → Nat → Proj K
  | 0, _ => ⟨0, 1, 1⟩
  | fuel + 1, k =>
    if k = 0 then ⟨0, 1, 1⟩
    else
      let h := teSmulAuxK a d G fuel (k / 2)
      let dbl := teAddK a d h h
      if k % 2 = 1 then teAddK a d dbl G else dbl

def teSmulK (a d : K) (G : Proj K) (k : Nat) : Proj K := teSmulAuxK a d G (k.log2 + 1) k

/-- the affine point denoted by a projective triple with `Z ≠ 0` -/
def Denotes (P : Proj K) (p : K × K) : Prop := P.z ≠ 0 ∧ P.x = p.1 * P.z ∧ P.y = p.2 * P.z

def RepT (t : Tw) (φ : El → K) (P : TPt) (Q : Proj K) : Prop :=
  Rep t φ P.x Q.x ∧ Rep t φ P.y Q.y ∧ Rep t φ P.z Q.z

variable {t : Tw} {φ : El → K}

theorem teAdd_rep (R : Realises2 t φ) {a d : El} {α δ : K} (ha : Rep t φ a α) (hd : Rep t φ d δ)
    {P Q : TPt} {P' Q' : Proj K} (hP : RepT t φ P P') (hQ : RepT t φ Q Q') :
    RepT t φ (Te.add t a d P Q) (teAddK α δ P' Q') := by
  obtain ⟨px, py, pz⟩ := hP
  obtain ⟨qx, qy, qz⟩ := hQ
  have haa := R.rmul pz qz
  have hbb := R.rsq haa
  have hcc := R.rmul px qx
  have hdd := R.rmul py qy
  have hee := R.rmul hd (R.rmul hcc hdd)
  have hff := R.rsub hbb hee
  have hgg := R.radd hbb hee
  exact ⟨R.rmul (R.rmul haa hff) (R.rsub (R.rsub (R.rmul (R.radd px py) (R.radd qx qy)) hcc) hdd),
    R.rmul (R.rmul haa hgg) (R.rsub hdd (R.rmul ha hcc)), R.rmul hff hgg⟩

theorem teId_rep (R : Realises2 t φ) : RepT t φ (Te.id t) (⟨0, 1, 1⟩ : Proj K) :=
  ⟨R.rzero, R.rone, R.rone⟩

theorem teSmulAux_rep (R : Realises2 t φ) {a d : El} {α δ : K} (ha : Rep t φ a α)
    (hd : Rep t φ d δ) {G : TPt} {G' : Proj K} (hG : RepT t φ G G') : ∀ (fuel k : Nat),
    RepT t φ (Te.smulAux t a d G fuel k) (teSmulAuxK α δ G' fuel k)
  | 0, _ => teId_rep R
  | fuel + 1, k => by
    unfold Te.smulAux teSmulAuxK
    by_cases hk : k = 0
    · rw [if_pos hk, if_pos hk]; exact teId_rep R
    · rw [if_neg hk, if_neg hk]
      have hh := teSmulAux_rep R ha hd hG fuel (k / 2)
      have hdb := teAdd_rep R ha hd hh hh
      dsimp only
      by_cases hodd : k % 2 = 1
      · rw [if_pos hodd, if_pos hodd]; exact teAdd_rep R ha hd hdb hG
      · rw [if_neg hodd, if_neg hodd]; exact hdb

/-- the projective formula computes the affine Edwards law wherever that law is defined -/
theorem teAddK_denotes (a d : K) (P Q : Proj K) (p q : K × K) (hP : Denotes P p) (hQ : Denotes Q q)
    (hdef : affAddDefined d p q = true) : Denotes (teAddK a d P Q) (affAdd a d p q) := by
  obtain ⟨x1, y1⟩ := p
  obtain ⟨x2, y2⟩ := q
  obtain ⟨hz1, hx1, hy1⟩ := hP
  obtain ⟨hz2, hx2, hy2⟩ := hQ
  obtain ⟨k1, k2⟩ := (affAddDefined_iff _ _ _).1 hdef
  simp only at hx1 hy1 hx2 hy2 k1 k2
  cases P with
  | mk X1 Y1 Z1 =>
  cases Q with
  | mk X2 Y2 Z2 =>
  simp only at hz1 hz2 hx1 hy1 hx2 hy2
  subst hx1 hy1 hx2 hy2
  have hF : (Z1 * Z2) * (Z1 * Z2) - d * (x1 * Z1 * (x2 * Z2) * (y1 * Z1 * (y2 * Z2))) =
      (Z1 * Z2) ^ 2 * (1 - d * x1 * x2 * y1 * y2) := by ring
  have hGG : (Z1 * Z2) * (Z1 * Z2) + d * (x1 * Z1 * (x2 * Z2) * (y1 * Z1 * (y2 * Z2))) =
      (Z1 * Z2) ^ 2 * (1 + d * x1 * x2 * y1 * y2) := by ring
  have hzz : Z1 * Z2 ≠ 0 := mul_ne_zero hz1 hz2
  refine ⟨?_, ?_, ?_⟩
  · show ((Z1 * Z2) * (Z1 * Z2) - d * (x1 * Z1 * (x2 * Z2) * (y1 * Z1 * (y2 * Z2)))) *
      ((Z1 * Z2) * (Z1 * Z2) + d * (x1 * Z1 * (x2 * Z2) * (y1 * Z1 * (y2 * Z2)))) ≠ 0
    rw [hF, hGG]
    exact mul_ne_zero (mul_ne_zero (pow_ne_zero 2 hzz) k2) (mul_ne_zero (pow_ne_zero 2 hzz) k1)
  · simp only [teAddK, affAdd]
    field_simp
    ring
  · simp only [teAddK, affAdd]
    field_simp

theorem teId_denotes : Denotes (⟨0, 1, 1⟩ : Proj K) ((0 : K), (1 : K)) :=
  ⟨one_ne_zero, by simp, by simp⟩

/-- **the projective double-and-add ladder computes the scalar multiple** in the group of an
    `AddClosed` set of curve points (the whole curve when the law is complete) -/
theorem teSmulAuxK_denotes (a d : K) (S : K × K → Prop) (hS : AddClosed a d S) (G : Proj K)
    (g : {P : K × K // S P}) (hG : Denotes G g.1) : ∀ (fuel k : Nat), k < 2 ^ fuel →
    Denotes (teSmulAuxK a d G fuel k) (letI := addCommGroupOfClosed hS; (k • g : {P : K × K // S P})).1 := by
  letI := addCommGroupOfClosed hS
  intro fuel
  induction fuel with
  | zero =>
    intro k h
    have : k = 0 := by simpa using h
    subst this
    rw [zero_smul]
    exact teId_denotes
  | succ fuel ih =>
    intro k h
    unfold teSmulAuxK
    by_cases hk : k = 0
    · subst hk
      rw [if_pos rfl, zero_smul]
      exact teId_denotes
    · rw [if_neg hk]
      have h2' : k / 2 < 2 ^ fuel := by
        rw [Nat.div_lt_iff_lt_mul (by norm_num)]; rw [pow_succ] at h; exact h
      have ih' := ih (k / 2) h2'
      have hd : Denotes (teAddK a d (teSmulAuxK a d G fuel (k / 2)) (teSmulAuxK a d G fuel (k / 2)))
          (((2 * (k / 2)) • g : {P : K × K // S P})).1 := by
        have := teAddK_denotes a d _ _ _ _ ih' ih' (hS.add_defined _ _ ((k / 2) • g).2 ((k / 2) • g).2)
        have e : ((2 * (k / 2)) • g : {P : K × K // S P}) = (k / 2) • g + (k / 2) • g := by
          rw [two_mul, add_smul]
        rw [e]
        exact this
      dsimp only
      by_cases hodd : k % 2 = 1
      · rw [if_pos hodd]
        have := teAddK_denotes a d _ _ _ _ hd hG (hS.add_defined _ _ ((2 * (k / 2)) • g).2 g.2)
        have e : (k • g : {P : K × K // S P}) = (2 * (k / 2)) • g + g := by
          have hk2 : k = 2 * (k / 2) + 1 := by omega
          conv_lhs => rw [hk2, add_smul, one_smul]
        rw [e]
        exact this
      · rw [if_neg hodd]
        have e : 2 * (k / 2) = k := by omega
        rw [e] at hd
        exact hd

theorem te_isId_rep (R : Realises2 t φ) {P : TPt} {Q : Proj K} (hP : RepT t φ P Q)
    (h : Te.isId P = true) : Denotes Q ((0 : K), (1 : K)) := by
  obtain ⟨px, py, pz⟩ := hP
  unfold Te.isId at h
  simp only [band] at h
  obtain ⟨⟨h1, h2⟩, h3⟩ := h
  exact ⟨(R.rnotZero pz).1 h2, by rw [(R.risZero px).1 h1]; simp, by rw [R.rbeq py pz h3]; simp⟩

theorem denotes_unique {Q : Proj K} {p q : K × K} (hp : Denotes Q p) (hq : Denotes Q q) : p = q := by
  obtain ⟨hz, h1, h2⟩ := hp
  obtain ⟨_, h3, h4⟩ := hq
  ext
  · exact mul_right_cancel₀ hz (h1.symm.trans h3)
  · exact mul_right_cancel₀ hz (h2.symm.trans h4)

end te


/-! ## GLV -/

section glv
open Ark.Curve Ark.Curve.SW Ark.GlvEndo
variable {K : Type} [Field K] {φ : El → K}

/-- `checkGlvBeta` -/
theorem glv_beta (c : GlvCfg) (R : Realises2 c.curve.tower φ) (ha : wf c.curve.tower c.curve.a = true)
    (h : checkGlvBeta c = true) :
    c.endoCoeffs = [c.beta] ∧ wf c.curve.tower c.beta = true ∧ φ c.curve.a = 0 ∧
    φ c.beta ^ 3 = 1 ∧ φ c.beta ≠ 1 := by
  unfold checkGlvBeta at h
  simp only [band] at h
  obtain ⟨⟨⟨⟨h1, h2⟩, h3⟩, h4⟩, h5⟩ := h
  have rb : Rep c.curve.tower φ c.beta (φ c.beta) := Rep.mk' h2
  refine ⟨?_, h2, (R.isZero_iff ha).1 h3, ?_, ?_⟩
  · have hl : c.endoCoeffs.length = 1 := by simpa using h1
    obtain ⟨x, hx⟩ := List.length_eq_one_iff.1 hl
    unfold GlvCfg.beta
    rw [hx]; rfl
  · have := R.rbeq (R.rmul rb (R.rsq rb)) R.rone h4
    rw [← this]; ring
  · have := R.rbne rb R.rone h5
    exact this

/-- `checkGlvEndoForm` -/
theorem glv_endo_form (c : GlvCfg) (R : Realises2 c.curve.tower φ)
    (hb : wf c.curve.tower c.beta = true) (hx : wf c.curve.tower c.curve.gx = true)
    (h : checkGlvEndoForm c = true) :
    c.endoGInfinity = false ∧ c.endoGx = c.curve.tower.mul c.beta c.curve.gx ∧
    φ c.endoGx = φ c.beta * φ c.curve.gx ∧ c.endoGy = c.curve.gy := by
  unfold checkGlvEndoForm at h
  simp only [band, bnot_true] at h
  obtain ⟨⟨h1, h2⟩, h3⟩ := h
  refine ⟨h1, el_beq h2, ?_, el_beq h3⟩
  rw [el_beq h2, R.mul_eq hb hx]

variable [DecidableEq K]

/-- `checkGlvEigen`: `φ(G) = λ·G` in Mathlib's group of points of `y² = x³ + b` -/
theorem glv_eigen (c : GlvCfg) (R : Realises2 c.curve.tower φ) (hs : checkSwShape c.curve = true)
    (hbeta : checkGlvBeta c = true) (h : checkGlvEigen c = true)
    (hβ : φ c.beta ^ 3 = 1) (G : (wcurve 0 (φ c.curve.b)).Point)
    (hG : ofPoint G = some (φ c.curve.gx, φ c.curve.gy)) :
    glvEndo (φ c.beta) hβ G = c.lambda • G := by
  obtain ⟨hw, ha, hb, hx, hy, _⟩ := swShape_unfold c.curve hs
  obtain ⟨_, hwb, ha0, _, _⟩ := glv_beta c R ha hbeta
  unfold checkGlvEigen at h
  have ra : Rep c.curve.tower φ c.curve.a 0 := ⟨ha, ha0⟩
  have hG' : ofPoint (glvEndo (φ c.beta) hβ G) = some (φ c.beta * φ c.curve.gx, φ c.curve.gy) := by
    rw [ofPoint_glvEndo, hG]; rfl
  exact (sw_smul_eq R hw ra (Rep.mk' hx) (Rep.mk' hy) (R.rmul (Rep.mk' hwb) (Rep.mk' hx)) (Rep.mk' hy)
    _ G _ hG hG' c.lambda h).symm

end glv

/-- `checkGlvDecompShort` -/
theorem glv_decomp_short (c : GlvCfg) (h : checkGlvDecompShort c = true) :
    (∀ e ∈ c.decomp, e.2 * e.2 ≤ 4 * c.curve.r) ∧ ∀ i, c.n i * c.n i ≤ 4 * (c.curve.r : Int) := by
  unfold checkGlvDecompShort at h
  rw [allB_forall] at h
  have h1 : ∀ e ∈ c.decomp, e.2 * e.2 ≤ 4 * c.curve.r := fun e he => of_decide_eq_true (h e he)
  refine ⟨h1, ?_⟩
  intro i
  unfold GlvCfg.n
  cases hi : c.decomp[i]? with
  | none => simp only; positivity
  | some e =>
    obtain ⟨pos, v⟩ := e
    have hm := h1 _ (List.mem_of_getElem? hi)
    simp only at hm ⊢
    have : sgn (!pos) v * sgn (!pos) v = ((v * v : Nat) : Int) := by
      unfold sgn; cases pos <;> simp
    rw [this]
    exact_mod_cast hm


/-! ## twisted Edwards configurations, Elligator2 -/

/-- `checkTeShape`, conjunct by conjunct (NB: unlike `checkSwShape`, the cofactor limbs are not bounded) -/
theorem teShape_unfold (c : TeCfg) (h : checkTeShape c = true) :
    c.tower.wfTower = true ∧ wf c.tower c.a = true ∧ wf c.tower c.d = true ∧
    wf c.tower c.gx = true ∧ wf c.tower c.gy = true ∧ wf c.tower c.montA = true ∧
    wf c.tower c.montB = true ∧ 2 < c.r ∧ c.cofactorInv < c.r ∧
    limbsVal c.cofactorLimbs = c.cofactor := by
  unfold checkTeShape at h
  simp only [band] at h
  obtain ⟨⟨⟨⟨⟨⟨⟨⟨⟨h1, h2⟩, h3⟩, h4⟩, h5⟩, h6⟩, h7⟩, h8⟩, h9⟩, h10⟩ := h
  exact ⟨h1, h2, h3, h4, h5, h6, h7, of_decide_eq_true h8, of_decide_eq_true h9, beq_nat_true h10⟩

theorem ringChar_ne_two_of_two_ne_zero {K : Type} [Field K] (h2 : (2 : K) ≠ 0) : ringChar K ≠ 2 := by
  intro h
  apply h2
  have := ringChar.Nat.cast_ringChar (R := K)
  rw [h] at this
  exact_mod_cast this

section tecfg
open Ark.Curve.TE
variable {K : Type} [Field K] {φ : El → K}

/-- `checkTeNondegenerate` -/
theorem te_nondegenerate (c : TeCfg) (R : Realises2 c.tower φ) (ha : wf c.tower c.a = true)
    (hd : wf c.tower c.d = true) (h : checkTeNondegenerate c = true) :
    φ c.a ≠ 0 ∧ φ c.d ≠ 0 ∧ φ c.a ≠ φ c.d := by
  unfold checkTeNondegenerate at h
  simp only [band] at h
  exact ⟨(R.not_isZero_iff ha).1 h.1.1, (R.not_isZero_iff hd).1 h.1.2, R.bne_ne ha hd h.2⟩

theorem te_onCurve_rep {t : Tw} (R : Realises2 t φ) {a d x y : El} {α δ u v : K}
    (ha : Rep t φ a α) (hd : Rep t φ d δ) (hx : Rep t φ x u) (hy : Rep t φ y v)
    (h : Te.onCurve t a d x y = true) : α * (u * u) + v * v = 1 + δ * ((u * u) * (v * v)) := by
  unfold Te.onCurve at h
  exact R.rbeq (R.radd (R.rmul ha (R.rsq hx)) (R.rsq hy))
    (R.radd R.rone (R.rmul hd (R.rmul (R.rsq hx) (R.rsq hy)))) h

/-- `checkTeMontgomery` -/
theorem te_montgomery (c : TeCfg) (R : Realises2 c.tower φ) [Fintype K]
    (hc : Fintype.card K = c.tower.card) (hs : checkTeShape c = true)
    (h : checkTeMontgomery c = true) :
    φ c.montA * (φ c.a - φ c.d) = 2 * (φ c.a + φ c.d) ∧
    φ c.montB * (φ c.a - φ c.d) / 4 ≠ 0 ∧ IsSquare (φ c.montB * (φ c.a - φ c.d) / 4) := by
  obtain ⟨hw, ha, hd, _, _, hA, hB, _⟩ := teShape_unfold c hs
  have h2 := two_ne_zero_of_wfTower R hw
  have h4 : ((4 : Nat) : K) ≠ 0 := by
    have : ((4 : Nat) : K) = 2 * 2 := by norm_num
    rw [this]; exact mul_ne_zero h2 h2
  unfold checkTeMontgomery at h
  simp only [band] at h
  have ramd := R.rsub (Rep.mk' (φ := φ) ha) (Rep.mk' hd)
  have e1 := R.rbeq (R.rmul (Rep.mk' hA) ramd) (R.rmul (R.rconst 2) (R.radd (Rep.mk' ha) (Rep.mk' hd))) h.1
  have rsq := R.rmul (R.rmul (Rep.mk' hB) ramd) (R.rinv hc (R.rconst 4) h4)
  obtain ⟨n0, sq⟩ := isSquare_meaning R hc (ringChar_ne_two_of_two_ne_zero h2) rsq.1 h.2
  rw [rsq.2] at n0 sq
  have e4 : ((4 : Nat) : K) = 4 := by norm_num
  rw [e4, ← div_eq_mul_inv] at n0 sq
  refine ⟨?_, n0, sq⟩
  rw [e1]; norm_num

variable [DecidableEq K]

/-- `checkTeGeneratorOrder`: `r • G = 0`, `G ≠ 0` in the group of any `AddClosed` set of curve points
    containing the generator -/
theorem te_generator_order (c : TeCfg) (R : Realises2 c.tower φ) (hs : checkTeShape c = true)
    (h : checkTeGeneratorOrder c = true) (S : K × K → Prop) (hS : AddClosed (φ c.a) (φ c.d) S)
    (hG : S (φ c.gx, φ c.gy)) :
    letI := addCommGroupOfClosed hS
    c.r • (⟨(φ c.gx, φ c.gy), hG⟩ : {P : K × K // S P}) = 0 ∧
      (⟨(φ c.gx, φ c.gy), hG⟩ : {P : K × K // S P}) ≠ 0 := by
  letI := addCommGroupOfClosed hS
  obtain ⟨hw, ha, hd, hx, hy, _⟩ := teShape_unfold c hs
  unfold checkTeGeneratorOrder at h
  rw [band] at h
  obtain ⟨h1, h2⟩ := h
  have rG : RepT c.tower φ ⟨c.gx, c.gy, c.tower.one⟩ (⟨φ c.gx, φ c.gy, 1⟩ : Proj K) :=
    ⟨Rep.mk' hx, Rep.mk' hy, R.rone⟩
  have dG : Denotes (⟨φ c.gx, φ c.gy, 1⟩ : Proj K) (φ c.gx, φ c.gy) := ⟨one_ne_zero, by simp, by simp⟩
  constructor
  · have hrep := teSmulAux_rep R (Rep.mk' ha) (Rep.mk' hd) rG (c.r.log2 + 1) c.r
    have hid := te_isId_rep R hrep h2
    have hden := teSmulAuxK_denotes (φ c.a) (φ c.d) S hS _ ⟨(φ c.gx, φ c.gy), hG⟩ dG
      (c.r.log2 + 1) c.r Nat.lt_log2_self
    exact Subtype.ext (denotes_unique hden hid)
  · intro e
    have e' := congrArg Subtype.val e
    have e1 : φ c.gx = 0 := congrArg Prod.fst e'
    have e2 : φ c.gy = 1 := congrArg Prod.snd e'
    have z1 : Cfg.isZero c.gx = true := (R.isZero_iff hx).2 e1
    have z2 : c.gy = c.tower.one := R.inj _ _ hy R.one_ok (by rw [e2, R.one_eq])
    rw [z1, z2] at h1
    simp at h1

/-- `checkElligatorZ` -/
theorem elligator_z (c : Elligator2Cfg) (R : Realises2 c.curve.tower φ) [Fintype K]
    (hc : Fintype.card K = c.curve.tower.card) (h : checkElligatorZ c = true) :
    wf c.curve.tower c.z = true ∧ φ c.z ≠ 0 ∧ ¬ IsSquare (φ c.z) := by
  unfold checkElligatorZ at h
  rw [band] at h
  exact ⟨h.1, nonSquare_meaning R hc h.1 h.2⟩

/-- `checkElligatorConsts` (the two constants must be well formed: they are dumped reduced) -/
theorem elligator_consts (c : Elligator2Cfg) (R : Realises2 c.curve.tower φ)
    (hA : wf c.curve.tower c.curve.montA = true) (hB : wf c.curve.tower c.curve.montB = true)
    (h1 : wf c.curve.tower c.oneOverCoeffBSquare = true)
    (h2 : wf c.curve.tower c.coeffAOverCoeffB = true) (h : checkElligatorConsts c = true) :
    φ c.curve.montB ≠ 0 ∧ φ c.oneOverCoeffBSquare = (φ c.curve.montB ^ 2)⁻¹ ∧
    φ c.coeffAOverCoeffB = φ c.curve.montA / φ c.curve.montB := by
  unfold checkElligatorConsts at h
  simp only [band] at h
  obtain ⟨⟨h3, h4⟩, h5⟩ := h
  have hB0 : φ c.curve.montB ≠ 0 := (R.not_isZero_iff hB).1 h3
  have e1 := R.rbeq (R.rmul (Rep.mk' h1) (R.rsq (Rep.mk' hB))) R.rone h4
  have e2 := R.rbeq (R.rmul (Rep.mk' h2) (Rep.mk' hB)) (Rep.mk' hA) h5
  refine ⟨hB0, ?_, ?_⟩
  · rw [pow_two]; exact eq_inv_of_mul_eq_one_left e1
  · rw [eq_div_iff hB0]; exact e2

end tecfg

/-! ## SWU / WB -/

section wb
open Ark.Curve Ark.Curve.SW
variable {K : Type} [Field K] {φ : El → K}

theorem swu_ab (c : SwuCfg) (R : Realises2 c.curve.tower φ) (ha : wf c.curve.tower c.curve.a = true)
    (hb : wf c.curve.tower c.curve.b = true) (h : checkSwuAB c = true) :
    φ c.curve.a ≠ 0 ∧ φ c.curve.b ≠ 0 := by
  unfold checkSwuAB at h
  rw [band] at h
  exact ⟨(R.not_isZero_iff ha).1 h.1, (R.not_isZero_iff hb).1 h.2⟩

theorem swu_zeta (c : SwuCfg) (R : Realises2 c.curve.tower φ) [Fintype K]
    (hc : Fintype.card K = c.curve.tower.card) (h : checkSwuZeta c = true) :
    wf c.curve.tower c.zeta = true ∧ φ c.zeta ≠ 0 ∧ ¬ IsSquare (φ c.zeta) := by
  unfold checkSwuZeta at h
  rw [band] at h
  exact ⟨h.1, nonSquare_meaning R hc h.1 h.2⟩

theorem wbShape_unfold (c : WbCfg) (h : checkWbShape c = true) :
    (allB (wf c.curve.tower) c.xNum = true ∧ allB (wf c.curve.tower) c.xDen = true ∧
     allB (wf c.curve.tower) c.yNum = true ∧ allB (wf c.curve.tower) c.yDen = true) ∧
    (c.xNum ≠ [] ∧ c.xDen ≠ [] ∧ c.yNum ≠ [] ∧ c.yDen ≠ []) ∧ c.iso.r = c.curve.r := by
  unfold checkWbShape at h
  simp only [band, bnot_true, List.isEmpty_eq_false_iff] at h
  obtain ⟨⟨⟨⟨⟨⟨⟨⟨h1, h2⟩, h3⟩, h4⟩, h5⟩, h6⟩, h7⟩, h8⟩, h9⟩ := h
  exact ⟨⟨h1, h2, h3, h4⟩, ⟨h5, h6, h7, h8⟩, beq_nat_true h9⟩

/-- `checkWbImageOnCurve` -/
theorem wb_image_on_curve (c : WbCfg) (R : Realises2 c.curve.tower φ) (hsh : checkWbShape c = true)
    (ha : wf c.curve.tower c.curve.a = true) (hb : wf c.curve.tower c.curve.b = true)
    (hx : wf c.curve.tower c.iso.gx = true) (hy : wf c.curve.tower c.iso.gy = true)
    (h : checkWbImageOnCurve c = true) :
    let xn := ev φ (φ c.iso.gx) c.xNum
    let xd := ev φ (φ c.iso.gx) c.xDen
    let yn := φ c.iso.gy * ev φ (φ c.iso.gx) c.yNum
    let yd := ev φ (φ c.iso.gx) c.yDen
    xd ≠ 0 ∧ yd ≠ 0 ∧
    (yn / yd) * (yn / yd) = (xn / xd) * (xn / xd) * (xn / xd) + φ c.curve.a * (xn / xd) + φ c.curve.b := by
  intro xn xd yn yd
  obtain ⟨⟨w1, w2, w3, w4⟩, _, _⟩ := wbShape_unfold c hsh
  have rx : Rep c.curve.tower φ c.iso.gx (φ c.iso.gx) := Rep.mk' hx
  have rxn := R.revalPoly rx c.xNum w1
  have rxd := R.revalPoly rx c.xDen w2
  have ryn := R.rmul (Rep.mk' hy) (R.revalPoly rx c.yNum w3)
  have ryd := R.revalPoly rx c.yDen w4
  unfold checkWbImageOnCurve at h
  simp only [band] at h
  obtain ⟨⟨h1, h2⟩, h3⟩ := h
  have hxd : xd ≠ 0 := (R.rnotZero rxd).1 h1
  have hyd : yd ≠ 0 := (R.rnotZero ryd).1 h2
  have rxd2 := R.rsq rxd
  have e := R.rbeq (R.rmul (R.rsq ryn) (R.rmul rxd rxd2))
    (R.rmul (R.rsq ryd) (R.radd (R.radd (R.rmul rxn (R.rsq rxn)) (R.rmul (Rep.mk' ha) (R.rmul rxn rxd2)))
      (R.rmul (Rep.mk' hb) (R.rmul rxd rxd2)))) h3
  refine ⟨hxd, hyd, ?_⟩
  have e' : yn * yn * (xd * (xd * xd)) =
      yd * yd * (xn * (xn * xn) + φ c.curve.a * (xn * (xd * xd)) + φ c.curve.b * (xd * (xd * xd))) := e
  field_simp
  linear_combination e'

variable [DecidableEq K]

/-- `checkWbImageOrder`: the image `Q` of the isogenous generator satisfies `r • Q = 0` -/
theorem wb_image_order (c : WbCfg) (R : Realises2 c.curve.tower φ) [Fintype K]
    (hc : Fintype.card K = c.curve.tower.card) (hsh : checkWbShape c = true)
    (hs : checkSwShape c.curve = true)
    (hx : wf c.curve.tower c.iso.gx = true) (hy : wf c.curve.tower c.iso.gy = true)
    (hon : checkWbImageOnCurve c = true) (h : checkWbImageOrder c = true)
    (Q : (wcurve (φ c.curve.a) (φ c.curve.b)).Point)
    (hQ : ofPoint Q = some (ev φ (φ c.iso.gx) c.xNum / ev φ (φ c.iso.gx) c.xDen,
      φ c.iso.gy * ev φ (φ c.iso.gx) c.yNum / ev φ (φ c.iso.gx) c.yDen)) :
    c.curve.r • Q = 0 := by
  obtain ⟨hw, ha, hb, _⟩ := swShape_unfold c.curve hs
  obtain ⟨hxd, hyd, _⟩ := wb_image_on_curve c R hsh ha hb hx hy hon
  obtain ⟨⟨w1, w2, w3, w4⟩, _, _⟩ := wbShape_unfold c hsh
  have rx : Rep c.curve.tower φ c.iso.gx (φ c.iso.gx) := Rep.mk' hx
  have rxn := R.revalPoly rx c.xNum w1
  have rxd := R.revalPoly rx c.xDen w2
  have ryn := R.rmul (Rep.mk' hy) (R.revalPoly rx c.yNum w3)
  have ryd := R.revalPoly rx c.yDen w4
  have rX := R.rmul rxn (R.rinv hc rxd hxd)
  have rY := R.rmul ryn (R.rinv hc ryd hyd)
  unfold checkWbImageOrder at h
  rw [div_eq_mul_inv, div_eq_mul_inv] at hQ
  exact sw_smul_zero R hw (Rep.mk' ha) rX rY _ Q hQ c.curve.r h

end wb


/-! ## extension-field configurations -/

theorem extShape_unfold (c : ExtCfg) (h : checkExtShape c = true) :
    c.shapeOK = true ∧ c.baseTower.wfTower = true ∧ wf c.baseTower c.nonresidue = true ∧
    c.frobC1.length = c.tower.deg ∧ c.frobC2.length = (if c.k = 3 then c.tower.deg else 0) ∧
    (∀ x ∈ c.frobC1, wf c.frobTower x = true) ∧ (∀ x ∈ c.frobC2, wf c.frobTower x = true) := by
  unfold checkExtShape at h
  simp only [band] at h
  obtain ⟨⟨⟨⟨⟨⟨h1, h2⟩, h3⟩, h4⟩, h5⟩, h6⟩, h7⟩ := h
  refine ⟨h1, h2, h3, beq_nat_true h4, ?_, (allB_forall _ _).1 h6, (allB_forall _ _).1 h7⟩
  have := beq_nat_true h5
  rw [this]
  by_cases hk : c.k = 3 <;> simp [hk]

/-! ### the standard basis and tables of a hook on the basis -/

/-- the `i`-th unit vector of length `n` -/
def unitVec (n i : Nat) : El := List.replicate i 0 ++ 1 :: List.replicate (n - 1 - i) 0

theorem basisAux_getElem? : ∀ (n i j : Nat), j < n →
    (Tw.basisAux n i)[j]? = some (List.replicate (i + j) 0 ++ 1 :: List.replicate (n - 1 - j) 0)
  | 0, _, _, h => by omega
  | n + 1, i, 0, _ => by simp [Tw.basisAux]
  | n + 1, i, j + 1, h => by
    simp only [Tw.basisAux, List.getElem?_cons_succ]
    rw [basisAux_getElem? n (i + 1) j (by omega)]
    have e1 : i + 1 + j = i + (j + 1) := by omega
    have e2 : n - 1 - j = n + 1 - 1 - (j + 1) := by omega
    rw [e1, e2]

theorem basisAux_length : ∀ (n i : Nat), (Tw.basisAux n i).length = n
  | 0, _ => rfl
  | n + 1, i => by simp [Tw.basisAux, basisAux_length n]

theorem basis_length (t : Tw) : t.basis.length = t.deg := basisAux_length _ _

theorem basis_getElem? (t : Tw) (j : Nat) (h : j < t.deg) : t.basis[j]? = some (unitVec t.deg j) := by
  unfold Tw.basis unitVec
  rw [basisAux_getElem? _ _ _ h, Nat.zero_add]

theorem wf_unitVec (t : Tw) (h1 : 1 < t.char) (j : Nat) (h : j < t.deg) :
    wf t (unitVec t.deg j) = true := by
  rw [wf_iff]
  refine ⟨by simp [unitVec]; omega, ?_⟩
  intro x hx
  simp only [unitVec, List.mem_append, List.mem_replicate, List.mem_cons] at hx
  rcases hx with ⟨_, rfl⟩ | rfl | ⟨_, rfl⟩ <;> omega

/-- a table dumped as "hook applied to every basis vector", compared with `e ↦ m · e` -/
theorem basis_table {K : Type} [Field K] {t : Tw} {φ : El → K} (R : Realises2 t φ)
    (hw : t.wfTower = true) {m : El} (hm : wf t m = true) (table : List El)
    (h : (table == t.basis.map (fun e => t.mul m e)) = true) :
    table.length = t.deg ∧ ∀ j, j < t.deg →
      table[j]? = some (t.mul m (unitVec t.deg j)) ∧ wf t (unitVec t.deg j) = true ∧
      φ (t.mul m (unitVec t.deg j)) = φ m * φ (unitVec t.deg j) := by
  have e := eq_of_beq h
  obtain ⟨hc, _⟩ := wfTower_char_deg t hw
  refine ⟨by rw [e, List.length_map, basis_length], ?_⟩
  intro j hj
  have hu := wf_unitVec t (by omega) j hj
  refine ⟨by rw [e, List.getElem?_map, basis_getElem? t j hj]; rfl, hu, R.mul_eq hm hu⟩

/-- **what a basis table implies for an additive hook**: an additive map that agrees with `x ↦ m·x` on a
    set agrees with it on the additive subgroup the set generates (and nothing is implied for a hook
    that is not additive, nor outside that subgroup) -/
theorem additive_hook_on_closure {K : Type} [Field K] (H : K →+ K) (m : K) (S : Set K)
    (h : ∀ x ∈ S, H x = m * x) : ∀ x ∈ AddSubgroup.closure S, H x = m * x := by
  intro x hx
  have : Set.EqOn H (AddMonoidHom.mulLeft m) (AddSubgroup.closure S) :=
    AddMonoidHom.eqOn_closure (f := H) (g := AddMonoidHom.mulLeft m) (fun y hy => by simpa using h y hy)
  simpa using this hx

/-- over a prime field the basis is `{1}` and generates everything -/
theorem zmod_closure_one (p : Nat) [Fact p.Prime] (x : ZMod p) :
    x ∈ AddSubgroup.closure ({(1 : ZMod p)} : Set (ZMod p)) := by
  have h1 : (1 : ZMod p) ∈ AddSubgroup.closure ({(1 : ZMod p)} : Set (ZMod p)) :=
    AddSubgroup.subset_closure (Set.mem_singleton _)
  have h2 := AddSubgroup.nsmul_mem _ h1 x.val
  rwa [nsmul_one, ZMod.natCast_zmod_val] at h2

/-! ### non-residues over an arbitrary base tower -/

theorem isZero_append : ∀ (a b : El), Cfg.isZero (a ++ b) = (Cfg.isZero a && Cfg.isZero b)
  | [], b => by simp [Cfg.isZero]
  | x :: a, b => by simp [Cfg.isZero, isZero_append a b, Bool.and_assoc]

theorem isZero_genOf (b t : Tw) (hb : 0 < b.deg) : Cfg.isZero (genOf b t) = false := by
  unfold genOf
  rw [isZero_append, isZero_append]
  cases hd : b.deg with
  | zero => omega
  | succ n => simp [vone, Cfg.isZero]

section nonres
variable {K : Type} [Field K] {φ : El → K}

/-- `checkNonresidue`, branch "plain Euler criterion" (`NONRESIDUE` is not the generator of the layer below) -/
theorem nonresidue_direct (c : ExtCfg) (R : Realises2 c.baseTower φ) [Fintype K]
    (hc : Fintype.card K = c.baseTower.card) (hnr : wf c.baseTower c.nonresidue = true)
    (hne : ∀ k' b nr', c.baseTower = .ext k' b nr' → c.nonresidue ≠ genOf b c.baseTower)
    (h : checkNonresidue c = true) :
    c.k ∣ c.baseTower.card - 1 ∧ φ c.nonresidue ≠ 0 ∧ ¬ ∃ y : K, y ^ c.k = φ c.nonresidue := by
  unfold checkNonresidue at h
  split at h
  · rename_i k' b nr' heq
    have hn : (c.nonresidue == genOf b c.baseTower) = false := by
      have := hne k' b nr' heq
      simpa using this
    rw [hn] at h
    simp only [Bool.false_eq_true, if_false] at h
    exact notKthPower_meaning R hc c.k hnr h
  · exact notKthPower_meaning R hc c.k hnr h

/-- `checkNonresidue`, branch "`NONRESIDUE` is the generator `Y` of the layer below, `Y^k' = nr'`":
    the layer below `b` is realised in `Kb`, included in `K` by `ι` -/
theorem nonresidue_generator (c : ExtCfg) (k' : Nat) (b : Tw) (nr' : El)
    (hbase : c.baseTower = .ext k' b nr') (hgen : c.nonresidue = genOf b c.baseTower)
    (R : Realises2 c.baseTower φ) [Fintype K] (hc : Fintype.card K = c.baseTower.card)
    (hnr : wf c.baseTower c.nonresidue = true)
    {Kb : Type} [Field Kb] {ψ : El → Kb} (Rb : Realises2 b ψ) (hnr' : wf b nr' = true) (hb : 0 < b.deg)
    (ι : Kb →+* K) (hpow : φ c.nonresidue ^ k' = ι (ψ nr'))
    (h : checkNonresidue c = true) :
    c.k * k' ∣ c.baseTower.card - 1 ∧ φ c.nonresidue ≠ 0 ∧ ¬ ∃ y : K, y ^ c.k = φ c.nonresidue := by
  unfold checkNonresidue at h
  have hg : (c.nonresidue == genOf b (.ext k' b nr')) = true := by rw [hgen, hbase]; simp
  rw [hbase] at h
  simp only [hg, if_true, band] at h
  rw [← hbase] at h
  obtain ⟨h1, h2⟩ := h
  have hdvd : c.k * k' ∣ c.baseTower.card - 1 := Nat.dvd_of_mod_eq_zero (beq_nat_true h1)
  have hne := Rb.bne_ne (Rb.pow_ok hnr' _) Rb.one_ok h2
  rw [Rb.pow_eq hnr', Rb.one_eq] at hne
  have h0 : φ c.nonresidue ≠ 0 := by
    intro e
    have := (R.isZero_iff hnr).2 e
    rw [hgen, isZero_genOf b _ hb] at this
    exact absurd this (by simp)
  refine ⟨hdvd, h0, ?_⟩
  have hk : c.k ∣ c.baseTower.card - 1 := dvd_trans (Dvd.intro _ rfl) hdvd
  apply not_kth_power_of_pow_ne_one c.k _ hc hk _ h0
  obtain ⟨m, hm⟩ := hdvd
  have hq1 : 1 < Fintype.card K := Fintype.one_lt_card
  have hkpos : 0 < c.k * k' := by
    rcases Nat.eq_zero_or_pos (c.k * k') with h0' | h0'
    · rw [h0', zero_mul] at hm; omega
    · exact h0'
  have hck : 0 < c.k := Nat.pos_of_mul_pos_right hkpos
  have e1 : (c.baseTower.card - 1) / (c.k * k') = m := by rw [hm, Nat.mul_div_cancel_left _ hkpos]
  have e2 : (c.baseTower.card - 1) / c.k = k' * m := by
    rw [hm, Nat.mul_assoc, Nat.mul_div_cancel_left _ hck]
  rw [e1] at hne
  rw [e2, pow_mul, hpow, ← map_pow]
  intro e
  apply hne
  exact ι.injective (by rw [e, map_one])

end nonres

/-- `checkNonresidueIsGenerator`, unfolded -/
theorem nonresidue_is_generator (c : ExtCfg) (h : checkNonresidueIsGenerator c = true)
    (hk : c.kind = .fp4 ∨ c.kind = .fp6over3 ∨ c.kind = .fp12) (k' : Nat) (b : Tw) (nr' : El)
    (hbase : c.baseTower = .ext k' b nr') : c.nonresidue = genOf b c.baseTower := by
  unfold checkNonresidueIsGenerator at h
  rw [hbase] at h ⊢
  rcases hk with hk | hk | hk <;> rw [hk] at h <;> exact eq_of_beq h

/-- over a quadratic base tower the generator is `u` -/
theorem genOf_quad (p n : Nat) (nr : El) :
    genOf (.prime p) (.ext 2 (.prime p) nr) = [0, 1] ∧
    phiQ p n (genOf (.prime p) (.ext 2 (.prime p) nr)) = AdjoinRoot.root (quadPoly p n) := by
  have e : genOf (.prime p) (.ext 2 (.prime p) nr) = [0, 1] := rfl
  refine ⟨e, ?_⟩
  rw [e, phiQ_pair]
  simp

/-! ### Frobenius coefficient tables over an arbitrary tower -/

section frob
variable {K : Type} [Field K] {φ : El → K} {t : Tw}

/-- the sequence produced by the recurrence `x ↦ γ · x^p` -/
def frobSeq (γ π : K) (p : Nat) : Nat → K
  | 0 => π
  | n + 1 => γ * (frobSeq γ π p n) ^ p

theorem frobSeq_shift (γ π : K) (p : Nat) : ∀ n, frobSeq γ (γ * π ^ p) p n = frobSeq γ π p (n + 1)
  | 0 => rfl
  | n + 1 => by rw [frobSeq, frobSeq_shift γ π p n]; rfl

theorem frobRec_rep (R : Realises2 t φ) (p : Nat) {c1 : El} {γ : K} (hc1 : Rep t φ c1 γ) :
    ∀ (xs : List El) (prev : El) (π : K), Rep t φ prev π → frobRec t p c1 prev xs = true →
    ∀ (j : Nat) (hj : j < xs.length), Rep t φ xs[j] (frobSeq γ π p (j + 1))
  | [], _, _, _, _, j, hj => by simp at hj
  | x :: xs, prev, π, hprev, h, j, hj => by
    unfold frobRec at h
    rw [band] at h
    have hx : x = t.mul c1 (t.pow prev p) := eq_of_beq h.1
    have rx : Rep t φ x (γ * π ^ p) := by rw [hx]; exact R.rmul hc1 (R.rpow hprev p)
    cases j with
    | zero => exact rx
    | succ j =>
      have := frobRec_rep R p hc1 xs x _ rx h.2 j (by simpa using hj)
      rw [frobSeq_shift] at this
      simpa using this

theorem frobSeq_closed (β : K) (p d : Nat) (hp : 0 < p) (hd : d ∣ p - 1) (n : Nat) :
    frobSeq (β ^ ((p - 1) / d)) (β ^ ((p - 1) / d)) p n = β ^ ((p ^ (n + 1) - 1) / d) := by
  induction n with
  | zero => simp [frobSeq]
  | succ n ih =>
    obtain ⟨_, hg⟩ := geom_div p d (n + 1) hp hd
    rw [frobSeq, ih, hg, ← pow_mul, ← pow_add]
    congr 1
    ring

/-- `checkFrobeniusC1` over any tower: entry `i` is `b^((p^i - 1)/d)` -/
theorem frobenius_c1_general (c : ExtCfg) (R : Realises2 c.frobTower φ) (hp : 0 < c.p)
    (hb : wf c.frobTower c.frobBase = true) (h : checkFrobeniusC1 c = true) :
    c.frobDiv ∣ c.p - 1 ∧ ∀ (i : Nat) (hi : i < c.frobC1.length),
      wf c.frobTower c.frobC1[i] = true ∧
      φ c.frobC1[i] = φ c.frobBase ^ ((c.p ^ i - 1) / c.frobDiv) := by
  unfold checkFrobeniusC1 at h
  split at h
  · rename_i c0 c1 rest heq
    simp only [band] at h
    obtain ⟨⟨⟨hdvd, h0⟩, h1⟩, hrec⟩ := h
    have hdvd := Nat.dvd_of_mod_eq_zero (beq_nat_true hdvd)
    refine ⟨hdvd, ?_⟩
    have rb : Rep c.frobTower φ c.frobBase (φ c.frobBase) := Rep.mk' hb
    have r1 : Rep c.frobTower φ c1 (φ c.frobBase ^ ((c.p - 1) / c.frobDiv)) := by
      rw [eq_of_beq h1]; exact R.rpow rb _
    have key := frobRec_rep R c.p r1 rest c1 _ r1 hrec
    simp only [heq]
    intro i hi
    match i, hi with
    | 0, _ =>
      have : c0 = c.frobTower.one := eq_of_beq h0
      simp only [List.getElem_cons_zero, this]
      exact ⟨R.one_ok, by rw [R.one_eq]; simp⟩
    | 1, _ =>
      simp only [List.getElem_cons_succ, List.getElem_cons_zero]
      exact ⟨r1.1, by rw [r1.2]; simp⟩
    | (j + 2), hi =>
      have := key j (by simpa using hi)
      simp only [List.getElem_cons_succ]
      rw [frobSeq_closed _ _ _ hp hdvd] at this
      exact this
  · exact absurd h (by simp)

theorem zipAll_spec {α β : Type} (f : α → β → Bool) : ∀ (xs : List α) (ys : List β),
    zipAll f xs ys = true → xs.length = ys.length ∧
      ∀ (i : Nat) (h1 : i < xs.length) (h2 : i < ys.length), f xs[i] ys[i] = true
  | [], [], _ => ⟨rfl, fun i h1 _ => by simp at h1⟩
  | [], _ :: _, h => by simp [zipAll] at h
  | _ :: _, [], h => by simp [zipAll] at h
  | x :: xs, y :: ys, h => by
    simp only [zipAll, band] at h
    obtain ⟨hl, hi⟩ := zipAll_spec f xs ys h.2
    refine ⟨by simp [hl], ?_⟩
    intro i h1 h2
    cases i with
    | zero => exact h.1
    | succ i => exact hi i (by simpa using h1) (by simpa using h2)

/-- `checkFrobeniusC2` -/
theorem frobenius_c2 (c : ExtCfg) (R : Realises2 c.frobTower φ)
    (hw : ∀ x ∈ c.frobC1, wf c.frobTower x = true) (h : checkFrobeniusC2 c = true) :
    (c.k ≠ 3 → c.frobC2 = []) ∧
    (c.k = 3 → c.frobC1.length = c.frobC2.length ∧
      ∀ (i : Nat) (h1 : i < c.frobC1.length) (h2 : i < c.frobC2.length),
        c.frobC2[i] = c.frobTower.sq c.frobC1[i] ∧ φ c.frobC2[i] = φ c.frobC1[i] ^ 2) := by
  unfold checkFrobeniusC2 at h
  constructor
  · intro hk
    have : (c.k == 3) = false := by simpa using hk
    rw [this] at h
    simpa using h
  · intro hk
    have : (c.k == 3) = true := by simpa using hk
    rw [this, if_pos rfl] at h
    obtain ⟨hl, hi⟩ := zipAll_spec _ _ _ h
    refine ⟨hl, fun i h1 h2 => ?_⟩
    have e := eq_of_beq (hi i h1 h2)
    have hwi := hw _ (List.getElem_mem h1)
    exact ⟨e, by rw [e, R.sq_eq hwi, pow_two]⟩

end frob

/-- `checkFrobMulBasis`, unfolded: row `i` of the dumped table is `frobHookRow` of the `i`-th table entries -/
theorem frob_mul_basis (c : ExtCfg) (h : checkFrobMulBasis c = true) :
    c.frobMulBasis =
      List.zipWith (frobHookRow c) c.frobC1 (if c.k = 3 then c.frobC2 else c.frobC1) := by
  unfold checkFrobMulBasis at h
  have := eq_of_beq h
  rw [this]
  by_cases hk : c.k = 3 <;> simp [hk]

/-- a row of the quadratic layers (`k = 2`): `e_j ↦ e_j · C1[power]` -/
theorem frobHookRow_quad {K : Type} [Field K] {φ : El → K} (c : ExtCfg)
    (R : Realises2 c.baseTower φ) (hw : c.baseTower.wfTower = true) (hk : c.k ≠ 3) (c1 c2 : El)
    (he : wf c.baseTower (embed c.baseTower c1) = true) (j : Nat) (hj : j < c.baseTower.deg) :
    (frobHookRow c c1 c2)[j]? = some (c.baseTower.mul (unitVec c.baseTower.deg j) (embed c.baseTower c1)) ∧
    φ (c.baseTower.mul (unitVec c.baseTower.deg j) (embed c.baseTower c1)) =
      φ (unitVec c.baseTower.deg j) * φ (embed c.baseTower c1) := by
  obtain ⟨hc, _⟩ := wfTower_char_deg _ hw
  have hu := wf_unitVec c.baseTower (by omega) j hj
  unfold frobHookRow
  have : (c.k == 3) = false := by simpa using hk
  simp only [this, Bool.false_eq_true, if_false]
  exact ⟨by rw [List.getElem?_map, basis_getElem? _ j hj]; rfl, R.mul_eq hu he⟩

/-- a row of the cubic layers (`k = 3`): the pairs `(e_j · C1[power], e_j · C2[power])`, flattened -/
theorem frobHookRow_cubic (c : ExtCfg) (hk : c.k = 3) (c1 c2 : El) :
    frobHookRow c c1 c2 = (c.baseTower.basis.map (fun e =>
      [c.baseTower.mul e (embed c.baseTower c1), c.baseTower.mul e (embed c.baseTower c2)])).flatten := by
  unfold frobHookRow
  simp [hk]

theorem embed_self (t : Tw) (a : El) (h : a.length = t.deg) : embed t a = a := by
  unfold embed; rw [h]; simp

/-! ### `Fp3Config` two-adicity constants -/

theorem fp3_two_adicity (c : ExtCfg) (h : checkFp3TwoAdicity c = true) :
    c.kind = .fp3 ∧ c.p ^ 3 - 1 = 2 ^ c.twoAdicity * (2 * c.traceMinusOneDivTwo + 1) := by
  unfold checkFp3TwoAdicity at h
  simp only [band] at h
  exact ⟨by simpa using h.1, beq_nat_true h.2⟩

theorem fp3_qnr_to_t {K : Type} [Field K] {φ : El → K} (c : ExtCfg) (R : Realises2 c.tower φ)
    (h : checkFp3QnrToT c = true) :
    wf c.tower c.qnrToT = true ∧ 0 < c.twoAdicity ∧ orderOf (φ c.qnrToT) = 2 ^ c.twoAdicity ∧
    c.sqrtPrecomp.kind = 1 ∧ c.sqrtPrecomp.twoAdicity = c.twoAdicity ∧
    c.sqrtPrecomp.qnrToTrace = c.qnrToT ∧
    c.sqrtPrecomp.traceMinusOneDivTwo = c.traceMinusOneDivTwo := by
  unfold checkFp3QnrToT at h
  simp only [band] at h
  obtain ⟨⟨⟨⟨⟨⟨⟨h1, h2⟩, h3⟩, h4⟩, h5⟩, h6⟩, h7⟩, h8⟩ := h
  have hs : 0 < c.twoAdicity := of_decide_eq_true h2
  have rq : Rep c.tower φ c.qnrToT (φ c.qnrToT) := Rep.mk' h1
  have e1 : φ c.qnrToT ^ 2 ^ c.twoAdicity = 1 := R.rbeq (R.rpow rq _) R.rone h3
  have e2 : φ c.qnrToT ^ 2 ^ (c.twoAdicity - 1) ≠ 1 := R.rbne (R.rpow rq _) R.rone h4
  refine ⟨h1, hs, ?_, beq_nat_true h5, beq_nat_true h6, eq_of_beq h7, beq_nat_true h8⟩
  have hs' : c.twoAdicity = (c.twoAdicity - 1) + 1 := by omega
  rw [hs'] at e1 ⊢
  exact orderOf_eq_prime_pow e2 e1


/-! ## prime-field configurations -/

theorem modulusShape_unfold (c : FpCfg) (h : checkModulusShape c = true) :
    2 < c.modulus ∧ c.modulus % 2 = 1 ∧ 0 < c.limbs ∧ c.modulus < 2 ^ (64 * c.limbs) ∧
    2 ^ (c.modulusBitSize - 1) ≤ c.modulus ∧ c.modulus < 2 ^ c.modulusBitSize ∧
    c.characteristic = c.modulus ∧ c.modulusMinusOneDivTwo = (c.modulus - 1) / 2 := by
  unfold checkModulusShape at h
  simp only [band] at h
  obtain ⟨⟨⟨⟨⟨⟨⟨h1, h2⟩, h3⟩, h4⟩, h5⟩, h6⟩, h7⟩, h8⟩ := h
  exact ⟨of_decide_eq_true h1, beq_nat_true h2, of_decide_eq_true h3, of_decide_eq_true h4,
    of_decide_eq_true h5, of_decide_eq_true h6, beq_nat_true h7, beq_nat_true h8⟩

/-- the dumped `SqrtPrecomputation` read over `ZMod p` as a value of the C11 model type -/
def preOf (p : Nat) (s : SqrtPre) : Option (Ark.Sqrt.Precomp (ZMod p)) :=
  if s.kind = 1 then
    some (.tonelliShanks s.twoAdicity ((s.qnrToTrace.headD 0 : Nat) : ZMod p) s.traceMinusOneDivTwo)
  else if s.kind = 2 then some (.case3Mod4 s.modulusPlusOneDivFour)
  else none

/-- `checkSqrtPrecomp`: the dumped `SQRT_PRECOMP` and `MODULUS_PLUS_ONE_DIV_FOUR` are what the C11 model of
    `sqrt_precomputation` / `MODULUS_PLUS_ONE_DIV_FOUR` computes from the modulus, the limb count and
    `TWO_ADIC_ROOT_OF_UNITY = g^t` -/
theorem sqrt_precomp_eq (c : FpCfg) (hs : checkModulusShape c = true) (h2 : checkTwoAdicity c = true)
    (h : checkSqrtPrecomp c = true) :
    preOf c.modulus c.sqrtPrecomp =
      Ark.Sqrt.sqrtPrecomputation c.limbs c.modulus (((c.generator : Nat) : ZMod c.modulus) ^ c.trace) ∧
    c.modulusPlusOneDivFour = Ark.Sqrt.modulusPlusOneDivFour c.limbs c.modulus := by
  obtain ⟨_, _, _, hlt, _⟩ := modulusShape_unfold c hs
  obtain ⟨ht1, ht2, _⟩ := two_adicity c h2
  unfold checkSqrtPrecomp at h
  by_cases h4 : c.modulus % 4 = 3
  · have : (c.modulus % 4 == 3) = true := by simpa using h4
    rw [this, if_pos rfl] at h
    simp only [band] at h
    obtain ⟨⟨h5, h6⟩, h7⟩ := h
    have hk : c.sqrtPrecomp.kind = 2 := beq_nat_true h6
    refine ⟨?_, ?_⟩
    · rw [Ark.SqrtP.sqrtPrecomputation_3mod4 _ _ _ h4 hlt]
      unfold preOf
      rw [hk, beq_nat_true h7]
      simp
    · rw [Ark.SqrtP.modulusPlusOneDivFour_eq _ _ h4 hlt]
      exact eq_of_beq h5
  · have : (c.modulus % 4 == 3) = false := by simpa using h4
    rw [this] at h
    simp only [Bool.false_eq_true, if_false, band] at h
    obtain ⟨⟨⟨⟨h5, h6⟩, h7⟩, h8⟩, h9⟩ := h
    have hk : c.sqrtPrecomp.kind = 1 := beq_nat_true h6
    refine ⟨?_, ?_⟩
    · rw [Ark.SqrtP.sqrtPrecomputation_ts _ _ _ h4 _ _ ht1 ht2]
      unfold preOf
      rw [hk, if_pos rfl, beq_nat_true h7, eq_of_beq h8, beq_nat_true h9]
      simp only [List.headD_cons]
      rw [powMod_cast]
    · rw [Ark.SqrtP.modulusPlusOneDivFour_none _ _ h4]
      exact eq_of_beq h5

/-- hence (with primality and the generator a non-residue) the dumped constants satisfy `ValidPre`,
    the hypothesis of the C11 square-root theorems -/
theorem sqrt_precomp_valid (c : FpCfg) [Fact c.modulus.Prime] (hs : checkModulusShape c = true)
    (h2 : checkTwoAdicity c = true) (hq : checkGeneratorQNR c = true)
    (h : checkSqrtPrecomp c = true) :
    ∃ pre, preOf c.modulus c.sqrtPrecomp = some pre ∧ Ark.SqrtP.ValidPre pre := by
  obtain ⟨hgt, hodd, _, hlt, _⟩ := modulusShape_unfold c hs
  obtain ⟨ht1, ht2, _⟩ := two_adicity c h2
  have hg := generator_not_square c c.modulus rfl hodd hq
  obtain ⟨pre, h1, hv⟩ := Ark.SqrtP.sqrtPrecomputation_valid c.modulus (by omega) c.limbs hlt _ hg
  refine ⟨pre, ?_, hv⟩
  rw [(sqrt_precomp_eq c hs h2 h).1, ← h1, Ark.SqrtP.twoAdic_eq _ _ _ ht1 ht2]

theorem forwarding (c : FpCfg) (h : checkForwarding c = true) :
    c.montGenerator = c.generator ∧ c.montTwoAdicRoot = c.twoAdicRoot ∧
    c.montSmallSubgroupBase = c.smallSubgroupBase ∧
    c.montSmallSubgroupBaseAdicity = c.smallSubgroupBaseAdicity ∧
    c.montLargeSubgroupRoot = c.largeSubgroupRoot := by
  unfold checkForwarding at h
  simp only [band] at h
  obtain ⟨⟨⟨⟨h1, h2⟩, h3⟩, h4⟩, h5⟩ := h
  exact ⟨beq_nat_true h1, beq_nat_true h2, eq_of_beq h3, eq_of_beq h4, eq_of_beq h5⟩

theorem mont_flags (c : FpCfg) (h : checkMontFlags c = true) :
    (c.hasSpareBit = true ↔ c.modulus < 2 ^ (64 * c.limbs - 1)) ∧
    (c.noCarryMul = true ↔ c.modulus < 2 ^ (64 * c.limbs - 1) ∧ c.modulus ≠ 2 ^ (64 * c.limbs - 1) - 1) := by
  unfold checkMontFlags at h
  rw [band] at h
  obtain ⟨h1, h2⟩ := h
  have e1 : c.hasSpareBit = decide (c.modulus < 2 ^ (64 * c.limbs - 1)) := eq_of_beq h1
  have e2 : c.noCarryMul = (c.hasSpareBit && c.modulus != 2 ^ (64 * c.limbs - 1) - 1) := eq_of_beq h2
  refine ⟨by rw [e1]; simp, ?_⟩
  rw [e2, e1]
  simp

/-! ## pairing parameter sets -/

theorem sdValBEAux_digits : ∀ (ds : List Int) (acc : Int), sdValBEAux acc ds = acc * 2 ^ ds.length + sdValBE ds
  | [], acc => by simp [sdValBEAux, sdValBE]
  | d :: ds, acc => by
    unfold sdValBE
    simp only [sdValBEAux, List.length_cons]
    rw [sdValBEAux_digits ds (2 * acc + d), sdValBEAux_digits ds (2 * 0 + d)]
    ring

/-- most-significant-first digits: `Σ dᵢ·2^(n-1-i)` (the value of the reversed little-endian string) -/
theorem sdValBE_eq_LE_reverse : ∀ ds : List Int, sdValBE ds = sdValLE ds.reverse
  | [] => rfl
  | d :: ds => by
    have h1 : sdValBE (d :: ds) = d * 2 ^ ds.length + sdValBE ds := by
      show sdValBEAux 0 (d :: ds) = _
      simp only [sdValBEAux]
      rw [sdValBEAux_digits]; ring
    have h2 : ∀ (xs : List Int) (y : Int), sdValLE (xs ++ [y]) = sdValLE xs + y * 2 ^ xs.length := by
      intro xs y
      induction xs with
      | nil => simp [sdValLE]
      | cons x xs ih => simp only [List.cons_append, sdValLE, ih, List.length_cons]; ring
    rw [h1, List.reverse_cons, h2, List.length_reverse, sdValBE_eq_LE_reverse ds]; ring

theorem isDigit_iff (d : Int) : isDigit d = true ↔ d = 0 ∨ d = 1 ∨ d = -1 := by
  unfold isDigit; simp [or_assoc]

theorem bls12_cofactors (c : Bls12Cfg) (h : checkBls12Cofactors c = true) :
    3 * (c.g1Cofactor : Int) = (c.xi - 1) ^ 2 ∧
    9 * (c.g2Cofactor : Int) = c.xi ^ 8 - 4 * c.xi ^ 7 + 5 * c.xi ^ 6 - 4 * c.xi ^ 4 + 6 * c.xi ^ 3
      - 4 * c.xi ^ 2 - 4 * c.xi + 13 := by
  unfold checkBls12Cofactors at h
  simpa [band] using h

theorem bn_loop_count (c : BnCfg) (h : checkBnLoopCount c = true) :
    (∀ d ∈ c.ateLoopCount, d = 0 ∨ d = 1 ∨ d = -1) ∧ c.ateLoopCount.getLast? = some 1 ∧
    sdValLE c.ateLoopCount = ((6 * c.xi + 2).natAbs : Int) := by
  unfold checkBnLoopCount at h
  simp only [band] at h
  obtain ⟨⟨h1, h2⟩, h3⟩ := h
  refine ⟨fun d hd => (isDigit_iff d).1 ((allB_forall _ _).1 h1 d hd), by simpa using h2, by simpa using h3⟩

theorem bn_cofactors (c : BnCfg) (h : checkBnCofactors c = true) :
    c.g1Cofactor = 1 ∧ c.g2Cofactor + c.r = 2 * c.p := by
  unfold checkBnCofactors at h
  simpa [band] using h

theorem bw6_x_minus_1_div_3 (c : Bw6Cfg) (h : checkBw6XMinus1Div3 c = true) :
    3 * (c.xMinus1Div3 : Int) = (if c.xIsNegative = true then - c.xi + 1 else c.xi - 1) := by
  unfold checkBw6XMinus1Div3 at h
  simpa using h

theorem bw6_loop_counts (c : Bw6Cfg) (h : checkBw6LoopCounts c = true) :
    sgn c.ateLoopCount1IsNegative c.ateLoopCount1 = c.xi ∧
    (∀ d ∈ c.ateLoopCount2, d = 0 ∨ d = 1 ∨ d = -1) ∧ c.ateLoopCount2.getLast? = some 1 ∧
    (if c.ateLoopCount2IsNegative = true then - sdValLE c.ateLoopCount2 else sdValLE c.ateLoopCount2)
      = c.xi ^ 2 - c.xi - 1 := by
  unfold checkBw6LoopCounts at h
  simp only [band] at h
  obtain ⟨⟨⟨h1, h2⟩, h3⟩, h4⟩ := h
  exact ⟨by simpa using h1, fun d hd => (isDigit_iff d).1 ((allB_forall _ _).1 h2 d hd),
    by simpa using h3, by simpa using h4⟩

theorem bw6_family (c : Bw6Cfg) (h : checkBw6Family c = true) :
    let x := c.xi
    let r := (c.r : Int)
    let s := x ^ 5 - 3 * x ^ 4 + 3 * x ^ 3 - x
    let t := (if c.tModRIsZero = true then - s else s + 3) + c.hT * r
    let y3 := (if c.tModRIsZero = true then s else s + 3) + 3 * c.hY * r
    3 * (r - x) = (x - 1) ^ 2 * (x ^ 4 - x ^ 2 + 1) ∧ 12 * (c.p : Int) = 3 * t ^ 2 + y3 ^ 2 := by
  unfold checkBw6Family at h
  simpa [band] using h

theorem mnt_loop_count (c : MntCfg) (h : checkMntLoopCount c = true) :
    (c.k = 0 → (c.r : Int) ∣ sgn c.ateIsLoopCountNeg c.ateLoopCountNat - (c.p : Int)) ∧
    (c.k ≠ 0 → (∀ d ∈ c.ateLoopCount, d = 0 ∨ d = 1 ∨ d = -1) ∧ c.ateLoopCount.head? = some 1 ∧
      c.g1Cofactor = 1 ∧
      (if c.ateIsLoopCountNeg = true then - sdValLE c.ateLoopCount.reverse
        else sdValLE c.ateLoopCount.reverse) = (c.p : Int) - (c.r : Int)) := by
  unfold checkMntLoopCount at h
  constructor
  · intro hk
    have : (c.k == 0) = true := by simpa using hk
    rw [this, if_pos rfl] at h
    exact Int.dvd_of_emod_eq_zero (by simpa using h)
  · intro hk
    have : (c.k == 0) = false := by simpa using hk
    rw [this] at h
    simp only [Bool.false_eq_true, if_false, band] at h
    obtain ⟨⟨⟨h1, h2⟩, h3⟩, h4⟩ := h
    refine ⟨fun d hd => (isDigit_iff d).1 ((allB_forall _ _).1 h1 d hd), by simpa using h2,
      by simpa using h3, ?_⟩
    rw [← sdValBE_eq_LE_reverse]
    simpa using h4

section twist
variable {K : Type} [Field K] {φ : El → K} {t : Tw}

/-- `twistB`: M-type `b' = b·ξ`, D-type `b'·ξ = b` (`b` embedded from the prime field) -/
theorem twistB_rep (R : Realises2 t φ) (isM : Bool) {b1 xi b2 : El}
    (h1 : wf t (embed t b1) = true) (hxi : wf t xi = true) (hb2 : wf t b2 = true)
    (h : twistB t isM b1 xi b2 = true) :
    (isM = true → φ b2 = φ (embed t b1) * φ xi) ∧ (isM = false → φ b2 * φ xi = φ (embed t b1)) := by
  unfold twistB at h
  cases isM with
  | true =>
    simp only [if_true] at h
    exact ⟨fun _ => by rw [eq_of_beq h, R.mul_eq h1 hxi], fun h' => by simp at h'⟩
  | false =>
    simp only [Bool.false_eq_true, if_false] at h
    exact ⟨fun h' => by simp at h', fun _ => by rw [← R.mul_eq hb2 hxi, eq_of_beq h]⟩

theorem bn_twist_mul_by_q (c : BnCfg) (R : Realises2 c.fp2 φ) (hxi : wf c.fp2 c.fp6Nonresidue = true)
    (h : checkBnTwistMulByQ c = true) :
    6 ∣ c.p - 1 ∧ φ c.twistMulByQX = φ c.fp6Nonresidue ^ ((c.p - 1) / 3) ∧
    φ c.twistMulByQY = φ c.fp6Nonresidue ^ ((c.p - 1) / 2) := by
  unfold checkBnTwistMulByQ at h
  simp only [band] at h
  obtain ⟨⟨h1, h2⟩, h3⟩ := h
  exact ⟨Nat.dvd_of_mod_eq_zero (beq_nat_true h1), by rw [eq_of_beq h2, R.pow_eq hxi],
    by rw [eq_of_beq h3, R.pow_eq hxi]⟩

end twist

/-- embedding a prime-field constant in the quadratic layer -/
theorem phiQ_embed (p n b : Nat) (nr : El) :
    embed (.ext 2 (.prime p) nr) [b] = [b, 0] ∧
    phiQ p n (embed (.ext 2 (.prime p) nr) [b]) = AdjoinRoot.of (quadPoly p n) ((b : Nat) : ZMod p) := by
  have e : embed (.ext 2 (.prime p) nr) [b] = [b, 0] := rfl
  refine ⟨e, ?_⟩
  rw [e, phiQ_pair]
  simp


/-! ## the cubic tower `F_p[u]/(u³ - n)` is realised in `AdjoinRoot (X³ - n)` -/

section cubic
open Polynomial
variable (p n : Nat)

/-- the defining polynomial `X³ - n` of a cubic layer over `ZMod p` -/
noncomputable def cubicPoly : (ZMod p)[X] := X ^ 3 - C ((n : Nat) : ZMod p)

/-- `X³ - n` is irreducible over `F_p` when `n` is not a cube (what `checkNonresidue` establishes) -/
theorem cubicPoly_irreducible [Fact p.Prime] (h : ¬ ∃ y : ZMod p, y ^ 3 = ((n : Nat) : ZMod p)) :
    Irreducible (cubicPoly p n) := by
  apply irreducible_of_degree_le_three_of_not_isRoot
  · unfold cubicPoly
    rw [natDegree_X_pow_sub_C]
    decide
  · intro x hx
    apply h
    refine ⟨x, ?_⟩
    unfold cubicPoly at hx
    simp only [IsRoot, eval_sub, eval_pow, eval_X, eval_C] at hx
    exact sub_eq_zero.1 hx

theorem root_cube : AdjoinRoot.root (cubicPoly p n) * AdjoinRoot.root (cubicPoly p n) *
    AdjoinRoot.root (cubicPoly p n) = AdjoinRoot.of (cubicPoly p n) ((n : Nat) : ZMod p) := by
  have h := AdjoinRoot.eval₂_root (cubicPoly p n)
  unfold cubicPoly at h
  simp only [eval₂_sub, eval₂_pow, eval₂_X, eval₂_C] at h
  unfold cubicPoly
  linear_combination h

/-- `[c0, c1, c2]` read as `c0 + c1·u + c2·u²` -/
noncomputable def phiC (a : El) : AdjoinRoot (cubicPoly p n) :=
  AdjoinRoot.of (cubicPoly p n) ((a.getD 0 0 : Nat) : ZMod p) +
    AdjoinRoot.of (cubicPoly p n) ((a.getD 1 0 : Nat) : ZMod p) * AdjoinRoot.root (cubicPoly p n) +
    AdjoinRoot.of (cubicPoly p n) ((a.getD 2 0 : Nat) : ZMod p) *
      (AdjoinRoot.root (cubicPoly p n) * AdjoinRoot.root (cubicPoly p n))

theorem phiC_triple (x0 x1 x2 : Nat) : phiC p n [x0, x1, x2] =
    AdjoinRoot.of (cubicPoly p n) ((x0 : Nat) : ZMod p) +
      AdjoinRoot.of (cubicPoly p n) ((x1 : Nat) : ZMod p) * AdjoinRoot.root (cubicPoly p n) +
      AdjoinRoot.of (cubicPoly p n) ((x2 : Nat) : ZMod p) *
        (AdjoinRoot.root (cubicPoly p n) * AdjoinRoot.root (cubicPoly p n)) := rfl

theorem wf_cubic_iff (nr a : El) :
    wf (.ext 3 (.prime p) nr) a = true ↔ ∃ x0 x1 x2, a = [x0, x1, x2] ∧ x0 < p ∧ x1 < p ∧ x2 < p := by
  rw [wf_iff]
  constructor
  · rintro ⟨h1, h2⟩
    obtain ⟨x0, x1, x2, rfl⟩ := List.length_eq_three.1 h1
    exact ⟨x0, x1, x2, rfl, h2 x0 (by simp), h2 x1 (by simp), h2 x2 (by simp)⟩
  · rintro ⟨x0, x1, x2, rfl, h0, h1, h2⟩
    refine ⟨rfl, ?_⟩
    intro y hy
    simp only [List.mem_cons, List.not_mem_nil, or_false] at hy
    rcases hy with rfl | rfl | rfl
    · exact h0
    · exact h1
    · exact h2

/-- `1, u, u²` are linearly independent over `F_p` in `F_p[u]/(u³ - n)` -/
theorem cubic_coords_zero [Fact p.Prime] (d0 d1 d2 : ZMod p)
    (h : AdjoinRoot.of (cubicPoly p n) d0 + AdjoinRoot.of (cubicPoly p n) d1 * AdjoinRoot.root (cubicPoly p n)
      + AdjoinRoot.of (cubicPoly p n) d2 * (AdjoinRoot.root (cubicPoly p n) * AdjoinRoot.root (cubicPoly p n)) = 0) :
    d0 = 0 ∧ d1 = 0 ∧ d2 = 0 := by
  have hm : AdjoinRoot.mk (cubicPoly p n) (C d0 + C d1 * X + C d2 * (X * X)) = 0 := by
    rw [map_add, map_add, map_mul, map_mul, map_mul, AdjoinRoot.mk_C, AdjoinRoot.mk_C, AdjoinRoot.mk_C,
      AdjoinRoot.mk_X]
    exact h
  rw [AdjoinRoot.mk_eq_zero] at hm
  have hdeg : (C d0 + C d1 * X + C d2 * (X * X) : (ZMod p)[X]).degree < (cubicPoly p n).degree := by
    have h3 : (cubicPoly p n).degree = 3 := by
      unfold cubicPoly; exact degree_X_pow_sub_C (by norm_num) _
    rw [h3]
    have e : (C d0 + C d1 * X + C d2 * (X * X) : (ZMod p)[X]) = C d2 * X ^ 2 + C d1 * X + C d0 := by ring
    rw [e]
    calc (C d2 * X ^ 2 + C d1 * X + C d0 : (ZMod p)[X]).degree ≤ 2 := degree_quadratic_le
      _ < 3 := by norm_num
  have hz := Polynomial.eq_zero_of_dvd_of_degree_lt hm hdeg
  have c0 := congrArg (fun q => Polynomial.coeff q 0) hz
  have c1 := congrArg (fun q => Polynomial.coeff q 1) hz
  have c2 := congrArg (fun q => Polynomial.coeff q 2) hz
  simp [← pow_two] at c0 c1 c2
  exact ⟨c0, c1, c2⟩

theorem realises2_cubic [Fact p.Prime] [Fact (Irreducible (cubicPoly p n))] (nr : El)
    (hn : nr.headD 0 = n) :
    Realises2 (K := AdjoinRoot (cubicPoly p n)) (.ext 3 (.prime p) nr) (phiC p n) := by
  have hp1 : 1 < p := (Fact.out : p.Prime).one_lt
  have hp0 : 0 < (Tw.ext 3 (.prime p) nr).char := by show 0 < p; omega
  refine ⟨⟨?_, ?_, ?_, ?_, ?_, ?_, ?_, ?_, ?_⟩, ?_, ?_, ?_, ?_, ?_⟩
  · exact fun a b ha hb => wf_add _ hp0 a b ha hb
  · intro a b ha hb
    obtain ⟨x0, x1, x2, rfl, _⟩ := (wf_cubic_iff p nr a).1 ha
    obtain ⟨y0, y1, y2, rfl, _⟩ := (wf_cubic_iff p nr b).1 hb
    show phiC p n [(x0 + y0) % p, (x1 + y1) % p, (x2 + y2) % p] = _
    rw [phiC_triple, phiC_triple, phiC_triple, ZMod.natCast_mod, ZMod.natCast_mod, ZMod.natCast_mod,
      Nat.cast_add, Nat.cast_add, Nat.cast_add, map_add, map_add, map_add]
    ring
  · intro a b ha hb
    obtain ⟨x0, x1, x2, rfl, _⟩ := (wf_cubic_iff p nr a).1 ha
    obtain ⟨y0, y1, y2, rfl, _⟩ := (wf_cubic_iff p nr b).1 hb
    rw [wf_cubic_iff]
    exact ⟨_, _, _, rfl, Nat.mod_lt _ (by omega), Nat.mod_lt _ (by omega), Nat.mod_lt _ (by omega)⟩
  · intro a b ha hb
    obtain ⟨x0, x1, x2, rfl, _⟩ := (wf_cubic_iff p nr a).1 ha
    obtain ⟨y0, y1, y2, rfl, _⟩ := (wf_cubic_iff p nr b).1 hb
    show phiC p n [(x0 * y0 + nr.headD 0 * (x1 * y2 + x2 * y1)) % p,
      (x0 * y1 + x1 * y0 + nr.headD 0 * (x2 * y2)) % p, (x0 * y2 + x1 * y1 + x2 * y0) % p] = _
    rw [hn, phiC_triple, phiC_triple, phiC_triple, ZMod.natCast_mod, ZMod.natCast_mod, ZMod.natCast_mod]
    simp only [Nat.cast_add, Nat.cast_mul, map_add, map_mul]
    linear_combination
      (-(AdjoinRoot.of (cubicPoly p n) ((x1 : Nat) : ZMod p) * AdjoinRoot.of (cubicPoly p n) ((y2 : Nat) : ZMod p)
          + AdjoinRoot.of (cubicPoly p n) ((x2 : Nat) : ZMod p) * AdjoinRoot.of (cubicPoly p n) ((y1 : Nat) : ZMod p))
        - AdjoinRoot.of (cubicPoly p n) ((x2 : Nat) : ZMod p) * AdjoinRoot.of (cubicPoly p n) ((y2 : Nat) : ZMod p)
          * AdjoinRoot.root (cubicPoly p n)) * root_cube p n
  · rw [wf_cubic_iff]; exact ⟨0, 0, 0, rfl, by omega, by omega, by omega⟩
  · show phiC p n [0, 0, 0] = 0
    rw [phiC_triple]; simp
  · rw [wf_cubic_iff]; exact ⟨1, 0, 0, rfl, hp1, by omega, by omega⟩
  · show phiC p n [1, 0, 0] = 1
    rw [phiC_triple]; simp
  · intro a h
    have hr := (isZero_iff_replicate a).1 h
    have h0 : a.getD 0 0 = 0 ∧ a.getD 1 0 = 0 ∧ a.getD 2 0 = 0 := by
      rw [hr]
      refine ⟨?_, ?_, ?_⟩ <;> simp [List.getD_eq_getElem?_getD, List.getElem?_replicate] <;> split <;> rfl
    unfold phiC
    rw [h0.1, h0.2.1, h0.2.2]
    simp
  · exact fun a b ha hb => wf_sub _ hp0 a b ha hb
  · intro a b ha hb
    obtain ⟨x0, x1, x2, rfl, _⟩ := (wf_cubic_iff p nr a).1 ha
    obtain ⟨y0, y1, y2, rfl, _⟩ := (wf_cubic_iff p nr b).1 hb
    show phiC p n [(x0 + (p - y0 % p)) % p, (x1 + (p - y1 % p)) % p, (x2 + (p - y2 % p)) % p] = _
    rw [phiC_triple, phiC_triple, phiC_triple, natCast_sub_mod p x0 y0 (by omega),
      natCast_sub_mod p x1 y1 (by omega), natCast_sub_mod p x2 y2 (by omega), map_sub, map_sub, map_sub]
    ring
  · intro c
    rw [wf_cubic_iff]
    exact ⟨c % p, 0, 0, rfl, Nat.mod_lt _ (by omega), by omega, by omega⟩
  · intro c
    show phiC p n [c % p, 0, 0] = _
    rw [phiC_triple, ZMod.natCast_mod]
    simp
  · intro a b ha hb h
    obtain ⟨x0, x1, x2, rfl, hx0, hx1, hx2⟩ := (wf_cubic_iff p nr a).1 ha
    obtain ⟨y0, y1, y2, rfl, hy0, hy1, hy2⟩ := (wf_cubic_iff p nr b).1 hb
    rw [phiC_triple, phiC_triple] at h
    have h' : AdjoinRoot.of (cubicPoly p n) ((x0 : ZMod p) - (y0 : ZMod p)) +
        AdjoinRoot.of (cubicPoly p n) ((x1 : ZMod p) - (y1 : ZMod p)) * AdjoinRoot.root (cubicPoly p n) +
        AdjoinRoot.of (cubicPoly p n) ((x2 : ZMod p) - (y2 : ZMod p)) *
          (AdjoinRoot.root (cubicPoly p n) * AdjoinRoot.root (cubicPoly p n)) = 0 := by
      rw [map_sub, map_sub, map_sub]; linear_combination h
    obtain ⟨e0, e1, e2⟩ := cubic_coords_zero p n _ _ _ h'
    rw [natCast_inj_of_lt p x0 y0 hx0 hy0 (sub_eq_zero.1 e0),
      natCast_inj_of_lt p x1 y1 hx1 hy1 (sub_eq_zero.1 e1),
      natCast_inj_of_lt p x2 y2 hx2 hy2 (sub_eq_zero.1 e2)]

theorem cubic_finite [Fact p.Prime] : Finite (AdjoinRoot (cubicPoly p n)) := by
  have hm : (cubicPoly p n).Monic := monic_X_pow_sub_C _ (by norm_num)
  have := hm.finite_adjoinRoot
  exact Module.finite_of_finite (ZMod p)

theorem cubic_card [Fact p.Prime] [Fintype (AdjoinRoot (cubicPoly p n))] (nr : El) :
    Fintype.card (AdjoinRoot (cubicPoly p n)) = (Tw.ext 3 (.prime p) nr).card := by
  have hm : (cubicPoly p n).Monic := monic_X_pow_sub_C _ (by norm_num)
  have := Module.card_fintype (AdjoinRoot.powerBasisAux' hm)
  rw [this, ZMod.card, Fintype.card_fin]
  have hd : (cubicPoly p n).natDegree = 3 := by unfold cubicPoly; exact natDegree_X_pow_sub_C
  rw [hd]
  rfl

end cubic

end Ark.Cfg.Meaning2
