import Ark.Model.H2C
import Mathlib.Algebra.Field.Basic
import Mathlib.Algebra.Group.Even
import Mathlib.Tactic.Ring
import Mathlib.Tactic.FieldSimp
import Mathlib.Tactic.LinearCombination
import Mathlib.FieldTheory.Finite.Basic
import Mathlib.Data.List.TakeWhile
/-
  Ark.Proofs.H2C — helper lemmas for property C13 (hash-to-field / hash-to-curve):
  the MODEL `Ark.H2C` against the SPEC `Ark.H2C.Rfc` (RFC 9380).
-/
namespace Ark.H2C.P
open Ark Ark.H2C

/-! ## soundness assumptions on the dictionary `FieldX` -/

section sound
variable {F : Type} [Field F] [DecidableEq F]

/-- what is assumed of `legendre().is_qr()` and `sqrt()` -/
structure FieldXSound (X : FieldX F) : Prop where
  isQR_iff : ∀ x, X.isQR x = true ↔ x ≠ 0 ∧ IsSquare x
  sqrt_sound : ∀ x r, X.sqrt x = some r → r * r = x
  sqrt_complete : ∀ x, IsSquare x → ∃ r, X.sqrt x = some r

/-- what is assumed of `to_base_prime_field_elements` for the sign normalisation: negation flips
    the parity of a non-zero element (true in every field of odd characteristic with canonical
    residues: `p - c` has the opposite parity of `c` for `0 < c < p`) -/
def ParitySound (X : FieldX F) : Prop := ∀ y : F, y ≠ 0 → parity X (-y) = !(parity X y)

/-- the property of finite fields used by both maps: the product of two non-squares is a square -/
def NonsqMul (F : Type) [Field F] : Prop := ∀ x y : F, ¬ IsSquare x → ¬ IsSquare y → IsSquare (x * y)

theorem nonsqMul_of_finite (F : Type) [Field F] [Finite F] : NonsqMul F := by
  classical
  have := Fintype.ofFinite F
  intro x y hx hy
  by_cases hF : ringChar F = 2
  · exact FiniteField.isSquare_of_char_two hF _
  · have hx0 : x ≠ 0 := by rintro rfl; exact hx ⟨0, by simp⟩
    have hy0 : y ≠ 0 := by rintro rfl; exact hy ⟨0, by simp⟩
    rw [FiniteField.isSquare_iff hF hx0] at hx
    rw [FiniteField.isSquare_iff hF hy0] at hy
    rw [FiniteField.isSquare_iff hF (mul_ne_zero hx0 hy0), mul_pow]
    rcases FiniteField.pow_dichotomy hF hx0 with h | h
    · exact absurd h hx
    rcases FiniteField.pow_dichotomy hF hy0 with h' | h'
    · exact absurd h' hy
    rw [h, h']; simp

end sound

/-! ## 2. `parity` is `sgn0` -/

def sgnStep (sz : Nat × Nat) (x : Nat) : Nat × Nat :=
  (sz.1 ||| (sz.2 &&& x % 2), sz.2 &&& (if x == 0 then 1 else 0))

theorem sgn0_unfold (xs : List Nat) : Rfc.sgn0 xs = (xs.foldl sgnStep (0, 1)).1 := rfl

theorem sgn_fold_zero (xs : List Nat) (s : Nat) : (xs.foldl sgnStep (s, 0)).1 = s := by
  induction xs generalizing s with
  | nil => rfl
  | cons x xs ih =>
    have : sgnStep (s, 0) x = (s, 0) := by simp [sgnStep]
    rw [List.foldl_cons, this, ih]

theorem sgn0_eq (cs : List Nat) : Rfc.sgn0 cs = if parityCoords cs then 1 else 0 := by
  rw [sgn0_unfold]
  induction cs with
  | nil => rfl
  | cons x xs ih =>
    by_cases hx : x = 0
    · subst hx
      have : sgnStep (0, 1) 0 = (0, 1) := by simp [sgnStep]
      have hp : parityCoords (0 :: xs) = parityCoords xs := rfl
      rw [List.foldl_cons, this, ih, hp]
    · have : sgnStep (0, 1) x = (x % 2, 0) := by
        simp [sgnStep, hx, Nat.one_and_eq_mod_two]
      rw [List.foldl_cons, this, sgn_fold_zero]
      have h2 : x % 2 = 0 ∨ x % 2 = 1 := by omega
      rcases h2 with h | h <;> simp [parityCoords, hx, h]

theorem parityCoords_eq (cs : List Nat) : parityCoords cs = (Rfc.sgn0 cs == 1) := by
  rw [sgn0_eq]; cases parityCoords cs <;> rfl

/-! ## 3. simplified SWU -/

section swu
variable {F : Type} [Field F] [DecidableEq F]

/-- the curve polynomial `x³ + a x + b` (as the RFC writes it) -/
def g (a b x : F) : F := x * x * x + a * x + b

/-- `x1` of steps 1–3 of RFC 9380 §6.6.2 -/
def rfcX1 (A B Z u : F) : F :=
  let u2 := u * u
  let tv1 := Rfc.inv0 (Z * Z * (u2 * u2) + Z * u2)
  let x1 := (-B / A) * (1 + tv1)
  if tv1 = 0 then B / (Z * A) else x1

theorem sswuGx1_eq (A B Z u : F) : Rfc.sswuGx1 A B Z u = g A B (rfcX1 A B Z u) := rfl

theorem inv0_eq_zero_iff (x : F) : Rfc.inv0 x = 0 ↔ x = 0 := by
  unfold Rfc.inv0
  by_cases h : x = 0 <;> simp [h]

variable {X : FieldX F}

theorem not_isQR_iff (hX : FieldXSound X) (x : F) : X.isQR x = false ↔ (x = 0 ∨ ¬ IsSquare x) := by
  rw [← Bool.not_eq_true, hX.isQR_iff]
  by_cases h : x = 0 <;> simp [h]

theorem params_dest (hX : FieldXSound X) {a b ζ : F} (h : Rfc.sswuParamsOk X a b ζ = true) :
    a ≠ 0 ∧ b ≠ 0 ∧ ζ ≠ 0 ∧ ¬ IsSquare ζ ∧ X.isQR (g a b (b / (ζ * a))) = true := by
  simp only [Rfc.sswuParamsOk, Rfc.isSquare, Bool.and_eq_true, bne_iff_ne, ne_eq, Bool.not_eq_true',
    Bool.or_eq_false_iff, decide_eq_false_iff_not] at h
  obtain ⟨⟨⟨ha, hb⟩, hz, hzq⟩, hg⟩ := h
  refine ⟨ha, hb, hz, ?_, hg⟩
  rcases (not_isQR_iff hX ζ).1 hzq with h0 | h0
  · exact absurd h0 hz
  · exact h0

end swu

section swu2
variable {F : Type} [Field F] [DecidableEq F] {X : FieldX F}

/-- the model's `x1 = num_x1 / div` is the RFC's `x1` -/
theorem model_x1_eq {a b ζ : F} (ha : a ≠ 0) (hz : ζ ≠ 0) (u : F) :
    let t := ζ * (u * u)
    let ta := t * t + t
    (b * (ta + 1)) / (a * (if ta = 0 then ζ else -ta)) = rfcX1 a b ζ u := by
  intro t ta
  have hta : ζ * ζ * (u * u * (u * u)) + ζ * (u * u) = ta := by simp only [ta, t]; ring
  unfold rfcX1
  simp only [hta, inv0_eq_zero_iff]
  by_cases h : ta = 0
  · simp only [h, if_true]; field_simp; ring
  · simp only [h, if_false, Rfc.inv0]; field_simp

/-- value of the model, all `let`s unfolded, in terms of `x1 = num_x1/div` and `gx1 = g x1` -/
theorem swuMap_eval {a b ζ : F} (ha : a ≠ 0) (hz : ζ ≠ 0) (u : F) :
    swuMap X a b ζ u =
      (let x1 := rfcX1 a b ζ u
       let gx1 := g a b x1
       let t := ζ * (u * u)
       match (if X.isQR gx1 then X.sqrt gx1 else X.sqrt (ζ * gx1)) with
       | none => .panic
       | some y1 =>
         let y := if X.isQR gx1 then y1 else t * u * y1
         .ok (if X.isQR gx1 then x1 else t * x1, if parity X y == parity X u then y else -y)) := by
  have hx1 := model_x1_eq (b := b) ha hz u
  simp only at hx1
  set t := ζ * (u * u) with ht
  set ta := t * t + t with hta
  set dv := a * (if ta = 0 then ζ else -ta) with hdv
  have hdv0 : dv ≠ 0 := by
    rw [hdv]; apply mul_ne_zero ha
    by_cases h : ta = 0
    · simpa [h] using hz
    · simp [h]
  have hd3 : dv * dv * dv ≠ 0 := mul_ne_zero (mul_ne_zero hdv0 hdv0) hdv0
  have hg : ((b * (ta + 1) * (b * (ta + 1)) + a * (dv * dv)) * (b * (ta + 1)) + b * (dv * dv * dv)) / (dv * dv * dv)
      = g a b (rfcX1 a b ζ u) := by
    rw [← hx1, g]; field_simp
  have hx2 : t * (b * (ta + 1)) / dv = t * rfcX1 a b ζ u := by rw [← hx1]; ring
  simp only [swuMap, swuMapB, divP, ← ht, ← hta, ← hdv, if_neg hd3, if_neg hdv0, obind, hg]
  cases hq : X.isQR (g a b (rfcX1 a b ζ u))
  · simp only [Bool.false_eq_true, if_false]
    cases X.sqrt (ζ * g a b (rfcX1 a b ζ u)) with
    | none => rfl
    | some y1 => simp only [hx2]
  · simp only [if_true]
    cases X.sqrt (g a b (rfcX1 a b ζ u)) with
    | none => rfl
    | some y1 => simp only [hx1]
end swu2

section swu3
variable {F : Type} [Field F] [DecidableEq F] {X : FieldX F}

/-- key algebra: away from the exceptional case, `g(ζu²·x1) = (ζu²)³ · g(x1)`
    (`gx2·div³ = ζ³u⁶·num_gx1`) -/
theorem g_x2_eq {a b ζ : F} (ha : a ≠ 0) (u : F)
    (hta : ζ * ζ * (u * u * (u * u)) + ζ * (u * u) ≠ 0) :
    g a b (ζ * (u * u) * rfcX1 a b ζ u) =
      (ζ * (u * u)) * (ζ * (u * u)) * (ζ * (u * u)) * g a b (rfcX1 a b ζ u) := by
  have hx : rfcX1 a b ζ u = (-b / a) * (1 + (ζ * ζ * (u * u * (u * u)) + ζ * (u * u))⁻¹) := by
    unfold rfcX1
    simp only [inv0_eq_zero_iff, if_neg hta]
    simp only [Rfc.inv0, if_neg hta]
  have hw : (ζ * ζ * (u * u * (u * u)) + ζ * (u * u))⁻¹ * (ζ * ζ * (u * u * (u * u)) + ζ * (u * u)) = 1 :=
    inv_mul_cancel₀ hta
  have hc : -b / a = -(b / a) := by ring
  have hb : b = a * (b / a) := by field_simp
  rw [hx, hc]
  generalize (ζ * ζ * (u * u * (u * u)) + ζ * (u * u))⁻¹ = w at hw ⊢
  generalize b / a = c at hb ⊢
  subst hb
  unfold g
  linear_combination (a * c * (ζ * (u * u) - 1)) * hw

/-- in the exceptional case `x1 = b/(ζa)` -/
theorem rfcX1_exc {a b ζ : F} (u : F)
    (hta : ζ * ζ * (u * u * (u * u)) + ζ * (u * u) = 0) : rfcX1 a b ζ u = b / (ζ * a) := by
  unfold rfcX1
  simp only [inv0_eq_zero_iff, if_pos hta]

/-- the selected abscissa -/
def swuX (X : FieldX F) (a b ζ u : F) : F :=
  if X.isQR (g a b (rfcX1 a b ζ u)) then rfcX1 a b ζ u else ζ * (u * u) * rfcX1 a b ζ u

/-- sign normalisation of the model -/
def normSign (X : FieldX F) (u y : F) : F := if parity X y == parity X u then y else -y

omit [DecidableEq F] in
theorem normSign_sq (u y : F) : normSign X u y * normSign X u y = y * y := by
  unfold normSign; split <;> ring

theorem normSign_sign (hP : ParitySound X) (u y : F) :
    normSign X u y = 0 ∨ parity X (normSign X u y) = parity X u := by
  unfold normSign
  by_cases hy : y = 0
  · left; subst hy; simp
  · right
    by_cases h : parity X y = parity X u
    · simp [h]
    · have : (parity X y == parity X u) = false := by simpa using h
      rw [this]; simp only [Bool.false_eq_true, if_false]
      rw [hP y hy]
      revert h; cases parity X y <;> cases parity X u <;> simp

/-- a `y` is determined by its square and its sign -/
theorem sign_unique (hP : ParitySound X) {u y y' : F} (hsq : y * y = y' * y')
    (hy : y = 0 ∨ parity X y = parity X u) (hy' : y' = 0 ∨ parity X y' = parity X u) : y = y' := by
  rcases mul_self_eq_mul_self_iff.1 hsq with h | h
  · exact h
  · by_cases h0 : y' = 0
    · rw [h, h0, neg_zero]
    · have hy0 : y ≠ 0 := by rw [h]; exact neg_ne_zero.2 h0
      have h1 : parity X y = parity X u := hy.resolve_left hy0
      have h2 : parity X y' = parity X u := hy'.resolve_left h0
      have h3 := hP y' h0
      rw [← h, h1, h2] at h3
      revert h3; cases parity X u <;> simp

/-- the model: never panics, and its output is `(swuX, normSign y0)` with `y0² = g(swuX)` -/
theorem swuMap_char (hX : FieldXSound X) (hN : NonsqMul F) {a b ζ : F}
    (hp : Rfc.sswuParamsOk X a b ζ = true) (u : F) :
    ∃ y0, swuMap X a b ζ u = .ok (swuX X a b ζ u, normSign X u y0) ∧
      y0 * y0 = g a b (swuX X a b ζ u) := by
  obtain ⟨ha, hb, hz, hzs, hg0⟩ := params_dest hX hp
  rw [swuMap_eval ha hz u]
  simp only [swuX]
  cases hq : X.isQR (g a b (rfcX1 a b ζ u))
  · -- gx1 = 0 or a non-square
    simp only [Bool.false_eq_true, if_false]
    have hta : ζ * ζ * (u * u * (u * u)) + ζ * (u * u) ≠ 0 := by
      intro h
      rw [rfcX1_exc u h, hg0] at hq
      exact Bool.noConfusion hq
    have hsq : IsSquare (ζ * g a b (rfcX1 a b ζ u)) := by
      rcases (not_isQR_iff hX _).1 hq with h | h
      · rw [h, mul_zero]; exact ⟨0, by simp⟩
      · exact hN _ _ hzs h
    obtain ⟨y1, hy1⟩ := hX.sqrt_complete _ hsq
    rw [hy1]
    refine ⟨ζ * (u * u) * u * y1, rfl, ?_⟩
    rw [g_x2_eq ha u hta]
    have := hX.sqrt_sound _ _ hy1
    linear_combination (ζ * (u * u) * u) * (ζ * (u * u) * u) * this
  · simp only [if_true]
    obtain ⟨hne, hsq⟩ := (hX.isQR_iff _).1 hq
    obtain ⟨y1, hy1⟩ := hX.sqrt_complete _ hsq
    rw [hy1]
    exact ⟨y1, rfl, hX.sqrt_sound _ _ hy1⟩

omit [Field F] [DecidableEq F] in
theorem sgn0F_ne_iff (u y : F) :
    (Rfc.sgn0F X u != Rfc.sgn0F X y) = !(parity X y == parity X u) := by
  unfold Rfc.sgn0F parity
  rw [sgn0_eq, sgn0_eq]
  cases parityCoords (X.coords u) <;> cases parityCoords (X.coords y) <;> rfl

/-- the RFC's map, `let`s unfolded -/
theorem sswu_eval (A B Z u : F) :
    Rfc.sswu X A B Z u =
      (let x1 := rfcX1 A B Z u
       let x2 := Z * (u * u) * x1
       let xy : F × F := if Rfc.isSquare X (g A B x1) then (x1, Rfc.sqrtOr0 X (g A B x1))
                          else (x2, Rfc.sqrtOr0 X (g A B x2))
       (xy.1, normSign X u xy.2)) := by
  have h : ∀ y : F, (if Rfc.sgn0F X u != Rfc.sgn0F X y then -y else y) = normSign X u y := by
    intro y
    rw [sgn0F_ne_iff]; unfold normSign
    cases (parity X y == parity X u) <;> rfl
  simp only [← h]
  rfl
end swu3

section swu4
variable {F : Type} [Field F] [DecidableEq F] {X : FieldX F}

/-- the RFC's map away from `gx1 = 0`: `(swuX, normSign r)` with `r² = g(swuX)` -/
theorem sswu_char (hX : FieldXSound X) (hN : NonsqMul F) {a b ζ : F}
    (hp : Rfc.sswuParamsOk X a b ζ = true) (u : F) (hgx : Rfc.sswuGx1 a b ζ u ≠ 0) :
    ∃ r, Rfc.sswu X a b ζ u = (swuX X a b ζ u, normSign X u r) ∧ r * r = g a b (swuX X a b ζ u) := by
  obtain ⟨ha, hb, hz, hzs, hg0⟩ := params_dest hX hp
  rw [sswuGx1_eq] at hgx
  rw [sswu_eval]
  simp only [swuX, Rfc.isSquare, hgx, decide_false, Bool.false_or]
  cases hq : X.isQR (g a b (rfcX1 a b ζ u))
  · simp only [Bool.false_eq_true, if_false]
    have hta : ζ * ζ * (u * u * (u * u)) + ζ * (u * u) ≠ 0 := by
      intro h
      rw [rfcX1_exc u h, hg0] at hq
      exact Bool.noConfusion hq
    have hns : ¬ IsSquare (g a b (rfcX1 a b ζ u)) := ((not_isQR_iff hX _).1 hq).resolve_left hgx
    have hsq : IsSquare (g a b (ζ * (u * u) * rfcX1 a b ζ u)) := by
      obtain ⟨s, hs⟩ := hN _ _ hzs hns
      refine ⟨ζ * (u * u) * u * s, ?_⟩
      rw [g_x2_eq ha u hta]
      linear_combination (ζ * (u * u) * u) * (ζ * (u * u) * u) * hs
    obtain ⟨r, hr⟩ := hX.sqrt_complete _ hsq
    refine ⟨r, ?_, hX.sqrt_sound _ _ hr⟩
    simp only [Rfc.sqrtOr0, hr, Option.getD_some]
  · simp only [if_true]
    obtain ⟨hne, hsq⟩ := (hX.isQR_iff _).1 hq
    obtain ⟨r, hr⟩ := hX.sqrt_complete _ hsq
    refine ⟨r, ?_, hX.sqrt_sound _ _ hr⟩
    simp only [Rfc.sqrtOr0, hr, Option.getD_some]

/-- SWU, main statement: no panic, on the curve, sign convention -/
theorem swuMap_ok (hX : FieldXSound X) (hN : NonsqMul F) {a b ζ : F}
    (hp : Rfc.sswuParamsOk X a b ζ = true) (u : F) :
    ∃ x y, swuMap X a b ζ u = .ok (x, y) ∧ y * y = x * x * x + a * x + b ∧
      (ParitySound X → (y = 0 ∨ parity X y = parity X u)) := by
  obtain ⟨y0, h1, h2⟩ := swuMap_char hX hN hp u
  refine ⟨_, _, h1, ?_, fun hP => normSign_sign hP u y0⟩
  rw [normSign_sq, h2]; rfl

theorem swuMap_eq_rfc (hX : FieldXSound X) (hP : ParitySound X) (hN : NonsqMul F) {a b ζ : F}
    (hp : Rfc.sswuParamsOk X a b ζ = true) (u : F) (hgx : Rfc.sswuGx1 a b ζ u ≠ 0) :
    swuMap X a b ζ u = .ok (Rfc.sswu X a b ζ u) := by
  obtain ⟨y0, h1, h2⟩ := swuMap_char hX hN hp u
  obtain ⟨r, h3, h4⟩ := sswu_char hX hN hp u hgx
  rw [h1, h3]
  congr 2
  apply sign_unique hP (u := u)
  · rw [normSign_sq, normSign_sq, h2, h4]
  · exact normSign_sign hP u y0
  · exact normSign_sign hP u r

/-- the output does not depend on which square root the dictionary returns -/
theorem swuMap_indep {X' : FieldX F} (hX : FieldXSound X) (hX' : FieldXSound X')
    (hc : X.coords = X'.coords) (hP : ParitySound X) (hN : NonsqMul F) {a b ζ : F}
    (hp : Rfc.sswuParamsOk X a b ζ = true) (u : F) :
    swuMap X a b ζ u = swuMap X' a b ζ u := by
  have hqr : ∀ x, X.isQR x = X'.isQR x := by
    intro x
    have h1 := hX.isQR_iff x
    have h2 := hX'.isQR_iff x
    cases h : X.isQR x <;> cases h' : X'.isQR x <;> simp_all
  have hpar : ∀ y, parity X y = parity X' y := by intro y; unfold parity; rw [hc]
  have hP' : ParitySound X' := by intro y hy; rw [← hpar, ← hpar]; exact hP y hy
  have hp' : Rfc.sswuParamsOk X' a b ζ = true := by
    simpa only [Rfc.sswuParamsOk, Rfc.isSquare, hqr] using hp
  obtain ⟨y0, h1, h2⟩ := swuMap_char hX hN hp u
  obtain ⟨y0', h1', h2'⟩ := swuMap_char hX' hN hp' u
  have hx : swuX X a b ζ u = swuX X' a b ζ u := by unfold swuX; rw [hqr]
  rw [h1, h1', hx]
  congr 2
  apply sign_unique hP (u := u)
  · rw [normSign_sq, normSign_sq, h2, h2', hx]
  · exact normSign_sign hP u y0
  · have := normSign_sign hP' u y0'
    rwa [← hpar, ← hpar] at this
end swu4

/-! ## 1. the expander and hash_to_field -/

section xmd

/-- `Option` (ABORT = `none`) read as an `Outcome` (ABORT = panic) -/
def ofOpt {α : Type} : Option α → Outcome α
  | some a => .ok a
  | none => .panic

theorem xorBytes_eq_strxor (a b : Bytes) : xorBytes a b = Rfc.strxor a b := by
  induction a generalizing b with
  | nil => simp [xorBytes, Rfc.strxor]
  | cons x xs ih =>
    cases b with
    | nil => simp [xorBytes, Rfc.strxor]
    | cons y ys =>
      have := ih ys
      simp only [Rfc.strxor] at this
      simp only [xorBytes, Rfc.strxor, List.zip_cons_cons, List.map_cons, this]
      rfl

theorem i2osp_one (i : Nat) (h : i < 256) : Rfc.i2osp i 1 = some [i % 256] := by
  simp [Rfc.i2osp, Nat.not_le.2 h, List.range_succ]

theorem i2osp_zero (s : Nat) : Rfc.i2osp 0 s = some (List.replicate s 0) := by
  have h : ¬ (0 ≥ 256 ^ s) := Nat.not_le.2 (Nat.pow_pos (by decide))
  simp only [Rfc.i2osp, if_neg h, Nat.zero_div, Nat.zero_mod]
  congr 1
  apply List.ext_getElem <;> simp

theorem i2osp_two (n : Nat) (h : n < 65536) : Rfc.i2osp n 2 = some [(n / 256) % 256, n % 256] := by
  simp [Rfc.i2osp, List.range_succ, h]

theorem longDst_eq : "H2C-OVERSIZE-DST-".toUTF8.toList.map (·.toNat) = longDstPrefix := by
  decide +kernel

theorem blocksFrom_flatten (H : Bytes → Bytes) (b0 dp : Bytes) :
    ∀ (cnt i : Nat) (bi : Bytes), i + cnt ≤ 256 →
      (Rfc.blocksFrom H b0 dp cnt i bi).flatten = xmdLoop H b0 dp cnt i bi := by
  intro cnt
  induction cnt with
  | zero => intros; rfl
  | succ cnt ih =>
    intro i bi h
    have hi : i < 256 := by omega
    simp only [Rfc.blocksFrom, i2osp_one i hi, xmdLoop, List.flatten_cons, ← xorBytes_eq_strxor]
    rw [ih (i + 1) _ (by omega)]

theorem blocksB_flatten (H : Bytes → Bytes) (b0 dp : Bytes) (ell : Nat) (h : ell ≤ 255) :
    (Rfc.blocksB H b0 dp ell).flatten =
      if ell = 0 then [] else H (b0 ++ [1] ++ dp) ++ xmdLoop H b0 dp (ell - 1) 2 (H (b0 ++ [1] ++ dp)) := by
  unfold Rfc.blocksB
  by_cases h0 : ell = 0
  · simp [h0]
  · simp only [if_neg h0, i2osp_one 1 (by decide), List.flatten_cons]
    rw [blocksFrom_flatten H b0 dp _ _ _ (by omega)]

theorem ceilDiv_eq (n b : Nat) (hb : 0 < b) : (n + b - 1) / b = Rfc.ceilDiv n b := by
  unfold Rfc.ceilDiv
  have hdm := Nat.div_add_mod n b
  have hr := Nat.mod_lt n hb
  generalize n / b = q at hdm ⊢
  generalize n % b = r at hdm hr ⊢
  subst hdm
  by_cases h0 : r = 0
  · subst h0
    have : b * q + 0 + b - 1 = b * q + (b - 1) := by omega
    rw [this, Nat.mul_add_div hb, Nat.div_eq_of_lt (by omega)]
    simp
  · have : b * q + r + b - 1 = b * (q + 1) + (r - 1) := by rw [Nat.mul_add]; omega
    rw [this, Nat.mul_add_div hb, Nat.div_eq_of_lt (by omega)]
    simp [h0]

theorem ell_rel (n b : Nat) :
    ((n + b - 1) / b > 255 ↔ Rfc.ceilDiv n b > 255) ∧ (Rfc.ceilDiv n b = 0 → n = 0) ∧
      ((n + b - 1) / b - 1 = Rfc.ceilDiv n b - 1) := by
  rcases Nat.eq_zero_or_pos b with hb | hb
  · subst hb
    unfold Rfc.ceilDiv
    by_cases hn : n = 0 <;> simp [hn]
  · rw [ceilDiv_eq n b hb]
    refine ⟨Iff.rfl, ?_, rfl⟩
    unfold Rfc.ceilDiv
    intro h
    by_cases h0 : n % b = 0
    · simp only [h0, beq_self_eq_true, if_true] at h
      have := Nat.div_add_mod n b
      rw [h, h0] at this; simpa using this.symm
    · simp [h0] at h

theorem dstNewXmd_eq (H : Bytes → Bytes) (dst : Bytes) :
    dstNewXmd H dst =
      if (Rfc.effectiveDst H dst).length > 255 then .panic else .ok (Rfc.effectiveDst H dst) := by
  unfold dstNewXmd Rfc.effectiveDst arrayVec255 maxDstLength
  rw [longDst_eq]
  by_cases h : dst.length > 255 <;> simp only [h, if_true, if_false]

/-- the model's expander is the RFC's `expand_message_xmd` with `s_in_bytes := blockSize` -/
theorem expandXmd_eq (H : Bytes → Bytes) (bLen s : Nat) (hs : s ≤ 256) (dst msg : Bytes) (n : Nat) :
    expandXmd H bLen s dst msg n = ofOpt (Rfc.expandMessageXmd H bLen s msg dst n) := by
  obtain ⟨he1, he2, he3⟩ := ell_rel n bLen
  unfold expandXmd Rfc.expandMessageXmd
  simp only [dstNewXmd_eq]
  by_cases hell : Rfc.ceilDiv n bLen > 255
  · simp [he1.2 hell, hell, ofOpt]
  · have hell' : ¬ (n + bLen - 1) / bLen > 255 := fun h => hell (he1.1 h)
    by_cases hd : (Rfc.effectiveDst H dst).length > 255
    · simp [hell', hd, ofOpt, obind]
    · by_cases hn : n < 65536
      · have hn' : ¬ n > 65535 := by omega
        have hs' : ¬ s > 256 := by omega
        simp only [hell', hell, hd, hn, hn', hs', if_false, obind, not_true_eq_false, or_self, dstUpdate]
        rw [i2osp_one _ (by omega), i2osp_zero, i2osp_two n hn, i2osp_one 0 (by decide)]
        simp only [Option.bind_eq_bind, Option.bind_some, ofOpt,
          blocksB_flatten H _ _ _ (Nat.le_of_not_gt hell), he3, Nat.zero_mod]
        by_cases h0 : Rfc.ceilDiv n bLen = 0
        · simp [he2 h0]
        · simp [h0]
      · have hn' : n > 65535 := by omega
        simp [hell', hell, hd, hn, hn', ofOpt, obind]
end xmd

section h2f

theorem extract_toList (b : Array Nat) (off len : Nat) :
    (b.extract off (off + len)).toList = (b.toList.drop off).take len := by
  simp [Array.toList_extract]

theorem getLenPerElem_eq (p k : Nat) : getLenPerElem (Rfc.ceilLog2 p) k = Rfc.paramL p k := by
  unfold getLenPerElem Rfc.paramL
  rw [← ceilDiv_eq _ 8 (by decide)]
  rfl

theorem zipIdx_sum_succ (l : List Nat) (k : Nat) :
    ((l.zipIdx (k + 1)).map fun (x, i) => x * 256 ^ i).sum =
      256 * ((l.zipIdx k).map fun (x, i) => x * 256 ^ i).sum := by
  induction l generalizing k with
  | nil => rfl
  | cons a l ih =>
    simp only [List.zipIdx_cons, List.map_cons, List.sum_cons, ih (k + 1)]
    rw [Nat.pow_succ]; ring

theorem rfc_os2ip_eq (b : Bytes) :
    Rfc.os2ip b = ((b.reverse.zipIdx).map fun (x, i) => x * 256 ^ i).sum := by
  cases b <;> rfl

theorem os2ip_eq (b : Bytes) : os2ip b = Rfc.os2ip b := by
  induction b using List.reverseRecOn with
  | nil => rfl
  | append_singleton b x ih =>
    rw [rfc_os2ip_eq] at ih ⊢
    unfold os2ip at ih ⊢
    rw [List.foldl_append, List.foldl_cons, List.foldl_nil, ih, List.reverse_append,
      List.reverse_singleton, List.singleton_append, List.zipIdx_cons, List.map_cons, List.sum_cons,
      zipIdx_sum_succ]
    simp only [Nat.pow_zero]
    ring

theorem omapM_ok {α β : Type} (f : α → Outcome β) (g : α → β) (l : List α)
    (h : ∀ a ∈ l, f a = .ok (g a)) : omapM f l = .ok (l.map g) := by
  induction l with
  | nil => rfl
  | cons a l ih =>
    rw [omapM, h a (List.mem_cons_self), ih (fun x hx => h x (List.mem_cons_of_mem _ hx))]
    rfl

theorem xmdLoop_length (H : Bytes → Bytes) (bLen : Nat) (hH : ∀ x, (H x).length = bLen) (b0 dp : Bytes) :
    ∀ (cnt i : Nat) (bi : Bytes), (xmdLoop H b0 dp cnt i bi).length = cnt * bLen := by
  intro cnt
  induction cnt with
  | zero => intros; simp [xmdLoop]
  | succ cnt ih =>
    intro i bi
    simp only [xmdLoop, List.length_append, hH, ih]
    ring

/-- with a hash of output size `bLen > 0` the expander returns exactly `n` bytes -/
theorem expandXmd_length (H : Bytes → Bytes) (bLen : Nat) (hH : ∀ x, (H x).length = bLen) (hb : 0 < bLen)
    (s : Nat) (dst msg : Bytes) (n : Nat) (b : Bytes) (h : expandXmd H bLen s dst msg n = .ok b) :
    b.length = n := by
  unfold expandXmd at h
  simp only at h
  split at h
  · cases h
  · cases hd : dstNewXmd H dst with
    | panic => rw [hd] at h; cases h
    | ok d =>
      rw [hd] at h
      simp only [obind] at h
      split at h
      · cases h
      · split at h
        · cases h
        · injection h with h
          subst h
          rw [List.length_take, List.length_append, hH, xmdLoop_length H bLen hH]
          apply Nat.min_eq_left
          have h1 : n ≤ (n + bLen - 1) / bLen * bLen := by
            have := Nat.div_add_mod (n + bLen - 1) bLen
            have hr := Nat.mod_lt (n + bLen - 1) hb
            rw [Nat.mul_comm] at this
            omega
          have h2 : (n + bLen - 1) / bLen * bLen ≤ bLen + ((n + bLen - 1) / bLen - 1) * bLen := by
            rcases Nat.eq_zero_or_pos ((n + bLen - 1) / bLen) with h0 | h0
            · rw [h0]; omega
            · generalize (n + bLen - 1) / bLen = e at h0 ⊢
              obtain ⟨e', rfl⟩ : ∃ e', e = e' + 1 := ⟨e - 1, by omega⟩
              rw [Nat.add_mul]; simp only [Nat.add_sub_cancel]; omega
          omega

theorem subSlice_ok (b : Array Nat) (off len : Nat) (h : off + len ≤ b.size) :
    subSlice b off len = .ok ((b.extract off (off + len)).toList) := by
  unfold subSlice
  rw [if_neg (by omega), if_neg (by omega)]

/-- the model's `hash_to_field` is the RFC's, run with `s_in_bytes := L` -/
theorem hashToField_eq (H : Bytes → Bytes) (bLen : Nat) (hH : ∀ x, (H x).length = bLen) (hb : 0 < bLen)
    (p m k N : Nat) (hL : Rfc.paramL p k ≤ 256) (dst msg : Bytes) :
    hashToField H bLen p (Rfc.ceilLog2 p) m k N dst msg =
      ofOpt (Rfc.hashToField H bLen (Rfc.paramL p k) p m k dst msg N) := by
  unfold hashToField Rfc.hashToField
  simp only [getLenPerElem_eq]
  have hx := expandXmd_eq H bLen (Rfc.paramL p k) hL dst msg (N * m * Rfc.paramL p k)
  cases hr : Rfc.expandMessageXmd H bLen (Rfc.paramL p k) msg dst (N * m * Rfc.paramL p k) with
  | none => rw [hr] at hx; rw [hx]; rfl
  | some ub =>
    rw [hr] at hx
    have hlen := expandXmd_length H bLen hH hb _ _ _ _ _ hx
    rw [hx]
    simp only [ofOpt, obind]
    apply omapM_ok
    intro i hi
    apply omapM_ok
    intro j hj
    rw [List.mem_range] at hi hj
    rw [subSlice_ok]
    simp only [os2ip_eq]
    rw [List.size_toArray, hlen]
    have h1 : j + i * m + 1 ≤ N * m := by
      have : (i + 1) * m ≤ N * m := Nat.mul_le_mul_right m hi
      rw [Nat.add_mul] at this; omega
    have := Nat.mul_le_mul_left (Rfc.paramL p k) h1
    rw [Nat.mul_add, Nat.mul_one, Nat.mul_comm _ (N * m)] at this
    exact this
end h2f

section sha
open Ark.Sha256 in
theorem beBytes_length (n x : Nat) : (Ark.Sha256.beBytes n x).length = n := by
  induction n generalizing x with
  | zero => rfl
  | succ n ih => simp [Ark.Sha256.beBytes, ih]

theorem compress_length (hs blk : List Ark.Sha256.Word) (h : hs.length = 8) :
    (Ark.Sha256.compress hs blk).length = 8 := by
  unfold Ark.Sha256.compress
  split
  · rfl
  · exact h

theorem blocks_length (fuel : Nat) (hs ws : List Ark.Sha256.Word) (h : hs.length = 8) :
    (Ark.Sha256.blocks fuel hs ws).length = 8 := by
  induction fuel generalizing hs ws with
  | zero => exact h
  | succ n ih =>
    unfold Ark.Sha256.blocks
    split
    · exact h
    · exact ih _ _ (compress_length _ _ h)

/-- the modelled SHA-256 returns 32 bytes -/
theorem sha256_length (msg : Ark.Sha256.Bytes) : (Ark.Sha256.sha256 msg).length = 32 := by
  unfold Ark.Sha256.sha256
  have h := blocks_length ((Ark.Sha256.toWords (Ark.Sha256.pad msg)).length / 16 + 1) Ark.Sha256.H0
    (Ark.Sha256.toWords (Ark.Sha256.pad msg)) rfl
  simp only
  generalize Ark.Sha256.blocks _ _ _ = l at h
  match l, h with
  | [a, b, c, d, e, f, g, i], _ => simp [beBytes_length]
end sha

/-! ## 4. the isogeny -/

section iso
variable {F : Type} [Field F] [DecidableEq F]

/-- Horner evaluation (low degree first) -/
def horner (cs : List F) (x : F) : F := cs.foldr (fun c r => r * x + c) 0

theorem polyEval_eq_horner (cs : List F) (x : F) : polyEval cs x = horner cs x := by
  unfold polyEval horner
  cases cs with
  | nil => rfl
  | cons c0 cs =>
    by_cases hx : x = 0
    · simp [hx]
    · simp only [if_neg hx]

omit [DecidableEq F] in
theorem horner_append (l r : List F) (x : F) :
    horner (l ++ r) x = horner l x + x ^ l.length * horner r x := by
  induction l with
  | nil => simp [horner]
  | cons c l ih =>
    have h1 : horner (c :: (l ++ r)) x = horner (l ++ r) x * x + c := rfl
    have h2 : horner (c :: l) x = horner l x * x + c := rfl
    rw [List.cons_append, h1, h2, ih, List.length_cons, pow_succ]; ring

omit [DecidableEq F] in
theorem horner_zeros (l : List F) (x : F) (h : ∀ c ∈ l, c = 0) : horner l x = 0 := by
  induction l with
  | nil => rfl
  | cons c l ih =>
    have h2 : horner (c :: l) x = horner l x * x + c := rfl
    rw [h2, ih (fun c hc => h c (List.mem_cons_of_mem _ hc)), h c (List.mem_cons_self)]; ring

theorem horner_polyOfSlice (cs : List F) (x : F) : horner (polyOfSlice cs) x = horner cs x := by
  have h := List.takeWhile_append_dropWhile (p := fun c : F => decide (c = 0)) (l := cs.reverse)
  have h' : cs = (cs.reverse.dropWhile (fun c => decide (c = 0))).reverse ++
      (cs.reverse.takeWhile (fun c => decide (c = 0))).reverse := by
    rw [← List.reverse_append, h, List.reverse_reverse]
  have hz : horner (cs.reverse.takeWhile (fun c => decide (c = 0))).reverse x = 0 := by
    apply horner_zeros
    intro c hc
    rw [List.mem_reverse] at hc
    simpa using List.mem_takeWhile_imp hc
  conv_rhs => rw [h', horner_append, hz, mul_zero, add_zero]
  rfl

omit [DecidableEq F] in
theorem evalPoly_fold (ks : List F) (x acc pw : F) :
    (ks.foldl (fun (acc : F × F) k => (acc.1 + k * acc.2, acc.2 * x)) (acc, pw)).1 =
      acc + pw * horner ks x := by
  induction ks generalizing acc pw with
  | nil => simp [horner]
  | cons k ks ih =>
    have h2 : horner (k :: ks) x = horner ks x * x + k := rfl
    rw [List.foldl_cons, ih, h2]; ring

omit [DecidableEq F] in
theorem evalPoly_eq_horner (ks : List F) (x : F) : Rfc.evalPoly ks x = horner ks x := by
  unfold Rfc.evalPoly
  rw [evalPoly_fold]; ring

/-- `DensePolynomial::from_coefficients_slice(cs).evaluate(x)` is `Σ cs_i x^i` -/
theorem polyEval_polyOfSlice (cs : List F) (x : F) :
    polyEval (polyOfSlice cs) x = Rfc.evalPoly cs x := by
  rw [polyEval_eq_horner, horner_polyOfSlice, evalPoly_eq_horner]

theorem batchInv_two (vx vy : F) (hx : vx ≠ 0) (hy : vy ≠ 0) :
    (opsOf (F := F)).batchInvMul [vx, vy] 1 = some [vx⁻¹, vy⁻¹] := by
  have hxy : (1 : F) * vx * vy ≠ 0 := by simp [hx, hy]
  simp only [Ops.batchInvMul, Ops.prefixProds, opsOf, hx, hy, decide_false, Bool.false_eq_true, if_false,
    List.getLast?_cons_cons, List.getLast?_singleton, Option.getD_some, if_neg hxy,
    List.reverse_cons, List.reverse_nil, List.nil_append, List.cons_append, List.drop_succ_cons,
    List.drop_zero, Ops.batchBack]
  congr 2
  · field_simp
  · congr 1; field_simp

/-- `IsogenyMap::apply` is the RFC's `iso_map` (identity exactly at the poles), never panics -/
theorem isoApply_eq (iso : Iso F) (x y : F) :
    isoApply iso (some (x, y)) = .ok (Rfc.isoMap iso (x, y)) := by
  unfold isoApply Rfc.isoMap
  simp only [polyEval_polyOfSlice]
  by_cases h : Rfc.evalPoly iso.xDen x = 0 ∨ Rfc.evalPoly iso.yDen x = 0
  · rw [if_pos h, if_pos h]
  · rw [if_neg h, if_neg h]
    rw [not_or] at h
    rw [batchInv_two _ _ h.1 h.2]
    refine congrArg (fun p => Outcome.ok (some p)) (Prod.ext ?_ ?_)
    · simp only [div_eq_mul_inv]
    · simp only [div_eq_mul_inv]; ring
end iso

section wb
variable {F : Type} [Field F] [DecidableEq F] {X : FieldX F}

/-- the image of a point of `E' : y² = x³ + a'x + b'` away from the poles lies on `E : y² = x³ + ax + b` -/
def IsoOnCurve (iso : Iso F) (a' b' a b : F) : Prop :=
  ∀ x y : F, y * y = x * x * x + a' * x + b' → ∀ x2 y2 : F, Rfc.isoMap iso (x, y) = some (x2, y2) →
    y2 * y2 = x2 * x2 * x2 + a * x2 + b

/-- the polynomial identity behind an isogeny given by `x ↦ xNum/xDen`, `y ↦ y·yNum/yDen`, evaluated pointwise:
    `(x³ + a'x + b')·yNum²·xDen³ = yDen²·(xNum³ + a·xNum·xDen² + b·xDen³)` -/
def IsoIdentity (iso : Iso F) (a' b' a b : F) : Prop :=
  ∀ x : F,
    (x * x * x + a' * x + b') * (Rfc.evalPoly iso.yNum x) ^ 2 * (Rfc.evalPoly iso.xDen x) ^ 3 =
      (Rfc.evalPoly iso.yDen x) ^ 2 *
        ((Rfc.evalPoly iso.xNum x) ^ 3 + a * Rfc.evalPoly iso.xNum x * (Rfc.evalPoly iso.xDen x) ^ 2 +
          b * (Rfc.evalPoly iso.xDen x) ^ 3)

theorem isoOnCurve_of_identity {iso : Iso F} {a' b' a b : F} (h : IsoIdentity iso a' b' a b) :
    IsoOnCurve iso a' b' a b := by
  intro x y hy x2 y2 hm
  have hid := h x
  unfold Rfc.isoMap at hm
  simp only at hm
  split at hm
  · cases hm
  · rename_i hne
    rw [not_or] at hne
    obtain ⟨hxd, hyd⟩ := hne
    injection hm with hm
    injection hm with h1 h2
    subst h1 h2
    generalize Rfc.evalPoly iso.xNum x = xn at *
    generalize Rfc.evalPoly iso.xDen x = xd at *
    generalize Rfc.evalPoly iso.yNum x = yn at *
    generalize Rfc.evalPoly iso.yDen x = yd at *
    field_simp
    linear_combination (yn ^ 2 * xd ^ 3) * hy + hid

theorem isoMap_onCurve {iso : Iso F} {a' b' a b : F} (h : IsoOnCurve iso a' b' a b) (x y : F)
    (hy : y * y = x * x * x + a' * x + b') : swOnCurve a b (Rfc.isoMap iso (x, y)) = true := by
  cases hm : Rfc.isoMap iso (x, y) with
  | none => rfl
  | some q =>
    obtain ⟨x2, y2⟩ := q
    simp only [swOnCurve, beq_iff_eq]
    exact h x y hy x2 y2 hm

/-- WB: for every `u` no panic; the result is `iso_map` of the SWU point, and lies on `E` -/
theorem wbMap_ok (hX : FieldXSound X) (hN : NonsqMul F) {a' b' ζ : F}
    (hp : Rfc.sswuParamsOk X a' b' ζ = true) (iso : Iso F) (u : F) :
    ∃ q, swuMap X a' b' ζ u = .ok q ∧ wbMap X a' b' ζ iso u = .ok (Rfc.isoMap iso q) ∧
      ∀ a b, IsoOnCurve iso a' b' a b → swOnCurve a b (Rfc.isoMap iso q) = true := by
  obtain ⟨x, y, h1, h2, _⟩ := swuMap_ok hX hN hp u
  refine ⟨(x, y), h1, ?_, fun a b hi => isoMap_onCurve hi x y h2⟩
  unfold wbMap
  rw [h1]
  exact isoApply_eq iso x y

theorem wbMap_eq_rfc (hX : FieldXSound X) (hP : ParitySound X) (hN : NonsqMul F) {a' b' ζ : F}
    (hp : Rfc.sswuParamsOk X a' b' ζ = true) (iso : Iso F) (u : F)
    (hgx : Rfc.sswuGx1 a' b' ζ u ≠ 0) :
    wbMap X a' b' ζ iso u = .ok (Rfc.isoMap iso (Rfc.sswu X a' b' ζ u)) := by
  unfold wbMap
  rw [swuMap_eq_rfc hX hP hN hp u hgx]
  exact isoApply_eq iso _ _
end wb

/-! ## 5. Elligator 2 -/

section ell
variable {F : Type} [Field F] [DecidableEq F] {X : FieldX F}

/-- the Montgomery-form polynomial `x³ + (J/K)x² + x/K²` -/
def gM (J K x : F) : F := x * x * x + (J / K) * (x * x) + x / (K * K)

/-- `x1` of steps 1–2 of RFC 9380 §6.7.1 -/
def ellX1 (J K Z u : F) : F :=
  let x1 := -(J / K) * Rfc.inv0 (1 + Z * (u * u))
  if x1 = 0 then -(J / K) else x1

/-- the RFC's map, `let`s unfolded -/
theorem elligator2_eval (J K Z u : F) :
    Rfc.elligator2 X J K Z u =
      (let x1 := ellX1 J K Z u
       let x2 := -x1 - J / K
       let xy : F × F :=
         if Rfc.isSquare X (gM J K x1) then
           (x1, if Rfc.sgn0F X (Rfc.sqrtOr0 X (gM J K x1)) == 1 then Rfc.sqrtOr0 X (gM J K x1)
                else -Rfc.sqrtOr0 X (gM J K x1))
         else
           (x2, if Rfc.sgn0F X (Rfc.sqrtOr0 X (gM J K x2)) == 0 then Rfc.sqrtOr0 X (gM J K x2)
                else -Rfc.sqrtOr0 X (gM J K x2))
       (xy.1 * K, xy.2 * K)) := rfl

/-- the model's `x1` is the RFC's -/
theorem ell_model_x1 {J K : F} (Z u : F) :
    -(J / K) / (if 1 + Z * (u * u) = 0 then 1 else 1 + Z * (u * u)) = ellX1 J K Z u := by
  unfold ellX1 Rfc.inv0
  by_cases hd : 1 + Z * (u * u) = 0
  · simp [hd]
  · simp only [if_neg hd]
    by_cases hj : -(J / K) * (1 + Z * (u * u))⁻¹ = 0
    · rw [if_pos hj, div_eq_mul_inv, hj]
      rcases mul_eq_zero.1 hj with h | h
      · exact h.symm
      · exact absurd (inv_eq_zero.1 h) hd
    · rw [if_neg hj, div_eq_mul_inv]

omit [Field F] [DecidableEq F] in
theorem sgn0F_eq_one (y : F) : (Rfc.sgn0F X y == 1) = parity X y := by
  unfold Rfc.sgn0F parity
  rw [sgn0_eq]; cases parityCoords (X.coords y) <;> rfl

omit [Field F] [DecidableEq F] in
theorem sgn0F_eq_zero (y : F) : (Rfc.sgn0F X y == 0) = !parity X y := by
  unfold Rfc.sgn0F parity
  rw [sgn0_eq]; cases parityCoords (X.coords y) <;> rfl

/-- value of the model, all `let`s unfolded (the Montgomery → Edwards part is `Rfc.montToEdwards`) -/
theorem ell2Map_eval {J K jOnK ksqInv : F} (hK : K ≠ 0) (hks : ksqInv * (K * K) = 1) (hj : jOnK * K = J)
    (Z u : F) :
    ell2Map X K jOnK ksqInv Z u =
      (let x1 := ellX1 J K Z u
       let x2 := -x1 - J / K
       match (if X.isQR (gM J K x1) then (x1, X.sqrt (gM J K x1), true)
              else (x2, X.sqrt (gM J K x2), false) : F × Option F × Bool) with
       | (_, none, _) => .panic
       | (x, some y0, s) =>
         .ok (Rfc.montToEdwards (x * K, (if parity X y0 != s then -y0 else y0) * K))) := by
  have hjk : jOnK = J / K := by rw [← hj]; field_simp
  have hki : ksqInv = 1 / (K * K) := by
    have : K * K ≠ 0 := mul_ne_zero hK hK
    rw [eq_div_iff this]; exact hks
  have hden : (if 1 + Z * (u * u) = 0 then (1 : F) else 1 + Z * (u * u)) ≠ 0 := by
    by_cases h : 1 + Z * (u * u) = 0
    · simp [h]
    · simp [h]
  have hg : ∀ x : F, x * x * x + J / K * (x * x) + x * (1 / (K * K)) = gM J K x := by
    intro x; unfold gM; ring
  subst hjk hki
  simp only [ell2Map, ell2MapB, divP, if_neg hden, obind, ell_model_x1, hg]
  cases hq : X.isQR (gM J K (ellX1 J K Z u))
  · simp only [Bool.false_eq_true, if_false]
    cases X.sqrt (gM J K (-ellX1 J K Z u - J / K)) with
    | none => rfl
    | some y0 =>
      simp only [Rfc.montToEdwards]
      congr 1
      generalize (-ellX1 J K Z u - J / K) * K = s
      generalize (if (parity X y0 != false) = true then -y0 else y0) * K = t
      by_cases ht : t = 0
      · simp [ht]
      · by_cases hs : s + 1 = 0
        · simp [hs]
        · have : (s + 1) * t ≠ 0 := mul_ne_zero hs ht
          simp only [if_neg this, ht, hs, or_self, if_false]
          refine Prod.ext ?_ ?_ <;> (simp only; field_simp)
  · simp only [if_true]
    cases X.sqrt (gM J K (ellX1 J K Z u)) with
    | none => rfl
    | some y0 =>
      simp only [Rfc.montToEdwards]
      congr 1
      generalize (ellX1 J K Z u) * K = s
      generalize (if (parity X y0 != true) = true then -y0 else y0) * K = t
      by_cases ht : t = 0
      · simp [ht]
      · by_cases hs : s + 1 = 0
        · simp [hs]
        · have : (s + 1) * t ≠ 0 := mul_ne_zero hs ht
          simp only [if_neg this, ht, hs, or_self, if_false]
          refine Prod.ext ?_ ?_ <;> (simp only; field_simp)
end ell

section ell2
variable {F : Type} [Field F] [DecidableEq F] {X : FieldX F}

theorem ellX1_eq (J K Z u : F) :
    ellX1 J K Z u = -(J / K) / (if 1 + Z * (u * u) = 0 then 1 else 1 + Z * (u * u)) :=
  (ell_model_x1 Z u).symm

/-- `g(x2) = Z u² g(x1)` (and `x2 = 0` in the exceptional case `1 + Z u² = 0`) -/
theorem ell_gx2 {J K : F} (hK : K ≠ 0) (Z u : F) :
    gM J K (-ellX1 J K Z u - J / K) =
      (if 1 + Z * (u * u) = 0 then 0 else Z * (u * u)) * gM J K (ellX1 J K Z u) := by
  rw [ellX1_eq]
  by_cases hd : 1 + Z * (u * u) = 0
  · simp only [if_pos hd]; unfold gM; ring
  · simp only [if_neg hd]
    generalize Z * (u * u) = w at hd ⊢
    unfold gM
    field_simp
    ring

/-- `gx1 = 0` forces `J = 0` -/
theorem ell_gx1_zero {J K Z : F} (hK : K ≠ 0) (hZ : ¬ IsSquare Z) (u : F)
    (h : gM J K (ellX1 J K Z u) = 0) : J = 0 := by
  by_contra hJ
  rw [ellX1_eq] at h
  by_cases hd : 1 + Z * (u * u) = 0
  · simp only [if_pos hd] at h
    unfold gM at h
    field_simp at h
    apply hJ
    have : J * 1 = 0 := by linear_combination (-1 : F) * h
    simpa using this
  · simp only [if_neg hd] at h
    generalize hw' : Z * (u * u) = w at hd h
    unfold gM at h
    field_simp at h
    have h2 : (1 + w) * (1 + w) = J * J * w := by
      have : J * ((1 + w) * (1 + w) - J * J * w) = 0 := by linear_combination (-1 : F) * h
      rcases mul_eq_zero.1 this with h0 | h0
      · exact absurd h0 hJ
      · linear_combination h0
    have hu : u ≠ 0 := by
      rintro rfl
      apply hd
      have : (1 + w) * (1 + w) = 0 := by rw [h2, ← hw']; ring
      exact mul_self_eq_zero.1 this
    apply hZ
    refine ⟨(1 + w) / (J * u), ?_⟩
    field_simp
    linear_combination (-1 : F) * h2 + (J * J) * hw'

theorem ellX1_J0 (K Z u : F) : ellX1 0 K Z u = 0 := by
  rw [ellX1_eq]; simp

/-- Appendix D.1: the image of a point of `K t² = s³ + J s² + s` lies on `a v² + w² = 1 + d v² w²` -/
theorem montToEdwards_onCurve {J K : F} (hK : K ≠ 0) (s t : F)
    (hM : K * (t * t) = s * s * s + J * (s * s) + s) :
    (J + 2) / K * (Rfc.montToEdwards (s, t)).1 * (Rfc.montToEdwards (s, t)).1 +
        (Rfc.montToEdwards (s, t)).2 * (Rfc.montToEdwards (s, t)).2 =
      1 + (J - 2) / K * (Rfc.montToEdwards (s, t)).1 * (Rfc.montToEdwards (s, t)).1 *
        (Rfc.montToEdwards (s, t)).2 * (Rfc.montToEdwards (s, t)).2 := by
  unfold Rfc.montToEdwards
  simp only
  by_cases h : t = 0 ∨ s + 1 = 0
  · rw [if_pos h]; simp
  · rw [if_neg h]
    rw [not_or] at h
    obtain ⟨ht, hs⟩ := h
    simp only
    field_simp
    linear_combination (-4 * s) * hM
end ell2

section ell3
variable {F : Type} [Field F] [DecidableEq F] {X : FieldX F}

omit [DecidableEq F] in
theorem sqrt_zero (hX : FieldXSound X) : ∃ r, X.sqrt 0 = some r ∧ r = 0 := by
  obtain ⟨r, hr⟩ := hX.sqrt_complete 0 ⟨0, by simp⟩
  exact ⟨r, hr, mul_self_eq_zero.1 (hX.sqrt_sound _ _ hr)⟩

/-- Elligator 2: the model never panics and agrees with the RFC; the Montgomery point is `(x K, y K)`
    with `y² = g(x)` -/
theorem ell2Map_char (hX : FieldXSound X) (hN : NonsqMul F) {J K Z jOnK ksqInv : F}
    (hZ : ¬ IsSquare Z) (hK : K ≠ 0) (hks : ksqInv * (K * K) = 1) (hj : jOnK * K = J) (u : F) :
    ∃ x y, ell2Map X K jOnK ksqInv Z u = .ok (Rfc.montToEdwards (x * K, y * K)) ∧
      Rfc.elligator2 X J K Z u = (x * K, y * K) ∧ y * y = gM J K x ∧
      (J ≠ 0 → gM J K (ellX1 J K Z u) ≠ 0) := by
  have hunreach : J ≠ 0 → gM J K (ellX1 J K Z u) ≠ 0 := fun hJ h => hJ (ell_gx1_zero hK hZ u h)
  rw [ell2Map_eval hK hks hj, elligator2_eval]
  simp only [sgn0F_eq_one, sgn0F_eq_zero, Rfc.isSquare]
  cases hq : X.isQR (gM J K (ellX1 J K Z u))
  · simp only [Bool.false_eq_true, if_false, Bool.or_false, decide_eq_true_eq]
    by_cases h0 : gM J K (ellX1 J K Z u) = 0
    · -- only for J = 0: everything is 0
      have hJ : J = 0 := ell_gx1_zero hK hZ u h0
      subst hJ
      obtain ⟨r, hr, hr0⟩ := sqrt_zero hX
      subst hr0
      have hg0 : gM (0 : F) K 0 = 0 := by simp [gM]
      simp only [ellX1_J0, zero_div, sub_zero, neg_zero, hg0, hr, Rfc.sqrtOr0, Option.getD_some,
        ite_self]
      exact ⟨0, 0, rfl, rfl, by simp [gM], fun h => absurd rfl h⟩
    · have hns : ¬ IsSquare (gM J K (ellX1 J K Z u)) := ((not_isQR_iff hX _).1 hq).resolve_left h0
      have hsq : IsSquare (gM J K (-ellX1 J K Z u - J / K)) := by
        rw [ell_gx2 hK]
        by_cases hd : 1 + Z * (u * u) = 0
        · rw [if_pos hd, zero_mul]; exact ⟨0, by simp⟩
        · rw [if_neg hd]
          obtain ⟨s, hs⟩ := hN _ _ hZ hns
          exact ⟨u * s, by linear_combination (u * u) * hs⟩
      obtain ⟨y0, hy0⟩ := hX.sqrt_complete _ hsq
      have hyy := hX.sqrt_sound _ _ hy0
      simp only [hy0, if_neg h0, Rfc.sqrtOr0, Option.getD_some]
      cases hpar : parity X y0
      · refine ⟨_, y0, ?_, ?_, hyy, hunreach⟩ <;> simp
      · refine ⟨_, -y0, ?_, ?_, by rw [← hyy]; ring, hunreach⟩ <;> simp
  · obtain ⟨hne, hsq⟩ := (hX.isQR_iff _).1 hq
    obtain ⟨y0, hy0⟩ := hX.sqrt_complete _ hsq
    have hyy := hX.sqrt_sound _ _ hy0
    simp only [if_true, Bool.or_true, hy0, Rfc.sqrtOr0, Option.getD_some]
    cases hpar : parity X y0
    · refine ⟨_, -y0, ?_, ?_, by rw [← hyy]; ring, hunreach⟩ <;> simp
    · refine ⟨_, y0, ?_, ?_, hyy, hunreach⟩ <;> simp

theorem ell2Map_eq_rfc (hX : FieldXSound X) (hN : NonsqMul F) {J K Z jOnK ksqInv : F}
    (hZ : ¬ IsSquare Z) (hK : K ≠ 0) (hks : ksqInv * (K * K) = 1) (hj : jOnK * K = J) (u : F) :
    ell2Map X K jOnK ksqInv Z u = .ok (Rfc.elligator2Edwards X J K Z u) := by
  obtain ⟨x, y, h1, h2, _, _⟩ := ell2Map_char hX hN hZ hK hks hj u
  rw [h1, Rfc.elligator2Edwards, h2]

theorem ell2Map_onCurve (hX : FieldXSound X) (hN : NonsqMul F) {J K Z jOnK ksqInv : F}
    (hZ : ¬ IsSquare Z) (hK : K ≠ 0) (hks : ksqInv * (K * K) = 1) (hj : jOnK * K = J) (u : F) :
    ∃ v w, ell2Map X K jOnK ksqInv Z u = .ok (v, w) ∧
      (J + 2) / K * v * v + w * w = 1 + (J - 2) / K * v * v * w * w := by
  obtain ⟨x, y, h1, _, h3, _⟩ := ell2Map_char hX hN hZ hK hks hj u
  refine ⟨_, _, h1, montToEdwards_onCurve hK _ _ ?_⟩
  unfold gM at h3
  field_simp at h3
  linear_combination K * h3
end ell3

section swu5
variable {F : Type} [Field F] [DecidableEq F]

/-- away from the exceptional case and from `gx1 = 0`, exactly one of `gx1`, `gx2` is a square -/
theorem swu_exactly_one (hN : NonsqMul F) {a b ζ : F} (ha : a ≠ 0) (hζ : ¬ IsSquare ζ) (u : F)
    (hta : ζ * ζ * (u * u * (u * u)) + ζ * (u * u) ≠ 0) (hgx : g a b (rfcX1 a b ζ u) ≠ 0) :
    IsSquare (g a b (ζ * (u * u) * rfcX1 a b ζ u)) ↔ ¬ IsSquare (g a b (rfcX1 a b ζ u)) := by
  rw [g_x2_eq ha u hta]
  have hz0 : ζ ≠ 0 := by rintro rfl; exact hζ ⟨0, by simp⟩
  have hu : u ≠ 0 := by rintro rfl; apply hta; ring
  constructor
  · rintro ⟨r, hr⟩ ⟨s, hs⟩
    have hs0 : s ≠ 0 := by rintro rfl; apply hgx; rw [hs]; ring
    apply hζ
    refine ⟨r / (ζ * (u * u * u) * s), ?_⟩
    field_simp
    rw [hs] at hr
    linear_combination hr
  · intro h
    obtain ⟨s, hs⟩ := hN _ _ hζ h
    exact ⟨ζ * (u * u * u) * s, by linear_combination (ζ * ζ * (u * u * u) * (u * u * u)) * hs⟩
end swu5

section extra
variable {F : Type} [Field F] [DecidableEq F] {X : FieldX F}

/-- the identity is returned exactly at the poles -/
theorem isoApply_none_iff (iso : Iso F) (x y : F) :
    isoApply iso (some (x, y)) = .ok none ↔
      (polyEval (polyOfSlice iso.xDen) x = 0 ∨ polyEval (polyOfSlice iso.yDen) x = 0) := by
  rw [isoApply_eq, polyEval_polyOfSlice, polyEval_polyOfSlice]
  unfold Rfc.isoMap
  simp only
  split
  · rename_i h; simp [h]
  · rename_i h; simp [h]

/-- `gx1 = 0` is unreachable in the model's Elligator 2 when `J ≠ 0` (stated on the model's own expressions) -/
theorem ell_model_gx1_ne_zero {J K Z jOnK ksqInv : F} (hZ : ¬ IsSquare Z) (hK : K ≠ 0)
    (hks : ksqInv * (K * K) = 1) (hj : jOnK * K = J) (hJ : J ≠ 0) (u : F) :
    let x1 := -jOnK / (if 1 + Z * (u * u) = 0 then 1 else 1 + Z * (u * u))
    x1 * x1 * x1 + jOnK * (x1 * x1) + x1 * ksqInv ≠ 0 := by
  have hjk : jOnK = J / K := by rw [← hj]; field_simp
  have hki : ksqInv = 1 / (K * K) := by
    have : K * K ≠ 0 := mul_ne_zero hK hK
    rw [eq_div_iff this]; exact hks
  subst hjk hki
  intro x1 h
  apply hJ
  apply ell_gx1_zero hK hZ u
  rw [← ell_model_x1]
  show gM J K x1 = 0
  unfold gM
  linear_combination h
end extra

end Ark.H2C.P
