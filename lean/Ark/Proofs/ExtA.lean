import Ark.Model.Ext
import Mathlib.Tactic.Ring
import Mathlib.Tactic.LinearCombination
import Mathlib.Algebra.Ring.Int.Defs
/-
  Ark.Proofs.ExtA — helper lemmas for property C02 (part A): the multiplication / squaring /
  sparse-multiplication routines of the extension-field templates (`Ark.Model.Ext`) compute the
  schoolbook product in `F[X]/(X² − β)` resp. `F[X]/(X³ − β)`.

  * `Quad.smul β`, `Cubic.smul β` : the schoolbook products (over core operator classes, so that they
    can be stacked exactly like the model: `Mul (Quad F) := ⟨Quad.smul β⟩` for the next layer).
  * `QuadCfg.Lawful β cfg`, `CubicCfg.Lawful β cfg` : the hooks of the configuration multiply by `β`
    and the constant `NONRESIDUE` is `β`.
  * `LawfulRing B` : the `Field` dictionary of the base computes `x*x`, `x+x`, `a0*b0+a1*b1`, `x * ofPrime e`.
  * `Quad.commRing β`, `Cubic.commRing β` : the schoolbook product makes `Quad F` / `Cubic F` a commutative
    ring whose `+ - neg 0 1` are *the model's instances* — this is what lets the one-layer theorems
    (stated over `[CommRing F]`) be applied at every layer of a tower.
-/
set_option linter.style.haveILetI false

namespace Ark.Ext
open Ark

/-! ## schoolbook products -/

/-- schoolbook product in `F[X]/(X² − β)` -/
def Quad.smul {F : Type} [Add F] [Mul F] (β : F) (a b : Quad F) : Quad F :=
  ⟨a.c0 * b.c0 + β * (a.c1 * b.c1), a.c0 * b.c1 + a.c1 * b.c0⟩

/-- schoolbook product in `F[X]/(X³ − β)`: coefficient `i` is `Σ_{j+l=i} a_j b_l + β Σ_{j+l=i+3} a_j b_l` -/
def Cubic.smul {F : Type} [Add F] [Mul F] (β : F) (a b : Cubic F) : Cubic F :=
  ⟨a.c0 * b.c0 + β * (a.c1 * b.c2 + a.c2 * b.c1),
   a.c0 * b.c1 + a.c1 * b.c0 + β * (a.c2 * b.c2),
   a.c0 * b.c2 + a.c1 * b.c1 + a.c2 * b.c0⟩

/-- the schoolbook product as the `Mul` of the layer (what the next layer up sees) -/
@[reducible] def Quad.sMul {F : Type} [Add F] [Mul F] (β : F) : Mul (Quad F) := ⟨Quad.smul β⟩
@[reducible] def Cubic.sMul {F : Type} [Add F] [Mul F] (β : F) : Mul (Cubic F) := ⟨Cubic.smul β⟩

/-! ## lawfulness hypotheses -/

/-- the hooks of a `QuadExtConfig` multiply by `β`, and `NONRESIDUE = β` -/
structure QuadCfg.Lawful {F : Type} [Add F] [Sub F] [Mul F] (β : F) (cfg : QuadCfg F) : Prop where
  nonresidue_eq : cfg.nonresidue = β
  mulNr_eq : ∀ x, cfg.mulNr x = β * x
  mulNrAndAdd_eq : ∀ y x, cfg.mulNrAndAdd y x = x + β * y
  mulNrPlusOneAndAdd_eq : ∀ y x, cfg.mulNrPlusOneAndAdd y x = x + β * y + y
  subAndMulNr_eq : ∀ y x, cfg.subAndMulNr y x = x - β * y

/-- the hook of a `CubicExtConfig` multiplies by `β`, and `NONRESIDUE = β` -/
structure CubicCfg.Lawful {F : Type} [Mul F] (β : F) (cfg : CubicCfg F) : Prop where
  nonresidue_eq : cfg.nonresidue = β
  mulNr_eq : ∀ x, cfg.mulNr x = β * x

/-- the `Field` dictionary of the base computes the ring operations -/
structure LawfulRing {P F : Type} [Add F] [Mul F] (B : FieldD P F) : Prop where
  square_eq : ∀ x, B.square x = x * x
  double_eq : ∀ x, B.double x = x + x
  sop2_eq : ∀ a0 a1 b0 b1, B.sop2 a0 a1 b0 b1 = a0 * b0 + a1 * b1
  mulByPrime_eq : ∀ x e, B.mulByPrime x e = x * B.ofPrime e

/-- a ring seen as its own prime field (for examples: `ℤ`, `ZMod 7`) -/
def ringD (F : Type) [Add F] [Mul F] : FieldD F F where
  extDeg := 1
  square := fun a => a * a
  double := fun a => a + a
  inverse := fun _ => .ok none
  frob := fun a _ => .ok a
  mulByPrime := fun a e => a * e
  ofPrime := fun e => e
  toPrimes := fun a => [a]
  fromPrimes := fun l => match l with
    | [x] => some x
    | _ => none
  sop2 := fun a0 a1 b0 b1 => a0 * b0 + a1 * b1

theorem ringD_lawful (F : Type) [Add F] [Mul F] : LawfulRing (ringD F) :=
  ⟨fun _ => rfl, fun _ => rfl, fun _ _ _ _ => rfl, fun _ _ => rfl⟩

/-! ## projections of the model's instances (all `rfl`) -/
section proj
variable {F : Type}

theorem Quad.ext' {a b : Quad F} (h0 : a.c0 = b.c0) (h1 : a.c1 = b.c1) : a = b := by
  cases a; cases b; simp_all

theorem Cubic.ext' {a b : Cubic F} (h0 : a.c0 = b.c0) (h1 : a.c1 = b.c1) (h2 : a.c2 = b.c2) : a = b := by
  cases a; cases b; simp_all

@[simp] theorem Quad.add_c0 [Add F] (a b : Quad F) : (a + b).c0 = a.c0 + b.c0 := rfl
@[simp] theorem Quad.add_c1 [Add F] (a b : Quad F) : (a + b).c1 = a.c1 + b.c1 := rfl
@[simp] theorem Quad.sub_c0 [Sub F] (a b : Quad F) : (a - b).c0 = a.c0 - b.c0 := rfl
@[simp] theorem Quad.sub_c1 [Sub F] (a b : Quad F) : (a - b).c1 = a.c1 - b.c1 := rfl
@[simp] theorem Quad.neg_c0 [Neg F] (a : Quad F) : (-a).c0 = -a.c0 := rfl
@[simp] theorem Quad.neg_c1 [Neg F] (a : Quad F) : (-a).c1 = -a.c1 := rfl
@[simp] theorem Quad.zero_c0 [Zero F] : (0 : Quad F).c0 = 0 := rfl
@[simp] theorem Quad.zero_c1 [Zero F] : (0 : Quad F).c1 = 0 := rfl
@[simp] theorem Quad.one_c0 [Zero F] [One F] : (1 : Quad F).c0 = 1 := rfl
@[simp] theorem Quad.one_c1 [Zero F] [One F] : (1 : Quad F).c1 = 0 := rfl
@[simp] theorem Quad.smul_c0 [Add F] [Mul F] (β : F) (a b : Quad F) :
    (Quad.smul β a b).c0 = a.c0 * b.c0 + β * (a.c1 * b.c1) := rfl
@[simp] theorem Quad.smul_c1 [Add F] [Mul F] (β : F) (a b : Quad F) :
    (Quad.smul β a b).c1 = a.c0 * b.c1 + a.c1 * b.c0 := rfl

@[simp] theorem Cubic.add_c0 [Add F] (a b : Cubic F) : (a + b).c0 = a.c0 + b.c0 := rfl
@[simp] theorem Cubic.add_c1 [Add F] (a b : Cubic F) : (a + b).c1 = a.c1 + b.c1 := rfl
@[simp] theorem Cubic.add_c2 [Add F] (a b : Cubic F) : (a + b).c2 = a.c2 + b.c2 := rfl
@[simp] theorem Cubic.sub_c0 [Sub F] (a b : Cubic F) : (a - b).c0 = a.c0 - b.c0 := rfl
@[simp] theorem Cubic.sub_c1 [Sub F] (a b : Cubic F) : (a - b).c1 = a.c1 - b.c1 := rfl
@[simp] theorem Cubic.sub_c2 [Sub F] (a b : Cubic F) : (a - b).c2 = a.c2 - b.c2 := rfl
@[simp] theorem Cubic.neg_c0 [Neg F] (a : Cubic F) : (-a).c0 = -a.c0 := rfl
@[simp] theorem Cubic.neg_c1 [Neg F] (a : Cubic F) : (-a).c1 = -a.c1 := rfl
@[simp] theorem Cubic.neg_c2 [Neg F] (a : Cubic F) : (-a).c2 = -a.c2 := rfl
@[simp] theorem Cubic.zero_c0 [Zero F] : (0 : Cubic F).c0 = 0 := rfl
@[simp] theorem Cubic.zero_c1 [Zero F] : (0 : Cubic F).c1 = 0 := rfl
@[simp] theorem Cubic.zero_c2 [Zero F] : (0 : Cubic F).c2 = 0 := rfl
@[simp] theorem Cubic.one_c0 [Zero F] [One F] : (1 : Cubic F).c0 = 1 := rfl
@[simp] theorem Cubic.one_c1 [Zero F] [One F] : (1 : Cubic F).c1 = 0 := rfl
@[simp] theorem Cubic.one_c2 [Zero F] [One F] : (1 : Cubic F).c2 = 0 := rfl
@[simp] theorem Cubic.smul_c0 [Add F] [Mul F] (β : F) (a b : Cubic F) :
    (Cubic.smul β a b).c0 = a.c0 * b.c0 + β * (a.c1 * b.c2 + a.c2 * b.c1) := rfl
@[simp] theorem Cubic.smul_c1 [Add F] [Mul F] (β : F) (a b : Cubic F) :
    (Cubic.smul β a b).c1 = a.c0 * b.c1 + a.c1 * b.c0 + β * (a.c2 * b.c2) := rfl
@[simp] theorem Cubic.smul_c2 [Add F] [Mul F] (β : F) (a b : Cubic F) :
    (Cubic.smul β a b).c2 = a.c0 * b.c2 + a.c1 * b.c1 + a.c2 * b.c0 := rfl

end proj

/-! ## the schoolbook product makes each layer a commutative ring (with the model's `+ - neg 0 1`) -/
section rings
variable {F : Type} [CommRing F]

macro "quad_ring" : tactic => `(tactic|
  (apply Quad.ext' <;>
    simp only [Quad.smul_c0, Quad.smul_c1, Quad.add_c0, Quad.add_c1, Quad.sub_c0, Quad.sub_c1,
      Quad.neg_c0, Quad.neg_c1, Quad.zero_c0, Quad.zero_c1, Quad.one_c0, Quad.one_c1] <;> ring))

macro "cubic_ring" : tactic => `(tactic|
  (apply Cubic.ext' <;>
    simp only [Cubic.smul_c0, Cubic.smul_c1, Cubic.smul_c2, Cubic.add_c0, Cubic.add_c1, Cubic.add_c2,
      Cubic.sub_c0, Cubic.sub_c1, Cubic.sub_c2, Cubic.neg_c0, Cubic.neg_c1, Cubic.neg_c2,
      Cubic.zero_c0, Cubic.zero_c1, Cubic.zero_c2, Cubic.one_c0, Cubic.one_c1, Cubic.one_c2] <;> ring))

theorem Quad.add_assoc' (a b c : Quad F) : a + b + c = a + (b + c) := by quad_ring
theorem Quad.zero_add' (a : Quad F) : 0 + a = a := by quad_ring
theorem Quad.add_zero' (a : Quad F) : a + 0 = a := by quad_ring
theorem Quad.add_comm' (a b : Quad F) : a + b = b + a := by quad_ring
theorem Quad.neg_add_cancel' (a : Quad F) : -a + a = 0 := by quad_ring
theorem Quad.sub_eq_add_neg' (a b : Quad F) : a - b = a + -b := by quad_ring
theorem Quad.smul_assoc (β : F) (a b c : Quad F) :
    Quad.smul β (Quad.smul β a b) c = Quad.smul β a (Quad.smul β b c) := by quad_ring
theorem Quad.smul_comm (β : F) (a b : Quad F) : Quad.smul β a b = Quad.smul β b a := by quad_ring
theorem Quad.one_smul (β : F) (a : Quad F) : Quad.smul β 1 a = a := by quad_ring
theorem Quad.smul_one (β : F) (a : Quad F) : Quad.smul β a 1 = a := by quad_ring
theorem Quad.zero_smul (β : F) (a : Quad F) : Quad.smul β 0 a = 0 := by quad_ring
theorem Quad.smul_zero (β : F) (a : Quad F) : Quad.smul β a 0 = 0 := by quad_ring
theorem Quad.smul_add (β : F) (a b c : Quad F) :
    Quad.smul β a (b + c) = Quad.smul β a b + Quad.smul β a c := by quad_ring
theorem Quad.add_smul (β : F) (a b c : Quad F) :
    Quad.smul β (a + b) c = Quad.smul β a c + Quad.smul β b c := by quad_ring

theorem Cubic.add_assoc' (a b c : Cubic F) : a + b + c = a + (b + c) := by cubic_ring
theorem Cubic.zero_add' (a : Cubic F) : 0 + a = a := by cubic_ring
theorem Cubic.add_zero' (a : Cubic F) : a + 0 = a := by cubic_ring
theorem Cubic.add_comm' (a b : Cubic F) : a + b = b + a := by cubic_ring
theorem Cubic.neg_add_cancel' (a : Cubic F) : -a + a = 0 := by cubic_ring
theorem Cubic.sub_eq_add_neg' (a b : Cubic F) : a - b = a + -b := by cubic_ring
theorem Cubic.smul_assoc (β : F) (a b c : Cubic F) :
    Cubic.smul β (Cubic.smul β a b) c = Cubic.smul β a (Cubic.smul β b c) := by cubic_ring
theorem Cubic.smul_comm (β : F) (a b : Cubic F) : Cubic.smul β a b = Cubic.smul β b a := by cubic_ring
theorem Cubic.one_smul (β : F) (a : Cubic F) : Cubic.smul β 1 a = a := by cubic_ring
theorem Cubic.smul_one (β : F) (a : Cubic F) : Cubic.smul β a 1 = a := by cubic_ring
theorem Cubic.zero_smul (β : F) (a : Cubic F) : Cubic.smul β 0 a = 0 := by cubic_ring
theorem Cubic.smul_zero (β : F) (a : Cubic F) : Cubic.smul β a 0 = 0 := by cubic_ring
theorem Cubic.smul_add (β : F) (a b c : Cubic F) :
    Cubic.smul β a (b + c) = Cubic.smul β a b + Cubic.smul β a c := by cubic_ring
theorem Cubic.add_smul (β : F) (a b c : Cubic F) :
    Cubic.smul β (a + b) c = Cubic.smul β a c + Cubic.smul β b c := by cubic_ring

/-- `F[X]/(X² − β)` on the carrier `Quad F`; `add`, `sub`, `neg`, `0`, `1` are the model's instances -/
@[reducible] def Quad.commRing (β : F) : CommRing (Quad F) where
  add := (· + ·)
  zero := 0
  neg := Neg.neg
  sub := (· - ·)
  mul := Quad.smul β
  one := 1
  nsmul := nsmulRec
  zsmul := zsmulRec
  add_assoc := Quad.add_assoc'
  zero_add := Quad.zero_add'
  add_zero := Quad.add_zero'
  add_comm := Quad.add_comm'
  neg_add_cancel := Quad.neg_add_cancel'
  sub_eq_add_neg := Quad.sub_eq_add_neg'
  mul_assoc := Quad.smul_assoc β
  one_mul := Quad.one_smul β
  mul_one := Quad.smul_one β
  zero_mul := Quad.zero_smul β
  mul_zero := Quad.smul_zero β
  left_distrib := Quad.smul_add β
  right_distrib := Quad.add_smul β
  mul_comm := Quad.smul_comm β

/-- `F[X]/(X³ − β)` on the carrier `Cubic F`; `add`, `sub`, `neg`, `0`, `1` are the model's instances -/
@[reducible] def Cubic.commRing (β : F) : CommRing (Cubic F) where
  add := (· + ·)
  zero := 0
  neg := Neg.neg
  sub := (· - ·)
  mul := Cubic.smul β
  one := 1
  nsmul := nsmulRec
  zsmul := zsmulRec
  add_assoc := Cubic.add_assoc'
  zero_add := Cubic.zero_add'
  add_zero := Cubic.add_zero'
  add_comm := Cubic.add_comm'
  neg_add_cancel := Cubic.neg_add_cancel'
  sub_eq_add_neg := Cubic.sub_eq_add_neg'
  mul_assoc := Cubic.smul_assoc β
  one_mul := Cubic.one_smul β
  mul_one := Cubic.smul_one β
  zero_mul := Cubic.zero_smul β
  mul_zero := Cubic.smul_zero β
  left_distrib := Cubic.smul_add β
  right_distrib := Cubic.add_smul β
  mul_comm := Cubic.smul_comm β

end rings

/-! ## one layer: `mul` / `square` of the templates are the schoolbook product -/
section layer
variable {P F : Type} [CommRing F]

/-- `Quad.mul`, `sum_of_products` branch (`extension_degree() == 2`) -/
theorem Quad.mul_sop {β : F} {cfg : QuadCfg F} (hm : ∀ x, cfg.mulNr x = β * x) {B : FieldD P F}
    (hs : ∀ a0 a1 b0 b1, B.sop2 a0 a1 b0 b1 = a0 * b0 + a1 * b1) (hd : B.extDeg = 1) (a b : Quad F) :
    Quad.mul cfg B a b = Quad.smul β a b := by
  unfold Quad.mul Quad.smul
  rw [if_pos (by rw [hd]; rfl)]
  simp only [hm, hs]
  congr 1; ring

/-- `Quad.mul`, Karatsuba branch: only the hook `mul_base_field_by_nonresidue_and_add` is used -/
theorem Quad.mul_karatsuba {β : F} {cfg : QuadCfg F} (hk : ∀ y x, cfg.mulNrAndAdd y x = x + β * y)
    {B : FieldD P F} (hd : B.extDeg ≠ 1) (a b : Quad F) :
    Quad.mul cfg B a b = Quad.smul β a b := by
  unfold Quad.mul Quad.smul
  rw [if_neg (by intro h; exact hd (by have := eq_of_beq h; omega))]
  simp only [hk]
  congr 1; ring

theorem Quad.mul_eq_smul {β : F} {cfg : QuadCfg F} (h : cfg.Lawful β) {B : FieldD P F} (hB : LawfulRing B)
    (a b : Quad F) : Quad.mul cfg B a b = Quad.smul β a b := by
  by_cases hd : B.extDeg = 1
  · exact Quad.mul_sop h.mulNr_eq hB.sop2_eq hd a b
  · exact Quad.mul_karatsuba h.mulNrAndAdd_eq hd a b

/-- `Quad.square`, complex-squaring branch (`NONRESIDUE == -1`): no hook is used -/
theorem Quad.square_complex [DecidableEq F] {cfg : QuadCfg F} (hn : cfg.nonresidue = -1) {B : FieldD P F}
    (hdb : ∀ x, B.double x = x + x) (a : Quad F) :
    Quad.square cfg B a = Quad.smul (-1) a a := by
  unfold Quad.square Quad.smul
  rw [if_pos hn]
  simp only [hdb]
  congr 1 <;> ring

/-- `Quad.square`, general branch: the hooks `sub_and_mul…`, `…plus_one_and_add` are used -/
theorem Quad.square_general [DecidableEq F] {β : F} {cfg : QuadCfg F} (hn : cfg.nonresidue ≠ -1)
    (h1 : ∀ y x, cfg.subAndMulNr y x = x - β * y)
    (h2 : ∀ y x, cfg.mulNrPlusOneAndAdd y x = x + β * y + y) {B : FieldD P F}
    (hdb : ∀ x, B.double x = x + x) (a : Quad F) :
    Quad.square cfg B a = Quad.smul β a a := by
  unfold Quad.square Quad.smul
  rw [if_neg hn]
  simp only [hdb, h1, h2]
  congr 1 <;> ring

theorem Quad.square_eq_smul [DecidableEq F] {β : F} {cfg : QuadCfg F} (h : cfg.Lawful β) {B : FieldD P F}
    (hB : LawfulRing B) (a : Quad F) : Quad.square cfg B a = Quad.smul β a a := by
  by_cases hn : cfg.nonresidue = -1
  · have hβ : β = -1 := h.nonresidue_eq ▸ hn
    rw [hβ]; exact Quad.square_complex hn hB.double_eq a
  · exact Quad.square_general hn h.subAndMulNr_eq h.mulNrPlusOneAndAdd_eq hB.double_eq a

/-- cubic Karatsuba -/
theorem Cubic.mul_eq_smul {β : F} {cfg : CubicCfg F} (hm : ∀ x, cfg.mulNr x = β * x) (s o : Cubic F) :
    Cubic.mul cfg s o = Cubic.smul β s o := by
  unfold Cubic.mul Cubic.smul
  simp only [hm]
  congr 1 <;> ring

/-- Chung–Hasan SQR2 -/
theorem Cubic.square_eq_smul {β : F} {cfg : CubicCfg F} (hm : ∀ x, cfg.mulNr x = β * x) {B : FieldD P F}
    (hsq : ∀ x, B.square x = x * x) (hdb : ∀ x, B.double x = x + x) (x : Cubic F) :
    Cubic.square cfg B x = Cubic.smul β x x := by
  unfold Cubic.square Cubic.smul
  simp only [hm, hsq, hdb]
  congr 1 <;> ring

end layer

/-! ## the model's product as the `Mul` instance of a layer = the schoolbook instance -/
section inst
variable {P F : Type} [CommRing F]

theorem Quad.sMul_mul {F : Type} [Add F] [Mul F] (β : F) (a b : Quad F) :
    @HMul.hMul _ _ _ (@instHMul _ (Quad.sMul β)) a b = Quad.smul β a b := rfl

theorem Cubic.sMul_mul {F : Type} [Add F] [Mul F] (β : F) (a b : Cubic F) :
    @HMul.hMul _ _ _ (@instHMul _ (Cubic.sMul β)) a b = Cubic.smul β a b := rfl

theorem Quad.mulInst_eq {β : F} {cfg : QuadCfg F} (h : cfg.Lawful β) {B : FieldD P F} (hB : LawfulRing B) :
    (⟨Quad.mul cfg B⟩ : Mul (Quad F)) = Quad.sMul β := by
  unfold Quad.sMul; congr; funext a b; exact Quad.mul_eq_smul h hB a b

theorem Cubic.mulInst_eq {β : F} {cfg : CubicCfg F} (hm : ∀ x, cfg.mulNr x = β * x) :
    (⟨Cubic.mul cfg⟩ : Mul (Cubic F)) = Cubic.sMul β := by
  unfold Cubic.sMul; congr; funext a b; exact Cubic.mul_eq_smul hm a b

end inst

/-! ## sparse multiplications of `fp6_3over2.rs` / `fp12_2over3over2.rs` (`G` = the Fp2 layer) -/
section sparse12
variable {P G : Type} [CommRing G]

macro "tower_ring" : tactic => `(tactic|
  (simp only [Quad.smul_c0, Quad.smul_c1, Quad.add_c0, Quad.add_c1, Quad.sub_c0, Quad.sub_c1,
      Quad.neg_c0, Quad.neg_c1, Quad.zero_c0, Quad.zero_c1, Quad.one_c0, Quad.one_c1,
      Quad.sMul_mul, Cubic.sMul_mul,
      Cubic.smul_c0, Cubic.smul_c1, Cubic.smul_c2, Cubic.add_c0, Cubic.add_c1, Cubic.add_c2,
      Cubic.sub_c0, Cubic.sub_c1, Cubic.sub_c2, Cubic.neg_c0, Cubic.neg_c1, Cubic.neg_c2,
      Cubic.zero_c0, Cubic.zero_c1, Cubic.zero_c2, Cubic.one_c0, Cubic.one_c1, Cubic.one_c2] <;> ring))

theorem Fp6b.mulBy01_eq {ξ : G} {c : Fp6bCfg G} (hm : ∀ x, c.mulNr x = ξ * x) (s : Cubic G) (c0 c1 : G) :
    Fp6b.mulBy01 c s c0 c1 = Cubic.smul ξ s ⟨c0, c1, 0⟩ := by
  unfold Fp6b.mulBy01 Cubic.smul
  simp only [hm]
  congr 1 <;> ring

theorem Fp6b.mulBy1_eq {ξ : G} {c : Fp6bCfg G} (hm : ∀ x, c.mulNr x = ξ * x) (s : Cubic G) (c1 : G) :
    Fp6b.mulBy1 c s c1 = Cubic.smul ξ s ⟨0, c1, 0⟩ := by
  unfold Fp6b.mulBy1 Cubic.smul
  simp only [hm]
  congr 1 <;> ring

/-- the rotation hook of Fp12 is multiplication by `v = ⟨0,1,0⟩` in `G[v]/(v³ − ξ)` -/
theorem Fp12.mulFp6ByNr_eq {ξ : G} {c6 : Fp6bCfg G} (hm : ∀ x, c6.mulNr x = ξ * x) (x : Cubic G) :
    Fp12.mulFp6ByNr c6 x = Cubic.smul ξ ⟨0, 1, 0⟩ x := by
  unfold Fp12.mulFp6ByNr Cubic.smul
  simp only [hm]
  congr 1 <;> ring

theorem Fp12.mulBy034_eq_smul {ξ : G} {c6 : Fp6bCfg G} (hm : ∀ x, c6.mulNr x = ξ * x)
    (s : Quad (Cubic G)) (c0 c3 c4 : G) :
    Fp12.mulBy034 c6 s c0 c3 c4
      = @Quad.smul (Cubic G) _ (Cubic.sMul ξ) ⟨0, 1, 0⟩ s ⟨⟨c0, 0, 0⟩, ⟨c3, c4, 0⟩⟩ := by
  unfold Fp12.mulBy034
  simp only [Fp6b.mulBy01_eq hm, Fp12.mulFp6ByNr_eq hm]
  apply Quad.ext' <;> apply Cubic.ext' <;> tower_ring

theorem Fp12.mulBy014_eq_smul {ξ : G} {c6 : Fp6bCfg G} (hm : ∀ x, c6.mulNr x = ξ * x)
    (s : Quad (Cubic G)) (c0 c1 c4 : G) :
    Fp12.mulBy014 c6 s c0 c1 c4
      = @Quad.smul (Cubic G) _ (Cubic.sMul ξ) ⟨0, 1, 0⟩ s ⟨⟨c0, c1, 0⟩, ⟨0, c4, 0⟩⟩ := by
  unfold Fp12.mulBy014
  simp only [Fp6b.mulBy01_eq hm, Fp6b.mulBy1_eq hm, Fp12.mulFp6ByNr_eq hm]
  apply Quad.ext' <;> apply Cubic.ext' <;> tower_ring

end sparse12

/-! ## lawful configurations -/
section cfgs
variable {F : Type} [CommRing F]

/-- the trait-default hooks are lawful as soon as `mul_base_field_by_nonresidue_in_place` is -/
theorem QuadCfg.ofMulNr_lawful {nr : F} {f : F → F} (hf : ∀ x, f x = nr * x) (mfc : F → Nat → Outcome F) :
    (QuadCfg.ofMulNr nr f mfc).Lawful nr :=
  ⟨rfl, hf, fun y x => by show f y + x = _; rw [hf]; ring,
    fun y x => by show f y + x + y = _; rw [hf]; ring, fun y x => by show x - f y = _; rw [hf]⟩

/-- … and only then: `Lawful β` forces `NONRESIDUE = β` and the overridable hook to multiply by `β` -/
theorem QuadCfg.ofMulNr_lawful_iff {β nr : F} {f : F → F} (mfc : F → Nat → Outcome F) :
    (QuadCfg.ofMulNr nr f mfc).Lawful β ↔ nr = β ∧ ∀ x, f x = β * x := by
  constructor
  · intro h; exact ⟨h.nonresidue_eq, h.mulNr_eq⟩
  · rintro ⟨rfl, hf⟩; exact QuadCfg.ofMulNr_lawful hf mfc

theorem Fp2Cfg.default_wrap_lawful (nr : F) (tbl : List F) : (Fp2Cfg.default nr tbl).wrap.Lawful nr :=
  ⟨rfl, fun x => by show x * nr = _; ring, fun y x => by show y * nr + x = _; ring,
    fun y x => by show y * nr + x + y = _; ring, fun y x => by show x - y * nr = _; ring⟩

/-- the `bls12_381::Fq2Config` overrides are lawful exactly for `NONRESIDUE = -1` -/
theorem Fp2Cfg.negOne_wrap_lawful_iff (β nr : F) (tbl : List F) :
    (Fp2Cfg.negOne nr tbl).wrap.Lawful β ↔ nr = -1 ∧ β = -1 := by
  constructor
  · intro h
    have h1 : -(1 : F) = β * 1 := h.mulNr_eq 1
    have hβ : β = -1 := by rw [mul_one] at h1; exact h1.symm
    exact ⟨h.nonresidue_eq.trans hβ, hβ⟩
  · rintro ⟨rfl, rfl⟩
    exact ⟨rfl, fun x => by show -x = _; ring, fun y x => by show -y + x = _; ring,
      fun y x => by show x = _; ring, fun y x => by show y + x = _; ring⟩

theorem Fp2Cfg.negOne_wrap_lawful {nr : F} (h : nr = -1) (tbl : List F) :
    (Fp2Cfg.negOne nr tbl).wrap.Lawful (-1) :=
  (Fp2Cfg.negOne_wrap_lawful_iff (-1) nr tbl).2 ⟨h, rfl⟩

theorem Fp3Cfg.default_wrap_lawful (nr : F) (c1 c2 : List F) : (Fp3Cfg.default nr c1 c2).wrap.Lawful nr :=
  ⟨rfl, fun x => by show x * nr = _; ring⟩

theorem Fp6bCfg.default_wrap_lawful (nr : F) (c1 c2 : List F) : (Fp6bCfg.default nr c1 c2).wrap.Lawful nr :=
  ⟨rfl, fun x => by show x * nr = _; ring⟩

/-- the override of `test-curves/src/bls12_381/fq6.rs`: `(c0, c1) ↦ (c0 - c1, c1 + c0)`
    (`Ark.DrvC02.mkFp6bCfg "bls"` is this record at `F = Fp p`) -/
def Fp6bCfg.bls {F : Type} [Add F] [Sub F] (nr : Quad F) (c1 c2 : List (Quad F)) : Fp6bCfg (Quad F) where
  nonresidue := nr
  frobC1 := c1
  frobC2 := c2
  mulNr := fun fe => ⟨fe.c0 - fe.c1, fe.c1 + fe.c0⟩

/-- the bls12-381 `Fq6Config` override is lawful for `ξ = 1 + u` over `F[u]/(u² + 1)` -/
theorem Fp6bCfg.bls_wrap_lawful {nr : Quad F} (h : nr = ⟨1, 1⟩) (c1 c2 : List (Quad F)) :
    letI := Quad.sMul (-1 : F)
    (Fp6bCfg.bls nr c1 c2).wrap.Lawful ⟨1, 1⟩ :=
  letI := Quad.sMul (-1 : F)
  ⟨h, fun x => by
    show (⟨x.c0 - x.c1, x.c1 + x.c0⟩ : Quad F) = Quad.smul (-1) ⟨1, 1⟩ x
    unfold Quad.smul; congr 1 <;> ring⟩

/-- … and for no other inner non-residue: lawfulness of the override forces `u² = -1` -/
theorem Fp6bCfg.bls_wrap_lawful_iff (β2 : F) (ξ nr : Quad F) (c1 c2 : List (Quad F)) :
    letI := Quad.sMul β2
    (Fp6bCfg.bls nr c1 c2).wrap.Lawful ξ ↔ β2 = -1 ∧ ξ = ⟨1, 1⟩ ∧ nr = ⟨1, 1⟩ := by
  letI := Quad.sMul β2
  constructor
  · intro h
    have h1 : (⟨1 - 0, 0 + 1⟩ : Quad F) = Quad.smul β2 ξ ⟨1, 0⟩ := h.mulNr_eq ⟨1, 0⟩
    have hξ : ξ = ⟨1, 1⟩ := by
      apply Quad.ext'
      · have := congrArg Quad.c0 h1; simp only [Quad.smul_c0] at this
        linear_combination (-1 : F) * this
      · have := congrArg Quad.c1 h1; simp only [Quad.smul_c1] at this
        linear_combination (-1 : F) * this
    have h2 : (⟨0 - 1, 1 + 0⟩ : Quad F) = Quad.smul β2 ξ ⟨0, 1⟩ := h.mulNr_eq ⟨0, 1⟩
    have hβ : β2 = -1 := by
      have := congrArg Quad.c0 h2; rw [hξ] at this; simp only [Quad.smul_c0] at this
      linear_combination (-1 : F) * this
    exact ⟨hβ, hξ, h.nonresidue_eq.trans hξ⟩
  · rintro ⟨rfl, rfl, h⟩; exact Fp6bCfg.bls_wrap_lawful h c1 c2

end cfgs

/-! ## the rotation hooks of Fp4 / Fp6 (2-over-3) / Fp12, and the lawfulness of their configurations -/
section rot
variable {P F : Type} [CommRing F]

/-- the hook of Fp4 is multiplication by `u = ⟨0,1⟩` in `F[u]/(u² − β)` -/
theorem Fp4.mulFp2ByNr_eq {β : F} {c2 : Fp2Cfg F} (hm : ∀ x, c2.mulNr x = β * x) (x : Quad F) :
    Fp4.mulFp2ByNr c2 x = Quad.smul β ⟨0, 1⟩ x := by
  unfold Fp4.mulFp2ByNr Quad.smul
  simp only [hm]
  congr 1 <;> ring

/-- the hook of Fp6 (2-over-3) is multiplication by `v = ⟨0,1,0⟩` in `F[v]/(v³ − β)` -/
theorem Fp6a.mulFp3ByNr_eq {β : F} {c3 : Fp3Cfg F} (hm : ∀ x, c3.mulNr x = β * x) (x : Cubic F) :
    Fp6a.mulFp3ByNr c3 x = Cubic.smul β ⟨0, 1, 0⟩ x := by
  unfold Fp6a.mulFp3ByNr Cubic.smul
  simp only [hm]
  congr 1 <;> ring

/-- in a commutative ring with the model's `1`: `γ·x = β·x` for all `x` iff `γ = β` -/
theorem Quad.smul_left_inj (β2 : F) (γ β : Quad F) :
    (∀ x, Quad.smul β2 γ x = Quad.smul β2 β x) ↔ γ = β :=
  ⟨fun h => by have := h 1; rwa [Quad.smul_one, Quad.smul_one] at this, fun h _ => by rw [h]⟩

theorem Cubic.smul_left_inj (β3 : F) (γ β : Cubic F) :
    (∀ x, Cubic.smul β3 γ x = Cubic.smul β3 β x) ↔ γ = β :=
  ⟨fun h => by have := h 1; rwa [Cubic.smul_one, Cubic.smul_one] at this, fun h _ => by rw [h]⟩

/-- `Fp4ConfigWrapper` is a lawful configuration of `(F[u]/(u²−β₂))[w]/(w² − β)` iff `β = u` and the
    constant `Fp4Config::NONRESIDUE` is `u` -/
theorem Fp4.cfg_lawful_iff {β2 : F} {c2 : Fp2Cfg F} (hm : ∀ x, c2.mulNr x = β2 * x)
    (β nr : Quad F) (tbl : List F) :
    letI := Quad.sMul β2
    (Fp4.cfg c2 nr tbl).Lawful β ↔ nr = ⟨0, 1⟩ ∧ β = ⟨0, 1⟩ := by
  letI := Quad.commRing β2
  unfold Fp4.cfg
  refine (@QuadCfg.ofMulNr_lawful_iff (Quad F) (Quad.commRing β2) β nr _ _).trans ?_
  simp only [Fp4.mulFp2ByNr_eq hm]
  rw [show (∀ x : Quad F, Quad.smul β2 ⟨0, 1⟩ x = β * x) ↔ (⟨0, 1⟩ : Quad F) = β from
    Quad.smul_left_inj β2 ⟨0, 1⟩ β]
  constructor
  · rintro ⟨h1, h2⟩; exact ⟨h1.trans h2.symm, h2.symm⟩
  · rintro ⟨h1, h2⟩; exact ⟨h1.trans h2.symm, h2.symm⟩

theorem Fp6a.cfg_lawful_iff {β3 : F} {c3 : Fp3Cfg F} (hm : ∀ x, c3.mulNr x = β3 * x)
    (β nr : Cubic F) (tbl : List F) :
    letI := Cubic.sMul β3
    (Fp6a.cfg c3 nr tbl).Lawful β ↔ nr = ⟨0, 1, 0⟩ ∧ β = ⟨0, 1, 0⟩ := by
  letI := Cubic.commRing β3
  unfold Fp6a.cfg
  refine (@QuadCfg.ofMulNr_lawful_iff (Cubic F) (Cubic.commRing β3) β nr _ _).trans ?_
  simp only [Fp6a.mulFp3ByNr_eq hm]
  rw [show (∀ x : Cubic F, Cubic.smul β3 ⟨0, 1, 0⟩ x = β * x) ↔ (⟨0, 1, 0⟩ : Cubic F) = β from
    Cubic.smul_left_inj β3 ⟨0, 1, 0⟩ β]
  constructor
  · rintro ⟨h1, h2⟩; exact ⟨h1.trans h2.symm, h2.symm⟩
  · rintro ⟨h1, h2⟩; exact ⟨h1.trans h2.symm, h2.symm⟩

theorem Fp12.cfg_lawful_iff {ξ : F} {c6 : Fp6bCfg F} (hm : ∀ x, c6.mulNr x = ξ * x)
    (β nr : Cubic F) (tbl : List F) :
    letI := Cubic.sMul ξ
    (Fp12.cfg c6 nr tbl).Lawful β ↔ nr = ⟨0, 1, 0⟩ ∧ β = ⟨0, 1, 0⟩ := by
  letI := Cubic.commRing ξ
  unfold Fp12.cfg
  refine (@QuadCfg.ofMulNr_lawful_iff (Cubic F) (Cubic.commRing ξ) β nr _ _).trans ?_
  simp only [Fp12.mulFp6ByNr_eq hm]
  rw [show (∀ x : Cubic F, Cubic.smul ξ ⟨0, 1, 0⟩ x = β * x) ↔ (⟨0, 1, 0⟩ : Cubic F) = β from
    Cubic.smul_left_inj ξ ⟨0, 1, 0⟩ β]
  constructor
  · rintro ⟨h1, h2⟩; exact ⟨h1.trans h2.symm, h2.symm⟩
  · rintro ⟨h1, h2⟩; exact ⟨h1.trans h2.symm, h2.symm⟩

end rot

/-! ## the `Field` dictionary of a layer is lawful for the schoolbook ring of that layer -/
section dict
variable {P F : Type} [CommRing F] [DecidableEq F]

theorem Quad.fieldD_lawfulRing {β : F} {cfg : QuadCfg F} (h : cfg.Lawful β) {B : FieldD P F}
    (hB : LawfulRing B) :
    letI := Quad.sMul β
    LawfulRing (Quad.fieldD cfg B) :=
  letI := Quad.sMul β
  { square_eq := fun x => Quad.square_eq_smul h hB x
    double_eq := fun x => by
      show Quad.double B x = x + x
      unfold Quad.double; simp only [hB.double_eq]; rfl
    sop2_eq := fun a0 a1 b0 b1 => by
      show (0 + Quad.mul cfg B a0 b0) + Quad.mul cfg B a1 b1 = Quad.smul β a0 b0 + Quad.smul β a1 b1
      rw [Quad.zero_add', Quad.mul_eq_smul h hB, Quad.mul_eq_smul h hB]
    mulByPrime_eq := fun x e => by
      show Quad.mulByPrime B x e = Quad.smul β x ⟨B.ofPrime e, 0⟩
      unfold Quad.mulByPrime Quad.smul; simp only [hB.mulByPrime_eq]; congr 1 <;> ring }

theorem Cubic.fieldD_lawfulRing {β : F} {cfg : CubicCfg F} (hm : ∀ x, cfg.mulNr x = β * x) {B : FieldD P F}
    (hB : LawfulRing B) :
    letI := Cubic.sMul β
    LawfulRing (Cubic.fieldD cfg B) :=
  letI := Cubic.sMul β
  { square_eq := fun x => Cubic.square_eq_smul hm hB.square_eq hB.double_eq x
    double_eq := fun x => by
      show Cubic.double B x = x + x
      unfold Cubic.double; simp only [hB.double_eq]; rfl
    sop2_eq := fun a0 a1 b0 b1 => by
      show (0 + Cubic.mul cfg a0 b0) + Cubic.mul cfg a1 b1 = Cubic.smul β a0 b0 + Cubic.smul β a1 b1
      rw [Cubic.zero_add', Cubic.mul_eq_smul hm, Cubic.mul_eq_smul hm]
    mulByPrime_eq := fun x e => by
      show Cubic.mulByPrime B x e = Cubic.smul β x ⟨B.ofPrime e, 0, 0⟩
      unfold Cubic.mulByPrime Cubic.smul; simp only [hB.mulByPrime_eq]; congr 1 <;> ring }

end dict

/-! ## towers: schoolbook product modulo the defining binomial at each layer -/
section towers
variable {P F : Type}

/-- schoolbook product in `(F[u]/(u²−β₂))[w]/(w²−β₄)` -/
def Fp4.smul [Add F] [Mul F] (β2 : F) (β4 : Quad F) (a b : Quad (Quad F)) : Quad (Quad F) :=
  letI := Quad.sMul β2
  Quad.smul β4 a b

/-- schoolbook product in `(F[v]/(v³−β₃))[w]/(w²−β₆)` -/
def Fp6a.smul [Add F] [Mul F] (β3 : F) (β6 : Cubic F) (a b : Quad (Cubic F)) : Quad (Cubic F) :=
  letI := Cubic.sMul β3
  Quad.smul β6 a b

/-- schoolbook product in `(F[u]/(u²−β₂))[v]/(v³−ξ)` -/
def Fp6b.smul [Add F] [Mul F] (β2 : F) (ξ : Quad F) (a b : Cubic (Quad F)) : Cubic (Quad F) :=
  letI := Quad.sMul β2
  Cubic.smul ξ a b

/-- schoolbook product in `((F[u]/(u²−β₂))[v]/(v³−ξ))[w]/(w²−β₁₂)` -/
def Fp12.smul [Add F] [Mul F] (β2 : F) (ξ : Quad F) (β12 : Cubic (Quad F))
    (a b : Quad (Cubic (Quad F))) : Quad (Cubic (Quad F)) :=
  letI := Quad.sMul β2
  letI := Cubic.sMul ξ
  Quad.smul β12 a b

variable [CommRing F]

/-! ### Fp4 = Quad (Quad F) -/

theorem Fp4.mul_eq_smul [DecidableEq F] {β2 : F} {c2 : Fp2Cfg F} (h2 : c2.wrap.Lawful β2) {B : FieldD P F} (hB : LawfulRing B)
    (nr : Quad F) (tbl : List F) (a b : Quad (Quad F)) :
    letI : Mul (Quad F) := ⟨Quad.mul c2.wrap B⟩
    Quad.mul (Fp4.cfg c2 nr tbl) (Quad.fieldD c2.wrap B) a b = Fp4.smul β2 ⟨0, 1⟩ a b := by
  rw [Quad.mulInst_eq h2 hB]
  letI := Quad.sMul β2
  have hk := ((Fp4.cfg_lawful_iff (c2 := c2) h2.mulNr_eq ⟨0, 1⟩ ⟨0, 1⟩ tbl).2 ⟨rfl, rfl⟩).mulNrAndAdd_eq
  have hd : (Quad.fieldD c2.wrap B).extDeg ≠ 1 := by show 2 * B.extDeg ≠ 1; omega
  exact @Quad.mul_karatsuba P (Quad F) (Quad.commRing β2) ⟨0, 1⟩ (Fp4.cfg c2 nr tbl) hk _ hd a b

theorem Fp4.square_eq_smul [DecidableEq F] {β2 : F} {c2 : Fp2Cfg F} (h2 : c2.wrap.Lawful β2) {B : FieldD P F}
    (hB : LawfulRing B) (tbl : List F) (a : Quad (Quad F)) :
    letI : Mul (Quad F) := ⟨Quad.mul c2.wrap B⟩
    Quad.square (Fp4.cfg c2 ⟨0, 1⟩ tbl) (Quad.fieldD c2.wrap B) a = Fp4.smul β2 ⟨0, 1⟩ a a := by
  rw [Quad.mulInst_eq h2 hB]
  letI := Quad.sMul β2
  have h4 := (Fp4.cfg_lawful_iff (c2 := c2) h2.mulNr_eq ⟨0, 1⟩ ⟨0, 1⟩ tbl).2 ⟨rfl, rfl⟩
  exact @Quad.square_eq_smul P (Quad F) (Quad.commRing β2) _ ⟨0, 1⟩ _ h4 _
    (Quad.fieldD_lawfulRing h2 hB) a

/-! ### Fp6 (2-over-3) = Quad (Cubic F) -/

theorem Fp6a.mul_eq_smul [DecidableEq F] {β3 : F} {c3 : Fp3Cfg F} (hm : ∀ x, c3.mulNr x = β3 * x) (B : FieldD P F)
    (nr : Cubic F) (tbl : List F) (a b : Quad (Cubic F)) :
    letI : Mul (Cubic F) := ⟨Cubic.mul c3.wrap⟩
    Quad.mul (Fp6a.cfg c3 nr tbl) (Cubic.fieldD c3.wrap B) a b = Fp6a.smul β3 ⟨0, 1, 0⟩ a b := by
  rw [Cubic.mulInst_eq (cfg := c3.wrap) hm]
  letI := Cubic.sMul β3
  have hk := ((Fp6a.cfg_lawful_iff (c3 := c3) hm ⟨0, 1, 0⟩ ⟨0, 1, 0⟩ tbl).2 ⟨rfl, rfl⟩).mulNrAndAdd_eq
  have hd : (Cubic.fieldD c3.wrap B).extDeg ≠ 1 := by show 3 * B.extDeg ≠ 1; omega
  exact @Quad.mul_karatsuba P (Cubic F) (Cubic.commRing β3) ⟨0, 1, 0⟩ (Fp6a.cfg c3 nr tbl) hk _ hd a b

theorem Fp6a.square_eq_smul [DecidableEq F] {β3 : F} {c3 : Fp3Cfg F} (hm : ∀ x, c3.mulNr x = β3 * x) {B : FieldD P F}
    (hB : LawfulRing B) (tbl : List F) (a : Quad (Cubic F)) :
    letI : Mul (Cubic F) := ⟨Cubic.mul c3.wrap⟩
    Quad.square (Fp6a.cfg c3 ⟨0, 1, 0⟩ tbl) (Cubic.fieldD c3.wrap B) a = Fp6a.smul β3 ⟨0, 1, 0⟩ a a := by
  rw [Cubic.mulInst_eq (cfg := c3.wrap) hm]
  letI := Cubic.sMul β3
  have h6 := (Fp6a.cfg_lawful_iff (c3 := c3) hm ⟨0, 1, 0⟩ ⟨0, 1, 0⟩ tbl).2 ⟨rfl, rfl⟩
  exact @Quad.square_eq_smul P (Cubic F) (Cubic.commRing β3) _ ⟨0, 1, 0⟩ _ h6 _
    (Cubic.fieldD_lawfulRing (cfg := c3.wrap) hm hB) a

theorem Fp6a.mulBy034_eq_smul (β3 : F) (s : Quad (Cubic F)) (x0 x3 x4 : F) :
    Fp6a.mulBy034 β3 s x0 x3 x4 = Fp6a.smul β3 ⟨0, 1, 0⟩ s ⟨⟨x0, 0, 0⟩, ⟨x3, x4, 0⟩⟩ := by
  unfold Fp6a.mulBy034 Fp6a.smul
  apply Quad.ext' <;> apply Cubic.ext' <;> tower_ring

theorem Fp6a.mulBy014_eq_smul (β3 : F) (s : Quad (Cubic F)) (x0 x1 x4 : F) :
    Fp6a.mulBy014 β3 s x0 x1 x4 = Fp6a.smul β3 ⟨0, 1, 0⟩ s ⟨⟨x0, x1, 0⟩, ⟨0, x4, 0⟩⟩ := by
  unfold Fp6a.mulBy014 Fp6a.smul
  apply Quad.ext' <;> apply Cubic.ext' <;> tower_ring

/-! ### Fp6 (3-over-2) = Cubic (Quad F) -/

theorem Fp6b.mul_eq_smul {β2 : F} {c2 : Fp2Cfg F} (h2 : c2.wrap.Lawful β2) {B : FieldD P F} (hB : LawfulRing B)
    {ξ : Quad F} {c6 : Fp6bCfg (Quad F)} (hm : ∀ x, c6.mulNr x = Quad.smul β2 ξ x) (a b : Cubic (Quad F)) :
    letI : Mul (Quad F) := ⟨Quad.mul c2.wrap B⟩
    Cubic.mul c6.wrap a b = Fp6b.smul β2 ξ a b := by
  rw [Quad.mulInst_eq h2 hB]
  exact @Cubic.mul_eq_smul (Quad F) (Quad.commRing β2) ξ _ hm a b

theorem Fp6b.square_eq_smul [DecidableEq F] {β2 : F} {c2 : Fp2Cfg F} (h2 : c2.wrap.Lawful β2) {B : FieldD P F}
    (hB : LawfulRing B) {ξ : Quad F} {c6 : Fp6bCfg (Quad F)} (hm : ∀ x, c6.mulNr x = Quad.smul β2 ξ x)
    (a : Cubic (Quad F)) :
    letI : Mul (Quad F) := ⟨Quad.mul c2.wrap B⟩
    Cubic.square c6.wrap (Quad.fieldD c2.wrap B) a = Fp6b.smul β2 ξ a a := by
  rw [Quad.mulInst_eq h2 hB]
  have hD := Quad.fieldD_lawfulRing h2 hB
  letI := Quad.sMul β2
  exact @Cubic.square_eq_smul P (Quad F) (Quad.commRing β2) ξ _ hm _ hD.square_eq hD.double_eq a

/-- the dictionary of Fp6 (3-over-2) is lawful for the schoolbook ring `Cubic (Quad F)` -/
theorem Fp6b.fieldD_lawfulRing [DecidableEq F] {β2 : F} {c2 : Fp2Cfg F} (h2 : c2.wrap.Lawful β2) {B : FieldD P F}
    (hB : LawfulRing B) {ξ : Quad F} {c6 : Fp6bCfg (Quad F)} (hm : ∀ x, c6.mulNr x = Quad.smul β2 ξ x) :
    letI := Quad.sMul β2
    letI := Cubic.sMul ξ
    LawfulRing (Cubic.fieldD c6.wrap (Quad.fieldD c2.wrap B)) :=
  @Cubic.fieldD_lawfulRing P (Quad F) (Quad.commRing β2) _ ξ _ hm _ (Quad.fieldD_lawfulRing h2 hB)

/-! ### Fp12 = Quad (Cubic (Quad F)) -/

theorem Fp12.mul_eq_smul [DecidableEq F] {β2 : F} {c2 : Fp2Cfg F} (h2 : c2.wrap.Lawful β2) {B : FieldD P F} (hB : LawfulRing B)
    {ξ : Quad F} {c6 : Fp6bCfg (Quad F)} (hm : ∀ x, c6.mulNr x = Quad.smul β2 ξ x)
    (nr : Cubic (Quad F)) (tbl : List (Quad F)) (a b : Quad (Cubic (Quad F))) :
    letI : Mul (Quad F) := ⟨Quad.mul c2.wrap B⟩
    letI : Mul (Cubic (Quad F)) := ⟨Cubic.mul c6.wrap⟩
    Quad.mul (Fp12.cfg c6 nr tbl) (Cubic.fieldD c6.wrap (Quad.fieldD c2.wrap B)) a b
      = Fp12.smul β2 ξ ⟨0, 1, 0⟩ a b := by
  rw [Quad.mulInst_eq h2 hB]
  rw [@Cubic.mulInst_eq (Quad F) (Quad.commRing β2) ξ _ hm]
  letI := Quad.commRing β2
  letI := Cubic.sMul ξ
  have hk := ((Fp12.cfg_lawful_iff (c6 := c6) hm ⟨0, 1, 0⟩ ⟨0, 1, 0⟩ tbl).2 ⟨rfl, rfl⟩).mulNrAndAdd_eq
  have hd : (Cubic.fieldD c6.wrap (Quad.fieldD c2.wrap B)).extDeg ≠ 1 := by
    show 3 * (2 * B.extDeg) ≠ 1; omega
  exact @Quad.mul_karatsuba P (Cubic (Quad F)) (Cubic.commRing ξ) ⟨0, 1, 0⟩ (Fp12.cfg c6 nr tbl) hk _ hd a b

theorem Fp12.square_eq_smul [DecidableEq F] {β2 : F} {c2 : Fp2Cfg F} (h2 : c2.wrap.Lawful β2) {B : FieldD P F}
    (hB : LawfulRing B) {ξ : Quad F} {c6 : Fp6bCfg (Quad F)} (hm : ∀ x, c6.mulNr x = Quad.smul β2 ξ x)
    (tbl : List (Quad F)) (a : Quad (Cubic (Quad F))) :
    letI : Mul (Quad F) := ⟨Quad.mul c2.wrap B⟩
    letI : Mul (Cubic (Quad F)) := ⟨Cubic.mul c6.wrap⟩
    Quad.square (Fp12.cfg c6 ⟨0, 1, 0⟩ tbl) (Cubic.fieldD c6.wrap (Quad.fieldD c2.wrap B)) a
      = Fp12.smul β2 ξ ⟨0, 1, 0⟩ a a := by
  rw [Quad.mulInst_eq h2 hB]
  rw [@Cubic.mulInst_eq (Quad F) (Quad.commRing β2) ξ _ hm]
  have hD := Fp6b.fieldD_lawfulRing h2 hB hm
  letI := Quad.commRing β2
  letI := Cubic.sMul ξ
  have h12 := (Fp12.cfg_lawful_iff (c6 := c6) hm ⟨0, 1, 0⟩ ⟨0, 1, 0⟩ tbl).2 ⟨rfl, rfl⟩
  exact @Quad.square_eq_smul P (Cubic (Quad F)) (Cubic.commRing ξ) _ ⟨0, 1, 0⟩ _ h12 _ hD a

/-! ### sparse multiplications inside the towers (the model's own `Mul` instances) -/

theorem Fp6a.mulBy034_eq_mul [DecidableEq F] {β3 : F} {c3 : Fp3Cfg F} (hm : ∀ x, c3.mulNr x = β3 * x)
    (B : FieldD P F) (nr : Cubic F) (tbl : List F) (s : Quad (Cubic F)) (x0 x3 x4 : F) :
    letI : Mul (Cubic F) := ⟨Cubic.mul c3.wrap⟩
    Fp6a.mulBy034 β3 s x0 x3 x4
      = Quad.mul (Fp6a.cfg c3 nr tbl) (Cubic.fieldD c3.wrap B) s ⟨⟨x0, 0, 0⟩, ⟨x3, x4, 0⟩⟩ :=
  (Fp6a.mulBy034_eq_smul β3 s x0 x3 x4).trans (Fp6a.mul_eq_smul hm B nr tbl s _).symm

theorem Fp6a.mulBy014_eq_mul [DecidableEq F] {β3 : F} {c3 : Fp3Cfg F} (hm : ∀ x, c3.mulNr x = β3 * x)
    (B : FieldD P F) (nr : Cubic F) (tbl : List F) (s : Quad (Cubic F)) (x0 x1 x4 : F) :
    letI : Mul (Cubic F) := ⟨Cubic.mul c3.wrap⟩
    Fp6a.mulBy014 β3 s x0 x1 x4
      = Quad.mul (Fp6a.cfg c3 nr tbl) (Cubic.fieldD c3.wrap B) s ⟨⟨x0, x1, 0⟩, ⟨0, x4, 0⟩⟩ :=
  (Fp6a.mulBy014_eq_smul β3 s x0 x1 x4).trans (Fp6a.mul_eq_smul hm B nr tbl s _).symm

theorem Fp6b.mulBy01_tower {β2 : F} {c2 : Fp2Cfg F} (h2 : c2.wrap.Lawful β2) {B : FieldD P F}
    (hB : LawfulRing B) {ξ : Quad F} {c6 : Fp6bCfg (Quad F)} (hm : ∀ x, c6.mulNr x = Quad.smul β2 ξ x)
    (s : Cubic (Quad F)) (c0 c1 : Quad F) :
    letI : Mul (Quad F) := ⟨Quad.mul c2.wrap B⟩
    Fp6b.mulBy01 c6 s c0 c1 = Fp6b.smul β2 ξ s ⟨c0, c1, ⟨0, 0⟩⟩ := by
  rw [Quad.mulInst_eq h2 hB]
  exact @Fp6b.mulBy01_eq (Quad F) (Quad.commRing β2) ξ c6 hm s c0 c1

theorem Fp6b.mulBy1_tower {β2 : F} {c2 : Fp2Cfg F} (h2 : c2.wrap.Lawful β2) {B : FieldD P F}
    (hB : LawfulRing B) {ξ : Quad F} {c6 : Fp6bCfg (Quad F)} (hm : ∀ x, c6.mulNr x = Quad.smul β2 ξ x)
    (s : Cubic (Quad F)) (c1 : Quad F) :
    letI : Mul (Quad F) := ⟨Quad.mul c2.wrap B⟩
    Fp6b.mulBy1 c6 s c1 = Fp6b.smul β2 ξ s ⟨⟨0, 0⟩, c1, ⟨0, 0⟩⟩ := by
  rw [Quad.mulInst_eq h2 hB]
  exact @Fp6b.mulBy1_eq (Quad F) (Quad.commRing β2) ξ c6 hm s c1

theorem Fp12.mulBy034_tower {β2 : F} {c2 : Fp2Cfg F} (h2 : c2.wrap.Lawful β2) {B : FieldD P F}
    (hB : LawfulRing B) {ξ : Quad F} {c6 : Fp6bCfg (Quad F)} (hm : ∀ x, c6.mulNr x = Quad.smul β2 ξ x)
    (s : Quad (Cubic (Quad F))) (c0 c3 c4 : Quad F) :
    letI : Mul (Quad F) := ⟨Quad.mul c2.wrap B⟩
    Fp12.mulBy034 c6 s c0 c3 c4
      = Fp12.smul β2 ξ ⟨0, 1, 0⟩ s ⟨⟨c0, ⟨0, 0⟩, ⟨0, 0⟩⟩, ⟨c3, c4, ⟨0, 0⟩⟩⟩ := by
  rw [Quad.mulInst_eq h2 hB]
  exact @Fp12.mulBy034_eq_smul (Quad F) (Quad.commRing β2) ξ c6 hm s c0 c3 c4

theorem Fp12.mulBy014_tower {β2 : F} {c2 : Fp2Cfg F} (h2 : c2.wrap.Lawful β2) {B : FieldD P F}
    (hB : LawfulRing B) {ξ : Quad F} {c6 : Fp6bCfg (Quad F)} (hm : ∀ x, c6.mulNr x = Quad.smul β2 ξ x)
    (s : Quad (Cubic (Quad F))) (c0 c1 c4 : Quad F) :
    letI : Mul (Quad F) := ⟨Quad.mul c2.wrap B⟩
    Fp12.mulBy014 c6 s c0 c1 c4
      = Fp12.smul β2 ξ ⟨0, 1, 0⟩ s ⟨⟨c0, c1, ⟨0, 0⟩⟩, ⟨⟨0, 0⟩, c4, ⟨0, 0⟩⟩⟩ := by
  rw [Quad.mulInst_eq h2 hB]
  exact @Fp12.mulBy014_eq_smul (Quad F) (Quad.commRing β2) ξ c6 hm s c0 c1 c4

theorem Fp12.mulBy034_eq_mul [DecidableEq F] {β2 : F} {c2 : Fp2Cfg F} (h2 : c2.wrap.Lawful β2)
    {B : FieldD P F} (hB : LawfulRing B) {ξ : Quad F} {c6 : Fp6bCfg (Quad F)}
    (hm : ∀ x, c6.mulNr x = Quad.smul β2 ξ x) (nr : Cubic (Quad F)) (tbl : List (Quad F))
    (s : Quad (Cubic (Quad F))) (c0 c3 c4 : Quad F) :
    letI : Mul (Quad F) := ⟨Quad.mul c2.wrap B⟩
    letI : Mul (Cubic (Quad F)) := ⟨Cubic.mul c6.wrap⟩
    Fp12.mulBy034 c6 s c0 c3 c4
      = Quad.mul (Fp12.cfg c6 nr tbl) (Cubic.fieldD c6.wrap (Quad.fieldD c2.wrap B)) s
          ⟨⟨c0, 0, 0⟩, ⟨c3, c4, 0⟩⟩ :=
  (Fp12.mulBy034_tower h2 hB hm s c0 c3 c4).trans (Fp12.mul_eq_smul h2 hB hm nr tbl s _).symm

theorem Fp12.mulBy014_eq_mul [DecidableEq F] {β2 : F} {c2 : Fp2Cfg F} (h2 : c2.wrap.Lawful β2)
    {B : FieldD P F} (hB : LawfulRing B) {ξ : Quad F} {c6 : Fp6bCfg (Quad F)}
    (hm : ∀ x, c6.mulNr x = Quad.smul β2 ξ x) (nr : Cubic (Quad F)) (tbl : List (Quad F))
    (s : Quad (Cubic (Quad F))) (c0 c1 c4 : Quad F) :
    letI : Mul (Quad F) := ⟨Quad.mul c2.wrap B⟩
    letI : Mul (Cubic (Quad F)) := ⟨Cubic.mul c6.wrap⟩
    Fp12.mulBy014 c6 s c0 c1 c4
      = Quad.mul (Fp12.cfg c6 nr tbl) (Cubic.fieldD c6.wrap (Quad.fieldD c2.wrap B)) s
          ⟨⟨c0, c1, 0⟩, ⟨0, c4, 0⟩⟩ :=
  (Fp12.mulBy014_tower h2 hB hm s c0 c1 c4).trans (Fp12.mul_eq_smul h2 hB hm nr tbl s _).symm

end towers

/-! ## multiplication by elements of sub-layers = product with the embedded element -/
section embed
variable {P F : Type} [CommRing F]

theorem Quad.mulByBase_eq (β : F) (a : Quad F) (e : F) : Quad.mulByBase a e = Quad.smul β a ⟨e, 0⟩ := by
  unfold Quad.mulByBase Quad.smul; congr 1 <;> ring

theorem Quad.mulByPrime_eq (β : F) {B : FieldD P F} (hB : LawfulRing B) (a : Quad F) (e : P) :
    Quad.mulByPrime B a e = Quad.smul β a ⟨B.ofPrime e, 0⟩ := by
  unfold Quad.mulByPrime Quad.smul; simp only [hB.mulByPrime_eq]; congr 1 <;> ring

theorem Cubic.mulByBase_eq (β : F) (a : Cubic F) (e : F) : Cubic.mulByBase a e = Cubic.smul β a ⟨e, 0, 0⟩ := by
  unfold Cubic.mulByBase Cubic.smul; congr 1 <;> ring

theorem Cubic.mulByPrime_eq (β : F) {B : FieldD P F} (hB : LawfulRing B) (a : Cubic F) (e : P) :
    Cubic.mulByPrime B a e = Cubic.smul β a ⟨B.ofPrime e, 0, 0⟩ := by
  unfold Cubic.mulByPrime Cubic.smul; simp only [hB.mulByPrime_eq]; congr 1 <;> ring

theorem Fp2.mulAssignByFp_eq (β : F) (a : Quad F) (e : F) : Fp2.mulAssignByFp a e = Quad.smul β a ⟨e, 0⟩ := by
  unfold Fp2.mulAssignByFp Quad.smul; congr 1 <;> ring

theorem Fp3.mulAssignByFp_eq (β : F) (a : Cubic F) (e : F) :
    Fp3.mulAssignByFp a e = Cubic.smul β a ⟨e, 0, 0⟩ := by
  unfold Fp3.mulAssignByFp Cubic.smul; congr 1 <;> ring

/-- `Fp6::mul_by_fp2` over an abstract commutative Fp2 layer -/
theorem Fp6b.mulByFp2_eq (ξ : F) (a : Cubic F) (e : F) : Fp6b.mulByFp2 a e = Cubic.smul ξ a ⟨e, 0, 0⟩ := by
  unfold Fp6b.mulByFp2 Cubic.smul; congr 1 <;> ring

theorem Fp4.mulByFp_eq (β2 : F) (β4 : Quad F) (a : Quad (Quad F)) (e : F) :
    Fp4.mulByFp a e = Fp4.smul β2 β4 a ⟨⟨e, 0⟩, ⟨0, 0⟩⟩ := by
  unfold Fp4.mulByFp Fp4.smul Fp2.mulAssignByFp
  apply Quad.ext' <;> apply Quad.ext' <;> tower_ring

theorem Fp4.mulByFp2_eq (β2 : F) (β4 : Quad F) (a : Quad (Quad F)) (e : Quad F) :
    letI := Quad.sMul β2
    Fp4.mulByFp2 a e = Fp4.smul β2 β4 a ⟨e, ⟨0, 0⟩⟩ := by
  unfold Fp4.mulByFp2 Fp4.smul
  apply Quad.ext' <;> apply Quad.ext' <;> tower_ring

/-- `Fp4::mul_by_fp2` with the model's own Fp2 multiplication -/
theorem Fp4.mulByFp2_tower {β2 : F} {c2 : Fp2Cfg F} (h2 : c2.wrap.Lawful β2) {B : FieldD P F}
    (hB : LawfulRing B) (β4 : Quad F) (a : Quad (Quad F)) (e : Quad F) :
    letI : Mul (Quad F) := ⟨Quad.mul c2.wrap B⟩
    Fp4.mulByFp2 a e = Fp4.smul β2 β4 a ⟨e, ⟨0, 0⟩⟩ := by
  rw [Quad.mulInst_eq h2 hB]; exact Fp4.mulByFp2_eq β2 β4 a e

theorem Fp6b.mulByFp_eq (β2 : F) (ξ : Quad F) (a : Cubic (Quad F)) (e : F) :
    Fp6b.mulByFp a e = Fp6b.smul β2 ξ a ⟨⟨e, 0⟩, ⟨0, 0⟩, ⟨0, 0⟩⟩ := by
  unfold Fp6b.mulByFp Fp6b.smul Fp2.mulAssignByFp
  apply Cubic.ext' <;> apply Quad.ext' <;> tower_ring

/-- `Fp6::mul_by_fp2` (3-over-2) with the model's own Fp2 multiplication -/
theorem Fp6b.mulByFp2_tower {β2 : F} {c2 : Fp2Cfg F} (h2 : c2.wrap.Lawful β2) {B : FieldD P F}
    (hB : LawfulRing B) (ξ : Quad F) (a : Cubic (Quad F)) (e : Quad F) :
    letI : Mul (Quad F) := ⟨Quad.mul c2.wrap B⟩
    Fp6b.mulByFp2 a e = Fp6b.smul β2 ξ a ⟨e, ⟨0, 0⟩, ⟨0, 0⟩⟩ := by
  rw [Quad.mulInst_eq h2 hB]
  exact @Fp6b.mulByFp2_eq (Quad F) (Quad.commRing β2) ξ a e

theorem Fp12.mulByFp_eq (β2 : F) (ξ : Quad F) (β12 : Cubic (Quad F)) (a : Quad (Cubic (Quad F))) (e : F) :
    Fp12.mulByFp a e
      = Fp12.smul β2 ξ β12 a ⟨⟨⟨e, 0⟩, ⟨0, 0⟩, ⟨0, 0⟩⟩, ⟨⟨0, 0⟩, ⟨0, 0⟩, ⟨0, 0⟩⟩⟩ := by
  unfold Fp12.mulByFp Fp12.smul Fp6b.mulByFp Fp2.mulAssignByFp
  apply Quad.ext' <;> apply Cubic.ext' <;> apply Quad.ext' <;> tower_ring

/-! the rotation hooks as products of the *model* -/

theorem Fp4.mulFp2ByNr_eq_mul {β : F} {c2 : Fp2Cfg F} (h2 : c2.wrap.Lawful β) {B : FieldD P F}
    (hB : LawfulRing B) (x : Quad F) : Fp4.mulFp2ByNr c2 x = Quad.mul c2.wrap B ⟨0, 1⟩ x :=
  (Fp4.mulFp2ByNr_eq h2.mulNr_eq x).trans (Quad.mul_eq_smul h2 hB _ x).symm

theorem Fp6a.mulFp3ByNr_eq_mul {β : F} {c3 : Fp3Cfg F} (hm : ∀ x, c3.mulNr x = β * x) (x : Cubic F) :
    Fp6a.mulFp3ByNr c3 x = Cubic.mul c3.wrap ⟨0, 1, 0⟩ x :=
  (Fp6a.mulFp3ByNr_eq hm x).trans (Cubic.mul_eq_smul (cfg := c3.wrap) hm _ x).symm

theorem Fp12.mulFp6ByNr_eq_mul {ξ : F} {c6 : Fp6bCfg F} (hm : ∀ x, c6.mulNr x = ξ * x) (x : Cubic F) :
    Fp12.mulFp6ByNr c6 x = Cubic.mul c6.wrap ⟨0, 1, 0⟩ x :=
  (Fp12.mulFp6ByNr_eq hm x).trans (Cubic.mul_eq_smul (cfg := c6.wrap) hm _ x).symm

/-- `Fp12Config::mul_fp6_by_nonresidue_in_place` inside the tower (model's own Fp2 multiplication) -/
theorem Fp12.mulFp6ByNr_tower {β2 : F} {c2 : Fp2Cfg F} (h2 : c2.wrap.Lawful β2) {B : FieldD P F}
    (hB : LawfulRing B) {ξ : Quad F} {c6 : Fp6bCfg (Quad F)} (hm : ∀ x, c6.mulNr x = Quad.smul β2 ξ x)
    (x : Cubic (Quad F)) :
    letI : Mul (Quad F) := ⟨Quad.mul c2.wrap B⟩
    Fp12.mulFp6ByNr c6 x = Cubic.mul c6.wrap ⟨0, 1, 0⟩ x := by
  rw [Quad.mulInst_eq h2 hB]
  exact @Fp12.mulFp6ByNr_eq_mul (Quad F) (Quad.commRing β2) ξ c6 hm x

/-! the constant `NONRESIDUE` of an `ofMulNr`-style configuration is read by `square` only -/

theorem Quad.mul_ofMulNr {γ : F} {f : F → F} (hf : ∀ x, f x = γ * x) (nr : F) (mfc : F → Nat → Outcome F)
    {B : FieldD P F} (hB : LawfulRing B) (a b : Quad F) :
    Quad.mul (QuadCfg.ofMulNr nr f mfc) B a b = Quad.smul γ a b :=
  Quad.mul_eq_smul (QuadCfg.ofMulNr_lawful hf mfc) hB a b

theorem Quad.square_ofMulNr_negOne [DecidableEq F] (f : F → F) (mfc : F → Nat → Outcome F)
    {B : FieldD P F} (hB : LawfulRing B) (a : Quad F) :
    Quad.square (QuadCfg.ofMulNr (-1) f mfc) B a = Quad.smul (-1) a a :=
  Quad.square_complex rfl hB.double_eq a

end embed

end Ark.Ext
