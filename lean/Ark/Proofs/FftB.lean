import Ark.Model.Fft
import Ark.Proofs.FieldOps
import Mathlib.Algebra.Field.Basic
import Mathlib.Tactic.Ring
import Mathlib.Tactic.FieldSimp
import Mathlib.Tactic.Linarith
import Mathlib.Tactic.NormNum
import Mathlib.Data.Nat.Log
import Mathlib.GroupTheory.OrderOfElement
import Mathlib.RingTheory.RootsOfUnity.PrimitiveRoots
/-
  Ark.Proofs.FftB — helper lemmas for property C07 (part b): evaluation-domain construction,
  vanishing polynomial, Lagrange coefficients, re-indexing and the mixed-radix FFT of
  `Ark.Model.Fft`, proved over an abstract `[Field F]`.
-/
set_option linter.unusedSectionVars false
set_option linter.unusedVariables false

namespace Ark.Fft
open Ark

/-! ## integer helpers -/

theorem U64_eq : U64 = 2 ^ 64 := rfl

theorem isPowerOfTwo_iff (x : Nat) : isPowerOfTwo x = true ↔ ∃ k, x = 2 ^ k := by
  unfold isPowerOfTwo
  constructor
  · intro h
    simp only [Bool.and_eq_true, bne_iff_ne, ne_eq, beq_iff_eq] at h
    exact ⟨x.log2, h.2.symm⟩
  · rintro ⟨k, rfl⟩
    simp only [Bool.and_eq_true, bne_iff_ne, ne_eq, beq_iff_eq, Nat.log2_two_pow, and_true]
    exact (Nat.two_pow_pos k).ne'

/-- the model's `log2` is the ceiling logarithm `Nat.clog 2` -/
theorem log2_eq_clog (x : Nat) : log2 x = Nat.clog 2 x := by
  unfold log2
  by_cases h0 : x = 0
  · simp [h0]
  · rw [if_neg h0]
    by_cases hp : isPowerOfTwo x = true
    · rw [if_pos hp]
      obtain ⟨k, rfl⟩ := (isPowerOfTwo_iff x).1 hp
      rw [Nat.log2_two_pow, Nat.clog_pow 2 k (by norm_num)]
    · rw [if_neg hp]
      symm
      have hlt : 2 ^ x.log2 < x := by
        have h1 : 2 ^ x.log2 ≤ x := Nat.log2_self_le h0
        rcases Nat.lt_or_ge (2 ^ x.log2) x with h | h
        · exact h
        · exact absurd ((isPowerOfTwo_iff x).2 ⟨x.log2, le_antisymm h h1⟩) hp
      have hub : x < 2 ^ (x.log2 + 1) := Nat.lt_log2_self
      apply le_antisymm
      · exact (Nat.clog_le_iff_le_pow (by norm_num)).2 hub.le
      · by_contra hc
        have : Nat.clog 2 x ≤ x.log2 := by omega
        have h2 := (Nat.clog_le_iff_le_pow (b := 2) (by norm_num)).1 this
        omega

theorem le_two_pow_clog (n : Nat) : n ≤ 2 ^ Nat.clog 2 n := Nat.le_pow_clog (by norm_num) n

theorem nextPowerOfTwo_eq (n : Nat) :
    nextPowerOfTwo n = if Nat.clog 2 n < 64 then 2 ^ Nat.clog 2 n else 0 := by
  unfold nextPowerOfTwo checkedNextPowerOfTwo
  by_cases h1 : n ≤ 1
  · rw [if_pos h1]
    have : Nat.clog 2 n = 0 := Nat.clog_of_right_le_one h1 2
    simp [this]
  · rw [if_neg h1, log2_eq_clog]
    by_cases h : Nat.clog 2 n < 64
    · have h' : 2 ^ Nat.clog 2 n < U64 := Nat.pow_lt_pow_right (by norm_num) h
      rw [if_pos h, if_pos h']; rfl
    · have h' : ¬ 2 ^ Nat.clog 2 n < U64 := fun hc =>
        h ((Nat.pow_lt_pow_iff_right (by norm_num)).1 hc)
      rw [if_neg h, if_neg h']; rfl

theorem trailingZerosAux_two_pow (k : Nat) : ∀ (fuel r : Nat), k < fuel →
    trailingZerosAux fuel (2 ^ k) r = r + k := by
  induction k with
  | zero =>
    intro fuel r h
    obtain ⟨f, rfl⟩ : ∃ f, fuel = f + 1 := ⟨fuel - 1, by omega⟩
    simp [trailingZerosAux]
  | succ k ih =>
    intro fuel r h
    obtain ⟨f, rfl⟩ : ∃ f, fuel = f + 1 := ⟨fuel - 1, by omega⟩
    have e1 : 2 ^ (k + 1) % 2 = 0 := by rw [Nat.pow_succ]; omega
    have e2 : 2 ^ (k + 1) / 2 = 2 ^ k := by rw [Nat.pow_succ]; omega
    rw [trailingZerosAux, if_pos e1, e2, ih f (r + 1) (by omega)]
    omega

theorem trailingZeros_two_pow (k : Nat) (hk : k < 64) : trailingZeros (2 ^ k) = k := by
  unfold trailingZeros
  rw [if_neg (Nat.two_pow_pos k).ne', trailingZerosAux_two_pow k 64 0 hk]
  omega

theorem trailingZeros_zero : trailingZeros 0 = 64 := rfl

/-! ## `k_adicity` -/

theorem kAdicityAux_spec (q : Nat) (hq : 2 ≤ q) (m : Nat) (hm : 1 ≤ m) (hqm : ¬ q ∣ m) :
    ∀ (b fuel r : Nat), b ≤ fuel → kAdicityAux q fuel (q ^ b * m) r = r + b := by
  intro b
  induction b with
  | zero =>
    intro fuel r _
    cases fuel with
    | zero => rfl
    | succ f =>
      simp only [pow_zero, one_mul, Nat.add_zero]
      rw [kAdicityAux]
      split
      · rw [if_neg]
        intro h
        exact hqm (Nat.dvd_of_mod_eq_zero h)
      · rfl
  | succ b ih =>
    intro fuel r h
    obtain ⟨f, rfl⟩ : ∃ f, fuel = f + 1 := ⟨fuel - 1, by omega⟩
    have hpos : 0 < q ^ b * m := Nat.mul_pos (Nat.pow_pos (by omega)) hm
    have e : q ^ (b + 1) * m = q * (q ^ b * m) := by ring
    have h1 : q ^ (b + 1) * m > 1 := by rw [e]; nlinarith
    have h2 : q ^ (b + 1) * m % q = 0 := by rw [e]; exact Nat.mul_mod_right _ _
    have h3 : q ^ (b + 1) * m / q = q ^ b * m := by
      rw [e]; exact Nat.mul_div_cancel_left _ (by omega)
    rw [kAdicityAux, if_pos h1, if_pos h2, h3, ih f (r + 1) (by omega)]
    omega

theorem kAdicity_spec (q : Nat) (hq : 2 ≤ q) (m b : Nat) (hm : 1 ≤ m) (hqm : ¬ q ∣ m)
    (hb : b ≤ 64) : kAdicity q (q ^ b * m) = b := by
  unfold kAdicity
  rw [kAdicityAux_spec q hq m hm hqm b 64 0 hb]; omega

/-! ## `pow`, `iter` over a field -/

theorem bitsToNat_testBit (n : Nat) : ∀ e : Nat,
    bitsToNat ((List.range n).map (fun i => e.testBit i)) = e % 2 ^ n := by
  induction n with
  | zero => intro e; simp [bitsToNat, Nat.mod_one]
  | succ n ih =>
    intro e
    rw [List.range_succ_eq_map, List.map_cons, List.map_map, bitsToNat]
    have : ((fun i => e.testBit i) ∘ Nat.succ) = fun i => (e / 2).testBit i := by
      funext i; simp [Nat.testBit_add_one]
    rw [this, ih (e / 2), Nat.testBit_zero]
    have h2 : e % 2 ^ (n + 1) = e % 2 + 2 * (e / 2 % 2 ^ n) := by
      rw [Nat.pow_succ, Nat.mul_comm, Nat.mod_mul]
    rw [h2]
    rcases Nat.mod_two_eq_zero_or_one e with h | h <;> simp [h]

theorem bitsValBE_bitsBE64 (e : Nat) : bitsValBE (bitsBE64 e) = e % 2 ^ 64 := by
  rw [bitsValBE_eq_bitsToNat_reverse, bitsBE64, ← List.map_reverse, List.reverse_reverse,
    bitsToNat_testBit]

section Field
variable {F : Type} [Field F] [DecidableEq F]

/-- the identity interpretation of `fieldOps` over a field -/
def fieldInterp : (fieldOps F).Interp F where
  V := fun _ => True
  φ := id
  one_V := trivial
  one_φ := rfl
  mul_V := fun _ _ => trivial
  mul_φ := fun _ _ => rfl
  square_V := fun _ => trivial
  square_φ := fun _ => rfl
  isZero_iff := fun _ => by simp [fieldOps]
  inv_some := fun {a} _ h => ⟨a⁻¹, by simp only [id] at h; simp [fieldOps, h], trivial, rfl⟩

theorem pow_eq_mod (a : F) (e : Nat) : pow a e = a ^ (e % 2 ^ 64) := by
  have h := (Ops.pow_correct (fieldInterp (F := F)) (a := a) trivial (bitsBE64 e)).2
  rw [bitsValBE_bitsBE64] at h
  exact h

theorem pow_eq (a : F) (e : Nat) (he : e < 2 ^ 64) : pow a e = a ^ e := by
  rw [pow_eq_mod, Nat.mod_eq_of_lt he]

theorem iter_sq (k : Nat) : ∀ x : F, iter (fun w => w * w) k x = x ^ (2 ^ k) := by
  induction k with
  | zero => intro x; simp [iter]
  | succ k ih => intro x; rw [iter, ih, pow_succ 2 k, ← pow_two, ← pow_mul]; ring_nf

theorem iter_pow (q : Nat) (hq : q < 2 ^ 64) (k : Nat) :
    ∀ x : F, iter (fun w => pow w q) k x = x ^ (q ^ k) := by
  induction k with
  | zero => intro x; simp [iter]
  | succ k ih => intro x; rw [iter, ih, pow_eq _ _ hq, ← pow_mul, pow_succ q k, Nat.mul_comm]

theorem inv?_zero : inv? (0 : F) = none := by simp [inv?]
theorem inv?_ne {a : F} (h : a ≠ 0) : inv? a = some a⁻¹ := by simp [inv?, h]

end Field

/-! ## well-formed parameters and `get_root_of_unity` -/
section Field
variable {F : Type} [Field F] [DecidableEq F]

/-- Well-formed `FftField` constants: `TWO_ADIC_ROOT_OF_UNITY` has order exactly
    `2^TWO_ADICITY`; when a `LARGE_SUBGROUP_ROOT_OF_UNITY` is present so are the small subgroup
    base `q` (odd, `≥ 3`, a `u32`/`u64`) and adicity `k`, and the large root has order exactly
    `2^TWO_ADICITY · q^k`. -/
structure Params.WF (P : Params F) : Prop where
  root_order : orderOf P.twoAdicRoot = 2 ^ P.twoAdicity
  large : ∀ w, P.largeRoot = some w →
    ∃ q k, P.smallBase = some q ∧ P.smallAdicity = some k ∧ 2 ≤ q ∧ q % 2 = 1 ∧ q < 2 ^ 64 ∧
      orderOf w = 2 ^ P.twoAdicity * q ^ k

theorem not_dvd_two_pow_of_odd {q : Nat} (hq : 2 ≤ q) (hodd : q % 2 = 1) (a : Nat) : ¬ q ∣ 2 ^ a := by
  intro h
  have hc : Nat.Coprime q (2 ^ a) := by
    apply Nat.Coprime.pow_right
    rw [Nat.coprime_two_right, Nat.odd_iff]; exact hodd
  have := Nat.Coprime.eq_one_of_dvd hc h
  omega

theorem not_two_dvd_odd_pow {q : Nat} (hodd : q % 2 = 1) (b : Nat) : ¬ 2 ∣ q ^ b := by
  intro h
  have : (q ^ b) % 2 = 1 := by rw [Nat.pow_mod, hodd]; simp
  omega

theorem exp_lt_64 {q : Nat} (hq : 2 ≤ q) {b n : Nat} (h : q ^ b ≤ n) (hn : n < 2 ^ 64) : b < 64 := by
  by_contra hc
  have h1 : 2 ^ 64 ≤ 2 ^ b := Nat.pow_le_pow_right (by norm_num) (by omega)
  have h2 : 2 ^ b ≤ q ^ b := Nat.pow_le_pow_left hq b
  omega

theorem checkedPow_of_lt {b e : Nat} (h : b ^ e < 2 ^ 64) : checkedPow b e = some (b ^ e) := by
  unfold checkedPow; rw [if_pos (by rw [U64_eq]; exact h)]

theorem orderOf_pow_pow {x : F} {N m : Nat} (hx : orderOf x = N * m) (hm : 0 < m) :
    orderOf (x ^ m) = N := by
  rw [orderOf_pow_of_dvd hm.ne' (by rw [hx]; exact Dvd.intro_left N rfl), hx,
    Nat.mul_div_cancel _ hm]

/-- `get_root_of_unity` with a large subgroup root: for `n = 2^a · q^b` (`a ≤ s`, `b ≤ k`,
    `n < 2^64`) it returns an element of order exactly `n` -/
theorem getRootOfUnity_large (P : Params F) (w : F) (q k : Nat) (hw : P.largeRoot = some w)
    (hq : P.smallBase = some q) (hk : P.smallAdicity = some k) (hq2 : 2 ≤ q) (hodd : q % 2 = 1)
    (hq64 : q < 2 ^ 64) (hord : orderOf w = 2 ^ P.twoAdicity * q ^ k)
    (a b : Nat) (ha : a ≤ P.twoAdicity) (hb : b ≤ k) (hn : 2 ^ a * q ^ b < 2 ^ 64) :
    getRootOfUnity P (2 ^ a * q ^ b) = .ok (some ((w ^ (q ^ (k - b))) ^ (2 ^ (P.twoAdicity - a)))) ∧
    orderOf ((w ^ (q ^ (k - b))) ^ (2 ^ (P.twoAdicity - a))) = 2 ^ a * q ^ b := by
  have hqpos : 0 < q := by omega
  have hqb : q ^ b ≤ 2 ^ a * q ^ b := Nat.le_mul_of_pos_left _ (Nat.two_pow_pos a)
  have h2a : 2 ^ a ≤ 2 ^ a * q ^ b := Nat.le_mul_of_pos_right _ (Nat.pow_pos hqpos)
  have hb64 : b < 64 := exp_lt_64 hq2 hqb hn
  have ha64 : a < 64 := exp_lt_64 (le_refl 2) h2a hn
  have hkq : kAdicity q (2 ^ a * q ^ b) = b := by
    rw [Nat.mul_comm]
    exact kAdicity_spec q hq2 (2 ^ a) b (Nat.two_pow_pos a) (not_dvd_two_pow_of_odd hq2 hodd a)
      (by omega)
  have hk2 : kAdicity 2 (2 ^ a * q ^ b) = a :=
    kAdicity_spec 2 (le_refl 2) (q ^ b) a (Nat.pow_pos hqpos) (not_two_dvd_odd_pow hodd b) (by omega)
  constructor
  · unfold getRootOfUnity
    simp only [hw, hq, hk, hkq, hk2]
    rw [checkedPow_of_lt (lt_of_le_of_lt hqb hn), checkedPow_of_lt (lt_of_le_of_lt h2a hn)]
    simp only
    have hmod : (2 ^ a * q ^ b) % U64 = 2 ^ a * q ^ b := Nat.mod_eq_of_lt (by rw [U64_eq]; exact hn)
    rw [if_neg (by rw [hmod]; omega), iter_pow q hq64, iter_sq]
  · have e1 : orderOf (w ^ (q ^ (k - b))) = 2 ^ P.twoAdicity * q ^ b := by
      apply orderOf_pow_pow _ (Nat.pow_pos hqpos)
      rw [hord, Nat.mul_assoc, ← pow_add]; congr 2; omega
    have e2 : 2 ^ P.twoAdicity * q ^ b = (2 ^ a * q ^ b) * 2 ^ (P.twoAdicity - a) := by
      rw [Nat.mul_right_comm, ← pow_add]; congr 2; omega
    exact orderOf_pow_pow (e1.trans e2) (Nat.two_pow_pos _)

/-- `get_root_of_unity` without a large subgroup root, on a power of two `2^a`, `a ≤ s` -/
theorem getRootOfUnity_small (P : Params F) (hw : P.largeRoot = none)
    (hord : orderOf P.twoAdicRoot = 2 ^ P.twoAdicity) (a : Nat) (ha : a ≤ P.twoAdicity)
    (ha64 : a < 64) :
    getRootOfUnity P (2 ^ a) = .ok (some (P.twoAdicRoot ^ (2 ^ (P.twoAdicity - a)))) ∧
    orderOf (P.twoAdicRoot ^ (2 ^ (P.twoAdicity - a))) = 2 ^ a := by
  constructor
  · unfold getRootOfUnity
    simp only [hw]
    have e : nextPowerOfTwo (2 ^ a) = 2 ^ a := by
      rw [nextPowerOfTwo_eq, Nat.clog_pow 2 a (by norm_num), if_pos ha64]
    have e2 : log2 (2 ^ a) = a := by rw [log2_eq_clog, Nat.clog_pow 2 a (by norm_num)]
    rw [e, e2, if_neg (by omega), iter_sq]
  · apply orderOf_pow_pow _ (Nat.two_pow_pos _)
    rw [hord, ← pow_add]; congr 1; omega

/-- on `0` (the wrapped `next_power_of_two`) `get_root_of_unity` returns `None` or panics only
    on an inconsistent configuration -/
theorem getRootOfUnity_zero (P : Params F) (hP : P.WF) : getRootOfUnity P 0 = .ok none := by
  unfold getRootOfUnity
  cases hw : P.largeRoot with
  | none => simp [nextPowerOfTwo, checkedNextPowerOfTwo]
  | some w =>
    obtain ⟨q, k, hq, hk, -, -, -, -⟩ := hP.large w hw
    simp [hq, hk, kAdicity, kAdicityAux, checkedPow, U64]

/-- under well-formed parameters, on `2^a · q^b` resp. `2^a` the root exists with the right order -/
theorem getRootOfUnity_two_pow (P : Params F) (hP : P.WF) (a : Nat) (ha : a ≤ P.twoAdicity)
    (ha64 : a < 64) : ∃ g, getRootOfUnity P (2 ^ a) = .ok (some g) ∧ orderOf g = 2 ^ a := by
  cases hw : P.largeRoot with
  | none => exact ⟨_, getRootOfUnity_small P hw hP.root_order a ha ha64⟩
  | some w =>
    obtain ⟨q, k, hq, hk, hq2, hodd, hq64, hord⟩ := hP.large w hw
    have := getRootOfUnity_large P w q k hw hq hk hq2 hodd hq64 hord a 0 ha (Nat.zero_le _)
      (by simpa using Nat.pow_lt_pow_right (by norm_num) ha64)
    simp only [pow_zero, mul_one] at this
    exact ⟨_, this⟩

end Field

/-! ## domains -/
section Field
variable {F : Type} [Field F] [DecidableEq F]

/-- the invariant of a constructed domain (any offset): the nine struct fields are coherent -/
structure Domain.Good (d : Domain F) : Prop where
  size_pos : 0 < d.size
  size_lt : d.size < 2 ^ 64
  sizeF : d.sizeAsFieldElement = (d.size : F)
  sizeInv : d.sizeInv * (d.size : F) = 1
  gen_order : orderOf d.groupGen = d.size
  genInv : d.groupGenInv * d.groupGen = 1
  offInv : d.offsetInv * d.offset = 1
  offPow : d.offsetPowSize = d.offset ^ d.size

theorem natCast_ne_zero_of_orderOf {g : F} {N : Nat} (hN : 0 < N) (hg : orderOf g = N) :
    ((N : Nat) : F) ≠ 0 := by
  have hp : IsPrimitiveRoot g N := hg ▸ IsPrimitiveRoot.orderOf g
  have : NeZero N := ⟨hN.ne'⟩
  exact (hp.neZero').ne

theorem ne_zero_of_orderOf {g : F} {N : Nat} (hN : 0 < N) (hg : orderOf g = N) : g ≠ 0 := by
  rintro rfl
  have h1 : (0 : F) ^ N = 1 := hg ▸ pow_orderOf_eq_one (0 : F)
  rw [zero_pow hN.ne'] at h1
  exact zero_ne_one h1

/-- the record built at the end of `Radix2EvaluationDomain::new` / `MixedRadixEvaluationDomain::new` -/
def mkDom (g : F) (N lg : Nat) : Domain F :=
  { size := N, logSizeOfGroup := lg, sizeAsFieldElement := (N : F),
    sizeInv := ((N : F))⁻¹, groupGen := g, groupGenInv := g⁻¹,
    offset := 1, offsetInv := 1, offsetPowSize := 1 }

theorem mkDomain_good {g : F} {N lg : Nat} (hN : 0 < N) (hlt : N < 2 ^ 64) (hg : orderOf g = N) :
    inv? ((N : Nat) : F) = some ((N : F))⁻¹ ∧ inv? g = some g⁻¹ ∧ Domain.Good (mkDom g N lg) := by
  have h1 := natCast_ne_zero_of_orderOf hN hg
  have h2 := ne_zero_of_orderOf hN hg
  refine ⟨inv?_ne h1, inv?_ne h2, ⟨hN, hlt, rfl, ?_, hg, ?_, ?_, ?_⟩⟩
  · exact inv_mul_cancel₀ h1
  · exact inv_mul_cancel₀ h2
  · simp [mkDom]
  · simp [mkDom]

/-- the complete specification of `Radix2EvaluationDomain::new` under well-formed parameters -/
theorem radix2New_cases (P : Params F) (hP : P.WF) (n : Nat) :
    (radix2New P n = .ok none ∧ (P.twoAdicity < Nat.clog 2 n ∨ 64 ≤ Nat.clog 2 n)) ∨
    (Nat.clog 2 n ≤ P.twoAdicity ∧ Nat.clog 2 n < 64 ∧
      ∃ g : F, orderOf g = 2 ^ Nat.clog 2 n ∧
        radix2New P n = .ok (some (mkDom g (2 ^ Nat.clog 2 n) (Nat.clog 2 n)))) := by
  unfold radix2New
  rw [nextPowerOfTwo_eq]
  by_cases h64 : Nat.clog 2 n < 64
  · rw [if_pos h64]
    simp only [trailingZeros_two_pow _ h64]
    by_cases hs : Nat.clog 2 n ≤ P.twoAdicity
    · right
      refine ⟨hs, h64, ?_⟩
      obtain ⟨g, hg, hord⟩ := getRootOfUnity_two_pow P hP _ hs h64
      obtain ⟨e1, e2, -⟩ := mkDomain_good (lg := Nat.clog 2 n) (Nat.two_pow_pos _)
        (Nat.pow_lt_pow_right (by norm_num) h64) hord
      refine ⟨g, hord, ?_⟩
      rw [if_neg (by omega), hg]
      simp only [e1, e2, mkDom]
    · left
      rw [if_pos (by omega)]
      exact ⟨rfl, Or.inl (by omega)⟩
  · left
    rw [if_neg h64]
    refine ⟨?_, Or.inr (by omega)⟩
    simp only [trailingZeros_zero, getRootOfUnity_zero P hP]
    split <;> rfl

end Field

/-! ## cosets, elements, `GeneralEvaluationDomain::new` -/
section Field
variable {F : Type} [Field F] [DecidableEq F]

theorem mkDom_offsets (g : F) (N lg : Nat) :
    (mkDom g N lg).offset = 1 ∧ (mkDom g N lg).offsetInv = 1 ∧ (mkDom g N lg).offsetPowSize = 1 :=
  ⟨rfl, rfl, rfl⟩

theorem getCoset_zero (d : Domain F) : getCoset d 0 = none := by
  simp [getCoset, inv?_zero]

theorem getCoset_ne (d : Domain F) (hlt : d.size < 2 ^ 64) {h : F} (hh : h ≠ 0) :
    getCoset d h = some { d with offset := h, offsetInv := h⁻¹, offsetPowSize := h ^ d.size } := by
  simp only [getCoset, inv?_ne hh, pow_eq _ _ hlt]

theorem getCoset_good (d : Domain F) (hd : d.Good) {h : F} (hh : h ≠ 0) :
    ∃ d', getCoset d h = some d' ∧ d'.Good ∧ d'.size = d.size ∧
      d'.logSizeOfGroup = d.logSizeOfGroup ∧ d'.groupGen = d.groupGen ∧
      d'.groupGenInv = d.groupGenInv ∧ d'.sizeInv = d.sizeInv ∧
      d'.sizeAsFieldElement = d.sizeAsFieldElement ∧
      d'.offset = h ∧ d'.offsetInv * h = 1 ∧ d'.offsetPowSize = h ^ d.size := by
  refine ⟨_, getCoset_ne d hd.size_lt hh, ⟨hd.size_pos, hd.size_lt, hd.sizeF, hd.sizeInv,
    hd.gen_order, hd.genInv, inv_mul_cancel₀ hh, rfl⟩, rfl, rfl, rfl, rfl, rfl, rfl, rfl,
    inv_mul_cancel₀ hh, rfl⟩

theorem element_eq (d : Domain F) (i : Nat) (hi : i < 2 ^ 64) :
    element d i = d.offset * d.groupGen ^ i := by
  unfold element
  simp only [pow_eq _ _ hi]
  by_cases h : d.offset = 1
  · simp [h]
  · simp only [ne_eq, h, not_false_eq_true, if_true]; ring

theorem elementsAux_eq (g : F) (n : Nat) : ∀ cur : F,
    elementsAux g n cur = (List.range n).map (fun i => cur * g ^ i) := by
  induction n with
  | zero => intro cur; rfl
  | succ n ih =>
    intro cur
    rw [elementsAux, ih, List.range_succ_eq_map, List.map_cons, List.map_map]
    simp only [pow_zero, mul_one, List.cons.injEq, true_and]
    apply List.map_congr_left
    intro i _
    simp only [Function.comp, Nat.succ_eq_add_one, pow_succ]; ring

theorem elements_eq (d : Domain F) :
    elements d = (List.range d.size).map (fun i => d.offset * d.groupGen ^ i) :=
  elementsAux_eq _ _ _

theorem elements_eq_map_element (d : Domain F) (hlt : d.size ≤ 2 ^ 64) :
    elements d = (List.range d.size).map (element d) := by
  rw [elements_eq]
  apply List.map_congr_left
  intro i hi
  rw [element_eq d i (lt_of_lt_of_le (List.mem_range.1 hi) hlt)]

theorem elements_length (d : Domain F) : (elements d).length = d.size := by
  rw [elements_eq]; simp

/-- `GeneralEvaluationDomain::new` = the radix-2 domain when that exists, else the mixed one
    (tried only when the field has a small subgroup) -/
theorem generalNew_eq (P : Params F) (n : Nat) :
    generalNew P n =
      match radix2New P n with
      | .panic => .panic
      | .ok (some d) => .ok (some (.radix2 d))
      | .ok none =>
        if P.smallBase.isSome then
          (match mixedNew P n with
           | .panic => .panic
           | .ok (some d) => .ok (some (.mixedRadix d))
           | .ok none => .ok none)
        else .ok none := rfl

theorem generalNew_of_radix2_some (P : Params F) (n : Nat) (d : Domain F)
    (h : radix2New P n = .ok (some d)) : generalNew P n = .ok (some (.radix2 d)) := by
  simp only [generalNew, h]

theorem generalNew_of_radix2_none (P : Params F) (n : Nat) (h : radix2New P n = .ok none) :
    generalNew P n = (match mixedNew P n with
      | .panic => .panic
      | .ok (some d) => .ok (some (.mixedRadix d))
      | .ok none => .ok none) := by
  simp only [generalNew, h]
  cases hb : P.smallBase with
  | none => simp [mixedNew, hb]
  | some q =>
    simp only [Option.isSome_some, if_true]
    cases mixedNew P n with
    | panic => rfl
    | ok o => cases o <;> rfl

end Field

end Ark.Fft
